// maprange: inventory of every place where non-test code under <repo>/modules iterates a Go map
// (property C45, determinism).  Go randomises map iteration order per `range`, so each such site
// must compute an order-independent result; Props/C45.lean holds one permutation-invariance
// theorem per site plus the table `sites` of (stable id, hash of the enclosing function, theorem).
//
//	maprange -repo /repo -table /verif/lean/IbcVerif/Props/C45.lean [-json out.json]
//	    compares the inventory of the current working tree with the table and exits 1 listing
//	    new / changed / removed sites (obligation "every inventoried site has a lemma" broken);
//	maprange -repo /repo -print
//	    prints the inventory as Lean table rows.
//
// What is inventoried (typed with go/types; imports resolved from `go list -export` data, so the
// tool needs nothing but the standard library):
//   - `for … range X` where X's type (or the core type of its type parameter) is a map;
//   - `for … range X` whose operand could not be typed (listed as kind "unknown": conservative);
//   - calls that expose map order without a range statement: maps.Keys/Values/All (std and
//     x/exp), reflect Value.MapKeys/MapRange, sync.Map.Range.
//
// Scope: all .go files below <repo>/modules except *_test.go and generated *.pb.go, *.pb.gw.go,
// *.pulsar.go.  The nested Go module modules/light-clients/08-wasm is loaded as its own module and
// included.  Directories named `testing` (the test-support simapps / mocks under
// modules/apps/callbacks/testing and modules/light-clients/08-wasm/testing, which are compiled only
// into test binaries and demo `simd` commands) are inventoried and printed as "test-support" but
// carry no proof obligation.  Files that `go list` does not compile for the default build (other build tags) get a
// purely syntactic pass: every `range X` whose operand is not syntactically a slice/array/string
// literal, a make([]T..)/[]T(..) expression or an integer literal is listed as "unknown".
//
// The stable id is <relpath>:<func>:<n> (n-th site inside that function, source order); the hash
// is the first 16 hex digits of sha256 over the comment-free, whitespace-normalised text of the
// whole enclosing function, so editing the loop body or what happens to its result afterwards
// (e.g. dropping a sort) changes the hash and the row has to be re-confirmed by hand.
package main

import (
	"bytes"
	"crypto/sha256"
	"encoding/hex"
	"encoding/json"
	"flag"
	"fmt"
	"go/ast"
	"go/importer"
	"go/parser"
	"go/printer"
	"go/token"
	"go/types"
	"io"
	"os"
	"os/exec"
	"path/filepath"
	"regexp"
	"sort"
	"strings"
)

type Site struct {
	ID      string `json:"id"`
	File    string `json:"file"`
	Func    string `json:"func"`
	N       int    `json:"n"`
	Line    int    `json:"line"` // informational only; not compared
	Kind    string `json:"kind"` // map | unknown | mapiter-call
	Operand string `json:"operand"`
	Type    string `json:"type"`
	Hash    string `json:"hash"`
	Typed   bool   `json:"typed"`
	Support bool   `json:"test_support"` // below a `testing` directory: listed, no obligation
}

type listPkg struct {
	ImportPath string
	Export     string
	Dir        string
	GoFiles    []string
	CgoFiles   []string
	Error      *struct{ Err string }
}

func excluded(name string) bool {
	return !strings.HasSuffix(name, ".go") || strings.HasSuffix(name, "_test.go") || strings.HasSuffix(name, ".pb.go") ||
		strings.HasSuffix(name, ".pb.gw.go") || strings.HasSuffix(name, ".pulsar.go")
}

func goList(dir, pattern string) ([]listPkg, error) {
	cmd := exec.Command("go", "list", "-e", "-export", "-deps", "-json=ImportPath,Export,Dir,GoFiles,CgoFiles,Error", pattern)
	cmd.Dir = dir
	cmd.Env = append(os.Environ(), "GOFLAGS=-mod=mod", "GOPROXY=off")
	var stderr bytes.Buffer
	cmd.Stderr = &stderr
	out, err := cmd.Output()
	if err != nil {
		return nil, fmt.Errorf("go list in %s: %v\n%s", dir, err, tail(stderr.String(), 3000))
	}
	dec := json.NewDecoder(bytes.NewReader(out))
	var pkgs []listPkg
	for {
		var p listPkg
		if err := dec.Decode(&p); err == io.EOF {
			break
		} else if err != nil {
			return nil, err
		}
		pkgs = append(pkgs, p)
	}
	return pkgs, nil
}

func tail(s string, n int) string {
	if len(s) > n {
		return s[len(s)-n:]
	}
	return s
}

var wsRe = regexp.MustCompile(`\s+`)

func normText(fset *token.FileSet, n ast.Node) string {
	var buf bytes.Buffer
	if fd, ok := n.(*ast.FuncDecl); ok {
		c := *fd
		c.Doc = nil
		n = &c
	}
	printer.Fprint(&buf, fset, n) // comments live in ast.File.Comments, so a bare node prints without them
	return strings.TrimSpace(wsRe.ReplaceAllString(buf.String(), " "))
}

func hashText(s string) string {
	h := sha256.Sum256([]byte(s))
	return hex.EncodeToString(h[:])[:16]
}

func recvName(fd *ast.FuncDecl) string {
	if fd.Recv == nil || len(fd.Recv.List) == 0 {
		return fd.Name.Name
	}
	t := fd.Recv.List[0].Type
	for {
		switch x := t.(type) {
		case *ast.StarExpr:
			t = x.X
			continue
		case *ast.IndexExpr:
			t = x.X
			continue
		case *ast.IndexListExpr:
			t = x.X
			continue
		case *ast.ParenExpr:
			t = x.X
			continue
		}
		break
	}
	if id, ok := t.(*ast.Ident); ok {
		return id.Name + "." + fd.Name.Name
	}
	return fd.Name.Name
}

// coreIsMap: 1 = map, 0 = not a map, -1 = cannot tell
func coreIsMap(t types.Type) int {
	if t == nil {
		return -1
	}
	if b, ok := t.(*types.Basic); ok && b.Kind() == types.Invalid {
		return -1
	}
	switch u := t.Underlying().(type) {
	case *types.Map:
		return 1
	case *types.Interface:
		// a type parameter: look at the type set
		if _, isTP := types.Unalias(t).(*types.TypeParam); !isTP {
			return 0 // ranging over an interface value does not type-check anyway
		}
		anyMap, unknown := false, false
		n := 0
		for i := 0; i < u.NumEmbeddeds(); i++ {
			switch e := u.EmbeddedType(i).(type) {
			case *types.Union:
				for j := 0; j < e.Len(); j++ {
					n++
					switch coreIsMap(e.Term(j).Type()) {
					case 1:
						anyMap = true
					case -1:
						unknown = true
					}
				}
			default:
				n++
				switch coreIsMap(e) {
				case 1:
					anyMap = true
				case -1:
					unknown = true
				}
			}
		}
		if anyMap {
			return 1
		}
		if unknown || n == 0 {
			return -1
		}
		return 0
	}
	return 0
}

// syntactically certain non-map range operands (used only when no type information exists)
func syntacticNonMap(e ast.Expr) bool {
	switch x := e.(type) {
	case *ast.ParenExpr:
		return syntacticNonMap(x.X)
	case *ast.BasicLit:
		return x.Kind == token.STRING || x.Kind == token.INT
	case *ast.CompositeLit:
		if at, ok := x.Type.(*ast.ArrayType); ok {
			_ = at
			return true
		}
	case *ast.SliceExpr:
		return true // s[a:b] is never a map
	case *ast.CallExpr:
		if id, ok := x.Fun.(*ast.Ident); ok && id.Name == "make" && len(x.Args) > 0 {
			_, isArr := x.Args[0].(*ast.ArrayType)
			_, isChan := x.Args[0].(*ast.ChanType)
			return isArr || isChan
		}
		if _, ok := x.Fun.(*ast.ArrayType); ok { // []byte(s)
			return true
		}
	}
	return false
}

var iterFuncs = map[string]bool{
	"maps.Keys": true, "maps.Values": true, "maps.All": true,
	"golang.org/x/exp/maps.Keys": true, "golang.org/x/exp/maps.Values": true,
}

type scanner struct {
	repo  string
	sites []Site
	funcs map[string]string // relpath:func -> hash
	notes []string
}

func (s *scanner) scanFile(fset *token.FileSet, f *ast.File, path string, info *types.Info) {
	rel, _ := filepath.Rel(s.repo, path)
	rel = filepath.ToSlash(rel)
	perFunc := map[string]int{}
	add := func(fn, fhash string, pos token.Pos, kind, operand, typ string) {
		perFunc[fn]++
		s.sites = append(s.sites, Site{ID: fmt.Sprintf("%s:%s:%d", rel, fn, perFunc[fn]), File: rel, Func: fn, N: perFunc[fn],
			Line: fset.Position(pos).Line, Kind: kind, Operand: operand, Type: typ, Hash: fhash, Typed: info != nil,
			Support: strings.Contains("/"+rel, "/testing/")})
	}
	visit := func(fn, fhash string, root ast.Node) {
		ast.Inspect(root, func(n ast.Node) bool {
			switch x := n.(type) {
			case *ast.RangeStmt:
				op := normText(fset, x.X)
				if info != nil {
					t := info.TypeOf(x.X)
					switch coreIsMap(t) {
					case 1:
						add(fn, fhash, x.Pos(), "map", op, types.TypeString(t, nil))
					case -1:
						add(fn, fhash, x.Pos(), "unknown", op, "?")
					}
				} else if !syntacticNonMap(x.X) {
					add(fn, fhash, x.Pos(), "unknown", op, "?")
				}
			case *ast.CallExpr:
				sel, ok := x.Fun.(*ast.SelectorExpr)
				if !ok {
					// generic instantiation maps.Keys[K,V](m)
					if ix, ok2 := x.Fun.(*ast.IndexExpr); ok2 {
						sel, ok = ix.X.(*ast.SelectorExpr)
					} else if ix, ok2 := x.Fun.(*ast.IndexListExpr); ok2 {
						sel, ok = ix.X.(*ast.SelectorExpr)
					}
					if !ok {
						return true
					}
				}
				if info != nil {
					if obj, ok := info.Uses[sel.Sel].(*types.Func); ok && obj.Pkg() != nil {
						full := obj.Pkg().Path() + "." + obj.Name()
						sig, _ := obj.Type().(*types.Signature)
						if sig != nil && sig.Recv() != nil {
							rt := sig.Recv().Type()
							if p, ok := rt.(*types.Pointer); ok {
								rt = p.Elem()
							}
							full = types.TypeString(rt, nil) + "." + obj.Name()
						}
						switch {
						case iterFuncs[full]:
							add(fn, fhash, x.Pos(), "mapiter-call", normText(fset, x), full)
						case full == "reflect.Value.MapKeys" || full == "reflect.Value.MapRange" || full == "sync.Map.Range":
							add(fn, fhash, x.Pos(), "mapiter-call", normText(fset, x), full)
						}
					}
				} else if id, ok := sel.X.(*ast.Ident); ok && id.Name == "maps" && (sel.Sel.Name == "Keys" || sel.Sel.Name == "Values" || sel.Sel.Name == "All") {
					add(fn, fhash, x.Pos(), "mapiter-call", normText(fset, x), "maps."+sel.Sel.Name)
				} else if sel.Sel.Name == "MapKeys" || sel.Sel.Name == "MapRange" {
					add(fn, fhash, x.Pos(), "mapiter-call", normText(fset, x), "?."+sel.Sel.Name)
				}
			}
			return true
		})
	}
	for _, d := range f.Decls {
		switch x := d.(type) {
		case *ast.FuncDecl:
			fn := recvName(x)
			h := hashText(normText(fset, x))
			key := rel + ":" + fn
			if _, dup := s.funcs[key]; dup {
				// same name twice in one file (e.g. several init functions): fold both texts
				h = hashText(s.funcs[key] + h)
			}
			s.funcs[key] = h
			visit(fn, h, x)
		case *ast.GenDecl:
			for _, sp := range x.Specs {
				if vs, ok := sp.(*ast.ValueSpec); ok {
					name := "var"
					if len(vs.Names) > 0 {
						name = "var:" + vs.Names[0].Name
					}
					visit(name, hashText(normText(fset, vs)), vs)
				}
			}
		}
	}
}

func (s *scanner) module(dir, pattern string, covered map[string]bool) error {
	pkgs, err := goList(dir, pattern)
	if err != nil {
		return err
	}
	exports := map[string]string{}
	for _, p := range pkgs {
		if p.Export != "" {
			exports[p.ImportPath] = p.Export
		}
	}
	fset := token.NewFileSet()
	imp := importer.ForCompiler(fset, "gc", func(path string) (io.ReadCloser, error) {
		e, ok := exports[path]
		if !ok {
			return nil, fmt.Errorf("no export data for %s", path)
		}
		return os.Open(e)
	})
	modulesDir := filepath.Join(s.repo, "modules") + string(filepath.Separator)
	for _, p := range pkgs {
		if !strings.HasPrefix(p.Dir+string(filepath.Separator), modulesDir) {
			continue
		}
		if p.Error != nil {
			s.notes = append(s.notes, "go list: "+p.ImportPath+": "+p.Error.Err)
		}
		var files []*ast.File
		var paths []string
		for _, name := range append(append([]string{}, p.GoFiles...), p.CgoFiles...) {
			path := filepath.Join(p.Dir, name)
			f, err := parser.ParseFile(fset, path, nil, parser.SkipObjectResolution)
			if err != nil {
				return fmt.Errorf("parse %s: %v", path, err)
			}
			files = append(files, f)
			paths = append(paths, path)
		}
		info := &types.Info{Types: map[ast.Expr]types.TypeAndValue{}, Uses: map[*ast.Ident]types.Object{}}
		nerr := 0
		conf := types.Config{Importer: imp, FakeImportC: true, Error: func(err error) {
			if nerr < 3 {
				s.notes = append(s.notes, "type-check "+p.ImportPath+": "+err.Error())
			}
			nerr++
		}}
		conf.Check(p.ImportPath, fset, files, info) // errors collected; untyped operands become "unknown" sites
		for i, f := range files {
			if covered[paths[i]] {
				continue
			}
			covered[paths[i]] = true
			if excluded(filepath.Base(paths[i])) {
				continue
			}
			s.scanFile(fset, f, paths[i], info)
		}
	}
	return nil
}

func (s *scanner) syntacticRest(covered map[string]bool) error {
	fset := token.NewFileSet()
	return filepath.Walk(filepath.Join(s.repo, "modules"), func(path string, fi os.FileInfo, err error) error {
		if err != nil {
			return err
		}
		if fi.IsDir() || excluded(fi.Name()) || covered[path] {
			return nil
		}
		f, err := parser.ParseFile(fset, path, nil, parser.SkipObjectResolution)
		if err != nil {
			return fmt.Errorf("parse %s: %v", path, err)
		}
		s.scanFile(fset, f, path, nil)
		return nil
	})
}

type row struct{ ID, Hash, Thm string }

var rowRe = regexp.MustCompile("\\(\\s*\"([^\"]+)\"\\s*,\\s*\"([0-9a-f]*)\"\\s*,\\s*``([A-Za-z0-9_.']+)\\s*\\)")

func readTable(path string) ([]row, string, error) {
	b, err := os.ReadFile(path)
	if err != nil {
		return nil, "", err
	}
	var rows []row
	for _, m := range rowRe.FindAllStringSubmatch(string(b), -1) {
		rows = append(rows, row{m[1], m[2], m[3]})
	}
	return rows, string(b), nil
}

func main() {
	repo := flag.String("repo", "/repo", "ibc-go working tree")
	table := flag.String("table", "", "Lean file holding the site table (Props/C45.lean)")
	jsonOut := flag.String("json", "", "write the inventory as JSON to this file")
	print := flag.Bool("print", false, "print the inventory as Lean table rows")
	flag.Parse()
	abs, err := filepath.Abs(*repo)
	if err == nil {
		if r, err2 := filepath.EvalSymlinks(abs); err2 == nil {
			abs = r
		}
	}
	s := &scanner{repo: abs, funcs: map[string]string{}}
	covered := map[string]bool{}
	fail := func(err error) {
		fmt.Println("maprange: inventory could not be computed (treated as a broken obligation):", err)
		os.Exit(2)
	}
	if err := s.module(abs, "./modules/...", covered); err != nil {
		fail(err)
	}
	wasm := filepath.Join(abs, "modules", "light-clients", "08-wasm")
	if _, err := os.Stat(filepath.Join(wasm, "go.mod")); err == nil {
		if err := s.module(wasm, "./...", covered); err != nil {
			// fall back to the syntactic pass for that module; say so
			s.notes = append(s.notes, "08-wasm module not loadable with types, syntactic pass used: "+err.Error())
		}
	}
	if err := s.syntacticRest(covered); err != nil {
		fail(err)
	}
	sort.SliceStable(s.sites, func(i, j int) bool {
		if s.sites[i].File != s.sites[j].File {
			return s.sites[i].File < s.sites[j].File
		}
		return s.sites[i].Line < s.sites[j].Line
	})
	if *jsonOut != "" {
		b, _ := json.MarshalIndent(map[string]any{"sites": s.sites, "notes": s.notes}, "", " ")
		os.WriteFile(*jsonOut, append(b, '\n'), 0o644)
	}
	if *print {
		for _, x := range s.sites {
			if x.Support {
				fmt.Printf("  -- test-support (no obligation): %s line %d  range %s : %s\n", x.ID, x.Line, x.Operand, x.Type)
				continue
			}
			fmt.Printf("  -- %s:%d  range %s : %s  [%s%s]\n  (\"%s\", \"%s\", ``TODO),\n", x.File, x.Line, x.Operand, x.Type, x.Kind,
				map[bool]string{true: "", false: ", untyped"}[x.Typed], x.ID, x.Hash)
		}
		for _, n := range s.notes {
			fmt.Println("  -- note:", n)
		}
		return
	}
	if *table == "" {
		fmt.Println("maprange: -table or -print required")
		os.Exit(2)
	}
	rows, src, err := readTable(*table)
	if err != nil {
		fail(err)
	}
	byID := map[string]row{}
	for _, r := range rows {
		if _, dup := byID[r.ID]; dup {
			fmt.Println("TABLE-ERROR duplicate row", r.ID)
			os.Exit(1)
		}
		byID[r.ID] = r
	}
	bad := 0
	seen := map[string]bool{}
	support := 0
	for _, x := range s.sites {
		if x.Support {
			support++
			fmt.Printf("test-support (no obligation) %s (line %d): range %s\n", x.ID, x.Line, x.Operand)
			continue
		}
		seen[x.ID] = true
		r, ok := byID[x.ID]
		switch {
		case !ok:
			bad++
			fmt.Printf("NEW      %s (line %d, kind %s): range %s : %s — no permutation-invariance lemma in the table\n", x.ID, x.Line, x.Kind, x.Operand, x.Type)
		case r.Hash != x.Hash:
			bad++
			fmt.Printf("CHANGED  %s (line %d): enclosing function text hash %s, table has %s (lemma %s must be re-confirmed against the edited code)\n", x.ID, x.Line, x.Hash, r.Hash, r.Thm)
		default:
			if !regexp.MustCompile(`(?m)^theorem\s+` + regexp.QuoteMeta(r.Thm) + `\b`).MatchString(src) {
				bad++
				fmt.Printf("NOLEMMA  %s: table names %s but no such theorem in the property file\n", x.ID, r.Thm)
			}
		}
	}
	for _, r := range rows {
		if !seen[r.ID] {
			bad++
			fmt.Printf("REMOVED  %s: in the table (lemma %s) but no longer in the code\n", r.ID, r.Thm)
		}
	}
	for _, n := range s.notes {
		fmt.Println("note:", n)
	}
	fmt.Printf("maprange: %d sites inventoried (+%d in test-support directories), %d table rows, %d problems\n", len(s.sites)-support, support, len(rows), bad)
	if bad > 0 {
		os.Exit(1)
	}
}
