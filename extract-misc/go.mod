module verif/extract-misc

go 1.26.5
