import IbcVerif.Driver.WasmStore
import IbcVerif.Driver.Localhost
import IbcVerif.Driver.Attest
import IbcVerif.Driver.Solo

def main (args : List String) : IO UInt32 := do
  match args with
  | ["wasmstore"] => IbcVerif.Driver.WasmStore.main; return 0
  | ["localhost"] => IbcVerif.Driver.Localhost.main; return 0
  | ["attest"] => IbcVerif.Driver.Attest.main; return 0
  | ["solo"] => IbcVerif.Driver.Solo.main; return 0
  | _ =>
    IO.eprintln "usage: lcmodel <engine>   (engines: wasmstore, localhost, attest, solo)"
    return 2
