import IbcVerif.Util.J
import IbcVerif.Model.Router
open Lean
namespace IbcVerif.Driver.Router
open IbcVerif.J IbcVerif.Router

def nm (s : String) : IbcVerif.Router.Name := s.toList.map Char.toNat
def unnm (n : IbcVerif.Router.Name) : String := String.ofList (n.map Char.ofNat)

def getOps (j : Json) : Except String (List OpV2) := do
  (← arr j "ops").toList.mapM fun o => do
    let k ← str o "k"
    let n ← str o "n"
    if k == "route" then pure (OpV2.route (nm n)) else pure (OpV2.pre (nm n))

def handle (f : String) (j : Json) : Option (Except String Json) :=
  match f with
  | "router.v1" => some do
      let routes := (← strs j "routes").map nm
      let ports ← strs j "ports"
      let res := ports.map fun p => match routeV1 routes (nm p) with
        | some k => Json.str (unnm k)
        | none => Json.null
      pure <| ok (Json.arr res.toArray)
  | "router.v2" => some do
      -- registrations in the given order (a panic aborts), then lookups with the prefix map iterated
      -- in registration order (by C48 any order gives the same answer)
      match applyOps RouterV2.empty (← getOps j) with
      | none => pure <| Json.mkObj [("panic", Json.str "register")]
      | some r =>
        let ports ← strs j "ports"
        let res := ports.map fun p => match getRouteWith r r.prefixes (nm p) with
          | some k => Json.str (unnm k)
          | none => Json.null
        pure <| ok (Json.arr res.toArray)
  | _ => none

end IbcVerif.Driver.Router
