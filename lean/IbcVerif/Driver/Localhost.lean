/-
  Line-protocol driver for the 09-localhost model (engine "localhost" of `lcmodel`).
  {"f":"reset","store":[[k,v],…],"allowed":b} starts a history with the given IBC store contents.
-/
import IbcVerif.Util.J
import IbcVerif.Model.Localhost
import IbcVerif.Driver.WasmStore
open Lean
namespace IbcVerif.Driver.Localhost
open IbcVerif.J IbcVerif.Localhost
open IbcVerif.WasmStore (Bytes KV)

def errName : Err → String
  | .invalidProof => "invalid-proof"
  | .invalidType => "invalid-type"
  | .invalidPath => "invalid-path"
  | .failedMembership => "failed-membership"
  | .failedNonMembership => "failed-non-membership"
  | .clientExists => "client-exists"
  | .updateClientFailed => "update-client-failed"
  | .invalidUpgradeClient => "invalid-upgrade-client"
  | .invalidClientType => "invalid-client-type"
  | .invalidRecoveryClient => "invalid-recovery-client"
  | .routeNotFound => "route-not-found"
  | .clientNotActive => "client-not-active"
  | .invalidHeight => "invalid-height"
  | .storePanic => "panic"

/-- client ops report `"changed"`: did the IBC store change (never, in the model) -/
def resJson (changed : Option Bool) (r : Res) : Json :=
  let base : List (String × Json) := match r with
    | .ok => [("r", "ok")]
    | .err .storePanic => [("r", "panic")]
    | .err e => [("r", "err"), ("err", Json.str (errName e))]
    | .bool b => [("r", "bool"), ("b", b)]
  match changed with
  | some c => Json.mkObj (base ++ [("changed", Json.bool c)])
  | none => Json.mkObj base

def proofOf (j : Json) : Except String Bytes := do
  if (bool j "proofNil").toOption.getD false then pure [] else bytes j "proof"

def pathOf (j : Json) : Except String Path := do
  let kind ← str j "pathKind"
  if kind != "merkle" then pure none else
  let hs ← strs j "path"
  let bs ← hs.mapM fun h => match unhex h with
    | some b => pure b
    | none => throw "bad hex in path"
  pure (some bs)

def htOf (j : Json) (kr kh : String) : Except String Ht := do pure ((← nat j kr), (← nat j kh))

def parseOp (f : String) (j : Json) : Except String Op := do
  match f with
  | "vm" => pure (.verifyMembership (← htOf j "hr" "hh") (← htOf j "sr" "sh") (← proofOf j) (← pathOf j)
      (← bytes j "value"))
  | "vnm" => pure (.verifyNonMembership (← htOf j "hr" "hh") (← htOf j "sr" "sh") (← proofOf j) (← pathOf j))
  | "kvm" => pure (.kVerifyMembership (← htOf j "hr" "hh") (← htOf j "sr" "sh") (← proofOf j) (← pathOf j)
      (← bytes j "value"))
  | "kvnm" => pure (.kVerifyNonMembership (← htOf j "hr" "hh") (← htOf j "sr" "sh") (← proofOf j) (← pathOf j))
  | "init" => pure .initClient
  | "vcm" => pure .verifyClientMessage
  | "cfm" => pure .checkForMisbehaviour
  | "usm" => pure .updateStateOnMisbehaviour
  | "us" => pure .updateState
  | "recover" => pure .recoverClient
  | "upgrade" => pure .verifyUpgrade
  | "kcreate" => pure .kCreate
  | "kupdate" | "msgupdate" => pure .kUpdate
  | "kupgrade" | "msgupgrade" => pure .kUpgrade
  | "krecover" | "msgrecover" => pure .kRecover
  | "envset" => pure (.envSet (← bytes j "k") (← bytes j "v"))
  | "envdel" => pure (.envDelete (← bytes j "k"))
  | "envallowed" =>
    -- Params.IsAllowedClient("09-localhost"): the single wildcard "*" or an explicit member
    let l ← strs j "list"
    pure (.envSetAllowed (l == ["*"] || l.contains "09-localhost"))
  | _ => throw s!"unknown op {f}"

def stepJson (s : State) (j : Json) : State × Json :=
  match str j "f" with
  | .error e => (s, Json.mkObj [("bad", Json.str e)])
  | .ok "reset" =>
    match (do
      let st ← IbcVerif.Driver.WasmStore.pairsOf (← j.getObjVal? "store")
      let a ← bool j "allowed"
      pure (State.mk st a) : Except String State) with
    | .ok s' => (s', Json.mkObj [("r", "reset"), ("n", s'.store.length)])
    | .error e => (s, Json.mkObj [("bad", Json.str e)])
  | .ok f =>
    match parseOp f j with
    | .error e => (s, Json.mkObj [("bad", Json.str e)])
    | .ok op =>
      let r := step s op
      (r.1, resJson (if op.isEnv then none else some false) r.2)

def main : IO Unit := runEngine (State.mk [] true) stepJson

end IbcVerif.Driver.Localhost
