import IbcVerif.Util.J
import IbcVerif.Model.Height
open Lean
namespace IbcVerif.Driver.Height
open IbcVerif IbcVerif.J

def getHeight (j : Json) (kr kh : String) : Except String IbcVerif.Height := do
  let r ← nat j kr
  let h ← nat j kh
  pure ⟨UInt64.ofNat r, UInt64.ofNat h⟩

def fmtHeight (h : IbcVerif.Height) : Json :=
  Json.mkObj [("rev", num h.rev.toNat), ("h", num h.h.toNat)]

def handle (f : String) (j : Json) : Option (Except String Json) :=
  match f with
  | "height.compare" => some do
      let a ← getHeight j "ar" "ah"; let b ← getHeight j "br" "bh"
      pure <| Json.mkObj [("cmp", Json.str (toString (a.compare b))), ("lt", a.lt b), ("lte", a.lte b),
        ("gt", a.gt b), ("gte", a.gte b), ("eq", a.eq b), ("zero", a.isZero)]
  | "height.format" => some do
      let a ← getHeight j "ar" "ah"
      pure <| okStr (String.ofList a.format)
  | "height.parse" => some do
      let s ← str j "s"
      match IbcVerif.Height.parse s.toList with
      | some h => pure <| ok (fmtHeight h)
      | none => pure <| err "invalid-height"
  | "timeout.elapsed" => some do
      let th ← getHeight j "tr" "th"; let tts ← nat j "tts"
      let h ← getHeight j "r" "h"; let ts ← nat j "ts"
      let t : Timeout := ⟨th, UInt64.ofNat tts⟩
      pure <| Json.mkObj [("elapsed", t.elapsed h (UInt64.ofNat ts)), ("hElapsed", t.heightElapsed h),
        ("tElapsed", t.timestampElapsed (UInt64.ofNat ts)), ("valid", t.isValid)]
  | _ => none

end IbcVerif.Driver.Height
