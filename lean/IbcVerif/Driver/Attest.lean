/-
  Line-protocol driver for the attestations light-client model (engine "attest" of `lcmodel`).
  SHA-256 is the executable one of Model/Sha256; Keccak of the path key, the ABI decoder's verdicts and the
  classification of every signature (who signed which digest) are ground truth supplied by the harness.
-/
import IbcVerif.Util.J
import IbcVerif.Model.Attest
import IbcVerif.Model.Sha256
open Lean
namespace IbcVerif.Driver.Attest
open IbcVerif.J IbcVerif.Attest

def errName : Err → String
  | .invalidSignature => "invalid-signature"
  | .invalidQuorum => "invalid-quorum"
  | .duplicateSigner => "duplicate-signer"
  | .unknownSigner => "unknown-signer"
  | .clientFrozen => "client-frozen"
  | .invalidPath => "invalid-path"
  | .invalidAttestationData => "invalid-attestation-data"
  | .consensusStateNotFound => "consensus-state-not-found"
  | .invalidAttestationProof => "invalid-attestation-proof"
  | .invalidHeight => "invalid-height"
  | .invalidType => "invalid-type"
  | .invalidValue => "invalid-value"
  | .notMember => "not-member"
  | .nonMembershipFailed => "non-membership-failed"
  | .invalidClient => "invalid-client"
  | .clientNotFound => "client-not-found"
  | .clientNotActive => "client-not-active"
  | .invalidRequest => "invalid-request"
  | .invalidUpgradeClient => "invalid-upgrade-client"
  | .panic => "panic"

def H : Bytes → Bytes := IbcVerif.Sha256.sha256

def consJson (c : Cons) : Json :=
  let sorted := c.mergeSort (fun a b => a.1.1 < b.1.1 || (a.1.1 == b.1.1 && a.1.2 ≤ b.1.2))
  Json.arr (sorted.map fun p => Json.arr #[num p.1.1, num p.1.2, num p.2]).toArray

def stateFields (s : State) : List (String × Json) :=
  [("frozen", s.cs.frozen), ("latest", num s.cs.latest), ("cons", consJson s.cons)]

def tagR (r : String) : List (String × Json) := [("r", Json.str r)]

def resJson (s : State) : Res → Json
  | .ok => Json.mkObj (tagR "ok" ++ stateFields s)
  | .err .panic => Json.mkObj (tagR "panic" ++ stateFields s)
  | .err e => Json.mkObj (tagR "err" ++ [("err", Json.str (errName e))] ++ stateFields s)

def sigOf (v : Json) : Except String Sig := do
  match ← str v "k" with
  | "signed" => pure (.signed (← nat v "signer") (← bytes v "digest"))
  | "malformed" => pure (.malformed (← nat v "len"))
  | "unrecoverable" => pure .unrecoverable
  | k => throw s!"unknown sig kind {k}"

def optField (j : Json) (k : String) : Option Json :=
  match j.getObjVal? k with
  | .ok .null => none
  | .ok v => some v
  | .error _ => none

def proofOfJson (v : Json) : Except String Proof := do
  let data ← bytes v "data"
  let sigs ← (← arr v "sigs").toList.mapM sigOf
  let decState ← match optField v "decState" with
    | none => pure none
    | some d => do
      let a ← d.getArr?
      match a.toList with
      | [h, t] => pure (some ((← natOf h), (← natOf t)))
      | _ => throw "decState"
  let decPacket ← match optField v "decPacket" with
    | none => pure none
    | some d => do
      let h ← nat d "h"
      let ps ← (← arr d "packets").toList.mapM fun p => do
        let q ← p.getArr?
        match q.toList with
        | [a, b] => pure ((← bytesOf a), (← bytesOf b))
        | _ => throw "packet"
      pure (some (h, ps))
  pure ⟨data, sigs, decState, decPacket⟩

def optProof (j : Json) (k : String) : Except String (Option Proof) :=
  match optField j k with
  | none => pure none
  | some v => do pure (some (← proofOfJson v))

def pathOf (j : Json) : Except String PathArg := do
  match ← str j "pathKind" with
  | "nil" => pure .nil
  | "other" => pure .other
  | _ =>
    let hs ← strs j "path"
    let bs ← hs.mapM fun h => match unhex h with
      | some b => pure b
      | none => throw "bad hex in path"
    pure (.merkle bs)

def heightOf (j : Json) : Except String (Nat × Nat) := do pure ((← nat j "hr"), (← nat j "hh"))

def msgOf (j : Json) : Except String ClientMsg := do
  if (← str j "msgKind") != "proof" then pure none else optProof j "proof"

def parseOp (f : String) (j : Json) : Except String Op := do
  match f with
  | "vcm" => pure (.vcm (← msgOf j))
  | "update" => pure (.update (← msgOf j))
  | "vm" => pure (.vm (← heightOf j) (← optProof j "proof") (← pathOf j) (← bytes j "value"))
  | "vnm" => pure (.vnm (← heightOf j) (← optProof j "proof") (← pathOf j))
  | "kvm" => pure (.kvm (← heightOf j) (← optProof j "proof") (← pathOf j) (← bytes j "value"))
  | "kvnm" => pure (.kvnm (← heightOf j) (← optProof j "proof") (← pathOf j))
  | "recover" => pure .recover
  | "upgrade" => pure .upgrade
  | _ => throw s!"unknown op {f}"

def stepJson (s : State) (j : Json) : State × Json :=
  match str j "f" with
  | .error e => (s, Json.mkObj [("bad", Json.str e)])
  | .ok "reset" =>
    match (do
      let att ← nats j "attestors"
      let m ← nat j "min"
      let l ← nat j "latest"
      let ts ← nat j "ts"
      pure (State.mk ⟨att, m, l, false⟩ [((0, l), ts)]) : Except String State) with
    | .ok s' => (s', Json.mkObj (tagR "reset" ++ stateFields s'))
    | .error e => (s, Json.mkObj [("bad", Json.str e)])
  | .ok "vs" =>
    -- the unexported verifySignatures on the stored client state (hook VerifVerifySignatures)
    match (do
      let pr ← proofOfJson (← j.getObjVal? "proof")
      let ty ← nat j "ty"
      pure (resOf (verifySignatures H s.cs pr.data pr.sigs (UInt8.ofNat ty))) : Except String Res) with
    | .ok r => (s, resJson s r)
    | .error e => (s, Json.mkObj [("bad", Json.str e)])
  | .ok f =>
    match parseOp f j with
    | .error e => (s, Json.mkObj [("bad", Json.str e)])
    | .ok op =>
      let keccak : Bytes → Bytes := match bytes j "keccak" with
        | .ok b => fun _ => b
        | .error _ => fun _ => []
      let r := step H keccak s op
      (r.1, resJson r.1 r.2)

def main : IO Unit := runEngine (State.mk ⟨[], 1, 0, false⟩ []) stepJson

end IbcVerif.Driver.Attest
