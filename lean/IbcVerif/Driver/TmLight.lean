/-
  Driver for the hand model of CometBFT light verification (Model/TmLight.lean): functions lv.own,
  lv.trust (symbolic commits) and lv.verify (`light.Verify` on resolved entries).
-/
import IbcVerif.Util.J
import IbcVerif.Model.TmLight
open Lean
namespace IbcVerif.Driver.TmLight
open IbcVerif IbcVerif.J IbcVerif.Tm.Light

def getVals (j : Json) (k : String) : Except String (List Val) := do
  let a ← arr j k
  a.toList.mapM fun v => do
    let l ← v.getArr?
    match l.toList with
    | [x, y] => pure ⟨← natOf x, ← natOf y⟩
    | _ => throw "bad validator"

def getSigs (j : Json) (k : String) : Except String (List CSig) := do
  let a ← arr j k
  a.toList.mapM fun v => do
    let l ← v.getArr?
    match l.toList with
    | [Json.str "a"] => pure CSig.absent
    | [Json.str "n", x] => pure (CSig.nilVote (← natOf x))
    | [Json.str "c", x, y, z] => pure (CSig.commit (← natOf x) (← natOf y) (← natOf z))
    | _ => throw "bad signature"

def getEntries (j : Json) (k : String) : Except String (List Entry) := do
  let a ← arr j k
  a.toList.mapM fun v => do
    let l ← v.getArr?
    match l.toList with
    | [Json.str "s"] => pure Entry.skip
    | [Json.str "f"] => pure Entry.fail
    | [Json.str "c", x, Json.bool b] => pure (Entry.count (← natOf x) b)
    | _ => throw "bad entry"

def int (j : Json) (k : String) : Except String Int := do
  let v ← j.getObjVal? k
  match v with
  | .str s => match s.toInt? with
    | some n => pure n
    | none => throw s!"field {k}: not an integer: {s}"
  | _ => v.getInt?

def handle (f : String) (j : Json) : Option (Except String Json) :=
  match f with
  | "lv.own" => some do
    let vals ← getVals j "vals"; let sigs ← getSigs j "sigs"
    let total := (vals.map (·.power)).foldl (· + ·) 0
    pure (okBool (verifyCommitLight total (ownEntries vals (List.replicate sigs.length 1) sigs)))
  | "lv.trust" => some do
    let vals ← getVals j "vals"; let sigs ← getSigs j "sigs"
    let total := (vals.map (·.power)).foldl (· + ·) 0
    pure (okBool (verifyCommitLightTrusting total (← nat j "num") (← nat j "den")
      (trustEntries vals (List.replicate sigs.length 1) sigs [])))
  | "lv.verify" => some do
    let trustedH ← nat j "trustedH"
    let untrustedH ← nat j "untrustedH"
    let trustedTs ← int j "trustedTs"
    let untrustedTs ← int j "untrustedTs"
    let now ← int j "now"
    let tp ← int j "tp"
    let drift ← int j "drift"
    let basicOK ← bool j "basicOK"
    let valsHashOK ← bool j "valsHashOK"
    let nextValsMatch ← bool j "nextValsMatch"
    let ownTotal ← nat j "ownTotal"
    let own ← getEntries j "own"
    let trustTotal ← nat j "trustTotal"
    let trust ← getEntries j "trust"
    let tlNum ← nat j "tlNum"
    let tlDen ← nat j "tlDen"
    let i : LvIn := ⟨trustedH, untrustedH, trustedTs, untrustedTs, now, tp, drift, basicOK, valsHashOK, nextValsMatch,
      ownTotal, own, trustTotal, trust, tlNum, tlDen⟩
    pure (okBool (lightVerify i))
  | _ => none

end IbcVerif.Driver.TmLight
