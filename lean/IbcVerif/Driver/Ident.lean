import IbcVerif.Util.J
import IbcVerif.Model.Ident
open Lean
namespace IbcVerif.Driver.Ident
open IbcVerif IbcVerif.J IbcVerif.Ident

def handle (f : String) (j : Json) : Option (Except String Json) :=
  match f with
  | "ident.formatClient" => some do
      pure <| okStr (String.ofList (formatClientIdentifier (← str j "type").toList (← nat j "seq")))
  | "ident.parseClient" => some do
      match parseClientIdentifier (← str j "s").toList with
      | some (t, n) => pure <| ok (Json.mkObj [("type", Json.str (String.ofList t)), ("seq", num n)])
      | none => pure <| err "invalid-id"
  | "ident.isClientFormat" => some do pure <| okBool (isClientIDFormat (← str j "s").toList)
  | "ident.validateClientType" => some do pure <| okBool (validateClientType (← str j "type").toList)
  | "ident.formatChannel" => some do pure <| okStr (String.ofList (formatWithPrefix channelPrefix (← nat j "seq")))
  | "ident.formatConnection" => some do pure <| okStr (String.ofList (formatWithPrefix connectionPrefix (← nat j "seq")))
  | "ident.parseChannel" => some do
      match parseWithPrefix channelPrefix (← str j "s").toList with
      | some n => pure <| okNat n
      | none => pure <| err "invalid-id"
  | "ident.parseConnection" => some do
      match parseWithPrefix connectionPrefix (← str j "s").toList with
      | some n => pure <| okNat n
      | none => pure <| err "invalid-id"
  | _ => none

end IbcVerif.Driver.Ident
