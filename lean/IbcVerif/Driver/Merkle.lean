import IbcVerif.Util.J
import IbcVerif.Model.Merkle
open Lean
namespace IbcVerif.Driver.Merkle
open IbcVerif IbcVerif.J IbcVerif.Merkle

def optBytes (v : Json) (k : String) : Except String (Option Bytes) :=
  match v.getObjVal? k with
  | .ok .null => pure none
  | .ok _ => do pure (some (← bytes v k))
  | .error _ => pure none

def getLevel (v : Json) : Except String (Level × Bool) := do
  let kind ← str v "kind"
  let k := if kind == "exist" then Kind.exist else if kind == "nonexist" then Kind.nonexist else Kind.other
  pure ({ croot := ← optBytes v "croot", kind := k, specNil := ← bool v "specNil" }, ← bool v "ve")

def cls : Res → Json
  | .ok => okStr "ok" | .invalidMerkleProof => err "invalid-merkle-proof" | .invalidProof => err "invalid-proof"

def getSlices (j : Json) : Except String (Heap × List Slice) := do
  -- every prefix element gets its own backing array of `cap` bytes (data followed by zero padding)
  let items ← arr j "prefix"
  let mut heap : Heap := []
  let mut slices : List Slice := []
  for it in items.toList do
    let d ← bytes it "data"
    let cap ← nat it "cap"
    slices := slices ++ [{ arr := heap.length, off := 0, len := d.length, cap := cap }]
    heap := heap ++ [d ++ List.replicate (cap - d.length) 0]
  pure (heap, slices)

def handle (f : String) (j : Json) : Option (Except String Json) :=
  match f with
  | "merkle.member" => some do
      let ls ← (← arr j "levels").toList.mapM getLevel
      let ves := ls.map (·.2)
      let keyOk ← (← arr j "keyOk").toList.mapM Json.getBool?
      let VE : Nat → Bytes → Bytes → Bytes → Bool := fun i _ _ _ => ves.getD i false
      let keyAt : Nat → Option Bytes := fun i => if keyOk.getD i false then some [UInt8.ofNat i] else none
      pure <| cls (verifyMembership VE keyAt (← bool j "proofsNil") (ls.map (·.1)) (← nat j "nSpecs") (← nat j "pathLen")
        (← bytes j "root") (← bytes j "value"))
  | "merkle.nonmember" => some do
      let ls ← (← arr j "levels").toList.mapM getLevel
      let ves := ls.map (·.2)
      let keyOk ← (← arr j "keyOk").toList.mapM Json.getBool?
      let vn ← bool j "vn"
      let VE : Nat → Bytes → Bytes → Bytes → Bool := fun i _ _ _ => ves.getD i false
      let keyAt : Nat → Option Bytes := fun i => if keyOk.getD i false then some [UInt8.ofNat i] else none
      -- Go indexes p.Proofs[0] / KeyPath[len-1] after validation: with no levels that is a panic
      if ls.isEmpty && !(← bool j "proofsNil") && !(← bytes j "root").isEmpty && (← nat j "nSpecs") == 0 && (← nat j "pathLen") == 0 then
        pure <| Json.mkObj [("panic", Json.str "index")]
      else
        pure <| cls (verifyNonMembership VE (fun _ _ => vn) keyAt (← bool j "proofsNil") (ls.map (·.1)) (← nat j "nSpecs")
          (← nat j "pathLen") (← bytes j "root"))
  | "merkle.buildpath" => some do
      let (heap, pre) ← getSlices j
      match buildMerklePath heap pre (← bytes j "path") with
      | none => pure <| Json.mkObj [("panic", Json.str "empty-prefix")]
      | some (h', out) =>
        pure <| Json.mkObj [("prefix", Json.arr (pre.map fun s => Json.str (hex (s.view h'))).toArray),
                            ("out", Json.arr (out.map fun s => Json.str (hex (s.view h'))).toArray)]
  | _ => none

end IbcVerif.Driver.Merkle
