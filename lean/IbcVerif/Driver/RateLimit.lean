/-
  `appsmodel ratelimit`: line-protocol driver for the rate-limiting model.
  A request `{"f":"reset",…}` starts a fresh history; every other request is one op; the answer carries
  the result class and the whole canonical state (limits, pending sets, lists, epoch).
-/
import IbcVerif.Util.J
import IbcVerif.Model.RateLimit
open Lean
namespace IbcVerif.Driver.RateLimit
open IbcVerif.J IbcVerif.Apps IbcVerif.RateLimit

def int (j : Json) (k : String) : Except String Int := do
  let v ← j.getObjVal? k
  match v with
  | .str s => match s.toInt? with
    | some n => pure n
    | none => throw s!"field {k}: not an integer: {s}"
  | _ => v.getInt?

def inum (i : Int) : Json := Json.str (toString i)

def sortStrs (l : List String) : List String := l.mergeSort (fun a b => decide (a ≤ b))

def fmtState (s : State) : Json :=
  let lims := s.paths.filterMap fun (k, ps) => ps.limit.map fun l => (k.1 ++ "|" ++ k.2, k, l)
  let lims := lims.mergeSort (fun a b => decide (a.1 ≤ b.1))
  let pend (f : PathState → List Nat) : List String :=
    sortStrs (s.paths.flatMap fun (k, ps) => (f ps).map fun n => k.2 ++ "/" ++ toString n ++ "/" ++ k.1)
  Json.mkObj [
    ("limits", Json.arr (lims.map fun (_, k, l) => Json.mkObj [
        ("denom", k.1), ("chan", k.2), ("maxSend", inum l.quota.maxSend), ("maxRecv", inum l.quota.maxRecv),
        ("dur", num l.quota.dur), ("in", inum l.flow.inflow), ("out", inum l.flow.outflow),
        ("value", inum l.flow.chanValue)]).toArray),
    ("pendSend", Json.arr ((pend (·.pendSend)).map Json.str).toArray),
    ("pendRecv", Json.arr ((pend (·.pendRecv)).map Json.str).toArray),
    ("blacklist", Json.arr ((sortStrs s.blacklist).map Json.str).toArray),
    ("whitelist", Json.arr ((sortStrs (s.whitelist.map fun (a, b) => a ++ "|" ++ b)).map Json.str).toArray),
    ("epoch", num s.epochNum), ("epochStart", inum s.epochStart)]

def getPkt (j : Json) : Except String Pkt := do
  pure ⟨← str j "chan", ← str j "denom", ← nat j "seq", ← int j "amt", ← str j "sender", ← str j "receiver"⟩

def getPath (j : Json) : Except String Path := do pure (← str j "denom", ← str j "chan")
def getQuota (j : Json) : Except String Quota := do pure ⟨← int j "maxSend", ← int j "maxRecv", ← nat j "dur"⟩

def resStr : Res → String
  | .counted => "counted" | .passed => "passed" | .blacklisted => "err:blacklisted" | .quota => "err:quota"
  | .done => "ok" | .zeroValue => "err:zero-value" | .exists_ => "err:exists" | .noChannel => "err:no-channel"
  | .notFound => "err:not-found"

def ackStr : AppAck → String
  | .success => "success" | .error => "error" | .async => "async"

def getApp (j : Json) : Except String AppAck := do
  match ← str j "app" with
  | "success" => pure .success
  | "error" => pure .error
  | "async" => pure .async
  | s => throw s!"bad app ack {s}"

def answer (s : State) (r : String) (extra : List (String × Json) := []) : State × Json :=
  (s, Json.mkObj ([("r", Json.str r), ("state", fmtState s)] ++ extra))

def handle (s : State) (f : String) (j : Json) : Except String (State × Json) := do
  match f with
  | "reset" =>
    let s := State.init (← nat j "epochNum") (← int j "epochStart") (← int j "epochDur")
    pure (answer s "ok")
  | "send" =>
    let p ← getPkt j
    if (j.getObjValD "bad") == Json.bool true then pure (answer s "err:parse") else
    let (s', r) := sendPacket s p
    pure (answer s' (match r with | .counted | .passed => "ok" | r => resStr r))
  | "recv" =>
    let p ← getPkt j
    let app ← getApp j
    -- unparseable packet data: the v1 rate limiter lets the packet through untouched (keeper/packet.go);
    -- the v2 middleware cannot convert the payload and answers with an error acknowledgement
    if (j.getObjValD "bad") == Json.bool true then
      let a := if (j.getObjValD "v2") == Json.bool true then AppAck.error else app
      pure (answer s ("ack:" ++ ackStr a) [("ack", Json.str (ackStr a))]) else
    let (s', _, a) := recvPacket s p app
    pure (answer s' ("ack:" ++ ackStr a) [("ack", Json.str (ackStr a))])
  | "ack" =>
    let p ← getPkt j
    pure (answer (ackPacket s p (← bool j "success")) "ok")
  | "timeout" =>
    let p ← getPkt j
    pure (answer (timeoutPacket s p) "ok")
  | "writeAck" =>
    let p ← getPkt j
    pure (answer (writeAck s p (← bool j "success")) "ok")
  | "beginBlock" =>
    let t ← int j "time"
    let sup ← (← arr j "sup").toList.mapM fun e => do
      pure ((← str e "denom"), (← int e "amt"))
    let (s', _) := beginBlock s t sup
    pure (answer s' "ok")
  | "supply" => pure (answer s "ok")
  | "add" =>
    let (s', r) := addLimit s (← getPath j) (← getQuota j) (← int j "supply") (← bool j "chanExists")
    pure (answer s' (resStr r))
  | "update" =>
    let (s', r) := updateLimit s (← getPath j) (← getQuota j) (← int j "supply")
    pure (answer s' (resStr r))
  | "remove" =>
    let (s', r) := removeLimit s (← getPath j)
    pure (answer s' (resStr r))
  | "resetLimit" =>
    let (s', r) := resetLimit s (← getPath j) (← int j "supply")
    pure (answer s' (resStr r))
  | "blacklist" =>
    let (s', _) := step s (.setBlacklist (← str j "denom") (← bool j "on"))
    pure (answer s' "ok")
  | "whitelist" =>
    let (s', _) := step s (.setWhitelist (← str j "sender") (← str j "receiver") (← bool j "on"))
    pure (answer s' "ok")
  | _ => throw s!"unknown op {f}"

def stepJ (s : State) (j : Json) : State × Json :=
  match str j "f" with
  | .error e => (s, Json.mkObj [("bad", Json.str e)])
  | .ok f =>
    match handle s f j with
    | .ok r => r
    | .error e => (s, Json.mkObj [("bad", Json.str e)])

def main : IO Unit := runEngine (State.init 0 0 0) stepJ

end IbcVerif.Driver.RateLimit
