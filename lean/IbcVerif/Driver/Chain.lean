/-
  `chainmodel chain`: the L3 chain model behind the line protocol of harness/chain.
  A request `{"f":"reset"}` starts a fresh history; every other line is one op.  The answer carries
  the result class, the canonical delta of the typed stores (same canonical strings as
  harness/chain/canon.go) and the callback-log delta.
-/
import IbcVerif.Util.J
import IbcVerif.Model.Chain
open Lean
namespace IbcVerif.Driver.Chain
open IbcVerif IbcVerif.J IbcVerif.Chain

def optStr (j : Json) (k : String) : Option String :=
  match j.getObjVal? k with
  | .ok (.str s) => some s
  | _ => none

def strD (j : Json) (k d : String) : String := (optStr j k).getD d

def boolD (j : Json) (k : String) (d : Bool) : Bool :=
  match j.getObjVal? k with
  | .ok (.bool b) => b
  | _ => d

def natD (j : Json) (k : String) (d : Nat) : Nat :=
  match nat j k with
  | .ok n => n
  | .error _ => d

def obj? (j : Json) (k : String) : Option Json :=
  match j.getObjVal? k with
  | .ok (.null) => none
  | .ok v => some v
  | .error _ => none

def arrD (j : Json) (k : String) : List Json :=
  match j.getObjVal? k with
  | .ok (.arr a) => a.toList
  | _ => []

def strsD (j : Json) (k : String) : List String :=
  (arrD j k).map fun v => match v with | .str s => s | _ => ""

def statusOf (s : String) : Status :=
  match s with
  | "Active" => .active
  | "Expired" => .expired
  | "Frozen" => .frozen
  | "Unauthorized" => .unauthorized
  | _ => .unknown

def heightOf (j : Json) : Except String Height := do
  let r ← nat j "r"; let h ← nat j "h"
  pure ⟨UInt64.ofNat r, UInt64.ofNat h⟩

def lcOf (op : Json) : Except String LcEnv := do
  match obj? op "lc" with
  | none => pure ⟨.active, [], ⟨1, 10⟩, [], none, false, false, true, true, true⟩
  | some lc =>
    let stOf : List (Id × Status) := match obj? lc "stOf" with
      | some (.obj kvs) => kvs.toList.map fun (k, v) => (k, match v with | .str s => statusOf s | _ => .unknown)
      | _ => []
    let lh ← match obj? lc "lh" with
      | some h => heightOf h
      | none => pure ⟨1, 10⟩
    let lhOf ← match obj? lc "lhOf" with
      | some (.obj kvs) => kvs.toList.mapM fun (k, v) => do let h ← heightOf v; pure (k, h)
      | _ => pure []
    let ts : Option Nat := match nat lc "ts" with
      | .ok n => some n
      | .error _ => none
    pure ⟨statusOf (strD lc "st" "Active"), stOf, lh, lhOf, ts, boolD lc "v1" false, boolD lc "v2" false,
      boolD lc "msgOK" true, boolD lc "initOK" true, boolD lc "recovOK" true⟩

def envOf (op : Json) : Except String Env := do
  let now ← op.getObjVal? "now"
  let h ← nat now "h"; let t ← nat now "t"
  let lc ← lcOf op
  pure ⟨h, t, strD op "signer" "alice", lc, strD op "tag" "t", boolD op "vb" true⟩

def appV1Of (op : Json) : AppV1 :=
  match obj? op "app" with
  | none => ⟨0, false, .ok, "", none⟩
  | some a =>
    let res := match strD a "res" "ok" with
      | "err" => AppRes.err
      | "async" => .async
      | "selfack" => .selfack
      | _ => .ok
    ⟨natD a "w" 0, strD a "cb" "ok" == "err", res, strD a "ack" "", optStr a "ver"⟩

def appV2Of (a : Json) : AppV2 :=
  let res := match strD a "res" "ok" with
    | "fail" => AppRes2.fail
    | "async" => .async
    | "none" => .none
    | _ => .ok
  ⟨natD a "w" 0, strD a "cb" "ok" == "err", res, strD a "ack" ""⟩

def appsOf (op : Json) : List AppV2 := (arrD op "apps").map appV2Of

def versionOf (j : Json) : Except String Version := do
  let id ← str j "id"
  pure ⟨id, strsD j "features"⟩

def orderOf (s : String) : Order :=
  match s with
  | "UNORDERED" => .unordered
  | "ORDERED" => .ordered
  | _ => .none

def pktV1Of (j : Json) : Except String PacketV1 := do
  let th ← j.getObjVal? "th"
  pure ⟨← nat j "seq", ← str j "sp", ← str j "sc", ← str j "dp", ← str j "dc", ← nat th "r", ← nat th "h",
    ← nat j "tt", ← str j "data"⟩

def payloadOf (j : Json) : Except String Payload := do
  pure ⟨← str j "sp", ← str j "dp", ← str j "ver", ← str j "enc", ← str j "val"⟩

def pktV2Of (j : Json) : Except String PacketV2 := do
  let ps ← (arrD j "payloads").mapM payloadOf
  pure ⟨← nat j "seq", ← str j "src", ← str j "dst", ← nat j "tt", ps⟩

def bodyOf (f : String) (op : Json) : Except String Body := do
  match f with
  | "connOpenInit" =>
    let v ← match obj? op "version" with
      | some vj => do let v ← versionOf vj; pure (some v)
      | none => pure none
    pure (.connOpenInit (← str op "client") (← str op "cpClient") (← str op "cpPrefix") v (← nat op "delay"))
  | "connOpenTry" =>
    let vs ← (arrD op "versions").mapM versionOf
    pure (.connOpenTry (← str op "client") (← str op "cpClient") (← str op "cpConn") (← str op "cpPrefix") vs (← nat op "delay"))
  | "connOpenAck" =>
    let v ← versionOf (← op.getObjVal? "version")
    pure (.connOpenAck (← str op "conn") (← str op "cpConn") v)
  | "connOpenConfirm" => pure (.connOpenConfirm (← str op "conn"))
  | "chanOpenInit" =>
    pure (.chanOpenInit (← str op "port") (orderOf (← str op "order")) (strsD op "hops") (← str op "cpPort") (← str op "version") (appV1Of op))
  | "chanOpenTry" =>
    pure (.chanOpenTry (← str op "port") (orderOf (← str op "order")) (strsD op "hops") (← str op "cpPort") (← str op "cpChan")
      (← str op "cpVersion") (appV1Of op))
  | "chanOpenAck" => pure (.chanOpenAck (← str op "port") (← str op "chan") (← str op "cpChan") (← str op "cpVersion") (appV1Of op))
  | "chanOpenConfirm" => pure (.chanOpenConfirm (← str op "port") (← str op "chan") (appV1Of op))
  | "chanCloseInit" => pure (.chanCloseInit (← str op "port") (← str op "chan") (appV1Of op))
  | "chanCloseConfirm" => pure (.chanCloseConfirm (← str op "port") (← str op "chan") (appV1Of op))
  | "sendV1" =>
    let th ← op.getObjVal? "th"
    pure (.sendV1 (← str op "port") (← str op "chan") (← nat th "r") (← nat th "h") (← nat op "tt") (← str op "data"))
  | "recvV1" => pure (.recvV1 (← pktV1Of (← op.getObjVal? "pkt")) (appV1Of op))
  | "ackV1" => pure (.ackV1 (← pktV1Of (← op.getObjVal? "pkt")) (← str op "ack") (appV1Of op))
  | "timeoutV1" =>
    let ph ← op.getObjVal? "ph"
    pure (.timeoutV1 (← pktV1Of (← op.getObjVal? "pkt")) (← nat op "nsr") (← nat ph "r") (← nat ph "h") (appV1Of op))
  | "timeoutOnCloseV1" => pure (.timeoutOnCloseV1 (← pktV1Of (← op.getObjVal? "pkt")) (← nat op "nsr") (appV1Of op))
  | "writeAckV1" =>
    let w ← match obj? op "wack" with
      | some a => do pure (some (boolD a "ok" true, ← str a "bz"))
      | none => pure none
    pure (.writeAckV1 (← pktV1Of (← op.getObjVal? "pkt")) w)
  | "sendV2" =>
    let ps ← (arrD op "payloads").mapM payloadOf
    pure (.sendV2 (← str op "src") (← nat op "tt") ps (appsOf op))
  | "recvV2" => pure (.recvV2 (← pktV2Of (← op.getObjVal? "pkt")) (appsOf op))
  | "ackV2" => pure (.ackV2 (← pktV2Of (← op.getObjVal? "pkt")) (strsD op "acks") (appsOf op))
  | "timeoutV2" => pure (.timeoutV2 (← pktV2Of (← op.getObjVal? "pkt")) (appsOf op))
  | "writeAckV2" => pure (.writeAckV2 (← str op "dst") (← nat op "seq") (strsD op "acks"))
  | "createClient" => pure (.createClient (← str op "ctype"))
  | "updateClient" => pure (.updateClient (← str op "client"))
  | "registerCounterparty" => pure (.registerCounterparty (← str op "client") (← str op "cpClient") (strsD op "prefix"))
  | "updateClientConfig" => pure (.updateClientConfig (← str op "client") (strsD op "relayers"))
  | "deleteClientCreator" => pure (.deleteClientCreator (← str op "client"))
  | "recoverClient" => pure (.recoverClient (← str op "subject") (← str op "substitute"))
  | "updateClientParams" => pure (.updateClientParams (strsD op "allowed"))
  | "updateConnParams" => pure (.updateConnParams (← nat op "maxTime"))
  | "ibcSoftwareUpgrade" => pure (.ibcSoftwareUpgrade (boolD op "upgradeOK" true))
  | _ => throw s!"unknown op {f}"

/-! ### canonical strings (must equal harness/chain/canon.go) -/

def commaJoin (l : List String) : String := ",".intercalate l

def ChanState.str : ChanState → String
  | .init => "INIT" | .tryopen => "TRYOPEN" | .opened => "OPEN" | .closed => "CLOSED"
def ConnState.str : ConnState → String
  | .init => "INIT" | .tryopen => "TRYOPEN" | .opened => "OPEN"
def orderStr : Order → String
  | .none => "NONE_UNSPECIFIED" | .unordered => "UNORDERED" | .ordered => "ORDERED"

def descChannel (c : Channel) : String :=
  "|".intercalate [ChanState.str c.state, orderStr c.ordering, c.cpPort, c.cpChan, commaJoin c.hops, c.version]

def descVersions (vs : List Version) : String :=
  ";".intercalate (vs.map fun v => v.id ++ ":" ++ commaJoin v.features)

def descConn (c : ConnEnd) : String :=
  "|".intercalate [ConnState.str c.state, c.client, c.cpClient, c.cpConn, c.cpPrefix, toString c.delay, descVersions c.versions]

def descPayloads (ps : List Payload) : String :=
  ";".intercalate (ps.map fun p => commaJoin [p.sp, p.dp, p.ver, p.enc, p.val])

def descCommitV1 (c : CommitV1) : String := s!"{c.tt}/{c.thRev}/{c.thH}/{c.data}"
def descCommitV2 (c : CommitV2) : String := s!"{c.dst}|{c.tt}|{descPayloads c.payloads}"
def descPacketV2 (p : PacketV2) : String := s!"{p.seq}|{p.src}|{p.dst}|{p.tt}|{descPayloads p.payloads}"

def k2 (k : Id × Id) : String := k.1 ++ "/" ++ k.2
def k3 (k : Id × Id × Nat) : String := k.1 ++ "/" ++ k.2.1 ++ "/" ++ toString k.2.2
def kn (k : Id × Nat) : String := k.1 ++ "/" ++ toString k.2

abbrev Entry := String × String × Option String

/-- delta of one typed store -/
def diffMap {K V : Type} [DecidableEq K] (kind : String) (key : K → String) (val : V → String)
    (old new : FMap K V) : List Entry :=
  let changed := new.entries.filterMap fun (k, v) =>
    match old.get k with
    | some v0 => if val v0 == val v then none else some (kind, key k, some (val v))
    | none => some (kind, key k, some (val v))
  let deleted := old.entries.filterMap fun (k, _) =>
    match new.get k with
    | some _ => none
    | none => some (kind, key k, none)
  changed ++ deleted

def diffNat (kind : String) (a b : Nat) : List Entry :=
  if a == b then [] else [(kind, "", some (toString b))]

def delta (o n : ChainState) : List Entry :=
  diffMap "chan" k2 descChannel o.chan n.chan ++
  diffMap "conn" id descConn o.conn n.conn ++
  diffNat "nchan" o.nextChanSeq n.nextChanSeq ++
  diffNat "nconn" o.nextConnSeq n.nextConnSeq ++
  diffNat "nclient" o.nextClientSeq n.nextClientSeq ++
  diffMap "nsend" id toString o.nextSend n.nextSend ++
  diffMap "nrecv" k2 toString o.nextRecv n.nextRecv ++
  diffMap "nack" k2 toString o.nextAck n.nextAck ++
  diffMap "rstart" k2 toString o.recvStart n.recvStart ++
  diffMap "c1" k3 descCommitV1 o.commitV1 n.commitV1 ++
  diffMap "r1" k3 (fun _ => "01") o.receiptV1 n.receiptV1 ++
  diffMap "a1" k3 id o.ackV1 n.ackV1 ++
  diffMap "c2" kn descCommitV2 o.commitV2 n.commitV2 ++
  diffMap "r2" kn (fun _ => "02") o.receiptV2 n.receiptV2 ++
  diffMap "a2" kn commaJoin o.ackV2 n.ackV2 ++
  diffMap "async" kn descPacketV2 o.asyncV2 n.asyncV2 ++
  diffMap "cp" id (fun (c : Id × List Hex) => c.1 ++ "|" ++ commaJoin c.2) o.cpV2 n.cpV2 ++
  diffMap "alias" id id o.alias n.alias ++
  diffMap "cfg" id commaJoin o.cfgV2 n.cfgV2 ++
  diffMap "creator" id id o.creator n.creator ++
  diffMap "cstate" id (fun _ => "1") o.clientState n.clientState ++
  diffMap "cconns" id commaJoin o.clientConns n.clientConns ++
  (if o.allowedClients == n.allowedClients then [] else [("cparams", "", some (commaJoin n.allowedClients))]) ++
  diffNat "connparams" o.maxExpectedTimePerBlock n.maxExpectedTimePerBlock ++
  diffMap "app" id id o.app n.app

def entryLt (a b : Entry) : Bool := a.1 < b.1 || (a.1 == b.1 && a.2.1 < b.2.1)

def entryJson (e : Entry) : Json :=
  Json.arr #[Json.str e.1, Json.str e.2.1, match e.2.2 with | some v => Json.str v | none => Json.null]

/-- v2 events are per packet in the model; the harness logs one line per payload callback -/
def eventStrs : Event → List String
  | .recv1 p c s => [s!"recv1 {p} {c} {s}"]
  | .ack1 p c s a => [s!"ack1 {p} {c} {s} {a}"]
  | .timeout1 p c s => [s!"timeout1 {p} {c} {s}"]
  | .recv2 d s n => (List.range n).map fun i => s!"recv2 {d} {s} {i}"
  | .ack2 c s acks => (List.range acks.length).map fun i => s!"ack2 {c} {s} {i} {acks.getD i ""}"
  | .timeout2 c s n => (List.range n).map fun i => s!"timeout2 {c} {s} {i}"
  | .send2 c s n => (List.range n).map fun i => s!"send2 {c} {s} {i}"
  | .hs k p c => [s!"hs {k} {p} {c}"]
  | .send1 .. => []
  | .genClient _ => []
  | .genConn _ => []

def answer (o n : ChainState) (out : Out) : Json :=
  match out with
  | .err c => Json.mkObj [("err", Json.str c)]
  | .panic => Json.mkObj [("panic", Json.str "x")]
  | .ok ret =>
    let d := ((delta o n).toArray.qsort entryLt).map entryJson
    let cb := ((n.log.drop o.log.length).flatMap eventStrs).map Json.str
    let base := [("r", Json.str "ok"), ("d", Json.arr d), ("cb", Json.arr cb.toArray)]
    Json.mkObj (if ret == "" then base else base ++ [("ret", Json.str ret)])
  | .noop =>
    let d := ((delta o n).toArray.qsort entryLt).map entryJson
    let cb := ((n.log.drop o.log.length).flatMap eventStrs).map Json.str
    Json.mkObj [("r", Json.str "noop"), ("d", Json.arr d), ("cb", Json.arr cb.toArray)]

def handle (s : ChainState) (j : Json) : ChainState × Json :=
  match str j "f" with
  | .error e => (s, Json.mkObj [("bad", Json.str e)])
  | .ok "reset" => (Chain.init, Json.mkObj [("r", Json.str "reset")])
  | .ok f =>
    match (do let env ← envOf j; let b ← bodyOf f j; pure (Op.mk env b) : Except String Op) with
    | .error e => (s, Json.mkObj [("bad", Json.str e)])
    | .ok op =>
      let (s', out) := step s op
      (s', answer s s' out)

def main : IO Unit := runEngine Chain.init handle

end IbcVerif.Driver.Chain
