/-
  miscmodel driver part: packet-data codecs (C35).
  Requests carry byte strings as lower-case hex; the ICS-20 amount is a JSON string.
  Answers: {"ok": …} | {"err": "<class>"} | {"panic": "<msg>"} (the model never produces the last
  one — `IbcVerif.C35.*_decode_total`).
-/
import IbcVerif.Util.J
import IbcVerif.Model.Abi
import IbcVerif.Model.AbiAmount
import IbcVerif.Model.Proto
open Lean
namespace IbcVerif.Driver.MiscCodec
open IbcVerif IbcVerif.J IbcVerif.Abi

def ofG {α : Type} (cls : String) (f : α → Json) : G α → Json
  | .ok a => ok (f a)
  | .err _ => err cls
  | .panic m => Json.mkObj [("panic", Json.str m)]

def hx (b : Bytes) : Json := Json.str (hex b)

def ftpdJson (d : Ftpd) : Json :=
  Json.mkObj [("denom", hx d.denom), ("amount", Json.str (String.ofList d.amount)), ("sender", hx d.sender),
    ("receiver", hx d.receiver), ("memo", hx d.memo)]

def getFtpd (j : Json) : Except String Ftpd := do
  pure ⟨← bytes j "denom", (← str j "amount").toList, ← bytes j "sender", ← bytes j "receiver", ← bytes j "memo"⟩

def gmpJson (d : Gmp) : Json :=
  Json.mkObj [("sender", hx d.sender), ("receiver", hx d.receiver), ("salt", hx d.salt), ("payload", hx d.payload), ("memo", hx d.memo)]

def getGmp (j : Json) : Except String Gmp := do
  pure ⟨← bytes j "sender", ← bytes j "receiver", ← bytes j "salt", ← bytes j "payload", ← bytes j "memo"⟩

def compactJson (p : PacketCompact) : Json := Json.mkObj [("path", hx p.path), ("commitment", hx p.commitment)]

def getPacketAtt (j : Json) : Except String PacketAtt := do
  let h ← nat j "height"
  let ps ← arr j "packets"
  let ps ← ps.toList.mapM (fun p => do pure (⟨← bytes p "path", ← bytes p "commitment"⟩ : PacketCompact))
  pure ⟨h, ps⟩

def intJson : Option (Bool × Nat) → Json
  | some (neg, n) => Json.str ((if neg then "-" else "") ++ toString n)
  | none => Json.null

def valsJson (names : List String) (vals : List Bytes) : Json :=
  Json.mkObj (names.zip (vals.map hx))

def ftpdNames : List String := ["denom", "amount", "sender", "receiver", "memo"]
def gmpNames : List String := ["sender", "receiver", "salt", "payload", "memo"]
def ackNames : List String := ["result"]

def getVals (j : Json) (names : List String) : Except String (List Bytes) := names.mapM (fun n => bytes j n)

def handle (f : String) (j : Json) : Option (Except String Json) :=
  match f with
  -- Solidity ABI
  | "abi.ics20.enc" => some do
      let d ← getFtpd j
      pure <| ofG "abi-encoding" hx (encodeFtpd d)
  | "abi.ics20.dec" => some do
      let b ← bytes j "data"
      pure <| ofG "abi-decoding" ftpdJson (decodeFtpd b)
  | "abi.gmp.enc" => some do
      let d ← getGmp j
      pure <| okHex (encodeGmp d)
  | "abi.gmp.dec" => some do
      let b ← bytes j "data"
      pure <| ofG "abi-decoding" gmpJson (decodeGmp b)
  | "abi.gmp.unmarshal" => some do
      let b ← bytes j "data"
      pure <| ofG "invalid-type" gmpJson (unmarshalGmpAbi b)
  | "abi.gmpack.enc" => some do
      let r ← bytes j "result"
      pure <| okHex (encodeAck r)
  | "abi.gmpack.dec" => some do
      let b ← bytes j "data"
      pure <| ofG "abi-decoding" (fun r => Json.mkObj [("result", hx r)]) (decodeAck b)
  | "abi.gmpack.unmarshal" => some do
      let b ← bytes j "data"
      pure <| ofG "invalid-type" (fun r => Json.mkObj [("result", hx r)]) (unmarshalAckAbi b)
  | "abi.state.enc" => some do
      let h ← nat j "height"; let t ← nat j "timestamp"
      pure <| okHex (encodeState ⟨h, t⟩)
  | "abi.state.dec" => some do
      let b ← bytes j "data"
      pure <| match decodeState b with
        | .err "invalid-timestamp" => err "invalid-timestamp"
        | r => ofG "invalid-attestation" (fun s => Json.mkObj [("height", num s.height), ("timestamp", num s.timestamp)]) r
  | "abi.packetatt.enc" => some do
      let a ← getPacketAtt j
      pure <| okHex (encodePacketAtt a)
  | "abi.packetatt.dec" => some do
      let b ← bytes j "data"
      pure <| ofG "invalid-attestation"
        (fun a => Json.mkObj [("height", num a.height), ("packets", Json.arr (a.packets.map compactJson).toArray)]) (decodePacketAtt b)
  | "abi.compact.enc" => some do
      let p ← bytes j "path"; let c ← bytes j "commitment"
      pure <| okHex (encodeCompact ⟨p, c⟩)
  -- protobuf
  | "proto.ics20.enc" => some do pure <| okHex (Proto.encode (← getVals j ftpdNames))
  | "proto.gmp.enc" => some do pure <| okHex (Proto.encode (← getVals j gmpNames))
  | "proto.gmpack.enc" => some do pure <| okHex (Proto.encode (← getVals j ackNames))
  | "proto.ics20.dec" => some do
      pure <| ofG "invalid-type" (valsJson ftpdNames) (Proto.decode 5 (← bytes j "data"))
  | "proto.gmp.dec" => some do
      pure <| ofG "invalid-type" (valsJson gmpNames) (Proto.decodeCanonical 5 (← bytes j "data"))
  | "proto.gmpack.dec" => some do
      pure <| ofG "invalid-type" (valsJson ackNames) (Proto.decodeCanonical 1 (← bytes j "data"))
  | "proto.ics20.raw" => some do
      pure <| ofG "proto" (valsJson ftpdNames) (Proto.unmarshal 5 (← bytes j "data"))
  | "proto.gmp.raw" => some do
      pure <| ofG "proto" (valsJson gmpNames) (Proto.unmarshal 5 (← bytes j "data"))
  | "proto.gmpack.raw" => some do
      pure <| ofG "proto" (valsJson ackNames) (Proto.unmarshal 1 (← bytes j "data"))
  | "proto.reject" => some do
      let k ← nat j "k"
      pure <| ofG "unknown-field" (fun _ => Json.str "clean") (Proto.rejectUnknown k (← bytes j "data"))
  -- amounts
  | "amount.parse" => some do
      let s := (← str j "s").toList
      pure <| Json.mkObj [("sdk", intJson (newIntFromString s)), ("big10", intJson (parseBig10 s)),
        ("valid", match validAmount s with | some n => Json.str (toString n) | none => Json.null)]
  | _ => none

end IbcVerif.Driver.MiscCodec
