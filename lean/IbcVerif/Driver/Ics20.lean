/-
  `xfermodel xfer`, stateful part: the ICS-20 world.  The driver adds what the verified model leaves
  abstract — a minimal packet layer that decides *which* callback core IBC invokes for a relay request
  (exactly-once receive, one terminal outcome, timeout only for unreceived packets; these are the
  facts `LifecycleOK` states as hypotheses and other properties prove about core IBC) — and prints
  the canonical observable state delta after every op.
-/
import IbcVerif.Util.J
import IbcVerif.Model.Ics20
import IbcVerif.Model.DenomSha256
import IbcVerif.Driver.Denom
open Lean
namespace IbcVerif.Driver.Ics20
open IbcVerif IbcVerif.J IbcVerif.Xfer IbcVerif.Ics20 IbcVerif.Driver.Denom

structure Link where
  a : Nat
  aid : Str
  b : Nat
  bid : Str
  v1 : Bool

structure St where
  cfg : Config
  w : World
  nchains : Nat
  book : List Str
  known : List Str            -- coin denominations that may carry a balance
  nextSeq : List ((Nat × Str) × Nat)

def emptyChain : Chain := ⟨Bank.empty, fun _ => 0, [], true, true⟩

def mkCfg (links : List Link) (book : List (Str × List Bool)) : Config :=
  { hashHex := Sha256.hashHex
    decode := fun s => if book.any (fun e => e.1 == s) then some s else none
    blocked := fun c a => match book.find? (fun e => e.1 == a) with
      | some e => e.2.getD c false
      | none => false
    moduleAddr := "mod:transfer".toList
    escrowAddr := fun p c => "esc:".toList ++ p ++ '/' :: c
    peer := fun c id =>
      match links.find? (fun l => (l.a == c && l.aid == id) || (l.b == c && l.bid == id)) with
      | some l => if l.a == c && l.aid == id then some (l.b, l.bid) else some (l.a, l.aid)
      | none => none
    hasChannel := fun c port chan =>
      port == transferPort && links.any (fun l => l.v1 && ((l.a == c && l.aid == chan) || (l.b == c && l.bid == chan))) }

def getSeq (st : St) (c : Nat) (id : Str) : Nat :=
  match st.nextSeq.find? (fun e => e.1 == (c, id)) with
  | some e => e.2
  | none => 1

def setSeq (st : St) (c : Nat) (id : Str) (v : Nat) : St :=
  { st with nextSeq := ((c, id), v) :: st.nextSeq.filter (fun e => e.1 != (c, id)) }

def strLt (a b : Str) : Bool := String.ofList a < String.ofList b

def insertSorted (x : List String) (xs : List (List String)) : List (List String) :=
  match xs with
  | [] => [x]
  | y :: ys => if x ≤ y then x :: y :: ys else y :: insertSorted x ys

def sortRows (rows : List (List String)) : List (List String) := rows.foldl (fun acc r => insertSorted r acc) []

def rowsJson (rows : List (List String)) : Json :=
  Json.arr ((sortRows rows).map fun r => Json.arr (r.map Json.str).toArray).toArray

def S (s : Str) : String := String.ofList s

/-- observable delta of chain `c` between two worlds -/
def delta (st : St) (known : List Str) (c : Nat) (w0 w1 : World) : Json :=
  let c0 := w0.chains c
  let c1 := w1.chains c
  let bal := st.book.flatMap fun a => known.filterMap fun d =>
    if c0.bank.bal a d != c1.bank.bal a d then some [S a, S d, toString (c1.bank.bal a d)] else none
  let sup := known.filterMap fun d =>
    if c0.bank.supply d != c1.bank.supply d then some [S d, toString (c1.bank.supply d)] else none
  let esc := known.filterMap fun d =>
    if c0.totalEscrow d != c1.totalEscrow d then some [S d, toString (c1.totalEscrow d)] else none
  let den := c1.denoms.filterMap fun d =>
    if c0.denoms.contains d then none else some [S d.path]
  Json.mkObj [("bal", rowsJson bal), ("sup", rowsJson sup), ("esc", rowsJson esc), ("den", rowsJson den)]

/-- full view of chain `c` (non-zero entries) -/
def view (st : St) (c : Nat) : Json :=
  let ch := st.w.chains c
  let bal := st.book.flatMap fun a => st.known.filterMap fun d =>
    if ch.bank.bal a d != 0 then some [S a, S d, toString (ch.bank.bal a d)] else none
  let sup := st.known.filterMap fun d =>
    if ch.bank.supply d != 0 then some [S d, toString (ch.bank.supply d)] else none
  let esc := st.known.filterMap fun d =>
    if ch.totalEscrow d != 0 then some [S d, toString (ch.totalEscrow d)] else none
  let den := ch.denoms.map fun d => [S d.path]
  Json.mkObj [("bal", rowsJson bal), ("sup", rowsJson sup), ("esc", rowsJson esc), ("den", rowsJson den)]

def refreshKnown (st : St) : St :=
  -- every coin that can carry a balance: vouchers of stored denominations, and for every packet the
  -- coin a refund would credit and the coin a receive would credit
  let extra := ((List.range st.nchains).flatMap fun c =>
    (st.w.chains c).denoms.map fun d => d.ibcDenom st.cfg.hashHex) ++
    (st.w.sent.flatMap fun p =>
      [(extract p.data.denom).ibcDenom st.cfg.hashHex,
       ics20RecvCoinDenom st.cfg.hashHex p.srcPort p.srcChan p.dstPort p.dstChan p.data.denom])
  { st with known := extra.foldl (fun acc d => if acc.contains d then acc else acc ++ [d]) st.known }

def codeOf (cls : String) : String :=
  match cls.splitOn "/" with
  | [_, n] => n
  | _ => cls

def failJson : Res → Json
  | .err cls => Json.mkObj [("r", "err"), ("cls", cls)]
  | .panic => Json.mkObj [("r", "panic")]
  | _ => Json.mkObj [("r", "bad")]

def optStr (j : Json) (k : String) : String :=
  match j.getObjVal? k with
  | .ok (.str s) => s
  | _ => ""

def findPacket (st : St) (c : Nat) (id : Str) (seq : Nat) : Option Packet :=
  st.w.sent.find? fun p => p.srcChain == c && p.srcChan == id && p.seq == seq

def parseLink (j : Json) : Except String Link := do
  let a ← nat j "a"; let b ← nat j "b"
  let aid ← str j "aid"; let bid ← str j "bid"
  let v1 ← bool j "v1"
  pure ⟨a, aid.toList, b, bid.toList, v1⟩

def doReset (j : Json) : Except String St := do
  let n ← nat j "chains"
  let links ← (← arr j "links").toList.mapM parseLink
  let book ← (← arr j "book").toList.mapM fun e => do
    let name ← str e "name"
    let bl ← (← arr e "blocked").toList.mapM Json.getBool?
    pure (name.toList, bl)
  let cfg := mkCfg links book
  let mut chains : Nat → Chain := fun _ => emptyChain
  let mut known : List Str := []
  for e in (← arr j "bal").toList do
    let r ← e.getArr?
    match r.toList with
    | [c, a, d, v] =>
      let c ← natOf c; let a ← a.getStr?; let d ← d.getStr?; let v ← natOf v
      let ch := chains c
      let ch' := { ch with bank := ch.bank.setBal a.toList d.toList v }
      chains := fun c' => if c' = c then ch' else chains c'
      if !known.contains d.toList then known := known ++ [d.toList]
    | _ => throw "bal row"
  for e in (← arr j "sup").toList do
    let r ← e.getArr?
    match r.toList with
    | [c, d, v] =>
      let c ← natOf c; let d ← d.getStr?; let v ← natOf v
      let ch := chains c
      let ch' := { ch with bank := ch.bank.setSupply d.toList v }
      chains := fun c' => if c' = c then ch' else chains c'
      if !known.contains d.toList then known := known ++ [d.toList]
    | _ => throw "sup row"
  pure { cfg := cfg, w := ⟨chains, [], [], [], []⟩, nchains := n, book := book.map (·.1), known := known, nextSeq := [] }

def pktJson (p : Packet) : Json :=
  Json.mkObj [("denom", jstr p.data.denom), ("amount", toString p.data.amount), ("sender", jstr p.data.sender),
    ("receiver", jstr p.data.receiver), ("dst", jstr p.dstChan), ("v2", p.v2)]

def ackOfOutcome (p : Packet) (success : Bool) : Ack :=
  if success then .result else if p.v2 then .sentinel else .error

def ackOfKind (k : String) (p : Packet) (success : Bool) : Ack :=
  match k with
  | "result" => .result
  | "error" => .error
  | "sentinel" => .sentinel
  | "garbage" => .garbage
  | "noncanon" => .resultNonCanon
  | _ => ackOfOutcome p success

/-- finish a state-changing op: refresh the denomination universe, print the delta -/
def finish (st : St) (c : Nat) (w1 : World) (fields : List (String × Json)) : St × Json :=
  let st1 := refreshKnown { st with w := w1 }
  (st1, Json.mkObj (fields ++ [("delta", delta st st1.known c st.w w1)]))

def handleOp (st : St) (f : String) (j : Json) : Except String (St × Json) := do
  match f with
  | "transfer" =>
    let c ← nat j "chain"
    let m : MsgTransfer := {
      port := (← str j "port").toList, chan := (← str j "chan").toList, denom := (← str j "denom").toList,
      amount := ← nat j "amount", sender := (← str j "sender").toList, receiver := (← str j "receiver").toList,
      memo := (← str j "memo").toList, alias := ← bool j "alias", encoding := (← str j "encoding").toList }
    let signer := (← str j "signer").toList
    let viaTx ← bool j "tx"
    let ce := optStr j "coreErr"
    let coreErr := if ce == "" then none else some ce
    let seq := getSeq st c m.chan
    let (w1, r) := step st.cfg st.w (.transfer c signer viaTx m coreErr seq)
    match r with
    | .sent p =>
      let st' := setSeq st c m.chan (seq + 1)
      pure (finish st' c w1 [("r", "ok"), ("seq", toString seq), ("pkt", pktJson p)])
    | other => pure (st, failJson other)
  | "sendv2" =>
    let c ← nat j "chain"
    let client := (← str j "chan").toList
    let data : PacketData := ⟨(← str j "denom").toList, ← nat j "amount", (← str j "sender").toList,
      (← str j "receiver").toList, (← str j "memo").toList⟩
    let signer := (← str j "signer").toList
    let ce := optStr j "coreErr"
    let coreErr := if ce == "" then none else some ce
    let seq := getSeq st c client
    let (w1, r) := step st.cfg st.w (.sendV2 c signer client data coreErr seq)
    match r with
    | .sent p =>
      let st' := setSeq st c client (seq + 1)
      pure (finish st' c w1 [("r", "ok"), ("seq", toString seq), ("pkt", pktJson p)])
    | other => pure (st, failJson other)
  | "recv" =>
    let c ← nat j "chain"; let id := (← str j "chan").toList; let seq ← nat j "seq"
    let elapsed ← bool j "elapsed"
    let ce := optStr j "coreErr"
    match findPacket st c id seq with
    | none => pure (st, Json.mkObj [("r", "bad"), ("why", "no such packet")])
    | some p =>
      -- core IBC's order of checks: timeout first; then v1 verifies the commitment proof before the
      -- replay check, v2 does the replay check before the proof
      let received := st.w.recvd.any (fun e => e.1 == p)
      let gone := st.w.timedOut.contains p || st.w.acked.contains p
      if elapsed then pure (st, Json.mkObj [("r", "err"), ("cls", ce)])
      else if !p.v2 && gone then pure (st, Json.mkObj [("r", "err"), ("cls", ce)])
      else if received then pure (st, Json.mkObj [("r", "noop")])
      else if gone then pure (st, Json.mkObj [("r", "err"), ("cls", ce)])
      else
        let (w1, r) := step st.cfg st.w (.recv p)
        match r with
        | .recvd .success => pure (finish st p.dstChain w1 [("r", "ok"), ("ack", "success")])
        | .recvd (.failure cls) =>
          pure (finish st p.dstChain w1 [("r", "ok"), ("ack", "error"), ("code", if p.v2 then "v2" else codeOf cls)])
        | other => pure (st, failJson other)
  | "ack" =>
    let c ← nat j "chain"; let id := (← str j "chan").toList; let seq ← nat j "seq"
    let kind := optStr j "kind"
    match findPacket st c id seq with
    | none => pure (st, Json.mkObj [("r", "bad"), ("why", "no such packet")])
    | some p =>
      match st.w.recvd.find? (fun e => e.1 == p) with
      | none => pure (st, Json.mkObj [("r", "bad"), ("why", "not received")])
      | some (_, success) =>
        if st.w.acked.contains p || st.w.timedOut.contains p then pure (st, Json.mkObj [("r", "noop")])
        else
          let (w1, r) := step st.cfg st.w (.ack p (ackOfKind kind p success))
          match r with
          | .ok => pure (finish st c w1 [("r", "ok")])
          | other => pure (st, failJson other)
  | "timeout" =>
    let c ← nat j "chain"; let id := (← str j "chan").toList; let seq ← nat j "seq"
    let elapsed ← bool j "elapsed"
    let ce := optStr j "coreErr"
    match findPacket st c id seq with
    | none => pure (st, Json.mkObj [("r", "bad"), ("why", "no such packet")])
    | some p =>
      -- core IBC's order of checks (v1 and v2): timeout reached, commitment present (else NOOP),
      -- proof of non-receipt
      if !elapsed then pure (st, Json.mkObj [("r", "err"), ("cls", ce)])
      else if st.w.acked.contains p || st.w.timedOut.contains p then pure (st, Json.mkObj [("r", "noop")])
      else if st.w.recvd.any (fun e => e.1 == p) then pure (st, Json.mkObj [("r", "err"), ("cls", ce)])
      else
        let (w1, r) := step st.cfg st.w (.timeout p (optStr j "mode" == "onclose"))
        match r with
        | .ok => pure (finish st c w1 [("r", "ok")])
        | other => pure (st, failJson other)
  | "params" =>
    let c ← nat j "chain"
    let (w1, _) := step st.cfg st.w (.setParams c (← bool j "send") (← bool j "recv"))
    pure ({ st with w := w1 }, Json.mkObj [("r", "ok")])
  | "banksend" =>
    let c ← nat j "chain"
    let (w1, r) := step st.cfg st.w (.bankSend c (← str j "from").toList (← str j "to").toList
      (← str j "denom").toList (← nat j "amount"))
    match r with
    | .ok => pure (finish st c w1 [("r", "ok")])
    | other => pure (st, failJson other)
  | "view" =>
    let c ← nat j "chain"
    pure (st, view st c)
  | "advance" => pure (st, Json.mkObj [("r", "ok")])
  | _ => throw s!"unknown op {f}"

end IbcVerif.Driver.Ics20
