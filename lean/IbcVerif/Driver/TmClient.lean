/-
  `tmmodel tmclient`: stateful engine for the 07-tendermint model.
  Requests: reset / create / update / misb / advance / upgrade / recover / pruneAll / vm / vnm / dump and the
  raw-store functions raw.* (C22) plus the pure functions be.height / calcTP / parseChainID.
  Every state-changing answer carries the result class `r`, the canonical delta `d` of all client stores
  (sorted [key, value|null] pairs) and `st` = [client id, status, latest height] of every client.
-/
import IbcVerif.Util.J
import IbcVerif.Model.TmClient
import IbcVerif.Driver.TmLight
open Lean
namespace IbcVerif.Driver.TmClient
open IbcVerif IbcVerif.J IbcVerif.Tm

def hstr (h : Height) : String := String.ofList h.format

def getH (j : Json) (k : String) : Except String Height := do
  let s ← str j k
  match Height.parse s.toList with
  | some h => pure h
  | none => throw s!"field {k}: bad height {s}"

def int (j : Json) (k : String) : Except String Int := do
  let v ← j.getObjVal? k
  match v with
  | .str s => match s.toInt? with
    | some n => pure n
    | none => throw s!"field {k}: not an integer: {s}"
  | _ => v.getInt?

def obj (j : Json) (k : String) : Except String Json := j.getObjVal? k

def optStr (j : Json) (k : String) : Except String (Option String) :=
  match j.getObjVal? k with
  | .ok .null => pure none
  | .ok (.str s) => pure (some s)
  | .ok _ => throw s!"field {k}: expected string or null"
  | .error _ => pure none

/-- `07-tendermint-N` ↦ N -/
def getCid (j : Json) (k : String) : Except String Nat := do
  let s ← str j k
  let pre := "07-tendermint-"
  if s.startsWith pre then
    match (s.drop pre.length).toString.toNat? with
    | some n => pure n
    | none => throw s!"field {k}: bad client id {s}"
  else throw s!"field {k}: bad client id {s}"

def getCons (j : Json) : Except String ConsState := do
  pure ⟨← int j "ts", ← str j "root", ← str j "nvh"⟩

def getCs (j : Json) : Except String ClientState := do
  pure { chainId := ← str j "chainId", tlNum := ← nat j "tlNum", tlDen := ← nat j "tlDen",
         trustingPeriod := ← int j "tp", unbondingPeriod := ← int j "ub", maxClockDrift := ← int j "drift",
         frozen := ← getH j "frozen", latest := ← getH j "latest", proofSpecs := ← optStr j "specs",
         upgradePath := ← strs j "path", allowExpiry := ← bool j "ae", allowMisb := ← bool j "am" }

def getHdr (j : Json) : Except String Header := do
  pure { height := ← getH j "height", ts := ← int j "ts", root := ← str j "root", nvh := ← str j "nvh",
         trusted := ← getH j "trusted", tvals := ← optStr j "tvals", parseOK := ← bool j "parseOK",
         blockHash := ← str j "blockHash", commitOK := ← bool j "commitOK", blockIdOK := ← bool j "blockIdOK",
         basicOK := ← bool j "basicOK" }

def getUpg (j : Json) : Except String UpgradeReq := do
  pure { newClient := ← getCs (← obj j "client"), newCons := ← getCons (← obj j "cons"),
         clientBzOK := ← bool j "clientBzOK", consBzOK := ← bool j "consBzOK",
         proofClientParse := ← bool j "pcParse", proofConsParse := ← bool j "psParse",
         proofClientOK := ← bool j "pcOK", proofConsOK := ← bool j "psOK" }

def getMem (j : Json) : Except String MembershipReq := do
  pure { height := ← getH j "height", delayTime := UInt64.ofNat (← nat j "delayT"), delayBlocks := UInt64.ofNat (← nat j "delayB"),
         proofParse := ← bool j "proofParse", proofOK := ← bool j "proofOK" }

/-! canonical rendering -/

def csJson (cs : ClientState) : Json :=
  Json.mkObj [("chainId", cs.chainId), ("tlNum", num cs.tlNum), ("tlDen", num cs.tlDen),
    ("tp", Json.str (toString cs.trustingPeriod)), ("ub", Json.str (toString cs.unbondingPeriod)),
    ("drift", Json.str (toString cs.maxClockDrift)), ("frozen", hstr cs.frozen), ("latest", hstr cs.latest),
    ("specs", match cs.proofSpecs with | none => Json.null | some s => Json.str s),
    ("path", Json.arr (cs.upgradePath.map Json.str).toArray), ("ae", cs.allowExpiry), ("am", cs.allowMisb)]

def consStr (c : ConsState) : String := toString c.ts ++ "|" ++ c.root ++ "|" ++ c.nvh

def flatStore (cid : String) (s : Store) : List (String × Json) :=
  (match s.client with | none => [] | some cs => [(cid ++ "|cs", csJson cs)]) ++
  s.cons.map (fun (h, c) => (cid ++ "|c|" ++ hstr h, Json.str (consStr c))) ++
  s.ptime.map (fun (h, t) => (cid ++ "|pt|" ++ hstr h, Json.str (toString t))) ++
  s.pheight.map (fun (h, p) => (cid ++ "|ph|" ++ hstr h, Json.str (hstr p))) ++
  s.iter.map (fun (k, v) => (cid ++ "|ik|" ++ hex k, Json.str (hstr v)))

def sortKV (l : List (String × Json)) : List (String × Json) := l.mergeSort (fun a b => a.1 ≤ b.1)

def flatWorld (w : World) : List (String × Json) :=
  sortKV (w.clients.flatMap (fun (cid, s) => flatStore (clientId cid) s))

/-- clients that exist (a client state is stored) -/
def liveClients (w : World) : List (String × Store) :=
  ((w.clients.filter (fun (_, s) => s.client.isSome)).map (fun (n, s) => (clientId n, s))).mergeSort (fun a b => a.1 ≤ b.1)

/-- merge two key-sorted dumps into the list of changed keys -/
partial def diffKV : List (String × Json) → List (String × Json) → List Json
  | [], [] => []
  | (k, _) :: r, [] => Json.arr #[Json.str k, Json.null] :: diffKV r []
  | [], (k, v) :: r => Json.arr #[Json.str k, v] :: diffKV [] r
  | (k1, v1) :: r1, (k2, v2) :: r2 =>
    if k1 < k2 then Json.arr #[Json.str k1, Json.null] :: diffKV r1 ((k2, v2) :: r2)
    else if k2 < k1 then Json.arr #[Json.str k2, v2] :: diffKV ((k1, v1) :: r1) r2
    else if v1.compress == v2.compress then diffKV r1 r2
    else Json.arr #[Json.str k2, v2] :: diffKV r1 r2

def statuses (w : World) : Json :=
  let l := liveClients w
  Json.arr (l.map (fun (cid, s) => Json.arr #[Json.str cid, Json.str (s.status w.now).toString, Json.str (hstr s.latestHeight)])).toArray

def answer (w w' : World) (r : String) : Json :=
  Json.mkObj [("r", r), ("d", Json.arr (diffKV (flatWorld w) (flatWorld w')).toArray), ("st", statuses w')]

def heightsJson (l : List Height) : Json := Json.arr (l.map (fun h => Json.str (hstr h))).toArray

def storeJson (s : Store) : Json :=
  Json.mkObj [("kv", Json.arr ((sortKV (flatStore "" s)).map (fun (k, v) => Json.arr #[Json.str k, v])).toArray),
              ("asc", heightsJson s.iterAsc)]

def dumpJson (w : World) : Json :=
  let l := liveClients w
  Json.mkObj [("clients", Json.arr (l.map (fun (cid, s) => Json.arr #[Json.str cid, storeJson s])).toArray)]

def optCons (o : Option ConsState) : Json :=
  match o with | none => Json.null | some c => Json.str (consStr c)

/-- engine state: the world of real clients and one scratch store for the raw-store functions -/
structure St where
  w : World
  raw : Store
  rawNow : Int
  rawSelf : Height

def St.init : St := ⟨⟨[], 0, 0, ⟨0, 0⟩⟩, Store.empty, 0, ⟨0, 0⟩⟩

def doOp (st : St) (op : Op) : St × Json :=
  let (w', r) := step st.w op
  ({ st with w := w' }, answer st.w w' r)

def rawTp (s : Store) : Int := match s.client with | some cs => cs.trustingPeriod | none => 0

def rawAnswer (s s' : Store) (r : String) : Json :=
  Json.mkObj [("r", r), ("d", Json.arr (diffKV (sortKV (flatStore "" s)) (sortKV (flatStore "" s'))).toArray)]

def handle (st : St) (f : String) (j : Json) : Except String (St × Json) := do
  match f with
  | "reset" =>
    let now ← int j "now"; let self ← getH j "self"; let n ← nat j "nextSeq"
    pure ({ st with w := ⟨[], n, now, self⟩ }, Json.mkObj [("r", "ok")])
  | "create" => pure (doOp st (.create (← getCs (← obj j "cs")) (← getCons (← obj j "cons"))))
  | "update" => pure (doOp st (.update (← getCid j "cid") (← getHdr (← obj j "hdr")) (← bool j "valid")))
  | "misb" =>
    let m : Misbehaviour := ⟨← getHdr (← obj j "h1"), ← getHdr (← obj j "h2"), ← bool j "chainEq"⟩
    pure (doOp st (.misbehaviour (← getCid j "cid") m (← bool j "v1") (← bool j "v2")))
  | "advance" => pure (doOp st (.advance (← nat j "dt") (← nat j "dh")))
  | "upgrade" => pure (doOp st (.upgrade (← getCid j "cid") (← getUpg (← obj j "u"))))
  | "recover" => pure (doOp st (.recover (← getCid j "subject") (← getCid j "substitute")))
  | "pruneAll" => pure (doOp st (.pruneAll (← getCid j "cid")))
  | "vm" => pure (doOp st (.verifyMembership (← getCid j "cid") (← getMem j)))
  | "vnm" => pure (doOp st (.verifyNonMembership (← getCid j "cid") (← getMem j)))
  | "dump" => pure (st, dumpJson st.w)
  -- raw store functions (C22)
  | "raw.reset" =>
    let cs ← getCs (← obj j "cs")
    pure ({ st with raw := { Store.empty with client := some cs }, rawNow := ← int j "now", rawSelf := ← getH j "self" },
          Json.mkObj [("r", "ok")])
  | "raw.advance" =>
    pure ({ st with rawNow := st.rawNow + (← nat j "dt") }, Json.mkObj [("r", "ok")])
  | "raw.insert" =>
    let h ← getH j "h"; let c ← getCons (← obj j "cons"); let ph ← getH j "ph"; let pt ← nat j "pt"
    let s' := (st.raw.setCons h c).setMeta h ph pt
    pure ({ st with raw := s' }, rawAnswer st.raw s' "ok")
  | "raw.delete" =>
    let h ← getH j "h"
    let s' := (st.raw.delCons h).delMeta h
    pure ({ st with raw := s' }, rawAnswer st.raw s' "ok")
  | "raw.pruneOldest" =>
    match st.raw.pruneOldest (rawTp st.raw) st.rawNow with
    | none => pure (st, rawAnswer st.raw st.raw "panic")
    | some s' => pure ({ st with raw := s' }, rawAnswer st.raw s' "ok")
  | "raw.pruneAll" =>
    let (s', n) := st.raw.pruneAll (rawTp st.raw) st.rawNow
    pure ({ st with raw := s' }, rawAnswer st.raw s' ("ok:" ++ toString n))
  | "raw.next" => let h ← getH j "h"; pure (st, Json.mkObj [("ok", optCons (st.raw.getNext h))])
  | "raw.prev" => let h ← getH j "h"; pure (st, Json.mkObj [("ok", optCons (st.raw.getPrev h))])
  | "raw.get" =>
    let h ← getH j "h"
    pure (st, Json.mkObj [("c", optCons (st.raw.getCons h)),
      ("pt", match st.raw.ptime.get h with | none => Json.null | some t => Json.str (toString t)),
      ("ph", match st.raw.pheight.get h with | none => Json.null | some p => Json.str (hstr p)),
      ("ik", match Idx.get st.raw.iter (beHeight h) with | none => Json.null | some v => Json.str (hstr v))])
  | "raw.iter" => pure (st, Json.mkObj [("asc", heightsJson st.raw.iterAsc)])
  | "raw.dump" => pure (st, storeJson st.raw)
  -- pure functions
  | "be.height" => let h ← getH j "h"; pure (st, okHex (beHeight h))
  | "calcTP" => pure (st, okNat (calculateNewTrustingPeriod (← nat j "tp") (← nat j "orig") (← nat j "new")))
  | "parseChainID" => pure (st, okNat (parseChainID (← str j "s")))
  | "isExpired" => pure (st, okBool (isExpired (← int j "tp") (← int j "ts") (← int j "now")))
  | _ =>
    match IbcVerif.Driver.TmLight.handle f j with
    | some r => pure (st, ← r)
    | none => throw s!"unknown function {f}"

def stepJson (st : St) (j : Json) : St × Json :=
  match str j "f" with
  | .error e => (st, Json.mkObj [("bad", Json.str e)])
  | .ok f =>
    match handle st f j with
    | .ok r => r
    | .error e => (st, Json.mkObj [("bad", Json.str e)])

def main : IO Unit := runEngine St.init stepJson

end IbcVerif.Driver.TmClient
