import IbcVerif.Util.J
import IbcVerif.Model.Authz
open Lean
namespace IbcVerif.Driver.Authz
open IbcVerif.J IbcVerif.Authz

/-- Go `strings.TrimSpace` on ASCII input -/
def trimAscii (s : String) : String := s.trimAscii.toString

def getCoins (v : Json) : Except String Coins := do
  let a ← v.getArr?
  a.toList.mapM fun c => do pure (← str c "d", ← nat c "n")

def getAlloc (v : Json) : Except String Allocation := do
  pure { port := ← str v "port", chan := ← str v "chan", limit := ← getCoins (← v.getObjVal? "limit"),
         allowList := ← strs v "allow", allowedMemos := ← strs v "memos" }

def getMsg (v : Json) : Except String Msg := do
  pure { port := ← str v "port", chan := ← str v "chan", denom := ← str v "denom", amount := ← nat v "amount",
         receiver := ← str v "receiver", memo := ← str v "memo" }

def putCoins (c : Coins) : Json :=
  let sorted := c.toArray.qsort (fun a b => a.1 < b.1)
  Json.arr (sorted.map fun (d, n) => Json.mkObj [("d", Json.str d), ("n", num n)])

def putAlloc (a : Allocation) : Json :=
  Json.mkObj [("port", Json.str a.port), ("chan", Json.str a.chan), ("limit", putCoins a.limit),
    ("allow", Json.arr (a.allowList.map Json.str).toArray), ("memos", Json.arr (a.allowedMemos.map Json.str).toArray)]

def putResp : Resp → Json
  | .notFound => err "not-found" | .badReceiver => err "invalid-address" | .badMemo => err "invalid-authorization"
  | .insufficient => err "insufficient-funds"
  | .acceptDelete => Json.mkObj [("accept", true), ("delete", true)]
  | .acceptKeep => Json.mkObj [("accept", true), ("delete", false), ("updated", Json.null)]
  | .acceptUpdated a => Json.mkObj [("accept", true), ("delete", false), ("updated", Json.arr (a.map putAlloc).toArray)]

def handle (f : String) (j : Json) : Option (Except String Json) :=
  match f with
  | "authz.accept" => some do
      let allocs ← (← arr j "allocs").toList.mapM getAlloc
      let m ← getMsg (← j.getObjVal? "msg")
      pure (putResp (accept trimAscii allocs m))
  | "authz.run" => some do
      -- a whole request history against one grant: per-request responses
      let mut g ← (← arr j "allocs").toList.mapM getAlloc
      let msgs ← (← arr j "msgs").toList.mapM getMsg
      let mut out : Array Json := #[]
      for m in msgs do
        let r := accept trimAscii g m
        out := out.push (putResp r)
        g := nextGrant g r
      pure <| ok (Json.arr out)
  | _ => none

end IbcVerif.Driver.Authz
