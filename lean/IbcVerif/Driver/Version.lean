import IbcVerif.Util.J
import IbcVerif.Model.Version
open Lean
namespace IbcVerif.Driver.Version
open IbcVerif.J IbcVerif.Version

def getVersion (v : Json) : Except String Version := do
  pure { id := ← str v "id", features := ← strs v "features" }

def getVersions (j : Json) (k : String) : Except String (List Version) := do
  (← arr j k).toList.mapM getVersion

def putVersion (v : Version) : Json :=
  Json.mkObj [("id", Json.str v.id), ("features", Json.arr (v.features.map Json.str).toArray)]

def handle (f : String) (j : Json) : Option (Except String Json) :=
  match f with
  | "version.pick" => some do
      match pickVersion (← getVersions j "sup") (← getVersions j "cp") with
      | some v => pure <| ok (putVersion v)
      | none => pure <| err "negotiation-failed"
  | "version.isSupported" => some do
      pure <| okBool (isSupported (← getVersions j "sup") (← getVersion (← j.getObjVal? "proposed")))
  | "version.intersection" => some do
      pure <| ok (Json.arr ((intersection (← strs j "src") (← strs j "cp")).map Json.str).toArray)
  | "version.verifyProposed" => some do
      pure <| okBool (verifyProposed (← getVersion (← j.getObjVal? "v")) (← getVersion (← j.getObjVal? "proposed")))
  | _ => none

end IbcVerif.Driver.Version
