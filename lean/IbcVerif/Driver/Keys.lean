import IbcVerif.Util.J
import IbcVerif.Model.Keys
open Lean
namespace IbcVerif.Driver.Keys
open IbcVerif IbcVerif.J IbcVerif.Keys

def sbytes (j : Json) (k : String) : Except String Bytes := do
  pure (← str j k).toUTF8.toList

def kindV1 (s : String) : Except String KindV1 :=
  match s with
  | "channelEnd" => pure .channelEnd | "nextRecv" => pure .nextRecv | "nextAck" => pure .nextAck
  | "recvStart" => pure .recvStart | "commitment" => pure .commitment | "ack" => pure .ack
  | "receipt" => pure .receipt | _ => throw "kind"

def kindV2 (s : String) : Except String KindV2 :=
  match s with
  | "commitment" => pure .commitment | "receipt" => pure .receipt | "ack" => pure .ack | _ => throw "kind"

def handle (f : String) (j : Json) : Option (Except String Json) :=
  match f with
  | "keys.v1" => some do
      pure <| okHex (v1Key (← kindV1 (← str j "kind")) (← sbytes j "port") (← sbytes j "chan") (← nat j "seq"))
  | "keys.v1prefix" => some do
      pure <| okHex (v1PrefixKey (← kindV1 (← str j "kind")) (← sbytes j "port") (← sbytes j "chan"))
  | "keys.v2" => some do
      pure <| okHex (v2Key (← kindV2 (← str j "kind")) (← sbytes j "id") (← nat j "seq"))
  | "keys.v2prefix" => some do
      pure <| okHex (v2PrefixKey (← kindV2 (← str j "kind")) (← sbytes j "id"))
  | "keys.nextSeqSend" => some do pure <| okHex (nextSeqSendKey (← sbytes j "id"))
  | "keys.async" => some do pure <| okHex (asyncKey (← sbytes j "id") (← nat j "seq"))
  | "keys.asyncprefix" => some do pure <| okHex (asyncPrefixKey (← sbytes j "id"))
  | "keys.alias" => some do pure <| okHex (aliasKey (← sbytes j "id"))
  | "keys.client" => some do pure <| okHex (fullClientKey (← sbytes j "id") (← sbytes j "path"))
  | "keys.connection" => some do pure <| okHex (connectionKey (← sbytes j "id"))
  | "keys.validId" => some do
      let id ← sbytes j "id"
      pure <| Json.mkObj [("client", validId id 4 Gen.defaultMaxCharacterLength), ("connection", validId id 10 Gen.defaultMaxCharacterLength),
        ("channel", validId id 8 Gen.defaultMaxCharacterLength), ("port", validId id 2 Gen.defaultMaxPortCharacterLength)]
  | _ => none

end IbcVerif.Driver.Keys
