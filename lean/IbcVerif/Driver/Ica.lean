/-
  `appsmodel ica`: driver for the ICS-27 model.  Lifecycle ops act on a two-chain world restarted by
  `reset`; `exec` requests are stateless (host-side execution decision).
-/
import IbcVerif.Util.J
import IbcVerif.Model.Ica
open Lean
namespace IbcVerif.Driver.Ica
open IbcVerif.J IbcVerif.Apps IbcVerif.Ica

def errStr : Err → String
  | .disabled => "err:disabled" | .invalidControllerPort => "err:invalid-controller-port"
  | .invalidHostPort => "err:invalid-host-port" | .connectionNotFound => "err:core"
  | .invalidVersion => "err:invalid-version" | .invalidCodec => "err:invalid-codec"
  | .unknownDataType => "err:unknown-data-type" | .invalidConnection => "err:core"
  | .invalidAddress => "err:invalid-address" | .activeAlreadySet => "err:active-already-set"
  | .invalidOrdering => "err:invalid-ordering" | .invalidChannelFlow => "err:invalid-channel-flow"
  | .channelNotFound => "err:core" | .activeNotFound => "err:active-not-found"
  | .invalidTimeout => "err:invalid-timeout" | .accountExists => "err:account-exists"
  | .invalidReopening => "err:invalid-reopening" | .invalidRequest => "err:invalid-request"
  | .invalidType => "err:core"
  | .coreState => "err:core"

def initWorld : World :=
  { ctrl := ⟨[], [], [], 0, true⟩, host := ⟨[], [], [], 0, true⟩,
    peer := [("cconn", "hconn")],
    validAddr := fun a => a.all (fun c => c != '!' && c != ' '),
    genAddr := fun h p => "A(" ++ h ++ "," ++ p ++ ")",
    taken := [] }

def sortStrs (l : List String) : List String := l.mergeSort (fun a b => decide (a ≤ b))

def stateStr : ChState → String
  | .init => "init" | .tryopen => "tryopen" | .opened => "open" | .closed => "closed"

/-- "c12" / "h3" → 12 / 3 (anything else: a channel that does not exist) -/
def chanNo (s : String) : Nat := ((s.drop 1).toString.toNat?).getD 1000000

def fmtSide (ctrl : Bool) (s : Side) : Json :=
  let nm (own : Bool) (n : Nat) : String := (if own == ctrl then "c" else "h") ++ toString n
  let chans := (s.chans.map fun (id, c) => (nm true id, c)).mergeSort (fun a b => decide (a.1 ≤ b.1))
  Json.mkObj [
    ("chans", Json.arr (chans.map fun (id, c) => Json.mkObj [
        ("id", id), ("port", if ctrl then c.port else c.cpPort), ("state", stateStr c.state), ("order", match c.order with | .ordered => "ordered" | .unordered => "unordered"),
        ("cp", match c.cpChan with | some n => nm false n | none => ""), ("address", match c.md with | some m => m.address | none => "")]).toArray),
    ("active", Json.arr ((sortStrs (s.active.map fun (k, id) => k.1 ++ "|" ++ k.2 ++ "|" ++ nm true id)).map Json.str).toArray),
    ("addr", Json.arr ((sortStrs (s.addr.map fun (k, a) => k.1 ++ "|" ++ k.2 ++ "|" ++ a)).map Json.str).toArray)]

def fmtWorld (w : World) : Json := Json.mkObj [("ctrl", fmtSide true w.ctrl), ("host", fmtSide false w.host)]

def getOrder (j : Json) : Except String Order := do
  match ← str j "order" with
  | "ordered" => pure .ordered
  | _ => pure .unordered

def getVersion (j : Json) : Except String (Option (Option Metadata)) := do
  match (j.getObjValAs? String "vkind").toOption.getD "blank" with
  | "blank" => pure none
  | "garbage" => pure (some none)
  | _ => pure (some (some ⟨← str j "mVersion", ← str j "mCtrlConn", ← str j "mHostConn", ← str j "mAddress",
      ← str j "mEncoding", ← str j "mTxType"⟩))

def answer (w : World) (e : Option Err) (extra : List (String × Json) := []) : World × Json :=
  (w, Json.mkObj ([("r", Json.str (match e with | none => "ok" | some e => errStr e)), ("world", fmtWorld w)] ++ extra))

def exc {α : Type} (r : Except Err α) : Option Err := match r with | .ok _ => none | .error e => some e

def handleWorld (w : World) (f : String) (j : Json) : Except String (World × Json) := do
  match f with
  | "reset" => pure (answer initWorld none)
  | "register" =>
    let (w', r) := register w (← str j "owner") (← str j "conn") (← getVersion j) (← getOrder j)
    pure (answer w' (exc r) (match r with | .ok id => [("chan", Json.str ("c" ++ toString id))] | _ => []))
  | "init" =>
    let port := match j.getObjValAs? String "port" with
      | .ok p => if p == "" then ctrlPrefix ++ ((j.getObjValAs? String "owner").toOption.getD "") else p
      | .error _ => ctrlPrefix ++ ((j.getObjValAs? String "owner").toOption.getD "")
    let cp := (j.getObjValAs? String "cpPort").toOption.getD hostPort
    let (w', r) := ctrlInit w (← getOrder j) (← str j "conn") port cp (← getVersion j)
    pure (answer w' (exc r) (match r with | .ok id => [("chan", Json.str ("c" ++ toString id))] | _ => []))
  | "hostTry" =>
    let (w', r) := hostTry w (chanNo (← str j "cid"))
    pure (answer w' (exc r) (match r with | .ok id => [("chan", Json.str ("h" ++ toString id))] | _ => []))
  | "ctrlAck" => let (w', r) := ctrlAck w (chanNo (← str j "cid")) (chanNo (← str j "hid")); pure (answer w' (exc r))
  | "hostConfirm" => let (w', r) := hostConfirm w (chanNo (← str j "hid")); pure (answer w' (exc r))
  | "timeoutClose" => let (w', r) := ctrlTimeoutClose w (chanNo (← str j "cid")); pure (answer w' (exc r))
  | "hostCloseConfirm" => let (w', r) := hostCloseConfirm w (chanNo (← str j "hid")); pure (answer w' (exc r))
  | "hostInit" => pure (answer w (some .invalidChannelFlow))
  | "ctrlTry" => pure (answer w (some .invalidChannelFlow))
  | "closeInit" => pure (answer w (some .invalidRequest))
  | "setEnabled" =>
    let (w', _) := step w (.setEnabled (← bool j "ctrl") (← bool j "on"))
    pure (answer w' none)
  | "sendTx" =>
    let owner ← str j "owner"
    match sendTx w owner owner (← str j "conn") (← bool j "timeoutOk") (← bool j "dataOk") with
    | .ok (port, cid) => pure (answer w none [("port", Json.str port), ("chan", Json.str ("c" ++ toString cid))])
    | .error e => pure (answer w (some e))
  | _ => throw s!"unknown op {f}"

/-- C37: the host application state is the list of message indices whose effects are in place -/
def handleExec (j : Json) : Except String Json := do
  let allow ← strs j "allow"
  let ms ← (← arr j "msgs").toList.mapM fun m => do
    let kind ← str m "kind"
    let url := match kind with
      | "send" => "/cosmos.bank.v1beta1.MsgSend"
      | "multisend" => "/cosmos.bank.v1beta1.MsgMultiSend"
      | _ => "/ibc.applications.transfer.v1.MsgTransfer"
    pure (url, ← strs m "signers", (m.getObjValAs? Bool "vbOk").toOption.getD true, ← bool m "handlerOk")
  let msgs : List (Msg (List Nat)) := ms.zipIdx.map fun ((url, signers, vb, hok), i) =>
    { typeURL := url, signers := signers, vbOk := vb, routed := true,
      handler := fun s => if hok then some (s ++ [i]) else none }
  let icaAddr := if (← bool j "registered") then some "ica" else none
  let (s', e) := executeTx (← bool j "chanFound") icaAddr allow msgs []
  let cls := match e with
    | none => "ok"
    | some .channelNotFound => "err:channel-not-found"
    | some .accountNotFound => "err:account-not-found"
    | some .typeNotAllowed => "err:unauthorized"
    | some .wrongSigner => "err:unauthorized"
    | some .invalidRoute => "err:invalid-route"
    | some .validateBasic => "err:msg"
    | some .handler => "err:msg"
  pure (Json.mkObj [("r", Json.str cls), ("effects", Json.arr (s'.map (fun i => (Json.num (i : Nat) : Json))).toArray),
    ("icaSpent", Json.bool (!s'.isEmpty)), ("otherSpent", Json.bool false)])

def stepJ (w : World) (j : Json) : World × Json :=
  match str j "f" with
  | .error e => (w, Json.mkObj [("bad", Json.str e)])
  | .ok "exec" =>
    match handleExec j with
    | .ok r => (w, r)
    | .error e => (w, Json.mkObj [("bad", Json.str e)])
  | .ok f =>
    match handleWorld w f j with
    | .ok r => r
    | .error e => (w, Json.mkObj [("bad", Json.str e)])

def main : IO Unit := runEngine initWorld stepJ

end IbcVerif.Driver.Ica
