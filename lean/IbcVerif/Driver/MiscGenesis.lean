/-
  miscmodel driver part: Genesis (C44).
  `genesis.roundtrip`: the harness sends the typed state of chain A's ibc store before the export; the
  model answers `importG env (exportG s)` — the typed state the REAL InitGenesis must have produced on
  the fresh chain — plus whether anything was lost and whether the re-export equals the first export.
-/
import IbcVerif.Util.J
import IbcVerif.Model.Genesis
open Lean
namespace IbcVerif.Driver.MiscGenesis
open IbcVerif.J IbcVerif.Genesis

def seqOf (j : Json) : Except String Nat := nat j "seq"

def parseMap {κ : Type} (j : Json) (field : String) (key : Json → Except String κ) : Except String (List (κ × Val)) := do
  let a ← arr j field
  a.toList.mapM fun e => do
    let k ← key e
    let v ← str e "v"
    pure (k, v)

def keyId (e : Json) : Except String String := str e "id"
def keyPC (e : Json) : Except String PortChan := do pure (← str e "port", ← str e "chan")
def keyPCS (e : Json) : Except String PortChanSeq := do pure (← str e "port", ← str e "chan", ← seqOf e)
def keyIS (e : Json) : Except String IdSeq := do pure (← str e "id", ← seqOf e)
def keyCK (e : Json) : Except String ClientKey := do pure (← str e "id", ← str e "sub")
def keyK (e : Json) : Except String String := str e "k"

def parseState (j : Json) : Except String State := do
  pure {
    clientParams := ← str j "clientParams"
    nextClientSeq := ← str j "nextClientSeq"
    cstore := ← parseMap j "cstore" keyCK
    conns := ← parseMap j "conns" keyId
    connParams := ← str j "connParams"
    nextConnSeq := ← str j "nextConnSeq"
    chans := ← parseMap j "chans" keyPC
    nextRecv := ← parseMap j "nextRecv" keyPC
    nextAck := ← parseMap j "nextAck" keyPC
    nextSend := ← parseMap j "nextSend" keyId
    commits := ← parseMap j "commits" keyPCS
    receipts := ← parseMap j "receipts" keyPCS
    acks := ← parseMap j "acks" keyPCS
    nextChanSeq := ← str j "nextChanSeq"
    commits2 := ← parseMap j "commits2" keyIS
    receipts2 := ← parseMap j "receipts2" keyIS
    acks2 := ← parseMap j "acks2" keyIS
    async2 := ← parseMap j "async2" keyIS
    alias := ← parseMap j "alias" keyId
    other := ← parseMap j "other" keyK }

def fmtMap {κ : Type} (m : List (κ × Val)) (key : κ → List (String × Json)) : Json :=
  Json.arr (m.map fun e => Json.mkObj (key e.1 ++ [("v", Json.str e.2)])).toArray

def fId (k : String) : List (String × Json) := [("id", Json.str k)]
def fPC (k : PortChan) : List (String × Json) := [("port", Json.str k.1), ("chan", Json.str k.2)]
def fPCS (k : PortChanSeq) : List (String × Json) :=
  [("port", Json.str k.1), ("chan", Json.str k.2.1), ("seq", num k.2.2)]
def fIS (k : IdSeq) : List (String × Json) := [("id", Json.str k.1), ("seq", num k.2)]
def fCK (k : ClientKey) : List (String × Json) := [("id", Json.str k.1), ("sub", Json.str k.2)]
def fK (k : String) : List (String × Json) := [("k", Json.str k)]

def fmtState (s : State) : Json :=
  Json.mkObj [
    ("clientParams", Json.str s.clientParams), ("nextClientSeq", Json.str s.nextClientSeq),
    ("cstore", fmtMap s.cstore fCK), ("conns", fmtMap s.conns fId),
    ("connParams", Json.str s.connParams), ("nextConnSeq", Json.str s.nextConnSeq),
    ("chans", fmtMap s.chans fPC), ("nextRecv", fmtMap s.nextRecv fPC), ("nextAck", fmtMap s.nextAck fPC),
    ("nextSend", fmtMap s.nextSend fId),
    ("commits", fmtMap s.commits fPCS), ("receipts", fmtMap s.receipts fPCS), ("acks", fmtMap s.acks fPCS),
    ("nextChanSeq", Json.str s.nextChanSeq),
    ("commits2", fmtMap s.commits2 fIS), ("receipts2", fmtMap s.receipts2 fIS), ("acks2", fmtMap s.acks2 fIS),
    ("async2", fmtMap s.async2 fIS), ("alias", fmtMap s.alias fId), ("other", fmtMap s.other fK)]

def handle (f : String) (j : Json) : Option (Except String Json) :=
  match f with
  | "genesis.roundtrip" => some do
      let ej ← j.getObjVal? "env"
      let cps ← (← arr ej "cpId").toList.mapM fun e => do pure ((← str e "v"), (← str e "cp"))
      let env : Env := { localhostConn := ← str ej "localhostConn", cpId := cps }
      let s ← parseState (← j.getObjVal? "state")
      if !wfB env s then
        -- the harness state is not a well-formed store (unsorted / missing sentinel / export would panic)
        pure <| Json.mkObj [("bad", Json.str "state not well-formed")]
      else
        let g := exportG s
        match initGenesis env g with
        | none =>
          -- clientv2 genesis validation rejects the export: InitGenesis panics
          pure <| Json.mkObj [("panic", Json.str "clientv2-self-counterparty")]
        | some s' =>
        let lossless := decide (s' = s)
        pure <| Json.mkObj [
          ("r", Json.str (if lossless then "lossless" else "lossy")),
          ("state", fmtState s'),
          ("reexport_equal", Json.bool (decide (exportG s' = g)))]
  | _ => none

end IbcVerif.Driver.MiscGenesis
