/-
  `xfermodel xfer`: the ICS-20 engine.  Stateless requests (`denom.*`, `escrow.*`, `rl.*`, `ics20.recv`)
  are answered by `Driver/Denom.lean`; the stateful world (requests `reset`, `transfer`, `recv`, `ack`,
  `timeout`, …) by `Driver/Ics20.lean`.
-/
import IbcVerif.Util.J
import IbcVerif.Driver.Denom
open Lean
namespace IbcVerif.Driver.Xfer
open IbcVerif.J

def handlePure (f : String) (j : Json) : Except String Json :=
  match IbcVerif.Driver.Denom.handle f j with
  | some r => r
  | none => .error s!"unknown function {f}"

def main : IO Unit := runEngine () (pureStep handlePure)

end IbcVerif.Driver.Xfer
