/-
  `xfermodel xfer`: the ICS-20 engine.  Stateless requests (`denom.*`, `escrow.*`, `rl.*`, `ics20.recv`)
  are answered by `Driver/Denom.lean`; the stateful world (requests `reset`, `transfer`, `recv`, `ack`,
  `timeout`, `params`, `banksend`, `view`) by `Driver/Ics20.lean`.
-/
import IbcVerif.Util.J
import IbcVerif.Driver.Denom
import IbcVerif.Driver.Ics20
open Lean
namespace IbcVerif.Driver.Xfer
open IbcVerif.J

def bad (e : String) : Json := Json.mkObj [("bad", Json.str e)]

def stepEngine (st : Option IbcVerif.Driver.Ics20.St) (j : Json) : Option IbcVerif.Driver.Ics20.St × Json :=
  match str j "f" with
  | .error e => (st, bad e)
  | .ok f =>
    match IbcVerif.Driver.Denom.handle f j with
    | some (.ok r) => (st, r)
    | some (.error e) => (st, bad e)
    | none =>
      if f == "reset" then
        match IbcVerif.Driver.Ics20.doReset j with
        | .ok s => (some s, Json.mkObj [("r", "ok")])
        | .error e => (st, bad e)
      else match st with
        | none => (st, bad "no world: send reset first")
        | some s =>
          match IbcVerif.Driver.Ics20.handleOp s f j with
          | .ok (s', r) => (some s', r)
          | .error e => (st, bad e)

def main : IO Unit := runEngine none stepEngine

end IbcVerif.Driver.Xfer
