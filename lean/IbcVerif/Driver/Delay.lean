import IbcVerif.Util.J
import IbcVerif.Model.Delay
open Lean
namespace IbcVerif.Driver.Delay
open IbcVerif IbcVerif.J IbcVerif.Delay

instance : BEq DelayResult := ⟨fun a b => decide (a = b)⟩

def optNat (j : Json) (k : String) : Except String (Option Nat) :=
  match j.getObjVal? k with
  | .ok .null => pure none
  | .ok _ => do pure (some (← nat j k))
  | .error _ => pure none

def cls : DelayResult → String
  | .ok => "ok" | .processedTimeNotFound => "processed-time-not-found"
  | .processedHeightNotFound => "processed-height-not-found" | .notPassed => "delay-not-passed"
  | .overflow => "delay-not-passed"   -- an overflowing sum can never pass; the code reports it with the same sentinel

def handle (f : String) (j : Json) : Option (Except String Json) :=
  match f with
  | "delay.blockDelay" => some do pure <| okNat (getBlockDelay (← nat j "d") (← nat j "e"))
  | "delay.passed" => some do
      let self : Height := ⟨UInt64.ofNat (← nat j "selfRev"), UInt64.ofNat (← nat j "selfH")⟩
      let pt ← optNat j "pt"
      let phh ← optNat j "phH"
      let ph : Option Height ← match phh with
        | none => pure none
        | some h => do pure (some ⟨UInt64.ofNat (← nat j "phRev"), UInt64.ofNat h⟩)
      let r := verifyDelayPeriodPassed (← nat j "now") self pt ph (← nat j "dt") (← nat j "db")
      pure <| if r == .ok then okStr "ok" else err (cls r)
  | _ => none

end IbcVerif.Driver.Delay
