/-
  miscmodel driver part: map-range folds (C45).

    maprange.port.keys        {"keys":[..]}  (construction order)         -> {"ok":[sorted keys]}
    maprange.api.router       {"ops":[{"op":"route"|"prefix","p":".."}],"q":[..]}
                              -> {"ops":[outcome per op],"routes":[module index | "none" per query]}
    maprange.pfm.initGenesis  {"pre":[[k,id]..],"entries":[[k,id]..]}    -> {"ok":[[k,id]..]} | {"panic":"empty-key"}
    determinism.replay        {"seed","ops","run1":{"blocks","digest"}}   -> {"ok":"identical","blocks","digest"}

  The folds are evaluated on the list in the order given by the request; the theorems of
  Props/C45.lean say that any other order gives the same answer, and the implementation (which
  iterates a real Go map in random order) must agree.
  `determinism.replay`: a model is a function, so replaying a history reproduces the transcript of
  the first run; the answer echoes the first run's summary and the harness reports the second run's.
-/
import IbcVerif.Util.J
import IbcVerif.Model.MapRange
open Lean
namespace IbcVerif.Driver.MiscMapRange
open IbcVerif.J IbcVerif.MapRange

def strLe (a b : String) : Bool := decide (a ≤ b)

def isAlnum (s : String) : Bool := !s.isEmpty && s.toList.all (fun c => c.isAlphanum)

def pairOf (v : Json) : Except String (String × String) := do
  let a ← v.getArr?
  match a.toList with
  | [k, x] => pure (← k.getStr?, ← x.getStr?)
  | _ => throw "expected [key, value]"

abbrev R := ApiRouter Char Nat

/-- one wiring call: outcome text and the router afterwards (unchanged on panic) -/
def routerOp (r : R) (idx : Nat) (op p : String) : Except String (String × R) := do
  let k := p.toList
  if !isAlnum p then return ("panic:notalnum", r)
  match op with
  | "route" =>
    if (keys r.routes).contains k then return ("panic:dup", r)
    match addRouteScan k r.prefixRoutes with
    | some pfx => return ("panic:matched-by-prefix:" ++ String.ofList pfx, r)
    | none =>
      match r.addRoute k idx with
      | some r' => return ("ok", r')
      | none => throw "model inconsistency in addRoute"
  | "prefix" =>
    if addPrefixScanRoutes k r.routes then return ("panic:prefix-of-route", r)
    match addPrefixScanPrefixes k r.prefixRoutes with
    | (.coveredBy (), some pfx) => return ("panic:covered-by:" ++ String.ofList pfx, r)
    | (.covers (), _) => return ("panic:covers", r)
    | (.none, _) =>
      match r.addPrefixRoute k idx with
      | some r' => return ("ok", r')
      | none => throw "model inconsistency in addPrefixRoute"
    | _ => throw "model inconsistency in scan class"
  | _ => throw s!"unknown router op {op}"

def handle (f : String) (j : Json) : Option (Except String Json) :=
  match f with
  | "maprange.port.keys" => some do
      let ks ← strs j "keys"
      let sorted := portRouterKeys strLe (ks.map (fun k => (k, ())))
      pure <| ok (Json.arr (sorted.map Json.str).toArray)
  | "maprange.api.router" => some do
      let ops ← arr j "ops"
      let qs ← strs j "q"
      let mut r : R := ApiRouter.empty
      let mut outs : Array Json := #[]
      let mut idx := 0
      for o in ops do
        let (res, r') ← routerOp r idx (← str o "op") (← str o "p")
        r := r'
        outs := outs.push (Json.str res)
        idx := idx + 1
      let routes := qs.map fun q => match r.getRoute q.toList with
        | some i => Json.str (toString i)
        | none => Json.str "none"
      pure <| Json.mkObj [("ops", Json.arr outs), ("routes", Json.arr routes.toArray)]
  | "maprange.pfm.initGenesis" => some do
      let pre ← (← arr j "pre").toList.mapM pairOf
      let entries ← (← arr j "entries").toList.mapM pairOf
      let store : KV String String := fun q => pre.lookup q
      match pfmInitGenesis (fun k : String => k.isEmpty) id store entries with
      | none => pure <| Json.mkObj [("panic", Json.str "empty-key")]
      | some s =>
        let ks := ((pre.map Prod.fst ++ entries.map Prod.fst).mergeSort strLe).eraseDups
        let dump := ks.filterMap fun k => (s k).map fun v => Json.arr #[Json.str k, Json.str v]
        pure <| ok (Json.arr dump.toArray)
  | "determinism.replay" => some do
      let run1 ← j.getObjVal? "run1"
      pure <| Json.mkObj [("ok", Json.str "identical"), ("blocks", Json.str (← str run1 "blocks")),
        ("digest", Json.str (← str run1 "digest"))]
  | _ => none

end IbcVerif.Driver.MiscMapRange
