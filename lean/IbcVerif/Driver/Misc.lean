/-
  `miscmodel misc`: model side of the misc cluster engines (C35 codec, C47 parsers, C44 genesis,
  C45 map-range folds). Stateless: each request is answered independently; the first handler
  that recognises the function name answers.
-/
import IbcVerif.Util.J
import IbcVerif.Driver.MiscCodec
import IbcVerif.Driver.MiscPanic
import IbcVerif.Driver.MiscGenesis
import IbcVerif.Driver.MiscMapRange
open Lean
namespace IbcVerif.Driver.Misc
open IbcVerif.J

def handlers : List (String → Json → Option (Except String Json)) :=
  [ IbcVerif.Driver.MiscCodec.handle
  , IbcVerif.Driver.MiscPanic.handle
  , IbcVerif.Driver.MiscGenesis.handle
  , IbcVerif.Driver.MiscMapRange.handle
  ]

def handle (f : String) (j : Json) : Except String Json :=
  let rec go : List (String → Json → Option (Except String Json)) → Except String Json
    | [] => .error s!"unknown function {f}"
    | h :: hs => match h f j with
      | some r => r
      | none => go hs
  go handlers

def main : IO Unit := runEngine () (pureStep handle)

end IbcVerif.Driver.Misc
