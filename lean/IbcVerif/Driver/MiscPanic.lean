/-
  miscmodel driver part: ibc-go-authored parsers with explicit panics (C47).
  Answers: {"ok": …} | {"err": "<class>"} | {"panic": "yes"}.
-/
import IbcVerif.Util.J
import IbcVerif.Model.PanicParsers
open Lean
namespace IbcVerif.Driver.MiscPanic
open IbcVerif IbcVerif.J IbcVerif.Parsers

def ofG {α : Type} (f : α → Json) : G α → Json
  | .ok a => ok (f a)
  | .err e => err e
  | .panic _ => Json.mkObj [("panic", Json.str "yes")]

def js (s : Str) : Json := Json.str (String.ofList s)

instance : Inhabited JVal := ⟨.null⟩
instance : Inhabited Forward := ⟨⟨[], [], [], none, none, none⟩⟩

/-- `encoding/json` dynamic value of a parsed document (numbers: integers only in the generators) -/
partial def toJVal : Json → JVal
  | .null => .null
  | .bool b => .bool b
  | .num n => .num (if n.exponent = 0 then n.mantissa else n.mantissa / (10 ^ n.exponent : Nat))
  | .str s => .str s.toList
  | .arr a => .arr (a.toList.map toJVal)
  | .obj kv => .obj (kv.toList.map (fun (k, v) => (k.toList, toJVal v)))

/-- `json.Unmarshal([]byte(s), &map[string]any{})` -/
def parseObj (s : Str) : Option (List (Str × JVal)) :=
  match Json.parse (String.ofList s) with
  | .ok (.obj kv) => some (kv.toList.map (fun (k, v) => (k.toList, toJVal v)))
  | _ => none

/-- `GetCustomPacketData(key)` of FungibleTokenPacketData: memo as a JSON object, then the key -/
def customData (memo key : Str) : Option JVal :=
  if memo = [] then none
  else match parseObj memo with
    | none => none
    | some kv => jlookup kv key

partial def forwardJson (f : Forward) : Json :=
  Json.mkObj [("receiver", js f.receiver), ("port", js f.port), ("channel", js f.channel),
    ("retries", match f.retries with | some r => Json.str (toString r) | none => Json.null),
    ("next", match f.next with | some n => forwardJson n | none => Json.null)]

def isHexStr (s : Str) : Bool :=
  s.length % 2 == 0 && s.all (fun c => c.isDigit || ('a' ≤ c && c ≤ 'f') || ('A' ≤ c && c ≤ 'F'))

def maxU64 : Nat := 2 ^ 64 - 1

def handle (f : String) (j : Json) : Option (Except String Json) :=
  match f with
  | "parse.clientId" => some do
      let s := (← str j "s").toList
      pure <| ofG (fun (t, n) => Json.mkObj [("type", js t), ("seq", num n)]) (parseClientIdentifier Lib.go s)
  | "parse.height" => some do
      let s := (← str j "s").toList
      pure <| ofG (fun (r, h) => Json.mkObj [("rev", num r), ("h", num h)]) (parseHeight Lib.go s)
  | "parse.chainId" => some do
      let s := (← str j "s").toList
      pure <| ofG (fun n => num n) (parseChainID Lib.go s)
  | "parse.revisionFormat" => some do
      let s := (← str j "s").toList
      pure <| okBool (Lib.go.isRevisionFormat s)
  | "parse.setRevision" => some do
      let s := (← str j "s").toList; let r ← nat j "rev"
      pure <| ofG js (setRevisionNumber Lib.go s r)
  | "parse.identifier" => some do
      let s := (← str j "s").toList; let p := (← str j "prefix").toList
      pure <| ofG (fun n => num n) (parseIdentifier Lib.go s p)
  | "parse.channelSeq" => some do
      pure <| ofG (fun n => num n) (parseChannelSequence Lib.go (← str j "s").toList)
  | "parse.connectionSeq" => some do
      pure <| ofG (fun n => num n) (parseConnectionSequence Lib.go (← str j "s").toList)
  | "parse.channelPath" => some do
      pure <| ofG (fun (p, c) => Json.mkObj [("port", js p), ("channel", js c)]) (parseChannelPath Lib.go (← str j "s").toList)
  | "parse.connectionPath" => some do
      pure <| ofG js (parseConnectionPath Lib.go (← str j "s").toList)
  | "parse.clientStatePath" => some do
      pure <| ofG js (parseClientStatePath Lib.go (← str j "s").toList)
  | "parse.extractDenom" => some do
      let s := (← str j "s").toList
      pure <| ofG (fun d => Json.mkObj [("trace", Json.arr (d.trace.map (fun (p, c) => Json.arr #[js p, js c])).toArray), ("base", js d.base)])
        (extractDenomFromPath Lib.go s)
  | "parse.iterKey" => some do
      let k ← bytes j "key"
      pure <| ofG (fun (r, h) => Json.mkObj [("rev", num r), ("h", num h)]) (getHeightFromIterationKey k)
  | "memo.forward" => some do
      let memo := (← str j "memo").toList
      pure <| match getPacketMetadata parseObj (memo.length + 1) (customData memo "forward".toList) with
        | .err e => err (if e == "metadata-key-not-found" || e == "invalid-forward-metadata" then e else "other")
        | r => ofG forwardJson r
  | "memo.callback" => some do
      let memo := (← str j "memo").toList
      let key := (← str j "key").toList
      pure <| ofG (fun c => Json.mkObj [("address", js c.address),
          ("commitGas", num (if c.gasLimit = 0 then maxU64 else c.gasLimit)),
          ("calldata", match c.calldata with | some d => Json.str ((String.ofList d).map Char.toLower) | none => Json.str "")])
        (getCallbackFields Lib.go isHexStr (customData memo key))
  | _ => none

end IbcVerif.Driver.MiscPanic
