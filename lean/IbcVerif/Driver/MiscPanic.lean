/-
  miscmodel driver part: Panic (stub until the model lands).
-/
import IbcVerif.Util.J
open Lean
namespace IbcVerif.Driver.MiscPanic
open IbcVerif.J

def handle (_f : String) (_j : Json) : Option (Except String Json) := none

end IbcVerif.Driver.MiscPanic
