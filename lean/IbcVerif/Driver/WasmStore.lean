/-
  Line-protocol driver for the ClientRecoveryStore model (engine "wasmstore" of `lcmodel`).
  Stateful: {"f":"reset","subject":[[k,v],…],"substitute":[[k,v],…]} starts a history; every other
  request is one method call; every answer carries the result and the full (key-sorted) contents of
  both wrapped stores.
-/
import IbcVerif.Util.J
import IbcVerif.Model.WasmStore
open Lean
namespace IbcVerif.Driver.WasmStore
open IbcVerif.J IbcVerif.WasmStore

def pairsOf (v : Json) : Except String KV := do
  let a ← v.getArr?
  a.toList.mapM fun p => do
    let q ← p.getArr?
    match q.toList with
    | [k, v] => do pure ((← bytesOf k), (← bytesOf v))
    | _ => throw "pair expected"

def pairsJson (l : List (Bytes × Bytes)) : Json :=
  Json.arr (l.map fun p => Json.arr #[Json.str (hex p.1), Json.str (hex p.2)]).toArray

def dump (m : KV) : Json := pairsJson (m.mergeSort (fun a b => !(bytesLt b.1 a.1)))

def withState (s : RS) (fields : List (String × Json)) : Json :=
  Json.mkObj (fields ++ [("subject", dump s.subject), ("substitute", dump s.substitute)])

def resJson (s : RS) : Res → Json
  | .val none => withState s [("r", "val"), ("v", Json.null)]
  | .val (some v) => withState s [("r", "val"), ("v", Json.str (hex v))]
  | .bool b => withState s [("r", "bool"), ("b", b)]
  | .unit => withState s [("r", "unit")]
  | .items l => withState s [("r", "items"), ("items", pairsJson l)]
  | .panic => withState s [("r", "panic")]

def parseOp (f : String) (j : Json) : Except String Op := do
  match f with
  | "get" => pure (.get (← bytes j "k"))
  | "has" => pure (.has (← bytes j "k"))
  | "set" =>
    let k ← bytes j "k"
    let v ← bytes j "v"
    let vnil := (bool j "vnil").toOption.getD false
    pure (.set k (if vnil then none else some v))
  | "delete" => pure (.delete (← bytes j "k"))
  | "iter" => pure (.iter (← bytes j "s") (← bytes j "e"))
  | "reviter" => pure (.revIter (← bytes j "s") (← bytes j "e"))
  | _ => throw s!"unknown op {f}"

def stepJson (s : RS) (j : Json) : RS × Json :=
  match str j "f" with
  | .error e => (s, Json.mkObj [("bad", Json.str e)])
  | .ok "reset" =>
    match (do
      let a ← pairsOf (← j.getObjVal? "subject")
      let b ← pairsOf (← j.getObjVal? "substitute")
      pure (RS.mk a b) : Except String RS) with
    | .ok s' => (s', withState s' [("r", "reset")])
    | .error e => (s, Json.mkObj [("bad", Json.str e)])
  | .ok f =>
    match parseOp f j with
    | .error e => (s, Json.mkObj [("bad", Json.str e)])
    | .ok op =>
      let r := step s op
      (r.1, resJson r.1 r.2)

def main : IO Unit := runEngine (RS.mk [] []) stepJson

end IbcVerif.Driver.WasmStore
