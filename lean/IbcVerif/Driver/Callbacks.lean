/-
  `appsmodel callbacks`: stateless driver for the callbacks model.
    {"f":"gaslimits","gas":{"kind":"absent|number|string","s":…},"remaining":…,"max":…}
    {"f":"cb","entry":"send|ack|timeout|recv|writeAck","app":"ok|err|success|error|async",
     "cb":"none|invalid|valid","user":…,"remaining":…,"max":…,"gas":…,"out":"ok|err|panic","catch":"none|ok|err"}
-/
import IbcVerif.Util.J
import IbcVerif.Model.Dec
import IbcVerif.Model.Callbacks
open Lean
namespace IbcVerif.Driver.Callbacks
open IbcVerif.J IbcVerif.Callbacks

def pcStr : PcResult → String
  | .ok => "ok" | .errCallback => "err:callback" | .errPanic => "err:panic" | .errOog => "err:oog"
  | .panic => "panic" | .panicOog => "panic:oog"

def resStr : MwResult → String
  | .ok => "ok" | .err => "err" | .ack .success => "ack:success" | .ack .error => "ack:error"
  | .ack .async => "ack:async" | .aborted => "aborted"

/-- `getUserDefinedGasLimit`: absent → 0, non-string → invalid, "" → 0, else strconv.ParseUint(s, 10, 64) -/
def userGas (j : Json) : Except String (Option Nat) := do
  let g ← j.getObjVal? "gas"
  match ← str g "kind" with
  | "absent" => pure (some 0)
  | "number" => pure none
  | _ =>
    let s ← str g "s"
    if s = "" then pure (some 0) else pure (IbcVerif.parseUint64 s.toList)

def getContract (j : Json) : Except String Contract := do
  let out ← match ← str j "out" with
    | "ok" => pure Outcome.ok | "err" => pure Outcome.err | "panic" => pure Outcome.panic
    | s => throw s!"bad out {s}"
  let c ← match ← str j "catch" with
    | "none" => pure none | "ok" => pure (some Ret.ok) | "err" => pure (some Ret.err)
    | s => throw s!"bad catch {s}"
  pure ⟨← nat j "gas", out, c⟩

def handle (f : String) (j : Json) : Except String Json := do
  match f with
  | "reset" => pure (Json.mkObj [("ok", Json.bool true)])
  | "gaslimits" =>
    match ← userGas j with
    | none => pure (err "invalid-callback-data")
    | some u =>
      let (e, c) := gasLimits u (← nat j "remaining") (← nat j "max")
      pure (Json.mkObj [("exec", num e), ("commit", num c), ("retry", Json.bool (e < c))])
  | "cb" =>
    let entry ← str j "entry"
    let app ← str j "app"
    let cb ← match ← str j "cb" with
      | "none" => pure CbData.none | "invalid" => pure CbData.invalid
      | "valid" => pure (CbData.valid (← nat j "user"))
      | s => throw s!"bad cb {s}"
    let rem ← nat j "remaining"
    let mx ← nat j "max"
    let c ← getContract j
    let ackOf : String → Except String AckClass
      | "success" => pure .success | "error" => pure .error | "async" => pure .async
      | s => throw s!"bad ack {s}"
    let (o, t) ← match entry with
      | "ack" => pure (onAckOrTimeout .ack (app == "err") cb rem mx c, CbType.ack)
      | "timeout" => pure (onAckOrTimeout .timeout (app == "err") cb rem mx c, CbType.timeout)
      | "send" => pure (onSend (app == "err") cb rem mx c, CbType.send)
      | "recv" => pure (onRecv (← ackOf app) cb rem mx c, CbType.recv)
      | "writeAck" => pure (onWriteAck (app == "err") cb rem mx c, CbType.recv)
      | s => throw s!"bad entry {s}"
    -- the callback event (with both gas limits) exists iff the handler got past ProcessCallback and,
    -- for send callbacks, the callback succeeded
    let hasEvent := o.cbCalled && o.result != .aborted && (t != .send || o.pc == some .ok)
    let limits := match cb with
      | .valid u => let (e, cm) := gasLimits u rem mx; [("exec", num e), ("commit", num cm)]
      | _ => []
    pure (Json.mkObj ([("r", Json.str (resStr o.result)), ("called", Json.bool o.cbCalled), ("wrote", Json.bool o.cbWrote),
      ("charged", num o.charged), ("pc", match o.pc with | some p => Json.str (pcStr p) | none => Json.null)]
      ++ (if hasEvent then limits else [])))
  | _ => throw s!"unknown function {f}"

def main : IO Unit := runEngine () (pureStep handle)

end IbcVerif.Driver.Callbacks
