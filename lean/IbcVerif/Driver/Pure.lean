/-
  `ibcmodel purefn`: stateless functions. Each model module contributes a `handle`; the first
  handler that recognises the function name answers.
-/
import IbcVerif.Util.J
import IbcVerif.Driver.Height
import IbcVerif.Driver.Commit
import IbcVerif.Driver.Keys
import IbcVerif.Driver.Ident
import IbcVerif.Driver.Delay
import IbcVerif.Driver.Version
import IbcVerif.Driver.Router
import IbcVerif.Driver.Authz
import IbcVerif.Driver.Merkle
import IbcVerif.Driver.World
import IbcVerif.Driver.Relay
open Lean
namespace IbcVerif.Driver.Pure
open IbcVerif.J

def handlers : List (String → Json → Option (Except String Json)) :=
  [ IbcVerif.Driver.Height.handle
  , IbcVerif.Driver.Commit.handle
  , IbcVerif.Driver.Keys.handle
  , IbcVerif.Driver.Ident.handle
  , IbcVerif.Driver.Delay.handle
  , IbcVerif.Driver.Version.handle
  , IbcVerif.Driver.Router.handle
  , IbcVerif.Driver.Authz.handle
  , IbcVerif.Driver.Merkle.handle
  , IbcVerif.Driver.World.handle
  , IbcVerif.Driver.Relay.handle
  ]

def handle (f : String) (j : Json) : Except String Json :=
  let rec go : List (String → Json → Option (Except String Json)) → Except String Json
    | [] => .error s!"unknown function {f}"
    | h :: hs => match h f j with
      | some r => r
      | none => go hs
  go handlers

def main : IO Unit := runEngine () (pureStep handle)

end IbcVerif.Driver.Pure
