/-
  Driver for the Relay model (functions relay.recvV1 / relay.ackV1 / relay.recvV2 / relay.ackV2).
  Identifiers and all byte strings travel as hex, 64-bit numbers as decimal strings, absent values as
  JSON null.  The hash is the executable SHA-256.
-/
import IbcVerif.Util.J
import IbcVerif.Model.Relay
import IbcVerif.Model.Sha256
open Lean
namespace IbcVerif.Driver.Relay
open IbcVerif IbcVerif.J IbcVerif.Relay

def errName : Err → String
  | .emptyProof => "proof" | .badSigner => "badSigner" | .invalidId => "invalidId"
  | .invalidPacket => "invalidPacket" | .invalidPayload => "invalidPayload" | .invalidAck => "invalidAck"
  | .signature => "signature" | .route => "route" | .unauthorized => "unauthorized"
  | .chanNotFound => "chanNotFound" | .chanState => "chanState" | .connNotFound => "connNotFound"
  | .connState => "connState" | .timeout => "timeout" | .clientNotActive => "clientNotActive"
  | .invalidHeight => "invalidHeight" | .delay => "delay" | .consNotFound => "consNotFound" | .proof => "proof"
  | .packetReceived => "packetReceived" | .outOfOrder => "outOfOrder" | .seqNotFound => "seqNotFound"
  | .ordering => "ordering" | .cpNotFound => "cpNotFound" | .cpMismatch => "cpMismatch"

def verdictJson : Verdict → Json
  | .ok => Json.mkObj [("r", "ok")]
  | .noop => Json.mkObj [("r", "noop")]
  | .err e => Json.mkObj [("r", "err"), ("e", errName e)]

/-- a field that may be absent or null -/
def opt (j : Json) (k : String) : Option Json :=
  match j.getObjVal? k with
  | .ok .null => none
  | .ok v => some v
  | .error _ => none

def obj (j : Json) (k : String) : Except String Json := j.getObjVal? k

def u64 (j : Json) (k : String) : Except String UInt64 := do pure (UInt64.ofNat (← nat j k))

def height (j : Json) (kr kh : String) : Except String Height := do pure ⟨← u64 j kr, ← u64 j kh⟩

def getEnv (j : Json) : Except String Env := do
  let e ← obj j "env"
  pure { signerOK := ← bool e "signerOK", sigOK := ← bool e "sigOK", self := ← height e "selfRev" "selfH", nowNs := ← nat e "now" }

def getChan (j : Json) : Except String (Option ChanEnd) :=
  match opt j "chan" with
  | none => pure none
  | some c => do
    pure (some { state := ← nat c "state", ordering := ← nat c "ord", cpPort := ← bytes c "cpPort", cpChan := ← bytes c "cpChan" })

def getConn (j : Json) : Except String (Option ConnEnd) :=
  match opt j "conn" with
  | none => pure none
  | some c => do pure (some { state := ← nat c "state", delay := ← nat c "delay", cpPrefix := ← bytes c "cpPrefix" })

def getClient (j : Json) : Except String ClientFacts := do
  let c ← obj j "client"
  let pt ← match opt c "ptime" with
    | none => pure none
    | some v => do pure (some (← natOf v))
  let ph ← match opt c "pheight" with
    | none => pure none
    | some v => do pure (some (← height v "rev" "h"))
  pure {
    active := ← bool c "active", latest := ← height c "lrev" "lh", procTime := pt, procHeight := ph,
    decodes := ← bool c "decodes", consFound := ← bool c "cons" }

def getProof (j : Json) : Except String ProofFacts := do
  let p ← obj j "proof"
  let v ← match opt p "val" with
    | none => pure none
    | some v => do pure (some (← bytesOf v))
  pure {
    height := ← height p "rev" "h", builtAt := ← height p "brev" "bh", intact := ← bool p "intact",
    store := ← bytes p "store", readKey := ← bytes p "key", provenValue := v }

def getPktV1 (j : Json) : Except String PktV1 := do
  let p ← obj j "pkt"
  pure {
    seq := ← u64 p "seq", srcPort := ← bytes p "sp", srcChan := ← bytes p "sc", dstPort := ← bytes p "dp",
    dstChan := ← bytes p "dc", data := ← bytes p "data",
    timeout := ⟨← height p "trev" "th", ← u64 p "tts"⟩ }

def getPayload (v : Json) : Except String Commit.Payload := do
  pure {
    sourcePort := ← bytes v "sp", destPort := ← bytes v "dp", version := ← bytes v "ver",
    encoding := ← bytes v "enc", value := ← bytes v "val" }

def getPktV2 (j : Json) : Except String PktV2 := do
  let p ← obj j "pkt"
  pure {
    seq := ← u64 p "seq", srcClient := ← bytes p "sc", dstClient := ← bytes p "dc", timeout := ← u64 p "ts",
    payloads := ← (← arr p "payloads").toList.mapM getPayload }

def optNat (j : Json) (k : String) : Except String (Option Nat) :=
  match opt j k with
  | none => pure none
  | some v => do pure (some (← natOf v))

def getCp (j : Json) : Except String (Option CpV2) :=
  match opt j "cp" with
  | none => pure none
  | some v => do pure (some ⟨← bytes v "id", ← (← arr v "prefix").toList.mapM bytesOf⟩)

def handle (f : String) (j : Json) : Option (Except String Json) :=
  match f with
  | "relay.recvV1" => some do
      let r : RecvV1 := {
        pkt := ← getPktV1 j, proofEmpty := ← bool j "proofEmpty", env := ← getEnv j, route := ← bool j "route",
        chan := ← getChan j, conn := ← getConn j, client := ← getClient j, proof := ← getProof j,
        maxTimePerBlock := ← nat j "maxTimePerBlock", recvStart := ← nat j "recvStart", receipt := ← bool j "receipt",
        nextRecv := ← optNat j "nextRecv" }
      pure (verdictJson (recvV1 Sha256.sha256 r))
  | "relay.ackV1" => some do
      let r : AckV1 := {
        pkt := ← getPktV1 j, ack := ← bytes j "ack", proofEmpty := ← bool j "proofEmpty", env := ← getEnv j,
        route := ← bool j "route", chan := ← getChan j, conn := ← getConn j, commitment := ← bytes j "commitment",
        ackCanonical := ← bool j "ackCanonical", client := ← getClient j, proof := ← getProof j,
        maxTimePerBlock := ← nat j "maxTimePerBlock", nextAck := ← optNat j "nextAck" }
      pure (verdictJson (ackV1 Sha256.sha256 r))
  | "relay.recvV2" => some do
      let r : RecvV2 := {
        pkt := ← getPktV2 j, proofEmpty := ← bool j "proofEmpty", env := ← getEnv j,
        relayerAllowed := ← bool j "relayerAllowed", cp := ← getCp j, receipt := ← bool j "receipt",
        client := ← getClient j, proof := ← getProof j }
      pure (verdictJson (recvV2 Sha256.sha256 r))
  | "relay.ackV2" => some do
      let r : AckV2 := {
        pkt := ← getPktV2 j, acks := ← (← arr j "acks").toList.mapM bytesOf, proofEmpty := ← bool j "proofEmpty",
        env := ← getEnv j, relayerAllowed := ← bool j "relayerAllowed", cp := ← getCp j,
        commitment := ← bytes j "commitment", client := ← getClient j, proof := ← getProof j }
      pure (verdictJson (ackV2 Sha256.sha256 r))
  | _ => none

end IbcVerif.Driver.Relay
