/-
  `appsmodel pfm`: the outcome of a forwarding scenario as the model predicts it from the kinds of the
  intermediate hops (what ICS-20 did on receive / on forward — ground truth the harness controls through
  the token's origin and the route) and from whether something fails downstream.
-/
import IbcVerif.Util.J
import IbcVerif.Model.Pfm
open Lean
namespace IbcVerif.Driver.Pfm
open IbcVerif.J IbcVerif.Pfm

def handle (f : String) (j : Json) : Except String Json := do
  match f with
  | "reset" => pure (Json.mkObj [("ok", Json.bool true)])
  | "route" =>
    let mids ← (← arr j "mids").toList.mapM fun m => do
      let r ← match ← str m "recv" with
        | "mint" => pure RecvKind.mint | "unescrow" => pure RecvKind.unescrow | s => throw s!"bad recv {s}"
      let fw ← match ← str m "fwd" with
        | "escrow" => pure FwdKind.escrow | "burn" => pure FwdKind.burn | s => throw s!"bad fwd {s}"
      pure (FHop.mk r fw)
    -- what fails is derived by the MODEL from the scenario: the final receiver is no address, an
    -- intermediate chain is told an unknown channel, the first hop times out (plain ICS-20 refund), or a
    -- forwarded packet times out until PFM's retry budget is exhausted (timeout model: `afterTimeouts`)
    let retries := (nat j "retries").toOption.getD 0
    let timeouts := (nats j "timeouts").toOption.getD []
    let badReceiver := (bool j "badReceiver").toOption.getD false
    let badChannel := match j.getObjValAs? Int "badChannelAt" with | .ok n => decide (n ≥ 0) | .error _ => false
    let n0 : Node := ⟨⟨0, 0, 0, 0, 0⟩, none, 1⟩
    let gaveUp (i k : Nat) : Bool :=
      let h := (mids[i - 1]?).getD ⟨.mint, .escrow⟩
      (afterTimeouts h 1 (receiveAndForward h 1 retries true n0) (List.replicate k true)).flight.isNone
    let exhausted := (timeouts.zipIdx.any fun (k, i) => i ≥ 1 && k > 0 && gaveUp i k)
    let firstHopTimeout := (timeouts.head?.getD 0) > 0
    let failed := badReceiver || badChannel || exhausted || firstHopTimeout
    -- every intermediate chain that forwarded: receive, forward, its timeouts, and (on failure) the final refund
    let restored := mids.zipIdx.all fun (h, i) =>
      let k := (timeouts[i + 1]?).getD 0
      (settleFailed h 1 (afterTimeouts h 1 (receiveAndForward h 1 retries true n0) (List.replicate k true))).m == n0.m
    let o := if !failed then Outcome.delivered else if restored && mids.all FHop.restores then .refundedClean else .refundedDirty
    pure (Json.mkObj [("r", Json.str (match o with | .delivered => "delivered" | _ => "refunded")),
      ("clean", Json.bool (o == .refundedClean)), ("overridesEmpty", Json.bool true)])
  | _ => throw s!"unknown function {f}"

def main : IO Unit := runEngine () (pureStep handle)

end IbcVerif.Driver.Pfm
