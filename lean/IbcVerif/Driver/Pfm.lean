/-
  `appsmodel pfm`: the outcome of a forwarding scenario as the model predicts it from the kinds of the
  intermediate hops (what ICS-20 did on receive / on forward — ground truth the harness controls through
  the token's origin and the route) and from whether something fails downstream.
-/
import IbcVerif.Util.J
import IbcVerif.Model.Pfm
open Lean
namespace IbcVerif.Driver.Pfm
open IbcVerif.J IbcVerif.Pfm

def handle (f : String) (j : Json) : Except String Json := do
  match f with
  | "reset" => pure (Json.mkObj [("ok", Json.bool true)])
  | "route" =>
    let mids ← (← arr j "mids").toList.mapM fun m => do
      let r ← match ← str m "recv" with
        | "mint" => pure RecvKind.mint | "unescrow" => pure RecvKind.unescrow | s => throw s!"bad recv {s}"
      let fw ← match ← str m "fwd" with
        | "escrow" => pure FwdKind.escrow | "burn" => pure FwdKind.burn | s => throw s!"bad fwd {s}"
      pure (FHop.mk r fw)
    let o := routeOutcome mids (← bool j "failed")
    pure (Json.mkObj [("r", Json.str (match o with | .delivered => "delivered" | _ => "refunded")),
      ("clean", Json.bool (o == .refundedClean)), ("overridesEmpty", Json.bool true)])
  | _ => throw s!"unknown function {f}"

def main : IO Unit := runEngine () (pureStep handle)

end IbcVerif.Driver.Pfm
