/-
  `appsmodel gmp`: driver for the GMP model (address derivation with the executable SHA-256, account
  mapping across a history, execution decision, send guard).
-/
import IbcVerif.Util.J
import IbcVerif.Model.Gmp
open Lean
namespace IbcVerif.Driver.Gmp
open IbcVerif IbcVerif.J IbcVerif.Apps IbcVerif.Gmp

def errStr : ExecErr → String
  | .emptyPayload => "err:invalid-payload" | .signerCount => "err:invalid-payload"
  | .wrongSigner => "err:unauthorized" | .validateBasic => "err:msg" | .invalidRoute => "err:invalid-route"
  | .handler => "err:msg"

def handle (acc : Accounts) (f : String) (j : Json) : Except String (Accounts × Json) := do
  match f with
  | "reset" => pure ([], Json.mkObj [("ok", Json.bool true)])
  | "addr" =>
    let a := accountAddress Sha256.sha256 (← bytes j "client") (← bytes j "sender") (← bytes j "salt")
    pure (acc, okHex a)
  | "recv" =>
    let t : Triple := (← bytes j "client", ← bytes j "sender", ← bytes j "salt")
    let (acc', a) := getOrCreate Sha256.sha256 acc t
    let ms ← (← arr j "msgs").toList.mapM fun m => do
      pure (← strs m "signers", (m.getObjValAs? Bool "vbOk").toOption.getD true, ← bool m "handlerOk")
    let msgs : List (Ica.Msg (List Nat)) := ms.zipIdx.map fun ((signers, vb, hok), i) =>
      { typeURL := "", signers := signers, vbOk := vb, routed := true,
        handler := fun s => if hok then some (s ++ [i]) else none }
    let (s', e) := executeTx "acct" msgs []
    -- a failed receive is discarded as a whole by core (the account created for it included)
    let accOut := if e.isNone then acc' else acc
    pure (accOut, Json.mkObj [("r", Json.str (match e with | none => "ok" | some e => errStr e)), ("address", Json.str (hex a)),
      ("effects", Json.arr (s'.map (fun i => (Json.num (i : Nat) : Json))).toArray),
      ("known", Json.arr ((accOut.map fun (_, a) => hex a).mergeSort (fun a b => decide (a ≤ b)) |>.map Json.str).toArray)])
  | "send" =>
    let sender : Option Bytes ← match ← str j "sender" with
      | "bad" => pure none
      | s => pure (some (asciiBytes s))
    let r := onSend (← bool j "portsOk") (← bool j "clientIdsOk") (← bool j "dataOk") sender (asciiBytes (← str j "signer"))
    pure (acc, Json.mkObj [("r", Json.str (match r with
      | none => "ok" | some .invalidPacket => "err:invalid-packet" | some .invalidData => "err:invalid-data"
      | some .invalidSender => "err:invalid-sender" | some .unauthorized => "err:unauthorized"))])
  | _ => throw s!"unknown op {f}"

def stepJ (acc : Accounts) (j : Json) : Accounts × Json :=
  match str j "f" with
  | .error e => (acc, Json.mkObj [("bad", Json.str e)])
  | .ok f =>
    match handle acc f j with
    | .ok r => r
    | .error e => (acc, Json.mkObj [("bad", Json.str e)])

def main : IO Unit := runEngine ([] : Accounts) stepJ

end IbcVerif.Driver.Gmp
