/-
  Line-protocol driver for the 06-solomachine model (engine "solo" of `lcmodel`).
  Who signed which bytes, whether a path unmarshals as a MerklePath and the marshalled HeaderData are ground
  truth supplied by the harness; the `SignBytes` encoding is computed by the model.
-/
import IbcVerif.Util.J
import IbcVerif.Model.Solo
open Lean
namespace IbcVerif.Driver.Solo
open IbcVerif.J IbcVerif.Solo

def errName : Err → String
  | .invalidProof => "invalid-proof"
  | .unmarshal => "unmarshal"
  | .invalidType => "invalid-type"
  | .invalidPath => "invalid-path"
  | .sigVerificationFailed => "signature-verification-failed"
  | .invalidHeader => "invalid-header"
  | .soloInvalidHeader => "solo-invalid-header"
  | .invalidClientType => "invalid-client-type"
  | .clientNotActive => "client-not-active"
  | .invalidMisbehaviour => "invalid-misbehaviour"
  | .invalidSignatureAndData => "invalid-signature-and-data"
  | .panic => "panic"

def stateFields (s : State) : List (String × Json) :=
  [("seq", num s.seq), ("frozen", Json.bool s.frozen), ("key", num s.key), ("div", Json.str (hex s.div)),
   ("ts", num s.ts)]

def resJson (s : State) : Res → Json
  | .ok => Json.mkObj ([("r", Json.str "ok")] ++ stateFields s)
  | .err .panic => Json.mkObj ([("r", Json.str "panic")] ++ stateFields s)
  | .err e => Json.mkObj ([("r", Json.str "err"), ("err", Json.str (errName e))] ++ stateFields s)

def sigOf (v : Json) : Except String Sig := do
  match ← str v "k" with
  | "signed" => pure (.signed (← nat v "key") (← bytes v "bytes"))
  | _ => pure .bad

def sdOf (v : Json) : Except String SigData := do
  match ← str v "k" with
  | "empty" => pure .empty
  | "garbage" => pure .garbage
  | "nosum" => pure .nosum
  | _ => pure (.sig (← sigOf (← v.getObjVal? "sig")))

def proofOf (v : Json) : Except String ProofArg := do
  match ← str v "k" with
  | "nil" => pure .nil
  | "garbage" => pure .garbage
  | _ => pure (.mk (← nat v "ts") (← sdOf (← v.getObjVal? "sd")))

def pathOf (j : Json) : Except String PathArg := do
  if (← str j "pathKind") != "merkle" then pure .other else
  let hs ← strs j "path"
  let bs ← hs.mapM fun h => match unhex h with
    | some b => pure b
    | none => throw "bad hex in path"
  pure (.merkle bs)

def sadOf (v : Json) : Except String SigAndData := do
  pure ⟨← sdOf (← v.getObjVal? "sd"), ← bytes v "path", ← bytes v "data", ← nat v "ts"⟩

def msgOf (j : Json) : Except String (ClientMsg × (Bytes → Bool)) := do
  match ← str j "msgKind" with
  | "header" =>
    let h ← j.getObjVal? "header"
    pure (.header ⟨← nat h "ts", ← sdOf (← h.getObjVal? "sd"), ← nat h "newKey", ← bytes h "newDiv",
      ← bytes h "hdata"⟩, fun _ => true)
  | "misbehaviour" =>
    let m ← j.getObjVal? "misb"
    let one ← sadOf (← m.getObjVal? "one")
    let two ← sadOf (← m.getObjVal? "two")
    let pd1 ← bool m "pd1"
    let pd2 ← bool m "pd2"
    let w : MisbehaviourWire := ⟨⟨← nat m "seq", one, two⟩, ← bool m "sigBytesEqual", ← bool m "sigOneEmpty",
      ← bool m "sigTwoEmpty"⟩
    pure (.misbehaviour w, fun p => if p == one.path then pd1 else pd2)
  | _ => pure (.other, fun _ => true)

def stepJson (s : State) (j : Json) : State × Json :=
  match str j "f" with
  | .error e => (s, Json.mkObj [("bad", Json.str e)])
  | .ok "reset" =>
    match (do pure (State.mk (← nat j "seq") false (← nat j "key") (← bytes j "div") (← nat j "ts")) :
        Except String State) with
    | .ok s' => (s', Json.mkObj ([("r", Json.str "reset")] ++ stateFields s'))
    | .error e => (s, Json.mkObj [("bad", Json.str e)])
  | .ok f =>
    match (do
      match f with
      | "vm" => pure (Op.vm (← proofOf (← j.getObjVal? "proof")) (← pathOf j) (← bytes j "value"), fun _ => true)
      | "vnm" => pure (Op.vnm (← proofOf (← j.getObjVal? "proof")) (← pathOf j), fun _ => true)
      | "kvm" => pure (Op.kvm (← proofOf (← j.getObjVal? "proof")) (← pathOf j) (← bytes j "value"), fun _ => true)
      | "kvnm" => pure (Op.kvnm (← proofOf (← j.getObjVal? "proof")) (← pathOf j), fun _ => true)
      | "update" =>
        let (m, pd) ← msgOf j
        pure (Op.update (← bool j "validate") m, pd)
      | _ => throw s!"unknown op {f}" : Except String (Op × (Bytes → Bool))) with
    | .error e => (s, Json.mkObj [("bad", Json.str e)])
    | .ok (op, pd) =>
      let r := step pd s op
      (r.1, resJson r.1 r.2)

def main : IO Unit := runEngine (State.mk 1 false 0 [] 0) stepJson

end IbcVerif.Driver.Solo
