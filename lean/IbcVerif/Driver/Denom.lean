/-
  `xfermodel xfer`, stateless part: the denomination algebra (requests `denom.*`, `escrow.*`, `rl.*`).
-/
import IbcVerif.Util.J
import IbcVerif.Model.Denom
import IbcVerif.Model.DenomSha256
open Lean
namespace IbcVerif.Driver.Denom
open IbcVerif IbcVerif.J IbcVerif.Xfer

def jstr (s : Str) : Json := Json.str (String.ofList s)

def hopsJson (tr : List Hop) : Json :=
  Json.arr (tr.map fun h => Json.arr #[jstr h.port, jstr h.chan]).toArray

def validStr : Option DenomErr → String
  | none => "ok"
  | some .blankBase => "blank-base"
  | some .badHop => "bad-hop"

def denomJson (d : Denom) : Json :=
  Json.mkObj [("trace", hopsJson d.trace), ("base", jstr d.base), ("valid", validStr d.validate),
    ("path", jstr d.path), ("ibc", jstr (d.ibcDenom Sha256.hashHex)), ("native", d.isNative),
    ("hopFree", hopFreeBase d.base)]

def getHops (j : Json) (k : String) : Except String (List Hop) := do
  let a ← arr j k
  a.toList.mapM fun h => do
    let pc ← h.getArr?
    match pc.toList with
    | [p, c] => do
      let p ← p.getStr?; let c ← c.getStr?
      pure ⟨p.toList, c.toList⟩
    | _ => throw "hop: expected [port, channel]"

def handle (f : String) (j : Json) : Option (Except String Json) :=
  match f with
  | "denom.extract" => some do
      let s ← str j "s"
      pure <| denomJson (extract s.toList)
  | "denom.build" => some do
      let tr ← getHops j "trace"
      let b ← str j "base"
      let d : Denom := ⟨tr, b.toList⟩
      let hp ← str j "hp"; let hc ← str j "hc"
      pure <| (denomJson d).setObjVal! "hasPrefix" (d.hasPrefix hp.toList hc.toList)
  | "denom.ids" => some do
      let s := (← str j "s").toList
      pure <| Json.mkObj [("chanFmt", isChannelIDFormat s), ("chanValid", isValidChannelID s),
        ("clientFmt", isClientIDFormat s), ("clientValid", isValidClientID s),
        ("portOk", validPortId s), ("chanOk", validChannelId s)]
  | "denom.coin" => some do
      let s := (← str j "s").toList
      pure <| Json.mkObj [("sdk", sdkValidDenom s), ("ibc", validIBCDenom s)]
  | "escrow.addr" => some do
      let p := (← str j "p").toList; let c := (← str j "c").toList
      pure <| okHex (escrowAddress Sha256.hash20 p c)
  | "rl.send" => some do
      let s := (← str j "denom").toList
      pure <| ok (jstr (rlSendDenom Sha256.hashHex s))
  | "rl.recv" => some do
      let sp := (← str j "sp").toList; let sc := (← str j "sc").toList
      let dp := (← str j "dp").toList; let dc := (← str j "dc").toList
      let s := (← str j "denom").toList
      pure <| ok (jstr (rlRecvDenom Sha256.hashHex sp sc dp dc s))
  | "ics20.recv" => some do
      let sp := (← str j "sp").toList; let sc := (← str j "sc").toList
      let dp := (← str j "dp").toList; let dc := (← str j "dc").toList
      let s := (← str j "denom").toList
      let d := extract s
      match d.validate with
      | some _ => pure <| err "invalid-denom"
      | none =>
        let coin := ics20RecvCoinDenom Sha256.hashHex sp sc dp dc s
        -- `sdk.NewCoin` panics on a denomination the SDK regards as invalid
        if !sdkValidDenom coin then pure <| Json.mkObj [("panic", true)]
        else pure <| Json.mkObj [("mode", if d.hasPrefix sp sc then "unescrow" else "mint"), ("coin", jstr coin)]
  | _ => none

end IbcVerif.Driver.Denom
