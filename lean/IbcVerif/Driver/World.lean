import IbcVerif.Util.J
import IbcVerif.Model.World
import IbcVerif.Model.Admin
import IbcVerif.Model.Delay
open Lean
namespace IbcVerif.Driver.World
open IbcVerif.J IbcVerif.World

def acc (b : Bool) : Json := Json.mkObj [("accept", b)]

/-- the harness reports the block in which a receive executed as a number, 0 = never -/
def recvAt (n : Nat) : Option Nat := if n = 0 then none else some n

def handle (f : String) (j : Json) : Option (Except String Json) :=
  match f with
  | "world.recvV1" => some do
      let t : TimeoutV1 := ⟨← nat j "trev", ← nat j "th", ← nat j "tts"⟩
      let h ← nat j "h"
      let tm ← nat j "time"
      pure <| acc (recvGuardV1 (fun _ => tm) t (← nat j "rev") h)
  | "world.timeoutV1" => some do
      let t : TimeoutV1 := ⟨← nat j "trev", ← nat j "th", ← nat j "tts"⟩
      let H ← nat j "H"
      let ts ← nat j "consTs"
      -- no consensus state at the proof height: the client cannot answer, the timeout is refused
      if !(← bool j "cons") then pure (acc false) else
      pure <| acc (timeoutAcceptV1 (fun _ => ts) t (← nat j "rev") H (recvAt (← nat j "recvAt")))
  | "world.recvV2" => some do
      let tm ← nat j "time"
      pure <| acc (recvGuardV2 (fun _ => tm) (← nat j "T") 0)
  | "world.timeoutV2" => some do
      let ts ← nat j "consTs"
      if !(← bool j "cons") then pure (acc false) else
      pure <| acc (timeoutAcceptV2 (fun _ => ts) (← nat j "T") (← nat j "H") (recvAt (← nat j "recvAt")))
  | "world.timeoutLocalhost" => some do
      let t : TimeoutV1 := ⟨← nat j "trev", ← nat j "th", ← nat j "tts"⟩
      let n ← nat j "n"
      let tm ← nat j "time"
      let hr : Option Nat := if (← bool j "received") then some n else none
      pure <| acc (timeoutAcceptLocalhost (fun _ => tm) t (← nat j "rev") n (← nat j "P") hr)
  | "world.timeoutDelayV1" => some do
      -- timeout over a connection with a delay period: World acceptance AND both delays passed since
      -- the consensus state AT THE PROOF HEIGHT was processed (facts read from the client store)
      let t : TimeoutV1 := ⟨← nat j "trev", ← nat j "th", ← nat j "tts"⟩
      let H ← nat j "H"
      let ts ← nat j "consTs"
      if !(← bool j "cons") then pure (acc false) else
      let optN (k : String) : Except String (Option Nat) :=
        match j.getObjVal? k with
        | .ok .null => pure none
        | .ok _ => do pure (some (← nat j k))
        | .error _ => pure none
      let pt ← optN "pt"
      let phH ← optN "phH"
      let ph : Option IbcVerif.Height ← match phH with
        | none => pure none
        | some h => do pure (some ⟨UInt64.ofNat (← nat j "phRev"), UInt64.ofNat h⟩)
      let self : IbcVerif.Height := ⟨UInt64.ofNat (← nat j "selfRev"), UInt64.ofNat (← nat j "selfH")⟩
      let base := timeoutAcceptV1 (fun _ => ts) t (← nat j "rev") H (recvAt (← nat j "recvAt"))
      pure <| acc (IbcVerif.Delay.delayedProofAccepted base (← nat j "now") self pt ph (← nat j "dt") (← nat j "db"))
  | "auth.admin" => some do
      pure <| Json.mkObj [("passed", IbcVerif.Admin.validateAuthority (← str j "authority") (← str j "signer"))]
  | _ => none

end IbcVerif.Driver.World
