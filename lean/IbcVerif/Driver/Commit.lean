import IbcVerif.Util.J
import IbcVerif.Model.Commit
import IbcVerif.Model.Sha256
open Lean
namespace IbcVerif.Driver.Commit
open IbcVerif IbcVerif.J IbcVerif.Commit

def getPayload (v : Json) : Except String Payload := do
  pure { sourcePort := ← bytes v "sp", destPort := ← bytes v "dp", version := ← bytes v "ver",
         encoding := ← bytes v "enc", value := ← bytes v "val" }

def handle (f : String) (j : Json) : Option (Except String Json) :=
  match f with
  | "sha256" => some do
      pure <| okHex (Sha256.sha256 (← bytes j "data"))
  | "commit.v1" => some do
      let p : PacketV1 := { timeoutTs := ← nat j "ts", revNumber := ← nat j "rev", revHeight := ← nat j "h", data := ← bytes j "data" }
      pure <| okHex (commitV1 Sha256.sha256 p)
  | "commit.ackv1" => some do
      pure <| okHex (commitAckV1 Sha256.sha256 (← bytes j "ack"))
  | "commit.v2" => some do
      let ps ← (← arr j "payloads").toList.mapM getPayload
      let p : PacketV2 := { destClient := ← bytes j "dest", timeoutTs := ← nat j "ts", payloads := ps }
      pure <| okHex (commitV2 Sha256.sha256 p)
  | "commit.ackv2" => some do
      let as ← (← arr j "acks").toList.mapM bytesOf
      pure <| okHex (commitAckV2 Sha256.sha256 as)
  | _ => none

end IbcVerif.Driver.Commit
