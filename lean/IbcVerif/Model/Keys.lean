/-
  ICS-24 store keys.
    v1: modules/core/24-host/{packet_keys,channel_keys,connection_keys,client_keys}.go
    v2: modules/core/24-host/v2/packet_keys.go, modules/core/04-channel/v2/types/keys.go
  All of these keys live in the single `ibc` module store.  Prefix words, kind bytes and suffix
  words are *generated* from /repo (IbcVerif.Gen.Facts) so that a changed constant re-runs every
  side condition below.  Identifiers are byte strings over the 24-host alphabet.
-/
import IbcVerif.Model.Bytes
import IbcVerif.Model.Split
import IbcVerif.Model.Dec
import IbcVerif.Gen.Facts
namespace IbcVerif.Keys
open IbcVerif

def slash : UInt8 := 47

/-- `IsValidID`: `^[a-zA-Z0-9\.\_\+\-\#\[\]\<\>]+$` (per byte) -/
def idByte (b : UInt8) : Bool :=
  (97 ≤ b && b ≤ 122) || (65 ≤ b && b ≤ 90) || (48 ≤ b && b ≤ 57) ||
  b == 46 || b == 95 || b == 43 || b == 45 || b == 35 || b == 91 || b == 93 || b == 60 || b == 62

/-- the character-class part of `defaultIdentifierValidator` (non-empty, alphabet only) -/
def IdOK (id : Bytes) : Prop := id ≠ [] ∧ ∀ b ∈ id, idByte b = true

instance (id : Bytes) : Decidable (IdOK id) := by unfold IdOK; infer_instance

/-- `defaultIdentifierValidator(id, min, max)` -/
def validId (id : Bytes) (min max : Nat) : Bool :=
  !id.isEmpty && min ≤ id.length && id.length ≤ max && id.all idByte

def decBytes (n : Nat) : Bytes := strBytes (dec n)

/-- `ChannelPath(port, chan)` as segments: ports/{port}/channels/{chan} -/
def channelPathSegs (port chan : Bytes) : List Bytes := [Gen.keyPortPrefix, port, Gen.keyChannelPrefix, chan]

/-- the seven per-channel v1 key kinds -/
inductive KindV1 | channelEnd | nextRecv | nextAck | recvStart | commitment | ack | receipt
deriving DecidableEq, Repr

def KindV1.word : KindV1 → Bytes
  | .channelEnd => Gen.keyChannelEndPrefix
  | .nextRecv => Gen.keyNextSeqRecvPrefix
  | .nextAck => Gen.keyNextSeqAckPrefix
  | .recvStart => Gen.keyRecvStartSequence
  | .commitment => Gen.keyPacketCommitmentPrefix
  | .ack => Gen.keyPacketAckPrefix
  | .receipt => Gen.keyPacketReceiptPrefix

def KindV1.hasSeq : KindV1 → Bool
  | .commitment | .ack | .receipt => true
  | _ => false

/-- segments of a v1 key; `seq` is ignored for the kinds that have no sequence -/
def v1Segs (k : KindV1) (port chan : Bytes) (seq : Nat) : List Bytes :=
  k.word :: channelPathSegs port chan ++ (if k.hasSeq then [Gen.keySequencePrefix, decBytes seq] else [])

/-- `ChannelKey`, `NextSequenceRecvKey`, `NextSequenceAckKey`, `RecvStartSequenceKey`,
    `PacketCommitmentKey`, `PacketAcknowledgementKey`, `PacketReceiptKey` -/
def v1Key (k : KindV1) (port chan : Bytes) (seq : Nat) : Bytes := joinOn slash (v1Segs k port chan seq)

/-- `PacketCommitmentPrefixKey` / `PacketAcknowledgementPrefixKey` (iteration prefix of one channel) -/
def v1PrefixKey (k : KindV1) (port chan : Bytes) : Bytes :=
  joinOn slash (k.word :: channelPathSegs port chan ++ [Gen.keySequencePrefix])

def connectionKey (conn : Bytes) : Bytes := joinOn slash [Gen.keyConnectionPrefix, conn]

/-- `clients/{id}/` — the prefix of the client's own prefix store -/
def clientStorePrefix (client : Bytes) : Bytes := Gen.keyClientStorePrefix ++ [slash] ++ client ++ [slash]

/-- `FullClientKey(clientID, path)` -/
def fullClientKey (client path : Bytes) : Bytes := clientStorePrefix client ++ path

/-- the three public v2 packet-state kinds -/
inductive KindV2 | commitment | receipt | ack
deriving DecidableEq, Repr

def KindV2.byte : KindV2 → UInt8
  | .commitment => Gen.v2CommitmentKind
  | .receipt => Gen.v2ReceiptKind
  | .ack => Gen.v2AckKind

/-- `PacketCommitmentPrefixKey` etc. of 24-host/v2: id ++ [kind] -/
def v2PrefixKey (k : KindV2) (id : Bytes) : Bytes := id ++ [k.byte]

/-- `PacketCommitmentKey` etc. of 24-host/v2: id ++ [kind] ++ be64 seq -/
def v2Key (k : KindV2) (id : Bytes) (seq : Nat) : Bytes := v2PrefixKey k id ++ be64 seq

/-- `NextSequenceSendKey`: "nextSequenceSend/" ++ "/" ++ id (used for v1 channels and v2 clients) -/
def nextSeqSendKey (id : Bytes) : Bytes := Gen.v2KeyNextSeqSendPrefix ++ [slash] ++ id

/-- `AsyncPacketPrefixKey` / `AsyncPacketKey` / `AliasKey` of 04-channel/v2/types/keys.go -/
def asyncPrefixKey (id : Bytes) : Bytes := id ++ Gen.v2KeyAsyncPacket
def asyncKey (id : Bytes) (seq : Nat) : Bytes := asyncPrefixKey id ++ be64 seq
def aliasKey (id : Bytes) : Bytes := id ++ Gen.v2KeyAlias

/-- `bytes.HasPrefix` -/
def hasPrefix (key pre : Bytes) : Bool := pre.isPrefixOf key

end IbcVerif.Keys
