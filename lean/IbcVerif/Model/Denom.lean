/-
  Model of the ICS-20 denomination algebra:
    modules/apps/transfer/types/denom.go   (Denom, Validate, Path, IBCDenom, HasPrefix, ExtractDenomFromPath,
                                            validateIBCDenom)
    modules/apps/transfer/types/hop.go     (Hop.Validate, Hop.String)
    modules/apps/transfer/types/keys.go    (GetEscrowAddress pre-image)
    modules/core/04-channel/types/keys.go  (IsChannelIDFormat, IsValidChannelID)
    modules/core/02-client/types/keys.go   (IsClientIDFormat, IsValidClientID)
    modules/core/24-host/validate.go       (defaultIdentifierValidator, Port/ChannelIdentifierValidator)
    modules/apps/rate-limiting/keeper/packet.go (ParseDenomFromSendPacket, ParseDenomFromRecvPacket)

  Go strings are modelled as `List Char` (`Str`); the generators keep them ASCII, where bytes and
  characters coincide.  The hash enters as a parameter `hashHex : Str → Str` ("upper-case hex of the
  SHA-256 of the UTF-8 bytes"); the driver instantiates it with the executable SHA-256 of
  `Model/DenomSha256.lean`, the theorems quantify over it.
-/
import IbcVerif.Model.Dec
namespace IbcVerif.Xfer

abbrev Str := List Char

/-! ### identifier recognisers -/

/-- regexp `\w` (RE2: ASCII only) -/
def isWordChar (c : Char) : Bool := c.isAlphanum || c == '_'

/-- `[0-9]{1,20}` -/
def digits1to20 (d : Str) : Bool := decide (1 ≤ d.length) && decide (d.length ≤ 20) && d.all Char.isDigit

def stripPrefix (p s : Str) : Option Str :=
  if p.isPrefixOf s then some (s.drop p.length) else none

def channelPrefix : Str := "channel-".toList

/-- `channeltypes.IsChannelIDFormat`: `^channel-[0-9]{1,20}$` -/
def isChannelIDFormat (s : Str) : Bool :=
  match stripPrefix channelPrefix s with
  | some d => digits1to20 d
  | none => false

/-- `channeltypes.IsValidChannelID` = `ParseChannelSequence` succeeds: the format, and the decimal
    suffix fits in 64 bits (`host.ParseIdentifier` → `strconv.ParseUint(_, 10, 64)`). -/
def isValidChannelID (s : Str) : Bool :=
  match stripPrefix channelPrefix s with
  | some d => digits1to20 d && (parseUint64 d).isSome
  | none => false

/-- split a non-empty list into (all but last, last) -/
def splitLast {α : Type} : List α → Option (List α × α)
  | [] => none
  | [x] => some ([], x)
  | x :: y :: ys => match splitLast (y :: ys) with
    | some (i, l) => some (x :: i, l)
    | none => none

/-- `clienttypes.IsClientIDFormat`: `^\w+([\w-]+\w)?-[0-9]{1,20}$`.
    The digit block contains no '-', so it is the piece after the *last* '-'; what precedes that
    '-' must be a non-empty string over `[\w-]` whose first and last characters are `\w`. -/
def isClientIDFormat (s : Str) : Bool :=
  match splitLast (splitOnChar '-' s) with
  | some (ini, d) =>
    digits1to20 d && !ini.isEmpty && ini.all (fun p => p.all isWordChar) &&
      (match ini.head? with | some h => !h.isEmpty | none => false) &&
      (match ini.getLast? with | some l => !l.isEmpty | none => false)
  | none => false

def localhostClientID : Str := "09-localhost".toList

/-- `clienttypes.IsValidClientID` = `ParseClientIdentifier` succeeds. -/
def isValidClientID (s : Str) : Bool :=
  if s = localhostClientID then true
  else
    isClientIDFormat s &&
      (match splitLast (splitOnChar '-' s) with
       | some (_, d) => (parseUint64 d).isSome
       | none => false)

/-- the test `ExtractDenomFromPath` applies to every second path segment -/
def isHopId (c : Str) : Bool := isValidChannelID c || isValidClientID c

/-- `unicode.IsSpace` (what `strings.TrimSpace` strips) -/
def isGoSpace (c : Char) : Bool :=
  c == ' ' || c == '\t' || c == '\n' || c == '\r' || c.toNat == 0x0B || c.toNat == 0x0C ||
  c.toNat == 0x85 || c.toNat == 0xA0 || c.toNat == 0x1680 || (0x2000 ≤ c.toNat && c.toNat ≤ 0x200A) ||
  c.toNat == 0x2028 || c.toNat == 0x2029 || c.toNat == 0x202F || c.toNat == 0x205F || c.toNat == 0x3000

/-- `strings.TrimSpace(s) == ""` -/
def goBlank (s : Str) : Bool := s.all isGoSpace

/-- `host.IsValidID` character class `[a-zA-Z0-9\.\_\+\-\#\[\]\<\>]` -/
def isIdChar (c : Char) : Bool :=
  c.isAlphanum || c == '.' || c == '_' || c == '+' || c == '-' || c == '#' || c == '[' || c == ']' ||
  c == '<' || c == '>'

/-- `host.defaultIdentifierValidator` as a Boolean (every failure is `ErrInvalidID`).  `len(id)` is a
    byte length in Go; on strings that pass the `IsValidID` test (ASCII only) it equals the character
    count, and on the others the result is `false` either way. -/
def validIdentifier (min max : Nat) (s : Str) : Bool :=
  !goBlank s && !s.contains '/' && decide (min ≤ s.length) && decide (s.length ≤ max) &&
    !s.isEmpty && s.all isIdChar

def validPortId (s : Str) : Bool := validIdentifier 2 128 s
def validChannelId (s : Str) : Bool := validIdentifier 8 64 s

/-! ### Hop and Denom -/

structure Hop where
  port : Str
  chan : Str
deriving DecidableEq, Repr

/-- `Hop.String`: "%s/%s" -/
def Hop.str (h : Hop) : Str := h.port ++ '/' :: h.chan

/-- `Hop.Validate` -/
def Hop.valid (h : Hop) : Bool := validPortId h.port && validChannelId h.chan

structure Denom where
  trace : List Hop
  base : Str
deriving DecidableEq, Repr

inductive DenomErr | blankBase | badHop
deriving DecidableEq, Repr

namespace Denom

def isNative (d : Denom) : Bool := d.trace.isEmpty

/-- `Denom.Validate`: blank base → `ErrInvalidDenomForTransfer`; invalid hop → `ErrInvalidID` -/
def validate (d : Denom) : Option DenomErr :=
  if goBlank d.base then some .blankBase
  else if d.trace.all Hop.valid then none else some .badHop

/-- the `strings.Builder` loop of `Path` -/
def tracePrefix : List Hop → Str
  | [] => []
  | h :: hs => h.str ++ '/' :: tracePrefix hs

/-- `Denom.Path` -/
def path (d : Denom) : Str :=
  if d.isNative then d.base else tracePrefix d.trace ++ d.base

/-- `Denom.IBCDenom` ("ibc/" ++ upper-case hex of the SHA-256 of `Path()`, or the base) -/
def ibcDenom (hashHex : Str → Str) (d : Denom) : Str :=
  if d.isNative then d.base else "ibc/".toList ++ hashHex d.path

/-- `Denom.HasPrefix` -/
def hasPrefix (d : Denom) (port chan : Str) : Bool :=
  match d.trace with
  | [] => false
  | h :: _ => h.port == port && h.chan == chan

end Denom

/-- the hop loop of `ExtractDenomFromPath` over the remaining segments; `long` is `length > 2` of the
    whole split.  `i < length-1` = "at least two segments remain". -/
def extractGo (long : Bool) : List Str → List Hop × List Str
  | p :: c :: rest =>
    if long && isHopId c then
      let r := extractGo long rest
      (⟨p, c⟩ :: r.1, r.2)
    else ([], p :: c :: rest)
  | segs => ([], segs)

/-- `ExtractDenomFromPath` -/
def extract (s : Str) : Denom :=
  if !s.contains '/' then ⟨[], s⟩
  else
    let segs := splitOnChar '/' s
    let r := extractGo (decide (segs.length > 2)) segs
    ⟨r.1, joinWith '/' r.2⟩

/-- `Denom.ValidateBaseNotHopLike` (as a Boolean: `true` = accepted): the second '/'-segment of the base
    is not a channel or client identifier in ibc-go's format.  Such a base would be split into a hop
    and a shorter base by `ExtractDenomFromPath` once the path carries a hop in front. -/
def hopFreeBase (base : Str) : Bool :=
  match splitOnChar '/' base with
  | _ :: c :: _ => !isHopId c
  | _ => true

/-! ### SDK / ICS-20 coin-denomination validation (msgs.go `validateIBCCoin`, denom.go `validateIBCDenom`) -/

/-- `sdk.ValidateDenom`: `[a-zA-Z][a-zA-Z0-9/:._-]{2,127}` (whole string) -/
def sdkValidDenom (s : Str) : Bool :=
  match s with
  | [] => false
  | c :: cs => c.isAlpha && decide (2 ≤ cs.length) && decide (cs.length ≤ 127) &&
      cs.all (fun x => x.isAlphanum || x == '/' || x == ':' || x == '.' || x == '_' || x == '-')

def isHexChar (c : Char) : Bool :=
  c.isDigit || ('a' ≤ c && c ≤ 'f') || ('A' ≤ c && c ≤ 'F')

/-- `ParseHexHash`: hex of exactly 32 bytes (`cmttypes.ValidateHash` also accepts the empty hash, but
    the caller has already rejected a blank suffix) -/
def validHexHash (h : Str) : Bool := (h.length == 64 || h.length == 0) && h.all isHexChar

/-- `validateIBCDenom` as a Boolean -/
def validIBCDenom (s : Str) : Bool :=
  sdkValidDenom s &&
    (if s = "ibc".toList then false
     else match stripPrefix "ibc/".toList s with
       | some h => !goBlank h && validHexHash h
       | none => true)

/-! ### escrow address (keys.go `GetEscrowAddress`) -/

/-- the ADR-028 pre-image: "ics20-1" ++ [0] ++ port ++ "/" ++ channel -/
def escrowPreimage (port chan : Str) : Str :=
  "ics20-1".toList ++ Char.ofNat 0 :: (port ++ '/' :: chan)

/-- `GetEscrowAddress`, for a 20-byte truncated hash `h20` -/
def escrowAddress {α : Type} (h20 : Str → α) (port chan : Str) : α := h20 (escrowPreimage port chan)

/-! ### the denomination ICS-20 moves (relay.go), as pure functions of the packet -/

/-- coin debited by `SendTransfer` (escrowed or burnt): `token.ToCoin()` -/
def ics20SendCoinDenom (hashHex : Str → Str) (d : Denom) : Str := d.ibcDenom hashHex

/-- coin credited by `OnRecvPacket` for packet denomination `s`:
    unescrowed (prefix stripped) when the parsed trace starts with the packet's source hop,
    minted (destination hop prepended) otherwise. -/
def ics20RecvCoinDenom (hashHex : Str → Str) (srcPort srcChan dstPort dstChan s : Str) : Str :=
  let d := extract s
  if d.hasPrefix srcPort srcChan then Denom.ibcDenom hashHex ⟨d.trace.tail, d.base⟩
  else Denom.ibcDenom hashHex ⟨⟨dstPort, dstChan⟩ :: d.trace, d.base⟩

/-! ### rate-limiting parsers (rate-limiting/keeper/packet.go) -/

def ibcSlash : Str := "ibc/".toList

/-- `ParseDenomFromSendPacket` -/
def rlSendDenom (hashHex : Str → Str) (denom : Str) : Str :=
  if ibcSlash.isPrefixOf denom then denom
  else (extract denom).ibcDenom hashHex

/-- `ParseDenomFromRecvPacket`: parse the path and test the first hop of the parsed trace, as
    `OnRecvPacket` does (since fix 143f4d3; before, a raw string-prefix test) -/
def rlRecvDenom (hashHex : Str → Str) (srcPort srcChan dstPort dstChan denom : Str) : Str :=
  let d := extract denom
  if d.hasPrefix srcPort srcChan then Denom.ibcDenom hashHex ⟨d.trace.tail, d.base⟩
  else Denom.ibcDenom hashHex ⟨⟨dstPort, dstChan⟩ :: d.trace, d.base⟩

/-- `ParseDenomFromRecvPacket` as it was before fix 143f4d3 (kept for the regression theorems of C42) -/
def rlRecvDenomPreFix (hashHex : Str → Str) (srcPort srcChan dstPort dstChan denom : Str) : Str :=
  let sourcePrefix := (Hop.mk srcPort srcChan).str ++ ['/']
  if sourcePrefix.isPrefixOf denom then
    (extract (denom.drop sourcePrefix.length)).ibcDenom hashHex
  else
    (extract ((Hop.mk dstPort dstChan).str ++ '/' :: denom)).ibcDenom hashHex

end IbcVerif.Xfer
