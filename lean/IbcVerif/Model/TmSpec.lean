/-
  Specification predicates for the 07-tendermint model (core Lean only): the invariants that the
  property theorems of C20–C25 are about. No proofs here.
-/
import IbcVerif.Model.TmClient
namespace IbcVerif.Tm
open IbcVerif

/-- the position of a height in the (revision, height) lexicographic order -/
def hk (h : Height) : Nat := h.rev.toNat * 2 ^ 64 + h.h.toNat

/-- a consensus state is stored at `h` -/
def Store.has (s : Store) (h : Height) : Prop := (s.getCons h).isSome = true

/-- **C22**: every consensus state has exactly its three metadata entries and vice versa; the iteration
    index stores each height under its own big-endian key, and is in ascending order. -/
structure MetaInv (s : Store) : Prop where
  keyed : ∀ p ∈ s.iter, p.1 = beHeight p.2
  asc : s.iter.Pairwise (fun p q => hk p.2 < hk q.2)
  iter : ∀ h, (∃ p ∈ s.iter, p.2 = h) ↔ s.has h
  ptime : ∀ h, (s.ptime.get h).isSome = true ↔ s.has h
  pheight : ∀ h, (s.pheight.get h).isSome = true ↔ s.has h

/-- no consensus state above the client's latest height -/
def BelowLatest (s : Store) : Prop :=
  ∀ cs, s.client = some cs → ∀ h, s.has h → hk h ≤ hk cs.latest

/-- a stored consensus state implies a stored client state -/
def HasClient (s : Store) : Prop := ∀ h, s.has h → s.client.isSome = true

/-- **C23**: stored timestamps strictly increase with height -/
def TsMono (s : Store) : Prop :=
  ∀ h h' c c', s.getCons h = some c → s.getCons h' = some c' → hk h < hk h' → c.ts < c'.ts

structure StoreInv (s : Store) : Prop where
  metaInv : MetaInv s
  below : BelowLatest s
  hasClient : HasClient s

/-- every client store of the world satisfies the store invariant, and client identifiers not yet
    generated are unused (`GenerateClientIdentifier` hands out `nextSeq`, then increments it) -/
structure WInv (w : World) : Prop where
  stores : ∀ cid, StoreInv (w.client cid)
  fresh : ∀ n, w.nextSeq ≤ n → w.client n = Store.empty

def World.empty : World := ⟨[], 0, 0, ⟨0, 0⟩⟩

/-- `h` is the greatest stored height below `x` / the least stored height above `x` -/
def IsPrev (s : Store) (x h : Height) : Prop := s.has h ∧ hk h < hk x ∧ ∀ h', s.has h' → hk h' < hk x → hk h' ≤ hk h
def IsNext (s : Store) (x h : Height) : Prop := s.has h ∧ hk x < hk h ∧ ∀ h', s.has h' → hk x < hk h' → hk h ≤ hk h'

/-- `h` is the least stored height -/
def IsOldest (s : Store) (h : Height) : Prop := s.has h ∧ ∀ h', s.has h' → hk h ≤ hk h'

/-- **C20**: relation between a client store and the same client's store at a later time: the client
    state is not lost, the latest height has not decreased, and every consensus state stored earlier is
    either still there unchanged, or gone — and then strictly below everything stored now (so it can
    never come back with different contents) -/
structure Later (s0 s : Store) : Prop where
  client : s0.client.isSome = true → s.client.isSome = true
  latest : hk s0.latestHeight ≤ hk s.latestHeight
  kept : ∀ h c, s0.getCons h = some c →
    s.getCons h = some c ∨ (s.getCons h = none ∧ ∀ h', s.has h' → hk h < hk h')

/-- side condition on the migration-only entry point `PruneAllExpiredConsensusStates`: the client's
    timestamps are monotone when it runs (always true for clients that were only ever updated, see C23) -/
def OpOK (w : World) : Op → Prop
  | .pruneAll cid => TsMono (w.client cid)
  | _ => True

def HistOK : World → List Op → Prop
  | _, [] => True
  | w, op :: ops => OpOK w op ∧ HistOK (step w op).1 ops

/-- operations other than upgrade and recovery -/
def Op.isUpdateLike : Op → Bool
  | .upgrade _ _ => false
  | .recover _ _ => false
  | _ => true

def Op.isPruneAll : Op → Bool
  | .pruneAll _ => true
  | _ => false

/-- every client's stored timestamps increase with height -/
def WTsMono (w : World) : Prop := ∀ cid, TsMono (w.client cid)

end IbcVerif.Tm
