/-
  Model of ICS-20 token transfer (modules/apps/transfer) on top of an abstract packet layer.

    keeper/msg_server.go   Transfer (sentinel amount, TokenFromCoin, ValidateBasic, v1 vs v2/alias routing)
    keeper/relay.go        SendTransfer, OnRecvPacket, OnAcknowledgementPacket, OnTimeoutPacket,
                           refundPacketTokens, EscrowCoin / UnescrowCoin, TokenFromCoin
    keeper/keeper.go       Get/SetTotalEscrowForDenom, HasDenom/SetDenom, IsBlockedAddr
    ibc_module.go          OnRecvPacket / OnAcknowledgementPacket / OnTimeoutPacket (v1 JSON ack)
    v2/ibc_module.go       OnSendPacket / OnRecvPacket / OnAcknowledgementPacket / OnTimeoutPacket (sentinel)
    types/msgs.go          MsgTransfer.ValidateBasic;  types/packet.go  FungibleTokenPacketData.ValidateBasic

  The packet layer (core IBC) is *not* modelled here: an `Op` is an application-level event (a
  `MsgTransfer`, or one of the callbacks core IBC invokes).  Which callback sequences core IBC can
  produce is stated separately as the history predicate `LifecycleOK` (Lemmas/Ics20Lifecycle.lean);
  the ghost logs `sent / recvd / acked / timedOut` below exist only so that this predicate and the
  conservation invariants can be stated.  What is outside ibc-go enters through `Config`: the hash,
  the address codec, the bank's blocked-address set, the module/escrow address maps (escrow
  addresses are distinct per (port, channel) by C34 `escrow_address_binds`), and the channel topology.

  Error classes are "codespace/code" strings of the registered sentinel errors (what a transaction
  result or an error acknowledgement exposes).
-/
import IbcVerif.Model.Denom
import IbcVerif.Model.Bank
namespace IbcVerif.Ics20
open IbcVerif.Xfer

structure Config where
  hashHex : Str → Str
  /-- `addressCodec.StringToBytes` -/
  decode : Str → Option Addr
  /-- `BankKeeper.BlockedAddr` per chain -/
  blocked : Nat → Addr → Bool
  moduleAddr : Addr
  escrowAddr : Str → Str → Addr
  /-- counterparty end of (chain, channel-or-client id): v1 channels, their v2 aliases, v2 clients -/
  peer : Nat → Str → Option (Nat × Str)
  /-- `channelKeeper.GetChannel(port, channel)` finds a v1 channel -/
  hasChannel : Nat → Str → Str → Bool

structure Chain where
  bank : Bank
  totalEscrow : Str → Nat
  denoms : List Denom
  sendEnabled : Bool
  recvEnabled : Bool

structure PacketData where
  denom : Str
  amount : Nat
  sender : Str
  receiver : Str
  memo : Str
deriving DecidableEq, Repr

structure Packet where
  srcChain : Nat
  srcPort : Str
  srcChan : Str
  dstChain : Nat
  dstPort : Str
  dstChan : Str
  seq : Nat
  v2 : Bool
  data : PacketData
deriving DecidableEq, Repr

/-- failure of a handler: a registered error class, or a Go panic (the transaction is reverted
    either way; they are distinguished only for the correspondence check) -/
inductive Fail
  | err (cls : String)
  | panic
deriving DecidableEq, Repr

abbrev M := Except Fail

def transferPort : Str := "transfer".toList

/-- `types.UnboundedSpendLimit()` = 2^256 - 1 -/
def unbounded : Nat := 2 ^ 256 - 1

/-! ### keeper -/

/-- `Keeper.IsBlockedAddr` -/
def isBlockedAddr (cfg : Config) (c : Nat) (a : Addr) : Bool :=
  if a = cfg.moduleAddr then false else cfg.blocked c a

def hasDenom (cfg : Config) (ch : Chain) (hash : Str) : Bool :=
  ch.denoms.any fun d => cfg.hashHex d.path == hash

def getDenom (cfg : Config) (ch : Chain) (hash : Str) : Option Denom :=
  ch.denoms.find? fun d => cfg.hashHex d.path == hash

/-- `SetDenom`: stored under `denom.Hash()`; an existing entry under that key is overwritten -/
def setDenom (cfg : Config) (ch : Chain) (d : Denom) : Chain :=
  { ch with denoms := d :: ch.denoms.filter fun x => cfg.hashHex x.path != cfg.hashHex d.path }

def setTotalEscrow (ch : Chain) (d : Str) (v : Nat) : Chain :=
  { ch with totalEscrow := fun d' => if d' = d then v else ch.totalEscrow d' }

/-- `EscrowCoin` -/
def escrowCoin (ch : Chain) (sender escrow : Addr) (d : Str) (n : Nat) : M Chain :=
  match ch.bank.send sender escrow d n with
  | none => .error (.err "sdk/5")
  | some b => .ok (setTotalEscrow { ch with bank := b } d (ch.totalEscrow d + n))

/-- `UnescrowCoin`; `currentTotalEscrow.Sub(coin)` panics when the tracked total is too small -/
def unescrowCoin (ch : Chain) (escrow receiver : Addr) (d : Str) (n : Nat) : M Chain :=
  match ch.bank.send escrow receiver d n with
  | none => .error (.err "sdk/5")
  | some b =>
    if ch.totalEscrow d < n then .error .panic
    else .ok (setTotalEscrow { ch with bank := b } d (ch.totalEscrow d - n))

/-- `Keeper.SendTransfer` -/
def sendTransfer (cfg : Config) (c : Nat) (ch : Chain) (port chan : Str) (tok : Denom) (amt : Nat)
    (sender : Addr) : M Chain :=
  if !ch.sendEnabled then .error (.err "transfer/7")
  else if isBlockedAddr cfg c sender then .error (.err "ibc/2")
  else if !sdkValidDenom (ics20SendCoinDenom cfg.hashHex tok) then .error .panic   -- `token.ToCoin()` → `sdk.NewCoin`
  else if tok.hasPrefix port chan then
    match ch.bank.send sender cfg.moduleAddr (ics20SendCoinDenom cfg.hashHex tok) amt with
    | none => .error (.err "sdk/5")
    | some b =>
      match b.burn cfg.moduleAddr (ics20SendCoinDenom cfg.hashHex tok) amt with
      | none => .error .panic
      | some b' => .ok { ch with bank := b' }
  else
    escrowCoin ch sender (cfg.escrowAddr port chan) (ics20SendCoinDenom cfg.hashHex tok) amt

/-- `FungibleTokenPacketData.ValidateBasic` (also what `InternalTransferRepresentation.ValidateBasic`
    re-checks); the memo-length limit is not modelled (memos are short) -/
def validatePacketData (d : PacketData) : Option String :=
  if d.amount = 0 then some "transfer/5"
  else if goBlank d.sender then some "ibc/5"
  else if goBlank d.receiver then some "ibc/5"
  else match (extract d.denom).validate with
    | none => none
    | some .blankBase => some "transfer/3"
    | some .badHop => some "host/2"

/-- the mint branch of `OnRecvPacket`: record the denomination, mint to the module account, send to
    the receiver -/
def mintVoucher (cfg : Config) (ch : Chain) (d' : Denom) (coin : Str) (receiver : Addr) (amt : Nat) : M Chain :=
  let ch1 := if hasDenom cfg ch (cfg.hashHex d'.path) then ch else setDenom cfg ch d'
  match (ch1.bank.mint cfg.moduleAddr coin amt).send cfg.moduleAddr receiver coin amt with
  | none => .error (.err "sdk/5")
  | some b' => .ok { ch1 with bank := b' }

/-- `Keeper.OnRecvPacket` -/
def onRecvPacket (cfg : Config) (c : Nat) (ch : Chain) (data : PacketData) (sp sc dp dc : Str) : M Chain :=
  match validatePacketData data with
  | some e => .error (.err e)
  | none =>
    if !ch.recvEnabled then .error (.err "transfer/8")
    else match cfg.decode data.receiver with
      | none => .error (.err "ibc/5")
      | some receiver =>
        if isBlockedAddr cfg c receiver then .error (.err "ibc/2")
        else if !sdkValidDenom (ics20RecvCoinDenom cfg.hashHex sp sc dp dc data.denom) then .error .panic  -- `sdk.NewCoin`
        else if (extract data.denom).hasPrefix sp sc then
          unescrowCoin ch (cfg.escrowAddr dp dc) receiver (ics20RecvCoinDenom cfg.hashHex sp sc dp dc data.denom) data.amount
        else
          mintVoucher cfg ch ⟨⟨dp, dc⟩ :: (extract data.denom).trace, (extract data.denom).base⟩
            (ics20RecvCoinDenom cfg.hashHex sp sc dp dc data.denom) receiver data.amount

/-- `Keeper.refundPacketTokens` -/
def refundPacketTokens (cfg : Config) (c : Nat) (ch : Chain) (sp sc : Str) (data : PacketData) : M Chain :=
  match cfg.decode data.sender with
  | none => .error (.err "undefined/1")
  | some sender =>
    if isBlockedAddr cfg c sender then .error (.err "ibc/2")
    else if !sdkValidDenom ((extract data.denom).ibcDenom cfg.hashHex) then .error .panic   -- `token.ToCoin()`
    else if (extract data.denom).hasPrefix sp sc then
      match (ch.bank.mint cfg.moduleAddr ((extract data.denom).ibcDenom cfg.hashHex) data.amount).send
          cfg.moduleAddr sender ((extract data.denom).ibcDenom cfg.hashHex) data.amount with
      | none => .error .panic
      | some b' => .ok { ch with bank := b' }
    else
      unescrowCoin ch (cfg.escrowAddr sp sc) sender ((extract data.denom).ibcDenom cfg.hashHex) data.amount

/-! ### messages -/

structure MsgTransfer where
  port : Str
  chan : Str
  denom : Str
  amount : Nat
  sender : Str
  receiver : Str
  memo : Str
  alias : Bool
  encoding : Str
deriving DecidableEq, Repr

/-- `MsgTransfer.ValidateBasic` (stateless; run by the SDK for every message of a transaction) -/
def validateBasic (m : MsgTransfer) : Option String :=
  if !validPortId m.port then some "host/2"
  else if (if m.alias then !isValidChannelID m.chan else !validChannelId m.chan) then some "host/2"
  else if !(validIBCDenom m.denom && decide (m.amount > 0)) then some "ibc/6"
  else if goBlank m.sender then some "ibc/5"
  else if goBlank m.receiver then some "ibc/5"
  else if m.receiver.length > 2048 then some "ibc/5"
  else if m.memo.length > 32768 then some "transfer/11"
  else none

/-- `Keeper.TokenFromCoin` -/
def tokenFromCoin (cfg : Config) (ch : Chain) (denom : Str) : M Denom :=
  match stripPrefix "ibc/".toList denom with
  | none => .ok ⟨[], denom⟩
  | some hex =>
    if !(validHexHash hex) then .error (.err "transfer/3")
    else match getDenom cfg ch (hex.map Char.toUpper) with
      | some d => .ok d
      | none => .error (.err "transfer/6")

def knownEncoding (e : Str) : Bool :=
  e = [] || e = "application/json".toList || e = "application/x-protobuf".toList ||
  e = "application/x-solidity-abi".toList

/-- the amount actually sent: `UnboundedSpendLimit()` stands for the whole spendable balance -/
def expandAmount (ch : Chain) (sender : Addr) (m : MsgTransfer) : Option Nat :=
  if m.amount = unbounded then
    (if ch.bank.bal sender m.denom = 0 then none else some (ch.bank.bal sender m.denom))
  else some m.amount

/-- `Keeper.Transfer` (msg server).  `coreErr` is the verdict of core IBC's `SendPacket` (`none` = the
    packet is committed with sequence `seq`) — an adversarial parameter here.  Returns the new chain
    state and the packet handed to core IBC. -/
def transfer (cfg : Config) (c : Nat) (ch : Chain) (m : MsgTransfer) (coreErr : Option String) (seq : Nat) :
    M (Chain × Packet) :=
  if !ch.sendEnabled then .error (.err "transfer/7")
  else match cfg.decode m.sender with
  | none => .error (.err "undefined/1")
  | some sender =>
  match expandAmount ch sender m with
  | none => .error (.err "transfer/5")
  | some amount =>
  match tokenFromCoin cfg ch m.denom with
  | .error f => .error f
  | .ok token =>
  -- `token.Denom.ValidateBaseNotHopLike()` (fix 4b2f809)
  if !hopFreeBase token.base then .error (.err "transfer/3")
  else
  match validatePacketData ⟨token.path, amount, m.sender, m.receiver, m.memo⟩ with
  | some e => .error (.err e)
  | none =>
  if cfg.hasChannel c m.port m.chan && !m.alias then
    -- transferV1Packet: SendTransfer on the fixed port "transfer", then core SendPacket
    match sendTransfer cfg c ch transferPort m.chan token amount sender with
    | .error f => .error f
    | .ok ch' =>
      match coreErr with
      | some e => .error (.err e)
      | none =>
        match cfg.peer c m.chan with
        | none => .error (.err "channel/3")
        | some (dc, did) =>
          .ok (ch', ⟨c, transferPort, m.chan, dc, transferPort, did, seq, false,
                    ⟨token.path, amount, m.sender, m.receiver, m.memo⟩⟩)
  else
    -- transferV2Packet: MarshalPacketData, MsgSendPacket (core first), then OnSendPacket, which
    -- re-parses the packet data
    if !knownEncoding m.encoding then .error (.err "ibc/12")
    else match cfg.peer c m.chan with
    | none => .error (.err "clientv2/35")
    | some (dc, did) =>
      match coreErr with
      | some e => .error (.err e)
      | none =>
        if !(isValidClientID m.chan && isValidClientID did) then .error (.err "channelv2/2")
        else if (extract token.path).base.contains '/' then .error (.err "transfer/3")
        else match sendTransfer cfg c ch transferPort m.chan (extract token.path) amount sender with
          | .error f => .error f
          | .ok ch' =>
            .ok (ch', ⟨c, transferPort, m.chan, dc, transferPort, did, seq, true,
                      ⟨token.path, amount, m.sender, m.receiver, m.memo⟩⟩)

/-- a `MsgSendPacket` (IBC v2) carrying one ICS-20 payload, signed by `signer`: core `sendPacket`
    (`coreErr`), then `v2.IBCModule.OnSendPacket`, which requires the payload's sender to be the
    signer. -/
def sendPacketV2 (cfg : Config) (c : Nat) (ch : Chain) (signer client : Str) (data : PacketData)
    (coreErr : Option String) (seq : Nat) : M (Chain × Packet) :=
  match cfg.decode signer with
  | none => .error (.err "undefined/1")
  | some signerAddr =>
  match cfg.peer c client with
  | none => .error (.err "clientv2/35")
  | some (dc, did) =>
  match coreErr with
  | some e => .error (.err e)
  | none =>
  if !(isValidClientID client && isValidClientID did) then .error (.err "channelv2/2")
  else match validatePacketData data with
  | some e => .error (.err e)
  | none =>
  match cfg.decode data.sender with
  | none => .error (.err "undefined/1")
  | some sender =>
  if sender ≠ signerAddr then .error (.err "ibc/2")
  else if (extract data.denom).base.contains '/' then .error (.err "transfer/3")
  else match sendTransfer cfg c ch transferPort client (extract data.denom) data.amount signerAddr with
    | .error f => .error f
    | .ok ch' => .ok (ch', ⟨c, transferPort, client, dc, transferPort, did, seq, true, data⟩)

/-- the acknowledgement bytes handed to `OnAcknowledgementPacket`, by shape -/
inductive Ack
  | result            -- canonical JSON `{"result":"AQ=="}`
  | resultNonCanon    -- a result ack that does not re-marshal to the same bytes
  | error             -- JSON `{"error":"…"}`
  | sentinel          -- the IBC v2 universal error acknowledgement
  | garbage           -- not an Acknowledgement
deriving DecidableEq, Repr

/-- outcome of the receive callback as seen by core IBC -/
inductive RecvOutcome
  | success
  | failure (code : String)   -- v1: error ack carrying the ABCI code; v2: `PacketStatus_Failure`
deriving DecidableEq, Repr

/-- `IBCModule.OnRecvPacket` (v1) / `v2.IBCModule.OnRecvPacket`: application state is kept only on
    success (core discards the cached context otherwise); a panic aborts the transaction. -/
def recvPacket (cfg : Config) (c : Nat) (ch : Chain) (p : Packet) : M (Chain × RecvOutcome) :=
  if p.v2 && !(p.srcPort = transferPort && p.dstPort = transferPort) then .ok (ch, .failure "v2")
  else if p.v2 && !(isValidClientID p.srcChan && isValidClientID p.dstChan) then .ok (ch, .failure "v2")
  else
    match onRecvPacket cfg c ch p.data p.srcPort p.srcChan p.dstPort p.dstChan with
    | .ok ch' => .ok (ch', .success)
    | .error (.err e) => .ok (ch, .failure e)
    | .error .panic => .error .panic

/-- `IBCModule.OnAcknowledgementPacket` (v1) / `v2.IBCModule.OnAcknowledgementPacket` -/
def ackPacket (cfg : Config) (c : Nat) (ch : Chain) (p : Packet) (a : Ack) : M Chain :=
  if p.v2 then
    match a with
    | .sentinel =>
      match validatePacketData p.data with
      | some e => .error (.err e)
      | none => refundPacketTokens cfg c ch p.srcPort p.srcChan p.data
    | .garbage => .error (.err "ibc/4")
    | .resultNonCanon => .error (.err "ibc/12")
    | .error => .error (.err "ibc/8")
    | .result =>
      match validatePacketData p.data with
      | some e => .error (.err e)
      | none => .ok ch
  else
    match a with
    | .garbage | .sentinel => .error (.err "ibc/4")
    | _ =>
      match validatePacketData p.data with
      | some e => .error (.err e)
      | none =>
        match a with
        | .resultNonCanon => .error (.err "ibc/12")
        | .result => .ok ch
        | _ => refundPacketTokens cfg c ch p.srcPort p.srcChan p.data

/-- `OnTimeoutPacket` (v1 and v2) -/
def timeoutPacket (cfg : Config) (c : Nat) (ch : Chain) (p : Packet) : M Chain :=
  match validatePacketData p.data with
  | some e => .error (.err e)
  | none => refundPacketTokens cfg c ch p.srcPort p.srcChan p.data

/-! ### world -/

structure World where
  chains : Nat → Chain
  /-- ghost: packets handed to core IBC -/
  sent : List Packet
  /-- ghost: packets whose receive callback ran, with its outcome (`true` = success) -/
  recvd : List (Packet × Bool)
  /-- ghost: packets whose acknowledgement callback completed -/
  acked : List Packet
  /-- ghost: packets whose timeout callback completed -/
  timedOut : List Packet

def World.setChain (w : World) (c : Nat) (ch : Chain) : World :=
  { w with chains := fun c' => if c' = c then ch else w.chains c' }

inductive Op
  /-- a `MsgTransfer` delivered in a transaction signed by `signer` (`viaTx`), or handed to the msg
      server directly -/
  | transfer (c : Nat) (signer : Str) (viaTx : Bool) (m : MsgTransfer) (coreErr : Option String) (seq : Nat)
  /-- a v2 `MsgSendPacket` with an ICS-20 payload, signed by `signer` -/
  | sendV2 (c : Nat) (signer : Str) (client : Str) (data : PacketData) (coreErr : Option String) (seq : Nat)
  | recv (p : Packet)
  | ack (p : Packet) (a : Ack)
  /-- `OnTimeoutPacket`, reached by `MsgTimeout` (`onClose = false`) or, on v1 channels, by
      `MsgTimeoutOnClose` (`onClose = true`): the same ICS-20 callback -/
  | timeout (p : Packet) (onClose : Bool)
  | setParams (c : Nat) (send recv : Bool)
  /-- a plain bank `MsgSend` signed by `frm` -/
  | bankSend (c : Nat) (frm to : Addr) (denom : Str) (amt : Nat)
deriving Repr

inductive Res
  | ok
  | sent (p : Packet)
  | recvd (o : RecvOutcome)
  | err (cls : String)
  | panic
deriving DecidableEq, Repr

def failRes : Fail → Res
  | .err e => .err e
  | .panic => .panic

/-- one application-level step.  A failing handler leaves the world unchanged (the SDK reverts the
    transaction). -/
def step (cfg : Config) (w : World) : Op → World × Res
  | .transfer c signer viaTx m coreErr seq =>
    match (if viaTx then validateBasic m else none) with
    | some e => (w, .err e)
    | none =>
      if viaTx && signer != m.sender then (w, .err "sdk/8")
      else match transfer cfg c (w.chains c) m coreErr seq with
        | .ok (ch', p) => ({ w.setChain c ch' with sent := p :: w.sent }, .sent p)
        | .error f => (w, failRes f)
  | .sendV2 c signer client data coreErr seq =>
    match sendPacketV2 cfg c (w.chains c) signer client data coreErr seq with
    | .ok (ch', p) => ({ w.setChain c ch' with sent := p :: w.sent }, .sent p)
    | .error f => (w, failRes f)
  | .recv p =>
    match recvPacket cfg p.dstChain (w.chains p.dstChain) p with
    | .ok (ch', o) =>
      ({ w.setChain p.dstChain ch' with recvd := (p, decide (o = .success)) :: w.recvd }, .recvd o)
    | .error f => (w, failRes f)
  | .ack p a =>
    match ackPacket cfg p.srcChain (w.chains p.srcChain) p a with
    | .ok ch' => ({ w.setChain p.srcChain ch' with acked := p :: w.acked }, .ok)
    | .error f => (w, failRes f)
  | .timeout p _ =>
    match timeoutPacket cfg p.srcChain (w.chains p.srcChain) p with
    | .ok ch' => ({ w.setChain p.srcChain ch' with timedOut := p :: w.timedOut }, .ok)
    | .error f => (w, failRes f)
  | .setParams c s r =>
    (w.setChain c { w.chains c with sendEnabled := s, recvEnabled := r }, .ok)
  | .bankSend c frm to denom amt =>
    if cfg.blocked c to then (w, .err "sdk/4")
    else match (w.chains c).bank.send frm to denom amt with
      | some b => (w.setChain c { w.chains c with bank := b }, .ok)
      | none => (w, .err "sdk/5")

def run (cfg : Config) (w : World) : List Op → World
  | [] => w
  | op :: ops => run cfg (step cfg w op).1 ops

end IbcVerif.Ics20
