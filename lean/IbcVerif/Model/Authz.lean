/-
  ICS-20 transfer authorization: modules/apps/transfer/types/transfer_authorization.go (Accept).
  `sdk.Coins` (sorted, positive amounts) is modelled as an association list denom ↦ amount without
  zero entries; `AmountOf`, `SafeSub`, `IsZero` follow the SDK semantics on that representation.
  Memo comparison goes through `norm` (= strings.TrimSpace), a parameter.
-/
namespace IbcVerif.Authz

abbrev Coins := List (String × Nat)

/-- `UnboundedSpendLimit()` = the "entire balance" sentinel = MaxUint256 -/
def unbounded : Nat := 2^256 - 1

def amountOf : Coins → String → Nat
  | [], _ => 0
  | (d, n) :: rest, x => if d = x then n else amountOf rest x

/-- set the amount of `x` (removing the entry when it becomes zero) -/
def setAmount : Coins → String → Nat → Coins
  | [], x, n => if n = 0 then [] else [(x, n)]
  | (d, m) :: rest, x, n => if d = x then (if n = 0 then rest else (d, n) :: rest) else (d, m) :: setAmount rest x n

/-- `Coins.SafeSub(coin)`: `none` = the result would be negative -/
def safeSub (l : Coins) (x : String) (n : Nat) : Option Coins :=
  if n = 0 then some l
  else if amountOf l x < n then none
  else some (setAmount l x (amountOf l x - n))

structure Allocation where
  port : String
  chan : String
  limit : Coins
  allowList : List String
  allowedMemos : List String
deriving DecidableEq, Repr

structure Msg where
  port : String
  chan : String
  denom : String
  amount : Nat
  receiver : String
  memo : String
deriving DecidableEq, Repr

inductive Resp
  | notFound | badReceiver | badMemo | insufficient
  | acceptDelete                       -- Accept: true, Delete: true
  | acceptKeep                         -- Accept: true, Updated: nil  (grant unchanged)
  | acceptUpdated (a : List Allocation)
deriving DecidableEq, Repr

def Resp.accepted : Resp → Bool
  | .acceptDelete | .acceptKeep | .acceptUpdated _ => true
  | _ => false

/-- `getAllocationIndex` -/
def findIdx (m : Msg) : List Allocation → Option Nat
  | [] => none
  | a :: rest => if a.chan = m.chan ∧ a.port = m.port then some 0 else (findIdx m rest).map (· + 1)

def allowedAddress (receiver : String) (allow : List String) : Bool :=
  allow.isEmpty || allow.contains receiver

/-- `AllowAllPacketDataKeys` -/
def allowAll : String := "*"

def memoOk (norm : String → String) (memo : String) (allowed : List String) : Bool :=
  if allowed.isEmpty then (norm memo).isEmpty
  else if allowed = [allowAll] then true
  else allowed.any (fun a => norm memo == norm a)

/-- `TransferAuthorization.Accept` on the grant `allocs` -/
def accept (norm : String → String) (allocs : List Allocation) (m : Msg) : Resp :=
  match findIdx m allocs with
  | none => .notFound
  | some i =>
    match allocs[i]? with
    | none => .notFound
    | some a =>
      if !allowedAddress m.receiver a.allowList then .badReceiver
      else if !memoOk norm m.memo a.allowedMemos then .badMemo
      else
        let bounded := amountOf a.limit m.denom ≠ unbounded
        match (if bounded then safeSub a.limit m.denom m.amount else some a.limit) with
        | none => .insufficient
        | some left =>
          let a' := { a with limit := left }
          let allocs' := if left.isEmpty then allocs.eraseIdx i else allocs.set i a'
          if allocs'.isEmpty then .acceptDelete
          else if !bounded then .acceptKeep
          else .acceptUpdated allocs'

/-- the grant after a response (what the authz keeper stores) -/
def nextGrant (allocs : List Allocation) : Resp → List Allocation
  | .acceptDelete => []
  | .acceptUpdated a => a
  | _ => allocs

/-- a whole history of requests against one grant: final grant and the accepted requests, in order -/
def run (norm : String → String) : List Allocation → List Msg → List Allocation × List Msg
  | g, [] => (g, [])
  | g, m :: ms =>
    let r := accept norm g m
    let (g', acc) := run norm (nextGrant g r) ms
    (g', if r.accepted then m :: acc else acc)

end IbcVerif.Authz
