/-
  Byte strings and fixed-width big-endian encodings (`sdk.Uint64ToBigEndian`, `binary.BigEndian`).
-/
namespace IbcVerif

abbrev Bytes := List UInt8

/-- `sdk.Uint64ToBigEndian`: always 8 bytes, most significant first (argument taken mod 2^64). -/
def be64 (n : Nat) : Bytes :=
  [UInt8.ofNat (n / 2^56 % 256), UInt8.ofNat (n / 2^48 % 256), UInt8.ofNat (n / 2^40 % 256), UInt8.ofNat (n / 2^32 % 256),
   UInt8.ofNat (n / 2^24 % 256), UInt8.ofNat (n / 2^16 % 256), UInt8.ofNat (n / 2^8 % 256), UInt8.ofNat (n % 256)]

/-- inverse of `be64` on 8-byte strings -/
def unbe64 : Bytes → Option Nat
  | [a, b, c, d, e, f, g, h] =>
    some (a.toNat * 2^56 + b.toNat * 2^48 + c.toNat * 2^40 + d.toNat * 2^32 + e.toNat * 2^24 + f.toNat * 2^16 + g.toNat * 2^8 + h.toNat)
  | _ => none

/-- Go `[]byte(s)` for an ASCII string -/
def strBytes (s : List Char) : Bytes := s.map (fun c => UInt8.ofNat c.toNat)

/-- bytewise lexicographic order (Go `bytes.Compare(a, b) < 0`), as used by store iteration -/
def bytesLt : Bytes → Bytes → Bool
  | [], [] => false
  | [], _ :: _ => true
  | _ :: _, [] => false
  | a :: as, b :: bs => if a < b then true else if b < a then false else bytesLt as bs

end IbcVerif
