/-
  Model of every `for … range <map>` site in non-test code under /repo/modules (property C45).

  A Go map has no order: one `range` yields its entries in an arbitrary order that differs between
  two executions.  The model of a site is therefore a function `f` of the list of (key, value) pairs
  *in the order the iteration happens to deliver them*; the property is `l₁.Perm l₂ → f l₁ = f l₂`
  (Props/C45.lean).  The keys of one map are pairwise distinct, which is the hypothesis
  `(l.map Prod.fst).Nodup` where a fold needs it (a fact about Go maps, not an assumption on ibc-go).

  Each definition quotes the Go loop it models.  Strings are modelled as `List α` over an arbitrary
  byte type wherever only equality / prefix matter, and as an arbitrary type with a total order where
  sorting matters (Go compares strings bytewise).
  Core Lean only (linked into the `miscmodel` driver).
-/
namespace IbcVerif.MapRange

/-- the keys in iteration order -/
def keys {κ ν : Type} (l : List (κ × ν)) : List κ := l.map Prod.fst

/-! ### modules/core/05-port/types/router.go : `(*Router).Keys`

    keys := make([]string, 0, len(rtr.routes))
    for k := range rtr.routes { keys = append(keys, k) }
    slices.Sort(keys)
    return keys
-/

/-- collect the keys in iteration order, then sort them ascending -/
def portRouterKeys {κ ν : Type} (le : κ → κ → Bool) (routes : List (κ × ν)) : List κ :=
  (keys routes).mergeSort le

/-! ### modules/core/api/router.go (IBC v2 router): port ids are byte strings `List α` -/

/-- `strings.HasPrefix(s, p)` -/
def hasPrefix {α : Type} [BEq α] (s p : List α) : Bool := p.isPrefixOf s

/-- `(*Router).AddRoute`, loop over `rtr.prefixRoutes`:

    for prefix := range rtr.prefixRoutes {
        if strings.HasPrefix(portID, prefix) {
            panic(fmt.Errorf("route %s is already matched by registered prefix route: %s", portID, prefix))
        }
    }

  Result: `some prefix` = the panic (its message names `prefix`), `none` = loop falls through. -/
def addRouteScan {α ν : Type} [BEq α] (portID : List α) : List (List α × ν) → Option (List α)
  | [] => none
  | (pfx, _) :: rest => if hasPrefix portID pfx then some pfx else addRouteScan portID rest

/-- `(*Router).AddPrefixRoute`, first loop (over the direct routes `rtr.routes`):

    for portID := range rtr.routes {
        if strings.HasPrefix(portID, portIDPrefix) {
            panic(fmt.Errorf("route prefix %s is a prefix for already registered route: %s", portIDPrefix, portID))
        }
    }

  `addPrefixScanRoutesMsg` is the full outcome including the port id named in the panic message;
  `addPrefixScanRoutes` forgets which colliding route is named. -/
def addPrefixScanRoutesMsg {α ν : Type} [BEq α] (pfx : List α) : List (List α × ν) → Option (List α)
  | [] => none
  | (portID, _) :: rest => if hasPrefix portID pfx then some portID else addPrefixScanRoutesMsg pfx rest

def addPrefixScanRoutes {α ν : Type} [BEq α] (pfx : List α) (routes : List (List α × ν)) : Bool :=
  (addPrefixScanRoutesMsg pfx routes).isSome

/-- outcome of the second loop of `AddPrefixRoute` -/
inductive PrefixScan (κ : Type) where
  | none                      -- loop falls through
  | coveredBy (p : κ)         -- panic "route prefix %s has already been covered by registered prefix: %s"
  | covers (p : κ)            -- panic "route prefix %s is a prefix for already registered prefix: %s"
  deriving DecidableEq, Repr

/-- `(*Router).AddPrefixRoute`, second loop (over `rtr.prefixRoutes`):

    for prefix := range rtr.prefixRoutes {
        if strings.HasPrefix(portIDPrefix, prefix) { panic(... covered by registered prefix: prefix) }
        if strings.HasPrefix(prefix, portIDPrefix) { panic(... is a prefix for already registered prefix: prefix) }
    }
-/
def addPrefixScanPrefixesMsg {α ν : Type} [BEq α] (pfx : List α) : List (List α × ν) → PrefixScan (List α)
  | [] => .none
  | (p, _) :: rest =>
    if hasPrefix pfx p then .coveredBy p
    else if hasPrefix p pfx then .covers p
    else addPrefixScanPrefixesMsg pfx rest

/-- the part of the outcome that does not depend on the iteration order: which panic (and, for
    `coveredBy`, which registered prefix — there is at most one); for `covers` the named prefix is
    forgotten (several registered prefixes may extend the new one, the message names an arbitrary one). -/
def PrefixScan.cls {κ : Type} : PrefixScan κ → PrefixScan Unit × Option κ
  | .none => (.none, Option.none)
  | .coveredBy p => (.coveredBy (), some p)
  | .covers _ => (.covers (), Option.none)

def addPrefixScanPrefixes {α ν : Type} [BEq α] (pfx : List α) (prefixRoutes : List (List α × ν)) :
    PrefixScan Unit × Option (List α) :=
  (addPrefixScanPrefixesMsg pfx prefixRoutes).cls

/-- `(*Router).getRoute`, loop over `rtr.prefixRoutes` (reached when there is no direct route):

    for prefix, cbs := range rtr.prefixRoutes {
        if strings.HasPrefix(portID, prefix) { return cbs, true }
    }
    return nil, false
-/
def getRouteScan {α ν : Type} [BEq α] (portID : List α) : List (List α × ν) → Option ν
  | [] => none
  | (pfx, cbs) :: rest => if hasPrefix portID pfx then some cbs else getRouteScan portID rest

/-- no registered prefix is a prefix of another one (the invariant `AddPrefixRoute` maintains) -/
def PrefixFree {α : Type} (ks : List (List α)) : Prop :=
  ks.Pairwise (fun a b => ¬ a <+: b ∧ ¬ b <+: a)

/-- the v2 router: both maps as iteration lists -/
structure ApiRouter (α ν : Type) where
  routes : List (List α × ν)
  prefixRoutes : List (List α × ν)

def ApiRouter.empty {α ν : Type} : ApiRouter α ν := ⟨[], []⟩

/-- `AddRoute` without the alphanumeric guard (irrelevant to ordering): `none` = panic.
    The new entry may land anywhere in the map's iteration order; the model conses it. -/
def ApiRouter.addRoute {α ν : Type} [BEq α] (r : ApiRouter α ν) (portID : List α) (cbs : ν) : Option (ApiRouter α ν) :=
  if (keys r.routes).contains portID then none
  else if (addRouteScan portID r.prefixRoutes).isSome then none
  else some { r with routes := (portID, cbs) :: r.routes }

/-- `AddPrefixRoute` without the alphanumeric guard: `none` = panic. -/
def ApiRouter.addPrefixRoute {α ν : Type} [BEq α] (r : ApiRouter α ν) (pfx : List α) (cbs : ν) : Option (ApiRouter α ν) :=
  if addPrefixScanRoutes pfx r.routes then none
  else match addPrefixScanPrefixesMsg pfx r.prefixRoutes with
    | .none => some { r with prefixRoutes := (pfx, cbs) :: r.prefixRoutes }
    | _ => none

/-- `getRoute`: direct routes (a map lookup, no iteration) take precedence over prefix routes -/
def ApiRouter.getRoute {α ν : Type} [BEq α] (r : ApiRouter α ν) (portID : List α) : Option ν :=
  match r.routes.lookup portID with
  | some cbs => some cbs
  | none => getRouteScan portID r.prefixRoutes

/-- router construction steps (app wiring) -/
inductive RouterOp (α ν : Type) where
  | addRoute (portID : List α) (cbs : ν)
  | addPrefixRoute (pfx : List α) (cbs : ν)

/-- run a wiring sequence; `none` as soon as a step panics -/
def ApiRouter.run {α ν : Type} [BEq α] : ApiRouter α ν → List (RouterOp α ν) → Option (ApiRouter α ν)
  | r, [] => some r
  | r, .addRoute p c :: ops => (r.addRoute p c).bind (·.run ops)
  | r, .addPrefixRoute p c :: ops => (r.addPrefixRoute p c).bind (·.run ops)

/-! ### modules/apps/packet-forward-middleware/keeper/genesis.go : `(*Keeper).InitGenesis`

    store := k.storeService.OpenKVStore(ctx)
    for key, value := range state.InFlightPackets {
        bz := k.cdc.MustMarshal(&value)
        if err := store.Set([]byte(key), bz); err != nil { panic(err) }
    }

  The store is a partial function key → value; `store.Set` rejects the empty key (the SDK's
  `AssertValidKey`), which aborts genesis.  `enc` is the codec (a parameter). -/

abbrev KV (κ β : Type) := κ → Option β

def KV.set {κ β : Type} [DecidableEq κ] (s : KV κ β) (k : κ) (v : β) : KV κ β :=
  fun q => if q = k then some v else s q

/-- `none` = panic (some key is empty), otherwise the store after all writes -/
def pfmInitGenesis {κ ν β : Type} [DecidableEq κ] (isEmpty : κ → Bool) (enc : ν → β) (store : KV κ β)
    (inFlight : List (κ × ν)) : Option (KV κ β) :=
  if inFlight.any (fun kv => isEmpty kv.1) then none
  else some (inFlight.foldl (fun s kv => s.set kv.1 (enc kv.2)) store)

end IbcVerif.MapRange
