/-
  Model of modules/light-clients/07-tendermint/store.go (+ pruneOldestConsensusState of update.go).

  The client store is modelled as typed finite maps for the three `consensusStates/{rev}-{h}[/…]`
  key families (typed maps are licensed by C16: distinct typed keys are distinct store keys) and as a
  *byte-ordered* index for the `iterateConsensusStates{BE(rev)}{BE(height)}` family, because the
  behaviour of iteration / neighbour lookup depends on the bytewise order of those raw keys.
  The index is the view through `prefix.NewStore(clientStore, "iterateConsensusStates")`: keys are the
  16 raw bytes after the prefix, kept sorted by `bytesLt` exactly as the underlying KV store does;
  values are the consensus-state keys, represented by the height they name.

  Time: `time.Time` values are `Int` unix nanoseconds, `time.Duration` values are `Int` nanoseconds.
-/
import IbcVerif.Model.Height
import IbcVerif.Model.Bytes
namespace IbcVerif.Tm
open IbcVerif

instance : Inhabited Height := ⟨Height.zero⟩

/-! ### finite maps as association lists (first match wins; `set` removes older bindings) -/

abbrev FMap (κ α : Type) := List (κ × α)

namespace FMap
variable {κ α : Type} [DecidableEq κ]

def get : FMap κ α → κ → Option α
  | [], _ => none
  | (k', v) :: r, k => if k' = k then some v else get r k

def del (m : FMap κ α) (k : κ) : FMap κ α := m.filter (fun p => !decide (p.1 = k))

def set (m : FMap κ α) (k : κ) (v : α) : FMap κ α := (k, v) :: del m k

def keys (m : FMap κ α) : List κ := m.map Prod.fst

end FMap

/-! ### data -/

/-- 07-tendermint `ConsensusState`; root and next-validators hash are opaque byte strings (hex) -/
structure ConsState where
  ts : Int
  root : String
  nvh : String
deriving DecidableEq, Repr, Inhabited

/-- 07-tendermint `ClientState` -/
structure ClientState where
  chainId : String
  tlNum : Nat
  tlDen : Nat
  trustingPeriod : Int
  unbondingPeriod : Int
  maxClockDrift : Int
  frozen : Height
  latest : Height
  /-- proof specs: `none` = nil (empty) slice, otherwise an opaque rendering -/
  proofSpecs : Option String
  upgradePath : List String
  allowExpiry : Bool
  allowMisb : Bool
deriving DecidableEq, Repr, Inhabited

/-- one client's prefix store -/
structure Store where
  client : Option ClientState
  cons : FMap Height ConsState
  ptime : FMap Height Nat
  pheight : FMap Height Height
  /-- `iterateConsensusStates` index: raw 16-byte key ↦ height named by the stored consensus key -/
  iter : List (Bytes × Height)
deriving Repr, Inhabited

def Store.empty : Store := ⟨none, [], [], [], []⟩

/-! ### the byte-ordered index -/

namespace Idx

/-- `Set` on a store kept in bytewise key order -/
def ins (k : Bytes) (v : Height) : List (Bytes × Height) → List (Bytes × Height)
  | [] => [(k, v)]
  | (k', v') :: r =>
    if bytesLt k k' then (k, v) :: (k', v') :: r
    else if k = k' then (k, v) :: r
    else (k', v') :: ins k v r

def del (k : Bytes) (ix : List (Bytes × Height)) : List (Bytes × Height) :=
  ix.filter (fun p => !decide (p.1 = k))

def get (ix : List (Bytes × Height)) (k : Bytes) : Option Height :=
  match ix.find? (fun p => decide (p.1 = k)) with
  | some p => some p.2
  | none => none

/-- `Iterator(start, nil)`: entries with key ≥ start in ascending key order -/
def seekGE (start : Bytes) (ix : List (Bytes × Height)) : List (Bytes × Height) :=
  ix.filter (fun p => !bytesLt p.1 start)

/-- `ReverseIterator(nil, end)`: entries with key < end in descending key order -/
def seekLT (stop : Bytes) (ix : List (Bytes × Height)) : List (Bytes × Height) :=
  (ix.filter (fun p => bytesLt p.1 stop)).reverse

end Idx

/-- `bigEndianHeightBytes` -/
def beHeight (h : Height) : Bytes := be64 h.rev.toNat ++ be64 h.h.toNat

/-- `GetHeightFromIterationKey` on the 16 bytes after the prefix (Go would panic on a shorter key) -/
def heightFromKey (k : Bytes) : Height :=
  match unbe64 (k.take 8), unbe64 (k.drop 8) with
  | some r, some h => ⟨UInt64.ofNat r, UInt64.ofNat h⟩
  | _, _ => ⟨0, 0⟩

/-! ### store.go -/

namespace Store

def getCons (s : Store) (h : Height) : Option ConsState := s.cons.get h
def setCons (s : Store) (h : Height) (c : ConsState) : Store := { s with cons := s.cons.set h c }
def delCons (s : Store) (h : Height) : Store := { s with cons := s.cons.del h }

def setProcessedTime (s : Store) (h : Height) (t : Nat) : Store := { s with ptime := s.ptime.set h t }
def setProcessedHeight (s : Store) (h ph : Height) : Store := { s with pheight := s.pheight.set h ph }
def setIterationKey (s : Store) (h : Height) : Store := { s with iter := Idx.ins (beHeight h) h s.iter }

/-- `setConsensusMetadataWithValues` -/
def setMeta (s : Store) (h ph : Height) (pt : Nat) : Store :=
  ((s.setProcessedTime h pt).setProcessedHeight h ph).setIterationKey h

/-- `deleteConsensusMetadata` -/
def delMeta (s : Store) (h : Height) : Store :=
  { s with ptime := s.ptime.del h, pheight := s.pheight.del h, iter := Idx.del (beHeight h) s.iter }

/-- heights visited by `IterateConsensusStateAscending` (decoded from the raw keys, in key order) -/
def iterAsc (s : Store) : List Height := s.iter.map (fun p => heightFromKey p.1)

/-- `GetNextConsensusState` -/
def getNext (s : Store) (h : Height) : Option ConsState :=
  match Idx.seekGE (beHeight h) s.iter with
  | [] => none
  | (_, v) :: rest =>
    if v = h then
      match rest with
      | [] => none
      | (_, v') :: _ => s.getCons v'
    else s.getCons v

/-- `GetPreviousConsensusState` -/
def getPrev (s : Store) (h : Height) : Option ConsState :=
  match Idx.seekLT (beHeight h) s.iter with
  | [] => none
  | (_, v) :: _ => s.getCons v

end Store

/-- `ClientState.IsExpired(latestTimestamp, now)`: `!latestTimestamp.Add(trustingPeriod).After(now)` -/
def isExpired (trustingPeriod ts now : Int) : Bool := !decide (ts + trustingPeriod > now)

namespace Store

/-- `pruneOldestConsensusState`: the callback returns `true` after the first element.
    `none` models the panic "failed to retrieve consensus state" (iteration key without consensus state). -/
def pruneOldest (trustingPeriod now : Int) (s : Store) : Option Store :=
  match s.iterAsc with
  | [] => some s
  | h :: _ =>
    match s.getCons h with
    | none => none
    | some c => if isExpired trustingPeriod c.ts now then some ((s.delCons h).delMeta h) else some s

/-- heights collected by the callback of `PruneAllExpiredConsensusStates` (stops at the first missing one) -/
def expiredHeights (trustingPeriod now : Int) (s : Store) : List Height → List Height
  | [] => []
  | h :: hs =>
    match s.getCons h with
    | none => []
    | some c => if isExpired trustingPeriod c.ts now then h :: expiredHeights trustingPeriod now s hs
                else expiredHeights trustingPeriod now s hs

def delAll (s : Store) : List Height → Store
  | [] => s
  | h :: hs => delAll ((s.delCons h).delMeta h) hs

/-- `PruneAllExpiredConsensusStates` -/
def pruneAll (trustingPeriod now : Int) (s : Store) : Store × Nat :=
  let hs := expiredHeights trustingPeriod now s s.iterAsc
  (s.delAll hs, hs.length)

end Store
end IbcVerif.Tm
