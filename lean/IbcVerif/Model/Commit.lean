/-
  Packet and acknowledgement commitments.
    v1: modules/core/04-channel/types/packet.go      CommitPacket, CommitAcknowledgement
    v2: modules/core/04-channel/v2/types/commitment.go  CommitPacket, hashPayload, CommitAcknowledgement
  The hash is a parameter `H` (instantiated with SHA-256 in the driver).  Go strings enter as their bytes.
-/
import IbcVerif.Model.Bytes
namespace IbcVerif.Commit

/-- committed fields of a v1 packet (the other packet fields are not part of the commitment) -/
structure PacketV1 where
  timeoutTs : Nat      -- uint64
  revNumber : Nat      -- uint64
  revHeight : Nat      -- uint64
  data : Bytes
deriving DecidableEq, Repr

def PacketV1.WF (p : PacketV1) : Prop := p.timeoutTs < 2^64 ∧ p.revNumber < 2^64 ∧ p.revHeight < 2^64

/-- the 56-byte preimage hashed by v1 `CommitPacket` -/
def preimageV1 (H : Bytes → Bytes) (p : PacketV1) : Bytes :=
  be64 p.timeoutTs ++ be64 p.revNumber ++ be64 p.revHeight ++ H p.data

def commitV1 (H : Bytes → Bytes) (p : PacketV1) : Bytes := H (preimageV1 H p)

def commitAckV1 (H : Bytes → Bytes) (ack : Bytes) : Bytes := H ack

structure Payload where
  sourcePort : Bytes
  destPort : Bytes
  version : Bytes
  encoding : Bytes
  value : Bytes
deriving DecidableEq, Repr

structure PacketV2 where
  destClient : Bytes
  timeoutTs : Nat     -- uint64 (seconds)
  payloads : List Payload
deriving DecidableEq, Repr

def payloadPreimage (H : Bytes → Bytes) (d : Payload) : Bytes :=
  H d.sourcePort ++ H d.destPort ++ H d.version ++ H d.encoding ++ H d.value

def hashPayload (H : Bytes → Bytes) (d : Payload) : Bytes := H (payloadPreimage H d)

def appBytes (H : Bytes → Bytes) (ps : List Payload) : Bytes := (ps.map (hashPayload H)).flatten

def preimageV2 (H : Bytes → Bytes) (p : PacketV2) : Bytes :=
  [2] ++ (H p.destClient ++ H (be64 p.timeoutTs) ++ H (appBytes H p.payloads))

def commitV2 (H : Bytes → Bytes) (p : PacketV2) : Bytes := H (preimageV2 H p)

def ackPreimageV2 (H : Bytes → Bytes) (acks : List Bytes) : Bytes := [2] ++ (acks.map H).flatten

def commitAckV2 (H : Bytes → Bytes) (acks : List Bytes) : Bytes := H (ackPreimageV2 H acks)

end IbcVerif.Commit
