/-
  Reference accounting for C41 ("recorded inflow/outflow = amounts accepted in the current window
  minus those later refunded or rejected in that window; each packet undone at most once").

  Independently of the keeper's representation (two numbers + marker sets) the reference keeps, per
  path and per direction, the full list of packets ACCEPTED in the current window, partitioned by
  what happened to them since:
      opn      accepted, no terminal outcome yet
      settled  accepted, finalised successfully (success ack / synchronous success / async success)
      undone   accepted, then refunded or rejected (error ack / timeout / async error ack)
  A packet moves out of `opn` at its first terminal outcome and never moves again, so it is undone at
  most once by construction.  A window starts (all lists emptied, channel value re-read) at
  AddRateLimit, ResetRateLimit, the BeginBlocker epoch reset and — flows being zeroed there —
  UpdateRateLimit; RemoveRateLimit ends it.
  Which sends/receives count as accepted is read off the implementation's own result
  (`Res.counted`: the flow was updated); that the implementation accepts exactly within the quota
  is the separate theorem `accept_iff_within_quota`.
-/
import IbcVerif.Model.RateLimit
namespace IbcVerif.RateLimit
open IbcVerif.Apps

def sumAmt (l : List (Nat × Int)) : Int := (l.map (·.2)).sum

structure Side where
  opn : List (Nat × Int)
  settled : List (Nat × Int)
  undone : List (Nat × Int)
deriving Repr, DecidableEq

def Side.empty : Side := ⟨[], [], []⟩

/-- total amount accepted in the window -/
def Side.accepted (s : Side) : Int := sumAmt s.opn + sumAmt s.settled + sumAmt s.undone
/-- total amount refunded / rejected in the window (of packets accepted in the window) -/
def Side.undoneSum (s : Side) : Int := sumAmt s.undone

def Side.accept (s : Side) (seq : Nat) (amt : Int) : Side := { s with opn := (seq, amt) :: s.opn }
def Side.settle (s : Side) (seq : Nat) : Side :=
  { s with opn := s.opn.filter (fun e => e.1 ≠ seq), settled := s.opn.filter (fun e => e.1 = seq) ++ s.settled }
def Side.undo (s : Side) (seq : Nat) : Side :=
  { s with opn := s.opn.filter (fun e => e.1 ≠ seq), undone := s.opn.filter (fun e => e.1 = seq) ++ s.undone }

structure Window where
  out : Side
  inn : Side
  startValue : Int
deriving Repr, DecidableEq

def Window.fresh (v : Int) : Window := ⟨Side.empty, Side.empty, v⟩

abbrev Ref := List (Path × Window)

def Ref.modify (r : Ref) (k : Path) (f : Window → Window) : Ref :=
  match KV.get r k with
  | none => r
  | some w => KV.set r k (f w)

/-- one step of the reference account; `s` is the implementation state *before* the op -/
def Ref.step (r : Ref) (s : State) : Op → Ref
  | .send p =>
    if (sendPacket s p).2 = .counted then r.modify p.path fun w => { w with out := w.out.accept p.seq p.amt } else r
  | .recv p app =>
    let (_, res, a) := recvPacket s p app
    if res = .counted ∧ a ≠ .error then
      r.modify p.path fun w =>
        let i := w.inn.accept p.seq p.amt
        { w with inn := if a = .success then i.settle p.seq else i }
    else r
  | .ack p ok => r.modify p.path fun w => { w with out := if ok then w.out.settle p.seq else w.out.undo p.seq }
  | .timeout p => r.modify p.path fun w => { w with out := w.out.undo p.seq }
  | .writeAck p ok => r.modify p.path fun w => { w with inn := if ok then w.inn.settle p.seq else w.inn.undo p.seq }
  | .beginBlock t sup =>
    if (beginBlock s t sup).2 then
      KV.mapVals (fun k w => if (s.path k).dueAt (s.epochNum + 1) then Window.fresh (supplyOf sup k.1) else w) r
    else r
  | .add k q v e => if (addLimit s k q v e).2 = .done then KV.set r k (Window.fresh v) else r
  | .update k q v => if (updateLimit s k q v).2 = .done then KV.set r k (Window.fresh v) else r
  | .remove k => if (removeLimit s k).2 = .done then KV.erase r k else r
  | .reset k v => if (resetLimit s k v).2 = .done then KV.set r k (Window.fresh v) else r
  | .setBlacklist _ _ => r
  | .setWhitelist _ _ _ => r

/-- implementation and reference account run side by side -/
def runBoth (s : State) (r : Ref) (ops : List Op) : State × Ref :=
  ops.foldl (fun sr op => ((step sr.1 op).1, Ref.step sr.2 sr.1 op)) (s, r)

/-- the (sequence, amount) of every send op on path `k` in a history (accepted or not) -/
def sendEvs (k : Path) : List Op → List (Nat × Int)
  | [] => []
  | .send p :: t => if p.path = k then (p.seq, p.amt) :: sendEvs k t else sendEvs k t
  | _ :: t => sendEvs k t

def recvEvs (k : Path) : List Op → List (Nat × Int)
  | [] => []
  | .recv p _ :: t => if p.path = k then (p.seq, p.amt) :: recvEvs k t else recvEvs k t
  | _ :: t => recvEvs k t

/-- What core IBC and ICS-20 guarantee the middleware about one op, given the history `pre` before it
    (named hypotheses, never axioms):
    * send: positive amount (ICS-20 `ValidateBasic`), sequence never used on that path (C08);
    * recv: sequence never received on that path (C01); a non-positive amount is answered with an
      error acknowledgement by the application (ICS-20 validation);
    * ack / timeout / async ack: the packet is the one that was sent / received (C06: commitment check). -/
def OpOK (pre : List Op) : Op → Prop
  | .send p => 0 < p.amt ∧ ∀ a, (p.seq, a) ∉ sendEvs p.path pre
  | .recv p app => (app ≠ .error → 0 < p.amt) ∧ ∀ a, (p.seq, a) ∉ recvEvs p.path pre
  | .ack p _ => ∀ a, (p.seq, a) ∈ sendEvs p.path pre → a = p.amt
  | .timeout p => ∀ a, (p.seq, a) ∈ sendEvs p.path pre → a = p.amt
  | .writeAck p _ => ∀ a, (p.seq, a) ∈ recvEvs p.path pre → a = p.amt
  | _ => True

def WF (ops : List Op) : Prop := ∀ pre op post, ops = pre ++ op :: post → OpOK pre op

def Op.isAdminRewrite : Op → Bool
  | .update _ _ _ => true
  | .remove _ => true
  | _ => false

end IbcVerif.RateLimit
