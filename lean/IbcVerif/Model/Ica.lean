/-
  Model of ICS-27 interchain accounts.

  Part A (C37) — host/keeper/relay.go: `OnRecvPacket` → `executeTx` → `authenticateTx` / `executeMsg`.
  The host application state `σ` and the message handlers are parameters: a message carries its type
  URL, its signers (as `GetMsgV1Signers` returns them, rendered as bech32 strings), whether
  `ValidateBasic` passes, whether the router knows it, and its handler `σ → Option σ`
  (`none` = the handler returned an error, or returned a nil response).

  Part B (C38) — controller/keeper/handshake.go, host/keeper/handshake.go,
  controller/keeper/msg_server.go + account.go + relay.go (sendTx), the two `ibc_module`s: a
  two-chain world (controller, host) in which core IBC's channel handshake is abstracted to what it
  guarantees the application (C12): TRY sees the controller's channel end, ACK sees the host's
  channel end and its version, CONFIRM needs the controller end OPEN; an ORDERED channel that times
  out is CLOSED by core.  Relayers choose any order of these steps.
-/
import IbcVerif.Model.RateLimitKV
namespace IbcVerif.Ica
open IbcVerif.Apps

/-! ## Part A — host execution -/

structure Msg (σ : Type) where
  typeURL : String
  signers : List String
  vbOk : Bool
  routed : Bool
  handler : σ → Option σ

inductive ExecErr
  | channelNotFound      -- channeltypes.ErrChannelNotFound
  | accountNotFound      -- icatypes.ErrInterchainAccountNotFound
  | typeNotAllowed       -- ibcerrors.ErrUnauthorized (message type not allowed)
  | wrongSigner          -- ibcerrors.ErrUnauthorized (unexpected signer address)
  | validateBasic        -- the message's ValidateBasic error
  | invalidRoute         -- icatypes.ErrInvalidRoute
  | handler              -- the handler's error (or nil response)
deriving DecidableEq, Repr

/-- `types.ContainsMsgType`: the wildcard counts only when it is the sole entry -/
def containsMsgType (allow : List String) (url : String) : Bool :=
  (allow.length == 1 && allow.head? == some "*") || allow.contains url

/-- `authenticateTx` -/
def authenticateTx {σ : Type} (icaAddr : Option String) (allow : List String) : List (Msg σ) → Option ExecErr
  | msgs =>
    match icaAddr with
    | none => some .accountNotFound
    | some a =>
      let rec go : List (Msg σ) → Option ExecErr
        | [] => none
        | m :: t =>
          if !containsMsgType allow m.typeURL then some .typeNotAllowed
          else if m.signers.any (fun s => s != a) then some .wrongSigner
          else go t
      go msgs

/-- the message loop of `executeTx`, run on the cache context -/
def runMsgs {σ : Type} : List (Msg σ) → σ → Except ExecErr σ
  | [], s => .ok s
  | m :: t, s =>
    if !m.vbOk then .error .validateBasic
    else if !m.routed then .error .invalidRoute
    else match m.handler s with
      | none => .error .handler
      | some s' => runMsgs t s'

/-- `executeTx`: returns the host state afterwards and the result.  The cache context is written
    (`writeCache()`) only after every message succeeded. -/
def executeTx {σ : Type} (chanFound : Bool) (icaAddr : Option String) (allow : List String)
    (msgs : List (Msg σ)) (s : σ) : σ × Option ExecErr :=
  if !chanFound then (s, some .channelNotFound)
  else match authenticateTx icaAddr allow msgs with
    | some e => (s, some e)
    | none =>
      match runMsgs msgs s with
      | .error e => (s, some e)
      | .ok s' => (s', none)

/-! ## Part B — channel lifecycle -/

structure Metadata where
  version : String
  ctrlConn : String
  hostConn : String
  address : String
  encoding : String
  txType : String
deriving DecidableEq, Repr

/-- Go `strings.TrimSpace(s) == ""` (ASCII) -/
def isBlank (s : String) : Bool := s.toList.all Char.isWhitespace

/-- Go `strings.HasPrefix(s, p)` -/
def hasPrefix (p s : String) : Bool := p.toList.isPrefixOf s.toList

def icaVersion := "ics27-1"
def hostPort := "icahost"
def ctrlPrefix := "icacontroller-"

def supportedEncoding (e : String) : Bool := e == "proto3" || e == "proto3json"
def supportedTxType (t : String) : Bool := t == "sdk_multi_msg"

/-- `IsPreviousMetadataEqual`: everything but the address -/
def Metadata.sameButAddress (a b : Metadata) : Bool :=
  a.version == b.version && a.ctrlConn == b.ctrlConn && a.hostConn == b.hostConn &&
  a.encoding == b.encoding && a.txType == b.txType

inductive ChState | init | tryopen | opened | closed
deriving DecidableEq, Repr

inductive Order | ordered | unordered
deriving DecidableEq, Repr

structure Chan where
  port : String          -- own port
  conn : String          -- own connection (connectionHops[0])
  cpPort : String
  cpChan : Option Nat    -- counterparty channel, once known
  state : ChState
  order : Order
  md : Option Metadata   -- parsed version string (none = not ICS-27 metadata)
deriving DecidableEq, Repr

abbrev Key := String × String      -- (connection, controller port)

structure Side where
  chans : List (Nat × Chan)         -- channel number n is `c<n>` on the controller, `h<n>` on the host
  active : List (Key × Nat)
  addr : List (Key × String)
  next : Nat
  enabled : Bool                    -- ControllerEnabled / HostEnabled
deriving Repr

structure World where
  ctrl : Side
  host : Side
  peer : List (String × String)     -- controller connection ↦ host connection
  validAddr : String → Bool         -- icatypes.ValidateAccountAddress
  genAddr : String → String → String -- icatypes.GenerateAddress (host connection, controller port)
  taken : List String               -- addresses on the host that already hold a non-ICA account



def Side.chan (s : Side) (id : Nat) : Option Chan := KV.get s.chans id

/-- `GetOpenActiveChannel` -/
def Side.openActive (s : Side) (k : Key) (port : String) : Option Nat :=
  match KV.get s.active k with
  | none => none
  | some id =>
    match s.chan id with
    | some c => if c.port == port && c.state == .opened then some id else none
    | none => none

inductive Err
  | disabled | invalidControllerPort | invalidHostPort | connectionNotFound | invalidVersion | invalidCodec
  | unknownDataType | invalidConnection | invalidAddress | activeAlreadySet | invalidOrdering
  | invalidChannelFlow | channelNotFound | activeNotFound | invalidTimeout | accountExists
  | invalidReopening | invalidRequest | invalidType | coreState
deriving DecidableEq, Repr

/-- `ValidateControllerMetadata` / `ValidateHostMetadata` (same checks; the address is validated when
    non-empty) -/
def validateMeta (w : World) (m : Metadata) (ctrlConn hostConn : String) : Option Err :=
  if !supportedEncoding m.encoding then some .invalidCodec
  else if !supportedTxType m.txType then some .unknownDataType
  else if m.ctrlConn != ctrlConn then some .invalidConnection
  else if m.hostConn != hostConn then some .invalidConnection
  else if m.address != "" && !w.validAddr m.address then some .invalidAddress
  else if m.version != icaVersion then some .invalidVersion
  else none

def defaultMeta (ctrlConn hostConn : String) : Metadata :=
  ⟨icaVersion, ctrlConn, hostConn, "", "proto3", "sdk_multi_msg"⟩

/-- the part of controller `OnChanOpenInit` that looks at an existing active channel of the key: it must
    be CLOSED, have the same ordering and the same metadata (`IsPreviousMetadataEqual`) -/
def reopenCheck (w : World) (order : Order) (conn port : String) (m : Metadata) : Option Err :=
  match KV.get w.ctrl.active (conn, port) with
  | none => none
  | some aid =>
    match w.ctrl.chan aid with
    | none => some .coreState          -- panic in the code: mapping without channel
    | some c =>
      if c.state != .closed then some .activeAlreadySet
      else if c.order != order then some .invalidOrdering
      else match c.md with
        | some pm => if pm.sameButAddress m then none else some .invalidVersion
        | none => some .invalidVersion

/-- the metadata `OnChanOpenInit` works with: default metadata for a blank version string, else the parsed one -/
def initMeta (version : Option (Option Metadata)) (conn hconn : String) : Except Err Metadata :=
  match version with
  | none => .ok (defaultMeta conn hconn)
  | some none => .error .invalidType     -- MetadataFromVersion: ibcerrors.ErrInvalidType
  | some (some m) => .ok m

/-- controller `OnChanOpenInit` (middleware + keeper).  `version`: `none` = blank version string,
    `some none` = a string that is not ICS-27 metadata, `some (some m)` = parsed metadata. -/
def ctrlOnInit (w : World) (order : Order) (conn port cpPort : String) (version : Option (Option Metadata)) :
    Except Err Metadata :=
  -- the port router only hands ports with the `icacontroller` prefix to this module
  if !hasPrefix "icacontroller" port then .error .coreState
  else if !w.ctrl.enabled then .error .disabled
  else if !hasPrefix ctrlPrefix port then .error .invalidControllerPort
  else if cpPort != hostPort then .error .invalidHostPort
  else
    match KV.get w.peer conn with
    | none => .error .connectionNotFound           -- (for a blank version GetConnection fails first; same class)
    | some hconn =>
      match initMeta version conn hconn with
      | .error e => .error e
      | .ok m =>
        match validateMeta w m conn hconn with
        | some e => .error e
        | none =>
          match reopenCheck w order conn port m with
          | some e => .error e
          | none => .ok m

/-- core `ChanOpenInit` on the controller with the ICA callback -/
def ctrlInit (w : World) (order : Order) (conn port cpPort : String) (version : Option (Option Metadata)) :
    World × Except Err Nat :=
  -- core's own validation comes first: the connection must exist (before the application callback)
  if (KV.get w.peer conn).isNone then (w, .error .coreState)
  else
  match ctrlOnInit w order conn port cpPort version with
  | .error e => (w, .error e)
  | .ok m =>
    let id := w.ctrl.next
    let c : Chan := ⟨port, conn, cpPort, none, .init, order, some m⟩
    ({ w with ctrl := { w.ctrl with chans := KV.set w.ctrl.chans id c, next := w.ctrl.next + 1 } }, .ok id)

/-- `MsgRegisterInterchainAccount` (msg server) → `registerInterchainAccount` → core ChanOpenInit -/
def register (w : World) (owner conn : String) (version : Option (Option Metadata)) (order : Order) :
    World × Except Err Nat :=
  if isBlank owner then (w, .error .invalidAddress)
  else
    let port := ctrlPrefix ++ owner
    match w.ctrl.openActive (conn, port) port with
    | some _ => (w, .error .activeAlreadySet)
    | none => ctrlInit w order conn port hostPort version

/-- host `OnChanOpenTry` run by core's ChanOpenTry for the controller channel `cid` -/
def hostTry (w : World) (cid : Nat) : World × Except Err Nat :=
  match w.ctrl.chan cid with
  | none => (w, .error .coreState)
  | some cc =>
    match KV.get w.peer cc.conn with
    | none => (w, .error .coreState)
    | some hconn =>
      -- core: proof that the controller end is in INIT (relayers prove against the latest state here;
      -- a stale proof could still create a TRYOPEN end later, which can never be acknowledged)
      if cc.state != .init then (w, .error .coreState)
      else if !w.host.enabled then (w, .error .disabled)
      else if cc.cpPort != hostPort then (w, .error .invalidHostPort)
      else
        -- counterparty version = the controller end's version; unparsable → default metadata
        let m0 : Metadata := match cc.md with
          | some m => m
          | none => defaultMeta cc.conn hconn
        let m : Metadata := { m0 with hostConn := hconn }
        match validateMeta w m cc.conn hconn with
        | some e => (w, .error e)
        | none =>
          let k : Key := (hconn, cc.port)
          let activeOk : Except Err Unit := match KV.get w.host.active k with
            | none => .ok ()
            | some aid => match w.host.chan aid with
              | none => .error .coreState
              | some c => if c.state != .closed then .error .activeAlreadySet else .ok ()
          match activeOk with
          | .error e => (w, .error e)
          | .ok () =>
            let acct : Except Err (String × List (Key × String)) := match KV.get w.host.addr k with
              | some a => .ok (a, w.host.addr)       -- reopening: the stored address is reused
              | none =>
                let a := w.genAddr hconn cc.port
                if a ∈ w.taken then .error .accountExists
                else .ok (a, KV.set w.host.addr k a)
            match acct with
            | .error e => (w, .error e)
            | .ok (a, addr') =>
              let id := w.host.next
              let c : Chan := ⟨hostPort, hconn, cc.port, some cid, .tryopen, cc.order, some { m with address := a }⟩
              ({ w with host := { w.host with chans := KV.set w.host.chans id c, addr := addr', next := w.host.next + 1 } },
               .ok id)

/-- controller `OnChanOpenAck` for controller channel `cid` acknowledging host channel `hid` -/
def ctrlAck (w : World) (cid hid : Nat) : World × Except Err Unit :=
  match w.ctrl.chan cid, w.host.chan hid with
  | some cc, some hc =>
    -- what core checks: our end is INIT, the host end exists for this very channel
    if cc.state != .init || hc.state != .tryopen || hc.cpChan != some cid || hc.cpPort != cc.port then (w, .error .coreState)
    else if !w.ctrl.enabled then (w, .error .disabled)
    else if cc.port == hostPort then (w, .error .invalidControllerPort)
    else if !hasPrefix ctrlPrefix cc.port then (w, .error .invalidControllerPort)
    else match hc.md with
      | none => (w, .error .invalidVersion)
      | some m =>
        match w.ctrl.openActive (m.ctrlConn, cc.port) cc.port with
        | some _ => (w, .error .activeAlreadySet)
        | none =>
          match KV.get w.peer cc.conn with
          | none => (w, .error .connectionNotFound)
          | some hconn =>
            match validateMeta w m cc.conn hconn with
            | some e => (w, .error e)
            | none =>
              if isBlank m.address then (w, .error .invalidAddress)
              else
                let k : Key := (m.ctrlConn, cc.port)
                let c' : Chan := { cc with state := .opened, cpChan := some hid, md := some m }
                ({ w with ctrl := { w.ctrl with
                    chans := KV.set w.ctrl.chans cid c',
                    active := KV.set w.ctrl.active k cid,
                    addr := KV.set w.ctrl.addr k m.address } }, .ok ())
  | _, _ => (w, .error .coreState)

/-- host `OnChanOpenConfirm` for host channel `hid` -/
def hostConfirm (w : World) (hid : Nat) : World × Except Err Unit :=
  match w.host.chan hid with
  | none => (w, .error .coreState)
  | some hc =>
    match hc.cpChan.bind w.ctrl.chan with
    | none => (w, .error .coreState)
    | some cc =>
      -- core: our end TRYOPEN, the controller end reached OPEN towards us
      if hc.state != .tryopen || cc.cpChan != some hid || cc.state != .opened then (w, .error .coreState)
      else if !w.host.enabled then (w, .error .disabled)
      else
        let c' : Chan := { hc with state := .opened }
        ({ w with host := { w.host with chans := KV.set w.host.chans hid c',
                                        active := KV.set w.host.active (hc.conn, hc.cpPort) hid } }, .ok ())

/-- core closes an ORDERED controller channel whose packet timed out -/
def ctrlTimeoutClose (w : World) (cid : Nat) : World × Except Err Unit :=
  match w.ctrl.chan cid with
  | some cc =>
    if cc.state == .opened && cc.order == .ordered then
      ({ w with ctrl := { w.ctrl with chans := KV.set w.ctrl.chans cid { cc with state := .closed } } }, .ok ())
    else (w, .error .coreState)
  | none => (w, .error .coreState)

/-- `ChanCloseConfirm` on the host once the controller end is CLOSED (callback returns nil) -/
def hostCloseConfirm (w : World) (hid : Nat) : World × Except Err Unit :=
  match w.host.chan hid with
  | some hc =>
    match hc.cpChan.bind w.ctrl.chan with
    | some cc =>
      if hc.state == .opened && cc.state == .closed then
        ({ w with host := { w.host with chans := KV.set w.host.chans hid { hc with state := .closed } } }, .ok ())
      else (w, .error .coreState)
    | none => (w, .error .coreState)
  | none => (w, .error .coreState)

/-- `MsgSendTx`: the message's only signer is `msg.Owner` (proto annotation `cosmos.msg.v1.signer`), so
    `signer` is carried separately only to state that the SDK refuses `signer ≠ owner`.
    Returns the (port, channel) the packet is sent on. -/
def sendTx (w : World) (signer owner conn : String) (timeoutOk dataOk : Bool) : Except Err (String × Nat) :=
  if signer != owner then .error .invalidRequest          -- SDK signature verification (outside ibc-go)
  else if isBlank owner then .error .invalidAddress
  else if !w.ctrl.enabled then .error .disabled
  else
    let port := ctrlPrefix ++ owner
    match w.ctrl.openActive (conn, port) port with
    | none => .error .activeNotFound
    | some cid =>
      if !timeoutOk then .error .invalidTimeout
      else if !dataOk then .error .invalidRequest
      else .ok (port, cid)

inductive Op
  | register (owner conn : String) (version : Option (Option Metadata)) (order : Order)
  | init (order : Order) (conn port cpPort : String) (version : Option (Option Metadata))   -- anybody's MsgChannelOpenInit
  | hostTry (cid : Nat)
  | ctrlAck (cid hid : Nat)
  | hostConfirm (hid : Nat)
  | timeoutClose (cid : Nat)
  | hostCloseConfirm (hid : Nat)
  | hostInit          -- MsgChannelOpenInit on the icahost port: always refused
  | ctrlTry           -- MsgChannelOpenTry on a controller port: always refused
  | closeInit         -- MsgChannelCloseInit on either side: always refused
  | setEnabled (ctrl : Bool) (on : Bool)

def step (w : World) : Op → World × Option Err
  | .register o c v ord => let (w', r) := register w o c v ord; (w', match r with | .ok _ => none | .error e => some e)
  | .init ord c p cp v => let (w', r) := ctrlInit w ord c p cp v; (w', match r with | .ok _ => none | .error e => some e)
  | .hostTry cid => let (w', r) := hostTry w cid; (w', match r with | .ok _ => none | .error e => some e)
  | .ctrlAck cid hid => let (w', r) := ctrlAck w cid hid; (w', match r with | .ok _ => none | .error e => some e)
  | .hostConfirm hid => let (w', r) := hostConfirm w hid; (w', match r with | .ok _ => none | .error e => some e)
  | .timeoutClose cid => let (w', r) := ctrlTimeoutClose w cid; (w', match r with | .ok _ => none | .error e => some e)
  | .hostCloseConfirm hid => let (w', r) := hostCloseConfirm w hid; (w', match r with | .ok _ => none | .error e => some e)
  | .hostInit => (w, some .invalidChannelFlow)
  | .ctrlTry => (w, some .invalidChannelFlow)
  | .closeInit => (w, some .invalidRequest)
  | .setEnabled true on => ({ w with ctrl := { w.ctrl with enabled := on } }, none)
  | .setEnabled false on => ({ w with host := { w.host with enabled := on } }, none)

def run (w : World) (ops : List Op) : World := ops.foldl (fun w op => (step w op).1) w

end IbcVerif.Ica
