/-
  Model of modules/apps/rate-limiting (keeper/flow.go, types/flow.go, types/quota.go, keeper/packet.go,
  keeper/rate_limit.go, keeper/pending_send.go, keeper/abci.go, keeper/epoch.go, keeper/msg_server.go,
  ibc_middleware.go, v2/ibc_middleware.go).

  State is indexed by the *path* (denom, channelOrClientID).  The two pending-packet key sets of the
  keeper are keyed (channelID, denom, sequence); grouping them by path is a bijective re-indexing
  (`removeAllChannelPendingPackets` ranges over exactly one (channelID, denom) prefix).
  A path without entry is the same as a path with no limit and no markers.

  What is a parameter (not ibc-go's own behaviour): the bank supply read by `GetChannelValue`
  (carried by the op), whether the channel/client of `AddRateLimit` exists, the acknowledgement the
  underlying application returns for a receive, the denom/amount parsed out of the packet
  (`ParsePacketInfo`; C42 is about that function).
  `sdkmath.Int` is `Int`; `Quo` truncates toward zero (`Int.tdiv`).
-/
import IbcVerif.Model.RateLimitKV
namespace IbcVerif.RateLimit
open IbcVerif.Apps

inductive Dir | send | recv
deriving DecidableEq, Repr

structure Quota where
  maxSend : Int
  maxRecv : Int
  dur : Nat
deriving DecidableEq, Repr

structure Flow where
  inflow : Int
  outflow : Int
  chanValue : Int
deriving DecidableEq, Repr

structure Limit where
  quota : Quota
  flow : Flow
deriving DecidableEq, Repr

/-- `Quota.CheckExceedsQuota` (types/quota.go) -/
def checkExceedsQuota (q : Quota) (d : Dir) (amount total : Int) : Bool :=
  if total = 0 then false
  else
    let pct := match d with
      | .recv => q.maxRecv
      | .send => q.maxSend
    decide (amount > (total * pct).tdiv 100)

/-- `Flow.AddInflow` (types/flow.go); `none` = ErrQuotaExceeded -/
def Flow.addInflow (f : Flow) (amt : Int) (q : Quota) : Option Flow :=
  if checkExceedsQuota q .recv (f.inflow - f.outflow + amt) f.chanValue then none
  else some { f with inflow := f.inflow + amt }

/-- `Flow.AddOutflow` -/
def Flow.addOutflow (f : Flow) (amt : Int) (q : Quota) : Option Flow :=
  if checkExceedsQuota q .send (f.outflow - f.inflow + amt) f.chanValue then none
  else some { f with outflow := f.outflow + amt }

/-- `RateLimit.UpdateFlow` (types/ratelimit.go) -/
def Limit.updateFlow (l : Limit) (d : Dir) (amt : Int) : Option Limit :=
  match d with
  | .send => (l.flow.addOutflow amt l.quota).map fun f => { l with flow := f }
  | .recv => (l.flow.addInflow amt l.quota).map fun f => { l with flow := f }

/-- everything the keeper stores under one (denom, channelOrClientID) -/
structure PathState where
  limit : Option Limit
  pendSend : List Nat
  pendRecv : List Nat
deriving DecidableEq, Repr

def PathState.empty : PathState := ⟨none, [], []⟩

abbrev Path := String × String   -- (denom, channelOrClientID)

structure State where
  paths : List (Path × PathState)
  blacklist : List String
  whitelist : List (String × String)
  epochNum : Nat
  epochStart : Int     -- unix nanoseconds
  epochDur : Int       -- nanoseconds; 0 = invalid epoch
deriving Repr

def State.init (epochNum : Nat) (epochStart epochDur : Int) : State :=
  ⟨[], [], [], epochNum, epochStart, epochDur⟩

def State.path (s : State) (k : Path) : PathState := (KV.get s.paths k).getD PathState.empty
def State.setPath (s : State) (k : Path) (ps : PathState) : State := { s with paths := KV.set s.paths k ps }

/-- the fields of a packet the rate limiter looks at (`RateLimitedPacketInfo` + sequence) -/
structure Pkt where
  chan : String
  denom : String
  seq : Nat
  amt : Int
  sender : String
  receiver : String
deriving DecidableEq, Repr

def Pkt.path (p : Pkt) : Path := (p.denom, p.chan)

inductive AppAck | success | error | async
deriving DecidableEq, Repr

inductive Res
  | counted        -- flow updated, marker written
  | passed         -- no limit on the path, or whitelisted pair: nothing recorded
  | blacklisted    -- ErrDenomIsBlacklisted
  | quota          -- ErrQuotaExceeded
  | done
  | zeroValue      -- ErrZeroChannelValue
  | exists_        -- ErrRateLimitAlreadyExists
  | noChannel      -- ErrChannelNotFound
  | notFound       -- ErrRateLimitNotFound
deriving DecidableEq, Repr

/-- `CheckRateLimitAndUpdateFlow` (keeper/flow.go): `.error` = returned error, `.ok (s', updated)` -/
def checkAndUpdate (s : State) (d : Dir) (p : Pkt) : Except Res (State × Bool) :=
  if p.denom ∈ s.blacklist then .error .blacklisted
  else
    let ps := s.path p.path
    match ps.limit with
    | none => .ok (s, false)
    | some l =>
      if (p.sender, p.receiver) ∈ s.whitelist then .ok (s, false)
      else match l.updateFlow d p.amt with
        | none => .error .quota
        | some l' => .ok (s.setPath p.path { ps with limit := some l' }, true)

/-- `SendRateLimitedPacketWithSequence` (keeper/packet.go) -/
def sendPacket (s : State) (p : Pkt) : State × Res :=
  match checkAndUpdate s .send p with
  | .error r => (s, r)
  | .ok (s1, true) =>
    let ps := s1.path p.path
    (s1.setPath p.path { ps with pendSend := SetL.insert ps.pendSend p.seq }, .counted)
  | .ok (s1, false) => (s1, .passed)

/-- `IBCMiddleware.OnRecvPacket` (v1 and v2): rate-limit stage, underlying application (its ack is the
    parameter `app`), marker removal when the ack is not async.  Returns the state *inside the cache
    context of the receive*, the rate-limit stage result and the acknowledgement class. -/
def mwRecv (s : State) (p : Pkt) (app : AppAck) : State × Res × AppAck :=
  match checkAndUpdate s .recv p with
  | .error r => (s, r, .error)
  | .ok (s1, updated) =>
    let s2 := if updated then
        let ps := s1.path p.path
        s1.setPath p.path { ps with pendRecv := SetL.insert ps.pendRecv p.seq }
      else s1
    let s3 := if app ≠ .async then
        let ps := s2.path p.path
        s2.setPath p.path { ps with pendRecv := SetL.erase ps.pendRecv p.seq }
      else s2
    (s3, if updated then .counted else .passed, app)

/-- the receive transaction as core runs it (msg_server.go RecvPacket, v2 likewise): the callback
    executes in a cache context that is written only when the ack is not an error ack -/
def recvPacket (s : State) (p : Pkt) (app : AppAck) : State × Res × AppAck :=
  let (s', r, a) := mwRecv s p app
  (if a = .error then s else s', r, a)

def clamp0 (x : Int) : Int := if x < 0 then 0 else x

/-- `UndoSendPacket` (keeper/flow.go) -/
def undoSend (s : State) (p : Pkt) : State :=
  let ps := s.path p.path
  match ps.limit with
  | none => s.setPath p.path { ps with pendSend := SetL.erase ps.pendSend p.seq }
  | some l =>
    if p.seq ∈ ps.pendSend then
      s.setPath p.path { ps with
        limit := some { l with flow := { l.flow with outflow := clamp0 (l.flow.outflow - p.amt) } },
        pendSend := SetL.erase ps.pendSend p.seq }
    else s

/-- `AcknowledgeRateLimitedPacket` -/
def ackPacket (s : State) (p : Pkt) (success : Bool) : State :=
  if success then
    let ps := s.path p.path
    s.setPath p.path { ps with pendSend := SetL.erase ps.pendSend p.seq }
  else undoSend s p

/-- `TimeoutRateLimitedPacket` -/
def timeoutPacket (s : State) (p : Pkt) : State := undoSend s p

/-- `UndoReceivePacket` (keeper/packet.go) -/
def undoRecv (s : State) (p : Pkt) : State :=
  let ps := s.path p.path
  match ps.limit with
  | none => s.setPath p.path { ps with pendRecv := SetL.erase ps.pendRecv p.seq }
  | some l =>
    if p.seq ∈ ps.pendRecv then
      s.setPath p.path { ps with
        limit := some { l with flow := { l.flow with inflow := clamp0 (l.flow.inflow - p.amt) } },
        pendRecv := SetL.erase ps.pendRecv p.seq }
    else s

/-- `IBCMiddleware.WriteAcknowledgement` (async acknowledgement written later, e.g. by PFM) -/
def writeAck (s : State) (p : Pkt) (success : Bool) : State :=
  if success then
    let ps := s.path p.path
    s.setPath p.path { ps with pendRecv := SetL.erase ps.pendRecv p.seq }
  else undoRecv s p

/-- `Keeper.AddRateLimit` -/
def addLimit (s : State) (k : Path) (q : Quota) (supply : Int) (chanExists : Bool) : State × Res :=
  if supply = 0 then (s, .zeroValue)
  else
    let ps := s.path k
    if ps.limit.isSome then (s, .exists_)
    else if !chanExists then (s, .noChannel)
    else (s.setPath k { ps with limit := some ⟨q, ⟨0, 0, supply⟩⟩ }, .done)

/-- `Keeper.UpdateRateLimit`: new quota, flow zeroed, both pending sets of the path cleared
    (since fix 05cc95a; before it the markers survived — DESIGN §6 F4) -/
def updateLimit (s : State) (k : Path) (q : Quota) (supply : Int) : State × Res :=
  let ps := s.path k
  if ps.limit.isNone then (s, .notFound)
  else (s.setPath k ⟨some ⟨q, ⟨0, 0, supply⟩⟩, [], []⟩, .done)

/-- `msgServer.RemoveRateLimit`: deletes the limit and both pending sets of the path (fix 05cc95a) -/
def removeLimit (s : State) (k : Path) : State × Res :=
  let ps := s.path k
  if ps.limit.isNone then (s, .notFound)
  else (s.setPath k PathState.empty, .done)

/-- `Keeper.ResetRateLimit` on one path's state -/
def PathState.reset (ps : PathState) (supply : Int) : PathState :=
  match ps.limit with
  | none => ps
  | some l => ⟨some { l with flow := ⟨0, 0, supply⟩ }, [], []⟩

def resetLimit (s : State) (k : Path) (supply : Int) : State × Res :=
  let ps := s.path k
  if ps.limit.isNone then (s, .notFound)
  else (s.setPath k (ps.reset supply), .done)

def supplyOf (sup : List (String × Int)) (denom : String) : Int := (KV.get sup denom).getD 0

/-- does `BeginBlocker` reset this path in epoch `n`? -/
def PathState.dueAt (ps : PathState) (n : Nat) : Bool :=
  match ps.limit with
  | none => false
  | some l => l.quota.dur != 0 && n % l.quota.dur == 0

/-- `Keeper.BeginBlocker` + `CheckHourEpochStarting`: `time` is the block time (unix ns), `sup` the bank
    supply per denom at that moment -/
def beginBlock (s : State) (time : Int) (sup : List (String × Int)) : State × Bool :=
  if s.epochDur = 0 then (s, false)
  else
    let endT := s.epochStart + s.epochDur
    if time > endT then
      let n := s.epochNum + 1
      ({ s with
          epochNum := n, epochStart := endT,
          paths := KV.mapVals (fun k ps => if ps.dueAt n then ps.reset (supplyOf sup k.1) else ps) s.paths },
       true)
    else (s, false)

inductive Op
  | send (p : Pkt)
  | recv (p : Pkt) (app : AppAck)
  | ack (p : Pkt) (success : Bool)
  | timeout (p : Pkt)
  | writeAck (p : Pkt) (success : Bool)
  | beginBlock (time : Int) (sup : List (String × Int))
  | add (k : Path) (q : Quota) (supply : Int) (chanExists : Bool)
  | update (k : Path) (q : Quota) (supply : Int)
  | remove (k : Path)
  | reset (k : Path) (supply : Int)
  | setBlacklist (denom : String) (on : Bool)
  | setWhitelist (sender receiver : String) (on : Bool)
deriving Repr

def step (s : State) : Op → State × Res
  | .send p => sendPacket s p
  | .recv p app => let (s', r, _) := recvPacket s p app; (s', r)
  | .ack p ok => (ackPacket s p ok, .done)
  | .timeout p => (timeoutPacket s p, .done)
  | .writeAck p ok => (writeAck s p ok, .done)
  | .beginBlock t sup => ((beginBlock s t sup).1, .done)
  | .add k q v e => addLimit s k q v e
  | .update k q v => updateLimit s k q v
  | .remove k => removeLimit s k
  | .reset k v => resetLimit s k v
  | .setBlacklist d on =>
    ({ s with blacklist := if on then SetL.insert s.blacklist d else SetL.erase s.blacklist d }, .done)
  | .setWhitelist a b on =>
    ({ s with whitelist := if on then SetL.insert s.whitelist (a, b) else SetL.erase s.whitelist (a, b) }, .done)

def run (s : State) (ops : List Op) : State := ops.foldl (fun st op => (step st op).1) s

end IbcVerif.RateLimit
