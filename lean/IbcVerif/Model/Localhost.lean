/-
  Model of modules/light-clients/09-localhost/light_client_module.go and of the 02-client keeper entry
  points (modules/core/02-client/keeper/client.go, keeper.go: Route / VerifyMembership) as far as they
  concern a client identifier that routes to the 09-localhost module ("09-localhost" itself and
  "09-localhost-N", which `ParseClientIdentifier` also maps to the type "09-localhost").

  The chain's own IBC store is a finite map `KV`; every other IBC handler writing that store is the
  environment (`Op.envSet` / `Op.envDelete`), as is governance changing the allowed-clients parameter.
-/
import IbcVerif.Model.WasmStore
namespace IbcVerif.Localhost
open IbcVerif.WasmStore (Bytes KV)

/-- `SentinelProof = []byte{0x01}` -/
def sentinelProof : Bytes := [1]

inductive Err where
  | invalidProof            -- commitmenttypes.ErrInvalidProof
  | invalidType             -- ibcerrors.ErrInvalidType
  | invalidPath             -- host.ErrInvalidPath
  | failedMembership        -- clienttypes.ErrFailedMembershipVerification
  | failedNonMembership     -- clienttypes.ErrFailedNonMembershipVerification
  | clientExists            -- clienttypes.ErrClientExists
  | updateClientFailed      -- clienttypes.ErrUpdateClientFailed
  | invalidUpgradeClient    -- clienttypes.ErrInvalidUpgradeClient
  | invalidClientType       -- clienttypes.ErrInvalidClientType
  | invalidRecoveryClient   -- clienttypes.ErrInvalidRecoveryClient
  | routeNotFound           -- clienttypes.ErrRouteNotFound
  | clientNotActive         -- clienttypes.ErrClientNotActive
  | invalidHeight           -- ibcerrors.ErrInvalidHeight (proof height above the chain's own height)
  | storePanic              -- not an error value: the SDK store panics on an empty key (`AssertValidKey`)
deriving DecidableEq, Repr

/-- an `exported.Path`: `none` is any value that is not a `commitmenttypesv2.MerklePath`,
`some keyPath` is `MerklePath{KeyPath: keyPath}` -/
abbrev Path := Option (List Bytes)

/-- a height: (revision number, revision height) -/
abbrev Ht := Nat × Nat

/-- `Height.GT`: revision number first, then revision height (C17 `compare_spec`) -/
def heightGT (a b : Ht) : Bool := decide (a.1 > b.1) || (a.1 == b.1 && decide (a.2 > b.2))

/-- `LightClientModule.VerifyMembership` (clientID and both delay periods are ignored by the code);
`self` is `clienttypes.GetSelfHeight(ctx)` -/
def verifyMembership (store : KV) (height self : Ht) (proof : Bytes) (path : Path) (value : Bytes) :
    Except Err Unit :=
  if heightGT height self then .error .invalidHeight
  else if proof != sentinelProof then .error .invalidProof
  else match path with
    | none => .error .invalidType
    | some kp =>
      if kp.length != 2 then .error .invalidPath
      else if (kp.getD 1 []).isEmpty then .error .storePanic   -- ibcStore.Get(empty key) panics
      else match store.get (kp.getD 1 []) with      -- ibcStore.Get(merklePath.KeyPath[1])
        | none => .error .failedMembership           -- bz == nil
        | some bz => if bz != value then .error .failedMembership else .ok ()

/-- `LightClientModule.VerifyNonMembership` -/
def verifyNonMembership (store : KV) (height self : Ht) (proof : Bytes) (path : Path) : Except Err Unit :=
  if heightGT height self then .error .invalidHeight
  else if proof != sentinelProof then .error .invalidProof
  else match path with
    | none => .error .invalidType
    | some kp =>
      if kp.length != 2 then .error .invalidPath
      else if (kp.getD 1 []).isEmpty then .error .storePanic   -- ibcStore.Has(empty key) panics
      else if store.has (kp.getD 1 []) then .error .failedNonMembership   -- ibcStore.Has(KeyPath[1])
      else .ok ()

/-- the stateless module's remaining methods -/
def initClient : Except Err Unit := .error .clientExists
def verifyClientMessage : Except Err Unit := .error .updateClientFailed
def checkForMisbehaviour : Bool := false
def recoverClient : Except Err Unit := .error .updateClientFailed
def verifyUpgradeAndUpdateState : Except Err Unit := .error .invalidUpgradeClient
/-- `Status` is always Active -/
def statusActive : Bool := true

structure State where
  /-- the chain's IBC store -/
  store : KV
  /-- does the allowed-clients parameter admit the type "09-localhost" (default `["*"]`: yes) -/
  allowed : Bool
deriving Repr, DecidableEq

/-- `Keeper.Route` for a client id of type 09-localhost: the route itself is registered by `NewKeeper`. -/
def route (s : State) : Except Err Unit :=
  if !s.allowed then .error .invalidClientType else .ok ()

inductive Op where
  -- the light client module called directly
  | verifyMembership (height self : Ht) (proof : Bytes) (path : Path) (value : Bytes)
  | verifyNonMembership (height self : Ht) (proof : Bytes) (path : Path)
  | initClient | verifyClientMessage | checkForMisbehaviour | updateStateOnMisbehaviour | updateState
  | recoverClient | verifyUpgrade
  -- through the 02-client keeper, client id "09-localhost" / "09-localhost-N"
  | kVerifyMembership (height self : Ht) (proof : Bytes) (path : Path) (value : Bytes)
  | kVerifyNonMembership (height self : Ht) (proof : Bytes) (path : Path)
  | kCreate            -- Keeper.CreateClient(ctx, "09-localhost", …)
  | kUpdate            -- Keeper.UpdateClient(ctx, id, msg)
  | kUpgrade           -- Keeper.UpgradeClient(ctx, id, …)
  | kRecover           -- Keeper.RecoverClient(ctx, subject = id, substitute)
  -- environment
  | envSet (k v : Bytes) | envDelete (k : Bytes) | envSetAllowed (b : Bool)
deriving Repr

inductive Res where
  | ok | err (e : Err) | bool (b : Bool)
deriving DecidableEq, Repr

def resOf : Except Err Unit → Res
  | .ok () => .ok
  | .error e => .err e

def step (s : State) : Op → State × Res
  | .verifyMembership h sh p path v => (s, resOf (verifyMembership s.store h sh p path v))
  | .verifyNonMembership h sh p path => (s, resOf (verifyNonMembership s.store h sh p path))
  | .initClient => (s, resOf initClient)
  | .verifyClientMessage => (s, resOf verifyClientMessage)
  | .checkForMisbehaviour => (s, .bool checkForMisbehaviour)
  | .updateStateOnMisbehaviour => (s, .ok)     -- no-op
  | .updateState => (s, .ok)                   -- no-op, returns [self height]
  | .recoverClient => (s, resOf recoverClient)
  | .verifyUpgrade => (s, resOf verifyUpgradeAndUpdateState)
  | .kVerifyMembership h sh p path v =>
    match route s with
    | .error e => (s, .err e)
    | .ok () =>
      if !statusActive then (s, .err .clientNotActive)
      else (s, resOf (verifyMembership s.store h sh p path v))
  | .kVerifyNonMembership h sh p path =>
    match route s with
    | .error e => (s, .err e)
    | .ok () =>
      if !statusActive then (s, .err .clientNotActive)
      else (s, resOf (verifyNonMembership s.store h sh p path))
  | .kCreate => (s, .err .invalidClientType)   -- rejected before GenerateClientIdentifier / Route
  | .kUpdate =>
    match route s with
    | .error e => (s, .err e)
    | .ok () =>
      if !statusActive then (s, .err .clientNotActive)
      else match verifyClientMessage with
        | .error e => (s, .err e)
        | .ok () => (s, .ok)   -- (CheckForMisbehaviour / UpdateState: never reached)
  | .kUpgrade =>
    match route s with
    | .error e => (s, .err e)
    | .ok () =>
      if !statusActive then (s, .err .clientNotActive)
      else match verifyUpgradeAndUpdateState with
        | .error e => (s, .err e)
        | .ok () => (s, .ok)
  | .kRecover =>
    match route s with
    | .error _ => (s, .err .routeNotFound)      -- RecoverClient re-wraps any route error
    | .ok () =>
      if statusActive then (s, .err .invalidRecoveryClient)
      else match recoverClient with
        | .error e => (s, .err e)
        | .ok () => (s, .ok)
  | .envSet k v => ({ s with store := s.store.set k v }, .ok)
  | .envDelete k => ({ s with store := s.store.delete k }, .ok)
  | .envSetAllowed b => ({ s with allowed := b }, .ok)

def Op.isEnv : Op → Bool
  | .envSet _ _ | .envDelete _ | .envSetAllowed _ => true
  | _ => false

def run (s : State) : List Op → State × List Res
  | [] => (s, [])
  | op :: ops =>
    let r := step s op
    let rest := run r.1 ops
    (rest.1, r.2 :: rest.2)

end IbcVerif.Localhost
