/-
  L4 "Relay": the packet-receive and acknowledgement handlers of IBC v1 and v2 as functions of the
  *facts* they read, in the order the code reads them.

    v1  baseapp runTx            : msg.ValidateBasic (04-channel/types/msgs.go, packet.go), ante signature check
        core/keeper/msg_server.go: RecvPacket / Acknowledgement  (route lookup, cached TAO call, NOOP mapping)
        04-channel/keeper/packet.go : RecvPacket + applyReplayProtection / AcknowledgePacket
        03-connection/keeper/verify.go : VerifyPacketCommitment / VerifyPacketAcknowledgement (key + delay)
        02-client/keeper/keeper.go : VerifyMembership (status gate)
        07-tendermint/client_state.go : verifyMembership (latest height, delay, unmarshal, consensus state, ICS-23)
    v2  04-channel/v2/types/{msgs,packet,acknowledgement}.go : ValidateBasic
        04-channel/v2/keeper/msg_server.go : RecvPacket / Acknowledgement (relayer allow-list, NOOP mapping)
        04-channel/v2/keeper/packet.go : recvPacket / acknowledgePacket

  The proof is not an opaque bit.  The harness reports *ground truth it controls*: which store key of the
  counterparty the submitted proof bytes were built for (`readKey`), at which height (`builtAt`), whether
  it corrupted the bytes (`intact`), and what the counterparty's store really holds under that key at
  that height (`provenValue`, read directly from the height-pinned store, not through the proof).  The
  model computes the key the handler derives from the message (Keys.v1Key / v2Key), the merkle path it
  builds from it (v1: [connection.Counterparty.Prefix, key]; v2: the key appended to the last element of
  the registered counterparty MerklePrefix) and the value it derives from the message (Commit.commitV1 /
  commitV2 / commitAck* over the hash `H`, SHA-256 in the driver) and *defines* "the proof verifies" as:
  intact ∧ built for the message's proof height ∧ [store, readKey] = derived path ∧
  provenValue = some derived value   (`ProofFacts.proves`).
  If the code verified under another key, another prefix, or another value, the two streams differ.

  Not modelled (the harness keeps them fixed): application callbacks fail or acknowledge asynchronously
  (the receive transaction then also depends on WriteAcknowledgement), v2 aliases, payloads above
  MaximumPayloadsSize in total.
-/
import IbcVerif.Model.Height
import IbcVerif.Model.Commit
import IbcVerif.Model.Keys
import IbcVerif.Model.Delay
namespace IbcVerif.Relay
open IbcVerif

/-- error classes (derived in the harness from the ABCI (codespace, code) of the failed transaction) -/
inductive Err
  | emptyProof        -- commitment.ErrInvalidProof from ValidateBasic ("cannot submit an empty … proof")
  | badSigner         -- ibcerrors.ErrInvalidAddress
  | invalidId         -- host.ErrInvalidID
  | invalidPacket     -- channel.ErrInvalidPacket (v1) / channelv2.ErrInvalidPacket (v2)
  | invalidPayload    -- channelv2.ErrInvalidPayload
  | invalidAck        -- channel(v2).ErrInvalidAcknowledgement
  | signature         -- SDK ante handler: the transaction is not signed by msg.Signer
  | route             -- port.ErrInvalidRoute
  | unauthorized      -- ibcerrors.ErrUnauthorized (v2 relayer allow-list)
  | chanNotFound | chanState | connNotFound | connState
  | timeout           -- channel(v2).ErrTimeoutElapsed
  | clientNotActive   -- client.ErrClientNotActive
  | invalidHeight     -- ibcerrors.ErrInvalidHeight (proof height above the client's latest height)
  | delay             -- 07-tendermint ErrDelayPeriodNotPassed / ErrProcessedTimeNotFound / ErrProcessedHeightNotFound
  | consNotFound      -- client.ErrConsensusStateNotFound
  | proof             -- codespace "commitment": unmarshal failure or ICS-23 verification failure
  | packetReceived    -- channel.ErrPacketReceived (sequence below recvStartSequence)
  | outOfOrder        -- channel.ErrPacketSequenceOutOfOrder
  | seqNotFound       -- channel.ErrSequenceReceiveNotFound / ErrSequenceAckNotFound
  | ordering          -- channel.ErrInvalidChannelOrdering
  | cpNotFound        -- clientv2.ErrCounterpartyNotFound
  | cpMismatch        -- clientv2.ErrInvalidCounterparty
deriving DecidableEq, Repr

/-- result of one transaction carrying one packet message:
    `ok` = handled with state change (SUCCESS), `noop` = accepted without state change (NOOP), `err` = failed -/
inductive Verdict
  | ok | noop | err (e : Err)
deriving DecidableEq, Repr

/-! ### sequential guards (each mirrors one `if … { return err }` of the code) -/

/-- `if !c { return e }; k` -/
def check (c : Bool) (e : Err) (k : Verdict) : Verdict := if c then k else .err e

/-- `x, found := …; if !found { return e }; k x` -/
def need {α : Type} (o : Option α) (e : Err) (k : α → Verdict) : Verdict :=
  match o with
  | some a => k a
  | none => .err e

/-- `if err := sub(); err != nil { return err }; k` -/
def pass (o : Option Err) (k : Verdict) : Verdict :=
  match o with
  | none => k
  | some e => .err e

/-! ### identifiers and stateless validation -/

def STATE_OPEN : Nat := 3
def ORDER_UNORDERED : Nat := 1
def ORDER_ORDERED : Nat := 2

/-- `MaximumPayloadsSize` (04-channel/types/packet.go) -/
def maxPayloadsSize : Nat := 262144

def portOK (id : Bytes) : Bool := Keys.validId id 2 Gen.defaultMaxPortCharacterLength
/-- `ChannelIdentifierValidator`; v2 packets validate their *client* identifiers with it as well -/
def chanOK (id : Bytes) : Bool := Keys.validId id 8 Gen.defaultMaxCharacterLength

/-- `strings.TrimSpace(s) == ""` on ASCII input -/
def isBlank (s : Bytes) : Bool := s.all fun b => b == 32 || (9 ≤ b && b ≤ 13)

/-! ### v1 packet -/

structure PktV1 where
  seq : UInt64
  srcPort : Bytes
  srcChan : Bytes
  dstPort : Bytes
  dstChan : Bytes
  data : Bytes
  timeout : Timeout
deriving DecidableEq, Repr

/-- the fields `CommitPacket` hashes -/
def PktV1.committed (p : PktV1) : Commit.PacketV1 :=
  { timeoutTs := p.timeout.ts.toNat, revNumber := p.timeout.height.rev.toNat, revHeight := p.timeout.height.h.toNat, data := p.data }

/-- `Packet.ValidateBasic` (v1), first failing guard -/
def PktV1.basic (p : PktV1) : Option Err :=
  if !portOK p.srcPort then some .invalidId
  else if !portOK p.dstPort then some .invalidId
  else if !chanOK p.srcChan then some .invalidId
  else if !chanOK p.dstChan then some .invalidId
  else if p.seq == 0 then some .invalidPacket
  else if !p.timeout.isValid then some .invalidPacket
  else if p.data.isEmpty then some .invalidPacket
  else if p.data.length > maxPayloadsSize then some .invalidPacket
  else none

/-! ### execution context, channel / connection ends, client and proof facts -/

structure Env where
  signerOK : Bool        -- msg.Signer parses as a bech32 account address
  sigOK : Bool           -- the transaction is signed by msg.Signer (SDK ante handler)
  self : Height          -- clienttypes.GetSelfHeight(ctx)
  nowNs : Nat            -- uint64(ctx.BlockTime().UnixNano())
deriving Repr

structure ChanEnd where
  state : Nat
  ordering : Nat
  cpPort : Bytes
  cpChan : Bytes
deriving Repr

structure ConnEnd where
  state : Nat
  delay : Nat            -- connection.DelayPeriod (ns)
  cpPrefix : Bytes       -- connection.Counterparty.Prefix.KeyPrefix (the counterparty's store name)
deriving Repr

/-- what the 02-client keeper and the 07-tendermint client read about the client and the proof height -/
structure ClientFacts where
  active : Bool                    -- clientModule.Status(ctx, clientID) == Active
  latest : Height                  -- clientState.LatestHeight
  procTime : Option Nat            -- GetProcessedTime(store, proofHeight)
  procHeight : Option Height       -- GetProcessedHeight(store, proofHeight)
  decodes : Bool                   -- the proof bytes unmarshal into a MerkleProof
  consFound : Bool                 -- a consensus state is stored for the proof height
deriving Repr

/-- ground truth about the submitted proof (supplied by the harness, see the header) -/
structure ProofFacts where
  height : Height                  -- msg.ProofHeight
  builtAt : Height                 -- the proof height the submitted bytes were queried for
  intact : Bool                    -- bytes not corrupted after the query
  store : Bytes                    -- name of the counterparty's store the bytes were queried from ("ibc")
  readKey : Bytes                  -- key inside that store the bytes were queried for
  provenValue : Option Bytes       -- store content under readKey at builtAt (state after block builtAt−1)
deriving Repr

/-- "the ICS-23 membership proof verifies for (merkle path, value) at the message's proof height":
    the path the handler built must be exactly [store name, key] the proof was queried for -/
def ProofFacts.proves (p : ProofFacts) (path : List Bytes) (value : Bytes) : Bool :=
  p.intact && decide (p.builtAt = p.height) && decide ([p.store, p.readKey] = path) && decide (p.provenValue = some value)

/-- v1 `ApplyPrefix(connection.Counterparty.Prefix, NewMerklePath(key))` -/
def pathV1 (cpPrefix key : Bytes) : List Bytes := [cpPrefix, key]

/-- v2 `BuildMerklePath(counterparty.MerklePrefix, key)`: the key is appended to the *last* prefix element
    (an empty prefix panics in the code and is rejected at registration; it never occurs) -/
def pathV2 (pre : List Bytes) (key : Bytes) : List Bytes :=
  match pre.getLast? with
  | some l => pre.dropLast ++ [l ++ key]
  | none => [key]

/-- 02-client `VerifyMembership` (status gate) followed by 07-tendermint `verifyMembership`
    (latest-height gate, delay periods, unmarshal, consensus state, ICS-23).  `none` = verified. -/
def verifyMembership (env : Env) (c : ClientFacts) (p : ProofFacts) (dt db : Nat) (path : List Bytes) (value : Bytes) : Option Err :=
  if !c.active then some .clientNotActive
  else if c.latest.lt p.height then some .invalidHeight
  else if Delay.verifyDelayPeriodPassed env.nowNs env.self c.procTime c.procHeight dt db != .ok then some .delay
  else if !c.decodes then some .proof
  else if !c.consFound then some .consNotFound
  else if !p.proves path value then some .proof
  else none

/-- 03-connection `VerifyPacketCommitment` / `VerifyPacketAcknowledgement`: block delay from the time
    delay, `ApplyPrefix` (an empty prefix is ErrInvalidPrefix, codespace commitment), then the client keeper -/
def verifyV1 (env : Env) (c : ClientFacts) (p : ProofFacts) (cn : ConnEnd) (maxTimePerBlock : Nat) (key value : Bytes) : Option Err :=
  if cn.cpPrefix.isEmpty then some .proof
  else verifyMembership env c p cn.delay (Delay.getBlockDelay cn.delay maxTimePerBlock) (pathV1 cn.cpPrefix key) value

/-! ### v1 receive -/

structure RecvV1 where
  pkt : PktV1
  proofEmpty : Bool                -- len(msg.ProofCommitment) == 0
  env : Env
  route : Bool                     -- PortKeeper.Route(packet.DestinationPort) found
  chan : Option ChanEnd            -- GetChannel(destPort, destChannel)
  conn : Option ConnEnd            -- GetConnection(channel.ConnectionHops[0])
  client : ClientFacts             -- of connection.ClientId, at msg.ProofHeight
  proof : ProofFacts
  maxTimePerBlock : Nat            -- connection params MaxExpectedTimePerBlock
  recvStart : Nat                  -- GetRecvStartSequence (0 when absent)
  receipt : Bool                   -- GetPacketReceipt(destPort, destChannel, seq) found
  nextRecv : Option Nat            -- GetNextSequenceRecv(destPort, destChannel)
deriving Repr

/-- the key `VerifyPacketCommitment` builds: PacketCommitmentKey(sourcePort, sourceChannel, sequence) -/
def RecvV1.key (f : RecvV1) : Bytes := Keys.v1Key .commitment f.pkt.srcPort f.pkt.srcChan f.pkt.seq.toNat

/-- `applyReplayProtection` -/
def replayV1 (f : RecvV1) (ch : ChanEnd) : Verdict :=
  check (!decide (f.pkt.seq.toNat < f.recvStart)) .packetReceived <|
  if ch.ordering = ORDER_UNORDERED then
    (if f.receipt then .noop else .ok)
  else if ch.ordering = ORDER_ORDERED then
    need f.nextRecv .seqNotFound fun n =>
      if f.pkt.seq.toNat < n then .noop
      else check (decide (f.pkt.seq.toNat = n)) .outOfOrder .ok
  else .err .ordering

/-- a MsgRecvPacket transaction -/
def recvV1 (H : Bytes → Bytes) (f : RecvV1) : Verdict :=
  -- MsgRecvPacket.ValidateBasic
  check (!f.proofEmpty) .emptyProof <|
  check f.env.signerOK .badSigner <|
  pass f.pkt.basic <|
  -- ante handler
  check f.env.sigOK .signature <|
  -- msg_server.RecvPacket
  check f.route .route <|
  -- ChannelKeeper.RecvPacket
  need f.chan .chanNotFound fun ch =>
  check (decide (ch.state = STATE_OPEN)) .chanState <|
  check (decide (f.pkt.srcPort = ch.cpPort)) .invalidPacket <|
  check (decide (f.pkt.srcChan = ch.cpChan)) .invalidPacket <|
  need f.conn .connNotFound fun cn =>
  check (decide (cn.state = STATE_OPEN)) .connState <|
  check (!f.pkt.timeout.elapsed f.env.self (UInt64.ofNat f.env.nowNs)) .timeout <|
  pass (verifyV1 f.env f.client f.proof cn f.maxTimePerBlock f.key (Commit.commitV1 H f.pkt.committed)) <|
  replayV1 f ch

/-! ### v1 acknowledgement -/

structure AckV1 where
  pkt : PktV1
  ack : Bytes                      -- msg.Acknowledgement
  proofEmpty : Bool
  env : Env
  route : Bool                     -- PortKeeper.Route(packet.SourcePort) found
  chan : Option ChanEnd            -- GetChannel(sourcePort, sourceChannel)
  conn : Option ConnEnd
  commitment : Bytes               -- GetPacketCommitment(sourcePort, sourceChannel, seq) (empty when absent)
  ackCanonical : Bool              -- ¬(the bytes parse as a channel Acknowledgement whose canonical JSON differs)
  client : ClientFacts
  proof : ProofFacts
  maxTimePerBlock : Nat
  nextAck : Option Nat             -- GetNextSequenceAck(sourcePort, sourceChannel)
deriving Repr

/-- the key `VerifyPacketAcknowledgement` builds: PacketAcknowledgementKey(destPort, destChannel, sequence) -/
def AckV1.key (f : AckV1) : Bytes := Keys.v1Key .ack f.pkt.dstPort f.pkt.dstChan f.pkt.seq.toNat

/-- a MsgAcknowledgement transaction -/
def ackV1 (H : Bytes → Bytes) (f : AckV1) : Verdict :=
  -- MsgAcknowledgement.ValidateBasic
  check (!f.proofEmpty) .emptyProof <|
  check (!f.ack.isEmpty) .invalidAck <|
  check f.env.signerOK .badSigner <|
  pass f.pkt.basic <|
  check f.env.sigOK .signature <|
  -- msg_server.Acknowledgement
  check f.route .route <|
  -- ChannelKeeper.AcknowledgePacket
  need f.chan .chanNotFound fun ch =>
  check (decide (ch.state = STATE_OPEN)) .chanState <|
  check (decide (f.pkt.dstPort = ch.cpPort)) .invalidPacket <|
  check (decide (f.pkt.dstChan = ch.cpChan)) .invalidPacket <|
  need f.conn .connNotFound fun cn =>
  check (decide (cn.state = STATE_OPEN)) .connState <|
  -- no commitment: already acknowledged / timed out / never sent.  NOOP *before* any proof is looked at
  if f.commitment.isEmpty then .noop else
  check f.ackCanonical .invalidAck <|
  check (decide (f.commitment = Commit.commitV1 H f.pkt.committed)) .invalidPacket <|
  pass (verifyV1 f.env f.client f.proof cn f.maxTimePerBlock f.key (Commit.commitAckV1 H f.ack)) <|
  if ch.ordering = ORDER_ORDERED then
    need f.nextAck .seqNotFound fun n =>
      check (decide (f.pkt.seq.toNat = n)) .outOfOrder .ok
  else .ok

/-! ### v2 packet -/

structure PktV2 where
  seq : UInt64
  srcClient : Bytes
  dstClient : Bytes
  timeout : UInt64               -- seconds
  payloads : List Commit.Payload
deriving DecidableEq, Repr

def PktV2.committed (p : PktV2) : Commit.PacketV2 :=
  { destClient := p.dstClient, timeoutTs := p.timeout.toNat, payloads := p.payloads }

/-- `Payload.ValidateBasic` -/
def payloadBasic (d : Commit.Payload) : Option Err :=
  if !portOK d.sourcePort then some .invalidId
  else if !portOK d.destPort then some .invalidId
  else if isBlank d.version then some .invalidPayload
  else if isBlank d.encoding then some .invalidPayload
  else if d.value.isEmpty then some .invalidPayload
  else none

def firstErr : List (Option Err) → Option Err
  | [] => none
  | some e :: _ => some e
  | none :: r => firstErr r

/-- `Packet.ValidateBasic` (v2) -/
def PktV2.basic (p : PktV2) : Option Err :=
  if p.payloads.isEmpty then some .invalidPayload
  else match firstErr (p.payloads.map payloadBasic) with
  | some e => some e
  | none =>
    if (p.payloads.map fun d => d.value.length).sum > maxPayloadsSize then some .invalidPayload
    else if !chanOK p.srcClient then some .invalidId
    else if !chanOK p.dstClient then some .invalidId
    else if p.seq == 0 then some .invalidPacket
    else if p.timeout == 0 then some .invalidPacket
    else none

/-- `ErrorAcknowledgement`: sha256("UNIVERSAL_ERROR_ACKNOWLEDGEMENT") (04-channel/v2/types/acknowledgement.go) -/
def errorAckPreimage : Bytes := strBytes "UNIVERSAL_ERROR_ACKNOWLEDGEMENT".toList

/-- `Acknowledgement.Validate` (v2) -/
def ackV2Valid (H : Bytes → Bytes) (acks : List Bytes) : Bool :=
  !acks.isEmpty && acks.all (fun a => !a.isEmpty) &&
  (acks.length ≤ 1 || acks.all fun a => a != H errorAckPreimage)

structure CpV2 where
  clientId : Bytes               -- counterparty.ClientId
  pre : List Bytes               -- counterparty.MerklePrefix
deriving Repr

/-! ### v2 receive -/

structure RecvV2 where
  pkt : PktV2
  proofEmpty : Bool
  env : Env
  relayerAllowed : Bool          -- config(packet.DestinationClient).IsAllowedRelayer(signer)
  cp : Option CpV2               -- GetClientCounterparty(packet.DestinationClient)
  receipt : Bool                 -- HasPacketReceipt(destClient, seq)
  client : ClientFacts           -- of the (alias-resolved) destination client, at msg.ProofHeight
  proof : ProofFacts
deriving Repr

/-- hostv2.PacketCommitmentKey(packet.SourceClient, packet.Sequence) -/
def RecvV2.key (f : RecvV2) : Bytes := Keys.v2Key .commitment f.pkt.srcClient f.pkt.seq.toNat

/-- `uint64(ctx.BlockTime().Unix())` -/
def nowSecs (env : Env) : Nat := env.nowNs / 1000000000

/-- a v2 MsgRecvPacket transaction -/
def recvV2 (H : Bytes → Bytes) (f : RecvV2) : Verdict :=
  check (!f.proofEmpty) .emptyProof <|
  check f.env.signerOK .badSigner <|
  pass f.pkt.basic <|
  check f.env.sigOK .signature <|
  -- msg_server.RecvPacket
  check f.relayerAllowed .unauthorized <|
  -- recvPacket
  need f.cp .cpNotFound fun cp =>
  check (decide (cp.clientId = f.pkt.srcClient)) .cpMismatch <|
  check (decide (nowSecs f.env < f.pkt.timeout.toNat)) .timeout <|
  -- already received: NOOP *before* any proof is looked at
  if f.receipt then .noop else
  pass (verifyMembership f.env f.client f.proof 0 0 (pathV2 cp.pre f.key) (Commit.commitV2 H f.pkt.committed)) <|
  .ok

/-! ### v2 acknowledgement -/

structure AckV2 where
  pkt : PktV2
  acks : List Bytes              -- msg.Acknowledgement.AppAcknowledgements
  proofEmpty : Bool
  env : Env
  relayerAllowed : Bool          -- config(packet.SourceClient).IsAllowedRelayer(signer)
  cp : Option CpV2               -- GetClientCounterparty(packet.SourceClient)
  commitment : Bytes             -- GetPacketCommitment(sourceClient, seq)
  client : ClientFacts
  proof : ProofFacts
deriving Repr

/-- hostv2.PacketAcknowledgementKey(packet.DestinationClient, packet.Sequence) -/
def AckV2.key (f : AckV2) : Bytes := Keys.v2Key .ack f.pkt.dstClient f.pkt.seq.toNat

/-- a v2 MsgAcknowledgement transaction -/
def ackV2 (H : Bytes → Bytes) (f : AckV2) : Verdict :=
  check (!f.proofEmpty) .emptyProof <|
  check (ackV2Valid H f.acks) .invalidAck <|
  check f.env.signerOK .badSigner <|
  pass f.pkt.basic <|
  check f.env.sigOK .signature <|
  check f.relayerAllowed .unauthorized <|
  need f.cp .cpNotFound fun cp =>
  check (decide (cp.clientId = f.pkt.dstClient)) .cpMismatch <|
  if f.commitment.isEmpty then .noop else
  check (decide (f.commitment = Commit.commitV2 H f.pkt.committed)) .invalidPacket <|
  pass (verifyMembership f.env f.client f.proof 0 0 (pathV2 cp.pre f.key) (Commit.commitAckV2 H f.acks)) <|
  .ok

end IbcVerif.Relay
