/-
  Packet delay periods.
    modules/core/03-connection/keeper/verify.go            getBlockDelay
    modules/light-clients/07-tendermint/client_state.go    verifyDelayPeriodPassed
  All quantities are uint64 in the code; the model uses `Nat` with explicit `% 2^64` where the
  code's addition can wrap, so wrap-around is visible.
-/
import IbcVerif.Model.Height
namespace IbcVerif.Delay
open IbcVerif

/-- the specification: ⌈d / e⌉, or 0 when the parameter is 0 -/
def blockDelaySpec (d e : Nat) : Nat := if e = 0 then 0 else (d + e - 1) / e

/-- `getBlockDelay` (integer form: quotient, plus one when there is a remainder) -/
def getBlockDelay (d e : Nat) : Nat :=
  if e = 0 then 0
  else
    let q := d / e
    if d % e ≠ 0 then q + 1 else q

inductive DelayResult | ok | processedTimeNotFound | processedHeightNotFound | notPassed | overflow
deriving DecidableEq, Repr

/-- time half of `verifyDelayPeriodPassed` (`now` = uint64(ctx.BlockTime().UnixNano())) -/
def timeCheck (now : Nat) (pt : Option Nat) (dt : Nat) : DelayResult :=
  if dt ≠ 0 then
    match pt with
    | none => .processedTimeNotFound
    | some p =>
      if p + dt ≥ 2^64 then .overflow
      else if now < p + dt then .notPassed else .ok
  else .ok

/-- block half (`self` = GetSelfHeight(ctx)) -/
def blockCheck (self : Height) (ph : Option Height) (db : Nat) : DelayResult :=
  if db ≠ 0 then
    match ph with
    | none => .processedHeightNotFound
    | some q =>
      if q.h.toNat + db ≥ 2^64 then .overflow
      else if self.lt ⟨q.rev, UInt64.ofNat (q.h.toNat + db)⟩ then .notPassed else .ok
  else .ok

/-- `verifyDelayPeriodPassed`: `pt`/`ph` = processed time / height stored for the proof height
    (absent = none); the time check comes first, as in the code. -/
def verifyDelayPeriodPassed (now : Nat) (self : Height) (pt : Option Nat) (ph : Option Height) (dt db : Nat) : DelayResult :=
  match timeCheck now pt dt with
  | .ok => blockCheck self ph db
  | r => r

/-- a packet-related proof verified at proof height `H` over a connection with delay periods: whatever
    else the handler checks (`base`), the two delays are counted from the processed time / height
    stored for the consensus state AT `H` (`pt`, `ph` are the client-store entries of that height) -/
def delayedProofAccepted (base : Bool) (now : Nat) (self : Height) (pt : Option Nat) (ph : Option Height) (dt db : Nat) : Bool :=
  base && (match verifyDelayPeriodPassed now self pt ph dt db with | .ok => true | _ => false)

end IbcVerif.Delay
