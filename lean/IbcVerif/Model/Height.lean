/-
  Model of modules/core/02-client/types/height.go and modules/core/04-channel/types/timeout.go.
  Heights are pairs of 64-bit unsigned integers, compared by revision number first.
  The `big.Int` detour in `Compare` is modelled as plain unsigned comparison; the correspondence
  check (engine purefn, functions height.*) is what ties that simplification to the code.
-/
import IbcVerif.Model.Dec
namespace IbcVerif

structure Height where
  rev : UInt64
  h : UInt64
deriving DecidableEq, Repr

namespace Height

def zero : Height := ⟨0, 0⟩

/-- `Height.Compare`: -1, 0 or 1 -/
def compare (a b : Height) : Int :=
  if a.rev ≠ b.rev then
    (if a.rev < b.rev then -1 else 1)
  else
    (if a.h < b.h then -1 else if a.h = b.h then 0 else 1)

def lt (a b : Height) : Bool := compare a b == -1
def lte (a b : Height) : Bool := compare a b ≤ 0
def gt (a b : Height) : Bool := compare a b == 1
def gte (a b : Height) : Bool := compare a b ≥ 0
def eq (a b : Height) : Bool := compare a b == 0
def isZero (a : Height) : Bool := a.rev == 0 && a.h == 0

/-- `Height.String`: "%d-%d" -/
def format (a : Height) : List Char := dec a.rev.toNat ++ '-' :: dec a.h.toNat

/-- `ParseHeight` -/
def parse (s : List Char) : Option Height :=
  match splitOnChar '-' s with
  | [r, h] =>
    match parseUint64 r, parseUint64 h with
    | some rv, some hv => some ⟨UInt64.ofNat rv, UInt64.ofNat hv⟩
    | _, _ => none
  | _ => none

end Height

structure Timeout where
  height : Height
  ts : UInt64
deriving DecidableEq, Repr

namespace Timeout

def isValid (t : Timeout) : Bool := !t.height.isZero || t.ts != 0
def heightElapsed (t : Timeout) (h : Height) : Bool := !t.height.isZero && h.gte t.height
def timestampElapsed (t : Timeout) (ts : UInt64) : Bool := t.ts != 0 && ts ≥ t.ts
def elapsed (t : Timeout) (h : Height) (ts : UInt64) : Bool := t.heightElapsed h || t.timestampElapsed ts

end Timeout
end IbcVerif
