/-
  L4 "World": two chains seen through an honest light client, reduced to what the timeout
  properties need.

  Chain B produces blocks 1, 2, … N at times `time h` (BFT time, non-decreasing).  A transaction
  included in block `h` runs with `ctx.BlockHeight = h`, `ctx.BlockTime = time h`, and its writes are
  part of the state committed by block `h`.  A Tendermint consensus state stored on chain A for height
  `H` carries `time H` and the application root *after block H−1* (the AppHash inside header H):
  a proof verified "at proof height H" speaks about the state after block H−1.  This off-by-one is
  the crux of timeout soundness and is explicit here (`visibleAt`).

  The guards are the ones of the code:
    recv   (04-channel/keeper/packet.go:145-149)  : ¬ timeout.Elapsed(selfHeight, selfTime)
    timeout(04-channel/keeper/timeout.go:63-71)   : timeout.Elapsed(proofHeight, consensusTime(proofHeight))
                                                    ∧ non-receipt proven at proofHeight
    v2 recv   (v2/keeper/packet.go:130-133)       : ⌊time/1e9⌋ < T
    v2 timeout(v2/keeper/packet.go:345-357)       : ⌊consensusTime/1e9⌋ ≥ T ∧ non-receipt proven
    localhost (09-localhost)                       : consensusTime(_) = current block time, the proof reads
                                                    the current state; the proof height must not exceed the
                                                    chain's own height (fix: see known_findings 'fixed')
-/
import IbcVerif.Model.Height
namespace IbcVerif.World
open IbcVerif

/-- chain B's clock: block height ↦ block time in nanoseconds (uint64 in the code) -/
abbrev Clock := Nat → Nat

def Monotone (time : Clock) : Prop := ∀ h h', h ≤ h' → time h ≤ time h'

/-- v1 timeout of a packet (revision numbers are fixed per chain; `rev` is B's revision) -/
structure TimeoutV1 where
  rev : Nat
  height : Nat      -- 0 together with rev = 0 means "no height timeout"
  ts : Nat          -- 0 = no timestamp timeout
deriving DecidableEq, Repr

/-- `Timeout.Elapsed(height=(rev,h), timestamp=ts)` on naturals (the UInt64 model of Model/Height is
    related to this one by `elapsedNat_eq` in Props/C04) -/
def elapsedNat (t : TimeoutV1) (rev h ts : Nat) : Bool :=
  (!(t.rev == 0 && t.height == 0) && (rev > t.rev || (rev == t.rev && h ≥ t.height))) ||
  (t.ts != 0 && ts ≥ t.ts)

/-- the receipt written by a receive executed in block `hr` is visible to a proof at proof height `H`
    iff `hr ≤ H − 1` -/
def visibleAt (hr : Option Nat) (H : Nat) : Bool :=
  match hr with
  | none => false
  | some r => r + 1 ≤ H

/-- RecvPacket's timeout guard on B in block `h` (B's revision `rev`) -/
def recvGuardV1 (time : Clock) (t : TimeoutV1) (rev h : Nat) : Bool := !elapsedNat t rev h (time h)

/-- TimeoutPacket's acceptance on A for proof height `H` against an honest client of B -/
def timeoutAcceptV1 (time : Clock) (t : TimeoutV1) (rev H : Nat) (hr : Option Nat) : Bool :=
  elapsedNat t rev H (time H) && !visibleAt hr H

/-- v2: seconds of a nanosecond timestamp (`time.Unix(0, ns).Unix()`, non-negative times) -/
def secs (ns : Nat) : Nat := ns / 1000000000

def recvGuardV2 (time : Clock) (T : Nat) (h : Nat) : Bool := secs (time h) < T
def timeoutAcceptV2 (time : Clock) (T : Nat) (H : Nat) (hr : Option Nat) : Bool := secs (time H) ≥ T && !visibleAt hr H

/-- localhost: one chain; a timeout message executed in block `n` with relayer-chosen proof height `P`.
    The localhost client answers `TimestampAtHeight = time n`, reads the *current* state (`hr` = block
    of an earlier receive, visible iff hr ≤ n), and (after the fix) refuses `P > n`. -/
def timeoutAcceptLocalhost (time : Clock) (t : TimeoutV1) (rev n P : Nat) (hr : Option Nat) : Bool :=
  P ≤ n && elapsedNat t rev P (time n) && (match hr with | none => true | some r => !(r ≤ n))

/-- the pre-fix behaviour (kept to state the finding): no bound on `P` -/
def timeoutAcceptLocalhostUnfixed (time : Clock) (t : TimeoutV1) (rev n P : Nat) (hr : Option Nat) : Bool :=
  elapsedNat t rev P (time n) && (match hr with | none => true | some r => !(r ≤ n))

end IbcVerif.World
