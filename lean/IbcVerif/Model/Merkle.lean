/-
  ibc-go's part of Merkle proof verification:
    modules/core/23-commitment/types/merkle.go  VerifyMembership, VerifyNonMembership,
        verifyChainedMembershipProof, validateVerificationArgs
    modules/core/04-channel/v2/types/merkle.go  BuildMerklePath (with an explicit Go-slice memory model)
  The ICS-23 library enters as per-level data: the root a proof object calculates (`calc`), what kind
  of proof it is, and two verification oracles `VE` / `VN` (parameters of the theorems; the harness
  evaluates the real ics23 calls as ground truth).
-/
import IbcVerif.Model.Bytes
namespace IbcVerif.Merkle
open IbcVerif

inductive Kind | exist | nonexist | other
deriving DecidableEq, Repr

/-- one `ics23.CommitmentProof` as ibc-go sees it -/
structure Level where
  croot : Option Bytes        -- `Calculate()`: root or error
  kind : Kind                 -- GetExist() / GetNonexist() non-nil?
  specNil : Bool              -- the matching entry of `specs` is nil
deriving DecidableEq, Repr

inductive Res | ok | invalidMerkleProof | invalidProof
deriving DecidableEq, Repr

/-- `validateVerificationArgs`; `proofsNil` = `proof.GetProofs() == nil`, `nSpecs` = len(specs) -/
def validateArgs (proofsNil : Bool) (levels : List Level) (nSpecs : Nat) (specNils : List Bool) (pathLen : Nat) (root : Bytes) : Res :=
  if proofsNil then .invalidMerkleProof
  else if root.isEmpty then .invalidMerkleProof
  else if nSpecs ≠ levels.length then .invalidMerkleProof
  else if pathLen ≠ nSpecs then .invalidProof
  else if specNils.any id then .invalidProof
  else .ok

/-- `verifyChainedMembershipProof` from index `i` on; `keyAt j` = `keys.GetKey(j)` (none = error);
    `VE i root key value` = `proofs[i].GetExist().Verify(specs[i], root, key, value) == nil`.
    Returns the final subroot on success. -/
def chain (VE : Nat → Bytes → Bytes → Bytes → Bool) (keyAt : Nat → Option Bytes) (n : Nat) :
    List Level → Nat → Bytes → Option Bytes
  | [], _, value => some value
  | l :: rest, i, value =>
    match l.croot with
    | none => none
    | some subroot =>
      match keyAt (n - 1 - i) with
      | none => none
      | some key =>
        if l.kind ≠ .exist then none
        else if VE i subroot key value then chain VE keyAt n rest (i + 1) subroot
        else none

/-- `MerkleProof.VerifyMembership` -/
def verifyMembership (VE : Nat → Bytes → Bytes → Bytes → Bool) (keyAt : Nat → Option Bytes)
    (proofsNil : Bool) (levels : List Level) (nSpecs : Nat) (pathLen : Nat) (root value : Bytes) : Res :=
  match validateArgs proofsNil levels nSpecs (levels.map (·.specNil)) pathLen root with
  | .ok =>
    if value.isEmpty then .invalidProof
    else match chain VE keyAt pathLen levels 0 value with
      | some r => if r = root then .ok else .invalidProof
      | none => .invalidProof
  | e => e

/-- `MerkleProof.VerifyNonMembership`; `VN root key` = `np.Verify(specs[0], root, key) == nil` -/
def verifyNonMembership (VE : Nat → Bytes → Bytes → Bytes → Bool) (VN : Bytes → Bytes → Bool) (keyAt : Nat → Option Bytes)
    (proofsNil : Bool) (levels : List Level) (nSpecs : Nat) (pathLen : Nat) (root : Bytes) : Res :=
  match validateArgs proofsNil levels nSpecs (levels.map (·.specNil)) pathLen root with
  | .ok =>
    match levels with
    | [] => .invalidProof            -- unreachable after validateArgs unless pathLen = 0 (index panic in Go; see driver)
    | l0 :: rest =>
      match l0.croot with
      | none => .invalidProof
      | some subroot =>
        match keyAt (pathLen - 1) with
        | none => .invalidProof
        | some key =>
          if l0.kind ≠ .nonexist then .invalidProof
          else if !VN subroot key then .invalidProof
          else match chain VE keyAt pathLen rest 1 subroot with
            | some r => if r = root then .ok else .invalidProof
            | none => .invalidProof
  | e => e

/-! ### Go slices, for `BuildMerklePath` -/

/-- a Go `[]byte` header over a heap of byte arrays -/
structure Slice where
  arr : Nat
  off : Nat
  len : Nat
  cap : Nat
deriving DecidableEq, Repr

abbrev Heap := List Bytes

def Slice.view (h : Heap) (s : Slice) : Bytes := ((h.getD s.arr []).drop s.off).take s.len

/-- overwrite `data` at position `pos` of a list (within bounds) -/
def writeAt (l : Bytes) (pos : Nat) (data : Bytes) : Bytes := l.take pos ++ data ++ l.drop (pos + data.length)

/-- Go `append(s, data...)`: in place when capacity allows, otherwise a fresh array -/
def goAppend (h : Heap) (s : Slice) (data : Bytes) : Heap × Slice :=
  if s.len + data.length ≤ s.cap then
    (h.set s.arr (writeAt (h.getD s.arr []) (s.off + s.len) data), { s with len := s.len + data.length })
  else
    (h ++ [s.view h ++ data], { arr := h.length, off := 0, len := s.len + data.length, cap := s.len + data.length })

/-- `BuildMerklePath(prefix, path)`: the outer slice is cloned (new headers array), the last inner
    slice is appended to.  Returns the new heap and the full path's slice headers; the caller's
    `prefix` headers are untouched by construction (they live in the caller's outer array, which the
    clone does not share) — what can change is the heap they point into. `none` = panic (empty prefix). -/
def buildMerklePath (h : Heap) (pre : List Slice) (path : Bytes) : Option (Heap × List Slice) :=
  match pre.reverse with
  | [] => none
  | last :: initRev =>
    let (h', last') := goAppend h last path
    some (h', initRev.reverse ++ [last'])

end IbcVerif.Merkle
