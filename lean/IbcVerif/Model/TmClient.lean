/-
  Model of the 07-tendermint light client (update.go, misbehaviour_handle.go, misbehaviour.go,
  header.go, client_state.go, proposal_handle.go, upgrade.go, light_client_module.go) and of the
  02-client keeper paths that drive it (keeper/client.go: CreateClient, UpdateClient, UpgradeClient,
  RecoverClient; keeper/keeper.go: VerifyMembership / VerifyNonMembership), written line by line:
  the order of checks decides which error class is reported.

  Everything that is not ibc-go's own logic enters as a field of the request, decided by the harness
  from ground truth it controls:
    * `valid`        the verdict of CometBFT `light.Verify` (update) / `VerifyCommitLightTrusting` (misbehaviour)
    * `parseOK` …    whether CometBFT's `…FromProto` conversions succeed
    * `proofOK` …    ICS-23 membership verdicts
  Results are `"<class>"` strings: `updated`, `frozen`, `ok`, `err:<sentinel class>`, `panic`.
-/
import IbcVerif.Model.TmStore
namespace IbcVerif.Tm
open IbcVerif

inductive Status | active | frozen | expired | unknown
deriving DecidableEq, Repr

def Status.toString : Status → String
  | .active => "Active" | .frozen => "Frozen" | .expired => "Expired" | .unknown => "Unknown"

/-- `ClientState.status` (light_client_module.go `Status`: a missing client state is `Unknown`) -/
def Store.status (s : Store) (now : Int) : Status :=
  match s.client with
  | none => .unknown
  | some cs =>
    if !cs.frozen.isZero then .frozen
    else match s.getCons cs.latest with
      | none => .expired
      | some c => if isExpired cs.trustingPeriod c.ts now then .expired else .active

/-- `LightClientModule.LatestHeight` -/
def Store.latestHeight (s : Store) : Height :=
  match s.client with
  | none => Height.zero
  | some cs => cs.latest

/-! ### headers -/

/-- the fields of an `ibctm.Header` that ibc-go's own code looks at -/
structure Header where
  /-- `GetHeight()`: (ParseChainID(Header.ChainID), Header.Height) -/
  height : Height
  ts : Int
  /-- app hash -/
  root : String
  nvh : String
  trusted : Height
  /-- hash of `TrustedValidators`; `none`: nil / `ValidatorSetFromProto` fails -/
  tvals : Option String
  /-- `SignedHeaderFromProto` and `ValidatorSetFromProto(ValidatorSet)` succeed -/
  parseOK : Bool
  /-- `Commit.BlockID.Hash` -/
  blockHash : String
  /-- `CommitFromProto` succeeds -/
  commitOK : Bool
  /-- `BlockIDFromProto` succeeds -/
  blockIdOK : Bool
  /-- CometBFT part of `Header.ValidateBasic` (signed-header basic validation, validator-set hash) and,
      for misbehaviour, `VerifyCommitLight` of the header's own validator set -/
  basicOK : Bool
deriving DecidableEq, Repr, Inhabited

/-- `Header.ConsensusState()` -/
def Header.cons (h : Header) : ConsState := ⟨h.ts, h.root, h.nvh⟩

/-- `checkTrustedHeader` (`none` = nil error) -/
def checkTrustedHeader (hdr : Header) (c : ConsState) : Option String :=
  match hdr.tvals with
  | none => some "lib"
  | some tv => if tv ≠ c.nvh then some "invalid-validator-set" else none

/-- `ClientState.verifyHeader`; `valid` is the verdict of `light.Verify` -/
def verifyHeader (s : Store) (hdr : Header) (valid : Bool) : Option String :=
  match s.getCons hdr.trusted with
  | none => some "consensus-state-not-found"
  | some c =>
    match checkTrustedHeader hdr c with
    | some e => some e
    | none =>
      if hdr.height.rev ≠ hdr.trusted.rev then some "invalid-header-height"
      else if !hdr.parseOK then some "lib"
      else if hdr.height.lte hdr.trusted then some "invalid-header"
      else if !valid then some "lib"
      else none

/-- `CheckForMisbehaviour`, `*Header` case -/
def checkHeaderMisbehaviour (s : Store) (hdr : Header) : Bool :=
  match s.getCons hdr.height with
  | some existing => decide (existing ≠ hdr.cons)
  | none =>
    let prevBad := match s.getPrev hdr.height with
      | some p => !decide (p.ts < hdr.ts)
      | none => false
    let nextBad := match s.getNext hdr.height with
      | some n => !decide (n.ts > hdr.ts)
      | none => false
    prevBad || nextBad

/-- `ClientState.UpdateState`, `*Header` case. `none` models the panic inside `pruneOldestConsensusState`. -/
def updateState (cs : ClientState) (s : Store) (hdr : Header) (now : Int) (self : Height) : Option Store :=
  match s.pruneOldest cs.trustingPeriod now with
  | none => none
  | some s1 =>
    match s1.getCons hdr.height with
    | some _ => some s1
    | none =>
      let cs' := if hdr.height.gt cs.latest then { cs with latest := hdr.height } else cs
      some ((({ s1 with client := some cs' }).setCons hdr.height hdr.cons).setMeta hdr.height self now.toNat)

/-- `FrozenHeight` -/
def frozenHeight : Height := ⟨0, 1⟩

/-- `UpdateStateOnMisbehaviour` -/
def freeze (cs : ClientState) (s : Store) : Store := { s with client := some { cs with frozen := frozenHeight } }

/-! ### misbehaviour -/

structure Misbehaviour where
  h1 : Header
  h2 : Header
  /-- `Header1.Header.ChainID == Header2.Header.ChainID` -/
  chainEq : Bool
deriving DecidableEq, Repr, Inhabited

/-- ibc-go's part of `Header.ValidateBasic` on top of the CometBFT checks (`basicOK`) -/
def Header.validateBasic (h : Header) : Bool := h.basicOK && !h.trusted.gte h.height

/-- `Misbehaviour.ValidateBasic` (any failure rejects the message before it reaches the keeper) -/
def Misbehaviour.validateBasic (m : Misbehaviour) : Bool :=
  m.h1.trusted.h != 0 && m.h2.trusted.h != 0 &&
  m.h1.tvals.isSome && m.h2.tvals.isSome &&
  m.chainEq &&
  m.h1.validateBasic && m.h2.validateBasic &&
  !m.h1.height.lt m.h2.height &&
  m.h1.blockIdOK && m.h2.blockIdOK

/-- `checkMisbehaviourHeader`; `valid` is the verdict of `VerifyCommitLightTrusting` -/
def checkMisbehaviourHeader (cs : ClientState) (c : ConsState) (hdr : Header) (now : Int) (valid : Bool) : Option String :=
  match hdr.tvals with
  | none => some "lib"
  | some _ =>
    if !hdr.commitOK then some "lib"
    else match checkTrustedHeader hdr c with
      | some e => some e
      | none =>
        if now - c.ts ≥ cs.trustingPeriod then some "trusting-period-expired"
        else if !valid then some "invalid-misbehaviour"
        else none

/-- `ClientState.verifyMisbehaviour` -/
def verifyMisbehaviour (cs : ClientState) (s : Store) (m : Misbehaviour) (now : Int) (v1 v2 : Bool) : Option String :=
  match s.getCons m.h1.trusted with
  | none => some "consensus-state-not-found"
  | some c1 =>
    match s.getCons m.h2.trusted with
    | none => some "consensus-state-not-found"
    | some c2 =>
      match checkMisbehaviourHeader cs c1 m.h1 now v1 with
      | some e => some e
      | none => checkMisbehaviourHeader cs c2 m.h2 now v2

/-- `CheckForMisbehaviour`, `*Misbehaviour` case -/
def checkMisbehaviourMsg (m : Misbehaviour) : Bool :=
  if m.h1.height.eq m.h2.height then
    if !m.h1.blockIdOK then false
    else if !m.h2.blockIdOK then false
    else decide (m.h1.blockHash ≠ m.h2.blockHash)
  else !decide (m.h1.ts > m.h2.ts)

/-! ### client-state validation, matching, upgrade arithmetic -/

def isBlank (s : String) : Bool := s.toList.all (fun c => c.isWhitespace)

/-- `IsRevisionFormat`: `^.*[^\n-]-{1}[1-9][0-9]*$` (Go: `.` excludes newline, `$` is end of text) -/
def revisionSuffix (s : List Char) : Option (List Char) :=
  -- digits after the last '-'
  let r := s.reverse
  let ds := r.takeWhile (fun c => c != '-')
  match r.dropWhile (fun c => c != '-') with
  | [] => none
  | _ :: before =>          -- the '-' itself, then the reversed prefix
    match before with
    | [] => none
    | c :: rest =>
      if c = '\n' || c = '-' then none
      else if rest.any (fun x => x = '\n') then none
      else
        match ds.reverse with
        | [] => none
        | d :: more =>
          if ('1' ≤ d && d ≤ '9') && more.all (fun x => '0' ≤ x && x ≤ '9') then some (d :: more) else none

/-- `ParseChainID`: a revision suffix that does not fit 64 bits is not a revision number (revision 0) -/
def parseChainID (s : String) : Nat :=
  match revisionSuffix s.toList with
  | none => 0
  | some ds =>
    let v := Nat.ofDigitChars 10 ds 0
    if v < 2 ^ 64 then v else 0

/-- `ClientState.Validate`; `none` = valid. (`MaxChainIDLen` = 50; trust level arithmetic in `Nat`.) -/
def ClientState.validate (cs : ClientState) : Option String :=
  if isBlank cs.chainId then some "invalid-chain-id"
  else if cs.chainId.utf8ByteSize > 50 then some "invalid-chain-id"
  else if cs.tlNum * 3 < cs.tlDen || cs.tlNum > cs.tlDen || cs.tlDen = 0 then some "invalid-trust-level"
  else if cs.trustingPeriod ≤ 0 then some "invalid-trusting-period"
  else if cs.unbondingPeriod ≤ 0 then some "invalid-unbonding-period"
  else if cs.maxClockDrift ≤ 0 then some "invalid-max-clock-drift"
  else if cs.latest.rev.toNat ≠ parseChainID cs.chainId then some "invalid-header-height"
  else if cs.latest.h = 0 then some "invalid-header-height"
  else if cs.trustingPeriod ≥ cs.unbondingPeriod then some "invalid-trusting-period"
  else match cs.proofSpecs with
    | none => some "invalid-proof-specs"
    | some _ =>
      if cs.upgradePath.any isBlank then some "invalid-client"
      else none

/-- `ConsensusState.ValidateBasic` (hex strings: 32 bytes = 64 digits; sentinel root allowed) -/
def sentinelRootHex : String := "73656e74696e656c5f726f6f74"

def ConsState.validateBasic (c : ConsState) : Option String :=
  if c.root.isEmpty then some "invalid-consensus"
  else if c.root.length ≠ 64 && c.root ≠ sentinelRootHex then some "lib"
  else if c.nvh.length ≠ 0 && c.nvh.length ≠ 64 then some "lib"
  else if c.ts / 1000000000 ≤ 0 then some "invalid-consensus"
  else none

/-- `IsMatchingClientState`: every field except latest/frozen height, trusting period, chain id and the
    two deprecated flags -/
def isMatchingClientState (a b : ClientState) : Bool :=
  decide ({ a with latest := Height.zero, frozen := Height.zero, trustingPeriod := 0, chainId := "",
                   allowExpiry := true, allowMisb := true } =
          { b with latest := Height.zero, frozen := Height.zero, trustingPeriod := 0, chainId := "",
                   allowExpiry := true, allowMisb := true })

/-- `LegacyDec` quotient with 18 decimals: `chopPrecisionAndRound` is round-half-to-even -/
def roundHalfEven (num den : Nat) : Nat :=
  let q := num / den
  let r := num % den
  if 2 * r < den then q else if 2 * r > den then q + 1 else (if q % 2 = 0 then q else q + 1)

/-- `calculateNewTrustingPeriod` for non-negative durations:
    `LegacyNewDec(tp).Mul(LegacyNewDec(newUb)).Quo(LegacyNewDec(origUb)).TruncateInt64()` -/
def calculateNewTrustingPeriod (tp origUb newUb : Nat) : Nat :=
  if origUb = 0 then 0 else
  -- Mul of two integer-valued decimals is exact; Quo = round-half-even of (x·10^18·10^18 / y·10^18) at 18 decimals
  roundHalfEven (tp * newUb * 10 ^ 18) origUb / 10 ^ 18

/-! ### the world: several clients of one chain, block time and height -/

/-- clients are identified by their sequence number `N` (client id `07-tendermint-N`) -/
structure World where
  clients : FMap Nat Store
  nextSeq : Nat
  now : Int
  self : Height
deriving Repr, Inhabited

def World.client (w : World) (cid : Nat) : Store :=
  match w.clients.get cid with
  | some s => s
  | none => Store.empty

def World.put (w : World) (cid : Nat) (s : Store) : World := { w with clients := w.clients.set cid s }

def clientId (n : Nat) : String := "07-tendermint-" ++ toString n

structure UpgradeReq where
  newClient : ClientState
  newCons : ConsState
  /-- the two byte strings unmarshal -/
  clientBzOK : Bool
  consBzOK : Bool
  /-- the two proofs unmarshal -/
  proofClientParse : Bool
  proofConsParse : Bool
  /-- ICS-23 verdicts against the latest consensus root at the paths built from the client's upgrade path -/
  proofClientOK : Bool
  proofConsOK : Bool
deriving Repr, Inhabited

structure MembershipReq where
  height : Height
  delayTime : UInt64
  delayBlocks : UInt64
  proofParse : Bool
  proofOK : Bool
deriving Repr, Inhabited

inductive Op
  | create (cs : ClientState) (c : ConsState)
  | update (cid : Nat) (hdr : Header) (valid : Bool)
  | misbehaviour (cid : Nat) (m : Misbehaviour) (v1 v2 : Bool)
  | advance (dt : Nat) (dh : Nat)
  | upgrade (cid : Nat) (u : UpgradeReq)
  | recover (subject substitute : Nat)
  | pruneAll (cid : Nat)
  | verifyMembership (cid : Nat) (r : MembershipReq)
  | verifyNonMembership (cid : Nat) (r : MembershipReq)
deriving Repr, Inhabited

/-- `ClientState.initialize` -/
def initClient (cs : ClientState) (c : ConsState) (now : Int) (self : Height) : Store :=
  (({ Store.empty with client := some cs }).setCons cs.latest c).setMeta cs.latest self now.toNat

/-- `Keeper.CreateClient` for client type 07-tendermint (keeper level: writes made before a late error
    stay, as in the Go function; a transaction would discard them) -/
def createClient (w : World) (cs : ClientState) (c : ConsState) : World × String :=
  let cid := w.nextSeq
  let w1 := { w with nextSeq := w.nextSeq + 1 }
  match cs.validate with
  | some e => (w1, "err:" ++ e)
  | none =>
    match c.validateBasic with
    | some e => (w1, "err:" ++ e)
    | none =>
      let s := initClient cs c w.now w.self
      let w2 := w1.put cid s
      if s.status w.now ≠ .active then (w2, "err:client-not-active") else (w2, "ok")

/-- `Keeper.UpdateClient` with a `*Header`, on the client's store -/
def updateStore (s : Store) (now : Int) (self : Height) (hdr : Header) (valid : Bool) : Store × String :=
  if s.status now ≠ .active then (s, "err:client-not-active")
  else match s.client with
    | none => (s, "err:client-not-found")
    | some cs =>
      match verifyHeader s hdr valid with
      | some e => (s, "err:" ++ e)
      | none =>
        if checkHeaderMisbehaviour s hdr then (freeze cs s, "frozen")
        else match updateState cs s hdr now self with
          | none => (s, "panic")
          | some s' => (s', "updated")

/-- `MsgUpdateClient` with a `*Misbehaviour`: `ValidateBasic`, then `Keeper.UpdateClient` -/
def misbehaviourStore (s : Store) (now : Int) (m : Misbehaviour) (v1 v2 : Bool) : Store × String :=
  if !m.validateBasic then (s, "err:basic")
  else if s.status now ≠ .active then (s, "err:client-not-active")
  else match s.client with
    | none => (s, "err:client-not-found")
    | some cs =>
      match verifyMisbehaviour cs s m now v1 v2 with
      | some e => (s, "err:" ++ e)
      | none =>
        if checkMisbehaviourMsg m then (freeze cs s, "frozen")
        else (s, "updated")     -- UpdateState with a Misbehaviour message is a no-op

/-- `ClientState.VerifyUpgradeAndUpdateState` after the module-level checks -/
def verifyUpgradeAndUpdateState (cs : ClientState) (s : Store) (u : UpgradeReq) (now : Int) (self : Height) :
    Store × String :=
  if cs.upgradePath.isEmpty then (s, "err:invalid-upgrade-client")
  else if !u.proofClientParse then (s, "err:proof")
  else if !u.proofConsParse then (s, "err:proof")
  else match s.getCons cs.latest with
    | none => (s, "err:consensus-state-not-found")
    | some _ =>
      if !u.proofClientOK then (s, "err:proof")
      else if !u.proofConsOK then (s, "err:proof")
      else
        let tp := if u.newClient.unbondingPeriod < cs.unbondingPeriod then
            (calculateNewTrustingPeriod cs.trustingPeriod.toNat cs.unbondingPeriod.toNat u.newClient.unbondingPeriod.toNat : Int)
          else cs.trustingPeriod
        let newCs : ClientState :=
          { chainId := u.newClient.chainId, tlNum := cs.tlNum, tlDen := cs.tlDen, trustingPeriod := tp,
            unbondingPeriod := u.newClient.unbondingPeriod, maxClockDrift := cs.maxClockDrift,
            frozen := Height.zero, latest := u.newClient.latest, proofSpecs := u.newClient.proofSpecs,
            upgradePath := u.newClient.upgradePath, allowExpiry := false, allowMisb := false }
        match newCs.validate with
        | some e => (s, "err:" ++ e)
        | none =>
          let newCons : ConsState := ⟨u.newCons.ts, sentinelRootHex, u.newCons.nvh⟩
          -- consensus state at newClientState.LatestHeight, metadata at tmUpgradeClient.LatestHeight
          ((({ s with client := some newCs }).setCons newCs.latest newCons).setMeta u.newClient.latest self now.toNat, "ok")

/-- `Keeper.UpgradeClient`, on the client's store -/
def upgradeStore (s : Store) (now : Int) (self : Height) (u : UpgradeReq) : Store × String :=
  if s.status now ≠ .active then (s, "err:client-not-active")
  else if !u.clientBzOK then (s, "err:invalid-client")
  else if !u.consBzOK then (s, "err:invalid-consensus")
  else match s.client with
    | none => (s, "err:client-not-found")
    | some cs =>
      if !u.newClient.latest.gt cs.latest then (s, "err:invalid-height")
      else verifyUpgradeAndUpdateState cs s u now self

/-- `ClientState.CheckSubstituteAndUpdateState` (writes made before a late error stay, as in the Go code) -/
def checkSubstituteAndUpdateState (cs : ClientState) (subj subst : Store) (scs : ClientState) (now : Int) :
    Store × String :=
  if !isMatchingClientState cs scs then (subj, "err:invalid-substitute")
  else
    let cs1 := if subj.status now = .frozen then { cs with frozen := Height.zero } else cs
    let h := scs.latest
    match subst.getCons h with
    | none => (subj, "err:consensus-state-not-found")
    | some c =>
      let s1 := subj.setCons h c
      match subst.pheight.get h with
      | none => (s1, "err:update-client-failed")
      | some ph =>
        match subst.ptime.get h with
        | none => (s1, "err:update-client-failed")
        | some pt =>
          let s2 := s1.setMeta h ph pt
          let cs2 := { cs1 with latest := scs.latest, chainId := scs.chainId, trustingPeriod := scs.trustingPeriod }
          ({ s2 with client := some cs2 }, "ok")

/-- `Keeper.RecoverClient` + `LightClientModule.RecoverClient` (both ids are 07-tendermint ids):
    the new subject store, given the subject's and the substitute's stores -/
def recoverStore (sj sb : Store) (now : Int) : Store × String :=
  if sj.status now = .active then (sj, "err:invalid-recovery-client")
  else if sb.status now ≠ .active then (sj, "err:client-not-active")
  else if sj.latestHeight.gte sb.latestHeight then (sj, "err:invalid-height")
  else match sj.client with
    | none => (sj, "err:client-not-found")
    | some cs =>
      match sb.client with
      | none => (sj, "err:client-not-found")
      | some scs => checkSubstituteAndUpdateState cs sj sb scs now

/-- `verifyDelayPeriodPassed` (the two sums are 64-bit; a sum that wraps around never passes) -/
def verifyDelayPeriodPassed (s : Store) (r : MembershipReq) (now : Int) (self : Height) : Option String :=
  let e1 :=
    if r.delayTime != 0 then
      match s.ptime.get r.height with
      | none => some "processed-time-not-found"
      | some pt =>
        let validTime : UInt64 := UInt64.ofNat pt + r.delayTime
        if validTime < UInt64.ofNat pt || UInt64.ofNat now.toNat < validTime then some "delay-period-not-passed" else none
    else none
  match e1 with
  | some e => some e
  | none =>
    if r.delayBlocks != 0 then
      match s.pheight.get r.height with
      | none => some "processed-height-not-found"
      | some ph =>
        let validHeight : Height := ⟨ph.rev, ph.h + r.delayBlocks⟩
        if validHeight.h < ph.h || self.lt validHeight then some "delay-period-not-passed" else none
    else none

/-- `Keeper.VerifyMembership` / `VerifyNonMembership` + `ClientState.verify(Non)Membership` (read-only) -/
def verifyMembershipStore (s : Store) (now : Int) (self : Height) (r : MembershipReq) : String :=
  if s.status now ≠ .active then "err:client-not-active"
  else match s.client with
    | none => "err:client-not-found"
    | some cs =>
      if cs.latest.lt r.height then "err:invalid-height"
      else match verifyDelayPeriodPassed s r now self with
        | some e => "err:" ++ e
        | none =>
          if !r.proofParse then "err:proof"
          else match s.getCons r.height with
            | none => "err:consensus-state-not-found"
            | some _ => if r.proofOK then "ok" else "err:proof"

/-- the migration entry point `PruneAllExpiredConsensusStates` on one client -/
def pruneAllStore (s : Store) (now : Int) : Store × String :=
  match s.client with
  | none => (s, "err:client-not-found")
  | some cs =>
    let r := s.pruneAll cs.trustingPeriod now
    (r.1, "ok:" ++ toString r.2)

/-- apply a per-client store transformer to client `cid` of the world -/
def World.onClient (w : World) (cid : Nat) (r : Store × String) : World × String := (w.put cid r.1, r.2)

def step (w : World) : Op → World × String
  | .create cs c => createClient w cs c
  | .update cid hdr valid => w.onClient cid (updateStore (w.client cid) w.now w.self hdr valid)
  | .misbehaviour cid m v1 v2 => w.onClient cid (misbehaviourStore (w.client cid) w.now m v1 v2)
  | .advance dt dh => ({ w with now := w.now + dt, self := ⟨w.self.rev, w.self.h + UInt64.ofNat dh⟩ }, "ok")
  | .upgrade cid u => w.onClient cid (upgradeStore (w.client cid) w.now w.self u)
  | .recover a b => w.onClient a (recoverStore (w.client a) (w.client b) w.now)
  | .pruneAll cid => w.onClient cid (pruneAllStore (w.client cid) w.now)
  | .verifyMembership cid r => (w, verifyMembershipStore (w.client cid) w.now w.self r)
  | .verifyNonMembership cid r => (w, verifyMembershipStore (w.client cid) w.now w.self r)

def run (w : World) : List Op → World
  | [] => w
  | op :: ops => run (step w op).1 ops

end IbcVerif.Tm
