/-
  Connection version negotiation: modules/core/03-connection/types/version.go
  (`allowNilFeatureSet` maps only "1" ↦ false, so an empty feature set is never allowed.)
-/
namespace IbcVerif.Version

structure Version where
  id : String
  features : List String
deriving DecidableEq, Repr

/-- `FindSupportedVersion(version, supportedVersions)`: first entry with the same identifier -/
def findSupported (id : String) : List Version → Option Version
  | [] => none
  | v :: vs => if id = v.id then some v else findSupported id vs

/-- `GetFeatureSetIntersection`: source order, source multiplicity -/
def intersection (src cp : List String) : List String := src.filter (fun f => cp.contains f)

/-- `PickVersion` -/
def pickVersion : List Version → List Version → Option Version
  | [], _ => none
  | s :: rest, cp =>
    match findSupported s.id cp with
    | some c =>
      let fs := intersection s.features c.features
      if fs.isEmpty then pickVersion rest cp else some ⟨s.id, fs⟩
    | none => pickVersion rest cp

/-- `Version.VerifyProposedVersion` -/
def verifyProposed (v proposed : Version) : Bool :=
  proposed.id == v.id && !proposed.features.isEmpty && proposed.features.all (fun f => v.features.contains f)

/-- `IsSupportedVersion` -/
def isSupported (sup : List Version) (proposed : Version) : Bool :=
  match findSupported proposed.id sup with
  | some s => verifyProposed s proposed
  | none => false

/-- `VerifySupportedFeature` -/
def supportsFeature (v : Version) (f : String) : Bool := v.features.contains f

end IbcVerif.Version
