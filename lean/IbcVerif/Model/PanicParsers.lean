/-
  ibc-go-authored parsers with Go's panicking primitives explicit (property C47).

  Every function below mirrors the Go function of the same name statement by statement; an index
  expression `s[i]` is `G.index`, a slice expression `s[a:b]` is `G.slice`/`sliceFrom`/`sliceTo`,
  an explicit `panic(..)` is `G.goPanic`, an unchecked type assertion `v.(T)` is `assert…`, a
  checked one (`x, ok := v.(T)`) is an `Option`.  Library calls that cannot panic on any input
  (`strings.Split`, `strings.Join`, `strings.TrimSpace`, `strconv.ParseUint`, `regexp.MatchString`,
  `hex.DecodeString`, `json.Unmarshal`) are *parameters* of the model (`Lib`), so the totality
  theorems hold whatever those functions return; the driver instantiates them with executable
  versions (`Lib.go`) that the correspondence harness ties to the real ones.

  Sources: modules/core/02-client/types/{keys,height}.go, modules/core/24-host/parse.go,
  modules/core/04-channel/types/keys.go, modules/core/03-connection/types/keys.go,
  modules/apps/transfer/types/denom.go, modules/apps/transfer/keeper/relay.go,
  modules/light-clients/07-tendermint/store.go, modules/core/04-channel/v2/keeper/keeper.go,
  modules/apps/packet-forward-middleware/types/forward.go, modules/apps/callbacks/types/callbacks.go.
-/
import IbcVerif.Model.Panic
import IbcVerif.Model.Dec
import IbcVerif.Model.Bytes
namespace IbcVerif.Parsers
open IbcVerif

abbrev Str := List Char

/-- the library functions the parsers call -/
structure Lib where
  /-- `strings.Split(s, sep)` -/
  split : Str → Str → List Str
  /-- `strconv.ParseUint(s, 10, 64)` -/
  parseUint : Str → Option Nat
  /-- `strings.TrimSpace(s) == ""` -/
  blank : Str → Bool
  isClientIDFormat : Str → Bool
  isChannelIDFormat : Str → Bool
  isConnectionIDFormat : Str → Bool
  isRevisionFormat : Str → Bool
  /-- `channeltypes.IsValidChannelID(c) || clienttypes.IsValidClientID(c)` -/
  isHopId : Str → Bool

/-- what the proofs need to know about `strings.Split` with a non-empty separator: the result is
    never empty (Go: "If s does not contain sep and sep is not empty, Split returns a slice of
    length 1 whose only element is s") -/
def Lib.SplitNonEmpty (L : Lib) : Prop := ∀ s sep, sep ≠ [] → L.split s sep ≠ []

def joinStr (sep : Str) : List Str → Str
  | [] => []
  | [p] => p
  | p :: q :: ps => p ++ sep ++ joinStr sep (q :: ps)

def localhostID : Str := "09-localhost".toList

/-- Go `len(x) - 1` as an `int` used as a slice bound: negative bounds panic -/
def lastIndex {α : Type} (l : List α) : G Nat :=
  if l.length = 0 then .panic "slice bounds out of range [:-1]" else .ok (l.length - 1)

/-- `clienttypes.ParseClientIdentifier` -/
def parseClientIdentifier (L : Lib) (clientID : Str) : G (Str × Nat) :=
  if clientID = localhostID then .ok (clientID, 0)
  else if !L.isClientIDFormat clientID then .err "invalid-id"
  else do
    let splitStr := L.split clientID ['-']
    let last ← lastIndex splitStr
    let ini ← G.sliceTo splitStr last
    let clientType := joinStr ['-'] ini
    if L.blank clientType then .err "invalid-id"
    else do
      let seqStr ← G.index splitStr last
      match L.parseUint seqStr with
      | none => .err "invalid-sequence"
      | some n => .ok (clientType, n)

/-- `clienttypes.ParseHeight` -/
def parseHeight (L : Lib) (s : Str) : G (Nat × Nat) :=
  let splitStr := L.split s ['-']
  if splitStr.length ≠ 2 then .err "invalid-height"
  else do
    let a ← G.index splitStr 0
    match L.parseUint a with
    | none => .err "invalid-height"
    | some r => do
      let b ← G.index splitStr 1
      match L.parseUint b with
      | none => .err "invalid-height"
      | some h => .ok (r, h)

/-- `clienttypes.ParseChainID` (after fix 011a55d: a last segment that does not fit in a uint64 is
    "not a revision number", 0 is returned; before, the function called `panic`) -/
def parseChainID (L : Lib) (chainID : Str) : G Nat :=
  if !L.isRevisionFormat chainID then .ok 0
  else do
    let splitStr := L.split chainID ['-']
    let last ← lastIndex splitStr
    let seg ← G.index splitStr last
    match L.parseUint seg with
    | none => .ok 0
    | some n => .ok n

def setAtList {α : Type} : List α → Nat → α → List α
  | [], _, _ => []
  | _ :: xs, 0, v => v :: xs
  | x :: xs, n + 1, v => x :: setAtList xs n v

/-- `clienttypes.SetRevisionNumber` (`splitStr[len(splitStr)-1] = …` is an index expression too) -/
def setRevisionNumber (L : Lib) (chainID : Str) (revision : Nat) : G Str :=
  if !L.isRevisionFormat chainID then .err "invalid-chain-id"
  else do
    let splitStr := L.split chainID ['-']
    let last ← lastIndex splitStr
    let _ ← G.index splitStr last
    .ok (joinStr ['-'] (setAtList splitStr last (dec revision)))

/-- `host.ParseIdentifier(identifier, prefix)` -/
def parseIdentifier (L : Lib) (identifier pfx : Str) : G Nat :=
  if !pfx.isPrefixOf identifier then .err "invalid-id"
  else
    let splitStr := L.split identifier pfx
    if splitStr.length ≠ 2 then .err "invalid-id"
    else do
      let a ← G.index splitStr 0
      if a ≠ [] then .err "invalid-id"
      else do
        let b ← G.index splitStr 1
        match L.parseUint b with
        | none => .err "invalid-sequence"
        | some n => .ok n

def channelPrefix : Str := "channel-".toList
def connectionPrefix : Str := "connection-".toList

/-- `channeltypes.ParseChannelSequence` -/
def parseChannelSequence (L : Lib) (id : Str) : G Nat :=
  if !L.isChannelIDFormat id then .err "invalid-id" else parseIdentifier L id channelPrefix

/-- `connectiontypes.ParseConnectionSequence` -/
def parseConnectionSequence (L : Lib) (id : Str) : G Nat :=
  if !L.isConnectionIDFormat id then .err "invalid-id" else parseIdentifier L id connectionPrefix

def keyClientStorePrefix : Str := "clients".toList
def keyClientState : Str := "clientState".toList
def keyPortPrefix : Str := "ports".toList
def keyChannelPrefix : Str := "channels".toList

/-- `host.parseClientStatePath` -/
def parseClientStatePath (L : Lib) (path : Str) : G Str :=
  let split := L.split path ['/']
  if split.length ≠ 3 then .err "invalid-path"
  else do
    let s0 ← G.index split 0
    if s0 ≠ keyClientStorePrefix then .err "invalid-path"
    else do
      let s2 ← G.index split 2
      if s2 ≠ keyClientState then .err "invalid-path"
      else do
        let s1 ← G.index split 1
        if L.blank s1 then .err "invalid-path"
        else do
          let clientID ← G.index split 1
          .ok clientID

/-- `host.ParseConnectionPath` -/
def parseConnectionPath (L : Lib) (path : Str) : G Str :=
  let split := L.split path ['/']
  if split.length ≠ 2 then .err "invalid-path" else G.index split 1

/-- `host.ParseChannelPath` -/
def parseChannelPath (L : Lib) (path : Str) : G (Str × Str) :=
  let split := L.split path ['/']
  if split.length < 5 then .err "invalid-path"
  else do
    let s1 ← G.index split 1
    let s3 ← G.index split 3
    if s1 ≠ keyPortPrefix ∨ s3 ≠ keyChannelPrefix then .err "invalid-path"
    else do
      let portID ← G.index split 2
      let channelID ← G.index split 4
      .ok (portID, channelID)

structure DenomG where
  trace : List (Str × Str)
  base : Str
deriving Repr, DecidableEq

/-- the `for i := 0; i < length; i += 2` loop of `ExtractDenomFromPath`; returns the trace collected
    and `baseDenomSlice`. `fuel` bounds the number of iterations (`length` suffices). -/
def extractLoop (L : Lib) (denomSplit : List Str) : Nat → Nat → List (Str × Str) → G (List (Str × Str) × List Str)
  | 0, _, trace => .ok (trace, [])
  | fuel + 1, i, trace =>
    let length := denomSplit.length
    if ¬ i < length then .ok (trace, [])
    else if i + 1 < length ∧ length > 2 then do
      -- `i < length-1 && length > 2 && (… denomSplit[i+1] …)`: the index is evaluated only here
      let c ← G.index denomSplit (i + 1)
      if L.isHopId c then do
        let p ← G.index denomSplit i
        extractLoop L denomSplit fuel (i + 2) (trace ++ [(p, c)])
      else do
        let base ← G.sliceFrom denomSplit i
        .ok (trace, base)
    else do
      let base ← G.sliceFrom denomSplit i
      .ok (trace, base)

/-- `transfertypes.ExtractDenomFromPath` -/
def extractDenomFromPath (L : Lib) (fullPath : Str) : G DenomG := do
  let denomSplit := L.split fullPath ['/']
  let first ← G.index denomSplit 0
  if first = fullPath then .ok ⟨[], fullPath⟩
  else do
    let (trace, baseSlice) ← extractLoop L denomSplit denomSplit.length 0 []
    .ok ⟨trace, joinStr ['/'] baseSlice⟩

def denomPrefixSlash : Str := "ibc/".toList

/-- the slicing at the head of `Keeper.GetDenomFromIBCDenom`: `ibcDenom[len("ibc/"):]` -/
def ibcDenomHexPart (ibcDenom : Str) : G Str := G.sliceFrom ibcDenom denomPrefixSlash.length

/-- `TokenFromCoin`'s guard followed by that slicing -/
def tokenFromCoinHexPart (denom : Str) : G (Option Str) :=
  if !denomPrefixSlash.isPrefixOf denom then .ok none
  else do
    let h ← ibcDenomHexPart denom
    .ok (some h)

/-! ### byte-level key parsers -/

def keyIterateConsensusStatePrefix : Bytes := strBytes "iterateConsensusStates".toList

/-- `binary.BigEndian.Uint64(b)`: `_ = b[7]` bounds check, then the first 8 bytes -/
def beUint64 (b : Bytes) : G Nat := do
  let _ ← G.index b 7
  .ok ((b.take 8).foldl (fun acc x => acc * 256 + x.toNat) 0)

/-- `tendermint.GetHeightFromIterationKey` -/
def getHeightFromIterationKey (iterKey : Bytes) : G (Nat × Nat) := do
  let bigEndianBytes ← G.sliceFrom iterKey keyIterateConsensusStatePrefix.length
  let revisionBytes ← G.slice bigEndianBytes 0 8
  let heightBytes ← G.sliceFrom bigEndianBytes 8
  let revision ← beUint64 revisionBytes
  let height ← beUint64 heightBytes
  .ok (revision, height)

/-- `bytes.TrimPrefix` -/
def trimPrefix (key pfx : Bytes) : Bytes := if pfx.isPrefixOf key then key.drop pfx.length else key

/-- `channelv2 keeper.extractSequenceFromKey` (explicit panic on an over-long suffix);
    `sdk.BigEndianToUint64` returns 0 on an empty slice and panics (via `binary.BigEndian.Uint64`)
    on 1..7 bytes -/
def extractSequenceFromKey (key storePrefix : Bytes) : G Nat :=
  let sequenceBz := trimPrefix key storePrefix
  if sequenceBz.length > 8 then G.goPanic "sequence is too long - expected 8 bytes"
  else if sequenceBz.length = 0 then .ok 0
  else beUint64 sequenceBz

/-! ### JSON-tree walkers (memo extractors) -/

/-- the dynamic values `encoding/json` produces when unmarshalling into `map[string]any` -/
inductive JVal where
  | null
  | bool (b : Bool)
  | num (n : Int)                  -- float64 in Go; the walkers only range-check it
  | str (s : Str)
  | arr (l : List JVal)
  | obj (kv : List (Str × JVal))

/-- `m[k]` on a Go map: (value, ok) -/
def jlookup (kv : List (Str × JVal)) (k : Str) : Option JVal :=
  match kv.find? (fun p => p.1 == k) with
  | some p => some p.2
  | none => none

/-- checked assertion `s, ok := v.(string)` (a missing key yields the nil interface: not ok) -/
def asStr? : Option JVal → Option Str
  | some (.str s) => some s
  | _ => none

/-- checked assertion `m, ok := v.(map[string]any)` -/
def asObj? : Option JVal → Option (List (Str × JVal))
  | some (.obj kv) => some kv
  | _ => none

/-- unchecked assertion `v.(string)`: panics on any other dynamic type -/
def assertStr : Option JVal → G Str
  | some (.str s) => .ok s
  | _ => .panic "interface conversion: interface {} is not string"

structure Forward where
  receiver : Str
  port : Str
  channel : Str
  timeout : Option JVal
  retries : Option Int
  next : Option Forward

/-- PFM `getForwardMetadataFromNext` (`parseJson` = `json.Unmarshal` into `map[string]any`) -/
def getForwardMetadataFromNext (parseJson : Str → Option (List (Str × JVal))) (nextData : JVal) : G (List (Str × JVal)) :=
  let pm : G (List (Str × JVal)) :=
    match asObj? (some nextData) with
    | some kv => .ok kv
    | none =>
      match asStr? (some nextData) with
      | none => .err "invalid-forward-metadata"
      | some s =>
        match parseJson s with
        | none => .err "invalid-forward-metadata"
        | some kv => .ok kv
  do
    let packetMetadataMap ← pm
    match asObj? (jlookup packetMetadataMap "forward".toList) with
    | none => .err "metadata-key-not-found"
    | some fd => .ok fd

/-- `parseDuration` is a type switch with a default branch: float64 → value, string →
    `time.ParseDuration` (value or error), anything else → error; never a panic. `true` = no error
    caused by the dynamic type -/
def timeoutTypeOk : Option JVal → Bool
  | none => true
  | some (.num _) => true
  | some (.str _) => true
  | some _ => false

/-- PFM `getForwardMetadata`; recursion on `next` is bounded by `fuel` (every level consumes at
    least one character of the memo) -/
def getForwardMetadata (parseJson : Str → Option (List (Str × JVal))) : Nat → List (Str × JVal) → G Forward
  | 0, _ => .err "nesting too deep"
  | fuel + 1, forwardData =>
    match asStr? (jlookup forwardData "receiver".toList) with
    | none => .err "metadata-key-not-found"
    | some receiver =>
    match asStr? (jlookup forwardData "port".toList) with
    | none => .err "metadata-key-not-found"
    | some port =>
    match asStr? (jlookup forwardData "channel".toList) with
    | none => .err "metadata-key-not-found"
    | some channel =>
      if !timeoutTypeOk (jlookup forwardData "timeout".toList) then .err "invalid duration"
      else
        let retries : G (Option Int) := match jlookup forwardData "retries".toList with
          | none => .ok none
          | some (.num r) => if r < 0 ∨ r > 255 then .err "retries must be between 0 and 255" else .ok (some r)
          | some _ => .err "invalid-forward-metadata"
        do
          let r ← retries
          match jlookup forwardData "next".toList with
          | none => .ok ⟨receiver, port, channel, jlookup forwardData "timeout".toList, r, none⟩
          | some nextAny => do
            let nextData ← getForwardMetadataFromNext parseJson nextAny
            let nf ← getForwardMetadata parseJson fuel nextData
            .ok ⟨receiver, port, channel, jlookup forwardData "timeout".toList, r, some nf⟩

/-- PFM `GetPacketMetadataFromPacketdata`: `custom` is the result of `GetCustomPacketData("forward")` -/
def getPacketMetadata (parseJson : Str → Option (List (Str × JVal))) (fuel : Nat) (custom : Option JVal) : G Forward :=
  match asObj? custom with
  | none => .err "metadata-key-not-found"
  | some fd => getForwardMetadata parseJson fuel fd

structure CallbackFields where
  address : Str
  gasLimit : Nat
  calldata : Option Str

/-- callbacks `getCallbackAddress` / `getUserDefinedGasLimit` / `getCalldata` as used by
    `GetCallbackData` (`custom` = `GetCustomPacketData(callbackKey)`; `unhexOk` = `hex.DecodeString` succeeds) -/
def getCallbackFields (L : Lib) (unhexOk : Str → Bool) (custom : Option JVal) : G CallbackFields :=
  match asObj? custom with
  | none => .err "callback-key-not-found"
  | some cb =>
    match asStr? (jlookup cb "address".toList) with
    | none => .err "invalid-callback-data"
    | some addr =>
      if L.blank addr then .err "invalid-callback-data"
      else
        let gas : G Nat := match jlookup cb "gas_limit".toList with
          | none => .ok 0
          | some (.str g) => if g = [] then .ok 0 else
              match L.parseUint g with
              | some n => .ok n
              | none => .err "invalid-callback-data"
          | some _ => .err "invalid-callback-data"
        do
          let g ← gas
          match jlookup cb "calldata".toList with
          | none => .ok ⟨addr, g, none⟩
          | some (.str c) =>
            if c = [] then .ok ⟨addr, g, none⟩
            else if unhexOk c then .ok ⟨addr, g, some c⟩ else .err "invalid-callback-data"
          | some _ => .err "invalid-callback-data"

/-! ### executable library instance for the driver -/

/-- `strings.Split(s, sep)` for a non-empty separator: scan left to right, cut at each
    non-overlapping occurrence -/
def splitOnStrAux (sep : Str) : Nat → Str → Str → List Str
  | 0, _, cur => [cur.reverse]
  | fuel + 1, s, cur =>
    match s with
    | [] => [cur.reverse]
    | c :: cs =>
      if sep.isPrefixOf (c :: cs) then cur.reverse :: splitOnStrAux sep fuel ((c :: cs).drop sep.length) []
      else splitOnStrAux sep fuel cs (c :: cur)

def splitOnStr (s sep : Str) : List Str :=
  if sep = [] then s.map (fun c => [c])      -- explode (never used by the parsers)
  else splitOnStrAux sep (s.length + 1) s []

def isWordChar (c : Char) : Bool := c.isAlphanum || c == '_'
def digits1to20 (d : Str) : Bool := decide (1 ≤ d.length) && decide (d.length ≤ 20) && d.all Char.isDigit

def stripPrefix (p s : Str) : Option Str := if p.isPrefixOf s then some (s.drop p.length) else none

def splitLast {α : Type} : List α → Option (List α × α)
  | [] => none
  | [x] => some ([], x)
  | x :: y :: ys => match splitLast (y :: ys) with
    | some (i, l) => some (x :: i, l)
    | none => none

/-- `^\w+([\w-]+\w)?-[0-9]{1,20}$` (same recogniser as IbcVerif.Xfer.isClientIDFormat) -/
def isClientIDFormat (s : Str) : Bool :=
  match splitLast (splitOnChar '-' s) with
  | some (ini, d) =>
    digits1to20 d && !ini.isEmpty && ini.all (fun p => p.all isWordChar) &&
      (match ini.head? with | some h => !h.isEmpty | none => false) &&
      (match ini.getLast? with | some l => !l.isEmpty | none => false)
  | none => false

/-- `^channel-[0-9]{1,20}$` / `^connection-[0-9]{1,20}$` -/
def isPrefixedSeq (pfx s : Str) : Bool :=
  match stripPrefix pfx s with
  | some d => digits1to20 d
  | none => false

/-- `^.*[^\n-]-{1}[1-9][0-9]*$`: split at the last '-': the tail is `[1-9][0-9]*`, the part before is
    non-empty, contains no newline and does not end in '-' -/
def isRevisionFormat (s : Str) : Bool :=
  match splitLast (splitOnChar '-' s) with
  | some (ini, d) =>
    let left := joinWith '-' ini
    (match d with
     | c :: cs => decide ('1' ≤ c ∧ c ≤ '9') && cs.all Char.isDigit
     | [] => false) &&
    !ini.isEmpty && !left.isEmpty && !left.contains '\n' &&
      (match left.getLast? with | some l => l != '-' | none => false)
  | none => false

def isGoSpace (c : Char) : Bool :=
  c == ' ' || c == '\t' || c == '\n' || c == '\r' || c.toNat == 0x0B || c.toNat == 0x0C ||
  c.toNat == 0x85 || c.toNat == 0xA0 || c.toNat == 0x1680 || (0x2000 ≤ c.toNat && c.toNat ≤ 0x200A) ||
  c.toNat == 0x2028 || c.toNat == 0x2029 || c.toNat == 0x202F || c.toNat == 0x205F || c.toNat == 0x3000

def isValidChannelID (s : Str) : Bool :=
  match stripPrefix channelPrefix s with
  | some d => digits1to20 d && (parseUint64 d).isSome
  | none => false

def isValidClientID (s : Str) : Bool :=
  if s = localhostID then true
  else isClientIDFormat s &&
    (match splitLast (splitOnChar '-' s) with
     | some (_, d) => (parseUint64 d).isSome
     | none => false)

def Lib.go : Lib where
  split := splitOnStr
  parseUint := parseUint64
  blank := fun s => s.all isGoSpace
  isClientIDFormat := Parsers.isClientIDFormat
  isChannelIDFormat := isPrefixedSeq channelPrefix
  isConnectionIDFormat := isPrefixedSeq connectionPrefix
  isRevisionFormat := Parsers.isRevisionFormat
  isHopId := fun c => isValidChannelID c || isValidClientID c

end IbcVerif.Parsers
