/-
  L6 — Genesis export / import of ibc core (C44).

  Model of
    modules/core/genesis.go                 (InitGenesis / ExportGenesis: client, clientv2, connection, channel, channelv2)
    modules/core/02-client/genesis.go       + keeper.GetAllGenesisClients / GetAllClientMetadata / GetAllConsensusStates
    modules/core/02-client/v2/genesis.go
    modules/core/03-connection/genesis.go   + keeper.GetAllClientConnectionPaths / CreateSentinelLocalhostConnection
    modules/core/04-channel/genesis.go      + keeper.GetAllPacketSendSeqs (send sequences live under the v2 key)
    modules/core/04-channel/v2/genesis.go

  The "ibc" store is modelled as a record of *typed* maps, one per key kind of 24-host, 24-host/v2,
  04-channel/v2/types/keys.go and the client sub-stores (the typed-store abstraction is C16's
  statement; the harness classifies every raw key and keeps unknown keys in `other`).  A map is an
  association list kept strictly sorted by key.  Values are opaque strings (hex / hash of the stored
  bytes): Export/InitGenesis never look inside a value, they decode and re-encode it (proto, canonical),
  which the correspondence run checks on the real bytes.

  The model mirrors WHICH entries the real functions iterate over:
    * client export: `GetAllGenesisClients` = ids that own a `clientState` key; metadata only for
      those ids; consensus states for every id (IterateConsensusStates does not filter);
    * clientv2 export, channelv2 export, client-connection paths: loops over `GetAllGenesisClients`;
    * v1 send sequences: loop over the channels, reading `nextSequenceSend//<channelID>`;
    * nothing reads `<channelID>alias` (04-channel/v2 keeper.SetClientForAlias has no genesis field).
  So everything keyed by a v1 channel identifier acting as a v2 alias is not exported.
-/
namespace IbcVerif.Genesis

abbrev Val := String

/-! ### strictly ordered keys -/

/-- A decidable strict total order on a key type. -/
class KeyOrd (κ : Type) where
  lt : κ → κ → Bool
  irrefl : ∀ a, lt a a = false
  trans : ∀ a b c, lt a b = true → lt b c = true → lt a c = true
  tri : ∀ a b, lt a b = false → lt b a = false → a = b

instance : KeyOrd String where
  lt a b := decide (a < b)
  irrefl a := by simp
  trans a b c h1 h2 := by
    simp only [decide_eq_true_eq] at *
    exact String.lt_trans h1 h2
  tri a b h1 h2 := by
    simp only [decide_eq_false_iff_not, String.not_lt] at *
    exact String.le_antisymm h2 h1

instance : KeyOrd Nat where
  lt a b := decide (a < b)
  irrefl a := by simp
  trans a b c h1 h2 := by
    simp only [decide_eq_true_eq] at *
    omega
  tri a b h1 h2 := by
    simp only [decide_eq_false_iff_not] at *
    omega

/-- lexicographic order on pairs -/
instance {α β : Type} [KeyOrd α] [KeyOrd β] : KeyOrd (α × β) where
  lt a b := KeyOrd.lt a.1 b.1 || (!KeyOrd.lt b.1 a.1 && KeyOrd.lt a.2 b.2)
  irrefl a := by simp [KeyOrd.irrefl]
  trans a b c h1 h2 := by
    simp only [Bool.or_eq_true, Bool.and_eq_true, Bool.not_eq_true'] at *
    rcases h1 with h1 | ⟨h1, h1'⟩ <;> rcases h2 with h2 | ⟨h2, h2'⟩
    · exact Or.inl (KeyOrd.trans _ _ _ h1 h2)
    · cases hcb : KeyOrd.lt b.1 c.1
      · have := KeyOrd.tri _ _ hcb h2
        rw [← this]; exact Or.inl h1
      · exact Or.inl (KeyOrd.trans _ _ _ h1 hcb)
    · cases hab : KeyOrd.lt a.1 b.1
      · have := KeyOrd.tri _ _ hab h1
        rw [this]; exact Or.inl h2
      · exact Or.inl (KeyOrd.trans _ _ _ hab h2)
    · cases hab : KeyOrd.lt a.1 b.1
      · cases hbc : KeyOrd.lt b.1 c.1
        · have e1 := KeyOrd.tri _ _ hab h1
          have e2 := KeyOrd.tri _ _ hbc h2
          refine Or.inr ⟨?_, KeyOrd.trans _ _ _ h1' h2'⟩
          rw [e1, ← e2]; exact KeyOrd.irrefl _
        · have e1 := KeyOrd.tri _ _ hab h1
          rw [e1]; exact Or.inl hbc
      · cases hbc : KeyOrd.lt b.1 c.1
        · have e2 := KeyOrd.tri _ _ hbc h2
          rw [← e2]; exact Or.inl hab
        · exact Or.inl (KeyOrd.trans _ _ _ hab hbc)
  tri a b h1 h2 := by
    simp only [Bool.or_eq_false_iff, Bool.and_eq_false_iff, Bool.not_eq_false'] at *
    obtain ⟨h1, h1'⟩ := h1
    obtain ⟨h2, h2'⟩ := h2
    have e1 : a.1 = b.1 := KeyOrd.tri _ _ h1 h2
    have e2 : a.2 = b.2 := by
      rcases h1' with h | h
      · rw [h2] at h; cases h
      · rcases h2' with h' | h'
        · rw [h1] at h'; cases h'
        · exact KeyOrd.tri _ _ h h'
    exact Prod.ext e1 e2

/-! ### sorted association lists -/

/-- Insert or overwrite (a KV-store `Set`), keeping the list sorted. -/
def insert {κ β : Type} [KeyOrd κ] (k : κ) (v : β) : List (κ × β) → List (κ × β)
  | [] => [(k, v)]
  | (k', v') :: t =>
    if KeyOrd.lt k k' then (k, v) :: (k', v') :: t
    else if KeyOrd.lt k' k then (k', v') :: insert k v t
    else (k, v) :: t

/-- A sequence of `Set` calls in list order. -/
def insertAll {κ β : Type} [KeyOrd κ] (acc : List (κ × β)) (l : List (κ × β)) : List (κ × β) :=
  l.foldl (fun m e => insert e.1 e.2 m) acc

/-- strictly sorted by key (hence no duplicate keys) -/
def Sorted {κ β : Type} [KeyOrd κ] (m : List (κ × β)) : Prop :=
  m.Pairwise (fun a b => KeyOrd.lt a.1 b.1 = true)

def sortedB {κ β : Type} [KeyOrd κ] : List (κ × β) → Bool
  | [] => true
  | [_] => true
  | a :: b :: t => KeyOrd.lt a.1 b.1 && sortedB (b :: t)

/-! ### the typed state of the ibc store -/

abbrev Id := String
abbrev PortChan := String × String
abbrev PortChanSeq := String × String × Nat
abbrev IdSeq := String × Nat

/-- `clients/<id>/<sub>` : client state, consensus states, light-client metadata, and the v2
    `counterparty` / `config` entries, the `creator` and the client's `connections` list, which all
    live in the client's prefix store (02-client/keeper.ClientStore). -/
abbrev ClientKey := String × String

structure State where
  clientParams : Val
  nextClientSeq : Val
  cstore : List (ClientKey × Val)
  conns : List (Id × Val)
  connParams : Val
  nextConnSeq : Val
  chans : List (PortChan × Val)
  nextRecv : List (PortChan × Val)
  nextAck : List (PortChan × Val)
  /-- `nextSequenceSend//<id>` — one key space for v1 channel ids and v2 client ids
      (04-channel/keeper/keeper.go:157-183 stores the v1 sequence under the v2 key) -/
  nextSend : List (Id × Val)
  commits : List (PortChanSeq × Val)
  receipts : List (PortChanSeq × Val)
  acks : List (PortChanSeq × Val)
  nextChanSeq : Val
  commits2 : List (IdSeq × Val)
  receipts2 : List (IdSeq × Val)
  acks2 : List (IdSeq × Val)
  async2 : List (IdSeq × Val)
  /-- `<channelID>alias` ↦ base client id (04-channel/v2/types/keys.go AliasKey) -/
  alias : List (Id × Val)
  /-- keys of no known kind (kept so that nothing is silently ignored) -/
  other : List (String × Val)
deriving DecidableEq, Repr

/-- values that do not come from the exported genesis -/
structure Env where
  /-- the sentinel `connection-localhost` end written by `CreateSentinelLocalhostConnection` -/
  localhostConn : Val
  /-- decoding of stored `counterparty` values: the counterparty's client id, the one field of an
      (otherwise opaque) value that genesis validation inspects -/
  cpId : List (Val × Id)
deriving DecidableEq, Repr

def Env.cpIdOf (env : Env) (v : Val) : Option Id := (env.cpId.find? (fun e => e.1 == v)).map (fun e => e.2)

def localhostConnId : Id := "connection-localhost"
/-- `SetPacketReceipt` of 04-channel writes the single byte 0x01, of 04-channel/v2 the byte 0x02,
    whatever the genesis entry's data is. -/
def receiptV1 : Val := "01"
def receiptV2 : Val := "02"

def keyClientState : String := "clientState"
def keyCounterparty : String := "counterparty"
def keyConnections : String := "connections"

/-- `consensusStates/<height>` with no further `/` : the 4-component rule of
    IterateConsensusStates / iterateMetadata (`len(split) == 4 && split[2] == "consensusStates"`). -/
def isConsKey (sub : String) : Bool :=
  let cs := sub.toList
  let p := "consensusStates/".toList
  p.isPrefixOf cs && !((cs.drop p.length).contains '/')

/-- what `iterateMetadata` reports: everything in the client store except the client state key and
    consensus state keys -/
def isMetaKey (sub : String) : Bool := !(sub == keyClientState) && !isConsKey sub

namespace State

/-- `GetAllGenesisClients`: the identifiers that own a `clientState` entry, in store order
    (`.Sort()` by identifier is the same order). -/
def genIds (s : State) : List Id :=
  (s.cstore.filter (fun e => e.1.2 == keyClientState)).map (fun e => e.1.1)

def inGen (s : State) (id : Id) : Bool := s.genIds.contains id

def chanIds (s : State) : List Id := s.chans.map (fun e => e.1.2)

def isChan (s : State) (id : Id) : Bool := s.chanIds.contains id

end State

/-! ### genesis -/

structure Genesis where
  -- 02-client
  clients : List (Id × Val)
  clientsMeta : List (ClientKey × Val)
  clientsConsensus : List (ClientKey × Val)
  clientParams : Val
  nextClientSeq : Val
  -- 02-client/v2
  counterparties : List (Id × Val)
  -- 03-connection
  connections : List (Id × Val)
  clientConnPaths : List (Id × Val)
  nextConnSeq : Val
  connParams : Val
  -- 04-channel
  channels : List (PortChan × Val)
  acks : List (PortChanSeq × Val)
  commits : List (PortChanSeq × Val)
  receipts : List (PortChanSeq × Val)
  sendSeqs : List (PortChan × Val)
  recvSeqs : List (PortChan × Val)
  ackSeqs : List (PortChan × Val)
  nextChanSeq : Val
  -- 04-channel/v2
  acks2 : List (IdSeq × Val)
  commits2 : List (IdSeq × Val)
  receipts2 : List (IdSeq × Val)
  async2 : List (IdSeq × Val)
  sendSeqs2 : List (Id × Val)
deriving DecidableEq, Repr

/-- `GetAllPacketSendSeqs` panics when a channel has no `nextSequenceSend` entry. -/
def exportPanics (s : State) : Bool :=
  s.chans.any (fun c => !(s.nextSend.any (fun e => e.1 == c.1.2)))

/-- for every genesis client: the entries of map `m` stored under that client id -/
def perClient {β : Type} (s : State) (m : List (IdSeq × β)) : List (IdSeq × β) :=
  s.genIds.flatMap (fun id => m.filter (fun e => e.1.1 == id))

/-- `ibc.ExportGenesis` -/
def exportG (s : State) : Genesis :=
  { -- client.ExportGenesis
    clients := (s.cstore.filter (fun e => e.1.2 == keyClientState)).map (fun e => (e.1.1, e.2))
    -- GetAllClientMetadata(genClients): metadataMap[clientID] only for genesis clients
    clientsMeta := s.genIds.flatMap (fun id => s.cstore.filter (fun e => e.1.1 == id && isMetaKey e.1.2))
    -- GetAllConsensusStates: every `clients/<id>/consensusStates/<h>` key, whatever the id
    clientsConsensus := s.cstore.filter (fun e => isConsKey e.1.2)
    clientParams := s.clientParams
    nextClientSeq := s.nextClientSeq
    -- clientv2.ExportGenesis: for client in GetAllGenesisClients: GetClientCounterparty(client.ClientId)
    counterparties := s.genIds.flatMap (fun id =>
      (s.cstore.filter (fun e => e.1 == (id, keyCounterparty))).map (fun e => (id, e.2)))
    -- connection.ExportGenesis
    connections := s.conns
    -- GetAllClientConnectionPaths: IterateClientStates, GetClientConnectionPaths(clientID)
    clientConnPaths := s.genIds.flatMap (fun id =>
      (s.cstore.filter (fun e => e.1 == (id, keyConnections))).map (fun e => (id, e.2)))
    nextConnSeq := s.nextConnSeq
    connParams := s.connParams
    -- channel.ExportGenesis
    channels := s.chans
    acks := s.acks
    commits := s.commits
    receipts := s.receipts
    -- GetAllPacketSendSeqs: IterateChannels, GetNextSequenceSend(port, channelID) (v2 key, channel id only)
    sendSeqs := s.chans.flatMap (fun c =>
      (s.nextSend.filter (fun e => e.1 == c.1.2)).map (fun e => (c.1, e.2)))
    recvSeqs := s.nextRecv
    ackSeqs := s.nextAck
    nextChanSeq := s.nextChanSeq
    -- channelv2.ExportGenesis: for clientState in GetAllGenesisClients: ...ForClient(clientState.ClientId)
    acks2 := perClient s s.acks2
    commits2 := perClient s s.commits2
    receipts2 := perClient s s.receipts2
    async2 := perClient s s.async2
    sendSeqs2 := s.genIds.flatMap (fun id => s.nextSend.filter (fun e => e.1 == id)) }

/-- the ibc store of a chain that ran `InitGenesis(DefaultGenesisState)`: parameters, zero counters
    and the sentinel localhost connection; every scalar is overwritten by any later InitGenesis. -/
def fresh (env : Env) : State :=
  { clientParams := "", nextClientSeq := "", cstore := [], conns := [(localhostConnId, env.localhostConn)],
    connParams := "", nextConnSeq := "", chans := [], nextRecv := [], nextAck := [], nextSend := [],
    commits := [], receipts := [], acks := [], nextChanSeq := "", commits2 := [], receipts2 := [],
    acks2 := [], async2 := [], alias := [], other := [] }

/-- `ibc.InitGenesis` applied to the fresh store: the `Set` calls in the order of the Go code. -/
def importG (env : Env) (g : Genesis) : State :=
  let f := fresh env
  { -- client.InitGenesis: SetParams; SetAllClientMetadata; SetClientState*; SetClientConsensusState*; SetNextClientSequence
    clientParams := g.clientParams
    nextClientSeq := g.nextClientSeq
    cstore := insertAll f.cstore
      (g.clientsMeta
        ++ g.clients.map (fun e => ((e.1, keyClientState), e.2))
        ++ g.clientsConsensus
        -- clientv2.InitGenesis: SetClientCounterparty
        ++ g.counterparties.map (fun e => ((e.1, keyCounterparty), e.2))
        -- connection.InitGenesis: SetClientConnectionPaths
        ++ g.clientConnPaths.map (fun e => ((e.1, keyConnections), e.2)))
    -- connection.InitGenesis: SetConnection*; ...; CreateSentinelLocalhostConnection
    conns := insertAll f.conns (g.connections ++ [(localhostConnId, env.localhostConn)])
    connParams := g.connParams
    nextConnSeq := g.nextConnSeq
    -- channel.InitGenesis (it only Sets what the genesis lists; no alias is derived for OPEN UNORDERED channels)
    chans := insertAll f.chans g.channels
    acks := insertAll f.acks g.acks
    commits := insertAll f.commits g.commits
    receipts := insertAll f.receipts (g.receipts.map (fun e => (e.1, receiptV1)))
    nextRecv := insertAll f.nextRecv g.recvSeqs
    nextAck := insertAll f.nextAck g.ackSeqs
    nextChanSeq := g.nextChanSeq
    -- channel.InitGenesis SetNextSequenceSend(port, channel, seq) then channelv2.InitGenesis SetNextSequenceSend(client, seq): same key space
    nextSend := insertAll f.nextSend (g.sendSeqs.map (fun e => (e.1.2, e.2)) ++ g.sendSeqs2)
    -- channelv2.InitGenesis
    acks2 := insertAll f.acks2 g.acks2
    commits2 := insertAll f.commits2 g.commits2
    receipts2 := insertAll f.receipts2 (g.receipts2.map (fun e => (e.1, receiptV2)))
    async2 := insertAll f.async2 g.async2
    alias := f.alias
    other := f.other }

/-- clientv2 `GenesisState.Validate` (02-client/v2/types/genesis.go), restricted to the one rule an
    exported genesis can break: "counterparty client id and client id cannot be the same". (The other
    rules — non-empty client id, non-empty merkle prefix, no duplicate client id — hold for every
    export: ids come from store keys, RegisterCounterparty rejects an empty prefix, and
    GetAllGenesisClients lists each id once.) Both `ValidateGenesis` and `clientv2.InitGenesis` run it. -/
def clientV2GenesisValid (env : Env) (g : Genesis) : Bool :=
  g.counterparties.all (fun e => !(env.cpIdOf e.2 == some e.1))

/-- `ibc.InitGenesis` including the validation that makes it panic (`none`): the chain cannot start. -/
def initGenesis (env : Env) (g : Genesis) : Option State :=
  if clientV2GenesisValid env g then some (importG env g) else none

/-- A light client whose registered v2 counterparty carries the same client identifier as the client
    itself (both chains named their client e.g. `07-tendermint-0`; MsgRegisterCounterparty accepts it). -/
def SelfNamedCounterparty (env : Env) (s : State) : Prop :=
  ∃ e ∈ s.cstore, e.1.2 = keyCounterparty ∧ s.inGen e.1.1 = true ∧ env.cpIdOf e.2 = some e.1.1

/-- The part of a state that survives export/import: entries keyed by an identifier that is not a
    light client (in reachable states: a v1 channel id used as a v2 alias) are dropped, together with
    the alias map itself. -/
def dropAlias (s : State) : State :=
  { s with
    cstore := s.cstore.filter (fun e => isConsKey e.1.2 || s.inGen e.1.1)
    nextSend := s.nextSend.filter (fun e => s.isChan e.1 || s.inGen e.1)
    commits2 := s.commits2.filter (fun e => s.inGen e.1.1)
    receipts2 := s.receipts2.filter (fun e => s.inGen e.1.1)
    acks2 := s.acks2.filter (fun e => s.inGen e.1.1)
    async2 := s.async2.filter (fun e => s.inGen e.1.1)
    alias := []
    other := [] }

/-- Well-formed store: maps sorted by key, the sentinel localhost connection present, receipts hold
    the fixed receipt byte, and the export does not panic. All of this holds in every state the
    handlers can produce. -/
structure WF (env : Env) (s : State) : Prop where
  cstore : Sorted s.cstore
  conns : Sorted s.conns
  chans : Sorted s.chans
  nextRecv : Sorted s.nextRecv
  nextAck : Sorted s.nextAck
  nextSend : Sorted s.nextSend
  commits : Sorted s.commits
  receipts : Sorted s.receipts
  acks : Sorted s.acks
  commits2 : Sorted s.commits2
  receipts2 : Sorted s.receipts2
  acks2 : Sorted s.acks2
  async2 : Sorted s.async2
  alias : Sorted s.alias
  other : Sorted s.other
  localhost : (localhostConnId, env.localhostConn) ∈ s.conns
  receiptV1 : ∀ e ∈ s.receipts, e.2 = receiptV1
  receiptV2 : ∀ e ∈ s.receipts2, e.2 = receiptV2
  noPanic : exportPanics s = false

/-- executable version of `WF` (used by the driver and for concrete examples) -/
def wfB (env : Env) (s : State) : Bool :=
  sortedB s.cstore && sortedB s.conns && sortedB s.chans && sortedB s.nextRecv && sortedB s.nextAck &&
  sortedB s.nextSend && sortedB s.commits && sortedB s.receipts && sortedB s.acks && sortedB s.commits2 &&
  sortedB s.receipts2 && sortedB s.acks2 && sortedB s.async2 && sortedB s.alias && sortedB s.other &&
  s.conns.contains (localhostConnId, env.localhostConn) &&
  s.receipts.all (fun e => e.2 == receiptV1) && s.receipts2.all (fun e => e.2 == receiptV2) &&
  !exportPanics s

/-- No state keyed by a non-client identifier: no alias entries, no unknown keys; every client-store
    entry is a consensus state or belongs to a light client; every v2 packet-state entry belongs to a
    light client; every send sequence belongs to a v1 channel or a light client. -/
structure NoAliasState (s : State) : Prop where
  alias : s.alias = []
  other : s.other = []
  cstore : ∀ e ∈ s.cstore, isConsKey e.1.2 = true ∨ s.inGen e.1.1 = true
  nextSend : ∀ e ∈ s.nextSend, s.isChan e.1 = true ∨ s.inGen e.1 = true
  commits2 : ∀ e ∈ s.commits2, s.inGen e.1.1 = true
  receipts2 : ∀ e ∈ s.receipts2, s.inGen e.1.1 = true
  acks2 : ∀ e ∈ s.acks2, s.inGen e.1.1 = true
  async2 : ∀ e ∈ s.async2, s.inGen e.1.1 = true

end IbcVerif.Genesis
