/-
  Identifier formatting / parsing / validation.
    modules/core/02-client/types/keys.go   FormatClientIdentifier, IsClientIDFormat, ParseClientIdentifier
    modules/core/02-client/types/client.go ValidateClientType
    modules/core/04-channel/types/keys.go  FormatChannelIdentifier, IsChannelIDFormat, ParseChannelSequence
    modules/core/03-connection/types/keys.go  (same for connection-)
    modules/core/24-host/validate.go       defaultIdentifierValidator (character level)
  Regular expressions are re-implemented as recognisers (Go RE2: `\w` = [0-9A-Za-z_], `$` = end of text).
-/
import IbcVerif.Model.Dec
import IbcVerif.Model.Split
namespace IbcVerif.Ident
open IbcVerif

/-- `\w` -/
def wordChar (c : Char) : Bool := c.isAlphanum || c == '_'

/-- `IsValidID` alphabet of 24-host, per character -/
def idChar (c : Char) : Bool :=
  c.isAlphanum || c == '.' || c == '_' || c == '+' || c == '-' || c == '#' || c == '[' || c == ']' || c == '<' || c == '>'

/-- `defaultIdentifierValidator(id, min, max)` (blank / '/' / length / alphabet) -/
def validId (s : List Char) (min max : Nat) : Bool :=
  !s.isEmpty && min ≤ s.length && s.length ≤ max && s.all idChar

/-- shape of the part before the last '-' in `^\w+([\w-]+\w)?-[0-9]{1,20}$`:
    non-empty, only `\w` and '-', first and last character in `\w`. -/
def typeShape (a : List Char) : Bool :=
  match a with
  | [] => false
  | c :: _ => wordChar c && a.all (fun x => wordChar x || x == '-') &&
      (match a.getLast? with | some l => wordChar l | none => false)

def digits1to20 (d : List Char) : Bool := !d.isEmpty && d.length ≤ 20 && d.all Char.isDigit

/-- split at the last '-': (everything before, everything after) -/
def splitLastDash (s : List Char) : Option (List Char × List Char) :=
  match (splitOn '-' s).reverse with
  | last :: r :: rest => some (joinOn '-' (r :: rest).reverse, last)
  | _ => none

/-- `IsClientIDFormat` -/
def isClientIDFormat (s : List Char) : Bool :=
  match splitLastDash s with
  | some (a, d) => typeShape a && digits1to20 d
  | none => false

def localhostID : List Char := ['0', '9', '-', 'l', 'o', 'c', 'a', 'l', 'h', 'o', 's', 't']

def formatClientIdentifier (t : List Char) (n : Nat) : List Char := t ++ '-' :: dec n

/-- `ParseClientIdentifier` -/
def parseClientIdentifier (s : List Char) : Option (List Char × Nat) :=
  if s = localhostID then some (s, 0)
  else if isClientIDFormat s then
    match splitLastDash s with
    | some (a, d) => (parseUint64 d).map (fun n => (a, n))
    | none => none
  else none

def maxU64 : Nat := 2^64 - 1

/-- `ValidateClientType` -/
def validateClientType (t : List Char) : Bool :=
  (parseClientIdentifier (formatClientIdentifier t 0)).isSome &&
  validId (formatClientIdentifier t 0) 4 64 && validId (formatClientIdentifier t maxU64) 4 64

def channelPrefix : List Char := ['c', 'h', 'a', 'n', 'n', 'e', 'l', '-']
def connectionPrefix : List Char := ['c', 'o', 'n', 'n', 'e', 'c', 't', 'i', 'o', 'n', '-']

def formatWithPrefix (p : List Char) (n : Nat) : List Char := p ++ dec n

/-- `ParseChannelSequence` / `ParseConnectionSequence`: `^<prefix>[0-9]{1,20}$` then ParseUint -/
def parseWithPrefix (p s : List Char) : Option Nat :=
  if p.isPrefixOf s then
    let d := s.drop p.length
    if digits1to20 d then parseUint64 d else none
  else none

end IbcVerif.Ident
