/-
  The bank / tracked-escrow moves of packet-forward-middleware's refund of a failed forward, on the
  ICS-20 chain state (modules/apps/packet-forward-middleware/keeper/keeper.go,
  `WriteAcknowledgementForForwardedPacket`, error-acknowledgement / timeout branch; `unescrowToken`).

  Setting: the intermediate chain received packet P1 over the *refund* channel `(rp, rc)`, ICS-20's
  receive credited PFM's override receiver, and PFM forwarded the coin with a `MsgTransfer` over the
  *forward* channel `(fp, fc)` (packet P2, carrying token `D`, amount `n`).  When P2 fails, PFM does not let
  ICS-20 refund the override receiver; it moves the funds straight back to where the receive of P1
  took them from:

    * forward escrowed (`¬ D.hasPrefix fp fc`), `D` did not arrive as a voucher of the refund channel
      (`¬ D.hasPrefix rp rc`, i.e. the receive had unescrowed it): escrow(fc) → escrow(rc), tracked total
      untouched;
    * forward escrowed, `D` is the voucher minted by the receive (`D.hasPrefix rp rc`): escrow(fc) →
      module, burn, tracked total decremented (`unescrowToken`);
    * forward burned (`D.hasPrefix fp fc`), `¬ D.hasPrefix rp rc`: mint, module → escrow(rc), tracked
      total incremented;
    * forward burned and `D.hasPrefix rp rc` (the packet bounced back over the channel it arrived on):
      nothing to restore (fix f970a92).

  The ICS-20 write of the error acknowledgement for P1 is core IBC's business (abstract here).
-/
import IbcVerif.Model.Ics20
namespace IbcVerif.Ics20
open IbcVerif.Xfer

/-- `WriteAcknowledgementForForwardedPacket`, failure branch: the refund moves on chain state `ch` -/
def pfmRefund (cfg : Config) (ch : Chain) (fp fc rp rc : Str) (D : Denom) (n : Nat) : M Chain :=
  if !sdkValidDenom (D.ibcDenom cfg.hashHex) then .error .panic                 -- `sdk.NewCoin`
  else if !D.hasPrefix fp fc then
    if !D.hasPrefix rp rc then
      match ch.bank.send (cfg.escrowAddr fp fc) (cfg.escrowAddr rp rc) (D.ibcDenom cfg.hashHex) n with
      | none => .error (.err "undefined/1")
      | some b => .ok { ch with bank := b }
    else
      match ch.bank.send (cfg.escrowAddr fp fc) cfg.moduleAddr (D.ibcDenom cfg.hashHex) n with
      | none => .error (.err "undefined/1")
      | some b =>
        match b.burn cfg.moduleAddr (D.ibcDenom cfg.hashHex) n with
        | none => .error .panic
        | some b' =>
          -- `unescrowToken`: `currentTotalEscrow.Sub(token)` panics when negative
          if ch.totalEscrow (D.ibcDenom cfg.hashHex) < n then .error .panic
          else .ok (setTotalEscrow { ch with bank := b' } (D.ibcDenom cfg.hashHex) (ch.totalEscrow (D.ibcDenom cfg.hashHex) - n))
  else
    if !D.hasPrefix rp rc then
      match (ch.bank.mint cfg.moduleAddr (D.ibcDenom cfg.hashHex) n).send cfg.moduleAddr (cfg.escrowAddr rp rc)
          (D.ibcDenom cfg.hashHex) n with
      | none => .error (.err "undefined/1")
      | some b' =>
        .ok (setTotalEscrow { ch with bank := b' } (D.ibcDenom cfg.hashHex) (ch.totalEscrow (D.ibcDenom cfg.hashHex) + n))
    else .ok ch

/-- the refund as a step of the world: chain `c` is the intermediate chain -/
def World.pfmRefund (cfg : Config) (w : World) (c : Nat) (fp fc rp rc : Str) (D : Denom) (n : Nat) : World × Res :=
  match Ics20.pfmRefund cfg (w.chains c) fp fc rp rc D n with
  | .ok ch' => (w.setChain c ch', .ok)
  | .error f => (w, failRes f)

end IbcVerif.Ics20
