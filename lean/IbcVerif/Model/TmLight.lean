/-
  Hand model of the CometBFT (v0.40) light-client verification that 07-tendermint calls:
  `types.VerifyCommitLight`, `types.VerifyCommitLightTrusting` (validation.go: verifyCommitSingle /
  verifyCommitBatch, which are behaviourally equivalent) and `light.Verify` (light/verifier.go),
  over *symbolic signatures*: a signature is the pair (signer key, signed message) and verifies for a
  validator and a message iff both coincide (Dolev-Yao idealisation; DESIGN §3.5).
  This is library code, not ibc-go's: the model is tied to the real library by the `power` correspondence
  group, and is used by IbcVerif/Props/C24Power.lean only.
-/
namespace IbcVerif.Tm.Light

/-- a commit signature after it has been resolved against a validator set -/
inductive Entry
  /-- ignored: absent, a vote for nil, or (trusting mode) a signer unknown to the set -/
  | skip
  /-- structural error when reached: address mismatch at its index (own set) / double vote (trusting) / malformed -/
  | fail
  /-- a vote for the block by a validator of the set with this voting power; `sigOK`: its signature verifies -/
  | count (power : Nat) (sigOK : Bool)
deriving Repr, DecidableEq

/-- the sequential scan of `verifyCommitSingle` with `countAllSignatures = false`: signatures are checked
    in order; the scan succeeds as soon as the tallied power exceeds `needed` and fails at the first bad
    signature reached before that, or at the end. -/
def scan (needed : Nat) : List Entry → Nat → Bool
  | [], _ => false
  | .skip :: r, t => scan needed r t
  | .fail :: _, _ => false
  | .count p ok :: r, t => if !ok then false else if t + p > needed then true else scan needed r (t + p)

/-- voting power of the validators whose signature for the block really verifies -/
def validPower : List Entry → Nat
  | [] => 0
  | .count p true :: r => p + validPower r
  | _ :: r => validPower r

/-- `VerifyCommitLight`: `votingPowerNeeded = total * 2 / 3` (integer division), strict `>` -/
def verifyCommitLight (total : Nat) (es : List Entry) : Bool := scan (total * 2 / 3) es 0

/-- `VerifyCommitLightTrusting`: `votingPowerNeeded = total * num / den`, strict `>` -/
def verifyCommitLightTrusting (total num den : Nat) (es : List Entry) : Bool :=
  if den = 0 then false else scan (total * num / den) es 0

/-! ### symbolic signatures -/

structure Val where
  addr : Nat
  power : Nat
deriving Repr, DecidableEq

inductive CSig
  | absent
  | nilVote (addr : Nat)
  /-- a precommit for the block claiming validator address `addr`, whose signature was produced by key
      `signer` over the sign bytes `msg` -/
  | commit (addr signer msg : Nat)
deriving Repr, DecidableEq

/-- own-set resolution (look-up by index): `m` are the sign bytes the verifier computes for this index -/
def ownEntry (v : Val) (m : Nat) : CSig → Entry
  | .commit a s msg => if a ≠ v.addr then .fail else .count v.power (decide (s = v.addr ∧ msg = m))
  | _ => .skip

def ownEntries : List Val → List Nat → List CSig → List Entry
  | v :: vs, m :: ms, c :: cs => ownEntry v m c :: ownEntries vs ms cs
  | _, _, _ => []

def findVal (vals : List Val) (a : Nat) : Option Val := vals.find? (fun v => v.addr = a)

/-- trusted-set resolution (look-up by address; unknown signers skipped; double votes are an error) -/
def trustEntries (vals : List Val) : List Nat → List CSig → List Nat → List Entry
  | m :: ms, .commit a s msg :: cs, seen =>
    match findVal vals a with
    | none => .skip :: trustEntries vals ms cs seen
    | some v =>
      if seen.contains a then .fail :: trustEntries vals ms cs seen
      else .count v.power (decide (s = v.addr ∧ msg = m)) :: trustEntries vals ms cs (a :: seen)
  | _ :: ms, _ :: cs, seen => .skip :: trustEntries vals ms cs seen
  | _, _, _ => []

/-! ### light.Verify -/

structure LvIn where
  trustedH : Nat
  untrustedH : Nat
  trustedTs : Int
  untrustedTs : Int
  now : Int
  tp : Int
  drift : Int
  /-- `untrustedHeader.ValidateBasic(trustedHeader.ChainID)`: same chain id, well-formed header and commit,
      commit is for this header -/
  basicOK : Bool
  /-- `untrustedHeader.ValidatorsHash == untrustedVals.Hash()` -/
  valsHashOK : Bool
  /-- `untrustedHeader.ValidatorsHash == trustedHeader.NextValidatorsHash` (adjacent case) -/
  nextValsMatch : Bool
  ownTotal : Nat
  own : List Entry
  trustTotal : Nat
  trust : List Entry
  tlNum : Nat
  tlDen : Nat
deriving Repr

/-- `HeaderExpired` -/
def headerExpired (i : LvIn) : Bool := !decide (i.trustedTs + i.tp > i.now)

/-- `verifyNewHeaderAndVals` -/
def verifyNewHeaderAndVals (i : LvIn) : Bool :=
  i.basicOK && decide (i.untrustedH > i.trustedH) && decide (i.untrustedTs > i.trustedTs) &&
  decide (i.untrustedTs < i.now + i.drift) && i.valsHashOK

/-- `light.Verify` -/
def lightVerify (i : LvIn) : Bool :=
  if i.untrustedH ≠ i.trustedH + 1 then
    -- VerifyNonAdjacent
    if headerExpired i then false
    else if !verifyNewHeaderAndVals i then false
    else if !verifyCommitLightTrusting i.trustTotal i.tlNum i.tlDen i.trust then false
    else verifyCommitLight i.ownTotal i.own
  else
    -- VerifyAdjacent
    if headerExpired i then false
    else if !verifyNewHeaderAndVals i then false
    else if !i.nextValsMatch then false
    else verifyCommitLight i.ownTotal i.own

end IbcVerif.Tm.Light
