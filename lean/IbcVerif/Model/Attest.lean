/-
  Model of modules/light-clients/attestations (signature.go, client_state.go, update.go,
  light_client_module.go) and of the 02-client keeper's UpdateClient / VerifyMembership gates for it.

  Not ibc-go's, hence parameters:
    * `H`       SHA-256 (the driver instantiates the executable one of Model/Sha256);
    * `keccak`  go-ethereum's Keccak256;
    * ECDSA     symbolic (DESIGN §3.5): a 65-byte signature is `Sig.signed signer digest` — produced by
                `signer`'s key over the 32-byte `digest`, in any of its encodings (v ∈ {0,1,27,28},
                low/high s) — or `Sig.unrecoverable`; recovery under another digest yields an address
                that is nobody's (`Rec.foreign`);
    * ABI       go-ethereum's decoder: `decState` / `decPacket` (what `ABIDecodeStateAttestation` /
                `ABIDecodePacketAttestation` return for the attestation data);
    * protobuf  `cdc.Unmarshal(proof)`: a proof argument is `none` when unmarshalling fails.
-/
namespace IbcVerif.Attest

abbrev Bytes := List UInt8
/-- an Ethereum address (the harness names addresses by small numbers) -/
abbrev Addr := Nat

/-- `AttestationTypeState` / `AttestationTypePacket` -/
def tagState : UInt8 := 1
def tagPacket : UInt8 := 2

/-- `TaggedSigningInput`: sha256(type_tag || sha256(data)) -/
def tagged (H : Bytes → Bytes) (ty : UInt8) (data : Bytes) : Bytes := H (ty :: H data)

inductive Sig where
  /-- `len` bytes that are not a 65-byte signature -/
  | malformed (len : Nat)
  /-- 65 bytes for which `crypto.SigToPub` fails (bad recovery id, r/s out of range, …) -/
  | unrecoverable
  /-- 65 bytes: a signature by `signer`'s key over `digest` -/
  | signed (signer : Addr) (digest : Bytes)
deriving DecidableEq, Repr

def Sig.len : Sig → Nat
  | .malformed n => n
  | _ => 65

inductive Rec where
  | fail | foreign | addr (a : Addr)
deriving DecidableEq, Repr

/-- `crypto.SigToPub(hash, normalizeSignature(sig))` then `PubkeyToAddress` -/
def recover (σ : Sig) (digest : Bytes) : Rec :=
  match σ with
  | .signed a d => if d == digest then .addr a else .foreign
  | _ => .fail

inductive Err where
  | invalidSignature | invalidQuorum | duplicateSigner | unknownSigner   -- signature.go
  | clientFrozen | invalidPath | invalidAttestationData | consensusStateNotFound
  | invalidAttestationProof | invalidHeight | invalidType | invalidValue | notMember
  | nonMembershipFailed | invalidClient | clientNotFound | clientNotActive
  | invalidRequest | invalidUpgradeClient
  /-- not an error value: CheckForMisbehaviour / UpdateState panic when the data does not ABI-decode -/
  | panic
deriving DecidableEq, Repr

/-- the `for i, sig := range proof.Signatures` loop; `seen` = `seenSigners` -/
def sigLoop (attestors : List Addr) (digest : Bytes) : List Sig → List Addr → Except Err Unit
  | [], _ => .ok ()
  | σ :: rest, seen =>
    if σ.len != 65 then .error .invalidSignature
    else match recover σ digest with
      | .fail => .error .invalidSignature
      | .foreign => .error .unknownSigner      -- a fresh address: not seen, not an attestor
      | .addr a =>
        if seen.contains a then .error .duplicateSigner
        else if !attestors.contains a then .error .unknownSigner
        else sigLoop attestors digest rest (a :: seen)

structure ClientState where
  attestors : List Addr
  minSigs : Nat
  latest : Nat
  frozen : Bool
deriving DecidableEq, Repr

/-- `ClientState.verifySignatures` -/
def verifySignatures (H : Bytes → Bytes) (cs : ClientState) (data : Bytes) (sigs : List Sig)
    (ty : UInt8) : Except Err Unit :=
  if sigs.length == 0 then .error .invalidSignature
  else if sigs.length < cs.minSigs then .error .invalidQuorum
  else match sigLoop cs.attestors (tagged H ty data) sigs [] with
    | .error e => .error e
    | .ok () => if sigs.length < cs.minSigs then .error .invalidQuorum else .ok ()

/-- an `AttestationProof` together with what the ABI decoder makes of its data -/
structure Proof where
  data : Bytes
  sigs : List Sig
  /-- go-ethereum's ABI decoding of the data as (uint64 height, uint64 timestamp in seconds) -/
  decState : Option (Nat × Nat)
  /-- `ABIDecodePacketAttestation`: (height, [(path, commitment)]) -/
  decPacket : Option (Nat × List (Bytes × Bytes))
deriving Repr

/-- `timestampSeconds * nanosPerSecond` in uint64 arithmetic -/
def nanos (secs : Nat) : Nat := (secs * 1000000000) % 2 ^ 64

/-- `math.MaxUint64 / nanosPerSecond` -/
def maxSeconds : Nat := 18446744073

/-- `ABIDecodeStateAttestation`: the ABI decoder's (height, seconds), rejected (`ErrInvalidTimestamp`) when
the nanosecond conversion would overflow uint64 -/
def Proof.stateAtt (pr : Proof) : Option (Nat × Nat) :=
  match pr.decState with
  | none => none
  | some (h, secs) => if secs > maxSeconds then none else some (h, secs)

/-- consensus states by (revision number, revision height) → timestamp -/
abbrev Cons := List ((Nat × Nat) × Nat)

structure State where
  cs : ClientState
  cons : Cons
deriving DecidableEq, Repr

def Cons.get (c : Cons) (h : Nat × Nat) : Option Nat := List.lookup h c
def Cons.set (c : Cons) (h : Nat × Nat) (ts : Nat) : Cons := (h, ts) :: c.filter (fun p => p.1 != h)

inductive PathArg where
  | nil                       -- a nil exported.Path
  | other                     -- not a commitmenttypesv2.MerklePath (its Empty() is false)
  | merkle (keyPath : List Bytes)
deriving Repr

def PathArg.emptyOrNil : PathArg → Bool
  | .nil => true
  | .other => false
  | .merkle kp => kp.isEmpty

def zero32 : Bytes := List.replicate 32 0

/-- `ClientState.verifyMembership` -/
def verifyMembership (H keccak : Bytes → Bytes) (s : State) (height : Nat × Nat)
    (proof : Option Proof) (path : PathArg) (value : Bytes) : Except Err Unit :=
  if s.cs.frozen then .error .clientFrozen
  else if path.emptyOrNil then .error .invalidPath
  else if value.length == 0 then .error .invalidAttestationData
  else match s.cons.get height with
    | none => .error .consensusStateNotFound
    | some _ =>
      match proof with
      | none => .error .invalidAttestationProof
      | some pr =>
        match verifySignatures H s.cs pr.data pr.sigs tagPacket with
        | .error e => .error e
        | .ok () =>
          match pr.decPacket with
          | none => .error .invalidAttestationData
          | some (h, packets) =>
            if h != height.2 then .error .invalidHeight
            else if packets.length == 0 then .error .invalidAttestationData
            else match path with
              | .merkle kp =>
                if kp.length != 1 then .error .invalidPath
                else if (kp.getD 0 []).length == 0 then .error .invalidPath
                else
                  let commitmentPath := keccak (kp.getD 0 [])
                  if value.length != 32 then .error .invalidValue
                  else if packets.any (fun p => p.2.length == 32 && p.1.length == 32 && p.2 == value &&
                      p.1 == commitmentPath) then .ok ()
                  else .error .notMember
              | _ => .error .invalidType

/-- `ClientState.verifyNonMembership` -/
def verifyNonMembership (H keccak : Bytes → Bytes) (s : State) (height : Nat × Nat)
    (proof : Option Proof) (path : PathArg) : Except Err Unit :=
  if s.cs.frozen then .error .clientFrozen
  else if path.emptyOrNil then .error .invalidPath
  else match s.cons.get height with
    | none => .error .consensusStateNotFound
    | some _ =>
      match proof with
      | none => .error .invalidAttestationProof
      | some pr =>
        match verifySignatures H s.cs pr.data pr.sigs tagPacket with
        | .error e => .error e
        | .ok () =>
          match pr.decPacket with
          | none => .error .invalidAttestationData
          | some (h, packets) =>
            if h != height.2 then .error .invalidHeight
            else if packets.length == 0 then .error .invalidAttestationData
            else match path with
              | .merkle kp =>
                if kp.length != 1 then .error .invalidPath
                else if (kp.getD 0 []).length == 0 then .error .invalidPath
                else
                  let commitmentPath := keccak (kp.getD 0 [])
                  let matching := packets.filter (fun p => p.1 == commitmentPath)
                  if matching.isEmpty then .error .notMember
                  else if matching.all (fun p => p.2.length == 32 && p.2 == zero32) then .ok ()
                  else .error .nonMembershipFailed
              | _ => .error .invalidType

/-- a client message: an `*AttestationProof` or something else -/
abbrev ClientMsg := Option Proof

/-- `ClientState.VerifyClientMessage` -/
def verifyClientMessage (H : Bytes → Bytes) (s : State) (msg : ClientMsg) : Except Err Unit :=
  if s.cs.frozen then .error .clientFrozen
  else match msg with
    | none => .error .invalidClient
    | some pr => verifySignatures H s.cs pr.data pr.sigs tagState

/-- `LightClientModule.CheckForMisbehaviour` (`none` = panic) -/
def checkForMisbehaviour (s : State) (msg : ClientMsg) : Option Bool :=
  match msg with
  | none => none
  | some pr =>
    match pr.stateAtt with
    | none => none
    | some (h, secs) =>
      match s.cons.get (0, h) with
      | none => some false
      | some ts => some (ts != nanos secs)

/-- `UpdateStateOnMisbehaviour` -/
def freeze (s : State) : State := { s with cs := { s.cs with frozen := true } }

/-- `ClientState.UpdateState` (`none` = panic) -/
def updateState (s : State) (msg : ClientMsg) : Option State :=
  match msg with
  | none => none
  | some pr =>
    match pr.stateAtt with
    | none => none
    | some (h, secs) =>
      some { cs := { s.cs with latest := if h > s.cs.latest then h else s.cs.latest },
             cons := s.cons.set (0, h) (nanos secs) }

inductive Op where
  | vcm (msg : ClientMsg)                      -- module VerifyClientMessage
  | update (msg : ClientMsg)                   -- ClientKeeper.UpdateClient
  | vm (height : Nat × Nat) (proof : Option Proof) (path : PathArg) (value : Bytes)
  | vnm (height : Nat × Nat) (proof : Option Proof) (path : PathArg)
  | kvm (height : Nat × Nat) (proof : Option Proof) (path : PathArg) (value : Bytes)  -- through ClientKeeper
  | kvnm (height : Nat × Nat) (proof : Option Proof) (path : PathArg)
  | recover | upgrade
deriving Repr

inductive Res where
  | ok | err (e : Err)
deriving DecidableEq, Repr

def resOf : Except Err Unit → Res
  | .ok () => .ok
  | .error e => .err e

def step (H keccak : Bytes → Bytes) (s : State) : Op → State × Res
  | .vcm msg => (s, resOf (verifyClientMessage H s msg))
  | .update msg =>
    -- Keeper.UpdateClient: Status gate, VerifyClientMessage, CheckForMisbehaviour, then one of the two updates
    if s.cs.frozen then (s, .err .clientNotActive)
    else match verifyClientMessage H s msg with
      | .error e => (s, .err e)
      | .ok () =>
        match checkForMisbehaviour s msg with
        | none => (s, .err .panic)
        | some true => (freeze s, .ok)
        | some false =>
          match updateState s msg with
          | none => (s, .err .panic)
          | some s' => (s', .ok)
  | .vm h p path v => (s, resOf (verifyMembership H keccak s h p path v))
  | .vnm h p path => (s, resOf (verifyNonMembership H keccak s h p path))
  | .kvm h p path v =>
    if s.cs.frozen then (s, .err .clientNotActive)
    else (s, resOf (verifyMembership H keccak s h p path v))
  | .kvnm h p path =>
    if s.cs.frozen then (s, .err .clientNotActive)
    else (s, resOf (verifyNonMembership H keccak s h p path))
  | .recover => (s, .err .invalidRequest)
  | .upgrade => (s, .err .invalidUpgradeClient)

def run (H keccak : Bytes → Bytes) (s : State) : List Op → State × List Res
  | [] => (s, [])
  | op :: ops =>
    let r := step H keccak s op
    let rest := run H keccak r.1 ops
    (rest.1, r.2 :: rest.2)

end IbcVerif.Attest
