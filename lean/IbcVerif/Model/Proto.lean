/-
  Protobuf wire format for the flat messages ibc-go uses as packet data:
    FungibleTokenPacketData  (transfer/types/packet.pb.go)   fields 1..5, all `string`
    GMPPacketData            (27-gmp/types/packet.pb.go)      fields 1..5, `string`/`bytes`
    Acknowledgement (GMP)    (27-gmp/types/packet.pb.go)      field 1, `bytes`
  Every field is length-delimited (wire type 2); a message value is the list of its field
  contents in field-number order (field number = position + 1).

  Decoding in ibc-go is two passes over the same bytes (packet.go `UnmarshalPacketData`):
    1. `unknownproto.RejectUnknownFieldsStrict` (cosmos-sdk, built on `protowire.ConsumeTag` /
       `ConsumeFieldValue`)                                         → `rejectUnknown`
    2. the gogoproto-generated `Unmarshal` (index loop over `dAtA`, `skipPacket` for unknown
       fields)                                                     → `unmarshal`
  Both are modelled line by line over a fixed buffer and an index; the generated code's
  `dAtA[iNdEx]` / `dAtA[iNdEx:postIndex]` are explicit `G.index` / `G.slice`.
  Go `int`/`uint64` wrap-around is modelled where the code relies on it (`int(stringLen) < 0`,
  `postIndex < 0`, `int32(wire >> 3)`).
-/
import IbcVerif.Model.Bytes
import IbcVerif.Model.Panic
namespace IbcVerif.Proto
open IbcVerif

/-- minimal base-128 varint (`encodeVarintPacket` / `protowire.AppendVarint`) -/
def encVarint (n : Nat) : Bytes :=
  if h : n < 128 then [UInt8.ofNat n] else UInt8.ofNat (n % 128 + 128) :: encVarint (n / 128)
termination_by n
decreasing_by omega

/-- Varint reader over buffer `d` from index `i`; returns (value mod 2^64, next index).
    `strict = false`: the loop of the gogoproto-generated code
        `for shift := uint(0); ; shift += 7 { if shift >= 64 {overflow}; if iNdEx >= l {EOF};
           b := dAtA[iNdEx]; iNdEx++; v |= uint64(b&0x7F) << shift; if b < 0x80 {break} }`
    `strict = true`: `protowire.ConsumeVarint` (same value; additionally the 10th byte must be < 2). -/
def varintAux (strict : Bool) : Nat → Nat → Bytes → Nat → Nat → G (Nat × Nat)
  | 0, _, _, _, _ => .err "proto: integer overflow"
  | fuel + 1, shift, d, i, acc =>
    if shift ≥ 64 then .err "proto: integer overflow"
    else if i ≥ d.length then .err "unexpected EOF"
    else do
      let b ← G.index d i
      if strict ∧ shift = 63 ∧ b.toNat ≥ 2 then .err "proto: integer overflow"
      else
        let acc' := acc + (b.toNat % 128) * 2 ^ shift % 2 ^ 64
        if b.toNat < 128 then .ok (acc', i + 1) else varintAux strict fuel (shift + 7) d (i + 1) acc'

def varint (strict : Bool) (d : Bytes) (i : Nat) : G (Nat × Nat) := varintAux strict 11 0 d i 0

/-- tag of a length-delimited field -/
def tagOf (num : Nat) : Nat := num * 8 + 2

/-- one field as the generated `MarshalToSizedBuffer` writes it: omitted when empty -/
def encField (num : Nat) (v : Bytes) : Bytes :=
  if v.isEmpty then [] else encVarint (tagOf num) ++ encVarint v.length ++ v

/-- fields `start, start+1, …` -/
def encFieldsFrom : Nat → List Bytes → Bytes
  | _, [] => []
  | num, v :: vs => encField num v ++ encFieldsFrom (num + 1) vs

/-- `proto.Marshal(&msg)` -/
def encode (vals : List Bytes) : Bytes := encFieldsFrom 1 vals

/-- a raw field with arbitrary number / wire type 2 payload, written even when empty -/
def encRawField (num : Nat) (v : Bytes) : Bytes := encVarint (tagOf num) ++ encVarint v.length ++ v

/-! ### pass 1: `RejectUnknownFieldsStrict` for a message whose known fields are `1..k`, all of
    descriptor type string/bytes -/

def rejectLoop (k : Nat) : Nat → Bytes → Nat → G Unit
  | 0, _, _ => .err "unreachable: out of fuel"
  | fuel + 1, d, i =>
    if i ≥ d.length then .ok ()
    else do
      -- protowire.ConsumeTag
      let (tag, i1) ← varint true d i
      if tag / 8 > 2147483647 then .err "invalid length"      -- DecodeTag → -1 → errCodeFieldNumber
      else if tag / 8 < 1 then .err "invalid length"
      else
        let num := tag / 8
        let wt := tag % 8
        if num ≤ k then
          if wt ≠ 2 then .err "mismatched wire type"          -- canEncodeType(wireType, STRING|BYTES)
          else do
            -- protowire.ConsumeFieldValue → ConsumeBytes
            let (m, i2) ← varint true d i1
            if m > d.length - i2 then .err "could not consume field value: truncated"
            else rejectLoop k fuel d (i2 + m)
        else .err "unknown field"

def rejectUnknown (k : Nat) (d : Bytes) : G Unit := rejectLoop k (d.length + 1) d 0

/-! ### pass 2: generated `Unmarshal` -/

/-- the varint-skipping loop of `skipPacket` case 0 (no value accumulated) -/
def skipVarint : Nat → Nat → Bytes → Nat → G Nat
  | 0, _, _, _ => .err "proto: integer overflow"
  | fuel + 1, shift, d, i =>
    if shift ≥ 64 then .err "proto: integer overflow"
    else if i ≥ d.length then .err "unexpected EOF"
    else do
      let b ← G.index d i
      if b.toNat < 128 then .ok (i + 1) else skipVarint fuel (shift + 7) d (i + 1)

/-- `length |= (int(b) & 0x7F) << shift` accumulated in a signed 64-bit `int`: returns the
    two's-complement bit pattern (mod 2^64) -/
def skipLenAux : Nat → Nat → Bytes → Nat → Nat → G (Nat × Nat)
  | 0, _, _, _, _ => .err "proto: integer overflow"
  | fuel + 1, shift, d, i, acc =>
    if shift ≥ 64 then .err "proto: integer overflow"
    else if i ≥ d.length then .err "unexpected EOF"
    else do
      let b ← G.index d i
      let acc' := acc + (b.toNat % 128) * 2 ^ shift % 2 ^ 64
      if b.toNat < 128 then .ok (acc', i + 1) else skipLenAux fuel (shift + 7) d (i + 1) acc'

/-- `skipPacket(dAtA)`: `d` is the buffer `dAtA` (already re-sliced by the caller), returns the
    number of bytes to skip. `i` and `depth` are the loop variables. -/
def skipLoop : Nat → Bytes → Nat → Nat → G Nat
  | 0, _, _, _ => .err "unreachable: out of fuel"
  | fuel + 1, d, i, depth =>
    if i ≥ d.length then .err "unexpected EOF"
    else do
      let (wire, i1) ← varint false d i
      let wt := wire % 8
      -- (next index as a Go int, new depth); an index ≥ 2^63 models the negative wrap
      let step : G (Nat × Nat) :=
        if wt = 0 then do let j ← skipVarint 11 0 d i1; .ok (j, depth)
        else if wt = 1 then .ok (i1 + 8, depth)
        else if wt = 2 then do
          let (len, i2) ← skipLenAux 11 0 d i1 0
          if len ≥ 2 ^ 63 then .err "proto: negative length found during unmarshaling"
          else .ok (i2 + len, depth)
        else if wt = 3 then .ok (i1, depth + 1)
        else if wt = 4 then (if depth = 0 then .err "proto: unexpected end of group" else .ok (i1, depth - 1))
        else if wt = 5 then .ok (i1 + 4, depth)
        else .err "proto: illegal wireType"
      let (j, depth') ← step
      if j ≥ 2 ^ 63 then .err "proto: negative length found during unmarshaling"
      else if depth' = 0 then .ok j
      else skipLoop fuel d j depth'

def skip (d : Bytes) : G Nat := skipLoop (d.length + 1) d 0 0

def setAt : List Bytes → Nat → Bytes → List Bytes
  | [], _, _ => []
  | _ :: vs, 0, x => x :: vs
  | v :: vs, n + 1, x => v :: setAt vs n x

/-- the main loop of the generated `Unmarshal` for a message with string/bytes fields `1..k`
    (`vals.length = k`) -/
def unmarshalLoop (k : Nat) : Nat → Bytes → Nat → List Bytes → G (List Bytes)
  | 0, _, _, _ => .err "unreachable: out of fuel"
  | fuel + 1, d, i, vals =>
    if i ≥ d.length then (if i > d.length then .err "unexpected EOF" else .ok vals)
    else do
      let (wire, i1) ← varint false d i
      let fieldNum := wire / 8 % 2 ^ 32          -- int32(wire >> 3) as a bit pattern
      let wt := wire % 8
      if wt = 4 then .err "proto: wiretype end group for non-group"
      else if fieldNum = 0 ∨ fieldNum ≥ 2 ^ 31 then .err "proto: illegal tag"      -- fieldNum <= 0
      else if fieldNum ≤ k then
        if wt ≠ 2 then .err "proto: wrong wireType"
        else do
          let (slen, i2) ← varint false d i1
          if slen ≥ 2 ^ 63 then .err "proto: negative length found during unmarshaling"   -- int(stringLen) < 0
          else if i2 + slen ≥ 2 ^ 63 then .err "proto: negative length found during unmarshaling"  -- postIndex < 0
          else if i2 + slen > d.length then .err "unexpected EOF"
          else do
            let v ← G.slice d i2 (i2 + slen)
            unmarshalLoop k fuel d (i2 + slen) (setAt vals (fieldNum - 1) v)
      else do
        -- default: iNdEx = preIndex; skippy, err := skipPacket(dAtA[iNdEx:])
        let rest ← G.sliceFrom d i
        let skippy ← skip rest
        if i + skippy ≥ 2 ^ 63 then .err "proto: negative length found during unmarshaling"
        else if i + skippy > d.length then .err "unexpected EOF"
        else unmarshalLoop k fuel d (i + skippy) vals

def unmarshal (k : Nat) (d : Bytes) : G (List Bytes) :=
  unmarshalLoop k (d.length + 1) d 0 (List.replicate k [])

/-- `UnmarshalPacketData(bz, V1, EncodingProtobuf)` of transfer (before `ValidateBasic`):
    reject unknown fields, then unmarshal -/
def decode (k : Nat) (d : Bytes) : G (List Bytes) := do
  rejectUnknown k d
  unmarshal k d

/-- GMP `UnmarshalPacketData` / `UnmarshalAcknowledgement` with EncodingProtobuf: additionally the
    re-marshalled value must reproduce the input bytes -/
def decodeCanonical (k : Nat) (d : Bytes) : G (List Bytes) := do
  let vals ← decode k d
  if encode vals = d then .ok vals else .err "did not marshal to expected bytes"

end IbcVerif.Proto
