/-
  Model of modules/light-clients/08-wasm/internal/types/store.go : `ClientRecoveryStore`.

  The recovery store wraps two SDK `KVStore`s (the subject and the substitute client store, in
  production two `prefix.Store`s over the IBC module store).  The wrapped stores are SDK code, not
  ibc-go's: they are modelled as finite maps (`KV`) with the `prefix.Store` calling conventions that
  are observable through the wrapper (`Set` panics on an empty key or a nil value; iteration over
  `[start, end)` with both bounds non-nil).  The correspondence harness (/verif/harness-wasm) runs the
  real `ClientRecoveryStore` over two real `prefix.Store`s sharing one parent store.
-/
namespace IbcVerif.WasmStore

abbrev Bytes := List UInt8

/-- `SubjectPrefix = []byte("subject/")` -/
def subjectPrefix : Bytes := [115, 117, 98, 106, 101, 99, 116, 47]
/-- `SubstitutePrefix = []byte("substitute/")` -/
def substitutePrefix : Bytes := [115, 117, 98, 115, 116, 105, 116, 117, 116, 101, 47]

/-- `bytes.Compare(a, b) < 0` -/
def bytesLt : Bytes → Bytes → Bool
  | [], [] => false
  | [], _ :: _ => true
  | _ :: _, [] => false
  | a :: as, b :: bs => if a < b then true else if a == b then bytesLt as bs else false

/-! ### the wrapped SDK store: a finite map -/

/-- association list; `set` keeps keys unique -/
abbrev KV := List (Bytes × Bytes)

namespace KV
def get (m : KV) (k : Bytes) : Option Bytes := List.lookup k m
def has (m : KV) (k : Bytes) : Bool := (get m k).isSome
def set (m : KV) (k v : Bytes) : KV := (k, v) :: m.filter (fun p => p.1 != k)
def delete (m : KV) (k : Bytes) : KV := m.filter (fun p => p.1 != k)
/-- entries with `start ≤ key < end` -/
def range (m : KV) (s e : Bytes) : KV := m.filter (fun p => !(bytesLt p.1 s) && bytesLt p.1 e)
/-- ascending iteration over `[start, end)` -/
def iter (m : KV) (s e : Bytes) : List (Bytes × Bytes) :=
  (range m s e).mergeSort (fun a b => !(bytesLt b.1 a.1))
/-- descending iteration over `[start, end)` -/
def revIter (m : KV) (s e : Bytes) : List (Bytes × Bytes) := (iter m s e).reverse
end KV

/-! ### ClientRecoveryStore -/

/-- `SplitPrefix`: (prefix, rest); the prefix is nil (here `[]`) when the key carries none. -/
def splitPrefix (key : Bytes) : Bytes × Bytes :=
  if subjectPrefix.isPrefixOf key then (subjectPrefix, key.drop subjectPrefix.length)
  else if substitutePrefix.isPrefixOf key then (substitutePrefix, key.drop substitutePrefix.length)
  else ([], key)

inductive Which where
  | subject | substitute
deriving DecidableEq, Repr

/-- `GetStore` -/
def getStore (pfx : Bytes) : Option Which :=
  if pfx == subjectPrefix then some .subject
  else if pfx == substitutePrefix then some .substitute
  else none

structure RS where
  subject : KV
  substitute : KV
deriving Repr, DecidableEq

def RS.store (s : RS) : Which → KV
  | .subject => s.subject
  | .substitute => s.substitute

inductive Op where
  | get (k : Bytes)
  | has (k : Bytes)
  /-- `v = none` is a nil value -/
  | set (k : Bytes) (v : Option Bytes)
  | delete (k : Bytes)
  | iter (s e : Bytes)
  | revIter (s e : Bytes)
deriving Repr

inductive Res where
  | val (v : Option Bytes)
  | bool (b : Bool)
  | unit
  | items (l : List (Bytes × Bytes))
  /-- the wrapped store's `Set` panicked (empty key / nil value) -/
  | panic
deriving Repr, DecidableEq

/-- one method call on the `ClientRecoveryStore` -/
def step (s : RS) : Op → RS × Res
  | .get key =>
    let (pfx, k) := splitPrefix key
    match getStore pfx with
    | none => (s, .val none)
    | some w => (s, .val ((s.store w).get k))
  | .has key =>
    let (pfx, k) := splitPrefix key
    match getStore pfx with
    | none => (s, .bool false)
    | some w => (s, .bool ((s.store w).has k))
  | .set key v =>
    let (pfx, k) := splitPrefix key
    if pfx != subjectPrefix then (s, .unit)
    else
      -- prefix.Store.Set: AssertValidKey, AssertValidValue
      if k.isEmpty then (s, .panic)
      else match v with
        | none => (s, .panic)
        | some v => ({ s with subject := s.subject.set k v }, .unit)
  | .delete key =>
    let (pfx, k) := splitPrefix key
    if pfx != subjectPrefix then (s, .unit)
    else ({ s with subject := s.subject.delete k }, .unit)
  | .iter st en =>
    let (ps, st') := splitPrefix st
    let (pe, en') := splitPrefix en
    if ps != pe then (s, .items [])
    else match getStore ps with
      | none => (s, .items [])
      | some w => (s, .items ((s.store w).iter st' en'))
  | .revIter st en =>
    let (ps, st') := splitPrefix st
    let (pe, en') := splitPrefix en
    if ps != pe then (s, .items [])
    else match getStore ps with
      | none => (s, .items [])
      | some w => (s, .items ((s.store w).revIter st' en'))

/-- a whole history of calls: final state and the list of results -/
def run (s : RS) : List Op → RS × List Res
  | [] => (s, [])
  | op :: ops =>
    let r := step s op
    let rest := run r.1 ops
    (rest.1, r.2 :: rest.2)

end IbcVerif.WasmStore
