/-
  Model of modules/apps/callbacks: internal/process.go (`ProcessCallback`), types/callbacks.go
  (`computeExecAndCommitGasLimit`, the result of `GetCallbackData`), ibc_middleware.go and
  v2/ibc_middleware.go (the five places a callback is made).

  Parameters (not ibc-go's behaviour):
  * the contract behind `ContractKeeper` — `Contract`: how much gas it consumes on the callback's gas
    meter, what it does if the meter lets it finish (return nil / return an error / panic), and
    whether it swallows its own out-of-gas panic (the interface asks the contract to "handle out of
    gas gracefully") and what it returns then;
  * the underlying application's result (error / acknowledgement class);
  * what `GetCallbackData` found in the packet (`CbData`): no callback requested, malformed callback
    data, or well-formed data with a user gas limit.
  Gas meter: the SDK's basicGasMeter (store/v2/types/gas.go): `ConsumeGas` adds first and then panics
  with ErrorOutOfGas if consumed > limit; `GasConsumedToLimit` = min(consumed, limit);
  `IsPastLimit` = consumed > limit.  Gas values are uint64 in the code; the model uses Nat and all
  values handed in by the driver are < 2^64 (no addition here can overflow: see `charged_le_exec`).
-/
namespace IbcVerif.Callbacks

/-- `computeExecAndCommitGasLimit` (types/callbacks.go): (executionGasLimit, commitGasLimit) -/
def gasLimits (user remaining max : Nat) : Nat × Nat :=
  let commit := if user = 0 ∨ user > max then max else user
  (min remaining commit, commit)

inductive CbType | send | ack | timeout | recv
deriving DecidableEq, Repr

inductive Ret | ok | err
deriving DecidableEq, Repr

inductive Outcome | ok | err | panic
deriving DecidableEq, Repr

structure Contract where
  gas : Nat                -- gas consumed on the callback meter (after the contract's state write)
  out : Outcome            -- behaviour when not stopped by the meter
  catchOog : Option Ret    -- some r: recovers its own ErrorOutOfGas panic and returns r
deriving DecidableEq, Repr

/-- what comes back from `callbackExecutor(cachedCtx)` -/
inductive Raw | retOk | retErr | panicked | panickedOog
deriving DecidableEq, Repr

/-- run the contract on a fresh meter with limit `exec` -/
def Contract.run (c : Contract) (exec : Nat) : Raw :=
  if c.gas > exec then
    match c.catchOog with
    | none => .panickedOog
    | some .ok => .retOk
    | some .err => .retErr
  else
    match c.out with
    | .ok => .retOk
    | .err => .retErr
    | .panic => .panicked

inductive PcResult
  | ok
  | errCallback      -- the contract's own error, returned as is
  | errPanic         -- ErrCallbackPanic
  | errOog           -- ErrCallbackOutOfGas
  | panic            -- the contract's panic re-raised (SendPacket callbacks only)
  | panicOog         -- ErrorOutOfGas raised so that the whole transaction reverts and can be retried
deriving DecidableEq, Repr

def PcResult.isPanic : PcResult → Bool
  | .panic | .panicOog => true
  | _ => false

structure PcOut where
  result : PcResult
  wrote : Bool      -- writeFn() was called: the callback's state changes reached the caller's context
  charged : Nat     -- gas consumed on the caller's meter (GasConsumedToLimit of the callback meter)
deriving DecidableEq, Repr

/-- `ProcessCallback` (internal/process.go) -/
def processCallback (t : CbType) (exec commit : Nat) (c : Contract) : PcOut :=
  let raw := c.run exec
  let pastLimit := c.gas > exec
  -- err == nil && !IsPastLimit → writeFn()   (the second conjunct since fix 7bc25b2; before it a
  -- contract that swallowed its own out-of-gas panic and returned nil kept its writes)
  let wrote := raw == .retOk && !decide pastLimit
  let charged := min c.gas exec                    -- deferred: ConsumeGas(GasConsumedToLimit)
  let isPanic := raw == .panicked || raw == .panickedOog
  -- deferred function: recover
  if isPanic && t == .send then ⟨if raw == .panickedOog then .panicOog else .panic, wrote, charged⟩
  else
    let err1 : PcResult :=
      if isPanic then .errPanic
      else match raw with
        | .retOk => .ok
        | _ => .errCallback
    if pastLimit then
      if exec < commit then ⟨.panicOog, wrote, charged⟩      -- AllowRetry
      else ⟨.errOog, wrote, charged⟩
    else ⟨err1, wrote, charged⟩

/-- what `GetCallbackData` returned -/
inductive CbData
  | none                -- not a callback packet (`isCbPacket = false`)
  | invalid             -- callback key present but address / gas limit / calldata malformed
  | valid (user : Nat)  -- well formed; `user` = the user-defined gas limit (0 if absent or "")
deriving DecidableEq, Repr

inductive AckClass | success | error | async
deriving DecidableEq, Repr

/-- the result of a middleware entry point, as the transaction sees it -/
inductive MwResult
  | ok                       -- handler returned nil (ack / timeout / send / writeAck)
  | err                      -- handler returned an error: the message fails, its state reverts
  | ack (a : AckClass)       -- OnRecvPacket returned this acknowledgement
  | aborted                  -- a panic left the handler: the whole transaction reverts
deriving DecidableEq, Repr

structure MwOut where
  result : MwResult
  cbCalled : Bool     -- the contract was invoked
  cbWrote : Bool      -- its writes reached the handler's context
  charged : Nat
  pc : Option PcResult
deriving DecidableEq, Repr

def noCb (r : MwResult) : MwOut := ⟨r, false, false, 0, none⟩

def withCb (t : CbType) (user remaining max : Nat) (c : Contract) (f : PcOut → MwResult) : MwOut :=
  let g := gasLimits user remaining max
  let o := processCallback t g.1 g.2 c
  ⟨if o.result.isPanic then .aborted else f o, true, o.wrote, o.charged, some o.result⟩

/-- `IBCMiddleware.OnAcknowledgementPacket` / `OnTimeoutPacket` (v1 and v2); `t` is `.ack` or `.timeout` -/
def onAckOrTimeout (t : CbType) (appErr : Bool) (cb : CbData) (remaining max : Nat) (c : Contract) : MwOut :=
  if appErr then noCb .err else
  match cb with
  | .none => noCb .ok
  | .invalid => noCb .err
  | .valid user => withCb t user remaining max c fun _ => .ok      -- the callback's error is only logged

/-- `IBCMiddleware.SendPacket` (v1) / `OnSendPacket` (v2) -/
def onSend (appErr : Bool) (cb : CbData) (remaining max : Nat) (c : Contract) : MwOut :=
  if appErr then noCb .err else
  match cb with
  | .none => noCb .ok
  | .invalid => noCb .err
  | .valid user => withCb .send user remaining max c fun o => if o.result = .ok then .ok else .err

/-- `IBCMiddleware.OnRecvPacket` (v1 and v2) -/
def onRecv (app : AckClass) (cb : CbData) (remaining max : Nat) (c : Contract) : MwOut :=
  match app with
  | .error => noCb (.ack .error)
  | .async => noCb (.ack .async)
  | .success =>
    match cb with
    | .none => noCb (.ack .success)
    | .invalid => noCb (.ack .error)
    | .valid user => withCb .recv user remaining max c fun o => if o.result = .ok then .ack .success else .ack .error

/-- `IBCMiddleware.WriteAcknowledgement` (async acknowledgement; v1 and v2) -/
def onWriteAck (wrapperErr : Bool) (cb : CbData) (remaining max : Nat) (c : Contract) : MwOut :=
  if wrapperErr then noCb .err else
  match cb with
  | .none => noCb .ok
  | .invalid => noCb .err
  | .valid user => withCb .recv user remaining max c fun _ => .ok

end IbcVerif.Callbacks
