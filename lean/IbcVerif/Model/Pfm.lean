/-
  Model of modules/apps/packet-forward-middleware (ibc_middleware.go: `getDenomForThisChain`, the
  receive-then-forward of `OnRecvPacket`; keeper/keeper.go: `WriteAcknowledgementForForwardedPacket`,
  the three refund cases).

  ICS-20 itself (what a receive credits, what a send debits) is the transfer cluster's model
  (IbcVerif.Model.Denom: `ics20RecvCoinDenom`).  For the refund logic an intermediate chain is
  abstracted to the four quantities its receive / forward / refund touch, all for the one coin being
  forwarded:  `v` voucher supply, `er` balance of the escrow account of the channel the packet ARRIVED
  on (the refund channel), `ef` balance of the escrow account of the channel it is FORWARDED on,
  `te` the ICS-20 total-escrow entry, `ov` the balance of PFM's override-receiver account (the
  hash-derived account that receives the funds and signs the forward).  When arrival and forward
  channel are the same channel `er` and `ef` are one account; the bookkeeping below is the same.

  Timeouts (ibc_middleware.go `OnTimeoutPacket`, keeper `TimeoutShouldRetry` / `RetryTimeout` /
  `ForwardTransferPacket`): the in-flight record stored under the forwarded packet's sequence carries
  `RetriesRemaining`; a timeout with retries left lets ICS-20 refund the override receiver
  (`app.OnTimeoutPacket`) and sends the same coin again (new sequence, record moved, counter
  decremented); a timeout with `RetriesRemaining <= 0` removes the record and runs the very refund
  function of the error-acknowledgement path.  Whether the re-send succeeds is a parameter
  (`sendOk`); if it fails `OnTimeoutPacket` returns the error and the whole timeout transaction
  reverts — the packet stays in flight (liveness caveat, not a safety issue).
-/
import IbcVerif.Model.Denom
namespace IbcVerif.Pfm
open IbcVerif IbcVerif.Xfer

/-- `getDenomForThisChain(port, channel, counterpartyPort, counterpartyChannel, denom)` -/
def getDenomForThisChain (hashHex : Str → Str) (port chan cpPort cpChan : Str) (d : Denom) : Str :=
  if d.hasPrefix cpPort cpChan then
    let t := d.trace.tail                       -- denom.Trace = denom.Trace[1:]
    if t.isEmpty then Denom.path ⟨t, d.base⟩ else Denom.ibcDenom hashHex ⟨t, d.base⟩
  else Denom.ibcDenom hashHex ⟨⟨port, chan⟩ :: d.trace, d.base⟩

/-- what ICS-20's receive did on the intermediate chain -/
inductive RecvKind | mint | unescrow
deriving DecidableEq, Repr
/-- what ICS-20's send (the forward) did -/
inductive FwdKind | escrow | burn
deriving DecidableEq, Repr

structure Mid where
  v : Int
  er : Int
  ef : Int
  te : Int
  ov : Int
deriving DecidableEq, Repr

/-- `OnRecvPacket` of ICS-20 for `a` units (receiver overridden by PFM): mint a voucher to the override
    receiver, or pay it out of the arrival channel's escrow -/
def recvEff (k : RecvKind) (a : Int) (m : Mid) : Mid :=
  match k with
  | .mint => { m with v := m.v + a, ov := m.ov + a }
  | .unescrow => { m with er := m.er - a, te := m.te - a, ov := m.ov + a }

/-- `sendTransfer` of ICS-20 for the forward: escrow on the forward channel, or burn the voucher -/
def fwdEff (k : FwdKind) (a : Int) (m : Mid) : Mid :=
  match k with
  | .escrow => { m with ef := m.ef + a, te := m.te + a, ov := m.ov - a }
  | .burn => { m with v := m.v - a, ov := m.ov - a }

/-- ICS-20's own refund of a timed-out (or error-acknowledged) transfer to its sender — here the
    override receiver — `refundPacketTokens`: unescrow, or mint the burnt voucher back -/
def ics20Refund (k : FwdKind) (a : Int) (m : Mid) : Mid :=
  match k with
  | .escrow => { m with ef := m.ef - a, te := m.te - a, ov := m.ov + a }
  | .burn => { m with v := m.v + a, ov := m.ov + a }

/-- `WriteAcknowledgementForForwardedPacket` on failure, branch selection exactly as coded:
    `fwdBurnt`  = `denom.HasPrefix(packet.SourcePort, packet.SourceChannel)` (the forward burnt),
    `arrivedAsVoucher` = `denom.HasPrefix(RefundPortId, RefundChannelId)`. -/
def refundCoded (fwdBurnt arrivedAsVoucher : Bool) (a : Int) (m : Mid) : Mid :=
  if !fwdBurnt then
    if !arrivedAsVoucher then { m with ef := m.ef - a, er := m.er + a }            -- escrow → refund escrow
    else { m with ef := m.ef - a, v := m.v - a, te := m.te - a }                   -- escrow → module, burn, unescrowToken
  else if arrivedAsVoucher then m     -- forwarded back over the arrival channel: mint and burn cancelled (fix f970a92)
  else { m with v := m.v + a, er := m.er + a, te := m.te + a }                     -- mint → refund escrow, total escrow += coin

/-- the two prefix tests as functions of what happened: the forward burnt iff the coin is a voucher that
    came over the forward channel; the coin carries the arrival channel as first hop iff the receive minted -/
def refund (r : RecvKind) (f : FwdKind) (a : Int) (m : Mid) : Mid :=
  refundCoded (f == .burn) (r == .mint) a m

structure FHop where
  recv : RecvKind
  fwd : FwdKind
deriving DecidableEq, Repr

/-- receive, forward, and — the forward having failed downstream — refund, on one intermediate chain -/
def bounceBack (h : FHop) (a : Int) (m : Mid) : Mid := refund h.recv h.fwd a (fwdEff h.fwd a (recvEff h.recv a m))

inductive Outcome | delivered | refundedClean | refundedDirty
deriving DecidableEq, Repr

/-- does the coded refund put this intermediate chain back exactly (for one unit; linear in the amount) -/
def FHop.restores (h : FHop) : Bool := bounceBack h 1 ⟨0, 0, 0, 0, 0⟩ == ⟨0, 0, 0, 0, 0⟩

/-- a whole route: the intermediate chains that forwarded, and whether something failed downstream of them -/
def routeOutcome (forwarded : List FHop) (failed : Bool) : Outcome :=
  if !failed then .delivered
  else if forwarded.all FHop.restores then .refundedClean
  else .refundedDirty

/-! ### timeouts and retries -/

/-- the in-flight record (`types.InFlightPacket`) of the forward, as far as timeouts are concerned -/
structure InFlight where
  seq : Nat                 -- sequence of the forwarded packet the record is stored under
  retriesRemaining : Int    -- int32 `RetriesRemaining`
deriving DecidableEq, Repr

/-- an intermediate chain: the five quantities, the in-flight record of this forward (if any), and the
    next send sequence of the forward channel -/
structure Node where
  m : Mid
  flight : Option InFlight
  nextSeq : Nat
deriving DecidableEq, Repr

/-- `ForwardTransferPacket` (the send succeeded): ICS-20 escrows / burns, the record is stored under the
    new sequence — with `maxRetries` for a first forward, with `RetriesRemaining - 1` for a retry -/
def forwardOk (h : FHop) (a : Int) (retries : Int) (n : Node) : Node :=
  { m := fwdEff h.fwd a n.m, flight := some ⟨n.nextSeq, retries⟩, nextSeq := n.nextSeq + 1 }

/-- `OnRecvPacket` of PFM: receive the funds into the override receiver, forward.  If the forward fails
    (`sendOk = false`) PFM answers with an error acknowledgement and core discards the whole receive. -/
def receiveAndForward (h : FHop) (a : Int) (retries : Nat) (sendOk : Bool) (n : Node) : Node :=
  if sendOk then forwardOk h a retries { n with m := recvEff h.recv a n.m } else n

inductive TimeoutResult
  | retried       -- re-sent under a new sequence
  | gaveUp        -- retries exhausted: refunded upstream with an error acknowledgement
  | reverted      -- the re-send failed: the timeout transaction reverts, packet still in flight
  | notInFlight   -- not a forwarded packet of PFM: plain ICS-20 timeout
deriving DecidableEq, Repr

/-- `OnTimeoutPacket` for the forwarded packet with sequence `seq` -/
def onTimeout (h : FHop) (a : Int) (sendOk : Bool) (seq : Nat) (n : Node) : Node × TimeoutResult :=
  match n.flight with
  | some r =>
    if r.seq = seq then
      if r.retriesRemaining ≤ 0 then
        -- TimeoutShouldRetry returns the record AND an error: RemoveInFlightPacket, then the same refund as
        -- for an error acknowledgement (app.OnTimeoutPacket is NOT called on this path)
        ({ n with m := refund h.recv h.fwd a n.m, flight := none }, .gaveUp)
      else if sendOk then
        -- RemoveInFlightPacket; app.OnTimeoutPacket (ICS-20 refunds the override receiver); RetryTimeout
        (forwardOk h a (r.retriesRemaining - 1) { n with m := ics20Refund h.fwd a n.m, flight := none }, .retried)
      else (n, .reverted)
    else (n, .notInFlight)
  | none => (n, .notInFlight)

/-- the error-acknowledgement path (`OnAcknowledgementPacket` with an in-flight record): record removed,
    refund -/
def onErrorAck (h : FHop) (a : Int) (seq : Nat) (n : Node) : Node :=
  match n.flight with
  | some r => if r.seq = seq then { n with m := refund h.recv h.fwd a n.m, flight := none } else n
  | none => n

/-- a run of timeouts of whatever packet of this forward is currently in flight; one Boolean per timeout
    says whether a re-send would succeed -/
def afterTimeouts (h : FHop) (a : Int) : Node → List Bool → Node
  | n, [] => n
  | n, ok :: rest =>
    match n.flight with
    | some r => afterTimeouts h a (onTimeout h a ok r.seq n).1 rest
    | none => n

/-- the end of a failing hop: if the forward is still in flight the downstream error acknowledgement
    arrives and is refunded; if PFM already gave up nothing is left to do -/
def settleFailed (h : FHop) (a : Int) (n : Node) : Node :=
  match n.flight with
  | some r => onErrorAck h a r.seq n
  | none => n

end IbcVerif.Pfm
