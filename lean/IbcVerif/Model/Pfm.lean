/-
  Model of modules/apps/packet-forward-middleware (ibc_middleware.go: `getDenomForThisChain`, the
  receive-then-forward of `OnRecvPacket`; keeper/keeper.go: `WriteAcknowledgementForForwardedPacket`,
  the three refund cases).

  ICS-20 itself (what a receive credits, what a send debits) is the transfer cluster's model
  (IbcVerif.Model.Denom: `ics20RecvCoinDenom`).  For the refund logic an intermediate chain is
  abstracted to the four quantities its receive / forward / refund touch, all for the one coin being
  forwarded:  `v` voucher supply, `er` balance of the escrow account of the channel the packet ARRIVED
  on (the refund channel), `ef` balance of the escrow account of the channel it is FORWARDED on,
  `te` the ICS-20 total-escrow entry.  When both channels are the same channel `er` and `ef` are one
  account; the model keeps them apart and `Mid.sameChan` says so.
-/
import IbcVerif.Model.Denom
namespace IbcVerif.Pfm
open IbcVerif IbcVerif.Xfer

/-- `getDenomForThisChain(port, channel, counterpartyPort, counterpartyChannel, denom)` -/
def getDenomForThisChain (hashHex : Str → Str) (port chan cpPort cpChan : Str) (d : Denom) : Str :=
  if d.hasPrefix cpPort cpChan then
    let t := d.trace.tail                       -- denom.Trace = denom.Trace[1:]
    if t.isEmpty then Denom.path ⟨t, d.base⟩ else Denom.ibcDenom hashHex ⟨t, d.base⟩
  else Denom.ibcDenom hashHex ⟨⟨port, chan⟩ :: d.trace, d.base⟩

/-- what ICS-20's receive did on the intermediate chain -/
inductive RecvKind | mint | unescrow
deriving DecidableEq, Repr
/-- what ICS-20's send (the forward) did -/
inductive FwdKind | escrow | burn
deriving DecidableEq, Repr

structure Mid where
  v : Int
  er : Int
  ef : Int
  te : Int
deriving DecidableEq, Repr

/-- `OnRecvPacket` of ICS-20 for `a` units: mint a voucher, or pay out of the arrival channel's escrow -/
def recvEff (k : RecvKind) (a : Int) (m : Mid) : Mid :=
  match k with
  | .mint => { m with v := m.v + a }
  | .unescrow => { m with er := m.er - a, te := m.te - a }

/-- `sendTransfer` of ICS-20 for the forward: escrow on the forward channel, or burn the voucher -/
def fwdEff (k : FwdKind) (a : Int) (m : Mid) : Mid :=
  match k with
  | .escrow => { m with ef := m.ef + a, te := m.te + a }
  | .burn => { m with v := m.v - a }

/-- `WriteAcknowledgementForForwardedPacket` on failure, branch selection exactly as coded:
    `fwdBurnt`  = `denom.HasPrefix(packet.SourcePort, packet.SourceChannel)` (the forward burnt),
    `arrivedAsVoucher` = `denom.HasPrefix(RefundPortId, RefundChannelId)`. -/
def refundCoded (fwdBurnt arrivedAsVoucher : Bool) (a : Int) (m : Mid) : Mid :=
  if !fwdBurnt then
    if !arrivedAsVoucher then { m with ef := m.ef - a, er := m.er + a }            -- escrow → refund escrow
    else { m with ef := m.ef - a, v := m.v - a, te := m.te - a }                   -- escrow → module, burn, unescrowToken
  else if arrivedAsVoucher then m     -- forwarded back over the arrival channel: mint and burn cancelled (fix f970a92)
  else { m with v := m.v + a, er := m.er + a, te := m.te + a }                     -- mint → refund escrow, total escrow += coin

/-- the two prefix tests as functions of what happened: the forward burnt iff the coin is a voucher that
    came over the forward channel; the coin carries the arrival channel as first hop iff the receive minted -/
def refund (r : RecvKind) (f : FwdKind) (a : Int) (m : Mid) : Mid :=
  refundCoded (f == .burn) (r == .mint) a m

structure FHop where
  recv : RecvKind
  fwd : FwdKind
deriving DecidableEq, Repr

/-- receive, forward, and — the forward having failed downstream — refund, on one intermediate chain -/
def bounceBack (h : FHop) (a : Int) (m : Mid) : Mid := refund h.recv h.fwd a (fwdEff h.fwd a (recvEff h.recv a m))

inductive Outcome | delivered | refundedClean | refundedDirty
deriving DecidableEq, Repr

/-- does the coded refund put this intermediate chain back exactly (for one unit; linear in the amount) -/
def FHop.restores (h : FHop) : Bool := bounceBack h 1 ⟨0, 0, 0, 0⟩ == ⟨0, 0, 0, 0⟩

/-- a whole route: the intermediate chains that forwarded, and whether something failed downstream of them -/
def routeOutcome (forwarded : List FHop) (failed : Bool) : Outcome :=
  if !failed then .delivered
  else if forwarded.all FHop.restores then .refundedClean
  else .refundedDirty

end IbcVerif.Pfm
