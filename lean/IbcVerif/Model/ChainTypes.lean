/-
  L3 "Chain" model — types.  One chain's core IBC state as typed finite maps plus an append-only
  log of application callbacks; one `Op` constructor per message handler of
  modules/core/keeper/msg_server.go and modules/core/04-channel/v2/keeper/msg_server.go (plus the
  keeper entry points applications call: SendPacket, WriteAcknowledgement).

  Everything that is not ibc-go's own logic is an *input carried by the op* (`Env`): light-client
  answers (status, latest height, timestamp, proof verdicts), application callback results, block
  height/time, the signer.  The theorems quantify over all of them.
-/
import IbcVerif.Model.ChainMap
import IbcVerif.Model.Height
namespace IbcVerif.Chain
open IbcVerif

abbrev Id := String
/-- byte strings travel as lower-case hex -/
abbrev Hex := String

inductive ChanState | init | tryopen | opened | closed
deriving DecidableEq, Repr

inductive Order | none | unordered | ordered
deriving DecidableEq, Repr

structure Channel where
  state : ChanState
  ordering : Order
  cpPort : Id
  cpChan : Id
  hops : List Id
  version : String
deriving DecidableEq, Repr

inductive ConnState | init | tryopen | opened
deriving DecidableEq, Repr

structure Version where
  id : String
  features : List String
deriving DecidableEq, Repr

structure ConnEnd where
  state : ConnState
  client : Id
  cpClient : Id
  cpConn : Id
  cpPrefix : Hex
  versions : List Version
  delay : Nat
deriving DecidableEq, Repr

/-- the fields `channeltypes.CommitPacket` binds (the rest of the packet is in the store key) -/
structure CommitV1 where
  tt : Nat
  thRev : Nat
  thH : Nat
  data : Hex
deriving DecidableEq, Repr

structure PacketV1 where
  seq : Nat
  sp : Id
  sc : Id
  dp : Id
  dc : Id
  thRev : Nat
  thH : Nat
  tt : Nat
  data : Hex
deriving DecidableEq, Repr

def PacketV1.commit (p : PacketV1) : CommitV1 := ⟨p.tt, p.thRev, p.thH, p.data⟩
def PacketV1.timeout (p : PacketV1) : Timeout := ⟨⟨UInt64.ofNat p.thRev, UInt64.ofNat p.thH⟩, UInt64.ofNat p.tt⟩

structure Payload where
  sp : Id
  dp : Id
  ver : String
  enc : String
  val : Hex
deriving DecidableEq, Repr

structure PacketV2 where
  seq : Nat
  src : Id
  dst : Id
  tt : Nat
  payloads : List Payload
deriving DecidableEq, Repr

/-- the fields `channeltypesv2.CommitPacket` binds -/
structure CommitV2 where
  dst : Id
  tt : Nat
  payloads : List Payload
deriving DecidableEq, Repr

def PacketV2.commit (p : PacketV2) : CommitV2 := ⟨p.dst, p.tt, p.payloads⟩

/-- committed application callbacks (the history log; append-only) -/
inductive Event
  | recv1 (port chan : Id) (seq : Nat)
  | ack1 (port chan : Id) (seq : Nat) (ack : Hex)
  | timeout1 (port chan : Id) (seq : Nat)
  /-- v2 events are per packet: `n` = number of payload callbacks that ran (payload indices
      `0 … n-1`, in order, once each) in that transaction -/
  | recv2 (dst : Id) (seq n : Nat)
  /-- `acks` = the acknowledgement handed to each payload's callback (length = number that ran) -/
  | ack2 (src : Id) (seq : Nat) (acks : List Hex)
  | timeout2 (src : Id) (seq n : Nat)
  | send2 (src : Id) (seq n : Nat)
  | hs (kind : String) (port chan : Id)
  /-- ghost events (no application callback; not part of the observable callback log): a
      successful v1 send, and the identifiers generated for new clients / connections -/
  | send1 (port chan : Id) (seq : Nat)
  | genClient (id : Id)
  | genConn (id : Id)
deriving DecidableEq, Repr

structure ChainState where
  chan : FMap (Id × Id) Channel
  conn : FMap Id ConnEnd
  nextChanSeq : Nat
  nextConnSeq : Nat
  nextClientSeq : Nat
  /-- one counter per id, shared by v1 channels and v2 clients/aliases
      (04-channel/keeper/keeper.go:157-183 stores v1 nextSequenceSend under the v2 key) -/
  nextSend : FMap Id Nat
  nextRecv : FMap (Id × Id) Nat
  nextAck : FMap (Id × Id) Nat
  recvStart : FMap (Id × Id) Nat
  commitV1 : FMap (Id × Id × Nat) CommitV1
  receiptV1 : FMap (Id × Id × Nat) Unit
  ackV1 : FMap (Id × Id × Nat) Hex
  commitV2 : FMap (Id × Nat) CommitV2
  receiptV2 : FMap (Id × Nat) Unit
  ackV2 : FMap (Id × Nat) (List Hex)
  asyncV2 : FMap (Id × Nat) PacketV2
  cpV2 : FMap Id (Id × List Hex)
  alias : FMap Id Id
  cfgV2 : FMap Id (List String)
  creator : FMap Id String
  clientState : FMap Id Unit
  clientConns : FMap Id (List Id)
  allowedClients : List String
  maxExpectedTimePerBlock : Nat
  /-- application state behind the ports (scripted apps write here) -/
  app : FMap String String
  log : List Event

/-! ### adversarial / environmental inputs carried by every op -/

/-- `exported.Status` of a light client -/
inductive Status | active | expired | frozen | unknown | unauthorized
deriving DecidableEq, Repr

structure LcEnv where
  /-- light-client `Status` answer: default and per-client overrides -/
  st : Status
  stOf : List (Id × Status)
  /-- `LatestHeight` answer -/
  lh : Height
  lhOf : List (Id × Height)
  /-- `TimestampAtHeight` answer (`none` = error) -/
  ts : Option Nat
  /-- verdicts of the first and second `Verify(Non)Membership` call of the op -/
  v1 : Bool
  v2 : Bool
  msgOK : Bool
  initOK : Bool
  recovOK : Bool

structure Env where
  /-- block height and block time (unix nanoseconds) of the context -/
  nowH : Nat
  nowT : Nat
  signer : String
  lc : LcEnv
  /-- value the scripted applications write -/
  tag : String
  /-- the message passed `ValidateBasic` (decided by the real stateless validation) -/
  vb : Bool

inductive AppRes | ok | err | async | selfack
deriving DecidableEq, Repr

/-- scripted v1 application behaviour for one callback -/
structure AppV1 where
  /-- number of keys written before returning -/
  w : Nat
  /-- callback error (handshake / ack / timeout callbacks) -/
  cbErr : Bool
  res : AppRes
  ack : Hex
  /-- version returned by OnChanOpenInit/Try -/
  ver : Option String

inductive AppRes2 | ok | fail | async | none
deriving DecidableEq, Repr

structure AppV2 where
  w : Nat
  cbErr : Bool
  res : AppRes2
  ack : Hex

inductive Body
  | connOpenInit (client cpClient : Id) (cpPrefix : Hex) (version : Option Version) (delay : Nat)
  | connOpenTry (client cpClient cpConn : Id) (cpPrefix : Hex) (versions : List Version) (delay : Nat)
  | connOpenAck (conn cpConn : Id) (version : Version)
  | connOpenConfirm (conn : Id)
  | chanOpenInit (port : Id) (order : Order) (hops : List Id) (cpPort : Id) (version : String) (app : AppV1)
  | chanOpenTry (port : Id) (order : Order) (hops : List Id) (cpPort cpChan : Id) (cpVersion : String) (app : AppV1)
  | chanOpenAck (port chan cpChan : Id) (cpVersion : String) (app : AppV1)
  | chanOpenConfirm (port chan : Id) (app : AppV1)
  | chanCloseInit (port chan : Id) (app : AppV1)
  | chanCloseConfirm (port chan : Id) (app : AppV1)
  | sendV1 (port chan : Id) (thRev thH tt : Nat) (data : Hex)
  | recvV1 (pkt : PacketV1) (app : AppV1)
  | ackV1 (pkt : PacketV1) (ack : Hex) (app : AppV1)
  | timeoutV1 (pkt : PacketV1) (nsr : Nat) (phRev phH : Nat) (app : AppV1)
  | timeoutOnCloseV1 (pkt : PacketV1) (nsr : Nat) (app : AppV1)
  | writeAckV1 (pkt : PacketV1) (wack : Option (Bool × Hex))
  | sendV2 (src : Id) (tt : Nat) (payloads : List Payload) (apps : List AppV2)
  | recvV2 (pkt : PacketV2) (apps : List AppV2)
  | ackV2 (pkt : PacketV2) (acks : List Hex) (apps : List AppV2)
  | timeoutV2 (pkt : PacketV2) (apps : List AppV2)
  | writeAckV2 (dst : Id) (seq : Nat) (acks : List Hex)
  | createClient (ctype : String)
  | updateClient (client : Id)
  | registerCounterparty (client cpClient : Id) (prefix_ : List Hex)
  | updateClientConfig (client : Id) (relayers : List String)
  | deleteClientCreator (client : Id)
  | recoverClient (subject substitute : Id)
  | updateClientParams (allowed : List String)
  | updateConnParams (maxTime : Nat)
  | ibcSoftwareUpgrade (upgradeOK : Bool)

structure Op where
  env : Env
  body : Body

inductive Out
  | ok (ret : String)
  | noop
  | err (cls : String)
  | panic
deriving DecidableEq, Repr

end IbcVerif.Chain
