/-
  Solidity ABI codec as used by ibc-go through go-ethereum v1.17.5 `accounts/abi`:
    modules/apps/transfer/types/solidity_abi.go   tuple(string denom,string sender,string receiver,uint256 amount,string memo)
    modules/apps/27-gmp/types/solidity_abi.go     tuple(string,string,bytes,bytes,string)  and  tuple(bytes result)
    modules/light-clients/attestations/abi.go     (uint64,uint64)  and  tuple(uint64, tuple(bytes32,bytes32)[])

  Encoding mirrors `Arguments.Pack` / `Type.pack` / `packBytesSlice` / `packNum`; decoding mirrors
  `Arguments.Unpack` / `toGoType` / `forTupleUnpack` / `forEachUnpack` / `lengthPrefixPointsTo` /
  `tuplePointsTo` line by line, with every Go slice expression an explicit `G.slice` (a run-time
  panic if out of bounds), so that "the decoder never panics" is a theorem about the bounds
  checks and not a triviality.  Go `int` arithmetic is modelled in `Nat`; the `BitLen() > 63`
  guards are kept (they are what makes the `int(...)` conversions exact).
-/
import IbcVerif.Model.Bytes
import IbcVerif.Model.Panic
import IbcVerif.Model.Dec
import IbcVerif.Model.AbiAmount
namespace IbcVerif.Abi
open IbcVerif

/-- big-endian bytes of `n`, exactly `k` bytes (value taken mod 256^k) -/
def beBytes : Nat → Nat → Bytes
  | 0, _ => []
  | k + 1, n => beBytes k (n / 256) ++ [UInt8.ofNat (n % 256)]

/-- big-endian value of a byte string (`new(big.Int).SetBytes(b)`) -/
def beNat (b : Bytes) : Nat := b.foldl (fun acc x => acc * 256 + x.toNat) 0

/-- `math.U256Bytes(n)`: one 32-byte word, value mod 2^256 -/
def word (n : Nat) : Bytes := beBytes 32 n

/-- `(l + 31) / 32 * 32` -/
def ceil32 (l : Nat) : Nat := (l + 31) / 32 * 32

/-- `common.RightPadBytes(b, ceil32 (len b))` -/
def rightPad (b : Bytes) : Bytes := b ++ List.replicate (ceil32 b.length - b.length) 0

/-- `packBytesSlice(b, len b)`: length word followed by the right-padded data -/
def encDyn (b : Bytes) : Bytes := word b.length ++ rightPad b

/-! ### flat tuples: every component is a static word or a `string`/`bytes` -/

inductive FTy where
  | uint256
  | uint64
  | dyn            -- `string` or `bytes` (identical wire form)
deriving Repr, DecidableEq

inductive FVal where
  | num (n : Nat)
  | dyn (b : Bytes)
deriving Repr, DecidableEq

def FVal.tail : FVal → Bytes
  | .num _ => []
  | .dyn b => encDyn b

/-- heads of a tuple; `off` is the offset the next dynamic component's tail will have -/
def encHeads : List FVal → Nat → Bytes
  | [], _ => []
  | .num n :: vs, off => word n ++ encHeads vs off
  | .dyn b :: vs, off => word off ++ encHeads vs (off + (encDyn b).length)

def encTails (vs : List FVal) : Bytes := vs.flatMap FVal.tail

/-- `Type.pack` for a tuple: heads then tails, offsets counted from the start of the tuple -/
def encTuple (vs : List FVal) : Bytes := encHeads vs (32 * vs.length) ++ encTails vs

/-- `Arguments.Pack(x)` for `Arguments{{Type: tuple}}` with a dynamic tuple: offset word 32, then the tuple -/
def packWrapped (vs : List FVal) : Bytes := word 32 ++ encTuple vs

/-- `Arguments.Pack(a, b, …)` for static word arguments (no offsets) -/
def packStatic (ns : List Nat) : Bytes := ns.flatMap word

/-- `lengthPrefixPointsTo(index, output)` → `(start, length)` -/
def lengthPrefixPointsTo (index : Nat) (out : Bytes) : G (Nat × Nat) := do
  let w ← G.slice out index (index + 32)
  let offEnd := beNat w + 32
  if offEnd > out.length then .err "abi: offset would go over slice boundary"
  else if offEnd ≥ 2 ^ 63 then .err "abi offset larger than int64"
  else do
    let lw ← G.slice out (offEnd - 32) offEnd
    let total := offEnd + beNat lw
    if total ≥ 2 ^ 63 then .err "abi: length larger than int64"
    else if total > out.length then .err "abi: length insufficient"
    else .ok (offEnd, beNat lw)

/-- `toGoType(index, t, output)` for the flat component types -/
def toGo (index : Nat) (t : FTy) (out : Bytes) : G FVal :=
  if index + 32 > out.length then .err "abi: length insufficient"
  else match t with
    | .dyn => do
        let (b, l) ← lengthPrefixPointsTo index out
        let s ← G.slice out b (b + l)
        .ok (.dyn s)
    | .uint256 => do
        let w ← G.slice out index (index + 32)
        .ok (.num (beNat w))
    | .uint64 => do
        let w ← G.slice out index (index + 32)
        if beNat w ≥ 2 ^ 64 then .err "abi: improperly encoded uint64 value" else .ok (.num (beNat w))

/-- `forTupleUnpack` / `UnpackValues` loop: component `i` is read at byte `i*32` -/
def unpackFields : List FTy → Nat → Bytes → G (List FVal)
  | [], _, _ => .ok []
  | t :: ts, i, out => do
      let v ← toGo (i * 32) t out
      let vs ← unpackFields ts (i + 1) out
      .ok (v :: vs)

/-- `tuplePointsTo(0, data)` followed by `forTupleUnpack(t, data[begin:])`, preceded by the checks of
    `Arguments.Unpack` (empty data) and `toGoType(0, tuple, data)` (one word must be present) -/
def unpackWrapped (tys : List FTy) (data : Bytes) : G (List FVal) :=
  if data.length = 0 then .err "abi: attempting to unmarshal an empty string while arguments are expected"
  else if 0 + 32 > data.length then .err "abi: length insufficient"
  else do
    let w ← G.slice data 0 32
    let off := beNat w
    if off > data.length then .err "abi: offset would go over slice boundary"
    else if off ≥ 2 ^ 63 then .err "abi offset larger than int64"
    else do
      let out ← G.sliceFrom data off
      unpackFields tys 0 out

/-- `Arguments.Unpack` for a list of static word arguments -/
def unpackStatic (tys : List FTy) (data : Bytes) : G (List FVal) :=
  if data.length = 0 then .err "abi: attempting to unmarshal an empty string while arguments are expected"
  else unpackFields tys 0 data

def tyOf : FVal → FTy
  | .num _ => .uint256
  | .dyn _ => .dyn

/-! ### ICS-20 `FungibleTokenPacketData` (transfer/types/solidity_abi.go) -/

structure Ftpd where
  denom : Bytes
  amount : List Char      -- the Go string field
  sender : Bytes
  receiver : Bytes
  memo : Bytes
deriving Repr, DecidableEq

/-- `new(big.Int).SetString(s, 10)`: optional sign, at least one digit, decimal digits only.
    Returns (negative?, magnitude). -/
def parseDigits10 (ds : List Char) : Option Nat :=
  if ds.isEmpty then none
  else if ds.all Char.isDigit then some (Nat.ofDigitChars 10 ds 0)
  else none

def parseBig10 : List Char → Option (Bool × Nat)
  | '+' :: r => (parseDigits10 r).map (fun n => (false, n))
  | '-' :: r => (parseDigits10 r).map (fun n => (true, n))
  | r => (parseDigits10 r).map (fun n => (false, n))

def ics20Tys : List FTy := [.dyn, .dyn, .dyn, .uint256, .dyn]

/-- `EncodeABIFungibleTokenPacketData` (after fix 6129489): the amount is read with
    `sdkmath.NewIntFromString` exactly as `ValidateBasic` and the keeper read it; unparsable,
    > 256-bit and negative amounts are `ErrAbiEncoding`. -/
def encodeFtpd (d : Ftpd) : G Bytes :=
  match newIntFromString d.amount with
  | none => .err "abi-encoding: failed to parse amount"
  | some (neg, n) =>
    if neg then .err "abi-encoding: failed to parse amount"
    else .ok (packWrapped [.dyn d.denom, .dyn d.sender, .dyn d.receiver, .num n, .dyn d.memo])

/-- `DecodeABIFungibleTokenPacketData`; `Amount: packetData.Amount.String()` is canonical decimal -/
def decodeFtpd (data : Bytes) : G Ftpd := do
  let vs ← unpackWrapped ics20Tys data
  match vs with
  | [.dyn denom, .dyn sender, .dyn receiver, .num n, .dyn memo] =>
      .ok ⟨denom, dec n, sender, receiver, memo⟩
  | _ => .err "abi-decoding: failed to parse packet data"

/-! ### GMP packet data and acknowledgement (27-gmp/types/solidity_abi.go) -/

structure Gmp where
  sender : Bytes
  receiver : Bytes
  salt : Bytes
  payload : Bytes
  memo : Bytes
deriving Repr, DecidableEq

def gmpTys : List FTy := [.dyn, .dyn, .dyn, .dyn, .dyn]

def encodeGmp (d : Gmp) : Bytes :=
  packWrapped [.dyn d.sender, .dyn d.receiver, .dyn d.salt, .dyn d.payload, .dyn d.memo]

def decodeGmp (data : Bytes) : G Gmp := do
  let vs ← unpackWrapped gmpTys data
  match vs with
  | [.dyn a, .dyn b, .dyn c, .dyn d, .dyn e] => .ok ⟨a, b, c, d, e⟩
  | _ => .err "abi-decoding: failed to parse packet data"

def encodeAck (result : Bytes) : Bytes := packWrapped [.dyn result]

def decodeAck (data : Bytes) : G Bytes := do
  let vs ← unpackWrapped [.dyn] data
  match vs with
  | [.dyn r] => .ok r
  | _ => .err "abi-decoding: failed to parse packet data"

/-- `UnmarshalPacketData(bz, Version, EncodingABI)` of 27-gmp: decode, then require that
    re-encoding reproduces the input bytes exactly. -/
def unmarshalGmpAbi (data : Bytes) : G Gmp := do
  let d ← decodeGmp data
  if encodeGmp d = data then .ok d else .err "packet data did not marshal to expected bytes"

def unmarshalAckAbi (data : Bytes) : G Bytes := do
  let r ← decodeAck data
  if encodeAck r = data then .ok r else .err "acknowledgement did not marshal to expected bytes"

/-! ### attestation light client (light-clients/attestations/abi.go) -/

def nanosPerSecond : Nat := 1000000000

structure StateAtt where
  height : Nat       -- uint64
  timestamp : Nat    -- uint64, nanoseconds
deriving Repr, DecidableEq

/-- `(*StateAttestation).ABIEncode`: the timestamp is written in whole seconds -/
def encodeState (s : StateAtt) : Bytes := packStatic [s.height, s.timestamp / nanosPerSecond]

/-- `ABIDecodeStateAttestation`: seconds whose nanosecond conversion would wrap in `uint64` are
    rejected (fix b1892f8: `timestampSeconds > math.MaxUint64/nanosPerSecond`) -/
def decodeState (data : Bytes) : G StateAtt := do
  let vs ← unpackStatic [.uint64, .uint64] data
  match vs with
  | [.num h, .num secs] =>
    if secs > (2 ^ 64 - 1) / nanosPerSecond then .err "invalid-timestamp"
    else .ok ⟨h, (secs * nanosPerSecond) % 2 ^ 64⟩
  | _ => .err "invalid state attestation"

structure PacketCompact where
  path : Bytes
  commitment : Bytes
deriving Repr, DecidableEq

structure PacketAtt where
  height : Nat
  packets : List PacketCompact
deriving Repr, DecidableEq

/-- `bytesToBytes32`: `copy` into a zeroed [32]byte (truncate or right-pad) -/
def bytes32 (b : Bytes) : Bytes := (b.take 32) ++ List.replicate (32 - (b.take 32).length) 0

/-- `(*PacketCompact).ABIEncode` (two static bytes32 words) -/
def encodeCompact (p : PacketCompact) : Bytes := bytes32 p.path ++ bytes32 p.commitment

/-- `Type.pack` of `tuple(bytes32,bytes32)[]`: length word, then the static elements in place -/
def encPackets (ps : List PacketCompact) : Bytes := word ps.length ++ ps.flatMap encodeCompact

/-- `(*PacketAttestation).ABIEncode`: tuple-wrapped `(uint64 height, tuple[] packets)` -/
def encodePacketAtt (a : PacketAtt) : Bytes :=
  word 32 ++ (word a.height ++ word 64 ++ encPackets a.packets)

/-- element `j` of the slice: `toGoType(64*j, tuple(bytes32,bytes32), output)` -/
def unpackCompact (i : Nat) (out : Bytes) : G PacketCompact :=
  if i + 32 > out.length then .err "abi: length insufficient"
  else do
    -- static tuple: forTupleUnpack(t, output[index:])
    let o ← G.sliceFrom out i
    -- component 0: toGoType(0, bytes32, o)
    if 0 + 32 > o.length then .err "abi: length insufficient"
    else do
      let p ← G.slice o 0 32
      -- component 1: toGoType(32, bytes32, o)
      if 32 + 32 > o.length then .err "abi: length insufficient"
      else do
        let c ← G.slice o 32 64
        .ok ⟨p, c⟩

/-- the loop of `forEachUnpack` (element size 64) -/
def unpackCompacts : Nat → Nat → Bytes → G (List PacketCompact)
  | 0, _, _ => .ok []
  | n + 1, i, out => do
      let p ← unpackCompact i out
      let ps ← unpackCompacts n (i + 64) out
      .ok (p :: ps)

/-- `forEachUnpack(t, output, 0, size)` -/
def forEachUnpack (out : Bytes) (size : Nat) : G (List PacketCompact) :=
  if 0 + 32 * size > out.length then .err "abi: cannot marshal into go array: offset would go over slice boundary"
  else unpackCompacts size 0 out

/-- `ABIDecodePacketAttestation` -/
def decodePacketAtt (data : Bytes) : G PacketAtt :=
  if data.length = 0 then .err "abi: attempting to unmarshal an empty string while arguments are expected"
  else if 0 + 32 > data.length then .err "abi: length insufficient"
  else do
    let w ← G.slice data 0 32
    let off := beNat w
    if off > data.length then .err "abi: offset would go over slice boundary"
    else if off ≥ 2 ^ 63 then .err "abi offset larger than int64"
    else do
      let out ← G.sliceFrom data off
      -- component 0: uint64 height
      let hv ← toGo 0 .uint64 out
      -- component 1: slice at index 32
      if 32 + 32 > out.length then .err "abi: length insufficient"
      else do
        let (b, l) ← lengthPrefixPointsTo 32 out
        let arr ← G.sliceFrom out b
        let ps ← forEachUnpack arr l
        match hv with
        | .num h => .ok ⟨h, ps⟩
        | _ => .err "invalid packet attestation type"

end IbcVerif.Abi
