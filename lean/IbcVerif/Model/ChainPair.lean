/-
  Two chains with honest, up-to-date light clients of each other.

  `World` = two L3 chain states A and B.  Every op executes on one side by the ordinary `step`; the
  proof verdict of a channel / connection HANDSHAKE step is not an input any more but is DERIVED from
  the other side's current store: the proof verifies iff the counterparty store holds, under the key
  the handler asks for, exactly the end the handler expects — as constructed by the code
  (04-channel/keeper/handshake.go: ChanOpenTry/Ack/Confirm, ChanCloseConfirm;
   03-connection/keeper/handshake.go: ConnOpenTry/Ack/Confirm) — and the connection's counterparty
  prefix is the counterparty chain's real store prefix.

  Everything else stays an adversarial input of the op: application results, signers, client status,
  block time, the verdicts of packet proofs.  Proofs are taken against the counterparty's CURRENT
  state (a light client that is always up to date); stale proofs are not modelled here.
-/
import IbcVerif.Model.Chain
namespace IbcVerif.Chain

/-- the commitment prefix of both chains ("ibc") -/
def storePrefix : Hex := "696263"

/-- for a channel-handshake op executed on `me`: the key in the counterparty's channel store the
    handler proves, the channel end it expects there, and whether the proof path uses the
    counterparty's real prefix -/
def expectedChan (me : ChainState) : Body → Option ((Id × Id) × Channel × Bool)
  | .chanOpenTry port o hops cpPort cpChan cpVersion _ =>
    match hops with
    | [h] => match me.conn.get h with
      | some conn => some ((cpPort, cpChan), ⟨.init, o, port, "", [conn.cpConn], cpVersion⟩, conn.cpPrefix == storePrefix)
      | none => none
    | _ => none
  | .chanOpenAck port chan cpChan cpVersion _ =>
    match me.chan.get (port, chan) with
    | some ch => match getConn me ch with
      | .ok (_, conn) =>
        some ((ch.cpPort, cpChan), ⟨.tryopen, ch.ordering, port, chan, [conn.cpConn], cpVersion⟩, conn.cpPrefix == storePrefix)
      | .error _ => none
    | none => none
  | .chanOpenConfirm port chan _ =>
    match me.chan.get (port, chan) with
    | some ch => match getConn me ch with
      | .ok (_, conn) =>
        some ((ch.cpPort, ch.cpChan), ⟨.opened, ch.ordering, port, chan, [conn.cpConn], ch.version⟩, conn.cpPrefix == storePrefix)
      | .error _ => none
    | none => none
  | .chanCloseConfirm port chan _ =>
    match me.chan.get (port, chan) with
    | some ch => match getConn me ch with
      | .ok (_, conn) =>
        some ((ch.cpPort, ch.cpChan), ⟨.closed, ch.ordering, port, chan, [conn.cpConn], ch.version⟩, conn.cpPrefix == storePrefix)
      | .error _ => none
    | none => none
  | _ => none

/-- the same for connection-handshake ops -/
def expectedConn (me : ChainState) : Body → Option (Id × ConnEnd × Bool)
  | .connOpenTry client cpClient cpConn cpPrefix versions delay =>
    some (cpConn, ⟨.init, cpClient, client, "", storePrefix, versions, delay⟩, cpPrefix == storePrefix)
  | .connOpenAck connId cpConn version =>
    match me.conn.get connId with
    | some conn =>
      some (cpConn, ⟨.tryopen, conn.cpClient, conn.client, connId, storePrefix, [version], conn.delay⟩, conn.cpPrefix == storePrefix)
    | none => none
  | .connOpenConfirm connId =>
    match me.conn.get connId with
    | some conn =>
      some (conn.cpConn, ⟨.opened, conn.cpClient, conn.client, connId, storePrefix, conn.versions, conn.delay⟩, conn.cpPrefix == storePrefix)
    | none => none
  | _ => none

/-- verdict of the (first) proof of the op under an honest, up-to-date light client of `other`;
    for ops that are not handshake steps the adversarial input `adv` is kept -/
def honestV1 (me other : ChainState) (body : Body) (adv : Bool) : Bool :=
  match expectedChan me body with
  | some (k, v, pfxOK) => pfxOK && other.chan.get k == some v
  | none =>
    match expectedConn me body with
    | some (k, v, pfxOK) => pfxOK && other.conn.get k == some v
    | none => adv

/-- the environment of the op with the honest verdict plugged in -/
def honestEnv (me other : ChainState) (op : Op) : Env :=
  { op.env with lc := { op.env.lc with v1 := honestV1 me other op.body op.env.lc.v1 } }

/-- one op executed on `me` while the counterparty is in state `other` -/
def sideStep (me other : ChainState) (op : Op) : ChainState × Out :=
  step me ⟨honestEnv me other op, op.body⟩

structure World where
  a : ChainState
  b : ChainState

/-- `side = false`: the op executes on chain A, `true`: on chain B -/
def pstep (w : World) (side : Bool) (op : Op) : World :=
  if side then { w with b := (sideStep w.b w.a op).1 } else { w with a := (sideStep w.a w.b op).1 }

def prun (w : World) : List (Bool × Op) → World
  | [] => w
  | (side, op) :: rest => prun (pstep w side op) rest

def World.init : World := ⟨Chain.init, Chain.init⟩

/-- the state of chain `side` of a world (`false` = A, `true` = B) -/
def chainOf (w : World) (side : Bool) : ChainState := if side then w.b else w.a

end IbcVerif.Chain
