/-
  Authority-gated administration messages whose handlers start with `sdk.ValidateAuthority`:
    modules/apps/rate-limiting/keeper/msg_server.go   AddRateLimit, UpdateRateLimit, RemoveRateLimit, ResetRateLimit
    modules/light-clients/08-wasm/keeper/msg_server.go StoreCode, RemoveChecksum, MigrateContract
  (the core handlers RecoverClient / IBCSoftwareUpgrade / Update*Params are in Props/C46.lean on the chain model).
  The keeper step after the gate is a parameter.
-/
namespace IbcVerif.Admin

/-- `sdk.ValidateAuthority(ctx, keeperAuthority, msgAuthority)` with no consensus-params authority override -/
def validateAuthority (authority signer : String) : Bool := decide (authority = signer)

/-- a gated handler: `none` = the transaction fails and changes nothing -/
def handler {σ : Type} (authority signer : String) (keeperStep : σ → Option σ) (s : σ) : Option σ :=
  if validateAuthority authority signer then keeperStep s else none

end IbcVerif.Admin
