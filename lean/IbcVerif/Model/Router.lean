/-
  Port routing.
    v1: modules/core/05-port/types/router.go (AddRoute, Keys = sorted map keys)
        modules/core/05-port/keeper/keeper.go (Route: exact match, else first sorted key that is a substring)
    v2: modules/core/api/router.go (AddRoute, AddPrefixRoute, getRoute over two Go maps)
  Names are lists of code points (ASCII alphanumerics in practice); a module is identified with the
  key it was registered under.  Go map iteration order is a *parameter* (`order`) of the v2 lookup.
-/
namespace IbcVerif.Router

abbrev Name := List Nat

/-- Go string comparison `a <= b` (bytewise lexicographic) -/
def lexLe : Name → Name → Bool
  | [], _ => true
  | _ :: _, [] => false
  | a :: as, b :: bs => a < b || (a == b && lexLe as bs)

/-- `strings.Contains(s, sub)` -/
def contains : Name → Name → Bool
  | [], sub => sub.isEmpty
  | c :: cs, sub => sub.isPrefixOf (c :: cs) || contains cs sub

/-- `sdk.IsAlphaNumeric`: `^[a-zA-Z0-9]+$` -/
def isAlnum (s : Name) : Bool :=
  !s.isEmpty && s.all (fun c => (48 ≤ c && c ≤ 57) || (65 ≤ c && c ≤ 90) || (97 ≤ c && c ≤ 122))

/-! ### v1 -/

/-- `Router.Keys()`: the registered names, sorted -/
def keysV1 (routes : List Name) : List Name := routes.mergeSort lexLe

/-- `Keeper.Route(module)`: the key of the module that answers, if any -/
def routeV1 (routes : List Name) (port : Name) : Option Name :=
  if routes.contains port then some port
  else (keysV1 routes).find? (fun k => contains port k)

/-! ### v2 -/

structure RouterV2 where
  routes : List Name
  prefixes : List Name
deriving Repr, DecidableEq

def RouterV2.empty : RouterV2 := ⟨[], []⟩

/-- `AddRoute`: `none` = panic -/
def addRoute (r : RouterV2) (port : Name) : Option RouterV2 :=
  if !isAlnum port then none
  else if r.routes.contains port then none
  else if r.prefixes.any (fun p => p.isPrefixOf port) then none
  else some { r with routes := port :: r.routes }

/-- `AddPrefixRoute`: `none` = panic -/
def addPrefix (r : RouterV2) (pre : Name) : Option RouterV2 :=
  if !isAlnum pre then none
  else if r.routes.any (fun port => pre.isPrefixOf port) then none
  else if r.prefixes.any (fun p => p.isPrefixOf pre || pre.isPrefixOf p) then none
  else some { r with prefixes := pre :: r.prefixes }

/-- `getRoute` with the prefix map iterated in the given order (any permutation of `r.prefixes`) -/
def getRouteWith (r : RouterV2) (order : List Name) (port : Name) : Option Name :=
  if r.routes.contains port then some port
  else order.find? (fun p => p.isPrefixOf port)

inductive OpV2 | route (n : Name) | pre (n : Name)
deriving Repr, DecidableEq

/-- apply registrations in order; a panicking call aborts (the app would not start) -/
def applyOps : RouterV2 → List OpV2 → Option RouterV2
  | r, [] => some r
  | r, .route n :: ops => (addRoute r n).bind (fun r' => applyOps r' ops)
  | r, .pre n :: ops => (addPrefix r n).bind (fun r' => applyOps r' ops)

end IbcVerif.Router
