/-
  Bank abstraction used by the ICS-20 model (DESIGN §3.7): balances `Addr × Denom → Nat`, supply
  `Denom → Nat`; send / mint / burn fail on insufficient funds.  This stands for the SDK bank keeper
  (`SendCoins`, `MintCoins`, `BurnCoins`, `SendCoinsFromAccountToModule`), which is outside ibc-go
  and in the trusted base; the correspondence harness compares every balance and supply it touches
  with the real keeper after every step.
-/
import IbcVerif.Model.Denom
namespace IbcVerif.Ics20
open IbcVerif.Xfer

abbrev Addr := Str

structure Bank where
  bal : Addr → Str → Nat
  supply : Str → Nat

namespace Bank

def empty : Bank := ⟨fun _ _ => 0, fun _ => 0⟩

def setBal (b : Bank) (a : Addr) (d : Str) (v : Nat) : Bank :=
  { b with bal := fun a' d' => if a' = a ∧ d' = d then v else b.bal a' d' }

def setSupply (b : Bank) (d : Str) (v : Nat) : Bank :=
  { b with supply := fun d' => if d' = d then v else b.supply d' }

/-- `SendCoins(from, to, n d)`: `subUnlockedCoins` then `addCoins` (sequential, so `from = to` is a
    no-op on the balance); fails with insufficient funds. -/
def send (b : Bank) (frm to : Addr) (d : Str) (n : Nat) : Option Bank :=
  if b.bal frm d < n then none
  else
    let b1 := b.setBal frm d (b.bal frm d - n)
    some (b1.setBal to d (b1.bal to d + n))

/-- `MintCoins(module, n d)`: credits the module account and the supply -/
def mint (b : Bank) (module : Addr) (d : Str) (n : Nat) : Bank :=
  (b.setBal module d (b.bal module d + n)).setSupply d (b.supply d + n)

/-- `BurnCoins(module, n d)`: debits the module account and the supply; fails on insufficient funds
    (the SDK keeps `supply ≥ every balance`, so the second test never fires there; it keeps the
    model's natural-number subtraction exact) -/
def burn (b : Bank) (module : Addr) (d : Str) (n : Nat) : Option Bank :=
  if b.bal module d < n ∨ b.supply d < n then none
  else some ((b.setBal module d (b.bal module d - n)).setSupply d (b.supply d - n))

end Bank
end IbcVerif.Ics20
