/-
  Finite maps for the L3 chain model: association lists with at most the three operations the
  key/value store offers (`get`, `set`, `delete`).  The typed stores of `ChainState` are `FMap`s;
  DESIGN.md §2.2: distinct typed keys are distinct store keys (that is property C16).
  The only facts proofs use are `get_set`, `get_del`, `get_empty` (IbcVerif/Lemmas/ChainMap.lean).
-/
namespace IbcVerif.Chain

def alookup {K V : Type} [DecidableEq K] : List (K × V) → K → Option V
  | [], _ => none
  | (k', v) :: l, k => if k' = k then some v else alookup l k

def aerase {K V : Type} [DecidableEq K] : List (K × V) → K → List (K × V)
  | [], _ => []
  | (k', v) :: l, k => if k' = k then aerase l k else (k', v) :: aerase l k

structure FMap (K V : Type) where
  entries : List (K × V)

namespace FMap
variable {K V : Type} [DecidableEq K]

def empty : FMap K V := ⟨[]⟩
def get (m : FMap K V) (k : K) : Option V := alookup m.entries k
def del (m : FMap K V) (k : K) : FMap K V := ⟨aerase m.entries k⟩
def set (m : FMap K V) (k : K) (v : V) : FMap K V := ⟨(k, v) :: aerase m.entries k⟩
def has (m : FMap K V) (k : K) : Bool := (m.get k).isSome

end FMap
end IbcVerif.Chain
