/-
  Finite maps for the L3 chain model: association lists with at most the three operations the
  key/value store offers (`get`, `set`, `delete`).  The typed stores of `ChainState` are `FMap`s;
  DESIGN.md §2.2: distinct typed keys are distinct store keys (that is property C16).
  The only facts proofs use are `get_set`, `get_del`, `get_empty` (IbcVerif/Lemmas/ChainMap.lean).
-/
namespace IbcVerif.Chain

structure FMap (K V : Type) where
  entries : List (K × V)

namespace FMap
variable {K V : Type} [DecidableEq K]

def empty : FMap K V := ⟨[]⟩

def get (m : FMap K V) (k : K) : Option V :=
  match m.entries.find? (fun e => decide (e.1 = k)) with
  | some e => some e.2
  | none => none

def del (m : FMap K V) (k : K) : FMap K V :=
  ⟨m.entries.filter (fun e => decide (e.1 ≠ k))⟩

def set (m : FMap K V) (k : K) (v : V) : FMap K V :=
  ⟨(k, v) :: m.entries.filter (fun e => decide (e.1 ≠ k))⟩

def has (m : FMap K V) (k : K) : Bool := (m.get k).isSome

end FMap
end IbcVerif.Chain
