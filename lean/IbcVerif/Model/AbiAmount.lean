/-
  The amount of an ICS-20 packet as an integer.

  `FungibleTokenPacketData.ValidateBasic`, `Token.Validate`, the transfer keeper, rate limiting and
  PFM all read the amount string with `sdkmath.NewIntFromString`, which is
  `new(big.Int).SetString(s, 0)` — **base 0**: optional sign, then `0x`/`0X` hex, `0b`/`0B` binary,
  `0o`/`0O` octal, a bare leading `0` = legacy octal, otherwise decimal; `_` may separate digits —
  followed by the 256-bit overflow check.  (`EncodeABIFungibleTokenPacketData` uses the same reader since fix 6129489; before it
  used `SetString(s, 10)`, still modelled by `Abi.parseBig10` for reference.)

  `scan0` mirrors `nat.scan(r, 0, false)` of Go's math/big (natconv.go) together with the
  "entire content must have been consumed" check of `setFromScanner`: a character that stops the
  digit loop makes the whole parse fail, so it is modelled as `none`.
-/
namespace IbcVerif.Abi

/-- digit value of a character as in `nat.scan` (values ≥ 36 never pass `d1 < b`) -/
def digitVal (c : Char) : Nat :=
  if '0' ≤ c ∧ c ≤ '9' then c.toNat - '0'.toNat
  else if 'a' ≤ c ∧ c ≤ 'z' then c.toNat - 'a'.toNat + 10
  else if 'A' ≤ c ∧ c ≤ 'Z' then c.toNat - 'A'.toNat + 10
  else 37

/-- the digit loop: `prevDigit` ⇔ `prev == '0'`, `prevSep` ⇔ `prev == '_'` -/
def scanLoop (b : Nat) (prefix0 : Bool) : List Char → Bool → Bool → Bool → Nat → Nat → Option Nat
  | [], _, prevSep, inval, count, acc =>
    if inval || prevSep then none                      -- errInvalSep
    else if count = 0 then (if prefix0 then some 0 else none)   -- lone octal prefix "0…" / errNoDigits
    else some acc
  | c :: cs, prevDigit, _, inval, count, acc =>
    if c = '_' then scanLoop b prefix0 cs false true (inval || !prevDigit) count acc
    else if digitVal c ≥ b then none                   -- loop stops, content not consumed
    else scanLoop b prefix0 cs true false inval (count + 1) (acc * b + digitVal c)

/-- `nat.scan(r, 0, false)` + whole-input check -/
def scan0 : List Char → Option Nat
  | ['0'] => some 0
  | '0' :: c :: rest =>
    if c = 'b' ∨ c = 'B' then scanLoop 2 false rest true false false 0 0
    else if c = 'o' ∨ c = 'O' then scanLoop 8 false rest true false false 0 0
    else if c = 'x' ∨ c = 'X' then scanLoop 16 false rest true false false 0 0
    else scanLoop 8 true (c :: rest) true false false 0 0
  | s => scanLoop 10 false s false false false 0 0

/-- `new(big.Int).SetString(s, 0)`: (negative?, magnitude); zero carries no sign -/
def parseBig0 : List Char → Option (Bool × Nat)
  | '+' :: r => (scan0 r).map (fun n => (false, n))
  | '-' :: r => (scan0 r).map (fun n => (decide (n ≠ 0), n))
  | r => (scan0 r).map (fun n => (false, n))

/-- `sdkmath.NewIntFromString` -/
def newIntFromString (s : List Char) : Option (Bool × Nat) :=
  match parseBig0 s with
  | some (neg, n) => if n < 2 ^ 256 then some (neg, n) else none
  | none => none

/-- the amount check of `FungibleTokenPacketData.ValidateBasic`: parses and is strictly positive -/
def validAmount (s : List Char) : Option Nat :=
  match newIntFromString s with
  | some (false, n) => if 0 < n then some n else none
  | _ => none

end IbcVerif.Abi
