/-
  Decimal formatting / parsing of unsigned integers as Go does it:
  `fmt.Sprintf("%d", n)` / `strconv.FormatUint(n, 10)`  and  `strconv.ParseUint(s, 10, 64)`.
  Strings are modelled as `List Char` (generators keep them ASCII).
-/
namespace IbcVerif

/-- `%d` of an unsigned integer -/
def dec (n : Nat) : List Char := Nat.toDigits 10 n

/-- `strconv.ParseUint(s, 10, 64)`: non-empty, digits only (no sign, no underscore for base 10),
    value < 2^64; leading zeros allowed. -/
def parseUint64 (s : List Char) : Option Nat :=
  if s.isEmpty then none
  else if s.all Char.isDigit then
    let v := Nat.ofDigitChars 10 s 0
    if v < 2 ^ 64 then some v else none
  else none

/-- split on a separator character (Go `strings.Split(s, sep)` for a single-byte separator):
    always returns a non-empty list; `n` separators give `n+1` pieces. -/
def splitOnChar (sep : Char) : List Char → List (List Char)
  | [] => [[]]
  | c :: cs =>
    if c = sep then [] :: splitOnChar sep cs
    else match splitOnChar sep cs with
      | [] => [[c]]           -- unreachable
      | p :: ps => (c :: p) :: ps

def joinWith (sep : Char) : List (List Char) → List Char
  | [] => []
  | [p] => p
  | p :: q :: ps => p ++ sep :: joinWith sep (q :: ps)

end IbcVerif
