/-
  Small association-list finite map used by the application-middleware models (apps cluster).
  Typed keys stand for the byte keys of the module stores; that abstraction is licensed by C16
  (distinct typed keys give distinct store keys) and, for the rate-limiting store whose item key is
  the plain concatenation `denom ++ channelID`, by the fact that channel / client identifiers
  that exist on a chain never are a proper suffix of one another (see evidence `trusted`).
-/
namespace IbcVerif.Apps

namespace KV
variable {κ ν : Type} [DecidableEq κ]

def get : List (κ × ν) → κ → Option ν
  | [], _ => none
  | (k', v) :: t, k => if k' = k then some v else get t k

/-- overwrite in place, else append -/
def set : List (κ × ν) → κ → ν → List (κ × ν)
  | [], k, v => [(k, v)]
  | (k', v') :: t, k, v => if k' = k then (k, v) :: t else (k', v') :: set t k v

def erase : List (κ × ν) → κ → List (κ × ν)
  | [], _ => []
  | (k', v') :: t, k => if k' = k then erase t k else (k', v') :: erase t k

/-- apply `f` to every value (keys unchanged) -/
def mapVals (f : κ → ν → ν) : List (κ × ν) → List (κ × ν)
  | [] => []
  | (k, v) :: t => (k, f k v) :: mapVals f t

def keys (m : List (κ × ν)) : List κ := m.map (·.1)

end KV

-- list used as a finite set (collections.KeySet)
namespace SetL
variable {α : Type} [DecidableEq α]

def insert (l : List α) (a : α) : List α := if a ∈ l then l else a :: l
def erase (l : List α) (a : α) : List α := l.filter (fun b => b ≠ a)

end SetL

end IbcVerif.Apps
