/-
  L3 "Chain" model — `step : ChainState → Op → ChainState × Out`.

  Each handler mirrors the Go code line by line where it matters: the order of checks decides which
  error class is reported and whether a message is a NOOP, an error, or a success.
  Cache contexts (`cacheCtx, writeFn := ctx.CacheContext()`) are explicit: a child is a copy of the
  parent state, `writeFn()` replaces the parent by the child, a discarded child is simply dropped.
  A handler that returns an error makes the whole transaction fail, which the SDK reverts: `step`
  then returns the ORIGINAL state (SDK isolation is in the trusted base).

  Error classes are the registered (codespace/code) of ibc-go's sentinel errors.
-/
import IbcVerif.Model.ChainTypes
namespace IbcVerif.Chain
open IbcVerif

/-! ## error classes (root sentinel of the returned error) -/
def eChanNotFound := "channel/3"
def eChanState := "channel/5"
def eChanOrdering := "channel/6"
def eNSendNotFound := "channel/10"
def eNRecvNotFound := "channel/11"
def eNAckNotFound := "channel/12"
def eInvalidPacket := "channel/13"
def eHops := "channel/15"
def eInvalidAck := "channel/16"
def eAckExists := "channel/17"
def ePacketReceived := "channel/19"
def eOutOfOrder := "channel/21"
def eNoOp := "channel/23"
def eTimeoutNotReached := "channel/39"
def eTimeoutElapsed := "channel/40"
def e2InvalidPacket := "channelv2/2"
def e2NSendNotFound := "channelv2/4"
def e2InvalidAck := "channelv2/5"
def e2InvalidTimeout := "channelv2/8"
def e2TimeoutElapsed := "channelv2/9"
def e2TimeoutNotReached := "channelv2/10"
def e2AckExists := "channelv2/11"
def e2NoOp := "channelv2/12"
def eConnNotFound := "connection/3"
def eConnState := "connection/6"
def eConnVersion := "connection/9"
def eVersionNegotiation := "connection/10"
def eClientNotFound := "client/4"
def eClientType := "client/10"
def eRecovery := "client/24"
def eInvalidHeight := "client/26"
def eClientNotActive := "client/29"
def eRouteNotFound := "client/32"
def eCpInvalid := "clientv2/34"
def eCpNotFound := "clientv2/35"
def eUnauthorized := "ibc/2"
def eInvalidRequest := "ibc/8"
def eNotFound := "ibc/16"
def eAuthority := "sdk/4"
def ePortRoute := "port/5"
def eInvalidId := "host/2"
def eUndefined := "undefined/1"
def eProof := "verif/2"
def eLcTs := "verif/3"
def eApp := "verif/4"
def eLcMsg := "verif/5"
def eLcInit := "verif/6"
def eLcRecov := "verif/7"
def eVB := "verif/8"
/-- a Go panic inside the handler (recovered by baseapp: the tx fails, state reverted) -/
def ePanic := "PANIC"

/-! ## fixed configuration of the chain under test (parameters of the model) -/
/-- the configured authority (symbolic signer name) -/
def authority : String := "auth"
/-- light client modules registered in the 02-client router that the generator addresses -/
def registeredClientTypes : List String := ["99-verif", "98-verif"]
/-- 05-port routing restricted to the generator's domain (C48 covers the router itself) -/
def routeV1 (port : Id) : Bool := port == "mock"
/-- IBC v2 router (api.Router): an unknown port makes `Route` panic -/
def routeV2 (port : Id) : Bool := port == "mockv2A" || port == "mockv2B"
def selfRevision : Nat := 1
def localhostClient : Id := "09-localhost"
def maxTimeoutDelta : Int := 86400
def unixToInternal : Int := 62135596800
def sentinelAck : Hex := "4774d4a575993f963b1c06573736617a457abef8589178db8d10c94b4ab511ab"

/-! ## identifiers -/
def fmtChan (n : Nat) : Id := String.ofList ("channel-".toList ++ dec n)
def fmtConn (n : Nat) : Id := String.ofList ("connection-".toList ++ dec n)
def fmtClient (ctype : String) (n : Nat) : Id := String.ofList (ctype.toList ++ '-' :: dec n)

def isWordChar (c : Char) : Bool := c.isAlphanum || c == '_'

/-- split at the last '-' : (before, after) -/
def splitLastDash (s : List Char) : Option (List Char × List Char) :=
  match splitOnChar '-' s with
  | [] => none
  | [_] => none
  | ps => some (joinWith '-' ps.dropLast, ps.getLast!)

/-- `clienttypes.ParseClientIdentifier`: regexp `^\w+([\w-]+\w)?-[0-9]{1,20}$`, split on the last
    '-', `strconv.ParseUint` of the suffix. -/
def parseClientId (cid : Id) : Except String (String × Nat) :=
  if cid = localhostClient then .ok (cid, 0) else
  match splitLastDash cid.toList with
  | none => .error eInvalidId
  | some (t, d) =>
    if d.isEmpty || d.length > 20 || !d.all Char.isDigit then .error eInvalidId else
    if t.isEmpty || !t.all (fun c => isWordChar c || c == '-') then .error eInvalidId else
    if !isWordChar (t.head!) || !isWordChar (t.getLast!) then .error eInvalidId else
    match parseUint64 d with
    | none => .error eUndefined
    | some n => .ok (String.ofList t, n)

/-- `Params.IsAllowedClient` -/
def isAllowedClient (allowed : List String) (ctype : String) : Bool :=
  if ctype.trimAscii.toString == "" then false
  else if allowed == ["*"] then true
  else allowed.contains ctype

/-- `clientkeeper.Route` -/
def route (s : ChainState) (cid : Id) : Except String Unit :=
  match parseClientId cid with
  | .error e => .error e
  | .ok (ctype, _) =>
    if !isAllowedClient s.allowedClients ctype then .error eClientType
    else if !registeredClientTypes.contains ctype then .error eRouteNotFound
    else .ok ()

def LcEnv.statusOf (lc : LcEnv) (cid : Id) : Status :=
  match lc.stOf.lookup cid with
  | some st => st
  | none => lc.st

def LcEnv.latestOf (lc : LcEnv) (cid : Id) : Height :=
  match lc.lhOf.lookup cid with
  | some h => h
  | none => lc.lh

/-- `GetClientStatus` -/
def clientStatus (s : ChainState) (env : Env) (cid : Id) : Status :=
  match route s cid with
  | .error _ => .unauthorized
  | .ok _ => env.lc.statusOf cid

/-- `GetClientLatestHeight` -/
def clientLatestHeight (s : ChainState) (env : Env) (cid : Id) : Height :=
  match route s cid with
  | .error _ => Height.zero
  | .ok _ => env.lc.latestOf cid

/-- `GetClientTimestampAtHeight` -/
def clientTimestampAt (s : ChainState) (env : Env) (cid : Id) : Except String Nat :=
  match route s cid with
  | .error e => .error e
  | .ok _ => match env.lc.ts with
    | none => .error eLcTs
    | some t => .ok t

/-- `clientkeeper.VerifyMembership` / `VerifyNonMembership`: route, status gate, then the
    light client's verdict (an input). -/
def verify (s : ChainState) (env : Env) (cid : Id) (verdict : Bool) : Except String Unit :=
  match route s cid with
  | .error e => .error e
  | .ok _ =>
    if env.lc.statusOf cid ≠ .active then .error eClientNotActive
    else if !verdict then .error eProof
    else .ok ()

/-! ## connection versions (03-connection/types/version.go) -/
def supportedOrderings : List String := ["ORDER_ORDERED", "ORDER_UNORDERED"]
def defaultIBCVersion : Version := ⟨"1", supportedOrderings⟩
def compatibleVersions : List Version := [defaultIBCVersion]
def allowNilFeatureSet (_id : String) : Bool := false

def findSupportedVersion (v : Version) (supported : List Version) : Option Version :=
  supported.find? (fun sv => v.id == sv.id)

def verifyProposedVersion (sv proposed : Version) : Bool :=
  if proposed.id ≠ sv.id then false
  else if proposed.features.isEmpty && !allowNilFeatureSet proposed.id then false
  else proposed.features.all (fun f => sv.features.contains f)

def isSupportedVersion (supported : List Version) (proposed : Version) : Bool :=
  match findSupportedVersion proposed supported with
  | none => false
  | some sv => verifyProposedVersion sv proposed

def featureIntersection (src cp : List String) : List String := src.filter (fun f => cp.contains f)

def pickVersion : List Version → List Version → Option Version
  | [], _ => none
  | sv :: rest, cps =>
    match findSupportedVersion sv cps with
    | some cv =>
      let fs := featureIntersection sv.features cv.features
      if fs.isEmpty && !allowNilFeatureSet sv.id then pickVersion rest cps
      else some ⟨sv.id, fs⟩
    | none => pickVersion rest cps

def Order.str : Order → String
  | .none => "ORDER_NONE_UNSPECIFIED"
  | .unordered => "ORDER_UNORDERED"
  | .ordered => "ORDER_ORDERED"

/-! ## helpers -/
def ChainState.logAdd (s : ChainState) (e : Event) : ChainState := { s with log := s.log ++ [e] }

/-- scripted application writes `w` keys `k0..k(w-1)` -/
def appWrites (app : FMap String String) (pfx : String) (tag : String) : Nat → FMap String String
  | 0 => app
  | n + 1 => (appWrites app pfx tag n).set (pfx ++ "k" ++ toString n) tag

def ChainState.appWrite (s : ChainState) (pfx tag : String) (w : Nat) : ChainState :=
  { s with app := appWrites s.app pfx tag w }

def selfHeight (env : Env) : Height := ⟨UInt64.ofNat selfRevision, UInt64.ofNat env.nowH⟩

def wrapI64 (x : Int) : Int := (x + 9223372036854775808) % 18446744073709551616 - 9223372036854775808

/-- `uint64(time.Unix(0, int64(nanos)).Unix())` -/
def nanosToSecsU64 (nanos : Nat) : Nat := ((wrapI64 nanos / 1000000000) % 18446744073709551616).toNat

/-- seconds field of Go's `time.Unix(int64(T), 0)` in the internal (year-1) epoch, with int64 wrap-around -/
def timeoutInternalSec (t : Nat) : Int := wrapI64 (wrapI64 t + unixToInternal)

def blockInternalSec (env : Env) : Int := (env.nowT / 1000000000 : Nat) + unixToInternal

/-- first connection hop; `channel.ConnectionHops[0]` panics on an empty list -/
def hop0 (ch : Channel) : Except String Id :=
  match ch.hops with
  | [] => .error ePanic
  | h :: _ => .ok h

def getConn (s : ChainState) (ch : Channel) : Except String (Id × ConnEnd) :=
  match hop0 ch with
  | .error e => .error e
  | .ok h => match s.conn.get h with
    | none => .error eConnNotFound
    | some c => .ok (h, c)

/-! ## 04-channel/keeper/packet.go -/

/-- `Keeper.SendPacket` -/
def sendPacketV1 (s : ChainState) (env : Env) (port chan : Id) (thRev thH tt : Nat) (data : Hex) :
    Except String (ChainState × Nat) :=
  match s.chan.get (port, chan) with
  | none => .error eChanNotFound
  | some ch =>
  if ch.state ≠ .opened then .error eChanState else
  match s.nextSend.get chan with
  | none => .error eNSendNotFound
  | some seq =>
  -- packet.ValidateBasic() of the constructed packet (identifier checks: see trusted base)
  if seq = 0 then .error eInvalidPacket else
  if thRev = 0 ∧ thH = 0 ∧ tt = 0 then .error eInvalidPacket else
  if data = "" then .error eInvalidPacket else
  match getConn s ch with
  | .error e => .error e
  | .ok (_, conn) =>
  if clientStatus s env conn.client ≠ .active then .error eClientNotActive else
  let lh := clientLatestHeight s env conn.client
  if lh.isZero then .error eInvalidHeight else
  match clientTimestampAt s env conn.client with
  | .error e => .error e
  | .ok lts =>
  let timeout : Timeout := ⟨⟨UInt64.ofNat thRev, UInt64.ofNat thH⟩, UInt64.ofNat tt⟩
  if timeout.elapsed lh (UInt64.ofNat lts) then .error eTimeoutElapsed else
  .ok ({ s with nextSend := s.nextSend.set chan (seq + 1),
                commitV1 := s.commitV1.set (port, chan, seq) ⟨tt, thRev, thH, data⟩ }, seq)

/-- `applyReplayProtection` -/
def applyReplayProtection (s : ChainState) (p : PacketV1) (ch : Channel) : Except String ChainState :=
  let recvStart := (s.recvStart.get (p.dp, p.dc)).getD 0
  if p.seq < recvStart then .error ePacketReceived else
  match ch.ordering with
  | .unordered =>
    if s.receiptV1.has (p.dp, p.dc, p.seq) then .error eNoOp
    else .ok { s with receiptV1 := s.receiptV1.set (p.dp, p.dc, p.seq) () }
  | .ordered =>
    match s.nextRecv.get (p.dp, p.dc) with
    | none => .error eNRecvNotFound
    | some nsr =>
      if p.seq < nsr then .error eNoOp
      else if p.seq ≠ nsr then .error eOutOfOrder
      else .ok { s with nextRecv := s.nextRecv.set (p.dp, p.dc) (nsr + 1) }
  | .none => .error eChanOrdering

/-- `Keeper.RecvPacket` (04-channel): returns the new state and the channel version -/
def recvPacketV1 (s : ChainState) (env : Env) (p : PacketV1) : Except String ChainState :=
  match s.chan.get (p.dp, p.dc) with
  | none => .error eChanNotFound
  | some ch =>
  if ch.state ≠ .opened then .error eChanState else
  if p.sp ≠ ch.cpPort then .error eInvalidPacket else
  if p.sc ≠ ch.cpChan then .error eInvalidPacket else
  match getConn s ch with
  | .error e => .error e
  | .ok (_, conn) =>
  if conn.state ≠ .opened then .error eConnState else
  if p.timeout.elapsed (selfHeight env) (UInt64.ofNat env.nowT) then .error eTimeoutElapsed else
  match verify s env conn.client env.lc.v1 with
  | .error e => .error e
  | .ok _ => applyReplayProtection s p ch

/-- `Keeper.WriteAcknowledgement` (04-channel); `ack = none` models a nil acknowledgement -/
def writeAckV1 (s : ChainState) (p : PacketV1) (ack : Option Hex) : Except String ChainState :=
  match s.chan.get (p.dp, p.dc) with
  | none => .error eChanNotFound
  | some ch =>
  if ch.state ≠ .opened then .error eChanState else
  let recvStart := (s.recvStart.get (p.dp, p.dc)).getD 0
  if p.seq < recvStart then .error ePacketReceived else
  if s.ackV1.has (p.dp, p.dc, p.seq) then .error eAckExists else
  match ack with
  | none => .error eInvalidAck
  | some bz =>
  if bz = "" then .error eInvalidAck else
  .ok { s with ackV1 := s.ackV1.set (p.dp, p.dc, p.seq) bz }

/-- `Keeper.AcknowledgePacket`; `ackCanon` = the JSON round-trip check on the acknowledgement bytes
    passed (only consulted after the commitment was found). -/
def acknowledgePacketV1 (s : ChainState) (env : Env) (p : PacketV1) : Except String ChainState :=
  match s.chan.get (p.sp, p.sc) with
  | none => .error eChanNotFound
  | some ch =>
  if ch.state ≠ .opened then .error eChanState else
  if p.dp ≠ ch.cpPort then .error eInvalidPacket else
  if p.dc ≠ ch.cpChan then .error eInvalidPacket else
  match getConn s ch with
  | .error e => .error e
  | .ok (_, conn) =>
  if conn.state ≠ .opened then .error eConnState else
  match s.commitV1.get (p.sp, p.sc, p.seq) with
  | none => .error eNoOp
  | some c =>
  if c ≠ p.commit then .error eInvalidPacket else
  match verify s env conn.client env.lc.v1 with
  | .error e => .error e
  | .ok _ =>
  match ch.ordering with
  | .ordered =>
    match s.nextAck.get (p.sp, p.sc) with
    | none => .error eNAckNotFound
    | some nsa =>
      if p.seq ≠ nsa then .error eOutOfOrder
      else .ok { s with nextAck := s.nextAck.set (p.sp, p.sc) (nsa + 1),
                        commitV1 := s.commitV1.del (p.sp, p.sc, p.seq) }
  | _ => .ok { s with commitV1 := s.commitV1.del (p.sp, p.sc, p.seq) }

/-! ## 04-channel/keeper/timeout.go -/

/-- `timeoutExecuted` -/
def timeoutExecuted (s : ChainState) (ch : Channel) (p : PacketV1) : ChainState :=
  let s1 := { s with commitV1 := s.commitV1.del (p.sp, p.sc, p.seq) }
  if ch.ordering = .ordered then
    { s1 with chan := s1.chan.set (p.sp, p.sc) { ch with state := .closed } }
  else s1

/-- `Keeper.TimeoutPacket` -/
def timeoutPacketV1 (s : ChainState) (env : Env) (p : PacketV1) (nsr phRev phH : Nat) : Except String ChainState :=
  match s.chan.get (p.sp, p.sc) with
  | none => .error eChanNotFound
  | some ch =>
  if p.dp ≠ ch.cpPort then .error eInvalidPacket else
  if p.dc ≠ ch.cpChan then .error eInvalidPacket else
  match getConn s ch with
  | .error e => .error e
  | .ok (_, conn) =>
  match clientTimestampAt s env conn.client with
  | .error e => .error e
  | .ok pts =>
  if !p.timeout.elapsed ⟨UInt64.ofNat phRev, UInt64.ofNat phH⟩ (UInt64.ofNat pts) then .error eTimeoutNotReached else
  match s.commitV1.get (p.sp, p.sc, p.seq) with
  | none => .error eNoOp
  | some c =>
  if c ≠ p.commit then .error eInvalidPacket else
  match ch.ordering with
  | .ordered =>
    if nsr > p.seq then .error ePacketReceived else
    match verify s env conn.client env.lc.v1 with
    | .error e => .error e
    | .ok _ => .ok (timeoutExecuted s ch p)
  | .unordered =>
    match verify s env conn.client env.lc.v1 with
    | .error e => .error e
    | .ok _ => .ok (timeoutExecuted s ch p)
  | .none => .error ePanic

/-- `Keeper.TimeoutOnClose` -/
def timeoutOnCloseV1 (s : ChainState) (env : Env) (p : PacketV1) (nsr : Nat) : Except String ChainState :=
  match s.chan.get (p.sp, p.sc) with
  | none => .error eChanNotFound
  | some ch =>
  if p.dp ≠ ch.cpPort then .error eInvalidPacket else
  if p.dc ≠ ch.cpChan then .error eInvalidPacket else
  match getConn s ch with
  | .error e => .error e
  | .ok (_, conn) =>
  match s.commitV1.get (p.sp, p.sc, p.seq) with
  | none => .error eNoOp
  | some c =>
  if c ≠ p.commit then .error eInvalidPacket else
  -- proof that the counterparty channel end is CLOSED
  match verify s env conn.client env.lc.v1 with
  | .error e => .error e
  | .ok _ =>
  match ch.ordering with
  | .ordered =>
    if nsr > p.seq then .error eInvalidPacket else
    match verify s env conn.client env.lc.v2 with
    | .error e => .error e
    | .ok _ => .ok (timeoutExecuted s ch p)
  | .unordered =>
    match verify s env conn.client env.lc.v2 with
    | .error e => .error e
    | .ok _ => .ok (timeoutExecuted s ch p)
  | .none => .error ePanic

/-! ## core msg server: packet messages (modules/core/keeper/msg_server.go) -/

def done (s0 : ChainState) : Except String ChainState → ChainState × Out
  | .ok s' => (s', .ok "")
  | .error e => if e = ePanic then (s0, .panic) else (s0, .err e)

/-- `Keeper.RecvPacket` (msg server) -/
def msgRecvPacket (s : ChainState) (env : Env) (p : PacketV1) (app : AppV1) : ChainState × Out :=
  if !routeV1 p.dp then (s, .err ePortRoute) else
  -- cacheCtx, writeFn := ctx.CacheContext(); TAO verification runs on the child
  match recvPacketV1 s env p with
  | .error e => if e = eNoOp then (s, .noop) else if e = ePanic then (s, .panic) else (s, .err e)
  | .ok child =>
  let ctx := child                                        -- writeFn()
  -- second cache context for the application callback; the callback itself ran (log)
  let ctx := ctx.logAdd (.recv1 p.dp p.dc p.seq)
  let appChild := ctx.appWrite "" env.tag app.w
  match app.res with
  | .ok =>
    let ctx := appChild                                   -- writeFn(): ack.Success()
    done s (writeAckV1 ctx p (some app.ack))
  | .err =>
    -- unsuccessful acknowledgement: the child is dropped, the ack is written on ctx
    done s (writeAckV1 ctx p (some app.ack))
  | .async =>
    (appChild, .ok "")                                    -- writeFn(): ack == nil, nothing written
  | .selfack =>
    -- the application called WriteAcknowledgement itself inside the callback (on the child) …
    -- … and returned a successful acknowledgement as well (writeFn(), second write on ctx)
    match writeAckV1 appChild p (some app.ack) with
    | .ok c => done s (writeAckV1 c p (some app.ack))
    | .error _ => done s (writeAckV1 appChild p (some app.ack))

/-- common tail of Acknowledgement / Timeout / TimeoutOnClose: callback AFTER writeFn(), on ctx;
    a callback error fails the tx (state reverted by the SDK). -/
def afterTao (s : ChainState) (env : Env) (r : Except String ChainState) (ev : Event) (app : AppV1) : ChainState × Out :=
  match r with
  | .error e => if e = eNoOp then (s, .noop) else if e = ePanic then (s, .panic) else (s, .err e)
  | .ok child =>
    let ctx := child                                      -- writeFn()
    if app.cbErr then (s, .err eApp) else
    (((ctx.logAdd ev).appWrite "" env.tag app.w), .ok "")

def msgAcknowledgement (s : ChainState) (env : Env) (p : PacketV1) (ack : Hex) (app : AppV1) : ChainState × Out :=
  if !routeV1 p.sp then (s, .err ePortRoute) else
  afterTao s env (acknowledgePacketV1 s env p) (.ack1 p.sp p.sc p.seq ack) app

def msgTimeout (s : ChainState) (env : Env) (p : PacketV1) (nsr phRev phH : Nat) (app : AppV1) : ChainState × Out :=
  if !routeV1 p.sp then (s, .err ePortRoute) else
  afterTao s env (timeoutPacketV1 s env p nsr phRev phH) (.timeout1 p.sp p.sc p.seq) app

def msgTimeoutOnClose (s : ChainState) (env : Env) (p : PacketV1) (nsr : Nat) (app : AppV1) : ChainState × Out :=
  if !routeV1 p.sp then (s, .err ePortRoute) else
  afterTao s env (timeoutOnCloseV1 s env p nsr) (.timeout1 p.sp p.sc p.seq) app

/-! ## channel handshake (04-channel/keeper/handshake.go + msg server) -/

def connSupportsOrder (conn : ConnEnd) (o : Order) : Except String Unit :=
  match conn.versions with
  | [v] => if v.features.contains o.str then .ok () else .error eConnVersion
  | _ => .error eConnVersion

def initSequences (s : ChainState) (port chan : Id) : ChainState :=
  { s with nextSend := s.nextSend.set chan 1,
           nextRecv := s.nextRecv.set (port, chan) 1,
           nextAck := s.nextAck.set (port, chan) 1 }

def msgChanOpenInit (s : ChainState) (env : Env) (port : Id) (o : Order) (hops : List Id) (cpPort : Id)
    (version : String) (app : AppV1) : ChainState × Out :=
  if !routeV1 port then (s, .err ePortRoute) else
  match hops with
  | [] => (s, .panic)
  | h :: _ =>
  match s.conn.get h with
  | none => (s, .err eConnNotFound)
  | some conn =>
  match connSupportsOrder conn o with
  | .error e => (s, .err e)
  | .ok _ =>
  if clientStatus s env conn.client ≠ .active then (s, .err eClientNotActive) else
  let chanId := fmtChan s.nextChanSeq
  let ctx := { s with nextChanSeq := s.nextChanSeq + 1 }
  -- application callback, then the write
  if app.cbErr then (s, .err eApp) else
  let ver := app.ver.getD version
  let ctx := (ctx.logAdd (.hs "init" port chanId)).appWrite "" env.tag app.w
  let ctx := { ctx with chan := ctx.chan.set (port, chanId) ⟨.init, o, cpPort, "", hops, ver⟩ }
  (initSequences ctx port chanId, .ok (chanId ++ "|" ++ ver))

def msgChanOpenTry (s : ChainState) (env : Env) (port : Id) (o : Order) (hops : List Id) (cpPort cpChan : Id)
    (cpVersion : String) (app : AppV1) : ChainState × Out :=
  if !routeV1 port then (s, .err ePortRoute) else
  match hops with
  | [h] =>
    let chanId := fmtChan s.nextChanSeq
    let ctx := { s with nextChanSeq := s.nextChanSeq + 1 }
    match s.conn.get h with
    | none => (s, .err eConnNotFound)
    | some conn =>
    if conn.state ≠ .opened then (s, .err eConnState) else
    match connSupportsOrder conn o with
    | .error e => (s, .err e)
    | .ok _ =>
    match verify s env conn.client env.lc.v1 with
    | .error e => (s, .err e)
    | .ok _ =>
    if app.cbErr then (s, .err eApp) else
    let ver := app.ver.getD cpVersion
    let ctx := (ctx.logAdd (.hs "try" port chanId)).appWrite "" env.tag app.w
    let ctx := initSequences ctx port chanId
    ({ ctx with chan := ctx.chan.set (port, chanId) ⟨.tryopen, o, cpPort, cpChan, hops, ver⟩ }, .ok (chanId ++ "|" ++ ver))
  | _ => (s, .err eHops)

/-- alias registration side effect of WriteOpenAckChannel / WriteOpenConfirmChannel for UNORDERED channels -/
def registerAlias (s : ChainState) (chanId : Id) (ch : Channel) : Except String ChainState :=
  if ch.ordering = .unordered then
    match getConn s ch with
    | .error _ => .error ePanic
    | .ok (_, conn) =>
      .ok { s with cpV2 := s.cpV2.set chanId (ch.cpChan, [conn.cpPrefix, ""]),
                   alias := s.alias.set chanId conn.client }
  else .ok s

def msgChanOpenAck (s : ChainState) (env : Env) (port chan cpChan : Id) (cpVersion : String) (app : AppV1) : ChainState × Out :=
  if !routeV1 port then (s, .err ePortRoute) else
  match s.chan.get (port, chan) with
  | none => (s, .err eChanNotFound)
  | some ch =>
  if ch.state ≠ .init then (s, .err eChanState) else
  match getConn s ch with
  | .error e => if e = ePanic then (s, .panic) else (s, .err e)
  | .ok (_, conn) =>
  if conn.state ≠ .opened then (s, .err eConnState) else
  match verify s env conn.client env.lc.v1 with
  | .error e => (s, .err e)
  | .ok _ =>
  -- WriteOpenAckChannel, then the callback
  let ch' := { ch with state := .opened, version := cpVersion, cpChan := cpChan }
  let ctx := { s with chan := s.chan.set (port, chan) ch' }
  match registerAlias ctx chan ch' with
  | .error _ => (s, .panic)
  | .ok ctx =>
  if app.cbErr then (s, .err eApp) else
  (((ctx.logAdd (.hs "ack" port chan)).appWrite "" env.tag app.w), .ok "")

def msgChanOpenConfirm (s : ChainState) (env : Env) (port chan : Id) (app : AppV1) : ChainState × Out :=
  if !routeV1 port then (s, .err ePortRoute) else
  match s.chan.get (port, chan) with
  | none => (s, .err eChanNotFound)
  | some ch =>
  if ch.state ≠ .tryopen then (s, .err eChanState) else
  match getConn s ch with
  | .error e => if e = ePanic then (s, .panic) else (s, .err e)
  | .ok (_, conn) =>
  if conn.state ≠ .opened then (s, .err eConnState) else
  match verify s env conn.client env.lc.v1 with
  | .error e => (s, .err e)
  | .ok _ =>
  let ch' := { ch with state := .opened }
  let ctx := { s with chan := s.chan.set (port, chan) ch' }
  match registerAlias ctx chan ch' with
  | .error _ => (s, .panic)
  | .ok ctx =>
  if app.cbErr then (s, .err eApp) else
  (((ctx.logAdd (.hs "confirm" port chan)).appWrite "" env.tag app.w), .ok "")

def msgChanCloseInit (s : ChainState) (env : Env) (port chan : Id) (app : AppV1) : ChainState × Out :=
  if !routeV1 port then (s, .err ePortRoute) else
  -- callback first
  if app.cbErr then (s, .err eApp) else
  let ctx := (s.logAdd (.hs "closeInit" port chan)).appWrite "" env.tag app.w
  match ctx.chan.get (port, chan) with
  | none => (s, .err eChanNotFound)
  | some ch =>
  if ch.state = .closed then (s, .err eChanState) else
  match getConn ctx ch with
  | .error e => if e = ePanic then (s, .panic) else (s, .err e)
  | .ok (_, conn) =>
  if clientStatus ctx env conn.client ≠ .active then (s, .err eClientNotActive) else
  if conn.state ≠ .opened then (s, .err eConnState) else
  ({ ctx with chan := ctx.chan.set (port, chan) { ch with state := .closed } }, .ok "")

def msgChanCloseConfirm (s : ChainState) (env : Env) (port chan : Id) (app : AppV1) : ChainState × Out :=
  if !routeV1 port then (s, .err ePortRoute) else
  if app.cbErr then (s, .err eApp) else
  let ctx := (s.logAdd (.hs "closeConfirm" port chan)).appWrite "" env.tag app.w
  match ctx.chan.get (port, chan) with
  | none => (s, .err eChanNotFound)
  | some ch =>
  if ch.state = .closed then (s, .err eChanState) else
  match getConn ctx ch with
  | .error e => if e = ePanic then (s, .panic) else (s, .err e)
  | .ok (_, conn) =>
  if conn.state ≠ .opened then (s, .err eConnState) else
  match verify ctx env conn.client env.lc.v1 with
  | .error e => (s, .err e)
  | .ok _ =>
  ({ ctx with chan := ctx.chan.set (port, chan) { ch with state := .closed } }, .ok "")

/-! ## connection handshake (03-connection/keeper/handshake.go) -/

def addConnectionToClient (s : ChainState) (client connId : Id) : Except String ChainState :=
  match s.clientState.get client with
  | none => .error eClientNotFound
  | some _ =>
    let conns := (s.clientConns.get client).getD []
    .ok { s with clientConns := s.clientConns.set client (conns ++ [connId]) }

def msgConnOpenInit (s : ChainState) (env : Env) (client cpClient : Id) (cpPrefix : Hex) (version : Option Version)
    (delay : Nat) : ChainState × Out :=
  -- MsgConnectionOpenInit.ValidateBasic: localhost handshakes are disallowed
  if client = localhostClient then (s, .err eVB) else
  let versions? : Except String (List Version) := match version with
    | none => .ok compatibleVersions
    | some v => if isSupportedVersion compatibleVersions v then .ok [v] else .error eConnVersion
  match versions? with
  | .error e => (s, .err e)
  | .ok versions =>
  if clientStatus s env client ≠ .active then (s, .err eClientNotActive) else
  let connId := fmtConn s.nextConnSeq
  let ctx := { s with nextConnSeq := s.nextConnSeq + 1 }
  match addConnectionToClient ctx client connId with
  | .error e => (s, .err e)
  | .ok ctx =>
  (({ ctx with conn := ctx.conn.set connId ⟨.init, client, cpClient, "", cpPrefix, versions, delay⟩ }).logAdd (.genConn connId), .ok "")

def msgConnOpenTry (s : ChainState) (env : Env) (client cpClient cpConn : Id) (cpPrefix : Hex) (versions : List Version)
    (delay : Nat) : ChainState × Out :=
  if client = localhostClient then (s, .err eVB) else
  let connId := fmtConn s.nextConnSeq
  let ctx := { s with nextConnSeq := s.nextConnSeq + 1 }
  match pickVersion compatibleVersions versions with
  | none => (s, .err eVersionNegotiation)
  | some v =>
  match verify ctx env client env.lc.v1 with
  | .error e => (s, .err e)
  | .ok _ =>
  match addConnectionToClient ctx client connId with
  | .error e => (s, .err e)
  | .ok ctx =>
  (({ ctx with conn := ctx.conn.set connId ⟨.tryopen, client, cpClient, cpConn, cpPrefix, [v], delay⟩ }).logAdd (.genConn connId), .ok "")

def msgConnOpenAck (s : ChainState) (env : Env) (connId cpConn : Id) (version : Version) : ChainState × Out :=
  match s.conn.get connId with
  | none => (s, .err eConnNotFound)
  | some conn =>
  if conn.state ≠ .init then (s, .err eConnState) else
  if !isSupportedVersion conn.versions version then (s, .err eConnState) else
  match verify s env conn.client env.lc.v1 with
  | .error e => (s, .err e)
  | .ok _ =>
  ({ s with conn := s.conn.set connId { conn with state := .opened, versions := [version], cpConn := cpConn } }, .ok "")

def msgConnOpenConfirm (s : ChainState) (env : Env) (connId : Id) : ChainState × Out :=
  match s.conn.get connId with
  | none => (s, .err eConnNotFound)
  | some conn =>
  if conn.state ≠ .tryopen then (s, .err eConnState) else
  match verify s env conn.client env.lc.v1 with
  | .error e => (s, .err e)
  | .ok _ =>
  ({ s with conn := s.conn.set connId { conn with state := .opened } }, .ok "")

/-! ## IBC v2 (04-channel/v2/keeper/packet.go, msg_server.go) -/

def baseClient (s : ChainState) (id : Id) : Id := (s.alias.get id).getD id

def isAllowedRelayer (s : ChainState) (id : Id) (signer : String) : Bool :=
  match s.cfgV2.get id with
  | none => true
  | some [] => true
  | some l => l.contains signer

/-- `Packet.ValidateBasic` (v2) restricted to what the generator varies; identifier syntax is
    part of the trusted base -/
def payloadValid (p : Payload) : Bool :=
  p.ver.trimAscii.toString ≠ "" && p.enc.trimAscii.toString ≠ "" && p.val ≠ ""

/-- `packet.ValidateBasic()` of the packet constructed by `sendPacket` -/
def packetValidV2 (payloads : List Payload) (seq tt : Nat) : Bool :=
  !(payloads.isEmpty || !payloads.all payloadValid || seq == 0 || tt == 0)

/-- the two block-time guards of `sendPacket`: `timeout.After(blockTime)` and
    `!timeout.After(blockTime + MaxTimeoutDelta)` on Go's `time.Unix(int64(T), 0)` -/
def v2TimeoutWindow (env : Env) (tt : Nat) : Except String Unit :=
  let tsec := timeoutInternalSec tt
  let bsec := blockInternalSec env
  if tsec ≤ bsec then .error e2TimeoutElapsed else
  if tsec > bsec + maxTimeoutDelta then .error e2InvalidTimeout else .ok ()

/-- the light-client guards of `sendPacket` (on the alias-resolved client): Active, non-zero latest
    height, and the timeout (seconds) strictly after the latest consensus timestamp (in seconds) -/
def sendV2ClientGuards (s : ChainState) (env : Env) (src : Id) (tt : Nat) : Except String Unit :=
  let clientId := baseClient s src
  if clientStatus s env clientId ≠ .active then .error eClientNotActive else
  let lh := clientLatestHeight s env clientId
  if lh.isZero then .error eInvalidHeight else
  match clientTimestampAt s env clientId with
  | .error e => .error e
  | .ok ltsNano =>
  if nanosToSecsU64 ltsNano ≥ tt then .error e2TimeoutElapsed else .ok ()

/-- the two writes of a successful v2 send -/
def commitSendV2 (s : ChainState) (src : Id) (seq : Nat) (c : CommitV2) : ChainState :=
  { s with nextSend := s.nextSend.set src (seq + 1), commitV2 := s.commitV2.set (src, seq) c }

def optGet {α : Type} (o : Option α) (e : String) : Except String α :=
  match o with
  | some a => .ok a
  | none => .error e

def guardB (b : Bool) (e : String) : Except String Unit := if b then .ok () else .error e

/-- the checks of `sendPacket`, in the order of the Go code; returns the counterparty id and the
    allocated sequence -/
def sendChecksV2 (s : ChainState) (env : Env) (src : Id) (tt : Nat) (payloads : List Payload) :
    Except String (Id × Nat) :=
  (optGet (s.cpV2.get src) eCpNotFound).bind fun cp =>
  (v2TimeoutWindow env tt).bind fun _ =>
  (optGet (s.nextSend.get src) e2NSendNotFound).bind fun seq =>
  (guardB (packetValidV2 payloads seq tt) e2InvalidPacket).bind fun _ =>
  (sendV2ClientGuards s env src tt).bind fun _ =>
  .ok (cp.1, seq)

/-- `sendPacket` -/
def sendPacketV2 (s : ChainState) (env : Env) (src : Id) (tt : Nat) (payloads : List Payload) :
    Except String (ChainState × Nat) :=
  match sendChecksV2 s env src tt payloads with
  | .error e => .error e
  | .ok (cpId, seq) => .ok (commitSendV2 s src seq ⟨cpId, tt, payloads⟩, seq)

/-- callbacks of the sending / acknowledging / timing-out side: one per payload, in order, on ctx
    (they only touch the application store); the first error fails the tx; an unknown port makes
    `Router.Route` panic; `acks[i]` with `i ≥ limit` panics (acknowledgement callbacks only) -/
def runCallbacks (tag : String) (port : Payload → Id) (limit : Nat) :
    FMap String String → Nat → List Payload → List AppV2 → Except String (FMap String String)
  | app, _, [], _ => .ok app
  | app, i, pd :: pds, apps =>
    if !routeV2 (port pd) then .error ePanic else
    if i ≥ limit then .error ePanic else
    let a := apps.headD ⟨0, false, .ok, ""⟩
    let app1 := appWrites app ("p" ++ toString i) tag a.w
    if a.cbErr then .error eApp else
    runCallbacks tag port limit app1 (i + 1) pds apps.tail

def msgSendPacketV2 (s : ChainState) (env : Env) (src : Id) (tt : Nat) (payloads : List Payload) (apps : List AppV2) : ChainState × Out :=
  match sendPacketV2 s env src tt payloads with
  | .error e => (s, .err e)
  | .ok (ctx, seq) =>
    match runCallbacks env.tag (·.sp) payloads.length ctx.app 0 payloads apps with
    | .error e => if e = ePanic then (s, .panic) else (s, .err e)
    | .ok app => (({ ctx with app := app }).logAdd (.send2 src seq payloads.length), .ok (toString seq))

/-- `recvPacket` -/
def recvPacketV2 (s : ChainState) (env : Env) (p : PacketV2) : Except String ChainState :=
  match s.cpV2.get p.dst with
  | none => .error eCpNotFound
  | some (cpId, _) =>
  if cpId ≠ p.src then .error eCpInvalid else
  if env.nowT / 1000000000 ≥ p.tt then .error e2TimeoutElapsed else
  if s.receiptV2.has (p.dst, p.seq) then .error e2NoOp else
  match verify s env (baseClient s p.dst) env.lc.v1 with
  | .error e => .error e
  | .ok _ => .ok { s with receiptV2 := s.receiptV2.set (p.dst, p.seq) () }

/-- `Acknowledgement.Validate` (v2) -/
def ackValidV2 (acks : List Hex) : Bool :=
  !acks.isEmpty && acks.all (fun a => a ≠ "") && (acks.length ≤ 1 || acks.all (fun a => a ≠ sentinelAck))

def ackSuccessV2 (acks : List Hex) : Bool := acks.head? ≠ some sentinelAck

/-- `writeAcknowledgement` (v2) -/
def writeAckV2 (s : ChainState) (p : PacketV2) (acks : List Hex) : Except String ChainState :=
  if !ackValidV2 acks then .error e2InvalidAck else
  if ackSuccessV2 acks && acks.length ≠ p.payloads.length then .error e2InvalidAck else
  match s.cpV2.get p.dst with
  | none => .error eCpNotFound
  | some (cpId, _) =>
  if cpId ≠ p.src then .error eCpInvalid else
  if s.ackV2.has (p.dst, p.seq) then .error e2AckExists else
  if !s.receiptV2.has (p.dst, p.seq) then .error e2InvalidPacket else
  .ok { s with ackV2 := s.ackV2.set (p.dst, p.seq) acks }

/-- result of the per-payload receive callbacks (the `for` loop of `RecvPacket`): the callbacks run
    on the (re-used) cache context and only touch the application store; `ran` = number of
    callbacks executed -/
structure RecvLoop where
  app : FMap String String
  acks : List Hex
  isAsync : Bool
  isSuccess : Bool
  ran : Nat

def recvLoop (tag : String) (npayloads : Nat) :
    Nat → List Payload → List AppV2 → RecvLoop → Except String RecvLoop
  | _, [], _, st => .ok st
  | i, pd :: pds, apps, st =>
    if !routeV2 pd.dp then .error ePanic else
    let a := apps.headD ⟨0, false, .ok, ""⟩
    let app1 := appWrites st.app ("p" ++ toString i) tag a.w
    match a.res with
    | .fail =>
      -- break: later payloads are not executed
      .ok { app := app1, acks := [sentinelAck], isAsync := st.isAsync, isSuccess := false, ran := i + 1 }
    | r =>
      if a.ack = sentinelAck then .error e2InvalidAck else
      let st' : RecvLoop := { app := app1, acks := st.acks ++ [a.ack], isAsync := st.isAsync, isSuccess := st.isSuccess, ran := i + 1 }
      if r = .async then
        if npayloads > 1 then .error e2InvalidPacket
        else recvLoop tag npayloads (i + 1) pds apps.tail { st' with isAsync := true }
      else recvLoop tag npayloads (i + 1) pds apps.tail st'

/-- `Keeper.RecvPacket` (v2 msg server) -/
def msgRecvPacketV2 (s : ChainState) (env : Env) (p : PacketV2) (apps : List AppV2) : ChainState × Out :=
  if !isAllowedRelayer s p.dst env.signer then (s, .err eUnauthorized) else
  match recvPacketV2 s env p with
  | .error e => if e = e2NoOp then (s, .noop) else (s, .err e)
  | .ok child =>
  let ctx := child                                         -- writeFn()
  -- the callbacks run on the same cache context, which is now an empty layer above ctx
  match recvLoop env.tag p.payloads.length 0 p.payloads apps ⟨ctx.app, [], false, true, 0⟩ with
  | .error e => if e = ePanic then (s, .panic) else (s, .err e)
  | .ok r =>
  -- the callbacks did run in this (committed) tx; their writes persist only if all succeeded
  let ctx := ({ ctx with app := if r.isSuccess then r.app else ctx.app }).logAdd (.recv2 p.dst p.seq r.ran)
  if !r.isAsync then
    if ackSuccessV2 r.acks ≠ r.isSuccess then (s, .panic) else
    done s (writeAckV2 ctx p r.acks)
  else
    ({ ctx with asyncV2 := ctx.asyncV2.set (p.dst, p.seq) p }, .ok "")

/-- `Keeper.WriteAcknowledgement` (v2, asynchronous path) -/
def asyncWriteAckV2 (s : ChainState) (dst : Id) (seq : Nat) (acks : List Hex) : Except String ChainState :=
  match s.asyncV2.get (dst, seq) with
  | none => .error e2InvalidAck
  | some p =>
    match writeAckV2 s p acks with
    | .error e => .error e
    | .ok s' => .ok { s' with asyncV2 := s'.asyncV2.del (dst, seq) }

/-- `acknowledgePacket` -/
def acknowledgePacketV2 (s : ChainState) (env : Env) (p : PacketV2) : Except String ChainState :=
  match s.cpV2.get p.src with
  | none => .error eCpNotFound
  | some (cpId, _) =>
  if cpId ≠ p.dst then .error eCpInvalid else
  match s.commitV2.get (p.src, p.seq) with
  | none => .error e2NoOp
  | some c =>
  if c ≠ p.commit then .error e2InvalidPacket else
  match verify s env (baseClient s p.src) env.lc.v1 with
  | .error e => .error e
  | .ok _ => .ok { s with commitV2 := s.commitV2.del (p.src, p.seq) }

def msgAcknowledgementV2 (s : ChainState) (env : Env) (p : PacketV2) (acks : List Hex) (apps : List AppV2) : ChainState × Out :=
  if !isAllowedRelayer s p.src env.signer then (s, .err eUnauthorized) else
  match acknowledgePacketV2 s env p with
  | .error e => if e = e2NoOp then (s, .noop) else (s, .err e)
  | .ok ctx =>
  match acks with
  | [] => (s, .panic)
  | a0 :: _ =>
  let recvSuccess := a0 ≠ sentinelAck
  -- with recvSuccess the i-th payload gets acks[i] (index out of range panics)
  let limit := if recvSuccess then acks.length else p.payloads.length
  match runCallbacks env.tag (·.sp) limit ctx.app 0 p.payloads apps with
  | .error e => if e = ePanic then (s, .panic) else (s, .err e)
  | .ok app =>
    let delivered := if recvSuccess then acks.take p.payloads.length else p.payloads.map (fun _ => sentinelAck)
    (({ ctx with app := app }).logAdd (.ack2 p.src p.seq delivered), .ok "")

/-- `timeoutPacket` -/
def timeoutPacketV2 (s : ChainState) (env : Env) (p : PacketV2) : Except String ChainState :=
  match s.cpV2.get p.src with
  | none => .error eCpNotFound
  | some (cpId, _) =>
  if cpId ≠ p.dst then .error eCpInvalid else
  let clientId := baseClient s p.src
  match clientTimestampAt s env clientId with
  | .error e => .error e
  | .ok ptsNano =>
  if nanosToSecsU64 ptsNano < p.tt then .error e2TimeoutNotReached else
  match s.commitV2.get (p.src, p.seq) with
  | none => .error e2NoOp
  | some c =>
  if c ≠ p.commit then .error e2InvalidPacket else
  match verify s env clientId env.lc.v1 with
  | .error e => .error e
  | .ok _ => .ok { s with commitV2 := s.commitV2.del (p.src, p.seq) }

def msgTimeoutV2 (s : ChainState) (env : Env) (p : PacketV2) (apps : List AppV2) : ChainState × Out :=
  if !isAllowedRelayer s p.src env.signer then (s, .err eUnauthorized) else
  match timeoutPacketV2 s env p with
  | .error e => if e = e2NoOp then (s, .noop) else (s, .err e)
  | .ok ctx =>
  match runCallbacks env.tag (·.sp) p.payloads.length ctx.app 0 p.payloads apps with
  | .error e => if e = ePanic then (s, .panic) else (s, .err e)
  | .ok app => (({ ctx with app := app }).logAdd (.timeout2 p.src p.seq p.payloads.length), .ok "")

/-! ## clients and authorisation (msg_server.go) -/

def msgCreateClient (s : ChainState) (env : Env) (ctype : String) : ChainState × Out :=
  if ctype = localhostClient then (s, .err eClientType) else
  let cid := fmtClient ctype s.nextClientSeq
  let ctx := { s with nextClientSeq := s.nextClientSeq + 1 }
  match route ctx cid with
  | .error e => (s, .err e)
  | .ok _ =>
  if !env.lc.initOK then (s, .err eLcInit) else
  let ctx := { ctx with clientState := ctx.clientState.set cid () }
  if env.lc.statusOf cid ≠ .active then (s, .err eClientNotActive) else
  (({ ctx with creator := ctx.creator.set cid env.signer }).logAdd (.genClient cid), .ok cid)

def msgUpdateClient (s : ChainState) (env : Env) (cid : Id) : ChainState × Out :=
  if !isAllowedRelayer s cid env.signer then (s, .err eUnauthorized) else
  match route s cid with
  | .error e => (s, .err e)
  | .ok _ =>
  if env.lc.statusOf cid ≠ .active then (s, .err eClientNotActive) else
  if !env.lc.msgOK then (s, .err eLcMsg) else
  (s, .ok "")

def msgRegisterCounterparty (s : ChainState) (env : Env) (cid cpClient : Id) (pfx : List Hex) : ChainState × Out :=
  if s.creator.get cid ≠ some env.signer then (s, .err eUnauthorized) else
  if s.cpV2.has cid then (s, .err eInvalidRequest) else
  ({ s with cpV2 := s.cpV2.set cid (cpClient, pfx), nextSend := s.nextSend.set cid 1 }, .ok "")

def msgUpdateClientConfig (s : ChainState) (env : Env) (cid : Id) (relayers : List String) : ChainState × Out :=
  if env.signer ≠ authority ∧ s.creator.get cid ≠ some env.signer then (s, .err eUnauthorized) else
  ({ s with cfgV2 := s.cfgV2.set cid relayers }, .ok "")

def msgDeleteClientCreator (s : ChainState) (env : Env) (cid : Id) : ChainState × Out :=
  match s.creator.get cid with
  | none => (s, .err eNotFound)
  | some c =>
  if env.signer ≠ authority ∧ c ≠ env.signer then (s, .err eUnauthorized) else
  ({ s with creator := s.creator.del cid }, .ok "")

def msgRecoverClient (s : ChainState) (env : Env) (subject substitute : Id) : ChainState × Out :=
  if env.signer ≠ authority then (s, .err eAuthority) else
  match route s subject with
  | .error _ => (s, .err eRouteNotFound)
  | .ok _ =>
  if env.lc.statusOf subject = .active then (s, .err eRecovery) else
  if env.lc.statusOf substitute ≠ .active then (s, .err eClientNotActive) else
  if (env.lc.latestOf subject).gte (env.lc.latestOf substitute) then (s, .err eInvalidHeight) else
  if !env.lc.recovOK then (s, .err eLcRecov) else
  (s, .ok "")

def msgUpdateClientParams (s : ChainState) (env : Env) (allowed : List String) : ChainState × Out :=
  if env.signer ≠ authority then (s, .err eAuthority) else
  ({ s with allowedClients := allowed }, .ok "")

def msgUpdateConnParams (s : ChainState) (env : Env) (maxTime : Nat) : ChainState × Out :=
  if env.signer ≠ authority then (s, .err eAuthority) else
  ({ s with maxExpectedTimePerBlock := maxTime }, .ok "")

def msgIBCSoftwareUpgrade (s : ChainState) (env : Env) (upgradeOK : Bool) : ChainState × Out :=
  if env.signer ≠ authority then (s, .err eAuthority) else
  if !upgradeOK then (s, .err eUndefined) else
  (s, .ok "")

/-! ## step -/

/-- ops that are `sdk.Msg`s go through `ValidateBasic` first (decided by the real code, carried in
    `env.vb`); `sendV1` / `writeAckV1` / `writeAckV2` are keeper calls made by applications -/
def Body.isMsg : Body → Bool
  | .sendV1 .. => false
  | .writeAckV1 .. => false
  | .writeAckV2 .. => false
  | _ => true

def step (s : ChainState) (op : Op) : ChainState × Out :=
  let env := op.env
  if op.body.isMsg && !env.vb then (s, .err eVB) else
  match op.body with
  | .connOpenInit client cpClient cpPrefix version delay => msgConnOpenInit s env client cpClient cpPrefix version delay
  | .connOpenTry client cpClient cpConn cpPrefix versions delay => msgConnOpenTry s env client cpClient cpConn cpPrefix versions delay
  | .connOpenAck conn cpConn version => msgConnOpenAck s env conn cpConn version
  | .connOpenConfirm conn => msgConnOpenConfirm s env conn
  | .chanOpenInit port o hops cpPort version app => msgChanOpenInit s env port o hops cpPort version app
  | .chanOpenTry port o hops cpPort cpChan cpVersion app => msgChanOpenTry s env port o hops cpPort cpChan cpVersion app
  | .chanOpenAck port chan cpChan cpVersion app => msgChanOpenAck s env port chan cpChan cpVersion app
  | .chanOpenConfirm port chan app => msgChanOpenConfirm s env port chan app
  | .chanCloseInit port chan app => msgChanCloseInit s env port chan app
  | .chanCloseConfirm port chan app => msgChanCloseConfirm s env port chan app
  | .sendV1 port chan thRev thH tt data =>
    match sendPacketV1 s env port chan thRev thH tt data with
    | .error e => if e = ePanic then (s, .panic) else (s, .err e)
    | .ok (s', seq) => (s'.logAdd (.send1 port chan seq), .ok (toString seq))
  | .recvV1 pkt app => msgRecvPacket s env pkt app
  | .ackV1 pkt ack app => msgAcknowledgement s env pkt ack app
  | .timeoutV1 pkt nsr phRev phH app => msgTimeout s env pkt nsr phRev phH app
  | .timeoutOnCloseV1 pkt nsr app => msgTimeoutOnClose s env pkt nsr app
  | .writeAckV1 pkt wack => done s (writeAckV1 s pkt (wack.map (·.2)))
  | .sendV2 src tt payloads apps => msgSendPacketV2 s env src tt payloads apps
  | .recvV2 pkt apps => msgRecvPacketV2 s env pkt apps
  | .ackV2 pkt acks apps => msgAcknowledgementV2 s env pkt acks apps
  | .timeoutV2 pkt apps => msgTimeoutV2 s env pkt apps
  | .writeAckV2 dst seq acks => done s (asyncWriteAckV2 s dst seq acks)
  | .createClient ctype => msgCreateClient s env ctype
  | .updateClient client => msgUpdateClient s env client
  | .registerCounterparty client cpClient pfx => msgRegisterCounterparty s env client cpClient pfx
  | .updateClientConfig client relayers => msgUpdateClientConfig s env client relayers
  | .deleteClientCreator client => msgDeleteClientCreator s env client
  | .recoverClient subject substitute => msgRecoverClient s env subject substitute
  | .updateClientParams allowed => msgUpdateClientParams s env allowed
  | .updateConnParams maxTime => msgUpdateConnParams s env maxTime
  | .ibcSoftwareUpgrade upgradeOK => msgIBCSoftwareUpgrade s env upgradeOK

/-- run a whole history -/
def run (s : ChainState) : List Op → ChainState
  | [] => s
  | op :: ops => run (step s op).1 ops

/-- genesis state of the chain under test: the localhost connection exists and is OPEN -/
def init : ChainState where
  chan := .empty
  conn := FMap.empty.set "connection-localhost"
    ⟨.opened, localhostClient, localhostClient, "connection-localhost", "696263", compatibleVersions, 0⟩
  nextChanSeq := 0
  nextConnSeq := 0
  nextClientSeq := 0
  nextSend := .empty
  nextRecv := .empty
  nextAck := .empty
  recvStart := .empty
  commitV1 := .empty
  receiptV1 := .empty
  ackV1 := .empty
  commitV2 := .empty
  receiptV2 := .empty
  ackV2 := .empty
  asyncV2 := .empty
  cpV2 := .empty
  alias := .empty
  cfgV2 := .empty
  creator := .empty
  clientState := .empty
  clientConns := .empty
  allowedClients := ["*"]
  maxExpectedTimePerBlock := 30000000000
  app := .empty
  log := []

end IbcVerif.Chain
