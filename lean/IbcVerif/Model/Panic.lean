/-
  Go results with panics made explicit.

  `G α` is the outcome of a Go function call: a value, a returned `error` (carrying a stable
  error class), or a run-time panic.  The panicking primitives of Go that the modelled code uses
  are functions into `G`:
    `G.index  l i`        l[i]            panics unless i < len(l)
    `G.slice  l lo hi`    l[lo:hi]        panics unless lo ≤ hi ≤ len(l)
    `G.sliceFrom l lo`    l[lo:]          panics unless lo ≤ len(l)
    `G.sliceTo l hi`      l[:hi]          panics unless hi ≤ len(l)
  (For byte slices Go checks `hi ≤ cap(l)`; the model checks the stronger `hi ≤ len(l)`, so a
  model that never panics implies the Go code never panics on the same path.)
  Theorems of the form `f x ≠ .panic _` (see `G.NoPanic`) then say that every index/slice
  expression on the path is guarded.
-/
namespace IbcVerif

inductive G (α : Type) where
  | ok (a : α)
  | err (e : String)
  | panic (m : String)
deriving Repr, DecidableEq

namespace G

@[inline] def bind {α β : Type} (x : G α) (f : α → G β) : G β :=
  match x with
  | .ok a => f a
  | .err e => .err e
  | .panic m => .panic m

instance : Monad G where
  pure := .ok
  bind := G.bind

@[simp] theorem pure_eq {α : Type} (a : α) : (pure a : G α) = .ok a := rfl
@[simp] theorem bind_ok {α β : Type} (a : α) (f : α → G β) : (G.ok a >>= f) = f a := rfl
@[simp] theorem bind_err {α β : Type} (e : String) (f : α → G β) : (G.err e >>= f) = .err e := rfl
@[simp] theorem bind_panic {α β : Type} (m : String) (f : α → G β) : (G.panic m >>= f) = .panic m := rfl

/-- the call does not panic -/
def NoPanic {α : Type} (x : G α) : Prop := ∀ m, x ≠ .panic m

def isPanic {α : Type} : G α → Bool
  | .panic _ => true
  | _ => false

def isOk {α : Type} : G α → Bool
  | .ok _ => true
  | _ => false

theorem noPanic_iff {α : Type} (x : G α) : NoPanic x ↔ x.isPanic = false := by
  cases x <;> simp [NoPanic, isPanic]

theorem noPanic_ok {α : Type} (a : α) : NoPanic (G.ok a) := by intro m h; cases h
theorem noPanic_err {α : Type} (e : String) : NoPanic (G.err e : G α) := by intro m h; cases h

theorem noPanic_bind {α β : Type} (x : G α) (f : α → G β) (hx : NoPanic x)
    (hf : ∀ a, x = .ok a → NoPanic (f a)) : NoPanic (x >>= f) := by
  cases x with
  | ok a => exact hf a rfl
  | err e => exact noPanic_err e
  | panic m => exact absurd rfl (hx m)

/-- `l[i]` -/
def index {α : Type} (l : List α) (i : Nat) : G α :=
  match l[i]? with
  | some x => .ok x
  | none => .panic "index out of range"

/-- `l[lo:hi]` -/
def slice {α : Type} (l : List α) (lo hi : Nat) : G (List α) :=
  if lo ≤ hi ∧ hi ≤ l.length then .ok ((l.take hi).drop lo) else .panic "slice bounds out of range"

/-- `l[lo:]` -/
def sliceFrom {α : Type} (l : List α) (lo : Nat) : G (List α) :=
  if lo ≤ l.length then .ok (l.drop lo) else .panic "slice bounds out of range"

/-- `l[:hi]` -/
def sliceTo {α : Type} (l : List α) (hi : Nat) : G (List α) :=
  if hi ≤ l.length then .ok (l.take hi) else .panic "slice bounds out of range"

/-- an explicit `panic(...)` statement -/
def goPanic {α : Type} (m : String) : G α := .panic m

def toExcept {α : Type} : G α → Except String α
  | .ok a => .ok a
  | .err e => .error e
  | .panic m => .error ("panic: " ++ m)

end G
end IbcVerif
