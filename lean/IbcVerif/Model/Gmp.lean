/-
  Model of modules/apps/27-gmp: types/account.go (`BuildAddressPredictable`, `uint64LengthPrefix`),
  keeper/account.go (`getOrCreateICS27Account`), keeper/relay.go (`OnRecvPacket`, `executeTx`,
  `authenticateTx`), ibc_module.go (`OnSendPacket`).

  The hash `H` (SHA-256 in the code: `address.Module` = H(H("module") ++ name ++ 0 ++ key)) is a
  parameter of the theorems and instantiated with the executable SHA-256 of IbcVerif.Model.Sha256 in
  the driver.  Message handlers and the host application state are parameters as in the ICA model.
-/
import IbcVerif.Model.Bytes
import IbcVerif.Model.Sha256
import IbcVerif.Model.Ica
namespace IbcVerif.Gmp
open IbcVerif IbcVerif.Apps

/-- `uint64LengthPrefix`: 8-byte big-endian length, then the bytes -/
def lp (b : Bytes) : Bytes := be64 b.length ++ b

/-- the derivation key of `BuildAddressPredictable`: lp(clientID) ++ lp(sender) ++ lp(salt) -/
def accountKey (client sender salt : Bytes) : Bytes := lp client ++ lp sender ++ lp salt

def asciiBytes (s : String) : Bytes := s.toList.map (fun c => UInt8.ofNat c.toNat)

/-- the preimage hashed by `address.Module("gmp-accounts", key)`:
    H("module") ++ "gmp-accounts" ++ [0] ++ key -/
def addressPreimage (H : Bytes → Bytes) (client sender salt : Bytes) : Bytes :=
  H (asciiBytes "module") ++ (asciiBytes "gmp-accounts" ++ [0] ++ accountKey client sender salt)

/-- `BuildAddressPredictable` (the first AccountAddrLen = 32 bytes of the hash) -/
def accountAddress (H : Bytes → Bytes) (client sender salt : Bytes) : Bytes :=
  (H (addressPreimage H client sender salt)).take 32

abbrev Triple := Bytes × Bytes × Bytes

/-- the `Accounts` collection: (clientID, sender, salt) ↦ account address -/
abbrev Accounts := List (Triple × Bytes)

/-- `getOrCreateICS27Account`: the stored address if the triple is known, else the derived one (stored) -/
def getOrCreate (H : Bytes → Bytes) (acc : Accounts) (t : Triple) : Accounts × Bytes :=
  match KV.get acc t with
  | some a => (acc, a)
  | none =>
    let a := accountAddress H t.1 t.2.1 t.2.2
    (KV.set acc t a, a)

inductive ExecErr
  | emptyPayload      -- ErrInvalidPayload: empty message list
  | signerCount       -- ErrInvalidPayload: not exactly one signer
  | wrongSigner       -- ErrUnauthorized
  | validateBasic
  | invalidRoute      -- ErrInvalidMsgRoute
  | handler
deriving DecidableEq, Repr

/-- `authenticateTx`: non-empty list, every message has exactly one signer and it is the account -/
def authenticateTx {σ : Type} (account : String) (msgs : List (Ica.Msg σ)) : Option ExecErr :=
  if msgs.isEmpty then some .emptyPayload
  else
    let rec go : List (Ica.Msg σ) → Option ExecErr
      | [] => none
      | m :: t =>
        match m.signers with
        | [s] => if s != account then some .wrongSigner else go t
        | _ => some .signerCount
    go msgs

def runMsgs {σ : Type} : List (Ica.Msg σ) → σ → Except ExecErr σ
  | [], s => .ok s
  | m :: t, s =>
    if !m.vbOk then .error .validateBasic
    else if !m.routed then .error .invalidRoute
    else match m.handler s with
      | none => .error .handler
      | some s' => runMsgs t s'

/-- `executeTx` (after deserialisation): authenticate everything, then run on a cache context that is
    written only if every message succeeded -/
def executeTx {σ : Type} (account : String) (msgs : List (Ica.Msg σ)) (s : σ) : σ × Option ExecErr :=
  match authenticateTx account msgs with
  | some e => (s, some e)
  | none =>
    match runMsgs msgs s with
    | .error e => (s, some e)
    | .ok s' => (s', none)

inductive SendErr | invalidPacket | invalidData | invalidSender | unauthorized
deriving DecidableEq, Repr

/-- `IBCModule.OnSendPacket`: ports and client ids well-formed, data decodes and validates, the packet's
    sender parses and EQUALS the transaction signer -/
def onSend (portsOk clientIdsOk dataOk : Bool) (sender : Option Bytes) (signer : Bytes) : Option SendErr :=
  if !portsOk then some .invalidPacket
  else if !clientIdsOk then some .invalidPacket
  else if !dataOk then some .invalidData
  else match sender with
    | none => some .invalidSender
    | some a => if a != signer then some .unauthorized else none

end IbcVerif.Gmp
