/-
  Generic split/join on a separator element (Go `strings.Split` / `strings.Join` with a one-byte
  separator), over any element type (used for `List Char` strings and for `Bytes` keys).
-/
namespace IbcVerif

def splitOn {α : Type} [DecidableEq α] (sep : α) : List α → List (List α)
  | [] => [[]]
  | c :: cs =>
    if c = sep then [] :: splitOn sep cs
    else match splitOn sep cs with
      | [] => [[c]]           -- unreachable
      | p :: ps => (c :: p) :: ps

def joinOn {α : Type} (sep : α) : List (List α) → List α
  | [] => []
  | [p] => p
  | p :: q :: ps => p ++ sep :: joinOn sep (q :: ps)

end IbcVerif
