/-
  Model of modules/light-clients/06-solomachine (client_state.go, update.go, misbehaviour_handle.go,
  misbehaviour.go, proof.go, light_client_module.go) and of the 02-client keeper's status gate.

  Signatures are symbolic (DESIGN §3.5): `Sig.signed key bytes` is a complete, valid signature data value
  for the (single or multisig) public key `key` over exactly `bytes`; anything else is `Sig.bad`.
  The sign bytes are the protobuf encoding of `SignBytes`, modelled byte for byte (`encSignBytes`).
  Parameters (not ibc-go's): `pathDecodes` — does a byte string unmarshal as a
  `commitmenttypesv2.MerklePath` (gogoproto); the marshalled `HeaderData` of a header (`hdata`).
-/
import IbcVerif.Model.Proto
namespace IbcVerif.Solo
open IbcVerif.Proto (encVarint encField)

abbrev Bytes := List UInt8
/-- a (single or multisig) public key, named by the harness -/
abbrev KeyId := Nat

/-- `SignBytes` (solomachine.proto): 1 sequence (uint64), 2 timestamp (uint64), 3 diversifier (string),
4 path (bytes), 5 data (bytes) -/
structure SignBytes where
  seq : Nat
  ts : Nat
  div : Bytes
  path : Bytes
  data : Bytes
deriving DecidableEq, Repr

/-- `cdc.Marshal(&SignBytes{…})`: proto3, zero / empty fields omitted -/
def encSignBytes (sb : SignBytes) : Bytes :=
  (if sb.seq = 0 then [] else 8 :: encVarint sb.seq) ++
  ((if sb.ts = 0 then [] else 16 :: encVarint sb.ts) ++
  (encField 3 sb.div ++ (encField 4 sb.path ++ encField 5 sb.data)))

/-- `SentinelHeaderPath = "solomachine:header"` -/
def sentinelHeaderPath : Bytes :=
  [115, 111, 108, 111, 109, 97, 99, 104, 105, 110, 101, 58, 104, 101, 97, 100, 101, 114]

inductive Sig where
  | bad
  | signed (key : KeyId) (bytes : Bytes)
deriving DecidableEq, Repr

/-- `VerifySignature(pubKey, signBytes, sigData)` -/
def verifySig (key : KeyId) (bytes : Bytes) (σ : Sig) : Bool :=
  σ == .signed key bytes

/-- `TimestampedSignatureData.SignatureData` after `UnmarshalSignatureData` -/
inductive SigData where
  | empty                 -- len(SignatureData) == 0
  | garbage               -- does not unmarshal into signing.SignatureDescriptor_Data
  | nosum                 -- unmarshals with no `sum` set: the SDK's SignatureDataFromProto panics
  | sig (σ : Sig)
deriving DecidableEq, Repr

/-- the `proof []byte` argument -/
inductive ProofArg where
  | nil                   -- proof == nil
  | garbage               -- does not unmarshal into TimestampedSignatureData
  | mk (ts : Nat) (sd : SigData)
deriving DecidableEq, Repr

inductive PathArg where
  | other                          -- not a commitmenttypesv2.MerklePath
  | merkle (keyPath : List Bytes)
deriving DecidableEq, Repr

inductive Err where
  | invalidProof                  -- solomachine.ErrInvalidProof
  | unmarshal                     -- a protobuf unmarshalling error
  | invalidType                   -- ibcerrors.ErrInvalidType
  | invalidPath                   -- host.ErrInvalidPath
  | sigVerificationFailed         -- solomachine.ErrSignatureVerificationFailed
  | invalidHeader                 -- clienttypes.ErrInvalidHeader (header timestamp)
  | soloInvalidHeader             -- solomachine.ErrInvalidHeader (header signature)
  | invalidClientType             -- clienttypes.ErrInvalidClientType
  | clientNotActive               -- clienttypes.ErrClientNotActive
  | invalidMisbehaviour           -- clienttypes.ErrInvalidMisbehaviour (ValidateBasic)
  | invalidSignatureAndData       -- solomachine.ErrInvalidSignatureAndData (ValidateBasic)
  | panic                         -- not an error value: SignatureDataFromProto panicked
deriving DecidableEq, Repr

structure State where
  seq : Nat
  frozen : Bool
  key : KeyId
  div : Bytes
  ts : Nat
deriving DecidableEq, Repr

/-- `produceVerificationArgs`: returns (sigData, timestamp); the sequence and key are the state's -/
def produceVerificationArgs (s : State) (proof : ProofArg) : Except Err (Sig × Nat) :=
  match proof with
  | .nil => .error .invalidProof
  | .garbage => .error .unmarshal
  | .mk ts sd =>
    match sd with
    | .empty => .error .invalidProof
    | .garbage => .error .unmarshal
    | .nosum => .error .panic
    | .sig σ => if s.ts > ts then .error .invalidProof else .ok (σ, ts)

/-- `verifyMembership` / `verifyNonMembership` (`data = []` for the latter): new state on success -/
def verifyProof (s : State) (proof : ProofArg) (path : PathArg) (data : Bytes) : Except Err State :=
  match produceVerificationArgs s proof with
  | .error e => .error e
  | .ok (σ, ts) =>
    match path with
    | .other => .error .invalidType
    | .merkle kp =>
      if kp.length != 2 then .error .invalidPath
      else
        let signBz := encSignBytes ⟨s.seq, ts, s.div, kp.getD 1 [], data⟩
        if !verifySig s.key signBz σ then .error .sigVerificationFailed
        else .ok { s with seq := s.seq + 1, ts := ts }

structure Header where
  ts : Nat
  sig : SigData          -- `empty` cannot occur after ValidateBasic; `garbage` = UnmarshalSignatureData fails
  newKey : KeyId
  newDiv : Bytes
  /-- `cdc.Marshal(&HeaderData{NewPubKey, NewDiversifier})` -/
  hdata : Bytes
deriving DecidableEq, Repr

/-- `verifyHeader` -/
def verifyHeader (s : State) (h : Header) : Except Err Unit :=
  if h.ts < s.ts then .error .invalidHeader
  else
    let signBz := encSignBytes ⟨s.seq, h.ts, s.div, sentinelHeaderPath, h.hdata⟩
    match h.sig with
    | .garbage => .error .unmarshal
    | .nosum => .error .panic
    | .empty => .error .soloInvalidHeader      -- SignatureDataFromProto(nil sum) → nil → not SingleSignatureData
    | .sig σ => if !verifySig s.key signBz σ then .error .soloInvalidHeader else .ok ()

structure SigAndData where
  sig : SigData
  path : Bytes
  data : Bytes
  ts : Nat
deriving DecidableEq, Repr

structure Misbehaviour where
  seq : Nat
  one : SigAndData
  two : SigAndData
deriving DecidableEq, Repr

/-- `verifySignatureAndData` -/
def verifySigAndData (pathDecodes : Bytes → Bool) (s : State) (mseq : Nat) (sd : SigAndData) :
    Except Err Unit :=
  if !pathDecodes sd.path then .error .unmarshal
  else
    let signBz := encSignBytes ⟨mseq, sd.ts, s.div, sd.path, sd.data⟩
    match sd.sig with
    | .garbage => .error .unmarshal
    | .nosum => .error .panic
    | .empty => .error .sigVerificationFailed
    | .sig σ => if !verifySig s.key signBz σ then .error .sigVerificationFailed else .ok ()

/-- `verifyMisbehaviour` -/
def verifyMisbehaviour (pathDecodes : Bytes → Bool) (s : State) (m : Misbehaviour) : Except Err Unit :=
  match verifySigAndData pathDecodes s m.seq m.one with
  | .error e => .error e
  | .ok () => verifySigAndData pathDecodes s m.seq m.two

/-- raw signature bytes are not part of the symbolic model; the harness reports whether the two
`Signature` byte strings are equal -/
structure MisbehaviourWire where
  m : Misbehaviour
  sigBytesEqual : Bool
  sigOneEmpty : Bool
  sigTwoEmpty : Bool
deriving DecidableEq, Repr

def sigAndDataValidateBasic (sigEmpty : Bool) (sd : SigAndData) : Except Err Unit :=
  if sigEmpty then .error .invalidSignatureAndData
  else if sd.data.length == 0 then .error .invalidSignatureAndData
  else if sd.path.length == 0 then .error .invalidSignatureAndData
  else if sd.ts == 0 then .error .invalidSignatureAndData
  else .ok ()

/-- `Misbehaviour.ValidateBasic` (run by `MsgUpdateClient.ValidateBasic`) -/
def misbehaviourValidateBasic (w : MisbehaviourWire) : Except Err Unit :=
  if w.m.seq == 0 then .error .invalidMisbehaviour
  else match sigAndDataValidateBasic w.sigOneEmpty w.m.one with
    | .error e => .error e
    | .ok () =>
      match sigAndDataValidateBasic w.sigTwoEmpty w.m.two with
      | .error e => .error e
      | .ok () =>
        if w.sigBytesEqual then .error .invalidMisbehaviour
        else if w.m.one.path == w.m.two.path && w.m.one.data == w.m.two.data then .error .invalidMisbehaviour
        else .ok ()

inductive ClientMsg where
  | header (h : Header)
  | misbehaviour (w : MisbehaviourWire)
  | other
deriving DecidableEq, Repr

inductive Op where
  | vm (proof : ProofArg) (path : PathArg) (value : Bytes)     -- module VerifyMembership
  | vnm (proof : ProofArg) (path : PathArg)                    -- module VerifyNonMembership
  | kvm (proof : ProofArg) (path : PathArg) (value : Bytes)    -- ClientKeeper.VerifyMembership
  | kvnm (proof : ProofArg) (path : PathArg)                   -- ClientKeeper.VerifyNonMembership
  /-- `validate = true`: `MsgUpdateClient.ValidateBasic` + core msg server; `false`: ClientKeeper.UpdateClient -/
  | update (validate : Bool) (msg : ClientMsg)
deriving Repr

inductive Res where
  | ok | err (e : Err)
deriving DecidableEq, Repr

def verifyRes (s : State) : Except Err State → State × Res
  | .ok s' => (s', .ok)
  | .error e => (s, .err e)

/-- `MsgUpdateClient.ValidateBasic` → `clientMsg.ValidateBasic()` (header checks are on raw fields the
harness keeps valid) -/
def validateMsg (validate : Bool) (msg : ClientMsg) : Except Err Unit :=
  match validate, msg with
  | true, .misbehaviour w => misbehaviourValidateBasic w
  | _, _ => .ok ()

/-- `Keeper.UpdateClient`: status gate, VerifyClientMessage, CheckForMisbehaviour, then UpdateState or
UpdateStateOnMisbehaviour -/
def updateClient (pathDecodes : Bytes → Bool) (s : State) (msg : ClientMsg) : State × Res :=
  if s.frozen then (s, .err .clientNotActive)
  else match msg with
    | .other => (s, .err .invalidClientType)
    | .header h =>
      match verifyHeader s h with
      | .error e => (s, .err e)
      | .ok () =>
        -- CheckForMisbehaviour = false; UpdateState
        ({ s with seq := s.seq + 1, key := h.newKey, div := h.newDiv, ts := h.ts }, .ok)
    | .misbehaviour w =>
      match verifyMisbehaviour pathDecodes s w.m with
      | .error e => (s, .err e)
      | .ok () => ({ s with frozen := true }, .ok)   -- CheckForMisbehaviour = true; freeze

def step (pathDecodes : Bytes → Bool) (s : State) : Op → State × Res
  | .vm p path v => verifyRes s (verifyProof s p path v)
  | .vnm p path => verifyRes s (verifyProof s p path [])
  | .kvm p path v =>
    if s.frozen then (s, .err .clientNotActive) else verifyRes s (verifyProof s p path v)
  | .kvnm p path =>
    if s.frozen then (s, .err .clientNotActive) else verifyRes s (verifyProof s p path [])
  | .update validate msg =>
    match validateMsg validate msg with
    | .error e => (s, .err e)
    | .ok () => updateClient pathDecodes s msg

def run (pathDecodes : Bytes → Bool) (s : State) : List Op → State × List Res
  | [] => (s, [])
  | op :: ops =>
    let r := step pathDecodes s op
    let rest := run pathDecodes r.1 ops
    (rest.1, r.2 :: rest.2)

end IbcVerif.Solo
