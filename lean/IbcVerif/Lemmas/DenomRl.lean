/-
  Lemmas relating the rate-limiting parsers (string-prefix tests on the raw path) to the ICS-20
  decisions (tests on the parsed trace).
-/
import IbcVerif.Lemmas.Denom
namespace IbcVerif.Xfer
open IbcVerif

/-- two-segment path whose second segment is channel/client formatted: the one shape on which
    `ExtractDenomFromPath` changes its mind when a hop is prepended -/
def twoSegHopLike (s : Str) : Bool :=
  match splitOnChar '/' s with
  | [_, c] => isHopId c
  | _ => false

theorem extractGo_long_irrelevant_of_not_twoSeg (s : Str) (h : twoSegHopLike s = false) :
    extractGo (decide ((splitOnChar '/' s).length > 2)) (splitOnChar '/' s) = extractGo true (splitOnChar '/' s) := by
  apply extractGo_long_irrelevant
  intro p c heq
  unfold twoSegHopLike at h
  rw [heq] at h
  simpa using h

/-- parsing a path with a recognised hop in front -/
theorem extract_cons_hop (p c s : Str) (hp : '/' ∉ p) (hc : '/' ∉ c) (hid : isHopId c = true) :
    extract (p ++ '/' :: (c ++ '/' :: s)) =
      ⟨⟨p, c⟩ :: (extractGo true (splitOnChar '/' s)).1, joinWith '/' (extractGo true (splitOnChar '/' s)).2⟩ := by
  have hs : splitOnChar '/' (p ++ '/' :: (c ++ '/' :: s)) = p :: c :: splitOnChar '/' s := by
    rw [splitOnChar_append '/' p _ hp, splitOnChar_append '/' c _ hc]
  rw [extract_of_split _ _ hs]
  have hl : (p :: c :: splitOnChar '/' s).length > 2 := by
    have : (splitOnChar '/' s).length ≥ 1 := by
      cases h : splitOnChar '/' s with
      | nil => exact absurd h (splitOnChar_ne_nil '/' s)
      | cons _ _ => simp
    simp only [List.length_cons]; omega
  simp only [hl, decide_true]
  rw [extractGo]
  simp [hid]

/-- if the parsed trace starts with the hop (sp, sc), the path string is `sp/sc/rest…` with `sc`
    recognised, and the remaining trace/base come from the loop on the remaining segments -/
theorem extract_hasPrefix_decompose (s sp sc : Str) (h : (extract s).hasPrefix sp sc = true) :
    ∃ rest : List Str, rest ≠ [] ∧ splitOnChar '/' s = sp :: sc :: rest ∧ isHopId sc = true ∧
      extract s = ⟨⟨sp, sc⟩ :: (extractGo true rest).1, joinWith '/' (extractGo true rest).2⟩ := by
  rw [extract_eq] at h ⊢
  generalize hsegs : splitOnChar '/' s = segs at h ⊢
  match segs, h with
  | [], h => simp [extractGo, Denom.hasPrefix] at h
  | [x], h => simp [extractGo, Denom.hasPrefix] at h
  | x :: y :: rest, h =>
    generalize hl : decide ((x :: y :: rest).length > 2) = long at h ⊢
    by_cases hc : (long && isHopId y) = true
    · rw [extractGo] at h ⊢
      simp only [hc, if_true, Denom.hasPrefix, Bool.and_eq_true, beq_iff_eq] at h ⊢
      obtain ⟨hx, hy⟩ := h
      subst hx; subst hy
      simp only [Bool.and_eq_true] at hc
      have hlong : long = true := hc.1
      subst hlong
      refine ⟨rest, ?_, rfl, hc.2, rfl⟩
      intro e; subst e; simp at hl
    · have hgo : extractGo long (x :: y :: rest) = ([], x :: y :: rest) := by
        rw [extractGo]; simp only [hc]; rfl
      rw [hgo] at h
      simp [Denom.hasPrefix] at h

theorem isPrefixOf_append_self (a b : Str) : a.isPrefixOf (a ++ b) = true := by
  rw [List.isPrefixOf_iff_prefix]
  exact List.prefix_append a b

/-- if `sp/sc/` is a string prefix of `s` (identifiers '/'-free), the split of `s` starts with them -/
theorem split_of_isPrefixOf (s sp sc : Str) (hsp : '/' ∉ sp) (hsc : '/' ∉ sc)
    (h : ((Hop.mk sp sc).str ++ ['/']).isPrefixOf s = true) :
    ∃ t, s = sp ++ '/' :: (sc ++ '/' :: t) ∧ splitOnChar '/' s = sp :: sc :: splitOnChar '/' t := by
  rw [List.isPrefixOf_iff_prefix] at h
  obtain ⟨t, ht⟩ := h
  refine ⟨t, ?_, ?_⟩
  · rw [← ht]; simp [Hop.str]
  · rw [← ht]
    have : (Hop.mk sp sc).str ++ ['/'] ++ t = sp ++ '/' :: (sc ++ '/' :: t) := by simp [Hop.str]
    rw [this, splitOnChar_append '/' sp _ hsp, splitOnChar_append '/' sc _ hsc]

/-- for a recognised source channel identifier, the raw string-prefix test of the rate limiter and
    ICS-20's test on the parsed trace agree -/
theorem stringPrefix_iff_hasPrefix (s sp sc : Str) (hsp : '/' ∉ sp) (hsc : '/' ∉ sc) (hid : isHopId sc = true) :
    ((Hop.mk sp sc).str ++ ['/']).isPrefixOf s = (extract s).hasPrefix sp sc := by
  cases hp : (extract s).hasPrefix sp sc with
  | true =>
    obtain ⟨rest, hne, hsplit, _, _⟩ := extract_hasPrefix_decompose s sp sc hp
    have hs : s = joinWith '/' (sp :: sc :: rest) := by rw [← hsplit, join_split]
    rw [hs, joinWith_cons_of_ne_nil '/' sp _ (by simp), joinWith_cons_of_ne_nil '/' sc _ hne]
    have : sp ++ '/' :: (sc ++ '/' :: joinWith '/' rest) = ((Hop.mk sp sc).str ++ ['/']) ++ joinWith '/' rest := by
      simp [Hop.str]
    rw [this]
    exact isPrefixOf_append_self _ _
  | false =>
    cases hq : ((Hop.mk sp sc).str ++ ['/']).isPrefixOf s with
    | false => rfl
    | true =>
      obtain ⟨t, hst, _⟩ := split_of_isPrefixOf s sp sc hsp hsc hq
      rw [hst, extract_cons_hop sp sc t hsp hsc hid] at hp
      simp [Denom.hasPrefix] at hp

end IbcVerif.Xfer
