import IbcVerif.Model.Router
namespace IbcVerif.Router

theorem lexLe_refl : ∀ a : Name, lexLe a a = true
  | [] => rfl
  | a :: as => by simp [lexLe, lexLe_refl as]

theorem lexLe_total : ∀ a b : Name, (lexLe a b || lexLe b a) = true
  | [], _ => by simp [lexLe]
  | _ :: _, [] => by simp [lexLe]
  | a :: as, b :: bs => by
      have ih := lexLe_total as bs
      simp only [lexLe, Bool.or_eq_true, Bool.and_eq_true, decide_eq_true_eq, beq_iff_eq] at ih ⊢
      rcases Nat.lt_trichotomy a b with h | h | h
      · exact Or.inl (Or.inl h)
      · subst h
        rcases ih with h | h
        · exact Or.inl (Or.inr ⟨rfl, h⟩)
        · exact Or.inr (Or.inr ⟨rfl, h⟩)
      · exact Or.inr (Or.inl h)

theorem lexLe_trans : ∀ a b c : Name, lexLe a b = true → lexLe b c = true → lexLe a c = true
  | [], _, _, _, _ => by simp [lexLe]
  | _ :: _, [], _, h, _ => by simp [lexLe] at h
  | _ :: _, _ :: _, [], _, h => by simp [lexLe] at h
  | a :: as, b :: bs, c :: cs, h1, h2 => by
      simp only [lexLe, Bool.or_eq_true, Bool.and_eq_true, decide_eq_true_eq, beq_iff_eq] at h1 h2 ⊢
      rcases h1 with h1 | ⟨e1, h1⟩ <;> rcases h2 with h2 | ⟨e2, h2⟩
      · exact Or.inl (by omega)
      · exact Or.inl (by omega)
      · exact Or.inl (by omega)
      · exact Or.inr ⟨by omega, lexLe_trans as bs cs h1 h2⟩

theorem lexLe_antisymm : ∀ a b : Name, lexLe a b = true → lexLe b a = true → a = b
  | [], [], _, _ => rfl
  | [], _ :: _, _, h => by simp [lexLe] at h
  | _ :: _, [], h, _ => by simp [lexLe] at h
  | a :: as, b :: bs, h1, h2 => by
      simp only [lexLe, Bool.or_eq_true, Bool.and_eq_true, decide_eq_true_eq, beq_iff_eq] at h1 h2
      rcases h1 with h1 | ⟨e1, h1⟩ <;> rcases h2 with h2 | ⟨e2, h2⟩
      · omega
      · omega
      · omega
      · rw [e1, lexLe_antisymm as bs h1 h2]

/-- in a pairwise-sorted list, `find?` returns the least element satisfying the predicate -/
theorem find_sorted_min {α : Type} (le : α → α → Bool) (p : α → Bool) :
    ∀ (l : List α), l.Pairwise (fun a b => le a b = true) → ∀ k, l.find? p = some k →
      k ∈ l ∧ p k = true ∧ ∀ k' ∈ l, p k' = true → (k' = k ∨ le k k' = true)
  | [], _, k, h => by simp at h
  | x :: xs, hs, k, h => by
      rw [List.pairwise_cons] at hs
      simp only [List.find?_cons] at h
      split at h
      · rename_i hp
        cases h
        refine ⟨List.mem_cons_self, hp, ?_⟩
        intro k' hk' _
        rcases List.mem_cons.mp hk' with rfl | hm
        · exact Or.inl rfl
        · exact Or.inr (hs.1 k' hm)
      · rename_i hp
        obtain ⟨h1, h2, h3⟩ := find_sorted_min le p xs hs.2 k h
        refine ⟨List.mem_cons_of_mem _ h1, h2, ?_⟩
        intro k' hk' hpk'
        rcases List.mem_cons.mp hk' with rfl | hm
        · rw [hp] at hpk'; cases hpk'
        · exact h3 k' hm hpk'

/-- the v2 invariant: no duplicates, no registered prefix is a prefix of another prefix or of a
    direct route -/
def PrefixFree (r : RouterV2) : Prop :=
  r.routes.Nodup ∧ r.prefixes.Nodup ∧
  (∀ p ∈ r.prefixes, ∀ q ∈ r.prefixes, p.isPrefixOf q = true → p = q) ∧
  (∀ p ∈ r.prefixes, ∀ port ∈ r.routes, p.isPrefixOf port = false)

theorem find_unique {α : Type} (pred : α → Bool) (m : α) :
    ∀ (o : List α), (∀ x ∈ o, pred x = true → x = m) → m ∈ o → pred m = true → o.find? pred = some m
  | [], _, hm, _ => by simp at hm
  | x :: xs, hu, hm, hp => by
      simp only [List.find?_cons]
      split
      · rename_i hx; rw [hu x List.mem_cons_self hx]
      · rename_i hx
        rcases List.mem_cons.mp hm with rfl | h
        · rw [hp] at hx; cases hx
        · exact find_unique pred m xs (fun y hy => hu y (List.mem_cons_of_mem _ hy)) h hp

/-- two prefixes of the same string are comparable -/
theorem prefix_comparable (p q port : Name) (hp : p.isPrefixOf port = true) (hq : q.isPrefixOf port = true) :
    p.isPrefixOf q = true ∨ q.isPrefixOf p = true := by
  rw [List.isPrefixOf_iff_prefix] at hp hq ⊢
  rw [List.isPrefixOf_iff_prefix]
  rcases Nat.le_total p.length q.length with h | h
  · exact Or.inl (List.prefix_of_prefix_length_le hp hq h)
  · exact Or.inr (List.prefix_of_prefix_length_le hq hp h)

end IbcVerif.Router
