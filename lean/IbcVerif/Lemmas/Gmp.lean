/-
  Lemmas for the GMP model (C39): injectivity of the length-prefixed concatenation, authentication
  and message-loop characterisations.
-/
import IbcVerif.Model.Gmp
import IbcVerif.Lemmas.Bytes
import IbcVerif.Lemmas.RateLimit
namespace IbcVerif.Gmp
open IbcVerif IbcVerif.Apps

theorem lp_append_inj (a a' x x' : Bytes) (ha : a.length < 2 ^ 64) (ha' : a'.length < 2 ^ 64)
    (h : lp a ++ x = lp a' ++ x') : a = a' ∧ x = x' := by
  unfold lp at h
  rw [List.append_assoc, List.append_assoc] at h
  have h8 : (be64 a.length).length = (be64 a'.length).length := by rw [be64_length, be64_length]
  obtain ⟨h1, h2⟩ := List.append_inj h h8
  have hl : a.length = a'.length := be64_inj ha ha' h1
  exact List.append_inj h2 hl

theorem accountKey_inj (c s t c' s' t' : Bytes)
    (hc : c.length < 2 ^ 64) (hs : s.length < 2 ^ 64) (ht : t.length < 2 ^ 64)
    (hc' : c'.length < 2 ^ 64) (hs' : s'.length < 2 ^ 64) (ht' : t'.length < 2 ^ 64)
    (h : accountKey c s t = accountKey c' s' t') : c = c' ∧ s = s' ∧ t = t' := by
  unfold accountKey at h
  rw [List.append_assoc, List.append_assoc] at h
  obtain ⟨h1, h2⟩ := lp_append_inj c c' _ _ hc hc' h
  obtain ⟨h3, h4⟩ := lp_append_inj s s' _ _ hs hs' h2
  have h5 := lp_append_inj t t' [] [] ht ht' (by simpa using h4)
  exact ⟨h1, h3, h5.1⟩

/-- every message has exactly one signer and it is the account -/
def SingleSigner {σ : Type} (account : String) (m : Ica.Msg σ) : Prop := m.signers = [account]

theorem authenticate_go_none {σ : Type} (account : String) (msgs : List (Ica.Msg σ)) :
    authenticateTx.go account msgs = none ↔ ∀ m ∈ msgs, SingleSigner account m := by
  induction msgs with
  | nil => simp [authenticateTx.go]
  | cons m t ih =>
    simp only [authenticateTx.go, List.mem_cons, forall_eq_or_imp, SingleSigner]
    split
    · rename_i s hs
      by_cases he : s = account
      · subst he
        simp only [bne_self_eq_false, Bool.false_eq_true, if_false, hs, true_and]
        exact ih
      · have : (s != account) = true := by simpa using he
        simp only [this, if_true, hs, reduceCtorEq, List.cons.injEq, he, and_true, false_and]
    · rename_i hne
      constructor
      · intro h; cases h
      · intro h; exact absurd h.1 (fun hc => hne account hc)

def HandlersOk {σ : Type} : List (Ica.Msg σ) → σ → Prop
  | [], _ => True
  | m :: t, s => m.vbOk = true ∧ m.routed = true ∧ ∃ s', m.handler s = some s' ∧ HandlersOk t s'

theorem runMsgs_ok_iff {σ : Type} (msgs : List (Ica.Msg σ)) (s : σ) :
    (∃ s', runMsgs msgs s = .ok s') ↔ HandlersOk msgs s := by
  induction msgs generalizing s with
  | nil => simp [runMsgs, HandlersOk]
  | cons m t ih =>
    simp only [runMsgs, HandlersOk]
    cases h1 : m.vbOk with
    | false => simp
    | true =>
      cases h2 : m.routed with
      | false => simp
      | true =>
        cases hh : m.handler s with
        | none => simp
        | some s1 => simpa using ih s1

/-- use a list of triples one after the other -/
def useAll (H : Bytes → Bytes) (acc : Accounts) (ts : List Triple) : Accounts :=
  ts.foldl (fun a t => (getOrCreate H a t).1) acc

theorem getOrCreate_keeps (H : Bytes → Bytes) (acc : Accounts) (t t' : Triple) (a : Bytes)
    (h : KV.get acc t = some a) : KV.get (getOrCreate H acc t').1 t = some a := by
  unfold getOrCreate
  cases hg : KV.get acc t' with
  | some a' => simpa using h
  | none =>
    simp only [KV.get_set]
    by_cases he : t' = t
    · subst he; rw [hg] at h; cases h
    · simp [he, h]

end IbcVerif.Gmp
