/-
  Helper lemmas about the denomination model (`Model/Denom.lean`): split/join algebra,
  characterisation of the hop loop of `ExtractDenomFromPath`, path stability.
-/
import IbcVerif.Model.Denom
import IbcVerif.Lemmas.Dec
namespace IbcVerif.Xfer
open IbcVerif

/-! ### split / join -/

theorem joinWith_cons_cons (sep : Char) (p q : Str) (ps : List Str) :
    joinWith sep (p :: q :: ps) = p ++ sep :: joinWith sep (q :: ps) := rfl

theorem joinWith_cons_of_ne_nil (sep : Char) (p : Str) (ps : List Str) (h : ps ≠ []) :
    joinWith sep (p :: ps) = p ++ sep :: joinWith sep ps := by
  cases ps with
  | nil => exact absurd rfl h
  | cons q qs => rfl

theorem splitOnChar_cons_sep (sep : Char) (s : Str) :
    splitOnChar sep (sep :: s) = [] :: splitOnChar sep s := by
  simp [splitOnChar]

/-- splitting `a ++ sep :: b` when `a` has no separator -/
theorem splitOnChar_append' (sep : Char) (a b : Str) (h : sep ∉ a) :
    splitOnChar sep (a ++ sep :: b) = a :: splitOnChar sep b := splitOnChar_append sep a b h

/-- every piece of a split is separator-free -/
theorem not_mem_of_mem_split (sep : Char) (s : Str) : ∀ p ∈ splitOnChar sep s, sep ∉ p := by
  induction s with
  | nil => intro p hp; simp [splitOnChar] at hp; subst hp; simp
  | cons c cs ih =>
    intro p hp
    simp only [splitOnChar] at hp
    split at hp
    · rename_i hc
      rcases List.mem_cons.mp hp with h | h
      · subst h; simp
      · exact ih p h
    · rename_i hc
      cases hs : splitOnChar sep cs with
      | nil => exact absurd hs (splitOnChar_ne_nil sep cs)
      | cons q qs =>
        rw [hs] at hp ih
        simp only at hp
        rcases List.mem_cons.mp hp with h | h
        · subst h
          intro hm
          rcases List.mem_cons.mp hm with h1 | h1
          · exact hc h1.symm
          · exact ih q List.mem_cons_self h1
        · exact ih p (List.mem_cons_of_mem _ h)

/-- joining separator-free pieces and splitting again returns the pieces (non-empty list) -/
theorem split_join (sep : Char) (l : List Str) (hne : l ≠ []) (hl : ∀ p ∈ l, sep ∉ p) :
    splitOnChar sep (joinWith sep l) = l := by
  induction l with
  | nil => exact absurd rfl hne
  | cons p ps ih =>
    cases ps with
    | nil =>
      simp only [joinWith]
      exact splitOnChar_no_sep sep p (hl p List.mem_cons_self)
    | cons q qs =>
      rw [joinWith_cons_cons, splitOnChar_append sep p _ (hl p List.mem_cons_self)]
      rw [ih (by simp) (fun x hx => hl x (List.mem_cons_of_mem _ hx))]

theorem contains_iff_mem (s : Str) (c : Char) : s.contains c = true ↔ c ∈ s := by
  simp

/-! ### the hop loop -/

/-- segments of a trace: port, channel, port, channel, … -/
def flatHops : List Hop → List Str
  | [] => []
  | h :: hs => h.port :: h.chan :: flatHops hs

theorem extractGo_flat (long : Bool) (segs : List Str) :
    flatHops (extractGo long segs).1 ++ (extractGo long segs).2 = segs := by
  induction segs using extractGo.induct long with
  | case1 p c rest h ih =>
    simp only [extractGo, h, if_true, flatHops]
    simp only [List.cons_append]
    rw [ih]
  | case2 p c rest h =>
    simp [extractGo, h, flatHops]
  | case3 segs hne =>
    unfold extractGo
    split
    · rename_i p c rest
      exact absurd rfl (hne p c rest)
    · simp [flatHops]

theorem extractGo_false (segs : List Str) : extractGo false segs = ([], segs) := by
  unfold extractGo
  split <;> simp

/-- every hop found by the loop has an ibc-go formatted channel identifier -/
theorem extractGo_hops_isHopId (long : Bool) (segs : List Str) :
    ∀ h ∈ (extractGo long segs).1, isHopId h.chan = true := by
  induction segs using extractGo.induct long with
  | case1 p c rest hc ih =>
    intro h hh
    simp only [extractGo, hc, if_true] at hh
    rcases List.mem_cons.mp hh with e | e
    · subst e
      simp only [Bool.and_eq_true] at hc
      exact hc.2
    · exact ih h e
  | case2 p c rest hc =>
    intro h hh
    simp [extractGo, hc] at hh
  | case3 segs hne =>
    intro h hh
    unfold extractGo at hh
    split at hh
    · rename_i p c rest
      exact absurd rfl (hne p c rest)
    · simp at hh

/-- with at most two segments, or a second segment that is not channel/client formatted, the
    `length > 2` guard of the loop is irrelevant -/
theorem extractGo_long_irrelevant (segs : List Str)
    (h : ∀ p c, segs = [p, c] → isHopId c = false) :
    extractGo (decide (segs.length > 2)) segs = extractGo true segs := by
  by_cases hl : segs.length > 2
  · simp [hl]
  · simp only [hl, decide_false, extractGo_false]
    match segs, h, hl with
    | [], _, _ => simp [extractGo]
    | [x], _, _ => simp [extractGo]
    | [p, c], h, _ => simp [extractGo, h p c rfl]
    | _ :: _ :: _ :: _, _, hl => simp at hl

/-- `Path`'s builder loop followed by a non-empty base is the '/'-join of all segments -/
theorem tracePrefix_join (tr : List Hop) (r : List Str) (hr : r ≠ []) :
    Denom.tracePrefix tr ++ joinWith '/' r = joinWith '/' (flatHops tr ++ r) := by
  induction tr with
  | nil => simp [Denom.tracePrefix, flatHops]
  | cons h hs ih =>
    have hne : flatHops hs ++ r ≠ [] := by simp [hr]
    simp only [Denom.tracePrefix, flatHops, Hop.str, List.cons_append, List.append_assoc]
    rw [joinWith_cons_of_ne_nil '/' h.port _ (by simp)]
    rw [joinWith_cons_of_ne_nil '/' h.chan _ hne]
    rw [← ih]

theorem goBlank_nil : goBlank [] = true := rfl

theorem joinWith_nil (sep : Char) : joinWith sep [] = [] := rfl

/-- `ExtractDenomFromPath` is the hop loop on the '/'-split (the early return for '/'-free strings
    is subsumed) -/
theorem extract_eq (s : Str) :
    extract s = ⟨(extractGo (decide ((splitOnChar '/' s).length > 2)) (splitOnChar '/' s)).1,
                 joinWith '/' (extractGo (decide ((splitOnChar '/' s).length > 2)) (splitOnChar '/' s)).2⟩ := by
  unfold extract
  by_cases h : s.contains '/' = true
  · simp only [h, Bool.not_true, Bool.false_eq_true, if_false]
  · have hm : '/' ∉ s := fun hm => h ((contains_iff_mem s '/').mpr hm)
    simp only [h, Bool.not_false, if_true]
    rw [splitOnChar_no_sep '/' s hm]
    simp [extractGo, joinWith]

theorem extract_of_split (s : Str) (segs : List Str) (h : splitOnChar '/' s = segs) :
    extract s = ⟨(extractGo (decide (segs.length > 2)) segs).1,
                 joinWith '/' (extractGo (decide (segs.length > 2)) segs).2⟩ := by
  subst h; exact extract_eq s

/-- a denomination is *path-stable* when parsing its path returns it -/
def PathStable (d : Denom) : Prop := extract d.path = d

theorem extractGo_true_of_hopFree (base : Str) (h : hopFreeBase base = true) :
    extractGo true (splitOnChar '/' base) = ([], splitOnChar '/' base) := by
  unfold hopFreeBase at h
  split at h
  · rename_i p c rest heq
    rw [heq]
    simp only [Bool.not_eq_true'] at h
    simp [extractGo, h]
  · rename_i hne
    unfold extractGo
    split
    · rename_i p c rest heq
      exact absurd heq (hne p c rest)
    · rfl

/-- path of a denom as a '/'-join -/
theorem path_eq_join (d : Denom) :
    d.path = joinWith '/' (flatHops d.trace ++ splitOnChar '/' d.base) := by
  unfold Denom.path Denom.isNative
  cases ht : d.trace with
  | nil => simp [flatHops, join_split]
  | cons h hs =>
    simp only [List.isEmpty_cons, Bool.false_eq_true, if_false]
    have := tracePrefix_join (h :: hs) (splitOnChar '/' d.base) (splitOnChar_ne_nil '/' d.base)
    rw [join_split] at this
    exact this

theorem flatHops_no_sep (tr : List Hop) (h : ∀ x ∈ tr, '/' ∉ x.port ∧ '/' ∉ x.chan) :
    ∀ p ∈ flatHops tr, '/' ∉ p := by
  induction tr with
  | nil => intro p hp; simp [flatHops] at hp
  | cons x xs ih =>
    intro p hp
    simp only [flatHops, List.mem_cons] at hp
    rcases hp with e | e | e
    · subst e; exact (h x List.mem_cons_self).1
    · subst e; exact (h x List.mem_cons_self).2
    · exact ih (fun y hy => h y (List.mem_cons_of_mem _ hy)) p e

/-- the '/'-split of a path: trace segments followed by the base's segments -/
theorem split_path (d : Denom) (h : ∀ x ∈ d.trace, '/' ∉ x.port ∧ '/' ∉ x.chan) :
    splitOnChar '/' d.path = flatHops d.trace ++ splitOnChar '/' d.base := by
  rw [path_eq_join]
  apply split_join
  · simp [splitOnChar_ne_nil]
  · intro p hp
    rcases List.mem_append.mp hp with e | e
    · exact flatHops_no_sep d.trace h p e
    · exact not_mem_of_mem_split '/' d.base p e

/-- the loop on `flatHops tr ++ rest` when every hop of `tr` is recognised -/
theorem extractGo_flatHops (tr : List Hop) (rest : List Str)
    (h : ∀ x ∈ tr, isHopId x.chan = true) :
    extractGo true (flatHops tr ++ rest) = (tr ++ (extractGo true rest).1, (extractGo true rest).2) := by
  induction tr with
  | nil => simp [flatHops]
  | cons x xs ih =>
    simp only [flatHops, List.cons_append]
    rw [extractGo]
    simp only [h x List.mem_cons_self, Bool.and_self, if_true]
    rw [ih (fun y hy => h y (List.mem_cons_of_mem _ hy))]

theorem flatHops_length (tr : List Hop) : (flatHops tr).length = 2 * tr.length := by
  induction tr with
  | nil => rfl
  | cons x xs ih => simp [flatHops, ih]; omega

/-- **Stability criterion.**  A denomination whose hops are '/'-free with ibc-go formatted channel
    identifiers and whose base is hop-free is path-stable. -/
theorem pathStable_of_hopFree (d : Denom)
    (hsep : ∀ x ∈ d.trace, '/' ∉ x.port ∧ '/' ∉ x.chan)
    (hid : ∀ x ∈ d.trace, isHopId x.chan = true)
    (hb : hopFreeBase d.base = true) : PathStable d := by
  unfold PathStable
  obtain ⟨tr, base⟩ := d
  simp only at hsep hid hb
  cases tr with
  | nil =>
    have hs : splitOnChar '/' (Denom.path ⟨[], base⟩) = splitOnChar '/' base := by
      simpa [flatHops] using split_path ⟨[], base⟩ hsep
    rw [extract_of_split _ _ hs, extractGo_long_irrelevant, extractGo_true_of_hopFree base hb]
    · simp [join_split]
    · intro p c heq
      unfold hopFreeBase at hb
      rw [heq] at hb
      simpa using hb
  | cons x xs =>
    have hs : splitOnChar '/' (Denom.path ⟨x :: xs, base⟩) = flatHops (x :: xs) ++ splitOnChar '/' base :=
      split_path ⟨x :: xs, base⟩ hsep
    have hlen : (flatHops (x :: xs) ++ splitOnChar '/' base).length > 2 := by
      have : (splitOnChar '/' base).length ≥ 1 := by
        cases hs : splitOnChar '/' base with
        | nil => exact absurd hs (splitOnChar_ne_nil '/' base)
        | cons _ _ => simp
      simp only [List.length_append, flatHops_length, List.length_cons]
      omega
    rw [extract_of_split _ _ hs]
    simp only [hlen, decide_true]
    rw [extractGo_flatHops (x :: xs) _ hid, extractGo_true_of_hopFree base hb]
    simp [join_split]

end IbcVerif.Xfer
