/-
  Lemmas for the association-list maps of the 07-tendermint model, and the numeric key of a height.
-/
import IbcVerif.Model.TmSpec
import IbcVerif.Lemmas.Height
namespace IbcVerif.Tm
open IbcVerif

namespace FMap
variable {κ α : Type} [DecidableEq κ]

@[simp] theorem get_nil (k : κ) : FMap.get ([] : FMap κ α) k = none := rfl

theorem get_cons (k' : κ) (v : α) (r : FMap κ α) (k : κ) :
    FMap.get ((k', v) :: r) k = if k' = k then some v else FMap.get r k := rfl

theorem get_del (m : FMap κ α) (k k' : κ) :
    FMap.get (FMap.del m k) k' = if k = k' then none else FMap.get m k' := by
  induction m with
  | nil => simp [FMap.del]
  | cons p r ih =>
    obtain ⟨a, b⟩ := p
    unfold FMap.del at ih ⊢
    by_cases h1 : a = k
    · subst h1
      simp only [List.filter_cons, decide_true, Bool.not_true, Bool.false_eq_true, ↓reduceIte]
      rw [ih]
      by_cases h2 : a = k'
      · simp [h2]
      · simp [h2, get_cons]
    · simp only [List.filter_cons, h1, decide_false, Bool.not_false, ↓reduceIte, get_cons]
      rw [ih]
      by_cases h2 : a = k'
      · subst h2; simp [Ne.symm h1]
      · simp [h2]

theorem get_set (m : FMap κ α) (k : κ) (v : α) (k' : κ) :
    FMap.get (FMap.set m k v) k' = if k = k' then some v else FMap.get m k' := by
  unfold FMap.set
  rw [get_cons, get_del]
  by_cases h : k = k' <;> simp [h]

theorem get_set_self (m : FMap κ α) (k : κ) (v : α) : FMap.get (FMap.set m k v) k = some v := by
  simp [get_set]

theorem get_set_ne (m : FMap κ α) (k k' : κ) (v : α) (h : k ≠ k') : FMap.get (FMap.set m k v) k' = FMap.get m k' := by
  simp [get_set, h]

theorem get_del_self (m : FMap κ α) (k : κ) : FMap.get (FMap.del m k) k = none := by
  simp [get_del]

theorem get_del_ne (m : FMap κ α) (k k' : κ) (h : k ≠ k') : FMap.get (FMap.del m k) k' = FMap.get m k' := by
  simp [get_del, h]

end FMap

/-! ### heights as numbers -/

theorem hk_inj {a b : Height} : hk a = hk b ↔ a = b := by
  rw [Height.ext_toNat]
  unfold hk
  have h1 := UInt64.toNat_lt a.h
  have h2 := UInt64.toNat_lt b.h
  constructor
  · intro h; omega
  · intro ⟨h, h'⟩; rw [h, h']

theorem lt_iff_hk (a b : Height) : Height.lt a b = true ↔ hk a < hk b := by
  simp only [Height.lt, Height.compare_toNat, hk]
  have h1 := UInt64.toNat_lt a.h
  have h2 := UInt64.toNat_lt b.h
  rcases cmpNat_cases a.rev.toNat a.h.toNat b.rev.toNat b.h.toNat with ⟨h, c⟩ | ⟨h, c⟩ | ⟨h, c⟩ <;>
    rw [h] <;> simp <;> omega

theorem gt_iff_hk (a b : Height) : Height.gt a b = true ↔ hk b < hk a := by
  simp only [Height.gt, Height.compare_toNat, hk]
  have h1 := UInt64.toNat_lt a.h
  have h2 := UInt64.toNat_lt b.h
  rcases cmpNat_cases a.rev.toNat a.h.toNat b.rev.toNat b.h.toNat with ⟨h, c⟩ | ⟨h, c⟩ | ⟨h, c⟩ <;>
    rw [h] <;> simp <;> omega

theorem lte_iff_hk (a b : Height) : Height.lte a b = true ↔ hk a ≤ hk b := by
  simp only [Height.lte, Height.compare_toNat, hk, decide_eq_true_eq]
  have h1 := UInt64.toNat_lt a.h
  have h2 := UInt64.toNat_lt b.h
  rcases cmpNat_cases a.rev.toNat a.h.toNat b.rev.toNat b.h.toNat with ⟨h, c⟩ | ⟨h, c⟩ | ⟨h, c⟩ <;>
    rw [h] <;> simp <;> omega

theorem gte_iff_hk (a b : Height) : Height.gte a b = true ↔ hk b ≤ hk a := by
  simp only [Height.gte, Height.compare_toNat, hk, decide_eq_true_eq]
  have h1 := UInt64.toNat_lt a.h
  have h2 := UInt64.toNat_lt b.h
  rcases cmpNat_cases a.rev.toNat a.h.toNat b.rev.toNat b.h.toNat with ⟨h, c⟩ | ⟨h, c⟩ | ⟨h, c⟩ <;>
    rw [h] <;> simp <;> omega

theorem eq_iff_hk (a b : Height) : Height.eq a b = true ↔ hk a = hk b := by
  simp only [Height.eq, Height.compare_toNat, hk]
  have h1 := UInt64.toNat_lt a.h
  have h2 := UInt64.toNat_lt b.h
  rcases cmpNat_cases a.rev.toNat a.h.toNat b.rev.toNat b.h.toNat with ⟨h, c⟩ | ⟨h, c⟩ | ⟨h, c⟩ <;>
    rw [h] <;> simp <;> omega

theorem isZero_iff_hk (a : Height) : a.isZero = true ↔ hk a = 0 := by
  obtain ⟨r, h⟩ := a
  simp only [Height.isZero, hk, Bool.and_eq_true, beq_iff_eq, ← UInt64.toNat_inj]
  have h2 := UInt64.toNat_lt h
  simp only [UInt64.toNat_zero]
  omega

end IbcVerif.Tm
