/-
  Ghost-log invariants and the "in flight" sums used by the conservation theorems.
-/
import IbcVerif.Lemmas.Ics20Inv
namespace IbcVerif.Ics20
open IbcVerif IbcVerif.Xfer

/-- a sent packet whose tokens are neither delivered (successful receive) nor refunded (timeout, or
    acknowledged after a failed receive): its amount is still "in flight" -/
def pendingIn (recvd : List (Packet × Bool)) (acked timedOut : List Packet) (p : Packet) : Bool :=
  !(recvd.contains (p, true)) && !(timedOut.contains p) && !(acked.contains p && recvd.contains (p, false))

def pending (w : World) (p : Packet) : Bool := pendingIn w.recvd w.acked w.timedOut p

/-- total amount in flight over the packets selected by `sel` -/
def pendingSum (w : World) (sel : Packet → Bool) : Nat :=
  ((w.sent.filter fun p => sel p && pending w p).map fun p => p.data.amount).sum

structure LInv (w : World) : Prop where
  nodup : w.sent.Nodup
  recvd_sent : ∀ p b, (p, b) ∈ w.recvd → p ∈ w.sent
  acked_sent : ∀ p, p ∈ w.acked → p ∈ w.sent
  timedOut_sent : ∀ p, p ∈ w.timedOut → p ∈ w.sent
  recvd_unique : ∀ p, (p, true) ∈ w.recvd → (p, false) ∈ w.recvd → False
  acked_recvd : ∀ p, p ∈ w.acked → ∃ b, (p, b) ∈ w.recvd

theorem pending_fresh {w : World} (h : LInv w) {p : Packet} (hp : p ∉ w.sent) : pending w p = true := by
  have h1 : (p, true) ∉ w.recvd := fun hm => hp (h.recvd_sent p true hm)
  have h2 : p ∉ w.timedOut := fun hm => hp (h.timedOut_sent p hm)
  have h3 : p ∉ w.acked := fun hm => hp (h.acked_sent p hm)
  simp [pending, pendingIn, h1, h2, h3]

/-! ### sums over filtered lists -/

theorem sum_filter_congr {α : Type} (l : List α) (f : α → Nat) (P Q : α → Bool)
    (h : ∀ x ∈ l, P x = Q x) : ((l.filter P).map f).sum = ((l.filter Q).map f).sum := by
  induction l with
  | nil => rfl
  | cons x xs ih =>
    have hx := h x List.mem_cons_self
    have ih' := ih (fun y hy => h y (List.mem_cons_of_mem _ hy))
    simp only [List.filter_cons, hx]
    split <;> simp [ih']

/-- flipping the predicate from true to false at exactly one element of a duplicate-free list removes
    that element's contribution -/
theorem sum_filter_flip {α : Type} [DecidableEq α] (l : List α) (f : α → Nat) (P Q : α → Bool) (p : α)
    (hnd : l.Nodup) (hp : p ∈ l) (hP : P p = true) (hQ : Q p = false)
    (h : ∀ x ∈ l, x ≠ p → P x = Q x) :
    ((l.filter P).map f).sum = ((l.filter Q).map f).sum + f p := by
  induction l with
  | nil => cases hp
  | cons x xs ih =>
    simp only [List.nodup_cons] at hnd
    by_cases hx : x = p
    · subst hx
      have hrest : ((xs.filter P).map f).sum = ((xs.filter Q).map f).sum :=
        sum_filter_congr xs f P Q (fun y hy => h y (List.mem_cons_of_mem _ hy) (fun e => hnd.1 (e ▸ hy)))
      simp only [List.filter_cons, hP, hQ, if_true, Bool.false_eq_true, if_false, List.map_cons, List.sum_cons, hrest]
      omega
    · have hp' : p ∈ xs := by
        rcases List.mem_cons.mp hp with e | e
        · exact absurd e.symm hx
        · exact e
      have ih' := ih hnd.2 hp' (fun y hy => h y (List.mem_cons_of_mem _ hy))
      have hxx := h x List.mem_cons_self hx
      simp only [List.filter_cons, hxx]
      split
      · simp only [List.map_cons, List.sum_cons, ih']; omega
      · exact ih'

/-- a new packet joins the in-flight sum iff it is selected (logs unchanged) -/
theorem pendingSum_cons {w w' : World} (p : Packet) (sel : Packet → Bool) (hl : LInv w) (hp : p ∉ w.sent)
    (hs : w'.sent = p :: w.sent) (hr : w'.recvd = w.recvd) (ha : w'.acked = w.acked) (ht : w'.timedOut = w.timedOut) :
    pendingSum w' sel = (if sel p then p.data.amount else 0) + pendingSum w sel := by
  have hpend : ∀ q, pending w' q = pending w q := by intro q; simp [pending, hr, ha, ht]
  have hpp := pending_fresh hl hp
  simp only [pendingSum, hs, hpend, List.filter_cons, hpp, Bool.and_true]
  split <;> simp

/-- the in-flight sums do not move when no selected packet changes its status -/
theorem pendingSum_same {w w' : World} (sel : Packet → Bool) (hs : w'.sent = w.sent)
    (h : ∀ q ∈ w.sent, pending w' q = pending w q) : pendingSum w' sel = pendingSum w sel := by
  simp only [pendingSum, hs]
  exact sum_filter_congr _ _ _ _ (fun q hq => by rw [h q hq])

/-- one packet leaves the in-flight set -/
theorem pendingSum_resolve {w w' : World} (p : Packet) (sel : Packet → Bool) (hl : LInv w) (hp : p ∈ w.sent)
    (hs : w'.sent = w.sent) (hwas : pending w p = true) (hnow : pending w' p = false)
    (h : ∀ q ∈ w.sent, q ≠ p → pending w' q = pending w q) :
    pendingSum w sel = pendingSum w' sel + (if sel p then p.data.amount else 0) := by
  simp only [pendingSum, hs]
  by_cases hsel : sel p = true
  · simp only [hsel, if_true]
    exact sum_filter_flip w.sent (fun q => q.data.amount) _ _ p hl.nodup hp (by simp [hsel, hwas]) (by simp [hnow])
      (fun q hq hne => by rw [h q hq hne])
  · simp only [hsel, Bool.false_eq_true, if_false, Nat.add_zero]
    apply sum_filter_congr
    intro q hq
    by_cases hqp : q = p
    · subst hqp; simp [hsel]
    · rw [h q hq hqp]

/-! ### the log invariant along lifecycle-respecting histories -/

theorem linv_step {cfg : Config} {w : World} (hl : LInv w) (op : Op) (hg : Guard w op) :
    LInv (step cfg w op).1 := by
  cases op with
  | transfer c signer viaTx m ce seq =>
    rcases step_transfer_cases cfg w c signer viaTx m ce seq with ⟨p, hp⟩ | hsame
    · have hstep : step cfg w (.transfer c signer viaTx m ce seq) = ((step cfg w (.transfer c signer viaTx m ce seq)).1, .sent p) :=
        Prod.ext rfl hp
      obtain ⟨_, ch', ht, hw'⟩ := step_transfer_sent hstep
      obtain ⟨_, _, _, _, _, _, _, _, _, hc, _, hsc, _, _, hseq, _⟩ := transfer_ok ht
      have hfresh : p ∉ w.sent := fun hm => hg p hm ⟨hc, hsc, hseq⟩
      rw [hw']
      exact ⟨List.nodup_cons.mpr ⟨hfresh, hl.nodup⟩,
        fun q b hq => List.mem_cons_of_mem _ (hl.recvd_sent q b hq),
        fun q hq => List.mem_cons_of_mem _ (hl.acked_sent q hq),
        fun q hq => List.mem_cons_of_mem _ (hl.timedOut_sent q hq),
        hl.recvd_unique, hl.acked_recvd⟩
    · rw [hsame]; exact hl
  | sendV2 c signer client data ce seq =>
    rcases step_sendV2_cases cfg w c signer client data ce seq with ⟨p, hp⟩ | hsame
    · have hstep : step cfg w (.sendV2 c signer client data ce seq) = ((step cfg w (.sendV2 c signer client data ce seq)).1, .sent p) :=
        Prod.ext rfl hp
      obtain ⟨ch', ht, hw'⟩ := step_sendV2_sent hstep
      obtain ⟨_, _, _, _, _, hc, _, hsc, _, _, hseq, _⟩ := sendPacketV2_ok ht
      have hfresh : p ∉ w.sent := fun hm => hg p hm ⟨hc, hsc, hseq⟩
      rw [hw']
      exact ⟨List.nodup_cons.mpr ⟨hfresh, hl.nodup⟩,
        fun q b hq => List.mem_cons_of_mem _ (hl.recvd_sent q b hq),
        fun q hq => List.mem_cons_of_mem _ (hl.acked_sent q hq),
        fun q hq => List.mem_cons_of_mem _ (hl.timedOut_sent q hq),
        hl.recvd_unique, hl.acked_recvd⟩
    · rw [hsame]; exact hl
  | recv p =>
    obtain ⟨hps, hnr, _⟩ := hg
    rcases step_recv_cases cfg w p with ⟨ch', o, _, hstep⟩ | hsame
    · rw [hstep]
      refine ⟨hl.nodup, ?_, hl.acked_sent, hl.timedOut_sent, ?_, ?_⟩
      · intro q b hq
        rcases List.mem_cons.mp hq with e | e
        · injection e with e1 _; subst e1; exact hps
        · exact hl.recvd_sent q b e
      · intro q h1 h2
        rcases List.mem_cons.mp h1 with e1 | e1 <;> rcases List.mem_cons.mp h2 with e2 | e2
        · injection e1 with _ b1; injection e2 with _ b2; rw [← b1] at b2; cases b2
        · injection e1 with q1 _; subst q1; exact hnr false e2
        · injection e2 with q2 _; subst q2; exact hnr true e1
        · exact hl.recvd_unique q e1 e2
      · intro q hq
        obtain ⟨b, hb⟩ := hl.acked_recvd q hq
        exact ⟨b, List.mem_cons_of_mem _ hb⟩
    · rw [hsame]; exact hl
  | ack p a =>
    obtain ⟨hps, ⟨b, hb, _⟩, _, _⟩ := hg
    rcases step_ack_cases cfg w p a with ⟨ch', _, hstep⟩ | ⟨hsame, _⟩
    · rw [hstep]
      refine ⟨hl.nodup, hl.recvd_sent, ?_, hl.timedOut_sent, hl.recvd_unique, ?_⟩
      · intro q hq
        rcases List.mem_cons.mp hq with e | e
        · subst e; exact hps
        · exact hl.acked_sent q e
      · intro q hq
        rcases List.mem_cons.mp hq with e | e
        · subst e; exact ⟨b, hb⟩
        · exact hl.acked_recvd q e
    · rw [hsame]; exact hl
  | timeout p oc =>
    obtain ⟨hps, _, _, _⟩ := hg
    rcases step_timeout_cases cfg w p oc with ⟨ch', _, hstep⟩ | ⟨hsame, _⟩
    · rw [hstep]
      refine ⟨hl.nodup, hl.recvd_sent, hl.acked_sent, ?_, hl.recvd_unique, hl.acked_recvd⟩
      intro q hq
      rcases List.mem_cons.mp hq with e | e
      · subst e; exact hps
      · exact hl.timedOut_sent q e
    · rw [hsame]; exact hl
  | setParams c s r => exact ⟨hl.nodup, hl.recvd_sent, hl.acked_sent, hl.timedOut_sent, hl.recvd_unique, hl.acked_recvd⟩
  | bankSend c f t dn n =>
    simp only [step]
    split
    · exact hl
    · split
      · exact ⟨hl.nodup, hl.recvd_sent, hl.acked_sent, hl.timedOut_sent, hl.recvd_unique, hl.acked_recvd⟩
      · exact hl

end IbcVerif.Ics20
