/-
  Two chains with honest light clients: the agreement invariant and its preservation.
-/
import IbcVerif.Model.ChainPair
import IbcVerif.Lemmas.ChainShape
namespace IbcVerif.Chain
open FMap

/-! ### details of the successful handshake steps -/

theorem verify_ok_v {s : ChainState} {env : Env} {cid : Id} {v : Bool} {u : Unit}
    (h : verify s env cid v = .ok u) : v = true := by
  unfold verify at h
  split at h
  · cases h
  · split at h
    · cases h
    · split at h
      · cases h
      · simp_all

theorem getConn_ok {s : ChainState} {ch : Channel} {hop : Id} {conn : ConnEnd} (h : getConn s ch = .ok (hop, conn)) :
    ch.hops.head? = some hop ∧ s.conn.get hop = some conn := by
  unfold getConn at h
  cases h0 : hop0 ch with
  | error e => rw [h0] at h; cases h
  | ok x =>
    rw [h0] at h
    simp only at h
    cases hc : s.conn.get x with
    | none => rw [hc] at h; cases h
    | some c0 =>
      rw [hc] at h
      simp only [Except.ok.injEq, Prod.mk.injEq] at h
      obtain ⟨h1, h2⟩ := h
      subst h1; subst h2
      refine ⟨?_, hc⟩
      unfold hop0 at h0
      cases hl : ch.hops with
      | nil => rw [hl] at h0; cases h0
      | cons y ys =>
        rw [hl] at h0
        simp only [Except.ok.injEq] at h0
        subst h0
        rfl

theorem chanOpenAck_detail {s s' : ChainState} {env : Env} {port chan cpChan : Id} {cpVersion : String} {app : AppV1} {r : String}
    (h : step s ⟨env, .chanOpenAck port chan cpChan cpVersion app⟩ = (s', .ok r)) :
    ∃ ch hop conn, s.chan.get (port, chan) = some ch ∧ ch.state = .init ∧ getConn s ch = .ok (hop, conn) ∧
      conn.state = .opened ∧ env.lc.v1 = true ∧ s'.conn = s.conn ∧
      s'.chan = s.chan.set (port, chan) { ch with state := .opened, version := cpVersion, cpChan := cpChan } := by
  have hv := step_vb h rfl
  unfold step at h
  simp only [hv] at h
  simp only [Bool.false_eq_true, if_false] at h
  unfold msgChanOpenAck at h
  oksplit h
  obtain ⟨C, A, hs, _⟩ := registerAlias_ok ‹registerAlias _ chan _ = Except.ok _›
  have hver := verify_ok_v ‹verify s env _ env.lc.v1 = Except.ok _›
  simp only [ne_eq, Decidable.not_not] at *
  refine ⟨_, _, _, ‹s.chan.get (port, chan) = some _›, ‹_›, ‹_›, ‹_›, hver, ?_, ?_⟩ <;> rw [hs] <;> rfl

theorem chanOpenConfirm_detail {s s' : ChainState} {env : Env} {port chan : Id} {app : AppV1} {r : String}
    (h : step s ⟨env, .chanOpenConfirm port chan app⟩ = (s', .ok r)) :
    ∃ ch hop conn, s.chan.get (port, chan) = some ch ∧ ch.state = .tryopen ∧ getConn s ch = .ok (hop, conn) ∧
      conn.state = .opened ∧ env.lc.v1 = true ∧ s'.conn = s.conn ∧
      s'.chan = s.chan.set (port, chan) { ch with state := .opened } := by
  have hv := step_vb h rfl
  unfold step at h
  simp only [hv] at h
  simp only [Bool.false_eq_true, if_false] at h
  unfold msgChanOpenConfirm at h
  oksplit h
  obtain ⟨C, A, hs, _⟩ := registerAlias_ok ‹registerAlias _ chan _ = Except.ok _›
  have hver := verify_ok_v ‹verify s env _ env.lc.v1 = Except.ok _›
  simp only [ne_eq, Decidable.not_not] at *
  refine ⟨_, _, _, ‹s.chan.get (port, chan) = some _›, ‹_›, ‹_›, ‹_›, hver, ?_, ?_⟩ <;> rw [hs] <;> rfl

theorem chanCloseConfirm_detail {s s' : ChainState} {env : Env} {port chan : Id} {app : AppV1} {r : String}
    (h : step s ⟨env, .chanCloseConfirm port chan app⟩ = (s', .ok r)) :
    ∃ ch hop conn, s.chan.get (port, chan) = some ch ∧ getConn s ch = .ok (hop, conn) ∧ env.lc.v1 = true := by
  have hv := step_vb h rfl
  unfold step at h
  simp only [hv] at h
  simp only [Bool.false_eq_true, if_false] at h
  unfold msgChanCloseConfirm at h
  oksplit h
  have hver := verify_ok_v ‹verify _ env _ env.lc.v1 = Except.ok _›
  exact ⟨_, _, _, ‹_›, ‹_›, hver⟩

theorem connOpenAck_detail {s s' : ChainState} {env : Env} {c cpConn : Id} {version : Version} {r : String}
    (h : step s ⟨env, .connOpenAck c cpConn version⟩ = (s', .ok r)) :
    ∃ conn, s.conn.get c = some conn ∧ conn.state = .init ∧ env.lc.v1 = true ∧ s'.chan = s.chan ∧
      s'.conn = s.conn.set c { conn with state := .opened, versions := [version], cpConn := cpConn } := by
  have hv := step_vb h rfl
  unfold step at h
  simp only [hv] at h
  simp only [Bool.false_eq_true, if_false] at h
  unfold msgConnOpenAck at h
  oksplit h
  have hver := verify_ok_v ‹verify s env _ env.lc.v1 = Except.ok _›
  simp only [ne_eq, Decidable.not_not] at *
  refine ⟨_, ‹_›, ‹_›, hver, ?_, ?_⟩ <;> first | rfl | trivial

theorem connOpenConfirm_detail {s s' : ChainState} {env : Env} {c : Id} {r : String}
    (h : step s ⟨env, .connOpenConfirm c⟩ = (s', .ok r)) :
    ∃ conn, s.conn.get c = some conn ∧ conn.state = .tryopen ∧ env.lc.v1 = true ∧ s'.chan = s.chan ∧
      s'.conn = s.conn.set c { conn with state := .opened } := by
  have hv := step_vb h rfl
  unfold step at h
  simp only [hv] at h
  simp only [Bool.false_eq_true, if_false] at h
  unfold msgConnOpenConfirm at h
  oksplit h
  have hver := verify_ok_v ‹verify s env _ env.lc.v1 = Except.ok _›
  simp only [ne_eq, Decidable.not_not] at *
  refine ⟨_, ‹_›, ‹_›, hver, ?_, ?_⟩ <;> first | rfl | trivial

/-! ### what a positive honest verdict means -/

theorem honest_chan {me other : ChainState} {body : Body} {adv : Bool} {k : Id × Id} {v : Channel} {pfx : Bool}
    (he : expectedChan me body = some (k, v, pfx)) (h : honestV1 me other body adv = true) :
    other.chan.get k = some v ∧ pfx = true := by
  unfold honestV1 at h
  rw [he] at h
  simp only [Bool.and_eq_true, beq_iff_eq] at h
  exact ⟨h.2, h.1⟩

theorem expectedChan_none_of_conn {me : ChainState} {body : Body} (h : body.opensConn ≠ none) : expectedChan me body = none := by
  cases body <;> simp [Body.opensConn] at h <;> rfl

theorem honest_conn {me other : ChainState} {body : Body} {adv : Bool} {k : Id} {v : ConnEnd} {pfx : Bool}
    (hc : expectedChan me body = none) (he : expectedConn me body = some (k, v, pfx)) (h : honestV1 me other body adv = true) :
    other.conn.get k = some v ∧ pfx = true := by
  unfold honestV1 at h
  rw [hc, he] at h
  simp only [Bool.and_eq_true, beq_iff_eq] at h
  exact ⟨h.2, h.1⟩

/-! ### the agreement invariant -/

/-- an OPEN channel end `e` at `(p, c)` on X is matched on Y -/
def ChanOK (X Y : ChainState) (p c : Id) (e : Channel) : Prop :=
  ∃ b h ce, Y.chan.get (e.cpPort, e.cpChan) = some b ∧ b.state ≠ .init ∧ b.ordering = e.ordering ∧
    b.cpPort = p ∧ b.cpChan = c ∧ b.version = e.version ∧
    e.hops.head? = some h ∧ X.conn.get h = some ce ∧ ce.state = .opened ∧ b.hops = [ce.cpConn]

/-- an OPEN connection end `e` at `c` on X is matched on Y -/
def ConnOK (Y : ChainState) (c : Id) (e : ConnEnd) : Prop :=
  ∃ f v, Y.conn.get e.cpConn = some f ∧ f.state ≠ .init ∧ f.client = e.cpClient ∧ f.cpClient = e.client ∧
    f.cpConn = c ∧ f.delay = e.delay ∧ f.versions = e.versions ∧ e.versions = [v]

structure Agree (X Y : ChainState) : Prop where
  chan : ∀ p c e, X.chan.get (p, c) = some e → e.state = .opened → ChanOK X Y p c e
  conn : ∀ c e, X.conn.get c = some e → e.state = .opened → ConnOK Y c e
  trySingle : ∀ c e, X.conn.get c = some e → e.state = .tryopen → ∃ v, e.versions = [v]

def Good (s : ChainState) : Prop := Inv s ∧ Inv3 s

theorem Good.step {s s' : ChainState} (h : Good s) (ht : Tr s s') : Good s' := ⟨h.1.step ht, h.2.step ht⟩

theorem conn_fresh {s : ChainState} (h3 : Inv3 s) {c : Id} {e : ConnEnd} (hc : s.conn.get c = some e) :
    c ≠ fmtConn s.nextConnSeq := by
  intro h
  rcases h3.connId c e hc with hl | ⟨m, hm, he⟩
  · exact fmtConn_ne_localhost _ (hl ▸ h).symm
  · rw [h] at he; have := fmtConn_inj he; omega

/-- an existing connection end after a step -/
theorem conn_after {s s' : ChainState} (h3 : Inv3 s) (ht : Tr s s') {c : Id} {e : ConnEnd} (hc : s.conn.get c = some e) :
    ∃ e', s'.conn.get c = some e' ∧ ConnStep e e' := by
  rcases ht.connOld c e hc with h | h
  · exact absurd h (conn_fresh h3 hc)
  · exact h

theorem conn_open_after {s s' : ChainState} (h3 : Inv3 s) (ht : Tr s s') {c : Id} {e : ConnEnd}
    (hc : s.conn.get c = some e) (ho : e.state = .opened) : s'.conn.get c = some e := by
  obtain ⟨e', h1, h2⟩ := conn_after h3 ht hc
  rcases h2 with h | ⟨h, _⟩ | ⟨h, _⟩
  · rw [h1, h]
  · rw [ho] at h; cases h
  · rw [ho] at h; cases h

/-- a non-INIT connection end keeps every field except possibly TRYOPEN → OPEN -/
theorem conn_nonInit_after {s s' : ChainState} (h3 : Inv3 s) (ht : Tr s s') {c : Id} {f : ConnEnd}
    (hc : s.conn.get c = some f) (hn : f.state ≠ .init) :
    ∃ f', s'.conn.get c = some f' ∧ f'.state ≠ .init ∧ f'.client = f.client ∧ f'.cpClient = f.cpClient ∧
      f'.cpConn = f.cpConn ∧ f'.delay = f.delay ∧ f'.versions = f.versions := by
  obtain ⟨f', h1, h2⟩ := conn_after h3 ht hc
  refine ⟨f', h1, ?_⟩
  rcases h2 with h | ⟨h, _⟩ | ⟨_, h⟩
  · subst h; exact ⟨hn, rfl, rfl, rfl, rfl, rfl⟩
  · exact absurd h hn
  · subst h; exact ⟨by simp, rfl, rfl, rfl, rfl, rfl⟩

/-- a non-INIT channel end keeps ordering, counterparty, hops and version -/
theorem chan_nonInit_after {s s' : ChainState} (hi : Inv s) (ht : Tr s s') {p c : Id} {b : Channel}
    (hc : s.chan.get (p, c) = some b) (hn : b.state ≠ .init) :
    ∃ b', s'.chan.get (p, c) = some b' ∧ b'.state ≠ .init ∧ b'.ordering = b.ordering ∧ b'.cpPort = b.cpPort ∧
      b'.cpChan = b.cpChan ∧ b'.version = b.version ∧ b'.hops = b.hops := by
  rcases ht.chanOld p c b hc with h | ⟨b', h1, h2, h3, h4, htr, hv⟩
  · exact absurd h (chan_fresh hi (by rw [hc]; simp))
  · have hsame : b'.version = b.version ∧ b'.cpChan = b.cpChan := by
      by_cases hx : b'.version ≠ b.version ∨ b'.cpChan ≠ b.cpChan
      · exact absurd (hv hx).1 hn
      · simp only [not_or, ne_eq, Decidable.not_not] at hx; exact hx
    refine ⟨b', h1, ?_, h2, h3, hsame.2, hsame.1, h4⟩
    rcases htr with h | ⟨h, _⟩ | ⟨_, h⟩ | ⟨_, h⟩
    · rw [← h]; exact hn
    · exact absurd h hn
    · rw [h]; simp
    · rw [h]; simp

/-- the counterparty takes a step: the agreement of X with it is kept -/
theorem Agree.other_step {X Y Y' : ChainState} (hg : Good Y) (ha : Agree X Y) (ht : Tr Y Y') : Agree X Y' := by
  refine ⟨?_, ?_, ha.trySingle⟩
  · intro p c e he ho
    obtain ⟨b, h, ce, hb, hn, h1, h2, h3, h4, h5, h6, h7, h8⟩ := ha.chan p c e he ho
    obtain ⟨b', hb', hn', g1, g2, g3, g4, g5⟩ := chan_nonInit_after hg.1 ht hb hn
    exact ⟨b', h, ce, hb', hn', g1.trans h1, g2.trans h2, g3.trans h3, g4.trans h4, h5, h6, h7, g5.trans h8⟩
  · intro c e he ho
    obtain ⟨f, v, hf, hn, h1, h2, h3, h4, h5, h6⟩ := ha.conn c e he ho
    obtain ⟨f', hf', hn', g1, g2, g3, g4, g5⟩ := conn_nonInit_after hg.2 ht hf hn
    exact ⟨f', v, hf', hn', g1.trans h1, g2.trans h2, g3.trans h3, g4.trans h4, g5.trans h5, h6⟩

/-- the chain itself takes a step under the honest verdict: its agreement with the counterparty is kept -/
theorem Agree.me_step {X X' Y : ChainState} {op : Op} {out : Out} (hg : Good X) (ha : Agree X Y)
    (h : sideStep X Y op = (X', out)) : Agree X' Y := by
  unfold sideStep at h
  cases hout : out.isOk with
  | false => rw [step_unchanged h hout]; exact ha
  | true =>
    obtain ⟨r, rfl⟩ : ∃ r, out = .ok r := by cases out <;> simp [Out.isOk] at hout; exact ⟨_, rfl⟩
    have ht : Tr X X' := step_tr h
    obtain ⟨hcs, hns⟩ := step_shape h
    -- connection ends that were OPEN are untouched
    have connKeep : ∀ c e, X.conn.get c = some e → e.state = .opened → X'.conn.get c = some e :=
      fun c e hc ho => conn_open_after hg.2 ht hc ho
    have oldChan : ∀ p c e, X.chan.get (p, c) = some e → e.state = .opened → ChanOK X' Y p c e := by
      intro p c e he ho
      obtain ⟨b, hp, ce, hb, hn, h1, h2, h3, h4, h5, h6, h7, h8⟩ := ha.chan p c e he ho
      exact ⟨b, hp, ce, hb, hn, h1, h2, h3, h4, h5, connKeep _ _ h6 h7, h7, h8⟩
    refine ⟨?_, ?_, ?_⟩
    · -- channels
      intro p c e' he' ho'
      rcases hcs with heq | ⟨key, v, hset, hopen⟩
      · rw [heq] at he'; exact oldChan p c e' he' ho'
      · rw [hset, FMap.get_set] at he'
        split at he'
        · -- the written end: this step is the ChanOpenAck / ChanOpenConfirm for (p, c)
          rename_i hk
          cases he'
          have hb := hopen ho'
          rw [← hk] at hb
          cases hbody : op.body <;> rw [hbody] at hb <;> simp [Body.opensChan] at hb
          · -- ChanOpenAck
            rename_i port chan cpChan cpVersion app
            obtain ⟨hb1, hb2⟩ := hb
            subst hb1; subst hb2; subst hk
            rw [hbody] at h
            obtain ⟨ch, hop, conn, hch, hst, hgc, hco, hv1, hconn, hchan⟩ := chanOpenAck_detail h
            obtain ⟨hh, hcg⟩ := getConn_ok hgc
            have hexp : expectedChan X (.chanOpenAck port chan cpChan cpVersion app) =
                some ((ch.cpPort, cpChan), ⟨.tryopen, ch.ordering, port, chan, [conn.cpConn], cpVersion⟩, conn.cpPrefix == storePrefix) := by
              simp [expectedChan, hch, hgc]
            have hv1' : honestV1 X Y op.body op.env.lc.v1 = true := hv1
            rw [hbody] at hv1'
            obtain ⟨hy, _⟩ := honest_chan hexp hv1'
            have hv : e' = { ch with state := .opened, version := cpVersion, cpChan := cpChan } := by
              have := congrArg (fun m => m.get (port, chan)) hset
              simp only [hchan, FMap.get_set_self] at this
              exact (Option.some.inj this).symm
            subst hv
            exact ⟨_, hop, conn, hy, by simp, rfl, rfl, rfl, rfl, hh, by rw [hconn]; exact hcg, hco, rfl⟩
          · -- ChanOpenConfirm
            rename_i port chan app
            obtain ⟨hb1, hb2⟩ := hb
            subst hb1; subst hb2; subst hk
            rw [hbody] at h
            obtain ⟨ch, hop, conn, hch, hst, hgc, hco, hv1, hconn, hchan⟩ := chanOpenConfirm_detail h
            obtain ⟨hh, hcg⟩ := getConn_ok hgc
            have hexp : expectedChan X (.chanOpenConfirm port chan app) =
                some ((ch.cpPort, ch.cpChan), ⟨.opened, ch.ordering, port, chan, [conn.cpConn], ch.version⟩, conn.cpPrefix == storePrefix) := by
              simp [expectedChan, hch, hgc]
            have hv1' : honestV1 X Y op.body op.env.lc.v1 = true := hv1
            rw [hbody] at hv1'
            obtain ⟨hy, _⟩ := honest_chan hexp hv1'
            have hv : e' = { ch with state := .opened } := by
              have := congrArg (fun m => m.get (port, chan)) hset
              simp only [hchan, FMap.get_set_self] at this
              exact (Option.some.inj this).symm
            subst hv
            exact ⟨_, hop, conn, hy, by simp, rfl, rfl, rfl, rfl, hh, by rw [hconn]; exact hcg, hco, rfl⟩
        · exact oldChan p c e' he' ho'
    · -- connections
      intro c e' he' ho'
      rcases hns with heq | ⟨key, v, hset, hopen⟩
      · rw [heq] at he'; exact ha.conn c e' he' ho'
      · rw [hset, FMap.get_set] at he'
        split at he'
        · rename_i hk
          cases he'
          have hb := hopen ho'
          rw [← hk] at hb
          have hcnone : expectedChan X op.body = none := expectedChan_none_of_conn (by rw [hb]; simp)
          cases hbody : op.body <;> rw [hbody] at hb <;> simp [Body.opensConn] at hb
          · -- ConnOpenAck
            rename_i c0 cpConn version
            subst hb; subst hk
            rw [hbody] at h hcnone
            obtain ⟨conn, hcg, hst, hv1, _, hconn⟩ := connOpenAck_detail h
            have hexp : expectedConn X (.connOpenAck c0 cpConn version) =
                some (cpConn, ⟨.tryopen, conn.cpClient, conn.client, c0, storePrefix, [version], conn.delay⟩, conn.cpPrefix == storePrefix) := by
              simp [expectedConn, hcg]
            have hv1' : honestV1 X Y op.body op.env.lc.v1 = true := hv1
            rw [hbody] at hv1'
            obtain ⟨hy, _⟩ := honest_conn hcnone hexp hv1'
            have hv : e' = { conn with state := .opened, versions := [version], cpConn := cpConn } := by
              have := congrArg (fun m => m.get c0) hset
              simp only [hconn, FMap.get_set_self] at this
              exact (Option.some.inj this).symm
            subst hv
            exact ⟨_, version, hy, by simp, rfl, rfl, rfl, rfl, rfl, rfl⟩
          · -- ConnOpenConfirm
            rename_i c0
            subst hb; subst hk
            rw [hbody] at h hcnone
            obtain ⟨conn, hcg, hst, hv1, _, hconn⟩ := connOpenConfirm_detail h
            have hexp : expectedConn X (.connOpenConfirm c0) =
                some (conn.cpConn, ⟨.opened, conn.cpClient, conn.client, c0, storePrefix, conn.versions, conn.delay⟩, conn.cpPrefix == storePrefix) := by
              simp [expectedConn, hcg]
            have hv1' : honestV1 X Y op.body op.env.lc.v1 = true := hv1
            rw [hbody] at hv1'
            obtain ⟨hy, _⟩ := honest_conn hcnone hexp hv1'
            obtain ⟨ver, hver⟩ := ha.trySingle c0 conn hcg hst
            have hv : e' = { conn with state := .opened } := by
              have := congrArg (fun m => m.get c0) hset
              simp only [hconn, FMap.get_set_self] at this
              exact (Option.some.inj this).symm
            subst hv
            exact ⟨_, ver, hy, by simp, rfl, rfl, rfl, rfl, rfl, hver⟩
        · exact ha.conn c e' he' ho'
    · -- TRYOPEN ends carry a single version
      intro c e' he' hs'
      cases hs : X.conn.get c with
      | none => exact (ht.connNew c e' hs he').2.2.2.2 hs'
      | some e =>
        obtain ⟨e2, h1, h2⟩ := conn_after hg.2 ht hs
        rw [he'] at h1; cases h1
        rcases h2 with h' | ⟨_, h', _⟩ | ⟨_, h'⟩
        · subst h'; exact ha.trySingle c _ hs hs'
        · rw [hs'] at h'; cases h'
        · rw [h'] at hs'; cases hs'

/-! ### the moment an end becomes OPEN / a close is confirmed -/

/-- what the counterparty holds at the moment a channel end of X becomes OPEN -/
def ChanOpenWitness (X Y : ChainState) (body : Body) (p c : Id) (e' : Channel) : Prop :=
  ∃ b hop conn, Y.chan.get (e'.cpPort, e'.cpChan) = some b ∧ b.ordering = e'.ordering ∧ b.cpPort = p ∧ b.cpChan = c ∧
    b.version = e'.version ∧ e'.hops.head? = some hop ∧ X.conn.get hop = some conn ∧ conn.state = .opened ∧
    b.hops = [conn.cpConn] ∧ conn.cpPrefix = storePrefix ∧
    ((∃ cpChan cpVersion app, body = .chanOpenAck p c cpChan cpVersion app ∧ b.state = .tryopen) ∨
     (∃ app, body = .chanOpenConfirm p c app ∧ b.state = .opened))

theorem chan_open_step {X X' Y : ChainState} {op : Op} {out : Out} {p c : Id} {e' : Channel}
    (h : sideStep X Y op = (X', out)) (he' : X'.chan.get (p, c) = some e') (ho' : e'.state = .opened)
    (hnew : ∀ e, X.chan.get (p, c) = some e → e.state ≠ .opened) : ChanOpenWitness X Y op.body p c e' := by
  unfold sideStep at h
  cases hout : out.isOk with
  | false => rw [step_unchanged h hout] at he'; exact absurd ho' (hnew _ he')
  | true =>
    obtain ⟨r, hr⟩ : ∃ r, out = .ok r := by cases out <;> simp [Out.isOk] at hout; exact ⟨_, rfl⟩
    subst hr
    obtain ⟨hcs, -⟩ := step_shape h
    rcases hcs with heq | ⟨key, v, hset, hopen⟩
    · rw [heq] at he'; exact absurd ho' (hnew _ he')
    · rw [hset, FMap.get_set] at he'
      split at he'
      · rename_i hk
        have hve := Option.some.inj he'
        subst hve
        have hb := hopen ho'
        rw [← hk] at hb
        cases hbody : op.body <;> rw [hbody] at hb <;> simp [Body.opensChan] at hb
        · rename_i port chan cpChan cpVersion app
          obtain ⟨hb1, hb2⟩ := hb
          subst hb1; subst hb2; subst hk
          rw [hbody] at h
          obtain ⟨ch, hop, conn, hch, hst, hgc, hco, hv1, hconn, hchan⟩ := chanOpenAck_detail h
          obtain ⟨hh, hcg⟩ := getConn_ok hgc
          have hexp : expectedChan X (.chanOpenAck port chan cpChan cpVersion app) =
              some ((ch.cpPort, cpChan), ⟨.tryopen, ch.ordering, port, chan, [conn.cpConn], cpVersion⟩, conn.cpPrefix == storePrefix) := by
            simp [expectedChan, hch, hgc]
          have hv1' : honestV1 X Y op.body op.env.lc.v1 = true := hv1
          rw [hbody] at hv1'
          obtain ⟨hy, hpfx⟩ := honest_chan hexp hv1'
          have hv : v = { ch with state := .opened, version := cpVersion, cpChan := cpChan } := by
            have := congrArg (fun m => m.get (port, chan)) hset
            simp only [hchan, FMap.get_set_self] at this
            exact (Option.some.inj this).symm
          subst hv
          exact ⟨_, hop, conn, hy, rfl, rfl, rfl, rfl, hh, hcg, hco, rfl, by simpa using hpfx,
            .inl ⟨_, _, _, rfl, rfl⟩⟩
        · rename_i port chan app
          obtain ⟨hb1, hb2⟩ := hb
          subst hb1; subst hb2; subst hk
          rw [hbody] at h
          obtain ⟨ch, hop, conn, hch, hst, hgc, hco, hv1, hconn, hchan⟩ := chanOpenConfirm_detail h
          obtain ⟨hh, hcg⟩ := getConn_ok hgc
          have hexp : expectedChan X (.chanOpenConfirm port chan app) =
              some ((ch.cpPort, ch.cpChan), ⟨.opened, ch.ordering, port, chan, [conn.cpConn], ch.version⟩, conn.cpPrefix == storePrefix) := by
            simp [expectedChan, hch, hgc]
          have hv1' : honestV1 X Y op.body op.env.lc.v1 = true := hv1
          rw [hbody] at hv1'
          obtain ⟨hy, hpfx⟩ := honest_chan hexp hv1'
          have hv : v = { ch with state := .opened } := by
            have := congrArg (fun m => m.get (port, chan)) hset
            simp only [hchan, FMap.get_set_self] at this
            exact (Option.some.inj this).symm
          subst hv
          exact ⟨_, hop, conn, hy, rfl, rfl, rfl, rfl, hh, hcg, hco, rfl, by simpa using hpfx,
            .inr ⟨_, rfl, rfl⟩⟩
      · exact absurd ho' (hnew _ he')

/-- what the counterparty holds at the moment a connection end of X becomes OPEN -/
def ConnOpenWitness (Y : ChainState) (body : Body) (c : Id) (e' : ConnEnd) : Prop :=
  ∃ f, Y.conn.get e'.cpConn = some f ∧ f.client = e'.cpClient ∧ f.cpClient = e'.client ∧ f.cpConn = c ∧
    f.delay = e'.delay ∧ f.versions = e'.versions ∧ f.cpPrefix = storePrefix ∧ e'.cpPrefix = storePrefix ∧
    ((∃ version, body = .connOpenAck c e'.cpConn version ∧ f.state = .tryopen ∧ e'.versions = [version]) ∨
     (body = .connOpenConfirm c ∧ f.state = .opened))

theorem conn_open_step {X X' Y : ChainState} {op : Op} {out : Out} {c : Id} {e' : ConnEnd}
    (h : sideStep X Y op = (X', out)) (he' : X'.conn.get c = some e') (ho' : e'.state = .opened)
    (hnew : ∀ e, X.conn.get c = some e → e.state ≠ .opened) : ConnOpenWitness Y op.body c e' := by
  unfold sideStep at h
  cases hout : out.isOk with
  | false => rw [step_unchanged h hout] at he'; exact absurd ho' (hnew _ he')
  | true =>
    obtain ⟨r, hr⟩ : ∃ r, out = .ok r := by cases out <;> simp [Out.isOk] at hout; exact ⟨_, rfl⟩
    subst hr
    obtain ⟨-, hns⟩ := step_shape h
    rcases hns with heq | ⟨key, v, hset, hopen⟩
    · rw [heq] at he'; exact absurd ho' (hnew _ he')
    · rw [hset, FMap.get_set] at he'
      split at he'
      · rename_i hk
        have hve := Option.some.inj he'
        subst hve
        have hb := hopen ho'
        rw [← hk] at hb
        have hcnone : expectedChan X op.body = none := expectedChan_none_of_conn (by rw [hb]; simp)
        cases hbody : op.body <;> rw [hbody] at hb <;> simp [Body.opensConn] at hb
        · rename_i c0 cpConn version
          subst hb; subst hk
          rw [hbody] at h hcnone
          obtain ⟨conn, hcg, hst, hv1, _, hconn⟩ := connOpenAck_detail h
          have hexp : expectedConn X (.connOpenAck c0 cpConn version) =
              some (cpConn, ⟨.tryopen, conn.cpClient, conn.client, c0, storePrefix, [version], conn.delay⟩, conn.cpPrefix == storePrefix) := by
            simp [expectedConn, hcg]
          have hv1' : honestV1 X Y op.body op.env.lc.v1 = true := hv1
          rw [hbody] at hv1'
          obtain ⟨hy, hpfx⟩ := honest_conn hcnone hexp hv1'
          have hv : v = { conn with state := .opened, versions := [version], cpConn := cpConn } := by
            have := congrArg (fun m => m.get c0) hset
            simp only [hconn, FMap.get_set_self] at this
            exact (Option.some.inj this).symm
          subst hv
          exact ⟨_, hy, rfl, rfl, rfl, rfl, rfl, rfl, by simpa using hpfx, .inl ⟨version, rfl, rfl, rfl⟩⟩
        · rename_i c0
          subst hb; subst hk
          rw [hbody] at h hcnone
          obtain ⟨conn, hcg, hst, hv1, _, hconn⟩ := connOpenConfirm_detail h
          have hexp : expectedConn X (.connOpenConfirm c0) =
              some (conn.cpConn, ⟨.opened, conn.cpClient, conn.client, c0, storePrefix, conn.versions, conn.delay⟩, conn.cpPrefix == storePrefix) := by
            simp [expectedConn, hcg]
          have hv1' : honestV1 X Y op.body op.env.lc.v1 = true := hv1
          rw [hbody] at hv1'
          obtain ⟨hy, hpfx⟩ := honest_conn hcnone hexp hv1'
          have hv : v = { conn with state := .opened } := by
            have := congrArg (fun m => m.get c0) hset
            simp only [hconn, FMap.get_set_self] at this
            exact (Option.some.inj this).symm
          subst hv
          exact ⟨_, hy, rfl, rfl, rfl, rfl, rfl, rfl, by simpa using hpfx, .inr ⟨rfl, rfl⟩⟩
      · exact absurd ho' (hnew _ he')

theorem close_confirm_step {X X' Y : ChainState} {env : Env} {p c : Id} {app : AppV1} {r : String}
    (h : sideStep X Y ⟨env, .chanCloseConfirm p c app⟩ = (X', .ok r)) :
    ∃ ch b hop conn, X.chan.get (p, c) = some ch ∧ Y.chan.get (ch.cpPort, ch.cpChan) = some b ∧ b.state = .closed ∧
      b.ordering = ch.ordering ∧ b.cpPort = p ∧ b.cpChan = c ∧ b.version = ch.version ∧
      ch.hops.head? = some hop ∧ X.conn.get hop = some conn ∧ b.hops = [conn.cpConn] := by
  unfold sideStep at h
  obtain ⟨ch, hop, conn, hch, hgc, hv1⟩ := chanCloseConfirm_detail h
  obtain ⟨hh, hcg⟩ := getConn_ok hgc
  have hexp : expectedChan X (.chanCloseConfirm p c app) =
      some ((ch.cpPort, ch.cpChan), ⟨.closed, ch.ordering, p, c, [conn.cpConn], ch.version⟩, conn.cpPrefix == storePrefix) := by
    simp [expectedChan, hch, hgc]
  have hv1' : honestV1 X Y (.chanCloseConfirm p c app) env.lc.v1 = true := hv1
  obtain ⟨hy, _⟩ := honest_chan hexp hv1'
  exact ⟨ch, _, hop, conn, hch, hy, rfl, rfl, rfl, rfl, rfl, hh, hcg, rfl⟩

/-! ### the world invariant -/

structure PInv (w : World) : Prop where
  ga : Good w.a
  gb : Good w.b
  ab : Agree w.a w.b
  ba : Agree w.b w.a

theorem Agree.init : Agree Chain.init Chain.init := by
  refine ⟨?_, ?_, ?_⟩
  · intro p c e he; simp [Chain.init] at he
  · intro c e he ho
    simp only [Chain.init, FMap.get_set, FMap.get_empty] at he
    split at he
    · cases he
      exact ⟨_, defaultIBCVersion, by simp [Chain.init, FMap.get_set], by simp, rfl, rfl, by simp_all, rfl, rfl, rfl⟩
    · cases he
  · intro c e he hs
    simp only [Chain.init, FMap.get_set, FMap.get_empty] at he
    split at he
    · cases he; cases hs
    · cases he

theorem PInv.init : PInv World.init := ⟨⟨Inv.init, Inv3.init⟩, ⟨Inv.init, Inv3.init⟩, Agree.init, Agree.init⟩

theorem PInv.pstep {w : World} (h : PInv w) (side : Bool) (op : Op) : PInv (pstep w side op) := by
  unfold Chain.pstep
  cases side with
  | true =>
    simp only [if_true]
    have ht : Tr w.b (sideStep w.b w.a op).1 := step_tr (out := (sideStep w.b w.a op).2) rfl
    exact ⟨h.ga, h.gb.step ht, h.ab.other_step h.gb ht, h.ba.me_step (out := (sideStep w.b w.a op).2) h.gb rfl⟩
  | false =>
    simp only [Bool.false_eq_true, if_false]
    have ht : Tr w.a (sideStep w.a w.b op).1 := step_tr (out := (sideStep w.a w.b op).2) rfl
    exact ⟨h.ga.step ht, h.gb, h.ab.me_step (out := (sideStep w.a w.b op).2) h.ga rfl, h.ba.other_step h.ga ht⟩

theorem pinv_prun {w : World} (h : PInv w) (ops : List (Bool × Op)) : PInv (prun w ops) := by
  induction ops generalizing w with
  | nil => exact h
  | cons x ops ih =>
    obtain ⟨side, op⟩ := x
    unfold prun
    exact ih (h.pstep side op)

theorem pinv_prun_init (ops : List (Bool × Op)) : PInv (prun World.init ops) := pinv_prun PInv.init ops

end IbcVerif.Chain

/-! small concrete two-chain states for the non-vacuity examples -/
namespace IbcVerif.Chain.Ex
def connX : ConnEnd := ⟨.opened, "99-verif-0", "99-verif-0", "connection-0", "696263", [defaultIBCVersion], 0⟩
/-- chain with an INIT channel end over an OPEN connection -/
def wInit : ChainState := { Chain.init with
  chan := FMap.empty.set ("mock", "channel-0") ⟨.init, .unordered, "mock", "", ["connection-0"], "v"⟩,
  conn := Chain.init.conn.set "connection-0" connX, nextChanSeq := 1, nextConnSeq := 1, nextClientSeq := 1 }
/-- its counterparty holding the matching TRYOPEN end -/
def wTry : ChainState := { Chain.init with
  chan := FMap.empty.set ("mock", "channel-0") ⟨.tryopen, .unordered, "mock", "channel-0", ["connection-0"], "v"⟩,
  conn := Chain.init.conn.set "connection-0" connX, nextChanSeq := 1, nextConnSeq := 1, nextClientSeq := 1 }
def ackBody : Body := .chanOpenAck "mock" "channel-0" "channel-0" "v" ⟨1, false, .ok, "aa", none⟩
end IbcVerif.Chain.Ex
