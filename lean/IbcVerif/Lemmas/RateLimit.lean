/-
  Lemmas for the rate-limiting model (C41): finite-map algebra, the per-path ("local") form of every
  keeper handler, the coupling invariant between the keeper state and the reference account, and
  its preservation by every op; lifted to all histories by induction over the op list.
-/
import IbcVerif.Model.RateLimitSpec
namespace IbcVerif.Apps
namespace KV
variable {κ ν : Type} [DecidableEq κ]

theorem get_set (m : List (κ × ν)) (k k' : κ) (v : ν) :
    get (set m k v) k' = if k = k' then some v else get m k' := by
  induction m with
  | nil => simp [set, get]
  | cons h t ih => grind [set, get]

theorem get_erase (m : List (κ × ν)) (k k' : κ) :
    get (erase m k) k' = if k = k' then none else get m k' := by
  induction m with
  | nil => simp [erase, get]
  | cons h t ih => grind [erase, get]

theorem get_mapVals (f : κ → ν → ν) (m : List (κ × ν)) (k : κ) :
    get (mapVals f m) k = (get m k).map (f k) := by
  induction m with
  | nil => simp [mapVals, get]
  | cons h t ih =>
    obtain ⟨hk, hv⟩ := h
    by_cases h1 : hk = k
    · subst h1; simp [mapVals, get]
    · simp [mapVals, get, h1, ih]

end KV

namespace SetL
variable {α : Type} [DecidableEq α]

theorem mem_insert (l : List α) (a b : α) : b ∈ insert l a ↔ b = a ∨ b ∈ l := by
  unfold insert
  by_cases h : a ∈ l
  · simp [h]; intro hb; subst hb; exact h
  · simp [h]

theorem mem_erase (l : List α) (a b : α) : b ∈ erase l a ↔ b ∈ l ∧ b ≠ a := by
  simp [erase]

end SetL
end IbcVerif.Apps

namespace IbcVerif.RateLimit
open IbcVerif.Apps

@[simp] theorem sumAmt_nil : sumAmt [] = 0 := rfl
@[simp] theorem sumAmt_cons (e : Nat × Int) (l) : sumAmt (e :: l) = e.2 + sumAmt l := by simp [sumAmt]
@[simp] theorem sumAmt_append (a b) : sumAmt (a ++ b) = sumAmt a + sumAmt b := by simp [sumAmt]

theorem sumAmt_filter_split (l : List (Nat × Int)) (seq : Nat) :
    sumAmt (l.filter (fun e => e.1 ≠ seq)) + sumAmt (l.filter (fun e => e.1 = seq)) = sumAmt l := by
  induction l with
  | nil => simp
  | cons h t ih =>
    simp only [ne_eq] at ih
    simp only [List.filter_cons]
    by_cases hh : h.1 = seq
    · simp only [hh, ne_eq, not_true_eq_false, decide_false, decide_true, if_true, sumAmt_cons]
      simp only [Bool.false_eq_true, if_false]
      omega
    · simp only [hh, ne_eq, not_false_eq_true, decide_false, decide_true, if_true, sumAmt_cons]
      simp only [Bool.false_eq_true, if_false]
      omega

theorem sumAmt_nonneg (l : List (Nat × Int)) (h : ∀ e ∈ l, 0 < e.2) : 0 ≤ sumAmt l := by
  induction l with
  | nil => simp
  | cons a t ih =>
    have h1 := h a (by simp)
    have h2 := ih (fun e he => h e (by simp [he]))
    simp; omega

theorem filter_eq_of_nodup (l : List (Nat × Int)) (seq : Nat) (a : Int)
    (hn : (l.map (·.1)).Nodup) (hm : (seq, a) ∈ l) :
    l.filter (fun e => e.1 = seq) = [(seq, a)] := by
  induction l with
  | nil => cases hm
  | cons h t ih =>
    simp only [List.map_cons, List.nodup_cons] at hn
    rcases List.mem_cons.mp hm with rfl | hm'
    · have : t.filter (fun e => e.1 = seq) = [] := by
        rw [List.filter_eq_nil_iff]
        intro e he hc
        simp only [decide_eq_true_eq] at hc
        apply hn.1
        rw [← hc]
        exact List.mem_map.mpr ⟨e, he, rfl⟩
      simp [List.filter_cons, this]
    · have hne : h.1 ≠ seq := by
        intro hc
        apply hn.1
        rw [hc]
        exact List.mem_map.mpr ⟨(seq, a), hm', rfl⟩
      simp [List.filter_cons, hne, ih hn.2 hm']

theorem filter_ne_of_not_mem (l : List (Nat × Int)) (seq : Nat) (h : ∀ a, (seq, a) ∉ l) :
    l.filter (fun e => e.1 ≠ seq) = l ∧ l.filter (fun e => e.1 = seq) = [] := by
  constructor
  · rw [List.filter_eq_self]
    intro e he
    simp only [ne_eq, decide_not, Bool.not_eq_eq_eq_not, Bool.not_true, decide_eq_false_iff_not]
    intro hc
    exact h e.2 (by rw [← hc]; exact he)
  · rw [List.filter_eq_nil_iff]
    intro e he hc
    simp only [decide_eq_true_eq] at hc
    exact h e.2 (by rw [← hc]; exact he)

/-- coupling of one direction: recorded flow and marker set vs. the reference lists -/
structure SideInv (evs : List (Nat × Int)) (flow : Int) (pend : List Nat) (sd : Side) : Prop where
  flow_eq : flow = sumAmt sd.opn + sumAmt sd.settled
  pend_iff : ∀ seq, seq ∈ pend ↔ ∃ amt, (seq, amt) ∈ sd.opn
  nodup : (sd.opn.map (·.1)).Nodup
  logged : ∀ e ∈ sd.opn, e ∈ evs
  pos_opn : ∀ e ∈ sd.opn, 0 < e.2
  pos_settled : ∀ e ∈ sd.settled, 0 < e.2

theorem SideInv.empty (evs) : SideInv evs 0 [] Side.empty := by
  constructor <;> simp [Side.empty]

theorem SideInv.mono {evs evs' flow pend sd} (h : SideInv evs flow pend sd) (hs : ∀ e ∈ evs, e ∈ evs') :
    SideInv evs' flow pend sd :=
  { h with logged := fun e he => hs e (h.logged e he) }

theorem SideInv.flow_accounting {evs flow pend sd} (h : SideInv evs flow pend sd) :
    flow = sd.accepted - sd.undoneSum ∧ 0 ≤ flow := by
  refine ⟨by rw [h.flow_eq]; simp only [Side.accepted, Side.undoneSum]; omega, ?_⟩
  rw [h.flow_eq]
  have := sumAmt_nonneg _ h.pos_opn
  have := sumAmt_nonneg _ h.pos_settled
  omega

theorem SideInv.accept {evs flow pend sd} (h : SideInv evs flow pend sd) (seq : Nat) (amt : Int)
    (hpos : 0 < amt) (hfresh : ∀ a, (seq, a) ∉ evs) :
    SideInv ((seq, amt) :: evs) (flow + amt) (SetL.insert pend seq) (sd.accept seq amt) := by
  refine ⟨?_, ?_, ?_, ?_, ?_, ?_⟩
  · simp [Side.accept, h.flow_eq]; omega
  · intro s
    rw [SetL.mem_insert, h.pend_iff]
    simp only [Side.accept, List.mem_cons, Prod.mk.injEq]
    constructor
    · rintro (rfl | ⟨a, ha⟩)
      · exact ⟨amt, Or.inl ⟨rfl, rfl⟩⟩
      · exact ⟨a, Or.inr ha⟩
    · rintro ⟨a, ⟨h1, _⟩ | ha⟩
      · exact Or.inl h1
      · exact Or.inr ⟨a, ha⟩
  · simp only [Side.accept, List.map_cons, List.nodup_cons]
    refine ⟨?_, h.nodup⟩
    intro hc
    obtain ⟨e, he, h1⟩ := List.mem_map.mp hc
    apply hfresh e.2
    have := h.logged e he
    rw [← h1]; exact this
  · intro e he
    simp only [Side.accept, List.mem_cons] at he
    rcases he with rfl | he
    · simp
    · exact List.mem_cons_of_mem _ (h.logged e he)
  · intro e he
    simp only [Side.accept, List.mem_cons] at he
    rcases he with rfl | he
    · exact hpos
    · exact h.pos_opn e he
  · exact h.pos_settled

theorem SideInv.settle {evs flow pend sd} (h : SideInv evs flow pend sd) (seq : Nat) :
    SideInv evs flow (SetL.erase pend seq) (sd.settle seq) := by
  refine ⟨?_, ?_, ?_, ?_, ?_, ?_⟩
  · simp only [Side.settle, sumAmt_append]
    have := sumAmt_filter_split sd.opn seq
    rw [h.flow_eq]; omega
  · intro s
    rw [SetL.mem_erase, h.pend_iff]
    simp only [Side.settle, List.mem_filter, ne_eq, decide_not, Bool.not_eq_eq_eq_not, Bool.not_true,
      decide_eq_false_iff_not]
    constructor
    · rintro ⟨⟨a, ha⟩, hne⟩
      exact ⟨a, ha, hne⟩
    · rintro ⟨a, ha, hne⟩
      exact ⟨⟨a, ha⟩, hne⟩
  · simp only [Side.settle]
    exact (h.nodup.sublist (List.Sublist.map _ (List.filter_sublist)))
  · intro e he
    simp only [Side.settle] at he
    exact h.logged e ((List.mem_filter.mp he).1)
  · intro e he
    simp only [Side.settle] at he
    exact h.pos_opn e ((List.mem_filter.mp he).1)
  · intro e he
    simp only [Side.settle, List.mem_append] at he
    rcases he with he | he
    · exact h.pos_opn e ((List.mem_filter.mp he).1)
    · exact h.pos_settled e he

/-- `UndoSendPacket` / `UndoReceivePacket` on one direction, as the keeper computes it -/
def undoFlow (flow : Int) (pend : List Nat) (seq : Nat) (amt : Int) : Int :=
  if seq ∈ pend then clamp0 (flow - amt) else flow
def undoPend (pend : List Nat) (seq : Nat) : List Nat :=
  if seq ∈ pend then SetL.erase pend seq else pend

theorem SideInv.undo {evs flow pend sd} (h : SideInv evs flow pend sd) (seq : Nat) (amt : Int)
    (hmatch : ∀ a, (seq, a) ∈ evs → a = amt) :
    SideInv evs (undoFlow flow pend seq amt) (undoPend pend seq) (sd.undo seq) := by
  by_cases hp : seq ∈ pend
  · obtain ⟨a, ha⟩ := (h.pend_iff seq).mp hp
    have haeq : a = amt := hmatch a (h.logged _ ha)
    subst haeq
    have hf := filter_eq_of_nodup sd.opn seq a h.nodup ha
    have hsplit := sumAmt_filter_split sd.opn seq
    rw [hf] at hsplit
    simp only [sumAmt_cons, sumAmt_nil] at hsplit
    have hpos1 : ∀ e ∈ sd.opn.filter (fun e => e.1 ≠ seq), 0 < e.2 :=
      fun e he => h.pos_opn e ((List.mem_filter.mp he).1)
    have hnn := sumAmt_nonneg _ hpos1
    have hnn2 := sumAmt_nonneg _ h.pos_settled
    refine ⟨?_, ?_, ?_, ?_, ?_, ?_⟩
    · simp only [undoFlow, hp, if_true, Side.undo, clamp0]
      rw [h.flow_eq]
      split <;> omega
    · intro s
      simp only [undoPend, hp, if_true]
      rw [SetL.mem_erase, h.pend_iff]
      simp only [Side.undo, List.mem_filter, ne_eq, decide_not, Bool.not_eq_eq_eq_not, Bool.not_true,
        decide_eq_false_iff_not]
      constructor
      · rintro ⟨⟨b, hb⟩, hne⟩
        exact ⟨b, hb, hne⟩
      · rintro ⟨b, hb, hne⟩
        exact ⟨⟨b, hb⟩, hne⟩
    · simp only [Side.undo]
      exact (h.nodup.sublist (List.Sublist.map _ (List.filter_sublist)))
    · intro e he
      simp only [Side.undo] at he
      exact h.logged e ((List.mem_filter.mp he).1)
    · intro e he
      simp only [Side.undo] at he
      exact h.pos_opn e ((List.mem_filter.mp he).1)
    · exact h.pos_settled
  · have hno : ∀ a, (seq, a) ∉ sd.opn := fun a ha => hp ((h.pend_iff seq).mpr ⟨a, ha⟩)
    obtain ⟨h1, h2⟩ := filter_ne_of_not_mem sd.opn seq hno
    have : sd.undo seq = sd := by
      cases sd; simp only [Side.undo] at *; rw [h1, h2]; simp
    rw [this]
    simpa [undoFlow, undoPend, hp] using h

end IbcVerif.RateLimit
namespace IbcVerif.RateLimit
open IbcVerif.Apps

/-! ### observations of the global state -/

theorem path_setPath (s : State) (k k' : Path) (ps : PathState) :
    (s.setPath k ps).path k' = if k = k' then ps else s.path k' := by
  simp only [State.path, State.setPath, KV.get_set]
  split <;> simp

@[simp] theorem path_setPath_same (s : State) (k : Path) (ps : PathState) : (s.setPath k ps).path k = ps := by
  simp [path_setPath]

theorem path_setPath_ne (s : State) {k k' : Path} (ps : PathState) (h : k ≠ k') :
    (s.setPath k ps).path k' = s.path k' := by
  simp [path_setPath, h]

@[simp] theorem setPath_blacklist (s : State) (k ps) : (s.setPath k ps).blacklist = s.blacklist := rfl
@[simp] theorem setPath_whitelist (s : State) (k ps) : (s.setPath k ps).whitelist = s.whitelist := rfl

/-! ### the per-path ("local") form of every handler -/

/-- `SendRateLimitedPacketWithSequence` seen from the path it touches -/
def sendL (ps : PathState) (bl wl : Bool) (seq : Nat) (amt : Int) : PathState × Res :=
  if bl then (ps, .blacklisted) else
  match ps.limit with
  | none => (ps, .passed)
  | some l =>
    if wl then (ps, .passed) else
    match l.updateFlow .send amt with
    | none => (ps, .quota)
    | some l' => (⟨some l', SetL.insert ps.pendSend seq, ps.pendRecv⟩, .counted)

theorem sendPacket_local (s : State) (p : Pkt) :
    (∀ k, (sendPacket s p).1.path k =
      if p.path = k then (sendL (s.path p.path) (p.denom ∈ s.blacklist) ((p.sender, p.receiver) ∈ s.whitelist) p.seq p.amt).1
      else s.path k) ∧
    (sendPacket s p).2 = (sendL (s.path p.path) (p.denom ∈ s.blacklist) ((p.sender, p.receiver) ∈ s.whitelist) p.seq p.amt).2 := by
  unfold sendPacket checkAndUpdate sendL
  by_cases hb : p.denom ∈ s.blacklist
  · simp [hb]
  · simp only [hb, if_false, decide_false, Bool.false_eq_true]
    cases hl : (s.path p.path).limit with
    | none => simp
    | some l =>
      by_cases hw : (p.sender, p.receiver) ∈ s.whitelist
      · simp [hw]
      · simp only [hw, if_false, decide_false, Bool.false_eq_true]
        cases hu : l.updateFlow .send p.amt with
        | none => simp
        | some l' =>
          simp only [path_setPath_same]
          refine ⟨fun k => ?_, trivial⟩
          by_cases hk : p.path = k
          · subst hk; simp
          · simp [hk, path_setPath_ne]

end IbcVerif.RateLimit
namespace IbcVerif.RateLimit
open IbcVerif.Apps

/-- the receive transaction (`recvPacket`) seen from the path it touches -/
def recvL (ps : PathState) (bl wl : Bool) (seq : Nat) (amt : Int) (app : AppAck) : PathState × Res × AppAck :=
  if bl then (ps, .blacklisted, .error) else
  match ps.limit with
  | none => (if app = .success then { ps with pendRecv := SetL.erase ps.pendRecv seq } else ps, .passed, app)
  | some l =>
    if wl then (if app = .success then { ps with pendRecv := SetL.erase ps.pendRecv seq } else ps, .passed, app) else
    match l.updateFlow .recv amt with
    | none => (ps, .quota, .error)
    | some l' =>
      (match app with
        | .error => ps
        | .success => ⟨some l', ps.pendSend, SetL.erase (SetL.insert ps.pendRecv seq) seq⟩
        | .async => ⟨some l', ps.pendSend, SetL.insert ps.pendRecv seq⟩,
       .counted, app)

theorem recvPacket_local (s : State) (p : Pkt) (app : AppAck) :
    (∀ k, (recvPacket s p app).1.path k =
      if p.path = k then (recvL (s.path p.path) (p.denom ∈ s.blacklist) ((p.sender, p.receiver) ∈ s.whitelist) p.seq p.amt app).1
      else s.path k) ∧
    (recvPacket s p app).2 = (recvL (s.path p.path) (p.denom ∈ s.blacklist) ((p.sender, p.receiver) ∈ s.whitelist) p.seq p.amt app).2 := by
  unfold recvPacket mwRecv checkAndUpdate recvL
  by_cases hb : p.denom ∈ s.blacklist
  · simp [hb]
  · simp only [hb, if_false, decide_false, Bool.false_eq_true]
    cases hl : (s.path p.path).limit with
    | none =>
      cases app <;> refine ⟨fun k => ?_, by simp⟩ <;> by_cases hk : p.path = k <;>
        first
        | (subst hk; simp_all; done)
        | (simp [hk, path_setPath_ne]; done)
    | some l =>
      by_cases hw : (p.sender, p.receiver) ∈ s.whitelist
      · simp only [hw, if_true, decide_true]
        cases app <;> refine ⟨fun k => ?_, by simp⟩ <;> by_cases hk : p.path = k <;>
        first
        | (subst hk; simp_all; done)
        | (simp [hk, path_setPath_ne]; done)
      · simp only [hw, if_false, decide_false, Bool.false_eq_true]
        cases hu : l.updateFlow .recv p.amt with
        | none => simp
        | some l' =>
          cases app <;> refine ⟨fun k => ?_, by simp⟩ <;> by_cases hk : p.path = k <;>
        first
        | (subst hk; simp_all; done)
        | (simp [hk, path_setPath_ne]; done)

end IbcVerif.RateLimit
namespace IbcVerif.RateLimit
open IbcVerif.Apps

def undoSendL (ps : PathState) (seq : Nat) (amt : Int) : PathState :=
  match ps.limit with
  | none => { ps with pendSend := SetL.erase ps.pendSend seq }
  | some l =>
    if seq ∈ ps.pendSend then
      ⟨some { l with flow := { l.flow with outflow := clamp0 (l.flow.outflow - amt) } }, SetL.erase ps.pendSend seq, ps.pendRecv⟩
    else ps

def undoRecvL (ps : PathState) (seq : Nat) (amt : Int) : PathState :=
  match ps.limit with
  | none => { ps with pendRecv := SetL.erase ps.pendRecv seq }
  | some l =>
    if seq ∈ ps.pendRecv then
      ⟨some { l with flow := { l.flow with inflow := clamp0 (l.flow.inflow - amt) } }, ps.pendSend, SetL.erase ps.pendRecv seq⟩
    else ps

def ackL (ps : PathState) (seq : Nat) (amt : Int) (ok : Bool) : PathState :=
  if ok then { ps with pendSend := SetL.erase ps.pendSend seq } else undoSendL ps seq amt

def writeAckL (ps : PathState) (seq : Nat) (amt : Int) (ok : Bool) : PathState :=
  if ok then { ps with pendRecv := SetL.erase ps.pendRecv seq } else undoRecvL ps seq amt

theorem undoSend_local (s : State) (p : Pkt) (k : Path) :
    (undoSend s p).path k = if p.path = k then undoSendL (s.path p.path) p.seq p.amt else s.path k := by
  unfold undoSend undoSendL
  cases hl : (s.path p.path).limit with
  | none =>
    by_cases hk : p.path = k
    · subst hk; simp [hl]
    · simp [hl, hk, path_setPath_ne]
  | some l =>
    by_cases hm : p.seq ∈ (s.path p.path).pendSend
    · by_cases hk : p.path = k
      · subst hk; simp [hl, hm]
      · simp [hl, hk, hm, path_setPath_ne]
    · by_cases hk : p.path = k
      · subst hk; simp [hl, hm]
      · simp [hl, hk, hm]

theorem undoRecv_local (s : State) (p : Pkt) (k : Path) :
    (undoRecv s p).path k = if p.path = k then undoRecvL (s.path p.path) p.seq p.amt else s.path k := by
  unfold undoRecv undoRecvL
  cases hl : (s.path p.path).limit with
  | none =>
    by_cases hk : p.path = k
    · subst hk; simp [hl]
    · simp [hl, hk, path_setPath_ne]
  | some l =>
    by_cases hm : p.seq ∈ (s.path p.path).pendRecv
    · by_cases hk : p.path = k
      · subst hk; simp [hl, hm]
      · simp [hl, hk, hm, path_setPath_ne]
    · by_cases hk : p.path = k
      · subst hk; simp [hl, hm]
      · simp [hl, hk, hm]

theorem ackPacket_local (s : State) (p : Pkt) (ok : Bool) (k : Path) :
    (ackPacket s p ok).path k = if p.path = k then ackL (s.path p.path) p.seq p.amt ok else s.path k := by
  unfold ackPacket ackL
  cases ok
  · simpa using undoSend_local s p k
  · by_cases hk : p.path = k
    · subst hk; simp
    · simp [hk, path_setPath_ne]

theorem writeAck_local (s : State) (p : Pkt) (ok : Bool) (k : Path) :
    (writeAck s p ok).path k = if p.path = k then writeAckL (s.path p.path) p.seq p.amt ok else s.path k := by
  unfold writeAck writeAckL
  cases ok
  · simpa using undoRecv_local s p k
  · by_cases hk : p.path = k
    · subst hk; simp
    · simp [hk, path_setPath_ne]

def addL (ps : PathState) (q : Quota) (supply : Int) (chanExists : Bool) : PathState × Res :=
  if supply = 0 then (ps, .zeroValue)
  else if ps.limit.isSome then (ps, .exists_)
  else if !chanExists then (ps, .noChannel)
  else ({ ps with limit := some ⟨q, ⟨0, 0, supply⟩⟩ }, .done)

def updateL (ps : PathState) (q : Quota) (supply : Int) : PathState × Res :=
  if ps.limit.isNone then (ps, .notFound) else (⟨some ⟨q, ⟨0, 0, supply⟩⟩, [], []⟩, .done)

def removeL (ps : PathState) : PathState × Res :=
  if ps.limit.isNone then (ps, .notFound) else (PathState.empty, .done)

def resetL (ps : PathState) (supply : Int) : PathState × Res :=
  if ps.limit.isNone then (ps, .notFound) else (ps.reset supply, .done)

theorem addLimit_local (s : State) (k0 : Path) (q : Quota) (v : Int) (e : Bool) :
    (∀ k, (addLimit s k0 q v e).1.path k = if k0 = k then (addL (s.path k0) q v e).1 else s.path k) ∧
    (addLimit s k0 q v e).2 = (addL (s.path k0) q v e).2 := by
  unfold addLimit addL
  by_cases h1 : v = 0
  · simp [h1]
  · by_cases h2 : (s.path k0).limit.isSome
    · simp [h1, h2]
    · cases e
      · simp [h1, h2]
      · refine ⟨fun k => ?_, by simp [h1, h2]⟩
        by_cases hk : k0 = k
        · subst hk; simp [h1, h2]
        · simp [h1, h2, hk, path_setPath_ne]

theorem updateLimit_local (s : State) (k0 : Path) (q : Quota) (v : Int) :
    (∀ k, (updateLimit s k0 q v).1.path k = if k0 = k then (updateL (s.path k0) q v).1 else s.path k) ∧
    (updateLimit s k0 q v).2 = (updateL (s.path k0) q v).2 := by
  unfold updateLimit updateL
  by_cases h2 : (s.path k0).limit.isNone
  · simp [h2]
  · refine ⟨fun k => ?_, by simp [h2]⟩
    by_cases hk : k0 = k
    · subst hk; simp [h2]
    · simp [h2, hk, path_setPath_ne]

theorem removeLimit_local (s : State) (k0 : Path) :
    (∀ k, (removeLimit s k0).1.path k = if k0 = k then (removeL (s.path k0)).1 else s.path k) ∧
    (removeLimit s k0).2 = (removeL (s.path k0)).2 := by
  unfold removeLimit removeL
  by_cases h2 : (s.path k0).limit.isNone
  · simp [h2]
  · refine ⟨fun k => ?_, by simp [h2]⟩
    by_cases hk : k0 = k
    · subst hk; simp [h2]
    · simp [h2, hk, path_setPath_ne]

theorem resetLimit_local (s : State) (k0 : Path) (v : Int) :
    (∀ k, (resetLimit s k0 v).1.path k = if k0 = k then (resetL (s.path k0) v).1 else s.path k) ∧
    (resetLimit s k0 v).2 = (resetL (s.path k0) v).2 := by
  unfold resetLimit resetL
  by_cases h2 : (s.path k0).limit.isNone
  · simp [h2]
  · refine ⟨fun k => ?_, by simp [h2]⟩
    by_cases hk : k0 = k
    · subst hk; simp [h2]
    · simp [h2, hk, path_setPath_ne]

theorem beginBlock_local (s : State) (t : Int) (sup : List (String × Int)) (k : Path) :
    (beginBlock s t sup).1.path k =
      if (beginBlock s t sup).2 ∧ (s.path k).dueAt (s.epochNum + 1) then (s.path k).reset (supplyOf sup k.1) else s.path k := by
  unfold beginBlock
  by_cases h1 : s.epochDur = 0
  · simp [h1]
  · by_cases h2 : t > s.epochStart + s.epochDur
    · simp only [h1, h2, if_true, if_false, true_and]
      simp only [State.path, KV.get_mapVals]
      have key : ∀ x : Option PathState,
          (Option.map (fun ps : PathState => if ps.dueAt (s.epochNum + 1) = true then ps.reset (supplyOf sup k.1) else ps) x).getD
            PathState.empty =
          if (x.getD PathState.empty).dueAt (s.epochNum + 1) = true then (x.getD PathState.empty).reset (supplyOf sup k.1)
          else x.getD PathState.empty := by
        intro x
        cases x with
        | none => simp [PathState.dueAt, PathState.empty]
        | some ps => simp
      exact key _
    · simp [h1, h2]

end IbcVerif.RateLimit
namespace IbcVerif.RateLimit
open IbcVerif.Apps

theorem SetL.erase_not_mem {α : Type} [DecidableEq α] (l : List α) (a : α) (h : a ∉ l) : SetL.erase l a = l := by
  unfold SetL.erase
  rw [List.filter_eq_self]
  intro b hb
  simp only [ne_eq, decide_not, Bool.not_eq_eq_eq_not, Bool.not_true, decide_eq_false_iff_not]
  intro hc; subst hc; exact h hb

theorem SideInv.accept' {evs evs' flow pend sd} (h : SideInv evs flow pend sd) (seq : Nat) (amt : Int)
    (hpos : 0 < amt) (hfresh : ∀ a, (seq, a) ∉ evs) (hsub : ∀ e ∈ evs, e ∈ evs') (hin : (seq, amt) ∈ evs') :
    SideInv evs' (flow + amt) (SetL.insert pend seq) (sd.accept seq amt) := by
  refine (h.accept seq amt hpos hfresh).mono ?_
  intro e he
  rcases List.mem_cons.mp he with rfl | he
  · exact hin
  · exact hsub e he

theorem SideInv.not_pend_of_fresh {evs flow pend sd} (h : SideInv evs flow pend sd) (seq : Nat)
    (hfresh : ∀ a, (seq, a) ∉ evs) : seq ∉ pend := by
  intro hp
  obtain ⟨a, ha⟩ := (h.pend_iff seq).mp hp
  exact hfresh a (h.logged _ ha)

/-- coupling of one path: keeper state vs. reference window -/
def PInv (eo ei : List (Nat × Int)) (ps : PathState) (w : Option Window) : Prop :=
  match ps.limit, w with
  | none, none => ps.pendSend = [] ∧ ps.pendRecv = []
  | some l, some w =>
    SideInv eo l.flow.outflow ps.pendSend w.out ∧ SideInv ei l.flow.inflow ps.pendRecv w.inn ∧
      l.flow.chanValue = w.startValue
  | _, _ => False

theorem PInv.mono {eo ei eo' ei' ps w} (h : PInv eo ei ps w) (ho : ∀ e ∈ eo, e ∈ eo') (hi : ∀ e ∈ ei, e ∈ ei') :
    PInv eo' ei' ps w := by
  unfold PInv at *
  split at h
  · exact h
  · exact ⟨h.1.mono ho, h.2.1.mono hi, h.2.2⟩
  · exact h

theorem PInv.none_iff {eo ei ps w} (h : PInv eo ei ps w) : ps.limit = none ↔ w = none := by
  unfold PInv at h
  split at h <;> simp_all

theorem updateFlow_send (l : Limit) (amt : Int) (l' : Limit) (h : l.updateFlow .send amt = some l') :
    l' = { l with flow := { l.flow with outflow := l.flow.outflow + amt } } := by
  simp only [Limit.updateFlow, Flow.addOutflow] at h
  split at h <;> simp at h
  exact h.symm

theorem updateFlow_recv (l : Limit) (amt : Int) (l' : Limit) (h : l.updateFlow .recv amt = some l') :
    l' = { l with flow := { l.flow with inflow := l.flow.inflow + amt } } := by
  simp only [Limit.updateFlow, Flow.addInflow] at h
  split at h <;> simp at h
  exact h.symm

theorem PInv.send {eo ei eo' ps w} (h : PInv eo ei ps w) (bl wl : Bool) (seq : Nat) (amt : Int)
    (hpos : 0 < amt) (hfresh : ∀ a, (seq, a) ∉ eo) (hsub : ∀ e ∈ eo, e ∈ eo') (hin : (seq, amt) ∈ eo') :
    PInv eo' ei (sendL ps bl wl seq amt).1
      (if (sendL ps bl wl seq amt).2 = .counted then w.map (fun w => { w with out := w.out.accept seq amt }) else w) := by
  have hm := h.mono hsub (fun e he => he)
  unfold sendL
  cases bl
  · simp only [Bool.false_eq_true, if_false]
    cases hl : ps.limit with
    | none => simpa [hl] using hm
    | some l =>
      simp only []
      cases wl
      · simp only [Bool.false_eq_true, if_false]
        cases hu : l.updateFlow .send amt with
        | none => simpa [hl, hu] using hm
        | some l' =>
          have hl' := updateFlow_send l amt l' hu
          subst hl'
          unfold PInv at h ⊢
          rw [hl] at h
          cases w with
          | none => simp at h
          | some w0 =>
            simp only [Option.map_some, if_true] at h ⊢
            exact ⟨h.1.accept' seq amt hpos hfresh hsub hin, h.2.1, h.2.2⟩
      · simpa [hl] using hm
  · simpa using hm

theorem PInv.recv {eo ei ei' ps w} (h : PInv eo ei ps w) (bl wl : Bool) (seq : Nat) (amt : Int) (app : AppAck)
    (hpos : app ≠ .error → 0 < amt) (hfresh : ∀ a, (seq, a) ∉ ei) (hsub : ∀ e ∈ ei, e ∈ ei') (hin : (seq, amt) ∈ ei') :
    PInv eo ei' (recvL ps bl wl seq amt app).1
      (if (recvL ps bl wl seq amt app).2.1 = .counted ∧ (recvL ps bl wl seq amt app).2.2 ≠ .error then
        w.map (fun w => { w with inn := if (recvL ps bl wl seq amt app).2.2 = .success
                                          then (w.inn.accept seq amt).settle seq else w.inn.accept seq amt })
       else w) := by
  have hm := h.mono (fun e he => he) hsub
  -- erasing the marker of a fresh sequence changes nothing
  have herase : ({ ps with pendRecv := SetL.erase ps.pendRecv seq } : PathState) = ps := by
    have : seq ∉ ps.pendRecv := by
      unfold PInv at h
      split at h
      · rw [h.2]; simp
      · exact h.2.1.not_pend_of_fresh seq hfresh
      · exact h.elim
    rw [SetL.erase_not_mem _ _ this]
  unfold recvL
  cases bl
  · simp only [Bool.false_eq_true, if_false]
    cases hl : ps.limit with
    | none =>
      simp only []
      have : (⟨none, ps.pendSend, SetL.erase ps.pendRecv seq⟩ : PathState) = ps := by
        rw [← hl]; exact herase
      cases app <;> simp [this] <;> exact hm
    | some l =>
      simp only []
      cases wl
      · simp only [Bool.false_eq_true, if_false]
        cases hu : l.updateFlow .recv amt with
        | none => simpa [hl, hu] using hm
        | some l' =>
          have hl' := updateFlow_recv l amt l' hu
          subst hl'
          unfold PInv at h
          rw [hl] at h
          cases w with
          | none => simp at h
          | some w0 =>
            simp only at h
            cases app with
            | error => simpa [hl] using hm
            | success =>
              have hp := hpos (by simp)
              unfold PInv
              simp only [Option.map_some, if_true, ne_eq, reduceCtorEq, not_false_eq_true, and_self]
              exact ⟨h.1, (h.2.1.accept' seq amt hp hfresh hsub hin).settle seq, h.2.2⟩
            | async =>
              have hp := hpos (by simp)
              unfold PInv
              simp only [Option.map_some, if_true, if_false, ne_eq, reduceCtorEq, not_false_eq_true, and_self]
              exact ⟨h.1, h.2.1.accept' seq amt hp hfresh hsub hin, h.2.2⟩
      · simp only [if_true]
        have : (⟨some l, ps.pendSend, SetL.erase ps.pendRecv seq⟩ : PathState) = ps := by
          rw [← hl]; exact herase
        cases app <;> simp [this] <;> exact hm
  · simpa using hm

end IbcVerif.RateLimit
namespace IbcVerif.RateLimit
open IbcVerif.Apps

theorem PInv.undoSend {eo ei ps w} (h : PInv eo ei ps w) (seq : Nat) (amt : Int)
    (hmatch : ∀ a, (seq, a) ∈ eo → a = amt) :
    PInv eo ei (undoSendL ps seq amt) (w.map fun w => { w with out := w.out.undo seq }) := by
  unfold undoSendL
  unfold PInv at h
  cases hl : ps.limit with
  | none =>
    rw [hl] at h
    cases w with
    | none =>
      simp only at h
      unfold PInv
      simp [hl, h.1, h.2, SetL.erase]
    | some w0 => simp at h
  | some l =>
    rw [hl] at h
    cases w with
    | none => simp at h
    | some w0 =>
      simp only at h
      have hu := h.1.undo seq amt hmatch
      unfold PInv
      by_cases hm : seq ∈ ps.pendSend
      · simp only [hm, if_true, Option.map_some]
        simp only [undoFlow, undoPend, hm, if_true] at hu
        exact ⟨hu, h.2.1, h.2.2⟩
      · simp only [hm, if_false, Option.map_some, hl]
        simp only [undoFlow, undoPend, hm, if_false] at hu
        exact ⟨hu, h.2.1, h.2.2⟩

theorem PInv.undoRecv {eo ei ps w} (h : PInv eo ei ps w) (seq : Nat) (amt : Int)
    (hmatch : ∀ a, (seq, a) ∈ ei → a = amt) :
    PInv eo ei (undoRecvL ps seq amt) (w.map fun w => { w with inn := w.inn.undo seq }) := by
  unfold undoRecvL
  unfold PInv at h
  cases hl : ps.limit with
  | none =>
    rw [hl] at h
    cases w with
    | none =>
      simp only at h
      unfold PInv
      simp [hl, h.1, h.2, SetL.erase]
    | some w0 => simp at h
  | some l =>
    rw [hl] at h
    cases w with
    | none => simp at h
    | some w0 =>
      simp only at h
      have hu := h.2.1.undo seq amt hmatch
      unfold PInv
      by_cases hm : seq ∈ ps.pendRecv
      · simp only [hm, if_true, Option.map_some]
        simp only [undoFlow, undoPend, hm, if_true] at hu
        exact ⟨h.1, hu, h.2.2⟩
      · simp only [hm, if_false, Option.map_some, hl]
        simp only [undoFlow, undoPend, hm, if_false] at hu
        exact ⟨h.1, hu, h.2.2⟩

theorem PInv.settleSend {eo ei ps w} (h : PInv eo ei ps w) (seq : Nat) :
    PInv eo ei { ps with pendSend := SetL.erase ps.pendSend seq } (w.map fun w => { w with out := w.out.settle seq }) := by
  unfold PInv at h ⊢
  cases hl : ps.limit with
  | none =>
    rw [hl] at h
    cases w with
    | none => simp only at h; simp [h.1, h.2, SetL.erase]
    | some w0 => simp at h
  | some l =>
    rw [hl] at h
    cases w with
    | none => simp at h
    | some w0 =>
      simp only [Option.map_some] at h ⊢
      exact ⟨h.1.settle seq, h.2.1, h.2.2⟩

theorem PInv.settleRecv {eo ei ps w} (h : PInv eo ei ps w) (seq : Nat) :
    PInv eo ei { ps with pendRecv := SetL.erase ps.pendRecv seq } (w.map fun w => { w with inn := w.inn.settle seq }) := by
  unfold PInv at h ⊢
  cases hl : ps.limit with
  | none =>
    rw [hl] at h
    cases w with
    | none => simp only at h; simp [h.1, h.2, SetL.erase]
    | some w0 => simp at h
  | some l =>
    rw [hl] at h
    cases w with
    | none => simp at h
    | some w0 =>
      simp only [Option.map_some] at h ⊢
      exact ⟨h.1, h.2.1.settle seq, h.2.2⟩

theorem PInv.ack {eo ei ps w} (h : PInv eo ei ps w) (seq : Nat) (amt : Int) (ok : Bool)
    (hmatch : ∀ a, (seq, a) ∈ eo → a = amt) :
    PInv eo ei (ackL ps seq amt ok)
      (w.map fun w => { w with out := if ok then w.out.settle seq else w.out.undo seq }) := by
  unfold ackL
  cases ok
  · simpa using h.undoSend seq amt hmatch
  · simpa using h.settleSend seq

theorem PInv.writeAck {eo ei ps w} (h : PInv eo ei ps w) (seq : Nat) (amt : Int) (ok : Bool)
    (hmatch : ∀ a, (seq, a) ∈ ei → a = amt) :
    PInv eo ei (writeAckL ps seq amt ok)
      (w.map fun w => { w with inn := if ok then w.inn.settle seq else w.inn.undo seq }) := by
  unfold writeAckL
  cases ok
  · simpa using h.undoRecv seq amt hmatch
  · simpa using h.settleRecv seq

theorem PInv.fresh (eo ei : List (Nat × Int)) (q : Quota) (v : Int) :
    PInv eo ei ⟨some ⟨q, ⟨0, 0, v⟩⟩, [], []⟩ (some (Window.fresh v)) := by
  unfold PInv
  exact ⟨SideInv.empty eo, SideInv.empty ei, rfl⟩

theorem PInv.add {eo ei ps w} (h : PInv eo ei ps w) (q : Quota) (v : Int) (e : Bool) :
    PInv eo ei (addL ps q v e).1 (if (addL ps q v e).2 = .done then some (Window.fresh v) else w) := by
  unfold addL
  by_cases h1 : v = 0
  · simpa [h1] using h
  · by_cases h2 : ps.limit.isSome
    · simpa [h1, h2] using h
    · cases e
      · simpa [h1, h2] using h
      · simp only [h1, h2, if_false, Bool.not_true, Bool.false_eq_true, if_true]
        have hn : ps.limit = none := by simpa using h2
        unfold PInv at h
        rw [hn] at h
        cases w with
        | some w0 => simp at h
        | none =>
          simp only at h
          rw [h.1, h.2]
          exact PInv.fresh eo ei q v

theorem PInv.update {eo ei ps w} (h : PInv eo ei ps w) (q : Quota) (v : Int) :
    PInv eo ei (updateL ps q v).1 (if (updateL ps q v).2 = .done then some (Window.fresh v) else w) := by
  unfold updateL
  by_cases h2 : ps.limit.isNone
  · simpa [h2] using h
  · simpa [h2] using PInv.fresh eo ei q v

theorem PInv.remove {eo ei ps w} (h : PInv eo ei ps w) :
    PInv eo ei (removeL ps).1 (if (removeL ps).2 = .done then none else w) := by
  unfold removeL
  by_cases h2 : ps.limit.isNone
  · simpa [h2] using h
  · simp [h2, PInv, PathState.empty]

theorem PInv.resetPath {eo ei ps w} (h : PInv eo ei ps w) (hs : ps.limit.isSome) (v : Int) :
    PInv eo ei (ps.reset v) (some (Window.fresh v)) := by
  unfold PathState.reset
  cases hl : ps.limit with
  | none => simp [hl] at hs
  | some l => exact PInv.fresh eo ei l.quota v

theorem PInv.reset {eo ei ps w} (h : PInv eo ei ps w) (v : Int) :
    PInv eo ei (resetL ps v).1 (if (resetL ps v).2 = .done then some (Window.fresh v) else w) := by
  unfold resetL
  by_cases h2 : ps.limit.isNone
  · simpa [h2] using h
  · have hs : ps.limit.isSome := by
      cases hl : ps.limit <;> simp_all
    simpa [h2] using h.resetPath hs v

theorem dueAt_isSome (ps : PathState) (n : Nat) (h : ps.dueAt n = true) : ps.limit.isSome := by
  unfold PathState.dueAt at h
  cases hl : ps.limit <;> simp_all

end IbcVerif.RateLimit
namespace IbcVerif.RateLimit
open IbcVerif.Apps

theorem get_modify (r : Ref) (k k' : Path) (f : Window → Window) :
    KV.get (r.modify k f) k' = if k = k' then (KV.get r k).map f else KV.get r k' := by
  unfold Ref.modify
  cases hg : KV.get r k with
  | none =>
    by_cases hk : k = k'
    · subst hk; simp [hg]
    · simp [hk]
  | some w =>
    simp only [KV.get_set]
    by_cases hk : k = k' <;> simp [hk]

theorem sendEvs_append (k : Path) (a b : List Op) : sendEvs k (a ++ b) = sendEvs k a ++ sendEvs k b := by
  induction a with
  | nil => rfl
  | cons h t ih =>
    cases h <;> simp only [List.cons_append, sendEvs, ih]
    split <;> simp

theorem recvEvs_append (k : Path) (a b : List Op) : recvEvs k (a ++ b) = recvEvs k a ++ recvEvs k b := by
  induction a with
  | nil => rfl
  | cons h t ih =>
    cases h <;> simp only [List.cons_append, recvEvs, ih]
    split <;> simp

theorem Ref.step_recv (r : Ref) (s : State) (p : Pkt) (app : AppAck) :
    Ref.step r s (.recv p app) =
      if (recvPacket s p app).2.1 = .counted ∧ (recvPacket s p app).2.2 ≠ .error then
        r.modify p.path fun w =>
          { w with inn := if (recvPacket s p app).2.2 = .success then (w.inn.accept p.seq p.amt).settle p.seq
                          else w.inn.accept p.seq p.amt }
      else r := by
  simp only [Ref.step]

/-- the global coupling invariant: every path's keeper state matches its reference window -/
def GInv (ops : List Op) (s : State) (r : Ref) : Prop :=
  ∀ k, PInv (sendEvs k ops) (recvEvs k ops) (s.path k) (KV.get r k)

theorem GInv.step {pre : List Op} {s : State} {r : Ref} (h : GInv pre s r) (op : Op) (hok : OpOK pre op) :
    GInv (pre ++ [op]) (step s op).1 (Ref.step r s op) := by
  intro k
  rw [sendEvs_append, recvEvs_append]
  cases op with
  | send p =>
    obtain ⟨hpath, hres⟩ := sendPacket_local s p
    simp only [RateLimit.step, Ref.step, hpath k, hres, sendEvs, recvEvs, List.append_nil]
    by_cases hk : p.path = k
    · subst hk
      simp only [if_true]
      have := (h p.path).send (decide (p.denom ∈ s.blacklist)) (decide ((p.sender, p.receiver) ∈ s.whitelist)) p.seq p.amt
        hok.1 hok.2 (eo' := sendEvs p.path pre ++ [(p.seq, p.amt)]) (fun e he => by simp [he]) (by simp)
      split at this
      · rename_i hc; simpa [hc, get_modify] using this
      · rename_i hc; simpa [hc] using this
    · simp only [hk, if_false, List.append_nil]
      have hg : KV.get (if (sendL (s.path p.path) (decide (p.denom ∈ s.blacklist))
          (decide ((p.sender, p.receiver) ∈ s.whitelist)) p.seq p.amt).2 = Res.counted
          then r.modify p.path fun w => { w with out := w.out.accept p.seq p.amt } else r) k = KV.get r k := by
        split <;> simp [get_modify, hk]
      rw [hg]; exact h k
  | recv p app =>
    obtain ⟨hpath, hres⟩ := recvPacket_local s p app
    rw [Ref.step_recv]
    simp only [RateLimit.step, hpath k, hres, sendEvs, recvEvs, List.append_nil]
    by_cases hk : p.path = k
    · subst hk
      simp only [if_true]
      have := (h p.path).recv (decide (p.denom ∈ s.blacklist)) (decide ((p.sender, p.receiver) ∈ s.whitelist)) p.seq p.amt app
        hok.1 hok.2 (ei' := recvEvs p.path pre ++ [(p.seq, p.amt)]) (fun e he => by simp [he]) (by simp)
      split at this
      · rename_i hc; simpa [hc, get_modify] using this
      · rename_i hc; simpa [hc] using this
    · simp only [hk, if_false, List.append_nil]
      have hg : ∀ (c : Prop) [Decidable c] (f : Window → Window), KV.get (if c then r.modify p.path f else r) k = KV.get r k := by
        intro c _ f; split <;> simp [get_modify, hk]
      rw [hg]; exact h k
  | ack p ok =>
    simp only [RateLimit.step, Ref.step, ackPacket_local, sendEvs, recvEvs, List.append_nil, get_modify]
    by_cases hk : p.path = k
    · subst hk; simpa using (h p.path).ack p.seq p.amt ok hok
    · simpa [hk] using h k
  | timeout p =>
    simp only [RateLimit.step, Ref.step, timeoutPacket, undoSend_local, sendEvs, recvEvs, List.append_nil, get_modify]
    by_cases hk : p.path = k
    · subst hk; simpa using (h p.path).undoSend p.seq p.amt hok
    · simpa [hk] using h k
  | writeAck p ok =>
    simp only [RateLimit.step, Ref.step, writeAck_local, sendEvs, recvEvs, List.append_nil, get_modify]
    by_cases hk : p.path = k
    · subst hk; simpa using (h p.path).writeAck p.seq p.amt ok hok
    · simpa [hk] using h k
  | beginBlock t sup =>
    simp only [RateLimit.step, Ref.step, beginBlock_local, sendEvs, recvEvs, List.append_nil]
    by_cases hb : (beginBlock s t sup).2 = true
    · simp only [hb, if_true, true_and, KV.get_mapVals]
      by_cases hd : (s.path k).dueAt (s.epochNum + 1) = true
      · simp only [hd, if_true]
        have hs := dueAt_isSome _ _ hd
        have hw : (KV.get r k).isSome := by
          have := (h k).none_iff
          cases hg : KV.get r k with
          | none => simp [hg] at this; simp [this] at hs
          | some w => simp
        obtain ⟨w, hw⟩ := Option.isSome_iff_exists.mp hw
        simpa [hw] using (h k).resetPath hs (supplyOf sup k.1)
      · simp only [hd, if_false]
        have : Option.map (fun w : Window => w) (KV.get r k) = KV.get r k := by simp
        simpa [hd] using h k
    · simp only [hb, if_false, false_and]
      simpa using h k
  | add k0 q v e =>
    obtain ⟨hpath, hres⟩ := addLimit_local s k0 q v e
    simp only [RateLimit.step, Ref.step, hpath k, hres, sendEvs, recvEvs, List.append_nil]
    by_cases hk : k0 = k
    · subst hk
      have := (h k0).add q v e
      split at this
      · rename_i hc; simpa [hc, KV.get_set] using this
      · rename_i hc; simpa [hc] using this
    · have hg : KV.get (if (addL (s.path k0) q v e).2 = Res.done then KV.set r k0 (Window.fresh v) else r) k = KV.get r k := by
        split <;> simp [KV.get_set, hk]
      simpa [hk, hg] using h k
  | update k0 q v =>
    obtain ⟨hpath, hres⟩ := updateLimit_local s k0 q v
    simp only [RateLimit.step, Ref.step, hpath k, hres, sendEvs, recvEvs, List.append_nil]
    by_cases hk : k0 = k
    · subst hk
      have := (h k0).update q v
      split at this
      · rename_i hc; simpa [hc, KV.get_set] using this
      · rename_i hc; simpa [hc] using this
    · have hg : KV.get (if (updateL (s.path k0) q v).2 = Res.done then KV.set r k0 (Window.fresh v) else r) k = KV.get r k := by
        split <;> simp [KV.get_set, hk]
      simpa [hk, hg] using h k
  | remove k0 =>
    obtain ⟨hpath, hres⟩ := removeLimit_local s k0
    simp only [RateLimit.step, Ref.step, hpath k, hres, sendEvs, recvEvs, List.append_nil]
    by_cases hk : k0 = k
    · subst hk
      have := (h k0).remove
      split at this
      · rename_i hc; simpa [hc, KV.get_erase] using this
      · rename_i hc; simpa [hc] using this
    · have hg : KV.get (if (removeL (s.path k0)).2 = Res.done then KV.erase r k0 else r) k = KV.get r k := by
        split <;> simp [KV.get_erase, hk]
      simpa [hk, hg] using h k
  | reset k0 v =>
    obtain ⟨hpath, hres⟩ := resetLimit_local s k0 v
    simp only [RateLimit.step, Ref.step, hpath k, hres, sendEvs, recvEvs, List.append_nil]
    by_cases hk : k0 = k
    · subst hk
      have := (h k0).reset v
      split at this
      · rename_i hc; simpa [hc, KV.get_set] using this
      · rename_i hc; simpa [hc] using this
    · have hg : KV.get (if (resetL (s.path k0) v).2 = Res.done then KV.set r k0 (Window.fresh v) else r) k = KV.get r k := by
        split <;> simp [KV.get_set, hk]
      simpa [hk, hg] using h k
  | setBlacklist d on =>
    simpa [RateLimit.step, Ref.step, sendEvs, recvEvs, State.path] using h k
  | setWhitelist a b on =>
    simpa [RateLimit.step, Ref.step, sendEvs, recvEvs, State.path] using h k

end IbcVerif.RateLimit
namespace IbcVerif.RateLimit
open IbcVerif.Apps

theorem runBoth_cons (s : State) (r : Ref) (op : Op) (t : List Op) :
    runBoth s r (op :: t) = runBoth (step s op).1 (Ref.step r s op) t := rfl

theorem runBoth_fst (s : State) (r : Ref) (ops : List Op) : (runBoth s r ops).1 = run s ops := by
  induction ops generalizing s r with
  | nil => rfl
  | cons op t ih => rw [runBoth_cons, ih]; rfl

theorem GInv.init (n : Nat) (st d : Int) : GInv [] (State.init n st d) [] := by
  intro k
  simp [PInv, State.init, State.path, KV.get, PathState.empty]

theorem GInv.run_from (ops : List Op) : ∀ (pre : List Op) (s : State) (r : Ref), GInv pre s r →
    (∀ pre' op post, ops = pre' ++ op :: post → OpOK (pre ++ pre') op) →
    GInv (pre ++ ops) (runBoth s r ops).1 (runBoth s r ops).2 := by
  induction ops with
  | nil => intro pre s r h _; simpa [runBoth] using h
  | cons op t ih =>
    intro pre s r h hok
    have h1 := h.step op (by simpa using hok [] op t rfl)
    have h2 := ih (pre ++ [op]) _ _ h1 (by
      intro pre' op' post heq
      have := hok (op :: pre') op' post (by rw [heq]; rfl)
      simpa using this)
    rw [runBoth_cons]
    simpa using h2

/-- the coupling invariant holds after every well-formed history -/
theorem GInv.run (n : Nat) (st d : Int) (ops : List Op) (hwf : WF ops) :
    GInv ops (runBoth (State.init n st d) [] ops).1 (runBoth (State.init n st d) [] ops).2 := by
  have := GInv.run_from ops [] _ _ (GInv.init n st d) (by simpa [WF] using hwf)
  simpa using this

/-! ### a decidable check of `WF` for concrete histories (non-vacuity examples) -/

def opOKb (pre : List Op) : Op → Bool
  | .send p => decide (0 < p.amt) && (sendEvs p.path pre).all (fun e => e.1 != p.seq)
  | .recv p app => (app == .error || decide (0 < p.amt)) && (recvEvs p.path pre).all (fun e => e.1 != p.seq)
  | .ack p _ => (sendEvs p.path pre).all (fun e => e.1 != p.seq || e.2 == p.amt)
  | .timeout p => (sendEvs p.path pre).all (fun e => e.1 != p.seq || e.2 == p.amt)
  | .writeAck p _ => (recvEvs p.path pre).all (fun e => e.1 != p.seq || e.2 == p.amt)
  | _ => true

theorem opOKb_sound (pre : List Op) (op : Op) (h : opOKb pre op = true) : OpOK pre op := by
  cases op <;> simp only [opOKb, OpOK, Bool.and_eq_true, Bool.or_eq_true, decide_eq_true_eq, List.all_eq_true,
    bne_iff_ne, ne_eq, beq_iff_eq] at h ⊢
  · exact ⟨h.1, fun a ha => h.2 _ ha rfl⟩
  · refine ⟨fun hne => ?_, fun a ha => h.2 _ ha rfl⟩
    rcases h.1 with h1 | h1
    · exact absurd h1 hne
    · exact h1
  · intro a ha
    rcases h _ ha with h1 | h1
    · exact absurd rfl h1
    · exact h1
  · intro a ha
    rcases h _ ha with h1 | h1
    · exact absurd rfl h1
    · exact h1
  · intro a ha
    rcases h _ ha with h1 | h1
    · exact absurd rfl h1
    · exact h1

def wfb (pre : List Op) : List Op → Bool
  | [] => true
  | op :: t => opOKb pre op && wfb (pre ++ [op]) t

theorem wfb_sound (ops : List Op) : ∀ pre, wfb pre ops = true →
    ∀ pre' op post, ops = pre' ++ op :: post → OpOK (pre ++ pre') op := by
  induction ops with
  | nil => intro pre _ pre' op post h; simp at h
  | cons o t ih =>
    intro pre h pre' op post heq
    simp only [wfb, Bool.and_eq_true] at h
    cases pre' with
    | nil =>
      simp only [List.nil_append, List.cons.injEq] at heq
      rw [← heq.1]; simpa using opOKb_sound _ _ h.1
    | cons o' pre'' =>
      simp only [List.cons_append, List.cons.injEq] at heq
      have := ih (pre ++ [o]) h.2 pre'' op post heq.2
      rw [← heq.1]; simpa using this

theorem WF_of_wfb (ops : List Op) (h : wfb [] ops = true) : WF ops := by
  intro pre op post heq
  simpa using wfb_sound ops [] h pre op post heq

end IbcVerif.RateLimit
