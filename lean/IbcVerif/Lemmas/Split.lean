import IbcVerif.Model.Split
namespace IbcVerif
variable {α : Type} [DecidableEq α]

theorem splitOn_ne_nil (sep : α) (s : List α) : splitOn sep s ≠ [] := by
  induction s with
  | nil => simp [splitOn]
  | cons c cs ih =>
    simp only [splitOn]
    split
    · simp
    · split <;> simp

theorem splitOn_no_sep (sep : α) (s : List α) (h : sep ∉ s) : splitOn sep s = [s] := by
  induction s with
  | nil => rfl
  | cons c cs ih =>
    have hc : c ≠ sep := fun e => h (e ▸ List.mem_cons_self)
    have hcs : sep ∉ cs := fun m => h (List.mem_cons_of_mem _ m)
    simp [splitOn, hc, ih hcs]

theorem splitOn_append (sep : α) (a b : List α) (h : sep ∉ a) :
    splitOn sep (a ++ sep :: b) = a :: splitOn sep b := by
  induction a with
  | nil => simp [splitOn]
  | cons c cs ih =>
    have hc : c ≠ sep := fun e => h (e ▸ List.mem_cons_self)
    have hcs : sep ∉ cs := fun m => h (List.mem_cons_of_mem _ m)
    simp [splitOn, hc, ih hcs]

/-- splitting a join of separator-free segments returns the segments -/
theorem splitOn_joinOn (sep : α) : ∀ (segs : List (List α)), segs ≠ [] → (∀ s ∈ segs, sep ∉ s) →
    splitOn sep (joinOn sep segs) = segs
  | [], h, _ => absurd rfl h
  | [p], _, hs => by
      simp only [joinOn]
      exact splitOn_no_sep sep p (hs p List.mem_cons_self)
  | p :: q :: ps, _, hs => by
      simp only [joinOn]
      rw [splitOn_append sep p _ (hs p List.mem_cons_self)]
      rw [splitOn_joinOn sep (q :: ps) (by simp) (fun s m => hs s (List.mem_cons_of_mem _ m))]

/-- hence joining is injective on non-empty lists of separator-free segments -/
theorem joinOn_inj (sep : α) (a b : List (List α)) (ha : a ≠ []) (hb : b ≠ [])
    (hsa : ∀ s ∈ a, sep ∉ s) (hsb : ∀ s ∈ b, sep ∉ s) (h : joinOn sep a = joinOn sep b) : a = b := by
  have := congrArg (splitOn sep) h
  rwa [splitOn_joinOn sep a ha hsa, splitOn_joinOn sep b hb hsb] at this

theorem joinOn_splitOn (sep : α) (s : List α) : joinOn sep (splitOn sep s) = s := by
  induction s with
  | nil => rfl
  | cons c cs ih =>
    simp only [splitOn]
    split
    · rename_i h
      cases hs : splitOn sep cs with
      | nil => exact absurd hs (splitOn_ne_nil sep cs)
      | cons p ps =>
        rw [hs] at ih
        simp [joinOn, ih, h]
    · cases hs : splitOn sep cs with
      | nil => exact absurd hs (splitOn_ne_nil sep cs)
      | cons p ps =>
        rw [hs] at ih
        cases ps with
        | nil => simp [joinOn] at ih ⊢; exact ih
        | cons q qs => simp [joinOn] at ih ⊢; exact ih

theorem mem_joinOn (sep : α) (x : α) : ∀ (segs : List (List α)), x ∈ joinOn sep segs → x = sep ∨ ∃ s ∈ segs, x ∈ s
  | [], h => by simp [joinOn] at h
  | [p], h => by simp only [joinOn] at h; exact Or.inr ⟨p, List.mem_cons_self, h⟩
  | p :: q :: ps, h => by
      simp only [joinOn, List.mem_append, List.mem_cons] at h
      rcases h with h | h | h
      · exact Or.inr ⟨p, List.mem_cons_self, h⟩
      · exact Or.inl h
      · rcases mem_joinOn sep x (q :: ps) h with r | ⟨s, hs, hx⟩
        · exact Or.inl r
        · exact Or.inr ⟨s, List.mem_cons_of_mem _ hs, hx⟩

end IbcVerif
