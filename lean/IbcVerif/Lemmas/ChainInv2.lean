/-
  Second layer of history invariants (ordered delivery, send sequences, acknowledgement /
  asynchronous-packet lifecycle), again derived from `Tr` only.
-/
import IbcVerif.Lemmas.ChainInvStep
namespace IbcVerif.Chain
open FMap

/-- sequences delivered to the application on the v1 channel end `(p, c)`, in log order -/
def recvSeqs (p c : Id) : List Event → List Nat
  | [] => []
  | .recv1 p' c' q :: l => if p' = p ∧ c' = c then q :: recvSeqs p c l else recvSeqs p c l
  | _ :: l => recvSeqs p c l

/-- sequences whose acknowledgement was processed by the sending application on `(p, c)` -/
def ackSeqs (p c : Id) : List Event → List Nat
  | [] => []
  | .ack1 p' c' q _ :: l => if p' = p ∧ c' = c then q :: ackSeqs p c l else ackSeqs p c l
  | _ :: l => ackSeqs p c l

/-- sequences returned by successful sends (v1 and v2) on identifier `id` -/
def sendSeqs (id : Id) : List Event → List Nat
  | [] => []
  | .send1 _ c q :: l => if c = id then q :: sendSeqs id l else sendSeqs id l
  | .send2 c q _ :: l => if c = id then q :: sendSeqs id l else sendSeqs id l
  | _ :: l => sendSeqs id l

theorem recvSeqs_append (p c : Id) (l1 l2 : List Event) : recvSeqs p c (l1 ++ l2) = recvSeqs p c l1 ++ recvSeqs p c l2 := by
  induction l1 with
  | nil => rfl
  | cons e l ih => cases e <;> simp [recvSeqs, ih]; split <;> simp

theorem ackSeqs_append (p c : Id) (l1 l2 : List Event) : ackSeqs p c (l1 ++ l2) = ackSeqs p c l1 ++ ackSeqs p c l2 := by
  induction l1 with
  | nil => rfl
  | cons e l ih => cases e <;> simp [ackSeqs, ih]; split <;> simp

theorem sendSeqs_append (id : Id) (l1 l2 : List Event) : sendSeqs id (l1 ++ l2) = sendSeqs id l1 ++ sendSeqs id l2 := by
  induction l1 with
  | nil => rfl
  | cons e l ih => cases e <;> simp [sendSeqs, ih] <;> split <;> simp

theorem recvSeqs_nil_of_no_recv (p c : Id) (l : List Event) (h : ∀ q, Event.recv1 p c q ∉ l) : recvSeqs p c l = [] := by
  induction l with
  | nil => rfl
  | cons e l ih =>
    have ih' := ih (fun q hq => h q (List.mem_cons_of_mem _ hq))
    cases e <;> simp [recvSeqs, ih']
    rename_i p' c' q
    intro hp hc; subst hp; subst hc
    exact absurd List.mem_cons_self (h q)

theorem ackSeqs_nil_of_no_ack (p c : Id) (l : List Event) (h : ∀ q a, Event.ack1 p c q a ∉ l) : ackSeqs p c l = [] := by
  induction l with
  | nil => rfl
  | cons e l ih =>
    have ih' := ih (fun q a hq => h q a (List.mem_cons_of_mem _ hq))
    cases e <;> simp [ackSeqs, ih']
    rename_i p' c' q a
    intro hp hc; subst hp; subst hc
    exact absurd List.mem_cons_self (h q a)

theorem sendSeqs_nil_of_no_send (id : Id) (l : List Event) (h : ∀ e ∈ l, ∀ q, e.isSend id q = false) : sendSeqs id l = [] := by
  induction l with
  | nil => rfl
  | cons e l ih =>
    have ih' := ih (fun e' he' => h e' (List.mem_cons_of_mem _ he'))
    have he := h e List.mem_cons_self
    cases e <;> simp [sendSeqs, ih']
    · rename_i c q n
      intro hc; subst hc
      have := he q; simp [Event.isSend] at this
    · rename_i p c q
      intro hc; subst hc
      have := he q; simp [Event.isSend] at this

theorem range'_succ_right (n : Nat) (h : 1 ≤ n) : List.range' 1 (n - 1) ++ [n] = List.range' 1 (n + 1 - 1) := by
  have : n + 1 - 1 = (n - 1) + 1 := by omega
  rw [this, List.range'_concat]
  congr 2; omega

structure Inv2 (s : ChainState) : Prop where
  -- C02
  ordRecv : ∀ p c ch, s.chan.get (p, c) = some ch → ch.ordering = .ordered →
      ∃ n, s.nextRecv.get (p, c) = some n ∧ 1 ≤ n ∧ recvSeqs p c s.log = List.range' 1 (n - 1)
  ordAck : ∀ p c ch, s.chan.get (p, c) = some ch → ch.ordering = .ordered →
      ∃ n, s.nextAck.get (p, c) = some n ∧ 1 ≤ n ∧ ackSeqs p c s.log = List.range' 1 (n - 1)
  -- C08
  nsShape : ∀ id, s.nextSend.get id ≠ none → (∃ p, s.chan.get (p, id) ≠ none) ∨ s.cpV2.get id ≠ none
  sendEv : ∀ id q e, e ∈ s.log → e.isSend id q = true → s.nextSend.get id ≠ none
  sendSeq : ∀ id n, s.nextSend.get id = some n → 1 ≤ n ∧ sendSeqs id s.log = List.range' 1 (n - 1)
  -- C11
  ackRc : ∀ k, s.ackV2.get k ≠ none → s.receiptV2.get k ≠ none
  asyncKey : ∀ k p, s.asyncV2.get k = some p → (p.dst, p.seq) = k
  asyncRc : ∀ k, s.asyncV2.get k ≠ none → s.receiptV2.get k ≠ none ∧ s.ackV2.get k = none

theorem Inv2.init : Inv2 Chain.init := by
  constructor <;> intros <;> simp_all [Chain.init, FMap.get_set, FMap.get_empty]

theorem Inv2.step {s s' : ChainState} (hi : Inv s) (h2 : Inv2 s) (ht : Tr s s') : Inv2 s' := by
  have hi' := hi.step ht
  refine { ordRecv := ?_, ordAck := ?_, nsShape := ?_, sendEv := ?_, sendSeq := ?_, ackRc := ?_, asyncKey := ?_, asyncRc := ?_ }
  · -- ordRecv
    intro p c ch' hc' ho'
    cases hs : s.chan.get (p, c) with
    | none =>
      obtain ⟨_, _, _, hnr, _, _⟩ := ht.chanNew p c ch' hs hc'
      refine ⟨1, hnr, Nat.le_refl 1, ?_⟩
      apply recvSeqs_nil_of_no_recv
      intro q hq
      obtain ⟨ch1, h1, _⟩ := hi'.recv1 p c q hq
      -- the delivery would predate the channel: the log of s has no such event, and a new one needs the channel in s
      rcases log_cases ht hq with hold | ⟨_, hev⟩
      · obtain ⟨ch0, h0, _⟩ := hi.recv1 p c q hold
        rw [hs] at h0; cases h0
      · obtain ⟨ch0, h0, _⟩ := hev
        rw [hs] at h0; cases h0
    | some ch =>
      obtain ⟨ch2, hc2, ho2⟩ := chan_persists hi ht hs
      rw [hc'] at hc2; cases hc2
      have ho : ch.ordering = .ordered := by rw [← ho2]; exact ho'
      obtain ⟨n, hn, h1, hseq⟩ := h2.ordRecv p c ch hs ho
      rcases ht.nextRecv p c n hn with h | ⟨h, hl⟩ | h
      · refine ⟨n, h, h1, ?_⟩
        rcases ht.log with hl | ⟨e, hl, hev⟩
        · rw [hl]; exact hseq
        · rw [hl, recvSeqs_append, hseq]
          have : recvSeqs p c [e] = [] := by
            cases e <;> simp [recvSeqs]
            rename_i p' c' q
            intro hp hcq; subst hp; subst hcq
            obtain ⟨ch0, h0, _, _, hcase⟩ := hev
            rw [hs] at h0; cases h0
            rcases hcase with ⟨hu, _⟩ | ⟨_, hq, hq'⟩
            · rw [ho] at hu; cases hu
            · rw [hn] at hq; cases hq
              rw [h] at hq'; cases hq'
          rw [this]; simp
      · refine ⟨n + 1, h, by omega, ?_⟩
        rw [hl, recvSeqs_append, hseq]
        simp [recvSeqs]
        exact range'_succ_right n h1
      · exact absurd h (chan_fresh hi (by rw [hs]; simp))
  · -- ordAck
    intro p c ch' hc' ho'
    cases hs : s.chan.get (p, c) with
    | none =>
      obtain ⟨_, _, _, _, hna, _⟩ := ht.chanNew p c ch' hs hc'
      refine ⟨1, hna, Nat.le_refl 1, ?_⟩
      apply ackSeqs_nil_of_no_ack
      intro q a hq
      rcases log_cases ht hq with hold | ⟨_, hev⟩
      · have := (hi.term1 p c q _ hold (by simp [Event.isTerm1])).2.2
        exact this hs
      · obtain ⟨ch0, h0, _⟩ := hev
        rw [hs] at h0; cases h0
    | some ch =>
      obtain ⟨ch2, hc2, ho2⟩ := chan_persists hi ht hs
      rw [hc'] at hc2; cases hc2
      have ho : ch.ordering = .ordered := by rw [← ho2]; exact ho'
      obtain ⟨n, hn, h1, hseq⟩ := h2.ordAck p c ch hs ho
      rcases ht.nextAck p c n hn with h | ⟨h, a, hl⟩ | h
      · refine ⟨n, h, h1, ?_⟩
        rcases ht.log with hl | ⟨e, hl, hev⟩
        · rw [hl]; exact hseq
        · rw [hl, ackSeqs_append, hseq]
          have : ackSeqs p c [e] = [] := by
            cases e <;> simp [ackSeqs]
            rename_i p' c' q a
            intro hp hcq; subst hp; subst hcq
            obtain ⟨ch0, h0, _, _, _, _, hord⟩ := hev
            rw [hs] at h0; cases h0
            obtain ⟨hq, hq'⟩ := hord ho
            rw [hn] at hq; cases hq
            rw [h] at hq'; cases hq'
          rw [this]; simp
      · refine ⟨n + 1, h, by omega, ?_⟩
        rw [hl, ackSeqs_append, hseq]
        simp [ackSeqs]
        exact range'_succ_right n h1
      · exact absurd h (chan_fresh hi (by rw [hs]; simp))
  · -- nsShape
    intro id h'
    have keep : (∃ p, s.chan.get (p, id) ≠ none) ∨ s.cpV2.get id ≠ none →
        (∃ p, s'.chan.get (p, id) ≠ none) ∨ s'.cpV2.get id ≠ none := by
      rintro (⟨p, hp⟩ | h)
      · obtain ⟨ch, hc⟩ := opt_ne_none hp
        obtain ⟨ch', h1, _⟩ := chan_persists hi ht hc
        exact .inl ⟨p, by rw [h1]; simp⟩
      · exact .inr (ht.cpV2 id h)
    cases hs : s.nextSend.get id with
    | none =>
      obtain ⟨n, hn⟩ := opt_ne_none h'
      exact (ht.nextSendNew id n hs hn).2.2
    | some n => exact keep (h2.nsShape id (by rw [hs]; simp))
  · -- sendEv
    intro id q e hx hse
    rcases log_cases ht hx with hold | ⟨_, hev⟩
    · have h0 := h2.sendEv id q e hold hse
      obtain ⟨n, hn⟩ := opt_ne_none h0
      rcases nextSend_mono hi ht hn (h2.nsShape id h0) with h | h <;> rw [h] <;> simp
    · cases e <;> simp [Event.isSend] at hse
      · obtain ⟨rfl, rfl⟩ := hse; rw [hev.2]; simp
      · obtain ⟨rfl, rfl⟩ := hse; rw [hev.2]; simp
  · -- sendSeq
    intro id n' hn'
    cases hs : s.nextSend.get id with
    | none =>
      obtain ⟨h1, _, _⟩ := ht.nextSendNew id n' hs hn'
      subst h1
      refine ⟨Nat.le_refl 1, ?_⟩
      apply sendSeqs_nil_of_no_send
      intro e he q
      cases hq : e.isSend id q with
      | false => rfl
      | true =>
        exfalso
        rcases log_cases ht he with hold | ⟨_, hev⟩
        · exact h2.sendEv id q e hold hq hs
        · cases e <;> simp [Event.isSend] at hq
          · obtain ⟨rfl, rfl⟩ := hq; obtain ⟨hq0, _⟩ := hev; rw [hs] at hq0; cases hq0
          · obtain ⟨rfl, rfl⟩ := hq; obtain ⟨hq0, _⟩ := hev; rw [hs] at hq0; cases hq0
    | some n =>
      obtain ⟨h1, hseq⟩ := h2.sendSeq id n hs
      have hshape := h2.nsShape id (by rw [hs]; simp)
      rcases ht.nextSend id n hs with h | ⟨h, e, hl, hse⟩ | h | ⟨hcp, hcr⟩
      · rw [hn'] at h; cases h
        refine ⟨h1, ?_⟩
        rcases ht.log with hl | ⟨e, hl, hev⟩
        · rw [hl]; exact hseq
        · rw [hl, sendSeqs_append, hseq]
          have : sendSeqs id [e] = [] := by
            cases e <;> simp [sendSeqs]
            · rename_i c q m
              intro hc; subst hc
              obtain ⟨hq, hq'⟩ := hev
              rw [hs] at hq; cases hq; rw [hn'] at hq'; cases hq'
            · rename_i p c q
              intro hc; subst hc
              obtain ⟨hq, hq'⟩ := hev
              rw [hs] at hq; cases hq; rw [hn'] at hq'; cases hq'
          rw [this]; simp
      · rw [hn'] at h; cases h
        refine ⟨by omega, ?_⟩
        rw [hl, sendSeqs_append, hseq]
        have : sendSeqs id [e] = [n] := by
          cases e <;> simp [Event.isSend] at hse
          · obtain ⟨rfl, rfl⟩ := hse; simp [sendSeqs]
          · obtain ⟨rfl, rfl⟩ := hse; simp [sendSeqs]
        rw [this]
        exact range'_succ_right n h1
      · -- fresh channel id: impossible for an id in use
        exfalso
        rcases nextSend_mono hi ht hs hshape with _ | _ <;>
        · have hchan : ∃ p, s.chan.get (p, id) ≠ none := by
            rcases hshape with h' | h'
            · exact h'
            · rcases hi.cpShape id h' with h'' | h''
              · exact h''
              · exact absurd (h ▸ hi.clientId id h'') (not_isClientId_fmtChan _)
          obtain ⟨p, hp⟩ := hchan
          exact chan_fresh hi hp h
      · exfalso
        rcases hshape with ⟨p, hp⟩ | h'
        · obtain ⟨ch, hc⟩ := opt_ne_none hp
          obtain ⟨m, _, he⟩ := hi.chanId p id ch hc
          exact not_isClientId_fmtChan m (he ▸ hi.clientId id (hi.creatorCS id hcr))
        · exact h' hcp
  · -- ackRc
    intro k h'
    cases hs : s.ackV2.get k with
    | none => exact (ht.ackV2New k hs h').1
    | some v => exact ht.receiptV2 k (h2.ackRc k (by rw [hs]; simp))
  · -- asyncKey
    intro k p h'
    cases hs : s.asyncV2.get k with
    | none => exact (ht.asyncNew k p hs h').1
    | some p0 =>
      have hk0 := h2.asyncKey k p0 hs
      rcases ht.asyncOld k p0 hs with h | ⟨h, _⟩ | h
      · rw [h'] at h; cases h; exact hk0
      · rw [h'] at h; cases h
      · exact absurd h (h2.asyncRc k (by rw [hs]; simp)).1
  · -- asyncRc
    intro k h'
    obtain ⟨p, hp⟩ := opt_ne_none h'
    cases hs : s.asyncV2.get k with
    | none =>
      obtain ⟨_, hr0, hr, hack⟩ := ht.asyncNew k p hs hp
      refine ⟨hr, ?_⟩
      rw [hack]
      cases ha : s.ackV2.get k with
      | none => rfl
      | some v => exact absurd hr0 (h2.ackRc k (by rw [ha]; simp))
    | some p0 =>
      obtain ⟨hr, ha⟩ := h2.asyncRc k (by rw [hs]; simp)
      refine ⟨ht.receiptV2 k hr, ?_⟩
      cases ha' : s'.ackV2.get k with
      | none => rfl
      | some v =>
        exfalso
        obtain ⟨_, hcase⟩ := ht.ackV2New k ha (by rw [ha']; simp)
        rcases hcase with h | h | ⟨k', p', hk', hne⟩
        · exact h' h
        · exact hr h
        · exact hne (h2.asyncKey k' p' hk')

theorem inv2_run {s : ChainState} (hi : Inv s) (h2 : Inv2 s) (ops : List Op) :
    Inv (Chain.run s ops) ∧ Inv2 (Chain.run s ops) := by
  induction ops generalizing s with
  | nil => exact ⟨hi, h2⟩
  | cons op ops ih =>
    unfold Chain.run
    have ht : Tr s (Chain.step s op).1 := step_tr (out := (Chain.step s op).2) rfl
    exact ih (hi.step ht) (h2.step hi ht)

theorem inv2_run_init (ops : List Op) : Inv2 (Chain.run Chain.init ops) := (inv2_run Inv.init Inv2.init ops).2

end IbcVerif.Chain
