/-
  Generic lemmas behind the per-site permutation-invariance theorems of C45
  (core Lean only; no Mathlib needed).
-/
import IbcVerif.Model.MapRange
namespace IbcVerif.MapRange

/-! ### sorting a permutation gives the same list -/

theorem mergeSort_eq_of_perm {α : Type} (le : α → α → Bool)
    (trans : ∀ a b c, le a b = true → le b c = true → le a c = true)
    (total : ∀ a b, (le a b || le b a) = true)
    (antisymm : ∀ a b, le a b = true → le b a = true → a = b)
    {l₁ l₂ : List α} (h : l₁.Perm l₂) : l₁.mergeSort le = l₂.mergeSort le := by
  apply List.Perm.eq_of_pairwise (le := fun a b => le a b = true)
  · intro a b _ _ h1 h2; exact antisymm a b h1 h2
  · exact List.pairwise_mergeSort trans total l₁
  · exact List.pairwise_mergeSort trans total l₂
  · exact (List.mergeSort_perm l₁ le).trans (h.trans (List.mergeSort_perm l₂ le).symm)

/-! ### first-match scans: order-independent when all matches agree -/

theorem findSome?_eq_of_perm {α ρ : Type} {step : α → Option ρ} {l₁ l₂ : List α} (h : l₁.Perm l₂)
    (compat : ∀ a ∈ l₁, ∀ b ∈ l₁, ∀ r s, step a = some r → step b = some s → r = s) :
    l₁.findSome? step = l₂.findSome? step := by
  cases h1 : l₁.findSome? step with
  | none =>
    rw [List.findSome?_eq_none_iff] at h1
    symm; rw [List.findSome?_eq_none_iff]
    intro x hx; exact h1 x (h.symm.subset hx)
  | some r =>
    obtain ⟨a, ha, hra⟩ := List.exists_of_findSome?_eq_some h1
    cases h2 : l₂.findSome? step with
    | none =>
      rw [List.findSome?_eq_none_iff] at h2
      have := h2 a (h.subset ha)
      rw [hra] at this; cases this
    | some s =>
      obtain ⟨b, hb, hsb⟩ := List.exists_of_findSome?_eq_some h2
      rw [compat a ha b (h.symm.subset hb) r s hra hsb]

/-! ### prefix-free key sets -/

theorem PrefixFree.perm {α : Type} {k₁ k₂ : List (List α)} (h : k₁.Perm k₂) (pf : PrefixFree k₁) : PrefixFree k₂ :=
  (h.pairwise_iff (fun ⟨a, b⟩ => ⟨b, a⟩)).mp pf

/-- in a prefix-free set, two comparable members are equal -/
theorem PrefixFree.eq_of_prefix {α : Type} {ks : List (List α)} (pf : PrefixFree ks) {a b : List α}
    (ha : a ∈ ks) (hb : b ∈ ks) (hab : a <+: b) : a = b := by
  induction ks with
  | nil => cases ha
  | cons k ks ih =>
    rw [PrefixFree, List.pairwise_cons] at pf
    obtain ⟨hk, pf'⟩ := pf
    rcases List.mem_cons.mp ha with rfl | ha' <;> rcases List.mem_cons.mp hb with rfl | hb'
    · rfl
    · exact absurd hab (hk b hb').1
    · exact absurd hab (hk a ha').2
    · exact ih pf' ha' hb'

theorem PrefixFree.nodup {α : Type} {ks : List (List α)} (pf : PrefixFree ks) : ks.Nodup := by
  induction ks with
  | nil => exact List.nodup_nil
  | cons k ks ih =>
    rw [PrefixFree, List.pairwise_cons] at pf
    rw [List.nodup_cons]
    exact ⟨fun hmem => (pf.1 k hmem).1 List.prefix_rfl, ih pf.2⟩

theorem PrefixFree.cons {α : Type} {k : List α} {ks : List (List α)} (pf : PrefixFree ks)
    (h : ∀ x ∈ ks, ¬ k <+: x ∧ ¬ x <+: k) : PrefixFree (k :: ks) := by
  rw [PrefixFree, List.pairwise_cons]; exact ⟨h, pf⟩

/-- two entries of one map with the same key are the same entry -/
theorem eq_of_fst_eq {κ ν : Type} {l : List (κ × ν)} (nd : (keys l).Nodup) {a b : κ × ν}
    (ha : a ∈ l) (hb : b ∈ l) (h : a.1 = b.1) : a = b := by
  induction l with
  | nil => cases ha
  | cons x l ih =>
    simp only [keys, List.map_cons, List.nodup_cons] at nd
    obtain ⟨hx, nd'⟩ := nd
    rcases List.mem_cons.mp ha with rfl | ha' <;> rcases List.mem_cons.mp hb with rfl | hb'
    · rfl
    · exact absurd (h ▸ List.mem_map_of_mem (f := Prod.fst) hb') hx
    · exact absurd (h ▸ List.mem_map_of_mem (f := Prod.fst) ha') hx
    · exact ih nd' ha' hb'

theorem keys_perm {κ ν : Type} {l₁ l₂ : List (κ × ν)} (h : l₁.Perm l₂) : (keys l₁).Perm (keys l₂) := h.map _

theorem mem_keys {κ ν : Type} {l : List (κ × ν)} {a : κ × ν} (h : a ∈ l) : a.1 ∈ keys l :=
  List.mem_map_of_mem (f := Prod.fst) h

section Api
set_option linter.unusedSectionVars false
variable {α ν : Type} [BEq α] [LawfulBEq α]

theorem hasPrefix_iff (s p : List α) : hasPrefix s p = true ↔ p <+: s := by
  simp [hasPrefix]

/-! the scans as `findSome?` -/

theorem addRouteScan_eq (portID : List α) (l : List (List α × ν)) :
    addRouteScan portID l = l.findSome? (fun e => if hasPrefix portID e.1 then some e.1 else none) := by
  induction l with
  | nil => rfl
  | cons e l ih =>
    obtain ⟨p, c⟩ := e
    simp only [addRouteScan, List.findSome?_cons]
    by_cases h : hasPrefix portID p = true <;> simp [h, ih]

theorem addPrefixScanRoutesMsg_eq (pfx : List α) (l : List (List α × ν)) :
    addPrefixScanRoutesMsg pfx l = l.findSome? (fun e => if hasPrefix e.1 pfx then some e.1 else none) := by
  induction l with
  | nil => rfl
  | cons e l ih =>
    obtain ⟨p, c⟩ := e
    simp only [addPrefixScanRoutesMsg, List.findSome?_cons]
    by_cases h : hasPrefix p pfx = true <;> simp [h, ih]

theorem getRouteScan_eq (portID : List α) (l : List (List α × ν)) :
    getRouteScan portID l = l.findSome? (fun e => if hasPrefix portID e.1 then some e.2 else none) := by
  induction l with
  | nil => rfl
  | cons e l ih =>
    obtain ⟨p, c⟩ := e
    simp only [getRouteScan, List.findSome?_cons]
    by_cases h : hasPrefix portID p = true <;> simp [h, ih]

/-- one step of the second `AddPrefixRoute` loop, already reduced to its order-independent class -/
def prefixStep (pfx : List α) (e : List α × ν) : Option (PrefixScan Unit × Option (List α)) :=
  if hasPrefix pfx e.1 then some (.coveredBy (), some e.1)
  else if hasPrefix e.1 pfx then some (.covers (), none)
  else none

theorem addPrefixScanPrefixes_eq (pfx : List α) (l : List (List α × ν)) :
    addPrefixScanPrefixes pfx l = (l.findSome? (prefixStep pfx)).getD (.none, none) := by
  induction l with
  | nil => rfl
  | cons e l ih =>
    obtain ⟨p, c⟩ := e
    simp only [addPrefixScanPrefixes, addPrefixScanPrefixesMsg, List.findSome?_cons, prefixStep] at ih ⊢
    by_cases h1 : hasPrefix pfx p = true
    · simp [h1, PrefixScan.cls]
    · by_cases h2 : hasPrefix p pfx = true
      · simp [h1, h2, PrefixScan.cls]
      · simp [h1, h2, ih]

/-- all registered prefixes that match one port id coincide -/
theorem prefix_match_unique {l : List (List α × ν)} (pf : PrefixFree (keys l)) {s : List α} {a b : List α × ν}
    (ha : a ∈ l) (hb : b ∈ l) (h1 : a.1 <+: s) (h2 : b.1 <+: s) : a = b := by
  have hk : a.1 = b.1 := by
    rcases List.prefix_or_prefix_of_prefix h1 h2 with h | h
    · exact pf.eq_of_prefix (mem_keys ha) (mem_keys hb) h
    · exact (pf.eq_of_prefix (mem_keys hb) (mem_keys ha) h).symm
  exact eq_of_fst_eq pf.nodup ha hb hk

theorem addRouteScan_perm {l₁ l₂ : List (List α × ν)} (portID : List α) (pf : PrefixFree (keys l₁))
    (h : l₁.Perm l₂) : addRouteScan portID l₁ = addRouteScan portID l₂ := by
  rw [addRouteScan_eq, addRouteScan_eq]
  apply findSome?_eq_of_perm h
  intro a ha b hb r s hr hs
  split at hr <;> split at hs <;> simp_all only [Option.some.injEq, reduceCtorEq]
  rename_i h1 h2
  rw [hasPrefix_iff] at h1 h2
  subst hr hs
  rw [prefix_match_unique pf ha hb h1 h2]

theorem getRouteScan_perm {l₁ l₂ : List (List α × ν)} (portID : List α) (pf : PrefixFree (keys l₁))
    (h : l₁.Perm l₂) : getRouteScan portID l₁ = getRouteScan portID l₂ := by
  rw [getRouteScan_eq, getRouteScan_eq]
  apply findSome?_eq_of_perm h
  intro a ha b hb r s hr hs
  split at hr <;> split at hs <;> simp_all only [Option.some.injEq, reduceCtorEq]
  rename_i h1 h2
  rw [hasPrefix_iff] at h1 h2
  subst hr hs
  rw [prefix_match_unique pf ha hb h1 h2]

theorem addPrefixScanRoutes_perm {l₁ l₂ : List (List α × ν)} (pfx : List α)
    (h : l₁.Perm l₂) : addPrefixScanRoutes pfx l₁ = addPrefixScanRoutes pfx l₂ := by
  simp only [addPrefixScanRoutes, addPrefixScanRoutesMsg_eq]
  rw [Bool.eq_iff_iff]
  simp only [List.findSome?_isSome_iff]
  constructor
  · rintro ⟨x, hx, hs⟩; exact ⟨x, h.subset hx, hs⟩
  · rintro ⟨x, hx, hs⟩; exact ⟨x, h.symm.subset hx, hs⟩

theorem addPrefixScanPrefixes_perm {l₁ l₂ : List (List α × ν)} (pfx : List α) (pf : PrefixFree (keys l₁))
    (h : l₁.Perm l₂) : addPrefixScanPrefixes pfx l₁ = addPrefixScanPrefixes pfx l₂ := by
  rw [addPrefixScanPrefixes_eq, addPrefixScanPrefixes_eq]
  congr 1
  apply findSome?_eq_of_perm h
  intro a ha b hb r s hr hs
  unfold prefixStep at hr hs
  by_cases a1 : hasPrefix pfx a.1 = true <;> by_cases b1 : hasPrefix pfx b.1 = true
  · -- both registered prefixes cover the new one: they coincide
    simp only [a1, b1, if_true, Option.some.injEq] at hr hs
    rw [hasPrefix_iff] at a1 b1
    rw [← hr, ← hs, prefix_match_unique pf ha hb a1 b1]
  · -- a covers the new prefix; b does not: b cannot extend the new prefix either
    simp only [a1, b1, if_true, Option.some.injEq] at hr hs
    by_cases b2 : hasPrefix b.1 pfx = true
    · rw [hasPrefix_iff] at a1 b2
      have hab := pf.eq_of_prefix (mem_keys ha) (mem_keys hb) (a1.trans b2)
      rw [hasPrefix_iff] at b1; rw [← hab] at b1; exact absurd a1 b1
    · simp [b2] at hs
  · simp only [a1, b1, if_true, Option.some.injEq] at hr hs
    by_cases a2 : hasPrefix a.1 pfx = true
    · rw [hasPrefix_iff] at b1 a2
      have hba := pf.eq_of_prefix (mem_keys hb) (mem_keys ha) (b1.trans a2)
      rw [hasPrefix_iff] at a1; rw [← hba] at a1; exact absurd b1 a1
    · simp [a2] at hr
  · simp only [a1, b1] at hr hs
    by_cases a2 : hasPrefix a.1 pfx = true <;> by_cases b2 : hasPrefix b.1 pfx = true <;>
      simp_all

/-! the invariant is maintained by router construction -/

theorem addPrefixScanPrefixesMsg_none {pfx : List α} {l : List (List α × ν)}
    (h : addPrefixScanPrefixesMsg pfx l = .none) : ∀ x ∈ keys l, ¬ pfx <+: x ∧ ¬ x <+: pfx := by
  induction l with
  | nil => intro x hx; cases hx
  | cons e l ih =>
    obtain ⟨p, c⟩ := e
    simp only [addPrefixScanPrefixesMsg] at h
    by_cases h1 : hasPrefix pfx p = true
    · simp [h1] at h
    · by_cases h2 : hasPrefix p pfx = true
      · simp [h1, h2] at h
      · simp only [h1, h2, Bool.false_eq_true, if_false] at h
        intro x hx
        simp only [keys, List.map_cons, List.mem_cons] at hx
        rcases hx with rfl | hx
        · rw [hasPrefix_iff] at h1 h2; exact ⟨h2, h1⟩
        · exact ih h x hx

theorem addPrefixRoute_prefixFree {r r' : ApiRouter α ν} {pfx : List α} {c : ν}
    (pf : PrefixFree (keys r.prefixRoutes)) (h : r.addPrefixRoute pfx c = some r') :
    PrefixFree (keys r'.prefixRoutes) := by
  unfold ApiRouter.addPrefixRoute at h
  split at h
  · cases h
  · split at h
    · rename_i hnone
      cases h
      exact pf.cons (addPrefixScanPrefixesMsg_none hnone)
    · cases h

theorem addRoute_prefixRoutes {r r' : ApiRouter α ν} {p : List α} {c : ν}
    (h : r.addRoute p c = some r') : r'.prefixRoutes = r.prefixRoutes := by
  unfold ApiRouter.addRoute at h
  split at h
  · cases h
  · split at h
    · cases h
    · cases h; rfl

theorem run_prefixFree {r r' : ApiRouter α ν} (ops : List (RouterOp α ν))
    (pf : PrefixFree (keys r.prefixRoutes)) (h : r.run ops = some r') :
    PrefixFree (keys r'.prefixRoutes) := by
  induction ops generalizing r with
  | nil => simp only [ApiRouter.run, Option.some.injEq] at h; exact h ▸ pf
  | cons op ops ih =>
    cases op with
    | addRoute p c =>
      simp only [ApiRouter.run] at h
      cases h1 : r.addRoute p c with
      | none => simp [h1] at h
      | some r1 =>
        simp only [h1, Option.bind_some] at h
        exact ih (by rw [addRoute_prefixRoutes h1]; exact pf) h
    | addPrefixRoute p c =>
      simp only [ApiRouter.run] at h
      cases h1 : r.addPrefixRoute p c with
      | none => simp [h1] at h
      | some r1 =>
        simp only [h1, Option.bind_some] at h
        exact ih (addPrefixRoute_prefixFree pf h1) h

end Api

/-! ### independent writes commute -/

theorem KV.set_comm {κ β : Type} [DecidableEq κ] (s : KV κ β) {k₁ k₂ : κ} (v₁ v₂ : β) (h : k₁ ≠ k₂) :
    (s.set k₁ v₁).set k₂ v₂ = (s.set k₂ v₂).set k₁ v₁ := by
  funext q
  simp only [KV.set]
  by_cases h1 : q = k₁ <;> by_cases h2 : q = k₂ <;> simp_all

theorem foldl_set_perm {κ ν β : Type} [DecidableEq κ] (enc : ν → β) (store : KV κ β)
    {l₁ l₂ : List (κ × ν)} (nd : (keys l₁).Nodup) (h : l₁.Perm l₂) :
    l₁.foldl (fun s kv => s.set kv.1 (enc kv.2)) store = l₂.foldl (fun s kv => s.set kv.1 (enc kv.2)) store := by
  apply h.foldl_eq'
  intro x hx y hy z
  by_cases hxy : x.1 = y.1
  · rw [eq_of_fst_eq nd hx hy hxy]
  · exact KV.set_comm z _ _ hxy

/-- content of the store after the writes: the genesis entries win, everything else is unchanged -/
theorem foldl_set_apply {κ ν β : Type} [DecidableEq κ] (enc : ν → β) (store : KV κ β)
    (l : List (κ × ν)) (nd : (keys l).Nodup) (q : κ) :
    l.foldl (fun s kv => s.set kv.1 (enc kv.2)) store q =
      match l.find? (fun kv => kv.1 = q) with
      | some kv => some (enc kv.2)
      | none => store q := by
  induction l generalizing store with
  | nil => rfl
  | cons x l ih =>
    simp only [keys, List.map_cons, List.nodup_cons] at nd
    simp only [List.foldl_cons, List.find?_cons]
    rw [ih _ nd.2]
    by_cases hq : x.1 = q
    · simp only [hq, decide_true]
      have : l.find? (fun kv => decide (kv.1 = q)) = none := by
        rw [List.find?_eq_none]
        intro y hy hyq
        simp only [decide_eq_true_eq] at hyq
        exact nd.1 (hq ▸ hyq ▸ List.mem_map_of_mem (f := Prod.fst) hy)
      simp [this, KV.set]
    · simp only [hq, decide_false]
      cases l.find? (fun kv => decide (kv.1 = q)) with
      | some kv => rfl
      | none => simp [KV.set, Ne.symm hq]

end IbcVerif.MapRange
