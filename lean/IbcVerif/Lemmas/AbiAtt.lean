import IbcVerif.Lemmas.Abi
import IbcVerif.Lemmas.Dec
namespace IbcVerif.Abi
open IbcVerif

theorem bytes32_length (b : Bytes) : (bytes32 b).length = 32 := by
  simp [bytes32]; omega

theorem bytes32_of_length (b : Bytes) (h : b.length = 32) : bytes32 b = b := by
  simp [bytes32, h, List.take_of_length_le (Nat.le_of_eq h)]

def normCompact (p : PacketCompact) : PacketCompact := ⟨bytes32 p.path, bytes32 p.commitment⟩

theorem encodeCompact_length (p : PacketCompact) : (encodeCompact p).length = 64 := by
  simp [encodeCompact, bytes32_length]

theorem flatMap_encodeCompact_length (ps : List PacketCompact) : (ps.flatMap encodeCompact).length = 64 * ps.length := by
  induction ps with
  | nil => rfl
  | cons p ps ih => rw [List.flatMap_cons, List.length_append, ih, encodeCompact_length, List.length_cons]; omega

theorem unpackCompacts_enc (ps : List PacketCompact) (pre : Bytes) (i : Nat) (hi : pre.length = i) :
    unpackCompacts ps.length i (pre ++ ps.flatMap encodeCompact) = .ok (ps.map normCompact) := by
  induction ps generalizing pre i with
  | nil => rfl
  | cons p ps ih =>
    have hlen : (pre ++ (p :: ps).flatMap encodeCompact).length = i + 64 + 64 * ps.length := by
      rw [List.length_append, List.flatMap_cons, List.length_append, hi, encodeCompact_length, flatMap_encodeCompact_length]; omega
    have e1 : pre ++ (p :: ps).flatMap encodeCompact = pre ++ (bytes32 p.path ++ (bytes32 p.commitment ++ ps.flatMap encodeCompact)) := by
      simp [encodeCompact]
    have hsf : G.sliceFrom (pre ++ (p :: ps).flatMap encodeCompact) i
        = .ok (bytes32 p.path ++ (bytes32 p.commitment ++ ps.flatMap encodeCompact)) := by
      rw [e1]; exact sliceFrom_append _ _ _ hi.symm
    have ho : (bytes32 p.path ++ (bytes32 p.commitment ++ ps.flatMap encodeCompact)).length = 64 + 64 * ps.length := by
      simp only [List.length_append, bytes32_length, flatMap_encodeCompact_length]; omega
    have s1 : G.slice (bytes32 p.path ++ (bytes32 p.commitment ++ ps.flatMap encodeCompact)) 0 32 = .ok (bytes32 p.path) :=
      slice_of_eq (A := []) rfl 0 32 rfl (by simp [bytes32_length])
    have s2 : G.slice (bytes32 p.path ++ (bytes32 p.commitment ++ ps.flatMap encodeCompact)) 32 64 = .ok (bytes32 p.commitment) :=
      slice_of_eq (A := bytes32 p.path) rfl 32 64 (bytes32_length _).symm (by simp [bytes32_length])
    have ih' := ih (pre ++ encodeCompact p) (i + 64) (by simp [hi, encodeCompact_length])
    have e2 : pre ++ (p :: ps).flatMap encodeCompact = pre ++ encodeCompact p ++ ps.flatMap encodeCompact := by simp
    simp only [List.length_cons, unpackCompacts, unpackCompact]
    rw [if_neg (by omega), hsf]
    simp only [G.bind_ok]
    rw [if_neg (by omega), s1]
    simp only [G.bind_ok]
    rw [if_neg (by omega), s2]
    simp only [G.bind_ok]
    rw [e2, ih']
    rfl

theorem encodePacketAtt_length (a : PacketAtt) : (encodePacketAtt a).length = 128 + 64 * a.packets.length := by
  simp only [encodePacketAtt, encPackets, List.length_append, word_length, flatMap_encodeCompact_length]; omega

/-- decoding an encoded packet attestation returns it with every path/commitment normalised to 32 bytes -/
theorem decodePacketAtt_encode (a : PacketAtt) (hh : a.height < 2 ^ 64) (hlen : (encodePacketAtt a).length < 2 ^ 63) :
    decodePacketAtt (encodePacketAtt a) = .ok ⟨a.height, a.packets.map normCompact⟩ := by
  have hL := encodePacketAtt_length a
  obtain ⟨h, ps⟩ := a
  simp only at hh hL ⊢
  unfold decodePacketAtt
  rw [if_neg (by omega), if_neg (by omega)]
  have hs : G.slice (encodePacketAtt ⟨h, ps⟩) 0 32 = .ok (word 32) :=
    slice_of_eq (A := []) (B := word 32) (C := word h ++ word 64 ++ encPackets ps) rfl 0 32 rfl (by simp [word_length])
  rw [hs]
  simp only [G.bind_ok, beNat_word 32 (by decide)]
  rw [if_neg (by omega), if_neg (by decide)]
  have hs2 : G.sliceFrom (encodePacketAtt ⟨h, ps⟩) 32 = .ok (word h ++ word 64 ++ encPackets ps) :=
    sliceFrom_append (word 32) _ 32 (word_length 32).symm
  rw [hs2]
  simp only [G.bind_ok]
  have hol : (word h ++ word 64 ++ encPackets ps).length = 96 + 64 * ps.length := by
    simp only [encPackets, List.length_append, word_length, flatMap_encodeCompact_length]; omega
  have e0 : word h ++ word 64 ++ encPackets ps = [] ++ (word h ++ (word 64 ++ encPackets ps)) := by simp
  have t0 : toGo 0 .uint64 (word h ++ word 64 ++ encPackets ps) = .ok (.num h) := by
    unfold toGo
    rw [if_neg (by omega)]
    simp only
    rw [slice_of_eq e0 0 (0 + 32) rfl (by simp [word_length])]
    have : ¬ (h ≥ 2 ^ 64) := by omega
    simp only [G.bind_ok, beNat_word h (Nat.lt_trans hh (by decide)), this, if_false]
  rw [t0]
  simp only [G.bind_ok]
  rw [if_neg (by omega)]
  have e1 : word h ++ word 64 ++ encPackets ps = word h ++ (word 64 ++ (word ps.length ++ ps.flatMap encodeCompact)) := by
    simp [encPackets]
  have e2 : word h ++ word 64 ++ encPackets ps = (word h ++ word 64) ++ (word ps.length ++ ps.flatMap encodeCompact) := by
    simp [encPackets]
  have hn : ps.length < 2 ^ 256 := by
    have : ps.length < 2 ^ 63 := by omega
    exact Nat.lt_trans this (by decide)
  have lp : lengthPrefixPointsTo 32 (word h ++ word 64 ++ encPackets ps) = .ok (96, ps.length) := by
    unfold lengthPrefixPointsTo
    rw [slice_of_eq e1 32 (32 + 32) (word_length h).symm (by simp [word_length])]
    simp only [G.bind_ok, beNat_word 64 (by decide)]
    rw [if_neg (by omega), if_neg (by decide)]
    rw [slice_of_eq e2 (64 + 32 - 32) (64 + 32) (by simp [word_length]) (by simp [word_length])]
    simp only [G.bind_ok, beNat_word _ hn]
    rw [if_neg (by omega), if_neg (by omega)]
  rw [lp]
  simp only [G.bind_ok]
  have e3 : word h ++ word 64 ++ encPackets ps = (word h ++ word 64 ++ word ps.length) ++ ps.flatMap encodeCompact := by
    simp [encPackets]
  rw [e3, sliceFrom_append _ _ 96 (by simp [word_length])]
  simp only [G.bind_ok, forEachUnpack]
  rw [if_neg (by rw [flatMap_encodeCompact_length]; omega)]
  have := unpackCompacts_enc ps [] 0 rfl
  simp only [List.nil_append] at this
  rw [this]
  rfl
end IbcVerif.Abi
