import IbcVerif.Model.Authz
namespace IbcVerif.Authz

/-- contribution of one allocation to the remaining limit of (port, channel, denom) -/
def contrib (p c d : String) (a : Allocation) : Nat :=
  if a.chan = c ∧ a.port = p then amountOf a.limit d else 0

/-- total remaining limit of a grant for (port, channel, denom) -/
def remaining (g : List Allocation) (p c d : String) : Nat := (g.map (contrib p c d)).sum

/-- what a list of accepted requests moved on (port, channel, denom) -/
def spentOn (acc : List Msg) (p c d : String) : Nat :=
  (acc.map (fun m => if m.port = p ∧ m.chan = c ∧ m.denom = d then m.amount else 0)).sum

/-- denominations of a spend limit are distinct (sdk.Coins are strictly sorted) -/
def CoinsWF (l : Coins) : Prop := (l.map (·.1)).Nodup

def GrantWF (g : List Allocation) : Prop := ∀ a ∈ g, CoinsWF a.limit

theorem amountOf_of_not_mem (l : Coins) (x : String) (h : x ∉ l.map (·.1)) : amountOf l x = 0 := by
  induction l with
  | nil => rfl
  | cons e rest ih =>
    obtain ⟨d, n⟩ := e
    simp only [List.map_cons, List.mem_cons, not_or] at h
    simp only [amountOf]
    rw [if_neg (fun e => h.1 e.symm)]
    exact ih h.2

theorem amountOf_setAmount (l : Coins) (hl : CoinsWF l) (x y : String) (n : Nat) :
    amountOf (setAmount l x n) y = if y = x then n else amountOf l y := by
  induction l with
  | nil =>
    simp only [setAmount]
    split <;> rename_i hn
    · subst hn; simp [amountOf]
    · simp only [amountOf]
      by_cases hy : y = x
      · simp [hy]
      · rw [if_neg (fun e => hy e.symm), if_neg hy]
  | cons e rest ih =>
    obtain ⟨d, m⟩ := e
    have hnd : d ∉ rest.map (·.1) ∧ CoinsWF rest := by
      simpa [CoinsWF, List.nodup_cons] using hl
    simp only [setAmount]
    by_cases hdx : d = x
    · subst hdx
      simp only [if_true]
      by_cases hn : n = 0
      · subst hn
        simp only [if_true]
        by_cases hy : y = d
        · subst hy; simp [amountOf_of_not_mem rest y hnd.1]
        · simp only [if_neg hy, amountOf, if_neg (fun e : d = y => hy e.symm)]
      · simp only [if_neg hn, amountOf]
        by_cases hy : y = d
        · subst hy; simp
        · simp only [if_neg hy, if_neg (fun e : d = y => hy e.symm)]
    · simp only [if_neg hdx, amountOf]
      by_cases hdy : d = y
      · subst hdy
        simp only [if_true, if_neg hdx]
      · simp only [if_neg hdy]
        exact ih hnd.2

theorem setAmount_wf (l : Coins) (hl : CoinsWF l) (x : String) (n : Nat) (hx : x ∈ l.map (·.1) ∨ n = 0) :
    CoinsWF (setAmount l x n) := by
  induction l with
  | nil =>
    simp only [setAmount]
    split
    · simp [CoinsWF]
    · simp [CoinsWF]
  | cons e rest ih =>
    obtain ⟨d, m⟩ := e
    have hnd : d ∉ rest.map (·.1) ∧ CoinsWF rest := by
      simpa [CoinsWF, List.nodup_cons] using hl
    simp only [setAmount]
    by_cases hdx : d = x
    · simp only [hdx, if_true]
      split
      · exact hnd.2
      · subst hdx; simpa [CoinsWF, List.nodup_cons] using hnd
    · simp only [if_neg hdx]
      have hx' : x ∈ rest.map (·.1) ∨ n = 0 := by
        rcases hx with h | h
        · simp only [List.map_cons, List.mem_cons] at h
          rcases h with h | h
          · exact absurd h.symm hdx
          · exact Or.inl h
        · exact Or.inr h
      have ihr := ih hnd.2 hx'
      -- the key set of `setAmount rest x n` is contained in that of `rest`
      have sub : ∀ (r : Coins) (k : String), k ∈ (setAmount r x n).map (·.1) → k ∈ r.map (·.1) ∨ k = x := by
        intro r
        induction r with
        | nil =>
          intro k hk
          simp only [setAmount] at hk
          split at hk
          · simp at hk
          · simp at hk; exact Or.inr hk
        | cons e2 r2 ih2 =>
          obtain ⟨d2, m2⟩ := e2
          intro k hk
          simp only [setAmount] at hk
          by_cases h2 : d2 = x
          · simp only [h2, if_true] at hk
            split at hk
            · exact Or.inl (List.mem_cons_of_mem _ hk)
            · simp only [List.map_cons, List.mem_cons] at hk ⊢
              rcases hk with hk | hk
              · exact Or.inr hk
              · exact Or.inl (Or.inr hk)
          · simp only [if_neg h2, List.map_cons, List.mem_cons] at hk ⊢
            rcases hk with hk | hk
            · exact Or.inl (Or.inl hk)
            · rcases ih2 k hk with h | h
              · exact Or.inl (Or.inr h)
              · exact Or.inr h
      simp only [CoinsWF, List.map_cons, List.nodup_cons]
      refine ⟨?_, ihr⟩
      intro hmem
      rcases sub rest d hmem with h | h
      · exact hnd.1 h
      · exact hdx h

theorem remaining_set (p c d : String) : ∀ (g : List Allocation) (i : Nat) (a a' : Allocation), g[i]? = some a →
    remaining (g.set i a') p c d + contrib p c d a = remaining g p c d + contrib p c d a'
  | [], i, a, a', h => by simp at h
  | x :: xs, 0, a, a', h => by
      simp only [List.getElem?_cons_zero, Option.some.injEq] at h
      subst h
      simp only [remaining, List.set_cons_zero, List.map_cons, List.sum_cons]
      omega
  | x :: xs, i + 1, a, a', h => by
      simp only [List.getElem?_cons_succ] at h
      have := remaining_set p c d xs i a a' h
      simp only [remaining, List.set_cons_succ, List.map_cons, List.sum_cons] at this ⊢
      omega

theorem remaining_erase (p c d : String) : ∀ (g : List Allocation) (i : Nat) (a : Allocation), g[i]? = some a →
    remaining (g.eraseIdx i) p c d + contrib p c d a = remaining g p c d
  | [], i, a, h => by simp at h
  | x :: xs, 0, a, h => by
      simp only [List.getElem?_cons_zero, Option.some.injEq] at h
      subst h
      simp only [remaining, List.eraseIdx_cons_zero, List.map_cons, List.sum_cons]
      omega
  | x :: xs, i + 1, a, h => by
      simp only [List.getElem?_cons_succ] at h
      have := remaining_erase p c d xs i a h
      simp only [remaining, List.eraseIdx_cons_succ, List.map_cons, List.sum_cons] at this ⊢
      omega

theorem findIdx_spec (m : Msg) : ∀ (g : List Allocation) (i : Nat), findIdx m g = some i →
    ∃ a, g[i]? = some a ∧ a.chan = m.chan ∧ a.port = m.port
  | [], i, h => by simp [findIdx] at h
  | x :: xs, i, h => by
      simp only [findIdx] at h
      split at h
      · rename_i hm
        cases h
        exact ⟨x, rfl, hm.1, hm.2⟩
      · cases hf : findIdx m xs with
        | none => simp [hf] at h
        | some j =>
          simp only [hf, Option.map_some, Option.some.injEq] at h
          subst h
          obtain ⟨a, ha, hc⟩ := findIdx_spec m xs j hf
          exact ⟨a, by simpa using ha, hc⟩

def BoundedOn (g : List Allocation) (p c d : String) : Prop :=
  ∀ a ∈ g, a.chan = c ∧ a.port = p → amountOf a.limit d < unbounded

theorem safeSub_spec (l left : Coins) (hl : CoinsWF l) (x : String) (n : Nat) (h : safeSub l x n = some left) :
    CoinsWF left ∧ ∀ y, amountOf l y = amountOf left y + (if y = x then n else 0) := by
  unfold safeSub at h
  split at h
  · rename_i hn; cases h; subst hn; exact ⟨hl, fun y => by split <;> rfl⟩
  · split at h
    · cases h
    · rename_i hn hlt
      cases h
      have hmem : x ∈ l.map (·.1) := by
        apply Classical.byContradiction
        intro hnm
        have := amountOf_of_not_mem l x hnm
        omega
      refine ⟨setAmount_wf l hl x _ (Or.inl hmem), ?_⟩
      intro y
      rw [amountOf_setAmount l hl]
      by_cases hy : y = x
      · subst hy; simp; omega
      · simp [hy]

theorem mem_of_getElem? {α : Type} {l : List α} {i : Nat} {a : α} (h : l[i]? = some a) : a ∈ l :=
  List.mem_of_getElem? h


theorem mem_set_of {g : List Allocation} {i : Nat} {a' b : Allocation} (h : b ∈ g.set i a') : b = a' ∨ b ∈ g := by
  rcases List.mem_or_eq_of_mem_set h with h | h
  · exact Or.inr h
  · exact Or.inl h

theorem mem_eraseIdx_of {g : List Allocation} {i : Nat} {b : Allocation} (h : b ∈ g.eraseIdx i) : b ∈ g :=
  List.mem_of_mem_eraseIdx h

/-- the possible outcomes of `Accept` -/
theorem accept_cases (norm : String → String) (g : List Allocation) (m : Msg) :
    ((accept norm g m).accepted = false ∧ nextGrant g (accept norm g m) = g) ∨
    (∃ (i : Nat) (a : Allocation), g[i]? = some a ∧ a.chan = m.chan ∧ a.port = m.port ∧ amountOf a.limit m.denom = unbounded ∧
        (accept norm g m).accepted = true ∧ nextGrant g (accept norm g m) = g) ∨
    (∃ (i : Nat) (a : Allocation) (left : Coins), g[i]? = some a ∧ a.chan = m.chan ∧ a.port = m.port ∧ amountOf a.limit m.denom ≠ unbounded ∧
        safeSub a.limit m.denom m.amount = some left ∧ (accept norm g m).accepted = true ∧
        nextGrant g (accept norm g m) = (if left.isEmpty = true then g.eraseIdx i else g.set i { a with limit := left })) := by
  unfold accept
  cases hfi : findIdx m g with
  | none => left; exact ⟨rfl, rfl⟩
  | some i =>
    obtain ⟨a, hga, hac, hap⟩ := findIdx_spec m g i hfi
    simp only [hga]
    by_cases h1 : allowedAddress m.receiver a.allowList = true
    · by_cases h2 : memoOk norm m.memo a.allowedMemos = true
      · simp only [h1, h2, Bool.not_true, Bool.false_eq_true, if_false]
        by_cases hbd : amountOf a.limit m.denom = unbounded
        · right; left
          refine ⟨i, a, hga, hac, hap, hbd, ?_⟩
          simp only [hbd, ne_eq, not_true_eq_false, if_false, decide_false, Bool.not_false, if_true]
          have hne : a.limit.isEmpty = false := by
            cases hl : a.limit with
            | nil => rw [hl] at hbd; simp [amountOf, unbounded] at hbd
            | cons _ _ => rfl
          have hne2 : (g.set i { a with limit := a.limit }).isEmpty = false := by
            cases g with
            | nil => simp at hga
            | cons x xs => cases i <;> simp
          simp only [hne, Bool.false_eq_true, if_false, hne2]
          exact ⟨rfl, rfl⟩
        · simp only [ne_eq, hbd, not_false_eq_true, if_true, decide_true, Bool.not_true, Bool.false_eq_true, if_false]
          cases hss : safeSub a.limit m.denom m.amount with
          | none => left; exact ⟨rfl, rfl⟩
          | some left =>
            right; right
            refine ⟨i, a, left, hga, hac, hap, hbd, hss, ?_⟩
            simp only []
            generalize (if left.isEmpty = true then g.eraseIdx i else g.set i { a with limit := left }) = newg
            by_cases he : newg.isEmpty = true
            · have hn : newg = [] := by simpa using he
              subst hn
              simp [nextGrant, Resp.accepted]
            · simp [he, nextGrant, Resp.accepted]
      · left
        simp only [h1, h2, Bool.not_true, Bool.false_eq_true, if_false, Bool.not_false, if_true]
        exact ⟨rfl, rfl⟩
    · left
      simp only [h1, Bool.not_false, if_true]
      exact ⟨rfl, rfl⟩

/-- one request: well-formedness and boundedness are preserved and the remaining limit of every
    bounded (port, channel, denom) decreases by exactly the accepted amount -/
theorem accept_step (norm : String → String) (g : List Allocation) (m : Msg) (p c d : String)
    (hwf : GrantWF g) (hb : BoundedOn g p c d) :
    GrantWF (nextGrant g (accept norm g m)) ∧ BoundedOn (nextGrant g (accept norm g m)) p c d ∧
      remaining (nextGrant g (accept norm g m)) p c d +
        (if (accept norm g m).accepted = true ∧ m.port = p ∧ m.chan = c ∧ m.denom = d then m.amount else 0)
        = remaining g p c d := by
  rcases accept_cases norm g m with ⟨hacc, hng⟩ | ⟨i, a, hga, hac, hap, hbd, hacc, hng⟩ | ⟨i, a, left, hga, hac, hap, hbd, hss, hacc, hng⟩
  · rw [hng, hacc]; simp; exact ⟨hwf, hb⟩
  · rw [hng, hacc]
    have hamem : a ∈ g := List.mem_of_getElem? hga
    refine ⟨hwf, hb, ?_⟩
    split
    · rename_i hm
      exfalso
      have := hb a hamem ⟨by rw [hac, hm.2.2.1], by rw [hap, hm.2.1]⟩
      rw [← hm.2.2.2, hbd] at this
      exact Nat.lt_irrefl _ this
    · rfl
  · rw [hng, hacc]
    have hamem : a ∈ g := List.mem_of_getElem? hga
    obtain ⟨hlwf, hamt⟩ := safeSub_spec a.limit left (hwf a hamem) m.denom m.amount hss
    have hmatch : (m.port = p ∧ m.chan = c ∧ m.denom = d) ↔ ((a.chan = c ∧ a.port = p) ∧ d = m.denom) := by
      rw [hac, hap]; constructor
      · rintro ⟨x, y, z⟩; exact ⟨⟨y, x⟩, z.symm⟩
      · rintro ⟨⟨y, x⟩, z⟩; exact ⟨x, y, z.symm⟩
    simp only [true_and]
    by_cases hemp : left.isEmpty = true
    · rw [if_pos hemp]
      have hl0 : left = [] := by simpa using hemp
      refine ⟨fun b hbm => hwf b (mem_eraseIdx_of hbm), fun b hbm => hb b (mem_eraseIdx_of hbm), ?_⟩
      have e := remaining_erase p c d g i a hga
      rw [← e]
      congr 1
      simp only [contrib]
      by_cases hk : a.chan = c ∧ a.port = p
      · rw [if_pos hk, hamt d, hl0]
        simp only [amountOf, Nat.zero_add]
        by_cases hd : d = m.denom
        · rw [if_pos hd, if_pos (hmatch.mpr ⟨hk, hd⟩)]
        · rw [if_neg hd, if_neg (fun h => hd (hmatch.mp h).2)]
      · rw [if_neg hk, if_neg (fun h => hk (hmatch.mp h).1)]
    · rw [if_neg hemp]
      refine ⟨?_, ?_, ?_⟩
      · intro b hbm
        rcases mem_set_of hbm with rfl | hbm'
        · exact hlwf
        · exact hwf b hbm'
      · intro b hbm hk
        rcases mem_set_of hbm with rfl | hbm'
        · have h1 := hb a hamem hk
          have h2 := hamt d
          show amountOf left d < unbounded
          omega
        · exact hb b hbm' hk
      · have e := remaining_set p c d g i a { a with limit := left } hga
        simp only [contrib] at e
        by_cases hk : a.chan = c ∧ a.port = p
        · simp only [if_pos hk] at e
          have := hamt d
          by_cases hd : d = m.denom
          · rw [if_pos (hmatch.mpr ⟨hk, hd⟩)]; rw [if_pos hd] at this; omega
          · rw [if_neg (fun h => hd (hmatch.mp h).2)]; rw [if_neg hd] at this; omega
        · simp only [if_neg hk] at e
          rw [if_neg (fun h => hk (hmatch.mp h).1)]; omega

end IbcVerif.Authz
