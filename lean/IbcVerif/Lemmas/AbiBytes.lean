import IbcVerif.Model.Abi
namespace IbcVerif.Abi
open IbcVerif

theorem beBytes_length (k n : Nat) : (beBytes k n).length = k := by
  induction k generalizing n with
  | zero => rfl
  | succ k ih => simp [beBytes, ih]

theorem beNat_foldl (acc : Nat) (b : Bytes) :
    b.foldl (fun acc x => acc * 256 + x.toNat) acc = acc * 256 ^ b.length + beNat b := by
  induction b generalizing acc with
  | nil => simp [beNat]
  | cons x xs ih =>
    simp only [List.foldl_cons, List.length_cons, beNat]
    rw [ih, ih (0 * 256 + x.toNat)]
    rw [Nat.pow_succ]
    simp only [Nat.zero_mul, Nat.zero_add, Nat.add_mul, Nat.mul_assoc, Nat.add_assoc]
    congr 2
    exact Nat.mul_comm _ _

theorem beNat_append (a b : Bytes) : beNat (a ++ b) = beNat a * 256 ^ b.length + beNat b := by
  rw [beNat, List.foldl_append, beNat_foldl]; rfl

theorem beNat_beBytes (k n : Nat) : beNat (beBytes k n) = n % 256 ^ k := by
  induction k generalizing n with
  | zero => simp [beBytes, beNat, Nat.mod_one]
  | succ k ih =>
    rw [beBytes, beNat_append, ih]
    have h1 : beNat [UInt8.ofNat (n % 256)] = n % 256 := by
      simp only [beNat, List.foldl, UInt8.toNat_ofNat']
      have : n % 256 % 2 ^ 8 = n % 256 := Nat.mod_eq_of_lt (Nat.mod_lt _ (by decide))
      omega
    rw [h1, List.length_singleton, Nat.pow_one]
    have h2 : (256:Nat) ^ (k + 1) = 256 * 256 ^ k := by rw [Nat.pow_succ, Nat.mul_comm]
    rw [h2, Nat.mod_mul]
    omega

theorem beNat_lt (b : Bytes) : beNat b < 256 ^ b.length := by
  induction b with
  | nil => simp [beNat]
  | cons x xs ih =>
    have h := beNat_append [x] xs
    simp only [List.singleton_append] at h
    rw [h]
    have hx : beNat [x] = x.toNat := by simp [beNat]
    rw [hx, List.length_cons, Nat.pow_succ]
    have := x.toNat_lt
    have h2 : x.toNat * 256 ^ xs.length + 256 ^ xs.length ≤ 256 ^ xs.length * 256 := by
      have : x.toNat + 1 ≤ 256 := by omega
      calc x.toNat * 256 ^ xs.length + 256 ^ xs.length = (x.toNat + 1) * 256 ^ xs.length := by rw [Nat.add_mul, Nat.one_mul]
        _ ≤ 256 * 256 ^ xs.length := Nat.mul_le_mul_right _ this
        _ = 256 ^ xs.length * 256 := Nat.mul_comm _ _
    omega

theorem word_length (n : Nat) : (word n).length = 32 := beBytes_length 32 n

theorem beNat_word (n : Nat) (h : n < 2 ^ 256) : beNat (word n) = n := by
  rw [word, beNat_beBytes]
  exact Nat.mod_eq_of_lt (by rw [show (256:Nat)^32 = 2^256 by decide]; exact h)

theorem beNat_word_mod (n : Nat) : beNat (word n) = n % 2 ^ 256 := by
  rw [word, beNat_beBytes, show (256:Nat)^32 = 2^256 by decide]

theorem ceil32_ge (l : Nat) : l ≤ ceil32 l := by unfold ceil32; omega
theorem ceil32_lt (l : Nat) : ceil32 l < l + 32 := by unfold ceil32; omega

theorem rightPad_length (b : Bytes) : (rightPad b).length = ceil32 b.length := by
  simp [rightPad]; have := ceil32_ge b.length; omega

theorem encDyn_length (b : Bytes) : (encDyn b).length = 32 + ceil32 b.length := by
  simp [encDyn, word_length, rightPad_length]

/-- `(A ++ B ++ C)[|A| : |A|+|B|] = B` -/
theorem slice_mid {α : Type} (A B C : List α) (lo hi : Nat) (hlo : lo = A.length) (hhi : hi = A.length + B.length) :
    G.slice (A ++ (B ++ C)) lo hi = .ok B := by
  subst hlo hhi
  unfold G.slice
  rw [if_pos (by simp)]
  congr 1
  rw [← List.append_assoc, List.take_append_of_le_length (by simp), List.take_of_length_le (by simp),
    List.drop_left]

theorem sliceFrom_append {α : Type} (A B : List α) (lo : Nat) (hlo : lo = A.length) : G.sliceFrom (A ++ B) lo = .ok B := by
  subst hlo; simp [G.sliceFrom]

theorem slice_noPanic {α : Type} (l : List α) (lo hi : Nat) (h1 : lo ≤ hi) (h2 : hi ≤ l.length) :
    ∃ s, G.slice l lo hi = .ok s ∧ s.length = hi - lo := by
  refine ⟨(l.take hi).drop lo, by simp [G.slice, h1, h2], ?_⟩
  simp; omega
end IbcVerif.Abi
