/-
  Lemmas for the PFM model (C43): receive/forward/refund cancel, a retry cancels, and the invariant
  carried through any run of timeouts ("still in flight with the funds forwarded, or given up and
  restored").
-/
import IbcVerif.Model.Pfm
namespace IbcVerif.Pfm

theorem refund_fwd_recv (h : FHop) (a : Int) (m : Mid) :
    refund h.recv h.fwd a (fwdEff h.fwd a (recvEff h.recv a m)) = m := by
  obtain ⟨r, f⟩ := h
  obtain ⟨v, er, ef, te, ov⟩ := m
  cases r <;> cases f <;> simp [refund, refundCoded, fwdEff, recvEff] <;> omega

theorem fwd_ics20Refund (f : FwdKind) (a : Int) (m : Mid) : fwdEff f a (ics20Refund f a m) = m := by
  obtain ⟨v, er, ef, te, ov⟩ := m
  cases f <;> simp [fwdEff, ics20Refund] <;> omega

theorem refund_ov (r : RecvKind) (f : FwdKind) (a : Int) (m : Mid) : (refund r f a m).ov = m.ov := by
  cases r <;> cases f <;> simp [refund, refundCoded]

theorem fwd_recv_ov (h : FHop) (a : Int) (m : Mid) : (fwdEff h.fwd a (recvEff h.recv a m)).ov = m.ov := by
  obtain ⟨r, f⟩ := h
  cases r <;> cases f <;> simp [fwdEff, recvEff] <;> omega

/-- the state of a forward relative to the chain's state `m0` before the receive -/
def Tracks (h : FHop) (a : Int) (m0 : Mid) (n : Node) : Prop :=
  (n.flight.isSome ∧ n.m = fwdEff h.fwd a (recvEff h.recv a m0)) ∨ (n.flight = none ∧ n.m = m0)

theorem onTimeout_tracks (h : FHop) (a : Int) (m0 : Mid) (n : Node) (ok : Bool) (r : InFlight)
    (hr : n.flight = some r) (ht : Tracks h a m0 n) : Tracks h a m0 (onTimeout h a ok r.seq n).1 := by
  have hm : n.m = fwdEff h.fwd a (recvEff h.recv a m0) := by
    rcases ht with ⟨_, hm⟩ | ⟨hn, _⟩
    · exact hm
    · rw [hr] at hn; cases hn
  unfold onTimeout
  simp only [hr, if_true]
  by_cases hz : r.retriesRemaining ≤ 0
  · simp only [hz, if_true]
    right
    exact ⟨rfl, by simp only [hm, refund_fwd_recv]⟩
  · simp only [hz, if_false]
    cases ok
    · simp only [Bool.false_eq_true, if_false]
      left; exact ⟨by simp [hr], hm⟩
    · simp only [if_true, forwardOk]
      left
      exact ⟨rfl, by simp only [fwd_ics20Refund, hm]⟩

theorem afterTimeouts_tracks (h : FHop) (a : Int) (m0 : Mid) (evs : List Bool) :
    ∀ n, Tracks h a m0 n → Tracks h a m0 (afterTimeouts h a n evs) := by
  induction evs with
  | nil => intro n hn; exact hn
  | cons ok rest ih =>
    intro n hn
    unfold afterTimeouts
    cases hr : n.flight with
    | none => simpa [hr] using hn
    | some r => simp only []; exact ih _ (onTimeout_tracks h a m0 n ok r hr hn)

theorem settleFailed_of_tracks (h : FHop) (a : Int) (m0 : Mid) (n : Node) (ht : Tracks h a m0 n) :
    (settleFailed h a n).m = m0 ∧ (settleFailed h a n).flight = none := by
  unfold settleFailed
  cases hr : n.flight with
  | none =>
    rcases ht with ⟨hs, _⟩ | ⟨_, hm⟩
    · simp [hr] at hs
    · exact ⟨hm, hr⟩
  | some r =>
    have hm : n.m = fwdEff h.fwd a (recvEff h.recv a m0) := by
      rcases ht with ⟨_, hm⟩ | ⟨hn, _⟩
      · exact hm
      · rw [hr] at hn; cases hn
    simp only [onErrorAck, hr, if_true]
    exact ⟨by simp only [hm, refund_fwd_recv], trivial⟩

/-- with `k` retries left and every re-send succeeding, `k + 1` timeouts end in the give-up refund -/
theorem exhaust (h : FHop) (a : Int) (k : Nat) :
    ∀ n r, n.flight = some r → r.retriesRemaining = (k : Int) →
      (afterTimeouts h a n (List.replicate (k + 1) true)).flight = none ∧
      (afterTimeouts h a n (List.replicate (k + 1) true)).m = refund h.recv h.fwd a n.m := by
  induction k with
  | zero =>
    intro n r hr hk
    simp only [Nat.zero_add, List.replicate_one, afterTimeouts, hr, onTimeout, if_true]
    have : r.retriesRemaining ≤ 0 := by omega
    simp [this, afterTimeouts]
  | succ k ih =>
    intro n r hr hk
    rw [List.replicate_succ]
    simp only [afterTimeouts, hr]
    have hpos : ¬ r.retriesRemaining ≤ 0 := by omega
    have hstep : (onTimeout h a true r.seq n).1 =
        forwardOk h a (r.retriesRemaining - 1) { n with m := ics20Refund h.fwd a n.m, flight := none } := by
      simp [onTimeout, hr, hpos]
    rw [hstep]
    have := ih (forwardOk h a (r.retriesRemaining - 1) { n with m := ics20Refund h.fwd a n.m, flight := none })
      ⟨n.nextSeq, r.retriesRemaining - 1⟩ rfl (by simp only []; omega)
    simp only [forwardOk, fwd_ics20Refund] at this ⊢
    exact this

end IbcVerif.Pfm
