/-
  The invariant is preserved by every step (via `Tr`) and therefore holds after every history.
-/
import IbcVerif.Lemmas.ChainInv
namespace IbcVerif.Chain
open FMap

theorem log_cases {s s' : ChainState} (ht : Tr s s') {x : Event} (hx : x ∈ s'.log) :
    x ∈ s.log ∨ (s'.log = s.log ++ [x] ∧ EvOK s s' x) := by
  rcases ht.log with h | ⟨e, h, hev⟩
  · left; rw [h] at hx; exact hx
  · rw [h] at hx
    rcases List.mem_append.mp hx with h1 | h1
    · left; exact h1
    · right
      have : x = e := by simpa using h1
      subst this; exact ⟨h, hev⟩

theorem opt_ne_none {α : Type} {o : Option α} (h : o ≠ none) : ∃ a, o = some a := by
  cases o with
  | none => exact absurd rfl h
  | some a => exact ⟨a, rfl⟩

theorem filter_append_singleton_le {f : Event → Bool} {l : List Event} {e : Event}
    (hl : (l.filter f).length ≤ 1) (hnew : f e = true → ∀ x ∈ l, f x = false) :
    ((l ++ [e]).filter f).length ≤ 1 := by
  rw [List.filter_append, List.length_append]
  by_cases he : f e = true
  · have : l.filter f = [] := by
      rw [List.filter_eq_nil_iff]
      intro x hx; simp [hnew he x hx]
    simp [this, List.filter, he]
  · simp only [Bool.not_eq_true] at he
    simp [List.filter, he]; exact hl

theorem Inv.step {s s' : ChainState} (hi : Inv s) (ht : Tr s s') : Inv s' := by
  have hchanMono : ∀ p c, s.chan.get (p, c) ≠ none → s'.chan.get (p, c) ≠ none := by
    intro p c h
    obtain ⟨ch, hc⟩ := opt_ne_none h
    obtain ⟨ch', h1, _⟩ := chan_persists hi ht hc
    rw [h1]; simp
  refine
    { chanId := ?_, clientId := ?_, creatorCS := ?_, cpShape := ?_, recv1 := ?_, recv1Count := ?_,
      recv2 := ?_, recv2Count := ?_, commit1 := ?_, commit2 := ?_, term1 := ?_, term1Count := ?_,
      term2 := ?_, term2Count := ?_ }
  · -- chanId
    intro p c ch' h'
    cases hs : s.chan.get (p, c) with
    | none =>
      obtain ⟨hc, hn, _⟩ := ht.chanNew p c ch' hs h'
      exact ⟨s.nextChanSeq, by omega, hc⟩
    | some ch =>
      obtain ⟨m, hm, he⟩ := hi.chanId p c ch hs
      exact ⟨m, Nat.lt_of_lt_of_le hm ht.nChan, he⟩
  · -- clientId
    intro id h'
    cases hs : s.clientState.get id with
    | none => exact (ht.clientStateNew id hs h').1
    | some u => exact hi.clientId id (by rw [hs]; simp)
  · -- creatorCS
    intro id h'
    cases hs : s.creator.get id with
    | none => exact ht.creatorNew id hs h'
    | some u => exact ht.clientState id (hi.creatorCS id (by rw [hs]; simp))
  · -- cpShape
    intro id h'
    have old : (∃ p, s.chan.get (p, id) ≠ none) ∨ s.clientState.get id ≠ none →
        (∃ p, s'.chan.get (p, id) ≠ none) ∨ s'.clientState.get id ≠ none := by
      rintro (⟨p, hp⟩ | h)
      · exact .inl ⟨p, hchanMono p id hp⟩
      · exact .inr (ht.clientState id h)
    cases hs : s.cpV2.get id with
    | none =>
      rcases ht.cpV2New id hs h' with h | h
      · exact old (.inl h)
      · exact old (.inr (hi.creatorCS id h))
    | some u => exact old (hi.cpShape id (by rw [hs]; simp))
  · -- recv1
    intro p c q hx
    rcases log_cases ht hx with hold | ⟨_, hev⟩
    · obtain ⟨ch, hc, hcase⟩ := hi.recv1 p c q hold
      obtain ⟨ch', hc', ho⟩ := chan_persists hi ht hc
      refine ⟨ch', hc', ?_⟩
      rcases hcase with ⟨hu, hr⟩ | ⟨hu, n, hn, hq⟩
      · exact .inl ⟨ho ▸ hu, ht.receiptV1 _ hr⟩
      · right
        refine ⟨ho ▸ hu, ?_⟩
        rcases ht.nextRecv p c n hn with h | ⟨h, _⟩ | h
        · exact ⟨n, h, hq⟩
        · exact ⟨n + 1, h, by omega⟩
        · exact absurd h (chan_fresh hi (by rw [hc]; simp))
    · obtain ⟨ch, hc, _, hch, hcase⟩ := hev
      refine ⟨ch, hch ▸ hc, ?_⟩
      rcases hcase with ⟨hu, _, hr, _⟩ | ⟨hu, _, hn⟩
      · exact .inl ⟨hu, hr⟩
      · exact .inr ⟨hu, q + 1, hn, by omega⟩
  · -- recv1Count
    intro p c q
    rcases ht.log with h | ⟨e, h, hev⟩
    · rw [h]; exact hi.recv1Count p c q
    · rw [h, List.count_append]
      by_cases he : e = .recv1 p c q
      · subst he
        have hnot : Event.recv1 p c q ∉ s.log := by
          intro hm
          obtain ⟨ch1, hc1, hcase1⟩ := hi.recv1 p c q hm
          obtain ⟨ch, hc, _, _, hcase⟩ := hev
          rw [hc1] at hc; cases hc
          rcases hcase1 with ⟨hu1, hr1⟩ | ⟨hu1, n, hn1, hq1⟩ <;> rcases hcase with ⟨hu, hr, _⟩ | ⟨hu, hn, _⟩
          · exact hr1 hr
          · rw [hu1] at hu; cases hu
          · rw [hu1] at hu; cases hu
          · rw [hn1] at hn; cases hn; omega
        rw [List.count_eq_zero.mpr hnot]; simp
      · have : List.count (Event.recv1 p c q) [e] = 0 := by
          rw [List.count_eq_zero]; simpa using fun h' => he h'.symm
        rw [this]; exact hi.recv1Count p c q
  · -- recv2
    intro d q e hx hr
    rcases log_cases ht hx with hold | ⟨_, hev⟩
    · exact ht.receiptV2 _ (hi.recv2 d q e hold hr)
    · cases e <;> simp [Event.isRecv2] at hr
      obtain ⟨rfl, rfl⟩ := hr
      exact hev.2
  · -- recv2Count
    intro d q
    rcases ht.log with h | ⟨e, h, hev⟩
    · rw [h]; exact hi.recv2Count d q
    · rw [h]
      apply filter_append_singleton_le (hi.recv2Count d q)
      intro he x hx
      cases hfx : Event.isRecv2 d q x with
      | false => rfl
      | true =>
        exfalso
        have hr := hi.recv2 d q x hx hfx
        cases e <;> simp [Event.isRecv2] at he
        obtain ⟨rfl, rfl⟩ := he
        exact hr hev.1
  · -- commit1
    intro p c q h'
    cases hs : s.commitV1.get (p, c, q) with
    | none =>
      obtain ⟨_, h2, h3⟩ := ht.commitV1New p c q hs h'
      exact ⟨⟨q + 1, h2, by omega⟩, hchanMono p c h3⟩
    | some v =>
      obtain ⟨⟨n, hn, hq⟩, hc⟩ := hi.commit1 p c q (by rw [hs]; simp)
      refine ⟨?_, hchanMono p c hc⟩
      rcases nextSend_mono hi ht hn (.inl ⟨p, hc⟩) with h | h
      · exact ⟨n, h, hq⟩
      · exact ⟨n + 1, h, by omega⟩
  · -- commit2
    intro c q h'
    cases hs : s.commitV2.get (c, q) with
    | none =>
      obtain ⟨_, h2, h3⟩ := ht.commitV2New c q hs h'
      exact ⟨⟨q + 1, h2, by omega⟩, ht.cpV2 c h3⟩
    | some v =>
      obtain ⟨⟨n, hn, hq⟩, hc⟩ := hi.commit2 c q (by rw [hs]; simp)
      refine ⟨?_, ht.cpV2 c hc⟩
      rcases nextSend_mono hi ht hn (.inr hc) with h | h
      · exact ⟨n, h, hq⟩
      · exact ⟨n + 1, h, by omega⟩
  · -- term1
    intro p c q e hx hte
    have fromSend : ∀ n, s.nextSend.get c = some n → q < n → s.chan.get (p, c) ≠ none →
        s'.commitV1.get (p, c, q) = none → s'.commitV1.get (p, c, q) = none ∧
        (∃ n, s'.nextSend.get c = some n ∧ q < n) ∧ s'.chan.get (p, c) ≠ none := by
      intro n hn hq hc hnone
      refine ⟨hnone, ?_, hchanMono p c hc⟩
      rcases nextSend_mono hi ht hn (.inl ⟨p, hc⟩) with h | h
      · exact ⟨n, h, hq⟩
      · exact ⟨n + 1, h, by omega⟩
    rcases log_cases ht hx with hold | ⟨_, hev⟩
    · obtain ⟨hnone, ⟨n, hn, hq⟩, hc⟩ := hi.term1 p c q e hold hte
      apply fromSend n hn hq hc
      cases h' : s'.commitV1.get (p, c, q) with
      | none => rfl
      | some v =>
        obtain ⟨h1, _⟩ := ht.commitV1New p c q hnone (by rw [h']; simp)
        rw [hn] at h1; cases h1; omega
    · cases e <;> simp [Event.isTerm1] at hte
      · obtain ⟨rfl, rfl, rfl⟩ := hte
        obtain ⟨ch, hc, _, _, hcm, hnone, _⟩ := hev
        obtain ⟨⟨n, hn, hq⟩, hcc⟩ := hi.commit1 _ _ _ hcm
        exact fromSend n hn hq hcc hnone
      · obtain ⟨rfl, rfl, rfl⟩ := hte
        obtain ⟨ch, hc, hcm, hnone, _⟩ := hev
        obtain ⟨⟨n, hn, hq⟩, hcc⟩ := hi.commit1 _ _ _ hcm
        exact fromSend n hn hq hcc hnone
  · -- term1Count
    intro p c q
    rcases ht.log with h | ⟨e, h, hev⟩
    · rw [h]; exact hi.term1Count p c q
    · rw [h]
      apply filter_append_singleton_le (hi.term1Count p c q)
      intro he x hx
      cases hfx : Event.isTerm1 p c q x with
      | false => rfl
      | true =>
        exfalso
        have hnone := (hi.term1 p c q x hx hfx).1
        cases e <;> simp [Event.isTerm1] at he
        · obtain ⟨rfl, rfl, rfl⟩ := he
          obtain ⟨ch, _, _, _, hcm, _⟩ := hev
          exact hcm hnone
        · obtain ⟨rfl, rfl, rfl⟩ := he
          obtain ⟨ch, _, hcm, _⟩ := hev
          exact hcm hnone
  · -- term2
    intro c q e hx hte
    have fromSend : ∀ n, s.nextSend.get c = some n → q < n → s.cpV2.get c ≠ none →
        s'.commitV2.get (c, q) = none → s'.commitV2.get (c, q) = none ∧
        (∃ n, s'.nextSend.get c = some n ∧ q < n) ∧ s'.cpV2.get c ≠ none := by
      intro n hn hq hc hnone
      refine ⟨hnone, ?_, ht.cpV2 c hc⟩
      rcases nextSend_mono hi ht hn (.inr hc) with h | h
      · exact ⟨n, h, hq⟩
      · exact ⟨n + 1, h, by omega⟩
    rcases log_cases ht hx with hold | ⟨_, hev⟩
    · obtain ⟨hnone, ⟨n, hn, hq⟩, hc⟩ := hi.term2 c q e hold hte
      apply fromSend n hn hq hc
      cases h' : s'.commitV2.get (c, q) with
      | none => rfl
      | some v =>
        obtain ⟨h1, _⟩ := ht.commitV2New c q hnone (by rw [h']; simp)
        rw [hn] at h1; cases h1; omega
    · cases e <;> simp [Event.isTerm2] at hte
      · obtain ⟨rfl, rfl⟩ := hte
        obtain ⟨hcp, hcm, hnone⟩ := hev
        obtain ⟨⟨n, hn, hq⟩, hcc⟩ := hi.commit2 _ _ hcm
        exact fromSend n hn hq hcc hnone
      · obtain ⟨rfl, rfl⟩ := hte
        obtain ⟨hcp, hcm, hnone⟩ := hev
        obtain ⟨⟨n, hn, hq⟩, hcc⟩ := hi.commit2 _ _ hcm
        exact fromSend n hn hq hcc hnone
  · -- term2Count
    intro c q
    rcases ht.log with h | ⟨e, h, hev⟩
    · rw [h]; exact hi.term2Count c q
    · rw [h]
      apply filter_append_singleton_le (hi.term2Count c q)
      intro he x hx
      cases hfx : Event.isTerm2 c q x with
      | false => rfl
      | true =>
        exfalso
        have hnone := (hi.term2 c q x hx hfx).1
        cases e <;> simp [Event.isTerm2] at he
        · obtain ⟨rfl, rfl⟩ := he
          exact hev.2.1 hnone
        · obtain ⟨rfl, rfl⟩ := he
          exact hev.2.1 hnone

/-- the invariant holds after every history of ops -/
theorem inv_run {s : ChainState} (hi : Inv s) (ops : List Op) : Inv (Chain.run s ops) := by
  induction ops generalizing s with
  | nil => exact hi
  | cons op ops ih =>
    unfold Chain.run
    exact ih (hi.step (step_tr (s' := (Chain.step s op).1) (out := (Chain.step s op).2) rfl))

theorem inv_run_init (ops : List Op) : Inv (Chain.run Chain.init ops) := inv_run Inv.init ops

end IbcVerif.Chain
