/-
  Lemmas for the ICS-27 model (C37): characterisation of `authenticateTx` and of the message loop.
-/
import IbcVerif.Model.Ica
namespace IbcVerif.Ica

variable {σ : Type}

/-- a message the host may execute for the account `a`: type allow-listed, every signer is `a` -/
def Authorized (allow : List String) (a : String) (m : Msg σ) : Prop :=
  containsMsgType allow m.typeURL = true ∧ ∀ s ∈ m.signers, s = a

/-- every handler in turn succeeds, threading the state (ValidateBasic passes, the router knows the type) -/
def HandlersOk : List (Msg σ) → σ → Prop
  | [], _ => True
  | m :: t, s => m.vbOk = true ∧ m.routed = true ∧ ∃ s', m.handler s = some s' ∧ HandlersOk t s'

theorem any_ne_false_iff (l : List String) (a : String) :
    l.any (fun s => s != a) = false ↔ ∀ s ∈ l, s = a := by
  induction l with
  | nil => simp
  | cons h t ih => simp [List.any_cons, ih]

theorem authenticate_go_none (allow : List String) (a : String) (msgs : List (Msg σ)) :
    authenticateTx.go allow a msgs = none ↔ ∀ m ∈ msgs, Authorized allow a m := by
  induction msgs with
  | nil => simp [authenticateTx.go]
  | cons m t ih =>
    simp only [authenticateTx.go, List.mem_cons, forall_eq_or_imp, Authorized]
    cases h1 : containsMsgType allow m.typeURL with
    | false => simp
    | true =>
      cases h2 : m.signers.any (fun s => s != a) with
      | true =>
        have : ¬ ∀ s ∈ m.signers, s = a := by
          intro hc
          have := (any_ne_false_iff m.signers a).mpr hc
          simp [this] at h2
        simp [this]
      | false =>
        have hs := (any_ne_false_iff m.signers a).mp h2
        simp only [Bool.not_true, Bool.false_eq_true, if_false, true_and]
        rw [ih]
        constructor
        · intro h; exact ⟨hs, h⟩
        · intro h; exact h.2

theorem runMsgs_ok_iff (msgs : List (Msg σ)) (s : σ) :
    (∃ s', runMsgs msgs s = .ok s') ↔ HandlersOk msgs s := by
  induction msgs generalizing s with
  | nil => simp [runMsgs, HandlersOk]
  | cons m t ih =>
    simp only [runMsgs, HandlersOk]
    cases h1 : m.vbOk with
    | false => simp
    | true =>
      cases h2 : m.routed with
      | false => simp
      | true =>
        cases hh : m.handler s with
        | none => simp
        | some s1 => simpa using ih s1

end IbcVerif.Ica
