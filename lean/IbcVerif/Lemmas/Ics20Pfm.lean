/-
  Packet-forward-middleware's refund moves keep the tracked total escrow equal to the combined
  escrow-account balance; and they are, on everything the conservation equation looks at, the
  ordinary ICS-20 refund of the forward followed by the reversal of the receive.
-/
import IbcVerif.Model.Ics20Pfm
import IbcVerif.Lemmas.Ics20Escrow
namespace IbcVerif.Ics20
open IbcVerif IbcVerif.Xfer

/-- which of the four branches ran, with its exact effect -/
theorem pfmRefund_ok {cfg : Config} {ch ch' : Chain} {fp fc rp rc : Str} {D : Denom} {n : Nat}
    (h : pfmRefund cfg ch fp fc rp rc D n = .ok ch') :
    ch'.denoms = ch.denoms ∧ ch'.sendEnabled = ch.sendEnabled ∧ ch'.recvEnabled = ch.recvEnabled ∧
    ((D.hasPrefix fp fc = false ∧ D.hasPrefix rp rc = false ∧
        n ≤ ch.bank.bal (cfg.escrowAddr fp fc) (D.ibcDenom cfg.hashHex) ∧
        (∀ a x, ch'.bank.bal a x = moveBal ch.bank.bal (cfg.escrowAddr fp fc) (cfg.escrowAddr rp rc) (D.ibcDenom cfg.hashHex) n a x) ∧
        ch'.bank.supply = ch.bank.supply ∧ ch'.totalEscrow = ch.totalEscrow) ∨
     (D.hasPrefix fp fc = false ∧ D.hasPrefix rp rc = true ∧
        n ≤ ch.bank.bal (cfg.escrowAddr fp fc) (D.ibcDenom cfg.hashHex) ∧ n ≤ ch.bank.supply (D.ibcDenom cfg.hashHex) ∧
        n ≤ ch.totalEscrow (D.ibcDenom cfg.hashHex) ∧
        (∀ a x, ch'.bank.bal a x = if x = D.ibcDenom cfg.hashHex ∧ a = cfg.escrowAddr fp fc then ch.bank.bal a x - n else ch.bank.bal a x) ∧
        (∀ x, ch'.bank.supply x = if x = D.ibcDenom cfg.hashHex then ch.bank.supply x - n else ch.bank.supply x) ∧
        (∀ x, ch'.totalEscrow x = if x = D.ibcDenom cfg.hashHex then ch.totalEscrow x - n else ch.totalEscrow x)) ∨
     (D.hasPrefix fp fc = true ∧ D.hasPrefix rp rc = false ∧
        (∀ a x, ch'.bank.bal a x = if x = D.ibcDenom cfg.hashHex ∧ a = cfg.escrowAddr rp rc then ch.bank.bal a x + n else ch.bank.bal a x) ∧
        (∀ x, ch'.bank.supply x = if x = D.ibcDenom cfg.hashHex then ch.bank.supply x + n else ch.bank.supply x) ∧
        (∀ x, ch'.totalEscrow x = if x = D.ibcDenom cfg.hashHex then ch.totalEscrow x + n else ch.totalEscrow x)) ∨
     (D.hasPrefix fp fc = true ∧ D.hasPrefix rp rc = true ∧ ch' = ch)) := by
  unfold pfmRefund at h
  cases hsdk : sdkValidDenom (D.ibcDenom cfg.hashHex) with
  | false => simp [hsdk] at h
  | true =>
  simp only [hsdk, Bool.not_true, Bool.false_eq_true, if_false] at h
  cases hf : D.hasPrefix fp fc <;> cases hr : D.hasPrefix rp rc <;>
    simp only [hf, hr, Bool.not_true, Bool.not_false, Bool.false_eq_true, if_false, if_true] at h
  · -- escrow → escrow
    split at h
    · cases h
    · rename_i b hb
      injection h with h; subst h
      obtain ⟨hn, hsup, hbal⟩ := Bank.send_some' hb
      exact ⟨rfl, rfl, rfl, Or.inl ⟨rfl, rfl, hn, hbal, hsup, rfl⟩⟩
  · -- escrow → burn
    split at h
    · cases h
    · rename_i b hb
      split at h
      · cases h
      · rename_i b' hb'
        split at h
        · cases h
        · rename_i hte
          injection h with h; subst h
          obtain ⟨hn, hsup, hbal⟩ := Bank.send_some hb
          obtain ⟨hm, hsn, hbal', hsup'⟩ := Bank.burn_some hb'
          refine ⟨rfl, rfl, rfl, Or.inr (Or.inl ⟨rfl, rfl, hn, by rw [← hsup]; exact hsn, by omega, ?_, ?_, ?_⟩)⟩
          · intro a x
            simp only [setTotalEscrow]
            rw [hbal' a x, hbal a x]
            by_cases hx : x = D.ibcDenom cfg.hashHex
            · subst hx
              by_cases ham : a = cfg.moduleAddr <;> by_cases hae : a = cfg.escrowAddr fp fc <;>
                simp [ham, hae] <;> (try subst ham) <;> (try subst hae) <;> simp_all <;> omega
            · simp [hx]
          · intro x
            simp only [setTotalEscrow]
            rw [hsup' x, hsup]
          · intro x
            simp only [setTotalEscrow]
            split_ifs with hx
            · rw [hx]
            · rfl
  · -- mint → escrow
    split at h
    · cases h
    · rename_i b' hb'
      injection h with h; subst h
      obtain ⟨hn, hsup, hbal⟩ := Bank.send_some hb'
      refine ⟨rfl, rfl, rfl, Or.inr (Or.inr (Or.inl ⟨rfl, rfl, ?_, ?_, ?_⟩))⟩
      · intro a x
        simp only [setTotalEscrow]
        rw [hbal a x]
        simp only [Bank.mint_bal]
        by_cases hx : x = D.ibcDenom cfg.hashHex
        · subst hx
          by_cases ham : a = cfg.moduleAddr <;> by_cases hae : a = cfg.escrowAddr rp rc <;>
            simp [ham, hae] <;> (try subst ham) <;> (try subst hae) <;> simp_all <;> omega
        · simp [hx]
      · intro x
        simp only [setTotalEscrow]
        rw [hsup, Bank.mint_supply]
      · intro x
        simp only [setTotalEscrow]
        split_ifs with hx
        · rw [hx]
        · rfl
  · injection h with h
    exact ⟨by rw [h], by rw [h], by rw [h], Or.inr (Or.inr (Or.inr ⟨rfl, rfl, h.symm⟩))⟩

/-- **Each PFM refund move keeps tracked escrow = combined escrow balance.** -/
theorem escOK_pfmRefund {cfg : Config} (ha : Assm cfg) {es : List Str} (hnd : es.Nodup) {ch ch' : Chain}
    {fc rc : Str} {D : Denom} {n : Nat} (h : EscOK cfg es ch) (hfc : fc ∈ es) (hrc : rc ∈ es)
    (hp : pfmRefund cfg ch transferPort fc transferPort rc D n = .ok ch') : EscOK cfg es ch' := by
  obtain ⟨_, _, _, hb⟩ := pfmRefund_ok hp
  rcases hb with ⟨_, _, hn, hbal, _, hte⟩ | ⟨_, _, hn, _, _, hbal, _, hte⟩ | ⟨_, _, hbal, _, hte⟩ | ⟨_, _, rfl⟩
  · -- escrow(fc) → escrow(rc): the combined balance is unchanged
    intro d
    rw [hte, h d]
    by_cases hd' : d ≠ D.ibcDenom cfg.hashHex
    · symm
      congr 1
      apply List.map_congr_left
      intro e _
      rw [hbal]; simp [moveBal, hd']
    have hd : d = D.ibcDenom cfg.hashHex := Classical.not_not.mp hd'
    subst hd
    by_cases hfr : fc = rc
    · subst hfr
      symm
      congr 1
      apply List.map_congr_left
      intro e _
      rw [hbal]
      unfold moveBal
      by_cases he : cfg.escrowAddr transferPort e = cfg.escrowAddr transferPort fc
      · rw [he]; simp; omega
      · simp [he]
    · -- remove n at fc, add n at rc
      have key : (es.map fun e => ch'.bank.bal (cfg.escrowAddr transferPort e) (D.ibcDenom cfg.hashHex)) =
          es.map fun e => (ch.bank.bal (cfg.escrowAddr transferPort e) (D.ibcDenom cfg.hashHex)
            - (if e = fc ∧ True then n else 0)) + (if e = rc ∧ True then n else 0) := by
        apply List.map_congr_left
        intro e _
        rw [hbal]
        unfold moveBal
        have h1 : cfg.escrowAddr transferPort e = cfg.escrowAddr transferPort rc ↔ e = rc :=
          ⟨fun hh => (ha.escInj _ _ _ _ hh).2, fun hh => by rw [hh]⟩
        have h2 : cfg.escrowAddr transferPort e = cfg.escrowAddr transferPort fc ↔ e = fc :=
          ⟨fun hh => (ha.escInj _ _ _ _ hh).2, fun hh => by rw [hh]⟩
        have hrf : rc ≠ fc := fun hh => hfr hh.symm
        have hne : cfg.escrowAddr transferPort rc ≠ cfg.escrowAddr transferPort fc := fun hh => hrf (ha.escInj _ _ _ _ hh).2
        by_cases er : e = rc
        · subst er
          simp [hne, hrf]
        · by_cases ef : e = fc
          · subst ef
            simp [hne.symm, er]
          · have e1 : cfg.escrowAddr transferPort e ≠ cfg.escrowAddr transferPort rc := fun hh => er (h1.mp hh)
            have e2 : cfg.escrowAddr transferPort e ≠ cfg.escrowAddr transferPort fc := fun hh => ef (h2.mp hh)
            simp [e1, e2, er, ef]
      rw [key, sum_map_add_at (fun e => ch.bank.bal (cfg.escrowAddr transferPort e) (D.ibcDenom cfg.hashHex) - (if e = fc ∧ True then n else 0))
        rc True n hnd hrc, sum_map_sub_at _ fc True n hnd hfc (fun _ => hn)]
      have hle := le_sum_of_mem (fun e => ch.bank.bal (cfg.escrowAddr transferPort e) (D.ibcDenom cfg.hashHex)) fc hfc
      simp only [if_true]
      omega
  · exact escOK_unescrow' ha hnd h hfc hn hbal hte
  · -- mint into escrow(rc)
    intro d
    rw [hte d]
    have key : (es.map fun e => ch'.bank.bal (cfg.escrowAddr transferPort e) d) =
        es.map fun e => ch.bank.bal (cfg.escrowAddr transferPort e) d + (if e = rc ∧ d = D.ibcDenom cfg.hashHex then n else 0) := by
      apply List.map_congr_left
      intro e _
      rw [hbal]
      have h1 : cfg.escrowAddr transferPort e = cfg.escrowAddr transferPort rc ↔ e = rc :=
        ⟨fun hh => (ha.escInj _ _ _ _ hh).2, fun hh => by rw [hh]⟩
      by_cases hd : d = D.ibcDenom cfg.hashHex <;> by_cases er : e = rc <;> simp [hd, er, h1]
    rw [key, sum_map_add_at _ _ _ _ hnd hrc, h d]
    split_ifs <;> rfl
  · exact h

/-! ### the refund undoes the receive and the forward of the failed hop -/

/-- the token an ICS-20 receive credits (`OnRecvPacket`: prefix stripped, or destination hop prepended) -/
def recvToken (sp sc dp dc s : Str) : Denom :=
  if (extract s).hasPrefix sp sc then ⟨(extract s).trace.tail, (extract s).base⟩
  else ⟨⟨dp, dc⟩ :: (extract s).trace, (extract s).base⟩

theorem recvToken_coin (H : Str → Str) (sp sc dp dc s : Str) :
    ics20RecvCoinDenom H sp sc dp dc s = (recvToken sp sc dp dc s).ibcDenom H := by
  unfold ics20RecvCoinDenom recvToken
  by_cases h : (extract s).hasPrefix sp sc = true
  · simp [h]
  · simp [h]

/-- **Frame law of a failed forward.**  On the intermediate chain: ICS-20 receives P1 over the refund
    channel `rc` crediting PFM's override receiver `I` (state `ch0 → ch1`); later `I` forwards the received
    token `D` over `fc` (`ch1' → ch2`); later still the forward fails and PFM's refund moves run
    (`ch2' → ch3`); arbitrary other activity in between.  Then on EVERY account and coin, on every
    supply and on every tracked-escrow entry the three changes cancel: the hop leaves no trace.
    (`hunw`: a token that arrived by unescrowing from `rc`'s escrow account is not itself a voucher of
    `rc` — this chain can only have escrowed it there as its source.) -/
theorem pfm_refund_inverts_hop {cfg : Config} {c : Nat} {ch0 ch1 ch1' ch2 ch2' ch3 : Chain}
    {data : PacketData} {sc rc fc : Str} {I : Addr}
    (hrecv : onRecvPacket cfg c ch0 data transferPort sc transferPort rc = .ok ch1)
    (hI : cfg.decode data.receiver = some I)
    (hunw : (extract data.denom).hasPrefix transferPort sc = true →
        (recvToken transferPort sc transferPort rc data.denom).hasPrefix transferPort rc = false)
    (hfwd : sendTransfer cfg c ch1' transferPort fc (recvToken transferPort sc transferPort rc data.denom) data.amount I = .ok ch2)
    (hpfm : pfmRefund cfg ch2' transferPort fc transferPort rc (recvToken transferPort sc transferPort rc data.denom) data.amount = .ok ch3)
    (hI1 : I ≠ cfg.escrowAddr transferPort fc) (hI2 : I ≠ cfg.escrowAddr transferPort rc) :
    (∀ a x, ch1.bank.bal a x + ch2.bank.bal a x + ch3.bank.bal a x =
            ch0.bank.bal a x + ch1'.bank.bal a x + ch2'.bank.bal a x) ∧
    (∀ x, ch1.bank.supply x + ch2.bank.supply x + ch3.bank.supply x =
          ch0.bank.supply x + ch1'.bank.supply x + ch2'.bank.supply x) ∧
    (∀ x, ch1.totalEscrow x + ch2.totalEscrow x + ch3.totalEscrow x =
          ch0.totalEscrow x + ch1'.totalEscrow x + ch2'.totalEscrow x) := by
  obtain ⟨r, hr, _, _, _, hR⟩ := onRecvPacket_effect hrecv
  have hrI : r = I := by rw [hI] at hr; exact (Option.some.inj hr).symm
  subst hrI
  rw [recvToken_coin] at hR
  obtain ⟨_, _, _, hnF, hF⟩ := sendTransfer_effect hfwd
  obtain ⟨_, _, _, hP⟩ := pfmRefund_ok hpfm
  generalize hD : recvToken transferPort sc transferPort rc data.denom = D at *
  generalize hk : D.ibcDenom cfg.hashHex = k at *
  generalize data.amount = n at *
  -- which receive branch ran fixes `D.hasPrefix rc`
  have hrcT : (extract data.denom).hasPrefix transferPort sc = false → D.hasPrefix transferPort rc = true := by
    intro hh
    rw [← hD]
    unfold recvToken
    simp only [hh, Bool.false_eq_true, if_false]
    simp [Denom.hasPrefix]
  rcases hR with ⟨hu, _, hnR, hteR, hbR, hsR, htR⟩ | ⟨hm, _, hbR, hsR, htR⟩
  · -- the receive unescrowed from escrow(rc)
    have hrc := hunw hu
    rcases hF with ⟨hfT, hsnF, hbF, hsF, htF⟩ | ⟨hfF, hbF, hsF, htF⟩
    · -- forward burned: PFM mints back into escrow(rc)
      rcases hP with ⟨h1, _⟩ | ⟨h1, _⟩ | ⟨_, _, hbP, hsP, htP⟩ | ⟨_, h2, _⟩
      · rw [hfT] at h1; cases h1
      · rw [hfT] at h1; cases h1
      · refine ⟨?_, ?_, ?_⟩
        · intro a x
          rw [hbR, hbF, hbP]
          by_cases hx : x = k
          · subst hx
            by_cases haI : a = r <;> by_cases har : a = cfg.escrowAddr transferPort rc <;>
              simp [moveBal, haI, har, hI2, hI2.symm] <;> (try subst haI) <;> (try subst har) <;> omega
          · simp [moveBal, hx]
        · intro x
          rw [hsR, hsF, hsP]
          split_ifs with hx
          · subst hx; omega
          · rfl
        · intro x
          rw [htR, htF, htP]
          split_ifs with hx
          · subst hx; omega
          · rfl
      · rw [hrc] at h2; cases h2
    · -- forward escrowed in escrow(fc): PFM moves escrow(fc) → escrow(rc)
      rcases hP with ⟨_, _, hnP, hbP, hsP, htP⟩ | ⟨_, h2, _⟩ | ⟨h1, _⟩ | ⟨h1, _⟩
      · refine ⟨?_, ?_, ?_⟩
        · intro a x
          rw [hbR, hbF, hbP]
          by_cases hx : x = k
          · subst hx
            by_cases hfr : cfg.escrowAddr transferPort fc = cfg.escrowAddr transferPort rc
            · rw [hfr] at hnP ⊢
              by_cases haI : a = r <;> by_cases har : a = cfg.escrowAddr transferPort rc <;>
                simp [moveBal, haI, har, hI2, hI2.symm] <;> (try subst haI) <;> (try subst har) <;> omega
            · by_cases haI : a = r
              · subst haI
                simp [moveBal, hI1, hI2, hI1.symm, hI2.symm]; omega
              · by_cases har : a = cfg.escrowAddr transferPort rc
                · subst har
                  have : cfg.escrowAddr transferPort rc ≠ cfg.escrowAddr transferPort fc := fun h => hfr h.symm
                  simp [moveBal, hI2.symm, this]; omega
                · by_cases haf : a = cfg.escrowAddr transferPort fc
                  · subst haf
                    simp [moveBal, hI1.symm, hfr]; omega
                  · simp [moveBal, haI, har, haf]
          · simp [moveBal, hx]
        · intro x; rw [hsR, hsF, hsP]
        · intro x
          rw [htR, htF x, htP]
          split_ifs with hx
          · subst hx; omega
          · rfl
      · rw [hrc] at h2; cases h2
      · rw [hfF] at h1; cases h1
      · rw [hfF] at h1; cases h1
  · -- the receive minted the voucher D = rc :: …
    have hrc := hrcT hm
    rcases hF with ⟨hfT, hsnF, hbF, hsF, htF⟩ | ⟨hfF, hbF, hsF, htF⟩
    · -- forward burned it again (bounce over the arrival channel): PFM does nothing
      rcases hP with ⟨h1, _⟩ | ⟨h1, _⟩ | ⟨_, h2, _⟩ | ⟨_, _, rfl⟩
      · rw [hfT] at h1; cases h1
      · rw [hfT] at h1; cases h1
      · rw [hrc] at h2; cases h2
      · refine ⟨?_, ?_, ?_⟩
        · intro a x
          rw [hbR, hbF]
          by_cases hx : x = k <;> by_cases haI : a = r <;> simp [hx, haI] <;> (try subst hx) <;> (try subst haI) <;> omega
        · intro x
          rw [hsR, hsF]
          split_ifs with hx
          · subst hx; omega
          · rfl
        · intro x; rw [htR, htF]
    · -- forward escrowed the voucher in escrow(fc): PFM burns it out of escrow(fc)
      rcases hP with ⟨_, h2, _⟩ | ⟨_, _, hnP, hsnP, hteP, hbP, hsP, htP⟩ | ⟨h1, _⟩ | ⟨h1, _⟩
      · rw [hrc] at h2; cases h2
      · refine ⟨?_, ?_, ?_⟩
        · intro a x
          rw [hbR, hbF, hbP]
          by_cases hx : x = k
          · subst hx
            by_cases haI : a = r
            · subst haI
              simp [moveBal, hI1, hI1.symm]; omega
            · by_cases haf : a = cfg.escrowAddr transferPort fc
              · subst haf
                simp [moveBal, hI1.symm]; omega
              · simp [moveBal, haI, haf]
          · simp [moveBal, hx]
        · intro x
          rw [hsR, hsF, hsP]
          split_ifs with hx
          · subst hx; omega
          · rfl
        · intro x
          rw [htR, htF x, htP]
          split_ifs with hx
          · subst hx; omega
          · rfl
      · rw [hfF] at h1; cases h1
      · rw [hfF] at h1; cases h1

end IbcVerif.Ics20
