import IbcVerif.Model.Height
namespace IbcVerif

/-- comparison on the underlying naturals -/
def cmpNat (ar ah br bh : Nat) : Int :=
  if ar ≠ br then (if ar < br then -1 else 1)
  else (if ah < bh then -1 else if ah = bh then 0 else 1)

theorem Height.compare_toNat (a b : Height) :
    Height.compare a b = cmpNat a.rev.toNat a.h.toNat b.rev.toNat b.h.toNat := by
  simp only [Height.compare, cmpNat, UInt64.lt_iff_toNat_lt, ne_eq, ← UInt64.toNat_inj]

theorem Height.ext_toNat (a b : Height) : a = b ↔ (a.rev.toNat = b.rev.toNat ∧ a.h.toNat = b.h.toNat) := by
  obtain ⟨ar, ah⟩ := a; obtain ⟨br, bh⟩ := b
  simp [← UInt64.toNat_inj]

theorem cmpNat_cases (ar ah br bh : Nat) :
    (cmpNat ar ah br bh = -1 ∧ (ar < br ∨ (ar = br ∧ ah < bh))) ∨
    (cmpNat ar ah br bh = 0 ∧ ar = br ∧ ah = bh) ∨
    (cmpNat ar ah br bh = 1 ∧ (br < ar ∨ (ar = br ∧ bh < ah))) := by
  unfold cmpNat
  by_cases h1 : ar = br
  · by_cases h2 : ah < bh
    · simp [h1, h2]
    · by_cases h3 : ah = bh
      · simp [h1, h3]
      · simp [h1, h2, h3]; omega
  · by_cases h2 : ar < br
    · simp [h1, h2]
    · simp [h1, h2]; omega

theorem Height.gte_iff (a b : Height) :
    Height.gte a b = true ↔ a.rev.toNat > b.rev.toNat ∨ (a.rev.toNat = b.rev.toNat ∧ a.h.toNat ≥ b.h.toNat) := by
  simp only [Height.gte, Height.compare_toNat, decide_eq_true_eq]
  rcases cmpNat_cases a.rev.toNat a.h.toNat b.rev.toNat b.h.toNat with ⟨e, c⟩ | ⟨e, c⟩ | ⟨e, c⟩ <;>
    rw [e] <;> constructor <;> intro hx <;> omega

theorem Height.isZero_iff (a : Height) : Height.isZero a = true ↔ a.rev.toNat = 0 ∧ a.h.toNat = 0 := by
  simp [Height.isZero, ← UInt64.toNat_inj]

end IbcVerif
