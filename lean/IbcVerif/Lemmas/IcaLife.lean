/-
  Lemmas for the ICS-27 channel-lifecycle model (C38): the controller-side invariant
  "an OPEN interchain-account channel is the active channel of its (connection, port); the active
  channel is OPEN or CLOSED", preserved by every op of the two-chain world.
-/
import IbcVerif.Model.Ica
import IbcVerif.Lemmas.RateLimit
namespace IbcVerif.Ica
open IbcVerif.Apps

structure CInv (s : Side) : Prop where
  fresh : ∀ n, s.next ≤ n → s.chan n = none
  openIsActive : ∀ id c, s.chan id = some c → c.state = .opened → KV.get s.active (c.conn, c.port) = some id
  activeSettled : ∀ k id, KV.get s.active k = some id →
    ∃ c, s.chan id = some c ∧ c.conn = k.1 ∧ c.port = k.2 ∧ (c.state = .opened ∨ c.state = .closed)

theorem CInv.empty (en : Bool) : CInv ⟨[], [], [], 0, en⟩ := by
  constructor <;> simp [Side.chan, KV.get]

theorem validateMeta_conn (w : World) (m : Metadata) (c h : String) (hv : validateMeta w m c h = none) :
    m.ctrlConn = c ∧ m.hostConn = h := by
  unfold validateMeta at hv
  split at hv; · cases hv
  split at hv; · cases hv
  split at hv; · cases hv
  split at hv; · cases hv
  rename_i h3 h4
  simp only [bne_iff_ne, ne_eq, Decidable.not_not] at h3 h4
  exact ⟨h3, h4⟩

/-- adding a fresh channel in INIT -/
theorem CInv.addInit {s : Side} (h : CInv s) (c : Chan) (hc : c.state = .init) :
    CInv { s with chans := KV.set s.chans s.next c, next := s.next + 1 } := by
  have hne : ∀ id c', s.chan id = some c' → s.next ≠ id := by
    intro id c' h1 h2
    have := h.fresh id (by omega)
    rw [this] at h1; cases h1
  constructor
  · intro n hn
    simp only [Side.chan, KV.get_set]
    have : s.next ≠ n := by simp only at hn; omega
    simp only [this, if_false]
    exact h.fresh n (by simp only at hn; omega)
  · intro id c' h1 h2
    simp only [Side.chan, KV.get_set] at h1
    by_cases he : s.next = id
    · simp only [he, if_true, Option.some.injEq] at h1
      subst h1; rw [hc] at h2; cases h2
    · simp only [he, if_false] at h1
      exact h.openIsActive id c' h1 h2
  · intro k id h1
    obtain ⟨c', h2, h3⟩ := h.activeSettled k id h1
    refine ⟨c', ?_, h3⟩
    have hn := hne id c' h2
    simp only [Side.chan, KV.get_set, hn, if_false]
    exact h2

/-- ChanOpenAck: channel `cid` (in INIT) becomes OPEN and the active channel of its key, which had no OPEN active channel -/
theorem CInv.ack {s : Side} (h : CInv s) (cid : Nat) (cc : Chan) (hid : Nat) (m : Metadata) (a : String)
    (h1 : s.chan cid = some cc) (h2 : cc.state = .init) (h3 : s.openActive (cc.conn, cc.port) cc.port = none) :
    CInv { s with chans := KV.set s.chans cid { cc with state := .opened, cpChan := some hid, md := some m },
                  active := KV.set s.active (cc.conn, cc.port) cid,
                  addr := KV.set s.addr (cc.conn, cc.port) a } := by
  constructor
  · intro n hn
    simp only [Side.chan, KV.get_set]
    by_cases he : cid = n
    · subst he
      have := h.fresh cid hn
      rw [this] at h1; cases h1
    · simp only [he, if_false]; exact h.fresh n hn
  · intro id c h4 h5
    simp only [Side.chan, KV.get_set] at h4
    by_cases he : cid = id
    · subst he
      simp only [if_true, Option.some.injEq] at h4
      subst h4
      simp [KV.get_set]
    · simp only [he, if_false] at h4
      have hold := h.openIsActive id c h4 h5
      simp only [KV.get_set]
      by_cases hk : (cc.conn, cc.port) = (c.conn, c.port)
      · -- then `id` was an OPEN active channel of the key: contradiction with h3
        exfalso
        have hp : c.port = cc.port := by
          have := congrArg Prod.snd hk; simp at this; exact this.symm
        rw [← hk] at hold
        unfold Side.openActive at h3
        simp only [hold] at h3
        have h4' : s.chan id = some c := h4
        simp [h4', hp, h5] at h3
      · simp only [hk, if_false]; exact hold
  · intro k id h4
    simp only [KV.get_set] at h4
    by_cases hk : (cc.conn, cc.port) = k
    · simp only [hk, if_true, Option.some.injEq] at h4
      subst h4
      refine ⟨{ cc with state := .opened, cpChan := some hid, md := some m }, ?_, ?_, ?_, Or.inl rfl⟩
      · simp [Side.chan, KV.get_set]
      · rw [← hk]
      · rw [← hk]
    · simp only [hk, if_false] at h4
      obtain ⟨c, h5, h6, h7, h8⟩ := h.activeSettled k id h4
      have hne : cid ≠ id := by
        intro he; subst he
        rw [h1] at h5; cases h5
        rcases h8 with h8 | h8 <;> rw [h2] at h8 <;> cases h8
      refine ⟨c, ?_, h6, h7, h8⟩
      simp only [Side.chan, KV.get_set, hne, if_false]
      exact h5

/-- an OPEN channel is closed by core -/
theorem CInv.close {s : Side} (h : CInv s) (cid : Nat) (cc : Chan) (h1 : s.chan cid = some cc) :
    CInv { s with chans := KV.set s.chans cid { cc with state := .closed } } := by
  constructor
  · intro n hn
    simp only [Side.chan, KV.get_set]
    by_cases he : cid = n
    · subst he
      have := h.fresh cid hn
      rw [this] at h1; cases h1
    · simp only [he, if_false]; exact h.fresh n hn
  · intro id c h4 h5
    simp only [Side.chan, KV.get_set] at h4
    by_cases he : cid = id
    · subst he
      simp only [if_true, Option.some.injEq] at h4
      subst h4; cases h5
    · simp only [he, if_false] at h4
      exact h.openIsActive id c h4 h5
  · intro k id h4
    obtain ⟨c, h5, h6, h7, h8⟩ := h.activeSettled k id h4
    by_cases he : cid = id
    · subst he
      rw [h1] at h5; cases h5
      exact ⟨{ cc with state := .closed }, by simp [Side.chan, KV.get_set], h6, h7, Or.inr rfl⟩
    · exact ⟨c, by simp only [Side.chan, KV.get_set, he, if_false]; exact h5, h6, h7, h8⟩

/-! ### the shape of each op's effect on the controller side -/

theorem ctrlInit_shape (w : World) (o : Order) (conn port cp : String) (v : Option (Option Metadata)) :
    let w' := (ctrlInit w o conn port cp v).1
    w'.host = w.host ∧
    (w'.ctrl = w.ctrl ∨ ∃ c : Chan, c.state = .init ∧
      w'.ctrl = { w.ctrl with chans := KV.set w.ctrl.chans w.ctrl.next c, next := w.ctrl.next + 1 }) := by
  unfold ctrlInit
  split
  · exact ⟨rfl, Or.inl rfl⟩
  · split
    · exact ⟨rfl, Or.inl rfl⟩
    · exact ⟨rfl, Or.inr ⟨_, rfl, rfl⟩⟩

theorem register_shape (w : World) (owner conn : String) (v : Option (Option Metadata)) (o : Order) :
    let w' := (register w owner conn v o).1
    w'.host = w.host ∧
    (w'.ctrl = w.ctrl ∨ ∃ c : Chan, c.state = .init ∧
      w'.ctrl = { w.ctrl with chans := KV.set w.ctrl.chans w.ctrl.next c, next := w.ctrl.next + 1 }) := by
  unfold register
  split
  · exact ⟨rfl, Or.inl rfl⟩
  · dsimp only
    split
    · exact ⟨rfl, Or.inl rfl⟩
    · exact ctrlInit_shape w o conn _ _ v

theorem ctrlAck_shape (w : World) (cid hid : Nat) :
    let w' := (ctrlAck w cid hid).1
    w'.host = w.host ∧
    (w' = w ∨ ∃ (cc : Chan) (m : Metadata),
      w.ctrl.chan cid = some cc ∧ cc.state = .init ∧ w.ctrl.openActive (cc.conn, cc.port) cc.port = none ∧
      m.ctrlConn = cc.conn ∧
      w'.ctrl = { w.ctrl with
        chans := KV.set w.ctrl.chans cid { cc with state := .opened, cpChan := some hid, md := some m },
        active := KV.set w.ctrl.active (cc.conn, cc.port) cid,
        addr := KV.set w.ctrl.addr (cc.conn, cc.port) m.address }) := by
  unfold ctrlAck
  split
  · rename_i cc hc hcc hhc
    split
    · exact ⟨rfl, Or.inl rfl⟩
    · rename_i hcore
      split
      · exact ⟨rfl, Or.inl rfl⟩
      · split
        · exact ⟨rfl, Or.inl rfl⟩
        · split
          · exact ⟨rfl, Or.inl rfl⟩
          · split
            · exact ⟨rfl, Or.inl rfl⟩
            · rename_i m hm
              split
              · exact ⟨rfl, Or.inl rfl⟩
              · rename_i hoa
                split
                · exact ⟨rfl, Or.inl rfl⟩
                · rename_i hconn hp
                  split
                  · exact ⟨rfl, Or.inl rfl⟩
                  · rename_i hv
                    split
                    · exact ⟨rfl, Or.inl rfl⟩
                    · have hcn := (validateMeta_conn w m cc.conn hconn hv).1
                      refine ⟨rfl, Or.inr ⟨cc, m, hcc, ?_, ?_, hcn, ?_⟩⟩
                      · simp only [Bool.or_eq_true, bne_iff_ne, ne_eq, not_or, Decidable.not_not] at hcore
                        exact hcore.1.1.1
                      · rw [← hcn]; exact hoa
                      · simp only [hcn]
  · exact ⟨rfl, Or.inl rfl⟩

theorem timeoutClose_shape (w : World) (cid : Nat) :
    let w' := (ctrlTimeoutClose w cid).1
    w'.host = w.host ∧
    (w' = w ∨ ∃ cc : Chan, w.ctrl.chan cid = some cc ∧ cc.state = .opened ∧
      w'.ctrl = { w.ctrl with chans := KV.set w.ctrl.chans cid { cc with state := .closed } }) := by
  unfold ctrlTimeoutClose
  split
  · rename_i cc hcc
    split
    · rename_i hc
      simp only [Bool.and_eq_true, beq_iff_eq] at hc
      exact ⟨rfl, Or.inr ⟨cc, hcc, hc.1, rfl⟩⟩
    · exact ⟨rfl, Or.inl rfl⟩
  · exact ⟨rfl, Or.inl rfl⟩

theorem hostTry_ctrl (w : World) (cid : Nat) : (hostTry w cid).1.ctrl = w.ctrl := by
  unfold hostTry
  repeat' first
    | rfl
    | split
    | dsimp only

theorem hostConfirm_ctrl (w : World) (hid : Nat) : (hostConfirm w hid).1.ctrl = w.ctrl := by
  unfold hostConfirm
  repeat' first
    | rfl
    | split
    | dsimp only

theorem hostCloseConfirm_ctrl (w : World) (hid : Nat) : (hostCloseConfirm w hid).1.ctrl = w.ctrl := by
  unfold hostCloseConfirm
  repeat' first
    | rfl
    | split
    | dsimp only

/-- every op preserves the controller invariant -/
theorem CInv.step {w : World} (h : CInv w.ctrl) (op : Op) : CInv (Ica.step w op).1.ctrl := by
  cases op with
  | register o c v ord =>
    simp only [Ica.step]
    rcases (register_shape w o c v ord).2 with h1 | ⟨ch, hc, h1⟩
    · rw [h1]; exact h
    · rw [h1]; exact h.addInit ch hc
  | init ord c p cp v =>
    simp only [Ica.step]
    rcases (ctrlInit_shape w ord c p cp v).2 with h1 | ⟨ch, hc, h1⟩
    · rw [h1]; exact h
    · rw [h1]; exact h.addInit ch hc
  | hostTry cid => simp only [Ica.step]; rw [hostTry_ctrl]; exact h
  | ctrlAck cid hid =>
    simp only [Ica.step]
    rcases (ctrlAck_shape w cid hid).2 with h1 | ⟨cc, m, h1, h2, h3, _, h5⟩
    · rw [h1]; exact h
    · rw [h5]; exact h.ack cid cc hid m m.address h1 h2 h3
  | hostConfirm hid => simp only [Ica.step]; rw [hostConfirm_ctrl]; exact h
  | timeoutClose cid =>
    simp only [Ica.step]
    rcases (timeoutClose_shape w cid).2 with h1 | ⟨cc, h1, _, h3⟩
    · rw [h1]; exact h
    · rw [h3]; exact h.close cid cc h1
  | hostCloseConfirm hid => simp only [Ica.step]; rw [hostCloseConfirm_ctrl]; exact h
  | hostInit => exact h
  | ctrlTry => exact h
  | closeInit => exact h
  | setEnabled c on =>
    cases c
    · exact h
    · exact ⟨h.fresh, h.openIsActive, h.activeSettled⟩

theorem CInv.run {w : World} (h : CInv w.ctrl) (ops : List Op) : CInv (Ica.run w ops).ctrl := by
  induction ops generalizing w with
  | nil => exact h
  | cons op t ih => exact ih (h.step op)

end IbcVerif.Ica
