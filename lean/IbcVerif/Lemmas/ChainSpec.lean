/-
  Characterisations of the keeper-level functions of the chain model: what a successful call did.
  (Failure never changes state: the functions return `Except`, the msg handlers drop the child.)
-/
import IbcVerif.Model.Chain
import IbcVerif.Lemmas.ChainMap
namespace IbcVerif.Chain
open FMap

/-- split a hypothesis `handler … = .ok s'` along all branches of the handler, discarding the
    branches that return an error -/
macro "esplit " h:ident : tactic =>
  `(tactic| repeat' (split at $h:ident <;> try (first | (cases $h:ident; done) | contradiction)))

theorem sendPacketV1_ok {s s' : ChainState} {env : Env} {port chan : Id} {thRev thH tt seq : Nat} {data : Hex}
    (h : sendPacketV1 s env port chan thRev thH tt data = .ok (s', seq)) :
    ∃ ch, s.chan.get (port, chan) = some ch ∧ ch.state = .opened ∧ s.nextSend.get chan = some seq ∧
      s' = { s with nextSend := s.nextSend.set chan (seq + 1),
                    commitV1 := s.commitV1.set (port, chan, seq) ⟨tt, thRev, thH, data⟩ } := by
  unfold sendPacketV1 at h
  simp only at h
  esplit h
  simp only [Except.ok.injEq, Prod.mk.injEq] at h
  obtain ⟨h1, h2⟩ := h
  subst h2
  exact ⟨_, by assumption, by simp_all, by assumption, h1.symm⟩

theorem applyReplayProtection_ok {s s' : ChainState} {p : PacketV1} {ch : Channel}
    (h : applyReplayProtection s p ch = .ok s') :
    (ch.ordering = .unordered ∧ s.receiptV1.get (p.dp, p.dc, p.seq) = none ∧
      s' = { s with receiptV1 := s.receiptV1.set (p.dp, p.dc, p.seq) () }) ∨
    (ch.ordering = .ordered ∧ s.nextRecv.get (p.dp, p.dc) = some p.seq ∧
      s' = { s with nextRecv := s.nextRecv.set (p.dp, p.dc) (p.seq + 1) }) := by
  unfold applyReplayProtection at h
  simp only at h
  esplit h
  · left
    simp only [Except.ok.injEq] at h
    refine ⟨by assumption, ?_, h.symm⟩
    rw [← has_false_iff]; simp_all
  · right
    rename_i n hn h1 h2
    simp only [Except.ok.injEq] at h
    have : p.seq = n := by simpa using h2
    subst this
    exact ⟨by assumption, hn, h.symm⟩

theorem recvPacketV1_ok {s s' : ChainState} {env : Env} {p : PacketV1}
    (h : recvPacketV1 s env p = .ok s') :
    ∃ ch, s.chan.get (p.dp, p.dc) = some ch ∧ ch.state = .opened ∧ applyReplayProtection s p ch = .ok s' := by
  unfold recvPacketV1 at h
  esplit h
  exact ⟨_, by assumption, by simp_all, h⟩

theorem writeAckV1_ok {s s' : ChainState} {p : PacketV1} {a : Option Hex}
    (h : writeAckV1 s p a = .ok s') :
    ∃ bz ch, a = some bz ∧ bz ≠ "" ∧ s.chan.get (p.dp, p.dc) = some ch ∧ ch.state = .opened ∧
      s.ackV1.get (p.dp, p.dc, p.seq) = none ∧
      s' = { s with ackV1 := s.ackV1.set (p.dp, p.dc, p.seq) bz } := by
  unfold writeAckV1 at h
  simp only at h
  esplit h
  simp only [Except.ok.injEq] at h
  refine ⟨_, _, rfl, by assumption, by assumption, by simp_all, ?_, h.symm⟩
  rw [← has_false_iff]; simp_all

theorem acknowledgePacketV1_ok {s s' : ChainState} {env : Env} {p : PacketV1}
    (h : acknowledgePacketV1 s env p = .ok s') :
    ∃ ch, s.chan.get (p.sp, p.sc) = some ch ∧ ch.state = .opened ∧ s.commitV1.get (p.sp, p.sc, p.seq) = some p.commit ∧
      ((ch.ordering = .ordered ∧ s.nextAck.get (p.sp, p.sc) = some p.seq ∧
          s' = { s with nextAck := s.nextAck.set (p.sp, p.sc) (p.seq + 1),
                        commitV1 := s.commitV1.del (p.sp, p.sc, p.seq) }) ∨
       (ch.ordering ≠ .ordered ∧ s' = { s with commitV1 := s.commitV1.del (p.sp, p.sc, p.seq) })) := by
  unfold acknowledgePacketV1 at h
  esplit h
  all_goals
    simp only [ne_eq, Decidable.not_not, Except.ok.injEq] at *
    subst_vars
  · exact ⟨_, by assumption, by assumption, by assumption, Or.inl ⟨by assumption, by assumption, rfl⟩⟩
  · refine ⟨_, by assumption, by assumption, by assumption, Or.inr ⟨?_, rfl⟩⟩
    intro ho; simp_all

/-- `timeoutExecuted` deletes the commitment and closes an ORDERED channel -/
theorem timeoutExecuted_eq (s : ChainState) (ch : Channel) (p : PacketV1) :
    timeoutExecuted s ch p =
      if ch.ordering = .ordered then
        { s with commitV1 := s.commitV1.del (p.sp, p.sc, p.seq),
                 chan := s.chan.set (p.sp, p.sc) { ch with state := .closed } }
      else { s with commitV1 := s.commitV1.del (p.sp, p.sc, p.seq) } := by
  unfold timeoutExecuted; split <;> rfl

theorem timeoutPacketV1_ok {s s' : ChainState} {env : Env} {p : PacketV1} {nsr phRev phH : Nat}
    (h : timeoutPacketV1 s env p nsr phRev phH = .ok s') :
    ∃ ch, s.chan.get (p.sp, p.sc) = some ch ∧ s.commitV1.get (p.sp, p.sc, p.seq) = some p.commit ∧
      s' = timeoutExecuted s ch p := by
  unfold timeoutPacketV1 at h
  esplit h
  all_goals
    simp only [ne_eq, Decidable.not_not, Except.ok.injEq] at *
    subst_vars
    exact ⟨_, by assumption, by assumption, rfl⟩

theorem timeoutOnCloseV1_ok {s s' : ChainState} {env : Env} {p : PacketV1} {nsr : Nat}
    (h : timeoutOnCloseV1 s env p nsr = .ok s') :
    ∃ ch, s.chan.get (p.sp, p.sc) = some ch ∧ s.commitV1.get (p.sp, p.sc, p.seq) = some p.commit ∧
      s' = timeoutExecuted s ch p := by
  unfold timeoutOnCloseV1 at h
  esplit h
  all_goals
    simp only [ne_eq, Decidable.not_not, Except.ok.injEq] at *
    subst_vars
    exact ⟨_, by assumption, by assumption, rfl⟩

/-! ### IBC v2 -/

theorem bind_ok_iff {α β : Type} (x : Except String α) (f : α → Except String β) (b : β) :
    x.bind f = .ok b ↔ ∃ a, x = .ok a ∧ f a = .ok b := by
  cases x <;> simp [Except.bind]
theorem optGet_ok_iff {α : Type} (o : Option α) (e : String) (a : α) : optGet o e = .ok a ↔ o = some a := by
  cases o <;> simp [optGet]
theorem sendChecksV2_ok {s : ChainState} {env : Env} {src : Id} {tt seq : Nat} {payloads : List Payload} {cpId : Id}
    (h : sendChecksV2 s env src tt payloads = .ok (cpId, seq)) :
    (∃ pfx, s.cpV2.get src = some (cpId, pfx)) ∧ s.nextSend.get src = some seq := by
  unfold sendChecksV2 at h
  simp only [bind_ok_iff, optGet_ok_iff, Except.ok.injEq, Prod.mk.injEq] at h
  obtain ⟨cp, hcp, _, _, n, hn, _, _, _, _, h1, h2⟩ := h
  subst h2
  exact ⟨⟨cp.2, by rw [hcp, ← h1]⟩, hn⟩
theorem sendPacketV2_ok {s s' : ChainState} {env : Env} {src : Id} {tt seq : Nat} {payloads : List Payload}
    (h : sendPacketV2 s env src tt payloads = .ok (s', seq)) :
    ∃ cpId pfx, s.cpV2.get src = some (cpId, pfx) ∧ s.nextSend.get src = some seq ∧
      s' = commitSendV2 s src seq ⟨cpId, tt, payloads⟩ := by
  unfold sendPacketV2 at h
  split at h
  · cases h
  · rename_i cpId n hc
    simp only [Except.ok.injEq, Prod.mk.injEq] at h
    obtain ⟨h1, h2⟩ := h
    subst h2
    obtain ⟨⟨pfx, hp⟩, hn⟩ := sendChecksV2_ok hc
    exact ⟨cpId, pfx, hp, hn, h1.symm⟩
theorem recvPacketV2_ok {s s' : ChainState} {env : Env} {p : PacketV2}
    (h : recvPacketV2 s env p = .ok s') :
    s.cpV2.get p.dst ≠ none ∧ s.receiptV2.get (p.dst, p.seq) = none ∧
      s' = { s with receiptV2 := s.receiptV2.set (p.dst, p.seq) () } := by
  unfold recvPacketV2 at h
  esplit h
  simp only [Except.ok.injEq] at h
  refine ⟨by simp_all, ?_, h.symm⟩
  rw [← has_false_iff]; simp_all

theorem writeAckV2_ok {s s' : ChainState} {p : PacketV2} {acks : List Hex}
    (h : writeAckV2 s p acks = .ok s') :
    ackValidV2 acks = true ∧ (ackSuccessV2 acks = true → acks.length = p.payloads.length) ∧
      s.ackV2.get (p.dst, p.seq) = none ∧ s.receiptV2.get (p.dst, p.seq) ≠ none ∧
      s' = { s with ackV2 := s.ackV2.set (p.dst, p.seq) acks } := by
  unfold writeAckV2 at h
  esplit h
  simp only [Except.ok.injEq] at h
  refine ⟨by simp_all, by simp_all, ?_, ?_, h.symm⟩
  · rw [← has_false_iff]; simp_all
  · rw [← has_iff]; simp_all

theorem asyncWriteAckV2_ok {s s' : ChainState} {dst : Id} {seq : Nat} {acks : List Hex}
    (h : asyncWriteAckV2 s dst seq acks = .ok s') :
    ∃ p s1, s.asyncV2.get (dst, seq) = some p ∧ writeAckV2 s p acks = .ok s1 ∧
      s' = { s1 with asyncV2 := s1.asyncV2.del (dst, seq) } := by
  unfold asyncWriteAckV2 at h
  esplit h
  simp only [Except.ok.injEq] at h
  exact ⟨_, _, by assumption, by assumption, h.symm⟩

theorem acknowledgePacketV2_ok {s s' : ChainState} {env : Env} {p : PacketV2}
    (h : acknowledgePacketV2 s env p = .ok s') :
    s.cpV2.get p.src ≠ none ∧ s.commitV2.get (p.src, p.seq) = some p.commit ∧
      s' = { s with commitV2 := s.commitV2.del (p.src, p.seq) } := by
  unfold acknowledgePacketV2 at h
  esplit h
  simp only [ne_eq, Decidable.not_not, Except.ok.injEq] at *
  subst_vars
  exact ⟨by simp_all, by assumption, rfl⟩

theorem timeoutPacketV2_ok {s s' : ChainState} {env : Env} {p : PacketV2}
    (h : timeoutPacketV2 s env p = .ok s') :
    s.cpV2.get p.src ≠ none ∧ s.commitV2.get (p.src, p.seq) = some p.commit ∧
      s' = { s with commitV2 := s.commitV2.del (p.src, p.seq) } := by
  unfold timeoutPacketV2 at h
  simp only at h
  esplit h
  simp only [ne_eq, Decidable.not_not, Except.ok.injEq] at *
  subst_vars
  exact ⟨by simp_all, by assumption, rfl⟩

end IbcVerif.Chain
