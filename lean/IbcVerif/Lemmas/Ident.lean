import IbcVerif.Model.Ident
import IbcVerif.Lemmas.Split
import IbcVerif.Lemmas.Dec
namespace IbcVerif.Ident
open IbcVerif

theorem splitOn_append_right {α : Type} [DecidableEq α] (sep : α) (t d : List α) (hd : sep ∉ d) :
    splitOn sep (t ++ sep :: d) = splitOn sep t ++ [d] := by
  induction t with
  | nil => simp [splitOn, splitOn_no_sep sep d hd]
  | cons c cs ih =>
    simp only [List.cons_append, splitOn]
    split
    · rw [ih]; rfl
    · rw [ih]
      cases hs : splitOn sep cs with
      | nil => exact absurd hs (splitOn_ne_nil sep cs)
      | cons p ps => simp

theorem splitLastDash_append (t d : List Char) (hd : '-' ∉ d) : splitLastDash (t ++ '-' :: d) = some (t, d) := by
  unfold splitLastDash
  rw [splitOn_append_right '-' t d hd, List.reverse_append]
  cases hs : (splitOn '-' t).reverse with
  | nil =>
    have : splitOn '-' t = [] := by simpa using hs
    exact absurd this (splitOn_ne_nil _ _)
  | cons r rest =>
    simp only [List.reverse_cons, List.reverse_nil, List.nil_append, List.singleton_append]
    have : (r :: rest).reverse = splitOn '-' t := by rw [← hs, List.reverse_reverse]
    simp only [List.reverse_cons] at this
    rw [this, joinOn_splitOn]

theorem dec_length_le_20 (n : Nat) (h : n < 2^64) : (dec n).length ≤ 20 := by
  unfold dec
  rw [Nat.length_toDigits_le_iff (by decide) (by decide)]
  have : (2:Nat)^64 < 10^20 := by decide
  omega

theorem dec_length_pos (n : Nat) : 0 < (dec n).length := Nat.length_toDigits_pos

theorem digits1to20_dec (n : Nat) (h : n < 2^64) : digits1to20 (dec n) = true := by
  unfold digits1to20
  have h1 := dec_length_le_20 n h
  have h2 := dec_length_pos n
  have h3 := dec_all_digits n
  have h4 : (dec n).isEmpty = false := by
    cases hd : dec n with
    | nil => rw [hd] at h2; simp at h2
    | cons _ _ => rfl
  simp [h1, h3, h4]

theorem dash_not_in_dec (n : Nat) : '-' ∉ dec n := not_mem_dec_of_not_digit _ _ (by decide)

theorem format_ne_localhost (t : List Char) (n : Nat) : formatClientIdentifier t n ≠ localhostID := by
  intro h
  have e := splitLastDash_append t (dec n) (dash_not_in_dec n)
  unfold formatClientIdentifier at h
  rw [h] at e
  have e2 : splitLastDash localhostID = some (['0', '9'], ['l', 'o', 'c', 'a', 'l', 'h', 'o', 's', 't']) := by decide
  rw [e2] at e
  have e3 : dec n = ['l', 'o', 'c', 'a', 'l', 'h', 'o', 's', 't'] := by
    have := Option.some.inj e
    exact (Prod.mk.inj this).2.symm
  have := dec_all_digits n
  rw [e3] at this
  revert this; decide

theorem idChar_of_isDigit (c : Char) (h : c.isDigit = true) : idChar c = true := by
  simp [idChar, Char.isAlphanum, h]

theorem dec_all_idChar (n : Nat) : (dec n).all idChar = true := by
  rw [List.all_eq_true]
  intro c hc
  exact idChar_of_isDigit c (List.all_eq_true.mp (dec_all_digits n) c hc)

end IbcVerif.Ident
