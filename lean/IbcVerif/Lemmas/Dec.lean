import IbcVerif.Model.Dec
namespace IbcVerif

theorem dec_all_digits (n : Nat) : (dec n).all Char.isDigit = true := by
  simp only [dec, List.all_eq_true]
  intro c hc
  exact Nat.isDigit_of_mem_toDigits (by decide) (by decide) hc

theorem dec_ne_nil (n : Nat) : dec n ≠ [] := Nat.toDigits_ne_nil

theorem parseUint64_dec (n : Nat) (h : n < 2 ^ 64) : parseUint64 (dec n) = some n := by
  unfold parseUint64
  have h1 : (dec n).isEmpty = false := by
    cases hd : dec n with
    | nil => exact absurd hd (dec_ne_nil n)
    | cons _ _ => rfl
  rw [h1, dec_all_digits]
  simp only [dec, Nat.ofDigitChars_ten_toDigits]
  simp [h]

theorem parseUint64_lt (s : List Char) (n : Nat) (h : parseUint64 s = some n) : n < 2 ^ 64 := by
  unfold parseUint64 at h
  split at h
  · cases h
  · split at h
    · simp only at h
      split at h
      · cases h; assumption
      · cases h
    · cases h

theorem dec_injective {a b : Nat} (h : dec a = dec b) : a = b := by
  have := congrArg (fun l => Nat.ofDigitChars 10 l 0) h
  simpa [dec] using this

theorem not_mem_dec_of_not_digit (c : Char) (n : Nat) (hc : c.isDigit = false) : c ∉ dec n := by
  intro hm
  have := Nat.isDigit_of_mem_toDigits (b := 10) (n := n) (by decide) (by decide) hm
  simp [hc] at this

theorem splitOnChar_no_sep (sep : Char) (s : List Char) (h : sep ∉ s) : splitOnChar sep s = [s] := by
  induction s with
  | nil => rfl
  | cons c cs ih =>
    have hc : c ≠ sep := fun e => h (e ▸ List.mem_cons_self)
    have hcs : sep ∉ cs := fun m => h (List.mem_cons_of_mem _ m)
    simp [splitOnChar, hc, ih hcs]

theorem splitOnChar_append (sep : Char) (a b : List Char) (h : sep ∉ a) :
    splitOnChar sep (a ++ sep :: b) = a :: splitOnChar sep b := by
  induction a with
  | nil => simp [splitOnChar]
  | cons c cs ih =>
    have hc : c ≠ sep := fun e => h (e ▸ List.mem_cons_self)
    have hcs : sep ∉ cs := fun m => h (List.mem_cons_of_mem _ m)
    simp [splitOnChar, hc, ih hcs]

theorem splitOnChar_ne_nil (sep : Char) (s : List Char) : splitOnChar sep s ≠ [] := by
  induction s with
  | nil => simp [splitOnChar]
  | cons c cs ih =>
    simp only [splitOnChar]
    split
    · simp
    · split <;> simp

theorem join_split (sep : Char) (s : List Char) : joinWith sep (splitOnChar sep s) = s := by
  induction s with
  | nil => rfl
  | cons c cs ih =>
    simp only [splitOnChar]
    split
    · rename_i h
      cases hs : splitOnChar sep cs with
      | nil => exact absurd hs (splitOnChar_ne_nil sep cs)
      | cons p ps =>
        rw [hs] at ih
        simp [joinWith, ih, h]
    · cases hs : splitOnChar sep cs with
      | nil => exact absurd hs (splitOnChar_ne_nil sep cs)
      | cons p ps =>
        rw [hs] at ih
        cases ps with
        | nil => simp [joinWith] at ih ⊢; exact ih
        | cons q qs => simp [joinWith] at ih ⊢; exact ih

end IbcVerif
