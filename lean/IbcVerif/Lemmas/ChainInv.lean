/-
  History-level invariants of the chain model, derived from the transition relation `Tr` only.
-/
import IbcVerif.Lemmas.ChainTrOps
import IbcVerif.Lemmas.Dec
namespace IbcVerif.Chain
open FMap

/-! ### identifiers -/

theorem fmtChan_inj {a b : Nat} (h : fmtChan a = fmtChan b) : a = b := by
  unfold fmtChan at h
  exact dec_injective (List.append_cancel_left (String.ofList_inj.mp h))

theorem fmtConn_inj {a b : Nat} (h : fmtConn a = fmtConn b) : a = b := by
  unfold fmtConn at h
  exact dec_injective (List.append_cancel_left (String.ofList_inj.mp h))

theorem fmtClient_inj {t : String} {a b : Nat} (h : fmtClient t a = fmtClient t b) : a = b := by
  unfold fmtClient at h
  have := List.append_cancel_left (String.ofList_inj.mp h)
  exact dec_injective (List.cons.inj this).2

theorem dash_not_mem_dec (n : Nat) : '-' ∉ dec n := not_mem_dec_of_not_digit _ _ (by decide)

/-- a channel identifier is never the identifier of a client of a registered light-client type
    (the registered types do not include "channel") -/
theorem not_isClientId_fmtChan (m : Nat) : ¬ IsClientId (fmtChan m) := by
  rintro ⟨t, n, hp, hreg⟩
  have hsplit : splitLastDash (fmtChan m).toList = some ("channel".toList, dec m) := by
    unfold fmtChan splitLastDash
    rw [String.toList_ofList]
    have h1 : splitOnChar '-' ("channel-".toList ++ dec m) = ["channel".toList, dec m] := by
      have e : "channel-".toList = "channel".toList ++ ['-'] := by decide
      have : "channel-".toList ++ dec m = "channel".toList ++ '-' :: dec m := by
        rw [e, List.append_assoc]; rfl
      rw [this, splitOnChar_append _ _ _ (by decide), splitOnChar_no_sep _ _ (dash_not_mem_dec m)]
    rw [h1]
    rfl
  unfold parseClientId at hp
  split at hp
  · rename_i hl
    -- "channel-…" is not "09-localhost"
    have := congrArg String.toList hl
    unfold fmtChan localhostClient at this
    rw [String.toList_ofList] at this
    have h0 := congrArg List.head? this
    simp at h0
  · rw [hsplit] at hp
    simp only at hp
    repeat' (split at hp <;> try (cases hp; done))
    simp only [Except.ok.injEq, Prod.mk.injEq] at hp
    obtain ⟨h1, _⟩ := hp
    subst h1
    revert hreg
    decide

/-! ### failed / redundant messages change nothing -/

def Out.isOk : Out → Bool
  | .ok _ => true
  | _ => false

/-- close a branch of a handler that returned the original state or a success -/
macro "unch " h:ident : tactic =>
  `(tactic| ((try simp only at $h:ident); (repeat' split at $h:ident) <;>
      (simp only [Prod.mk.injEq] at $h:ident; obtain ⟨h1, h2⟩ := $h:ident; subst h1; subst h2;
        first | rfl | (simp [Out.isOk] at *; done))))

theorem afterTao_unchanged {s s' : ChainState} {env : Env} {r : Except String ChainState} {ev : Event} {app : AppV1}
    {out : Out} (h : afterTao s env r ev app = (s', out)) (hno : out.isOk = false) : s' = s := by
  unfold afterTao at h; unch h

theorem step_unchanged {s s' : ChainState} {op : Op} {out : Out} (h : step s op = (s', out))
    (hno : out.isOk = false) : s' = s := by
  unfold step at h
  simp only at h
  split at h
  · simp only [Prod.mk.injEq] at h; exact h.1.symm
  · split at h
    · unfold msgConnOpenInit at h; unch h
    · unfold msgConnOpenTry at h; unch h
    · unfold msgConnOpenAck at h; unch h
    · unfold msgConnOpenConfirm at h; unch h
    · unfold msgChanOpenInit at h; unch h
    · unfold msgChanOpenTry at h; unch h
    · unfold msgChanOpenAck at h; unch h
    · unfold msgChanOpenConfirm at h; unch h
    · unfold msgChanCloseInit at h; unch h
    · unfold msgChanCloseConfirm at h; unch h
    · unch h
    · unfold msgRecvPacket done at h; unch h
    · unfold msgAcknowledgement at h
      split at h
      · unch h
      · exact afterTao_unchanged h hno
    · unfold msgTimeout at h
      split at h
      · unch h
      · exact afterTao_unchanged h hno
    · unfold msgTimeoutOnClose at h
      split at h
      · unch h
      · exact afterTao_unchanged h hno
    · unfold done at h; unch h
    · unfold msgSendPacketV2 at h; unch h
    · unfold msgRecvPacketV2 done at h; unch h
    · unfold msgAcknowledgementV2 at h; unch h
    · unfold msgTimeoutV2 at h; unch h
    · unfold done at h; unch h
    · unfold msgCreateClient at h; unch h
    · unfold msgUpdateClient at h; unch h
    · unfold msgRegisterCounterparty at h; unch h
    · unfold msgUpdateClientConfig at h; unch h
    · unfold msgDeleteClientCreator at h; unch h
    · unfold msgRecoverClient at h; unch h
    · unfold msgUpdateClientParams at h; unch h
    · unfold msgUpdateConnParams at h; unch h
    · unfold msgIBCSoftwareUpgrade at h; unch h

/-! ### event classification -/

def Event.isRecv2 (d : Id) (q : Nat) : Event → Bool
  | .recv2 d' q' _ => d' = d ∧ q' = q
  | _ => false

/-- terminal outcome (acknowledgement or timeout callback) of the v1 packet `(p, c, q)` -/
def Event.isTerm1 (p c : Id) (q : Nat) : Event → Bool
  | .ack1 p' c' q' _ => p' = p ∧ c' = c ∧ q' = q
  | .timeout1 p' c' q' => p' = p ∧ c' = c ∧ q' = q
  | _ => false

def Event.isTerm2 (c : Id) (q : Nat) : Event → Bool
  | .ack2 c' q' _ => c' = c ∧ q' = q
  | .timeout2 c' q' _ => c' = c ∧ q' = q
  | _ => false

/-! ### the invariant -/

structure Inv (s : ChainState) : Prop where
  chanId : ∀ p c ch, s.chan.get (p, c) = some ch → ∃ m, m < s.nextChanSeq ∧ c = fmtChan m
  clientId : ∀ id, s.clientState.get id ≠ none → IsClientId id
  creatorCS : ∀ id, s.creator.get id ≠ none → s.clientState.get id ≠ none
  cpShape : ∀ id, s.cpV2.get id ≠ none → (∃ p, s.chan.get (p, id) ≠ none) ∨ s.clientState.get id ≠ none
  -- C01
  recv1 : ∀ p c q, Event.recv1 p c q ∈ s.log → ∃ ch, s.chan.get (p, c) = some ch ∧
      ((ch.ordering = .unordered ∧ s.receiptV1.get (p, c, q) ≠ none) ∨
       (ch.ordering = .ordered ∧ ∃ n, s.nextRecv.get (p, c) = some n ∧ q < n))
  recv1Count : ∀ p c q, s.log.count (.recv1 p c q) ≤ 1
  recv2 : ∀ d q e, e ∈ s.log → e.isRecv2 d q = true → s.receiptV2.get (d, q) ≠ none
  recv2Count : ∀ d q, (s.log.filter (Event.isRecv2 d q)).length ≤ 1
  -- C03
  commit1 : ∀ p c q, s.commitV1.get (p, c, q) ≠ none →
      (∃ n, s.nextSend.get c = some n ∧ q < n) ∧ s.chan.get (p, c) ≠ none
  commit2 : ∀ c q, s.commitV2.get (c, q) ≠ none →
      (∃ n, s.nextSend.get c = some n ∧ q < n) ∧ s.cpV2.get c ≠ none
  term1 : ∀ p c q e, e ∈ s.log → e.isTerm1 p c q = true →
      s.commitV1.get (p, c, q) = none ∧ (∃ n, s.nextSend.get c = some n ∧ q < n) ∧ s.chan.get (p, c) ≠ none
  term1Count : ∀ p c q, (s.log.filter (Event.isTerm1 p c q)).length ≤ 1
  term2 : ∀ c q e, e ∈ s.log → e.isTerm2 c q = true →
      s.commitV2.get (c, q) = none ∧ (∃ n, s.nextSend.get c = some n ∧ q < n) ∧ s.cpV2.get c ≠ none
  term2Count : ∀ c q, (s.log.filter (Event.isTerm2 c q)).length ≤ 1

theorem Inv.init : Inv Chain.init := by
  constructor <;> intros <;> simp_all [Chain.init, FMap.get_set, FMap.get_empty]

/-- under the invariant, the send counter of an id that belongs to an existing channel or has a v2
    counterparty is never reset: it stays or grows by one -/
theorem nextSend_mono {s s' : ChainState} (hi : Inv s) (ht : Tr s s') {id : Id} {n : Nat}
    (hn : s.nextSend.get id = some n)
    (hid : (∃ p, s.chan.get (p, id) ≠ none) ∨ s.cpV2.get id ≠ none) :
    s'.nextSend.get id = some n ∨ s'.nextSend.get id = some (n + 1) := by
  rcases ht.nextSend id n hn with h | ⟨h, _⟩ | h | ⟨hcp, hcr⟩
  · exact .inl h
  · exact .inr h
  · -- the id of a brand-new channel: impossible for an id already in use
    exfalso
    have hchan : ∃ p, s.chan.get (p, id) ≠ none := by
      rcases hid with h' | h'
      · exact h'
      · rcases hi.cpShape id h' with h'' | h''
        · exact h''
        · exact absurd (h ▸ hi.clientId id h'') (not_isClientId_fmtChan _)
    obtain ⟨p, hp⟩ := hchan
    cases hc : s.chan.get (p, id) with
    | none => exact hp hc
    | some ch =>
      obtain ⟨m, hm, he⟩ := hi.chanId p id ch hc
      rw [h] at he
      have := fmtChan_inj he
      omega
  · -- registerCounterparty on an id without counterparty: then the id is a client id, not a channel id
    exfalso
    rcases hid with ⟨p, hp⟩ | h'
    · cases hc : s.chan.get (p, id) with
      | none => exact hp hc
      | some ch =>
        obtain ⟨m, _, he⟩ := hi.chanId p id ch hc
        exact not_isClientId_fmtChan m (he ▸ hi.clientId id (hi.creatorCS id hcr))
    · exact h' hcp

/-- an existing channel end survives a step with its ordering -/
theorem chan_persists {s s' : ChainState} (hi : Inv s) (ht : Tr s s') {p c : Id} {ch : Channel}
    (hc : s.chan.get (p, c) = some ch) :
    ∃ ch', s'.chan.get (p, c) = some ch' ∧ ch'.ordering = ch.ordering := by
  rcases ht.chanOld p c ch hc with h | ⟨ch', h1, h2, _⟩
  · obtain ⟨m, hm, he⟩ := hi.chanId p c ch hc
    rw [h] at he; have := fmtChan_inj he; omega
  · exact ⟨ch', h1, h2⟩

theorem chan_fresh {s : ChainState} (hi : Inv s) {p c : Id} (hc : s.chan.get (p, c) ≠ none) :
    c ≠ fmtChan s.nextChanSeq := by
  intro h
  cases hg : s.chan.get (p, c) with
  | none => exact hc hg
  | some ch =>
    obtain ⟨m, hm, he⟩ := hi.chanId p c ch hg
    rw [h] at he; have := fmtChan_inj he; omega

end IbcVerif.Chain
