/-
  Helper lemmas for the 06-solomachine model (property C26): the protobuf encoding of `SignBytes` is
  injective in the sequence number.
-/
import IbcVerif.Model.Solo
import IbcVerif.Lemmas.ProtoVarint
namespace IbcVerif.Solo
open IbcVerif.Proto

/-- base-128 varints are self-delimiting: equal concatenations have equal values and equal remainders -/
theorem encVarint_inj_append (n : Nat) : ∀ (m : Nat) (r r' : Bytes),
    encVarint n ++ r = encVarint m ++ r' → n = m ∧ r = r' := by
  induction n using Nat.strongRecOn with
  | _ n ih =>
    intro m r r' h
    by_cases hn : n < 128
    · by_cases hm : m < 128
      · rw [encVarint_lt n hn, encVarint_lt m hm] at h
        simp only [List.cons_append, List.nil_append, List.cons.injEq] at h
        have := congrArg UInt8.toNat h.1
        simp at this
        exact ⟨by omega, h.2⟩
      · rw [encVarint_lt n hn, encVarint_ge m hm] at h
        simp only [List.cons_append, List.nil_append, List.cons.injEq] at h
        have := congrArg UInt8.toNat h.1
        simp at this
        omega
    · by_cases hm : m < 128
      · rw [encVarint_ge n hn, encVarint_lt m hm] at h
        simp only [List.cons_append, List.nil_append, List.cons.injEq] at h
        have := congrArg UInt8.toNat h.1
        simp at this
        omega
      · rw [encVarint_ge n hn, encVarint_ge m hm] at h
        simp only [List.cons_append, List.cons.injEq] at h
        have h1 := congrArg UInt8.toNat h.1
        simp at h1
        have := ih (n / 128) (by omega) (m / 128) r r' h.2
        exact ⟨by omega, this.2⟩

theorem encVarint_small (n : Nat) (h : n < 128) : encVarint n = [UInt8.ofNat n] := encVarint_lt n h

/-- everything after the sequence field starts (if at all) with a tag byte other than 0x08 -/
theorem rest_head_ne (ts : Nat) (div path data : Bytes) (x : UInt8) (xs : Bytes)
    (h : (if ts = 0 then [] else 16 :: encVarint ts) ++
      (encField 3 div ++ (encField 4 path ++ encField 5 data)) = x :: xs) : x ≠ 8 := by
  by_cases hts : ts = 0
  · simp only [hts, if_true, List.nil_append] at h
    cases div with
    | cons d ds =>
      simp [encField, tagOf, encVarint_small] at h
      rw [← h.1]; decide
    | nil =>
      cases path with
      | cons p ps =>
        simp [encField, tagOf, encVarint_small] at h
        rw [← h.1]; decide
      | nil =>
        cases data with
        | cons p ps =>
          simp [encField, tagOf, encVarint_small] at h
          rw [← h.1]; decide
        | nil => simp [encField] at h
  · simp only [hts, if_false, List.cons_append, List.cons.injEq] at h
    rw [← h.1]; decide

/-- **`SignBytes` encoding is injective in the sequence** -/
theorem encSignBytes_seq_inj (a b : SignBytes) (h : encSignBytes a = encSignBytes b) : a.seq = b.seq := by
  unfold encSignBytes at h
  by_cases ha : a.seq = 0
  · by_cases hb : b.seq = 0
    · omega
    · simp only [ha, if_true, hb, if_false, List.nil_append, List.cons_append] at h
      exact absurd rfl (rest_head_ne a.ts a.div a.path a.data 8 _ h)
  · by_cases hb : b.seq = 0
    · simp only [ha, if_false, hb, if_true, List.nil_append, List.cons_append] at h
      exact absurd rfl (rest_head_ne b.ts b.div b.path b.data 8 _ h.symm)
    · simp only [ha, hb, if_false, List.cons_append, List.cons.injEq, true_and] at h
      exact (encVarint_inj_append a.seq b.seq _ _ h).1

end IbcVerif.Solo
