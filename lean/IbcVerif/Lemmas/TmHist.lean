/-
  Lifting the per-operation facts to the world and to histories (`List Op`).
-/
import IbcVerif.Lemmas.TmStep
namespace IbcVerif.Tm
open IbcVerif

/-- what one world step does to the store of client `cid`: a `StoreStep`, or the client did not exist -/
theorem step_client (w : World) (hw : WInv w) (op : Op) (hok : OpOK w op) (cid : Nat) :
    StoreStep w.now (w.client cid) ((step w op).1.client cid) ∨ w.client cid = Store.empty := by
  cases op with
  | create cs c =>
    rcases createClient_cases w cs c with e | ⟨_, _, e⟩
    · left
      show StoreStep w.now (w.client cid) ((createClient w cs c).1.client cid)
      rw [e]; exact StoreStep.refl _ _
    · by_cases eq : w.nextSeq = cid
      · right; rw [← eq]; exact hw.fresh _ (Nat.le_refl _)
      · left
        show StoreStep w.now (w.client cid) ((createClient w cs c).1.client cid)
        rw [e, client_put_ne _ _ _ _ eq]
        exact StoreStep.refl _ _
  | update c hdr valid =>
    left
    show StoreStep w.now (w.client cid) ((w.put c (updateStore (w.client c) w.now w.self hdr valid).1).client cid)
    rw [client_put]
    by_cases eq : c = cid
    · simp only [eq, ↓reduceIte]; exact storeStep_update _ (hw.stores cid) _ _ _ _
    · simp only [eq, ↓reduceIte]; exact StoreStep.refl _ _
  | misbehaviour c m v1 v2 =>
    left
    show StoreStep w.now (w.client cid) ((w.put c (misbehaviourStore (w.client c) w.now m v1 v2).1).client cid)
    rw [client_put]
    by_cases eq : c = cid
    · simp only [eq, ↓reduceIte]; exact storeStep_misbehaviour _ _ _ _ _
    · simp only [eq, ↓reduceIte]; exact StoreStep.refl _ _
  | advance dt dh => left; exact StoreStep.refl _ _
  | upgrade c u =>
    left
    show StoreStep w.now (w.client cid) ((w.put c (upgradeStore (w.client c) w.now w.self u).1).client cid)
    rw [client_put]
    by_cases eq : c = cid
    · simp only [eq, ↓reduceIte]; exact storeStep_upgrade _ (hw.stores cid) _ _ _
    · simp only [eq, ↓reduceIte]; exact StoreStep.refl _ _
  | recover a b =>
    left
    show StoreStep w.now (w.client cid) ((w.put a (recoverStore (w.client a) (w.client b) w.now).1).client cid)
    rw [client_put]
    by_cases eq : a = cid
    · simp only [eq, ↓reduceIte]
      rw [← eq]
      exact storeStep_recover _ _ (hw.stores a) (hw.stores b).metaInv _
    · simp only [eq, ↓reduceIte]; exact StoreStep.refl _ _
  | pruneAll c =>
    left
    show StoreStep w.now (w.client cid) ((w.put c (pruneAllStore (w.client c) w.now).1).client cid)
    rw [client_put]
    by_cases eq : c = cid
    · simp only [eq, ↓reduceIte]
      have hm : TsMono (w.client c) := hok
      rw [eq] at hm
      exact storeStep_pruneAll _ (hw.stores cid) hm _
    · simp only [eq, ↓reduceIte]; exact StoreStep.refl _ _
  | verifyMembership c r => left; exact StoreStep.refl _ _
  | verifyNonMembership c r => left; exact StoreStep.refl _ _

theorem Later.refl (s : Store) : Later s s := ⟨fun h => h, Nat.le_refl _, fun _ _ e => Or.inl e⟩

theorem later_step (s0 s s' : Store) (now : Int) (h0 : StoreInv s0) (hl : Later s0 s)
    (hstep : StoreStep now s s' ∨ s = Store.empty) : Later s0 s' := by
  rcases hstep with st | e
  · refine ⟨fun h => st.client (hl.client h), Nat.le_trans hl.latest st.latest, ?_⟩
    intro h c e0
    have h0cl : s0.client.isSome = true := h0.hasClient h (has_of_getCons e0)
    have hle0 : hk h ≤ hk s0.latestHeight := by
      cases hc : s0.client with
      | none => rw [hc] at h0cl; exact Bool.noConfusion h0cl
      | some cs0 => rw [latestHeight_of_client hc]; exact h0.below cs0 hc h (has_of_getCons e0)
    rcases hl.kept h c e0 with k | ⟨k, hlow⟩
    · exact st.kept h c k
    · have hn : ¬ s.has h := by unfold Store.has; rw [k]; simp
      have notnew : ∀ x, ¬ s.has x → s'.has x → hk h < hk x := by
        intro x hx hx'
        rcases st.added x hx hx' with ⟨t, ht, lt⟩ | ⟨_, lt⟩
        · have := hlow t ht; omega
        · have := hl.latest; omega
      right
      constructor
      · cases hg : s'.getCons h with
        | none => rfl
        | some c' =>
          have := notnew h hn (has_of_getCons hg); omega
      · intro h' hh'
        by_cases hin : s.has h'
        · exact hlow h' hin
        · exact notnew h' hin hh'
  · subst e
    have hnone : s0.client.isSome ≠ true := fun h => Bool.noConfusion (show false = true from hl.client h)
    refine ⟨fun h => absurd h hnone, ?_, ?_⟩
    · cases hc : s0.client with
      | none => unfold Store.latestHeight; rw [hc]; exact Nat.zero_le _
      | some cs0 => rw [hc] at hnone; exact absurd rfl hnone
    · intro h c e0
      exact absurd (h0.hasClient h (has_of_getCons e0)) hnone

/-- **C20** over histories: whatever was stored is later either unchanged or gone for good -/
theorem later_run (cid : Nat) (s0 : Store) (h0 : StoreInv s0) : ∀ (ops : List Op) (w : World), WInv w → HistOK w ops →
    Later s0 (w.client cid) → Later s0 ((run w ops).client cid)
  | [], _, _, _, hl => hl
  | op :: ops, w, hw, hok, hl =>
    later_run cid s0 h0 ops (step w op).1 (step_winv w hw op) hok.2
      (later_step s0 _ _ w.now h0 hl (step_client w hw op hok.1 cid))

theorem histOK_of_no_pruneAll : ∀ (ops : List Op) (w : World), (∀ op ∈ ops, op.isPruneAll = false) → HistOK w ops
  | [], _, _ => trivial
  | op :: ops, w, h => by
    refine ⟨?_, histOK_of_no_pruneAll ops _ (fun o ho => h o (List.mem_cons_of_mem _ ho))⟩
    have := h op List.mem_cons_self
    cases op <;> simp [Op.isPruneAll] at this <;> trivial

/-- update-like operations keep every client's timestamps monotone -/
theorem step_wtsMono (w : World) (hw : WInv w) (hm : WTsMono w) (op : Op) (hop : op.isUpdateLike = true) :
    WTsMono (step w op).1 := by
  intro cid
  cases op with
  | create cs c =>
    rcases createClient_cases w cs c with e | ⟨_, _, e⟩
    · show TsMono ((createClient w cs c).1.client cid)
      rw [e]; exact hm cid
    · show TsMono ((createClient w cs c).1.client cid)
      rw [e, client_put]
      by_cases eq : w.nextSeq = cid
      · simp only [eq, ↓reduceIte]; exact tsMono_init _ _ _ _
      · simp only [eq, ↓reduceIte]; exact hm cid
  | update c hdr valid =>
    show TsMono ((w.put c (updateStore (w.client c) w.now w.self hdr valid).1).client cid)
    rw [client_put]
    by_cases eq : c = cid
    · simp only [eq, ↓reduceIte]; exact tsMono_update _ (hw.stores cid) (hm cid) _ _ _ _
    · simp only [eq, ↓reduceIte]; exact hm cid
  | misbehaviour c m v1 v2 =>
    show TsMono ((w.put c (misbehaviourStore (w.client c) w.now m v1 v2).1).client cid)
    rw [client_put]
    by_cases eq : c = cid
    · simp only [eq, ↓reduceIte]; exact tsMono_misbehaviour _ (hm cid) _ _ _ _
    · simp only [eq, ↓reduceIte]; exact hm cid
  | advance dt dh => exact hm cid
  | upgrade c u => simp [Op.isUpdateLike] at hop
  | recover a b => simp [Op.isUpdateLike] at hop
  | pruneAll c =>
    show TsMono ((w.put c (pruneAllStore (w.client c) w.now).1).client cid)
    rw [client_put]
    by_cases eq : c = cid
    · simp only [eq, ↓reduceIte]; exact tsMono_pruneAll _ (hw.stores cid) (hm cid) _
    · simp only [eq, ↓reduceIte]; exact hm cid
  | verifyMembership c r => exact hm cid
  | verifyNonMembership c r => exact hm cid

theorem run_wtsMono : ∀ (ops : List Op) (w : World), WInv w → WTsMono w → (∀ op ∈ ops, op.isUpdateLike = true) →
    WTsMono (run w ops)
  | [], _, _, hm, _ => hm
  | op :: ops, w, hw, hm, h =>
    run_wtsMono ops _ (step_winv w hw op) (step_wtsMono w hw hm op (h op List.mem_cons_self))
      (fun o ho => h o (List.mem_cons_of_mem _ ho))

theorem histOK_of_updateLike : ∀ (ops : List Op) (w : World), WInv w → WTsMono w →
    (∀ op ∈ ops, op.isUpdateLike = true) → HistOK w ops
  | [], _, _, _, _ => trivial
  | op :: ops, w, hw, hm, h => by
    refine ⟨?_, histOK_of_updateLike ops _ (step_winv w hw op)
      (step_wtsMono w hw hm op (h op List.mem_cons_self)) (fun o ho => h o (List.mem_cons_of_mem _ ho))⟩
    cases op <;> first | trivial | exact hm _

theorem wtsMono_empty : WTsMono World.empty := fun _ _ _ _ _ e => nomatch e

theorem run_append (w : World) : ∀ (a b : List Op), run w (a ++ b) = run (run w a) b
  | [], _ => rfl
  | op :: a, b => by
    show run (step w op).1 (a ++ b) = run (run (step w op).1 a) b
    exact run_append_aux (step w op).1 a b
where
  run_append_aux (w : World) : ∀ (a b : List Op), run w (a ++ b) = run (run w a) b
    | [], _ => rfl
    | op :: a, b => run_append_aux (step w op).1 a b

end IbcVerif.Tm
