/-
  What one keeper operation can do to the consensus states of a client store (`StoreStep`), and
  preservation of timestamp monotonicity. Used by the property theorems of C20, C21 and C23.
-/
import IbcVerif.Lemmas.TmClient
namespace IbcVerif.Tm
open IbcVerif

/-- summary of one operation on a client store: client state is never lost, the latest height never
    decreases, a stored consensus state is kept unchanged or removed (and then lies below everything that
    remains), a newly stored height lies above a previously stored height or above the old latest height -/
structure StoreStep (now : Int) (s s' : Store) : Prop where
  client : s.client.isSome = true → s'.client.isSome = true
  latest : hk s.latestHeight ≤ hk s'.latestHeight
  kept : ∀ h c, s.getCons h = some c →
    s'.getCons h = some c ∨ (s'.getCons h = none ∧ ∀ h', s'.has h' → hk h < hk h')
  added : ∀ h, ¬ s.has h → s'.has h →
    (∃ t, s.has t ∧ hk t < hk h) ∨ (s.client.isSome = true ∧ hk s.latestHeight < hk h)
  expired : ∀ h c, s.getCons h = some c → s'.getCons h = none →
    ∃ cs, s.client = some cs ∧ isExpired cs.trustingPeriod c.ts now = true

theorem StoreStep.refl (now : Int) (s : Store) : StoreStep now s s :=
  ⟨fun h => h, Nat.le_refl _, fun _ _ e => Or.inl e, fun _ n h => absurd h n,
   fun _ _ e e' => by rw [e] at e'; cases e'⟩

theorem has_of_getCons {s : Store} {h : Height} {c : ConsState} (e : s.getCons h = some c) : s.has h := by
  unfold Store.has; rw [e]; rfl

theorem getCons_of_has {s : Store} {h : Height} (e : s.has h) : ∃ c, s.getCons h = some c := by
  unfold Store.has at e
  cases hc : s.getCons h with
  | none => rw [hc] at e; exact Bool.noConfusion e
  | some c => exact ⟨c, rfl⟩

theorem latestHeight_of_client {s : Store} {cs : ClientState} (e : s.client = some cs) : s.latestHeight = cs.latest := by
  unfold Store.latestHeight; rw [e]

theorem storeStep_freeze (now : Int) (s : Store) (cs : ClientState) (hc : s.client = some cs) :
    StoreStep now s (freeze cs s) := by
  refine ⟨fun _ => rfl, ?_, fun _ _ e => Or.inl e, fun _ n h => absurd h n, ?_⟩
  · rw [latestHeight_of_client hc]
    exact Nat.le_refl _
  · intro h c e e'
    have : (freeze cs s).getCons h = s.getCons h := rfl
    rw [this, e] at e'; cases e'

/-- storing a fresh consensus state above some stored height `t` (update) -/
theorem storeStep_update (s : Store) (hs : StoreInv s) (now : Int) (self : Height) (hdr : Header) (valid : Bool) :
    StoreStep now s (updateStore s now self hdr valid).1 := by
  rcases updateStore_cases s hs now self hdr valid with ⟨e, _⟩ | ⟨cs, hc, _, hv, ⟨_, e⟩ | ⟨_, s1, hp, hcase⟩⟩
  · rw [e]; exact StoreStep.refl now s
  · rw [e]; exact storeStep_freeze now s cs hc
  · obtain ⟨c0, ht, _, _, _, hlt, _⟩ := (verifyHeader_none_iff s hdr valid).mp hv
    have htr : s.has hdr.trusted := has_of_getCons ht
    -- the pruned store: s itself or s without its oldest height m
    have prune : (s1 = s) ∨ (∃ m, IsOldest s m ∧ s1 = (s.delCons m).delMeta m ∧
        ∀ cm, s.getCons m = some cm → isExpired cs.trustingPeriod cm.ts now = true) := by
      rcases pruneOldest_spec s hs.metaInv cs.trustingPeriod now with ⟨m, cm, ho, hcm, hexp, hp'⟩ | ⟨hp', _⟩
      · right; rw [hp] at hp'
        exact ⟨m, ho, Option.some.inj hp', fun cm' e => by rw [hcm] at e; cases e; exact hexp⟩
      · left; rw [hp] at hp'; exact Option.some.inj hp'
    have s1client : s1.client = s.client := by
      rcases prune with e | ⟨m, _, e, _⟩ <;> rw [e] <;> rfl
    have s1sub : ∀ h c, s1.getCons h = some c → s.getCons h = some c := by
      intro h c e
      rcases prune with e' | ⟨m, _, e', _⟩
      · rw [e'] at e; exact e
      · rw [e', getCons_delete] at e
        by_cases eq : m = h
        · simp [eq] at e
        · simpa [eq] using e
    -- kept-or-removed for the pruning part
    have s1kept : ∀ h c, s.getCons h = some c → s1.getCons h = some c ∨
        (s1.getCons h = none ∧ IsOldest s h ∧ isExpired cs.trustingPeriod c.ts now = true) := by
      intro h c e
      rcases prune with e' | ⟨m, ho, e', hexp⟩
      · left; rw [e']; exact e
      · rw [e', getCons_delete]
        by_cases eq : m = h
        · right; subst eq; simp [ho, hexp c e]
        · left; simp [eq, e]
    have oldest_lt : ∀ m, IsOldest s m → s1.getCons m = none → ∀ h', s1.has h' → hk m < hk h' := by
      intro m ho hn h' hh'
      obtain ⟨c', hc'⟩ := getCons_of_has hh'
      have := ho.2 h' (has_of_getCons (s1sub h' c' hc'))
      have ne : m ≠ h' := by intro e; rw [e] at hn; rw [hn] at hc'; cases hc'
      have : hk m ≠ hk h' := fun e => ne (hk_inj.mp e)
      omega
    rcases hcase with ⟨hdup, e⟩ | ⟨hnew, e⟩
    · -- duplicate: only the pruning happened
      rw [e]
      refine ⟨fun h => by rw [s1client]; exact h, ?_, ?_, ?_, ?_⟩
      · unfold Store.latestHeight; rw [s1client]; exact Nat.le_refl _
      · intro h c e'
        rcases s1kept h c e' with k | ⟨k, ho, _⟩
        · exact Or.inl k
        · exact Or.inr ⟨k, oldest_lt h ho k⟩
      · intro h hn hh
        obtain ⟨c', hc'⟩ := getCons_of_has hh
        exact absurd (has_of_getCons (s1sub h c' hc')) hn
      · intro h c e' en
        rcases s1kept h c e' with k | ⟨_, _, hexp⟩
        · rw [k] at en; cases en
        · exact ⟨cs, hc, hexp⟩
    · rw [e]
      have oldest_le_trusted : ∀ m, IsOldest s m → hk m < hk hdr.height := by
        intro m ho; have := ho.2 hdr.trusted htr; omega
      refine ⟨fun _ => rfl, ?_, ?_, ?_, ?_⟩
      · rw [latestHeight_of_client hc]
        show hk cs.latest ≤ hk (if hdr.height.gt cs.latest = true then { cs with latest := hdr.height } else cs).latest
        by_cases g : hdr.height.gt cs.latest = true
        · have := (gt_iff_hk hdr.height cs.latest).mp g
          simp only [g, ↓reduceIte]; omega
        · simp [g]
      · intro h c e'
        rw [getCons_insert]
        show (if hdr.height = h then some hdr.cons else s1.getCons h) = some c ∨ _
        rcases s1kept h c e' with k | ⟨k, ho, _⟩
        · have ne : hdr.height ≠ h := by intro eq; rw [eq] at hnew; exact hnew (has_of_getCons k)
          left; simp [ne, k]
        · have ne : hdr.height ≠ h := by
            intro eq; have := oldest_le_trusted h ho; rw [eq] at this; omega
          right
          refine ⟨by simp only [ne, ↓reduceIte]; exact k, ?_⟩
          intro h' hh'
          rcases (has_insert _ hdr.height hdr.cons self now.toNat h').mp hh' with eq | hin
          · rw [← eq]; exact oldest_le_trusted h ho
          · exact oldest_lt h ho k h' hin
      · intro h hn hh
        rcases (has_insert _ hdr.height hdr.cons self now.toNat h).mp hh with eq | hin
        · left; exact ⟨hdr.trusted, htr, by rw [← eq]; exact hlt⟩
        · have hin' : s1.has h := hin
          obtain ⟨c', hc'⟩ := getCons_of_has hin'
          exact absurd (has_of_getCons (s1sub h c' hc')) hn
      · intro h c e' en
        rw [getCons_insert] at en
        by_cases eq : hdr.height = h
        · simp [eq] at en
        · simp only [eq, ↓reduceIte] at en
          have en' : s1.getCons h = none := en
          rcases s1kept h c e' with k | ⟨_, _, hexp⟩
          · rw [k] at en'; cases en'
          · exact ⟨cs, hc, hexp⟩

theorem storeStep_misbehaviour (s : Store) (now : Int) (m : Misbehaviour) (v1 v2 : Bool) :
    StoreStep now s (misbehaviourStore s now m v1 v2).1 := by
  rcases misbehaviourStore_cases s now m v1 v2 with e | ⟨cs, hc, _, _, _, _, e⟩
  · rw [e]; exact StoreStep.refl now s
  · rw [e]; exact storeStep_freeze now s cs hc

/-- writing a consensus state strictly above the latest height (upgrade, recovery) -/
theorem storeStep_insertAbove (now : Int) (s : Store) (hs : StoreInv s) (cs cs' : ClientState) (hc : s.client = some cs)
    (c : ConsState) (ph : Height) (pt : Nat) (hlt : hk cs.latest < hk cs'.latest) :
    StoreStep now s ((({ s with client := some cs' }).setCons cs'.latest c).setMeta cs'.latest ph pt) := by
  have notin : ¬ s.has cs'.latest := by
    intro hh; have := hs.below cs hc _ hh; omega
  have keep : ∀ h c0, s.getCons h = some c0 →
      ((({ s with client := some cs' }).setCons cs'.latest c).setMeta cs'.latest ph pt).getCons h = some c0 := by
    intro h c0 e
    rw [getCons_insert]
    have ne : cs'.latest ≠ h := by intro eq; rw [eq] at notin; exact notin (has_of_getCons e)
    simp only [ne, ↓reduceIte]
    exact e
  refine ⟨fun _ => rfl, ?_, ?_, ?_, fun h c0 e en => by rw [keep h c0 e] at en; cases en⟩
  · rw [latestHeight_of_client hc]
    show hk cs.latest ≤ hk cs'.latest
    omega
  · intro h c0 e
    left
    rw [getCons_insert]
    have ne : cs'.latest ≠ h := by intro eq; rw [eq] at notin; exact notin (has_of_getCons e)
    simp only [ne, ↓reduceIte]
    exact e
  · intro h hn hh
    rcases (has_insert _ cs'.latest c ph pt h).mp hh with eq | hin
    · right
      refine ⟨by rw [hc]; rfl, ?_⟩
      rw [latestHeight_of_client hc, ← eq]
      exact hlt
    · exact absurd hin hn

theorem storeStep_upgrade (s : Store) (hs : StoreInv s) (now : Int) (self : Height) (u : UpgradeReq) :
    StoreStep now s (upgradeStore s now self u).1 := by
  rcases upgradeStore_cases s now self u with e | ⟨cs, hc, _, _, _, hlt, _, _, _, _, _, _, e⟩
  · rw [e]; exact StoreStep.refl now s
  · rw [e]
    exact storeStep_insertAbove now s hs cs (upgradedClient cs u) hc _ _ _ hlt

theorem storeStep_recover (sj sb : Store) (hs : StoreInv sj) (hb : MetaInv sb) (now : Int) :
    StoreStep now sj (recoverStore sj sb now).1 := by
  rcases recoverStore_cases sj sb hb now with e | ⟨cs, scs, c, ph, pt, hc, _, _, _, hlt, _, _, _, _, e⟩
  · rw [e]; exact StoreStep.refl now sj
  · rw [e]
    exact storeStep_insertAbove now sj hs cs (recoveredClient cs scs _) hc c ph pt hlt

/-- expiry is monotone in the timestamp -/
theorem isExpired_mono {tp now a b : Int} (h : a ≤ b) (e : isExpired tp b now = true) : isExpired tp a now = true := by
  unfold isExpired at *
  simp only [gt_iff_lt, Bool.not_eq_eq_eq_not, Bool.not_true, decide_eq_false_iff_not, Int.not_lt] at *
  omega

theorem storeStep_pruneAll (s : Store) (hs : StoreInv s) (hm : TsMono s) (now : Int) :
    StoreStep now s (pruneAllStore s now).1 := by
  unfold pruneAllStore
  cases hc : s.client with
  | none => exact StoreStep.refl now s
  | some cs =>
    have ⟨_, h2, h3⟩ := pruneAll_spec s hs.metaInv cs.trustingPeriod now
    refine ⟨fun _ => by show (s.pruneAll cs.trustingPeriod now).1.client.isSome = true; rw [h2, hc]; rfl, ?_, ?_, ?_, ?_⟩
    · show hk s.latestHeight ≤ hk (s.pruneAll cs.trustingPeriod now).1.latestHeight
      unfold Store.latestHeight; rw [h2]; exact Nat.le_refl _
    · intro h c e
      show (s.pruneAll cs.trustingPeriod now).1.getCons h = some c ∨ _
      rw [h3 h, e]
      by_cases he : isExpired cs.trustingPeriod c.ts now = true
      · right
        refine ⟨by simp [he], ?_⟩
        intro h' hh'
        have hh'' : ((s.pruneAll cs.trustingPeriod now).1.getCons h').isSome = true := hh'
        rw [h3 h'] at hh''
        cases e' : s.getCons h' with
        | none => rw [e'] at hh''; exact Bool.noConfusion hh''
        | some c' =>
          rw [e'] at hh''
          have ne' : isExpired cs.trustingPeriod c'.ts now = false := by
            cases hx : isExpired cs.trustingPeriod c'.ts now
            · rfl
            · simp [hx] at hh''
          -- h' is not expired, h is: so h' cannot be at or below h
          by_cases lt : hk h < hk h'
          · exact lt
          · exfalso
            have hle : c'.ts ≤ c.ts := by
              by_cases eq : hk h' = hk h
              · have := hk_inj.mp eq; subst this; rw [e] at e'; cases e'; exact Int.le_refl _
              · exact Int.le_of_lt (hm h' h c' c e' e (by omega))
            have := isExpired_mono hle he
            rw [ne'] at this; exact Bool.noConfusion this
      · left; simp [he]
    · intro h hn hh
      have hh'' : ((s.pruneAll cs.trustingPeriod now).1.getCons h).isSome = true := hh
      rw [h3 h] at hh''
      cases e' : s.getCons h with
      | none => rw [e'] at hh''; exact Bool.noConfusion hh''
      | some c' => exact absurd (has_of_getCons e') hn
    · intro h c e en
      have en' : (s.pruneAll cs.trustingPeriod now).1.getCons h = none := en
      rw [h3 h, e] at en'
      refine ⟨cs, hc, ?_⟩
      by_cases he : isExpired cs.trustingPeriod c.ts now = true
      · exact he
      · simp [he] at en'

/-! ### misbehaviour detection on headers, timestamp monotonicity -/

/-- `CheckForMisbehaviour` on a header: a different consensus state at a stored height, or a timestamp
    that is not strictly between those of the true stored neighbours -/
theorem checkHeaderMisbehaviour_iff (s : Store) (inv : MetaInv s) (hdr : Header) :
    checkHeaderMisbehaviour s hdr = true ↔
      (∃ c, s.getCons hdr.height = some c ∧ c ≠ hdr.cons) ∨
      (s.getCons hdr.height = none ∧
        ((∃ p c, IsPrev s hdr.height p ∧ s.getCons p = some c ∧ ¬ c.ts < hdr.ts) ∨
         (∃ n c, IsNext s hdr.height n ∧ s.getCons n = some c ∧ ¬ hdr.ts < c.ts))) := by
  unfold checkHeaderMisbehaviour
  cases hg : s.getCons hdr.height with
  | some c0 => simp
  | none =>
    simp only [reduceCtorEq, false_and, exists_false, false_or, true_and, Bool.or_eq_true]
    have P : (match s.getPrev hdr.height with | some p => !decide (p.ts < hdr.ts) | none => false) = true ↔
        ∃ p c, IsPrev s hdr.height p ∧ s.getCons p = some c ∧ ¬ c.ts < hdr.ts := by
      rcases getPrev_eq s inv hdr.height with ⟨e, hno⟩ | ⟨p, hp, e⟩
      · rw [e]
        simp only [Bool.false_eq_true, false_iff, not_exists, not_and]
        intro p c hp _
        exact absurd hp.2.1 (hno p hp.1)
      · obtain ⟨c, hc⟩ := getCons_of_has hp.1
        rw [e, hc]
        simp only [Bool.not_eq_eq_eq_not, Bool.not_true, decide_eq_false_iff_not]
        constructor
        · intro h; exact ⟨p, c, hp, hc, h⟩
        · rintro ⟨p', c', hp', hc', h⟩
          have := isPrev_unique hp hp'; subst this
          rw [hc] at hc'; cases hc'; exact h
    have N : (match s.getNext hdr.height with | some n => !decide (n.ts > hdr.ts) | none => false) = true ↔
        ∃ n c, IsNext s hdr.height n ∧ s.getCons n = some c ∧ ¬ hdr.ts < c.ts := by
      rcases getNext_eq s inv hdr.height with ⟨e, hno⟩ | ⟨n, hn, e⟩
      · rw [e]
        simp only [Bool.false_eq_true, false_iff, not_exists, not_and]
        intro n c hn _
        exact absurd hn.2.1 (hno n hn.1)
      · obtain ⟨c, hc⟩ := getCons_of_has hn.1
        rw [e, hc]
        simp only [gt_iff_lt, Bool.not_eq_eq_eq_not, Bool.not_true, decide_eq_false_iff_not]
        constructor
        · intro h; exact ⟨n, c, hn, hc, h⟩
        · rintro ⟨n', c', hn', hc', h⟩
          have := isNext_unique hn hn'; subst this
          rw [hc] at hc'; cases hc'; exact h
    exact or_congr P N

theorem tsMono_sub (s s' : Store) (sub : ∀ h c, s'.getCons h = some c → s.getCons h = some c) (hm : TsMono s) :
    TsMono s' :=
  fun h h' c c' e e' lt => hm h h' c c' (sub h c e) (sub h' c' e') lt

/-- a finite non-empty set of stored heights below `x` has a greatest element -/
theorem exists_isPrev (s : Store) (inv : MetaInv s) (x h : Height) (hh : s.has h) (lt : hk h < hk x) :
    ∃ p, IsPrev s x p := by
  rcases getPrev_eq s inv x with ⟨_, hno⟩ | ⟨p, hp, _⟩
  · exact absurd lt (hno h hh)
  · exact ⟨p, hp⟩

theorem exists_isNext (s : Store) (inv : MetaInv s) (x h : Height) (hh : s.has h) (lt : hk x < hk h) :
    ∃ n, IsNext s x n := by
  rcases getNext_eq s inv x with ⟨_, hno⟩ | ⟨n, hn, _⟩
  · exact absurd lt (hno h hh)
  · exact ⟨n, hn⟩

/-- when the neighbour check passes on a monotone store, the new timestamp is above every lower stored
    one and below every higher stored one -/
theorem between_all (s : Store) (inv : MetaInv s) (hm : TsMono s) (hdr : Header)
    (hchk : checkHeaderMisbehaviour s hdr = false) (hnew : s.getCons hdr.height = none) :
    (∀ h c, s.getCons h = some c → hk h < hk hdr.height → c.ts < hdr.ts) ∧
    (∀ h c, s.getCons h = some c → hk hdr.height < hk h → hdr.ts < c.ts) := by
  have hn : ¬ _ := fun c => absurd ((checkHeaderMisbehaviour_iff s inv hdr).mpr c) (by rw [hchk]; simp)
  simp only [not_or, not_and, not_exists] at hn
  have hn2 := hn.2 hnew
  constructor
  · intro h c e lt
    obtain ⟨p, hp⟩ := exists_isPrev s inv hdr.height h (has_of_getCons e) lt
    obtain ⟨cp, hcp⟩ := getCons_of_has hp.1
    have := hn2.1 p cp hp hcp
    simp only [Decidable.not_not] at this
    have hle := hp.2.2 h (has_of_getCons e) lt
    by_cases eq : hk h = hk p
    · have := hk_inj.mp eq; subst this; rw [e] at hcp; cases hcp; exact this
    · have := hm h p c cp e hcp (by omega); omega
  · intro h c e lt
    obtain ⟨n, hnx⟩ := exists_isNext s inv hdr.height h (has_of_getCons e) lt
    obtain ⟨cn, hcn⟩ := getCons_of_has hnx.1
    have := hn2.2 n cn hnx hcn
    simp only [Decidable.not_not] at this
    have hle := hnx.2.2 h (has_of_getCons e) lt
    by_cases eq : hk h = hk n
    · have := hk_inj.mp eq; subst this; rw [e] at hcn; cases hcn; exact this
    · have := hm n h cn c hcn e (by omega); omega

theorem tsMono_insert (s : Store) (hm : TsMono s) (x : Option ClientState) (hh : Height) (c : ConsState) (ph : Height) (pt : Nat)
    (below : ∀ h c0, s.getCons h = some c0 → hk h < hk hh → c0.ts < c.ts)
    (above : ∀ h c0, s.getCons h = some c0 → hk hh < hk h → c.ts < c0.ts) :
    TsMono ((({ s with client := x }).setCons hh c).setMeta hh ph pt) := by
  intro h h' c1 c2 e1 e2 lt
  rw [getCons_insert] at e1 e2
  by_cases a : hh = h
  · by_cases b : hh = h'
    · rw [← a, ← b] at lt; omega
    · simp only [a, ↓reduceIte, Option.some.injEq] at e1
      simp only [b, ↓reduceIte] at e2
      rw [← e1]; exact above h' c2 e2 (by rw [a]; exact lt)
  · by_cases b : hh = h'
    · simp only [a, ↓reduceIte] at e1
      simp only [b, ↓reduceIte, Option.some.injEq] at e2
      rw [← e2]; exact below h c1 e1 (by rw [b]; exact lt)
    · simp only [a, ↓reduceIte] at e1
      simp only [b, ↓reduceIte] at e2
      exact hm h h' c1 c2 e1 e2 lt

/-- **C23 core**: an update keeps stored timestamps strictly increasing with height -/
theorem tsMono_update (s : Store) (hs : StoreInv s) (hm : TsMono s) (now : Int) (self : Height) (hdr : Header) (valid : Bool) :
    TsMono (updateStore s now self hdr valid).1 := by
  rcases updateStore_cases s hs now self hdr valid with ⟨e, _⟩ | ⟨cs, hc, _, hv, ⟨_, e⟩ | ⟨hchk, s1, hp, hcase⟩⟩
  · rw [e]; exact hm
  · rw [e]; exact tsMono_sub s _ (fun _ _ e => e) hm
  · obtain ⟨s1', hp', inv1, _, sub⟩ := storeInv_pruneOldest s hs cs.trustingPeriod now
    rw [hp] at hp'; cases hp'
    have hm1 : TsMono s1 := tsMono_sub s s1 sub hm
    rcases hcase with ⟨_, e⟩ | ⟨hnew, e⟩
    · rw [e]; exact hm1
    · rw [e]
      -- the height is new in s as well: otherwise it would have been pruned, but it lies above the trusted height
      obtain ⟨c0, ht, _, _, _, hlt, _⟩ := (verifyHeader_none_iff s hdr valid).mp hv
      have hnew_s : s.getCons hdr.height = none := by
        cases hg : s.getCons hdr.height with
        | none => rfl
        | some cx =>
          exfalso
          rcases pruneOldest_spec s hs.metaInv cs.trustingPeriod now with ⟨m, _, ho, _, _, hp'⟩ | ⟨hp', _⟩
          · rw [hp] at hp'
            have e1 := Option.some.inj hp'
            have : hk m ≤ hk hdr.trusted := ho.2 _ (has_of_getCons ht)
            have ne : m ≠ hdr.height := by intro eq; rw [eq] at this; omega
            apply hnew
            rw [e1]
            exact (has_delete s m hdr.height).mpr ⟨ne, has_of_getCons hg⟩
          · rw [hp] at hp'
            have e1 := Option.some.inj hp'
            apply hnew; rw [e1]; exact has_of_getCons hg
      have ⟨b1, b2⟩ := between_all s hs.metaInv hm hdr hchk hnew_s
      exact tsMono_insert s1 hm1 _ hdr.height hdr.cons self now.toNat
        (fun h c0 e0 lt => b1 h c0 (sub h c0 e0) lt) (fun h c0 e0 lt => b2 h c0 (sub h c0 e0) lt)

theorem tsMono_misbehaviour (s : Store) (hm : TsMono s) (now : Int) (m : Misbehaviour) (v1 v2 : Bool) :
    TsMono (misbehaviourStore s now m v1 v2).1 := by
  rcases misbehaviourStore_cases s now m v1 v2 with e | ⟨cs, _, _, _, _, _, e⟩
  · rw [e]; exact hm
  · rw [e]; exact tsMono_sub s _ (fun _ _ e => e) hm

theorem tsMono_pruneAll (s : Store) (hs : StoreInv s) (hm : TsMono s) (now : Int) : TsMono (pruneAllStore s now).1 := by
  unfold pruneAllStore
  cases hc : s.client with
  | none => exact hm
  | some cs =>
    have ⟨_, _, h3⟩ := pruneAll_spec s hs.metaInv cs.trustingPeriod now
    apply tsMono_sub s _ _ hm
    intro h c e
    have e' : (s.pruneAll cs.trustingPeriod now).1.getCons h = some c := e
    rw [h3 h] at e'
    cases hg : s.getCons h with
    | none => rw [hg] at e'; cases e'
    | some c0 =>
      rw [hg] at e'
      by_cases he : isExpired cs.trustingPeriod c0.ts now = true
      · simp [he] at e'
      · simpa [he] using e'

theorem tsMono_init (cs : ClientState) (c : ConsState) (now : Int) (self : Height) : TsMono (initClient cs c now self) := by
  unfold initClient
  apply tsMono_insert Store.empty (fun _ _ _ _ e => nomatch e)
  · intro h c0 e; cases e
  · intro h c0 e; cases e

end IbcVerif.Tm
