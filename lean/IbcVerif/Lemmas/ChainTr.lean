/-
  `Tr s s'` — the transition relation every `step` satisfies: a union bound of what the handlers
  can do to the protocol-relevant part of the state, stated field by field.  It is proved once per
  handler (`tr_*`), then `step_tr` assembles them; all history-level invariants (Lemmas/ChainInv)
  are derived from `Tr` alone, never by looking at handler code again.
-/
import IbcVerif.Lemmas.ChainSpec
namespace IbcVerif.Chain
open FMap

/-- allowed changes of a channel end's state by one step -/
def ChanTrans (a b : ChanState) : Prop :=
  a = b ∨ (a = .init ∧ b = .opened) ∨ (a = .tryopen ∧ b = .opened) ∨ (a ≠ .closed ∧ b = .closed)

/-- what must be true of the step that appended callback event `e` to the log -/
def EvOK (s s' : ChainState) : Event → Prop
  | .recv1 p c q => ∃ ch, s.chan.get (p, c) = some ch ∧ ch.state = .opened ∧ s'.chan = s.chan ∧
      ((ch.ordering = .unordered ∧ s.receiptV1.get (p, c, q) = none ∧ s'.receiptV1.get (p, c, q) ≠ none ∧ s'.nextRecv = s.nextRecv) ∨
       (ch.ordering = .ordered ∧ s.nextRecv.get (p, c) = some q ∧ s'.nextRecv.get (p, c) = some (q + 1)))
  | .recv2 d q _ => s.receiptV2.get (d, q) = none ∧ s'.receiptV2.get (d, q) ≠ none
  | .ack1 p c q _ => ∃ ch, s.chan.get (p, c) = some ch ∧ ch.state = .opened ∧ s'.chan = s.chan ∧
      s.commitV1.get (p, c, q) ≠ none ∧ s'.commitV1.get (p, c, q) = none ∧
      (ch.ordering = .ordered → s.nextAck.get (p, c) = some q ∧ s'.nextAck.get (p, c) = some (q + 1))
  | .timeout1 p c q => ∃ ch, s.chan.get (p, c) = some ch ∧
      s.commitV1.get (p, c, q) ≠ none ∧ s'.commitV1.get (p, c, q) = none ∧
      (ch.ordering = .ordered → ∃ ch', s'.chan.get (p, c) = some ch' ∧ ch'.state = .closed)
  | .ack2 c q _ => s.cpV2.get c ≠ none ∧ s.commitV2.get (c, q) ≠ none ∧ s'.commitV2.get (c, q) = none
  | .timeout2 c q _ => s.cpV2.get c ≠ none ∧ s.commitV2.get (c, q) ≠ none ∧ s'.commitV2.get (c, q) = none
  | .send2 .. => True
  | .hs .. => True

/-- identifiers of clients created through the registered light-client modules -/
def IsClientId (id : Id) : Prop :=
  ∃ t n, parseClientId id = .ok (t, n) ∧ registeredClientTypes.contains t = true

macro "tr_auto" : tactic =>
  `(tactic| (intros; first
    | (simp_all [FMap.get_set, FMap.get_del, ChainState.logAdd, ChainState.appWrite]; done)
    | omega
    | (left; rfl)
    | (simp only [FMap.get_set, FMap.get_del, ChainState.logAdd, ChainState.appWrite] at *; split <;> simp_all; done)
    | (simp only [FMap.get_set, FMap.get_del, ChainState.logAdd, ChainState.appWrite] at *; split at * <;> simp_all; done)
    | (refine Or.inr ⟨_, by simp_all [FMap.get_set, FMap.get_del, ChainState.logAdd, ChainState.appWrite], rfl, rfl, rfl, Or.inl rfl, by simp⟩)))

structure Tr (s s' : ChainState) : Prop where
  log : s'.log = s.log ∨ ∃ e, s'.log = s.log ++ [e] ∧ EvOK s s' e
  -- channels
  chanOld : ∀ p c ch, s.chan.get (p, c) = some ch → c = fmtChan s.nextChanSeq ∨
      ∃ ch', s'.chan.get (p, c) = some ch' ∧ ch'.ordering = ch.ordering ∧ ch'.cpPort = ch.cpPort ∧ ch'.hops = ch.hops ∧
        ChanTrans ch.state ch'.state ∧
        ((ch'.version ≠ ch.version ∨ ch'.cpChan ≠ ch.cpChan) → ch.state = .init ∧ ch'.state = .opened) := by tr_auto
  chanNew : ∀ p c ch', s.chan.get (p, c) = none → s'.chan.get (p, c) = some ch' →
      c = fmtChan s.nextChanSeq ∧ s'.nextChanSeq = s.nextChanSeq + 1 ∧ (ch'.state = .init ∨ ch'.state = .tryopen) ∧
      s'.nextRecv.get (p, c) = some 1 ∧ s'.nextAck.get (p, c) = some 1 ∧ s'.nextSend.get c = some 1 := by tr_auto
  nChan : s.nextChanSeq ≤ s'.nextChanSeq := by tr_auto
  nConn : s.nextConnSeq ≤ s'.nextConnSeq := by tr_auto
  nClient : s.nextClientSeq ≤ s'.nextClientSeq := by tr_auto
  -- packet receipts / counters
  receiptV1 : ∀ k, s.receiptV1.get k ≠ none → s'.receiptV1.get k ≠ none := by tr_auto
  receiptV2 : ∀ k, s.receiptV2.get k ≠ none → s'.receiptV2.get k ≠ none := by tr_auto
  nextRecv : ∀ p c n, s.nextRecv.get (p, c) = some n →
      s'.nextRecv.get (p, c) = some n ∨
      (s'.nextRecv.get (p, c) = some (n + 1) ∧ s'.log = s.log ++ [.recv1 p c n]) ∨
      c = fmtChan s.nextChanSeq := by tr_auto
  nextAck : ∀ p c n, s.nextAck.get (p, c) = some n →
      s'.nextAck.get (p, c) = some n ∨
      (s'.nextAck.get (p, c) = some (n + 1) ∧ ∃ a, s'.log = s.log ++ [.ack1 p c n a]) ∨
      c = fmtChan s.nextChanSeq := by tr_auto
  nextSend : ∀ id n, s.nextSend.get id = some n →
      s'.nextSend.get id = some n ∨ s'.nextSend.get id = some (n + 1) ∨
      id = fmtChan s.nextChanSeq ∨ (s.cpV2.get id = none ∧ s.creator.get id ≠ none) := by tr_auto
  -- commitments are created only by sends, at the current send counter
  commitV1New : ∀ p c q, s.commitV1.get (p, c, q) = none → s'.commitV1.get (p, c, q) ≠ none →
      s.nextSend.get c = some q ∧ s'.nextSend.get c = some (q + 1) ∧ s.chan.get (p, c) ≠ none := by tr_auto
  commitV2New : ∀ c q, s.commitV2.get (c, q) = none → s'.commitV2.get (c, q) ≠ none →
      s.nextSend.get c = some q ∧ s'.nextSend.get c = some (q + 1) ∧ s.cpV2.get c ≠ none := by tr_auto
  -- v2 counterparties / clients
  cpV2 : ∀ id, s.cpV2.get id ≠ none → s'.cpV2.get id ≠ none := by tr_auto
  cpV2New : ∀ id, s.cpV2.get id = none → s'.cpV2.get id ≠ none →
      (∃ p, s.chan.get (p, id) ≠ none) ∨ s.creator.get id ≠ none := by tr_auto
  clientState : ∀ id, s.clientState.get id ≠ none → s'.clientState.get id ≠ none := by tr_auto
  clientStateNew : ∀ id, s.clientState.get id = none → s'.clientState.get id ≠ none →
      IsClientId id ∧ (∃ t, id = fmtClient t s.nextClientSeq) ∧ s'.nextClientSeq = s.nextClientSeq + 1 := by tr_auto
  creatorNew : ∀ id, s.creator.get id = none → s'.creator.get id ≠ none → s'.clientState.get id ≠ none := by tr_auto
  -- acknowledgements are write-once
  ackV1 : ∀ k v, s.ackV1.get k = some v → s'.ackV1.get k = some v := by tr_auto
  ackV2 : ∀ k v, s.ackV2.get k = some v → s'.ackV2.get k = some v := by tr_auto

theorem Tr.refl (s : ChainState) : Tr s s := { log := .inl rfl }

/-- an op that leaves the protocol-relevant fields alone -/
theorem Tr.of_eq {s s' : ChainState}
    (h1 : s'.log = s.log) (h2 : s'.chan = s.chan) (h3 : s'.nextChanSeq = s.nextChanSeq)
    (h4 : s'.nextConnSeq = s.nextConnSeq) (h5 : s'.nextClientSeq = s.nextClientSeq)
    (h6 : s'.receiptV1 = s.receiptV1) (h7 : s'.receiptV2 = s.receiptV2) (h8 : s'.nextRecv = s.nextRecv)
    (h9 : s'.nextAck = s.nextAck) (h10 : s'.nextSend = s.nextSend) (h11 : s'.commitV1 = s.commitV1)
    (h12 : s'.commitV2 = s.commitV2) (h13 : s'.cpV2 = s.cpV2) (h14 : s'.clientState = s.clientState)
    (h15 : s'.creator.get = s.creator.get ∨ ∀ id, s'.creator.get id ≠ none → s.creator.get id ≠ none)
    (h16 : s'.ackV1 = s.ackV1) (h17 : s'.ackV2 = s.ackV2) : Tr s s' :=
  { log := .inl h1
    creatorNew := by
      intro id hn hs
      rcases h15 with h | h
      · rw [h] at hs; exact absurd hn hs
      · exact absurd hn (h id hs) }

end IbcVerif.Chain
