/-
  `Tr s s'` — the transition relation every `step` satisfies: a union bound of what the handlers
  can do to the protocol-relevant part of the state, stated field by field.  It is proved once per
  handler (`tr_*`), then `step_tr` assembles them; all history-level invariants (Lemmas/ChainInv)
  are derived from `Tr` alone, never by looking at handler code again.
-/
import IbcVerif.Lemmas.ChainSpec
namespace IbcVerif.Chain
open FMap

/-- allowed changes of a channel end's state by one step -/
def ChanTrans (a b : ChanState) : Prop :=
  a = b ∨ (a = .init ∧ b = .opened) ∨ (a = .tryopen ∧ b = .opened) ∨ (a ≠ .closed ∧ b = .closed)

/-- `e` records a successful send on `id` that was given sequence `q` -/
def Event.isSend (id : Id) (q : Nat) : Event → Bool
  | .send1 _ c q' => c = id ∧ q' = q
  | .send2 c q' _ => c = id ∧ q' = q
  | _ => false

/-- allowed changes of a connection end by one step; an OPEN end only admits the first disjunct
    (the two others start from INIT / TRYOPEN) -/
def ConnStep (e e' : ConnEnd) : Prop :=
  e' = e ∨
  (e.state = .init ∧ e'.state = .opened ∧ e'.client = e.client ∧ e'.cpClient = e.cpClient ∧
    e'.cpPrefix = e.cpPrefix ∧ e'.delay = e.delay ∧ ∃ v, e'.versions = [v] ∧ isSupportedVersion e.versions v = true) ∨
  (e.state = .tryopen ∧ e' = { e with state := .opened })

/-- what must be true of the step that appended callback event `e` to the log -/
def EvOK (s s' : ChainState) : Event → Prop
  | .recv1 p c q => ∃ ch, s.chan.get (p, c) = some ch ∧ ch.state = .opened ∧ s'.chan = s.chan ∧
      ((ch.ordering = .unordered ∧ s.receiptV1.get (p, c, q) = none ∧ s'.receiptV1.get (p, c, q) ≠ none ∧ s'.nextRecv = s.nextRecv) ∨
       (ch.ordering = .ordered ∧ s.nextRecv.get (p, c) = some q ∧ s'.nextRecv.get (p, c) = some (q + 1)))
  | .recv2 d q _ => s.receiptV2.get (d, q) = none ∧ s'.receiptV2.get (d, q) ≠ none
  | .ack1 p c q _ => ∃ ch, s.chan.get (p, c) = some ch ∧ ch.state = .opened ∧ s'.chan = s.chan ∧
      s.commitV1.get (p, c, q) ≠ none ∧ s'.commitV1.get (p, c, q) = none ∧
      (ch.ordering = .ordered → s.nextAck.get (p, c) = some q ∧ s'.nextAck.get (p, c) = some (q + 1))
  | .timeout1 p c q => ∃ ch, s.chan.get (p, c) = some ch ∧
      s.commitV1.get (p, c, q) ≠ none ∧ s'.commitV1.get (p, c, q) = none ∧
      (ch.ordering = .ordered → ∃ ch', s'.chan.get (p, c) = some ch' ∧ ch'.state = .closed)
  | .ack2 c q _ => s.cpV2.get c ≠ none ∧ s.commitV2.get (c, q) ≠ none ∧ s'.commitV2.get (c, q) = none
  | .timeout2 c q _ => s.cpV2.get c ≠ none ∧ s.commitV2.get (c, q) ≠ none ∧ s'.commitV2.get (c, q) = none
  | .send1 _ c q => s.nextSend.get c = some q ∧ s'.nextSend.get c = some (q + 1)
  | .send2 c q _ => s.nextSend.get c = some q ∧ s'.nextSend.get c = some (q + 1)
  | .hs k _ c => (k = "init" ∨ k = "try") → c = fmtChan s.nextChanSeq ∧ s'.nextChanSeq = s.nextChanSeq + 1
  | .genClient id => (∃ t, id = fmtClient t s.nextClientSeq) ∧ s'.nextClientSeq = s.nextClientSeq + 1
  | .genConn id => id = fmtConn s.nextConnSeq ∧ s'.nextConnSeq = s.nextConnSeq + 1

/-- identifiers of clients created through the registered light-client modules -/
def IsClientId (id : Id) : Prop :=
  ∃ t n, parseClientId id = .ok (t, n) ∧ registeredClientTypes.contains t = true

macro "tr_auto" : tactic =>
  `(tactic| (intros; first
    | (simp_all [FMap.get_set, FMap.get_del, ChainState.logAdd, ChainState.appWrite]; done)
    | omega
    | (left; rfl)
    | (simp only [FMap.get_set, FMap.get_del, ChainState.logAdd, ChainState.appWrite] at *; split <;> simp_all; done)
    | (simp only [FMap.get_set, FMap.get_del, ChainState.logAdd, ChainState.appWrite] at *; split at * <;> simp_all; done)
    | (refine Or.inr ⟨_, by simp_all [FMap.get_set, FMap.get_del, ChainState.logAdd, ChainState.appWrite], rfl, rfl, rfl, Or.inl rfl, by simp⟩)
    | (refine Or.inr ⟨_, by simp_all [FMap.get_set, FMap.get_del, ChainState.logAdd, ChainState.appWrite], Or.inl rfl⟩)
    | (left; simp_all [FMap.get_set, FMap.get_del, ChainState.logAdd, ChainState.appWrite]; done)))

structure Tr (s s' : ChainState) : Prop where
  log : s'.log = s.log ∨ ∃ e, s'.log = s.log ++ [e] ∧ EvOK s s' e
  -- channels
  chanOld : ∀ p c ch, s.chan.get (p, c) = some ch → c = fmtChan s.nextChanSeq ∨
      ∃ ch', s'.chan.get (p, c) = some ch' ∧ ch'.ordering = ch.ordering ∧ ch'.cpPort = ch.cpPort ∧ ch'.hops = ch.hops ∧
        ChanTrans ch.state ch'.state ∧
        ((ch'.version ≠ ch.version ∨ ch'.cpChan ≠ ch.cpChan) → ch.state = .init ∧ ch'.state = .opened) := by tr_auto
  chanNew : ∀ p c ch', s.chan.get (p, c) = none → s'.chan.get (p, c) = some ch' →
      c = fmtChan s.nextChanSeq ∧ s'.nextChanSeq = s.nextChanSeq + 1 ∧ (ch'.state = .init ∨ ch'.state = .tryopen) ∧
      s'.nextRecv.get (p, c) = some 1 ∧ s'.nextAck.get (p, c) = some 1 ∧ s'.nextSend.get c = some 1 := by tr_auto
  nChan : s.nextChanSeq ≤ s'.nextChanSeq := by tr_auto
  nConn : s.nextConnSeq ≤ s'.nextConnSeq := by tr_auto
  nClient : s.nextClientSeq ≤ s'.nextClientSeq := by tr_auto
  -- packet receipts / counters
  receiptV1 : ∀ k, s.receiptV1.get k ≠ none → s'.receiptV1.get k ≠ none := by tr_auto
  receiptV2 : ∀ k, s.receiptV2.get k ≠ none → s'.receiptV2.get k ≠ none := by tr_auto
  nextRecv : ∀ p c n, s.nextRecv.get (p, c) = some n →
      s'.nextRecv.get (p, c) = some n ∨
      (s'.nextRecv.get (p, c) = some (n + 1) ∧ s'.log = s.log ++ [.recv1 p c n]) ∨
      c = fmtChan s.nextChanSeq := by tr_auto
  nextAck : ∀ p c n, s.nextAck.get (p, c) = some n →
      s'.nextAck.get (p, c) = some n ∨
      (s'.nextAck.get (p, c) = some (n + 1) ∧ ∃ a, s'.log = s.log ++ [.ack1 p c n a]) ∨
      c = fmtChan s.nextChanSeq := by tr_auto
  nextSend : ∀ id n, s.nextSend.get id = some n →
      s'.nextSend.get id = some n ∨
      (s'.nextSend.get id = some (n + 1) ∧ ∃ e, s'.log = s.log ++ [e] ∧ e.isSend id n = true) ∨
      id = fmtChan s.nextChanSeq ∨ (s.cpV2.get id = none ∧ s.creator.get id ≠ none) := by tr_auto
  nextSendNew : ∀ id n, s.nextSend.get id = none → s'.nextSend.get id = some n →
      n = 1 ∧ (id = fmtChan s.nextChanSeq ∨ (s.cpV2.get id = none ∧ s.creator.get id ≠ none)) ∧
      ((∃ p, s'.chan.get (p, id) ≠ none) ∨ s'.cpV2.get id ≠ none) := by tr_auto
  -- commitments are created only by sends, at the current send counter
  commitV1New : ∀ p c q, s.commitV1.get (p, c, q) = none → s'.commitV1.get (p, c, q) ≠ none →
      s.nextSend.get c = some q ∧ s'.nextSend.get c = some (q + 1) ∧ s.chan.get (p, c) ≠ none := by tr_auto
  commitV2New : ∀ c q, s.commitV2.get (c, q) = none → s'.commitV2.get (c, q) ≠ none →
      s.nextSend.get c = some q ∧ s'.nextSend.get c = some (q + 1) ∧ s.cpV2.get c ≠ none := by tr_auto
  -- v2 counterparties / clients
  cpV2 : ∀ id, s.cpV2.get id ≠ none → s'.cpV2.get id ≠ none := by tr_auto
  cpV2New : ∀ id, s.cpV2.get id = none → s'.cpV2.get id ≠ none →
      (∃ p, s.chan.get (p, id) ≠ none) ∨ s.creator.get id ≠ none := by tr_auto
  clientState : ∀ id, s.clientState.get id ≠ none → s'.clientState.get id ≠ none := by tr_auto
  clientStateNew : ∀ id, s.clientState.get id = none → s'.clientState.get id ≠ none →
      IsClientId id ∧ (∃ t, id = fmtClient t s.nextClientSeq) ∧ s'.nextClientSeq = s.nextClientSeq + 1 := by tr_auto
  creatorNew : ∀ id, s.creator.get id = none → s'.creator.get id ≠ none → s'.clientState.get id ≠ none := by tr_auto
  -- acknowledgements are write-once
  ackV1 : ∀ k v, s.ackV1.get k = some v → s'.ackV1.get k = some v := by tr_auto
  ackV2 : ∀ k v, s.ackV2.get k = some v → s'.ackV2.get k = some v := by tr_auto
  -- a v2 acknowledgement needs a receipt; asynchronous packets live from the receive to the ack write
  ackV2New : ∀ k, s.ackV2.get k = none → s'.ackV2.get k ≠ none →
      s'.receiptV2.get k ≠ none ∧
      (s'.asyncV2.get k = none ∨ s.receiptV2.get k = none ∨ ∃ k' p, s.asyncV2.get k' = some p ∧ (p.dst, p.seq) ≠ k') := by tr_auto
  asyncNew : ∀ k p, s.asyncV2.get k = none → s'.asyncV2.get k = some p →
      (p.dst, p.seq) = k ∧ s.receiptV2.get k = none ∧ s'.receiptV2.get k ≠ none ∧ s'.ackV2.get k = s.ackV2.get k := by tr_auto
  asyncOld : ∀ k p, s.asyncV2.get k = some p →
      s'.asyncV2.get k = some p ∨
      (s'.asyncV2.get k = none ∧ (((p.dst, p.seq) = k ∧ s.ackV2.get k = none ∧ s'.ackV2.get k ≠ none) ∨ (p.dst, p.seq) ≠ k)) ∨
      s.receiptV2.get k = none := by tr_auto
  -- connections
  connOld : ∀ c e, s.conn.get c = some e → c = fmtConn s.nextConnSeq ∨ ∃ e', s'.conn.get c = some e' ∧ ConnStep e e' := by tr_auto
  connNew : ∀ c e', s.conn.get c = none → s'.conn.get c = some e' →
      c = fmtConn s.nextConnSeq ∧ s'.nextConnSeq = s.nextConnSeq + 1 ∧ (e'.state = .init ∨ e'.state = .tryopen) ∧
      e'.client ≠ localhostClient ∧ (e'.state = .tryopen → ∃ v, e'.versions = [v]) := by tr_auto

theorem Tr.refl (s : ChainState) : Tr s s := { log := .inl rfl }

end IbcVerif.Chain
