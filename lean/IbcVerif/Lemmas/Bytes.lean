import IbcVerif.Model.Bytes
namespace IbcVerif

theorem be64_length (n : Nat) : (be64 n).length = 8 := rfl

theorem be64_sum (n : Nat) (h : n < 2^64) :
    n / 2^56 % 256 * 2^56 + n / 2^48 % 256 * 2^48 + n / 2^40 % 256 * 2^40 + n / 2^32 % 256 * 2^32 +
    n / 2^24 % 256 * 2^24 + n / 2^16 % 256 * 2^16 + n / 2^8 % 256 * 2^8 + n % 256 = n := by
  have e0 : n = n % 2^64 := (Nat.mod_eq_of_lt h).symm
  have e1 : n % 2^64 = n % 2^56 + 2^56 * (n / 2^56 % 256) := by rw [show (2:Nat)^64 = 2^56 * 256 by decide, Nat.mod_mul]
  have e2 : n % 2^56 = n % 2^48 + 2^48 * (n / 2^48 % 256) := by rw [show (2:Nat)^56 = 2^48 * 256 by decide, Nat.mod_mul]
  have e3 : n % 2^48 = n % 2^40 + 2^40 * (n / 2^40 % 256) := by rw [show (2:Nat)^48 = 2^40 * 256 by decide, Nat.mod_mul]
  have e4 : n % 2^40 = n % 2^32 + 2^32 * (n / 2^32 % 256) := by rw [show (2:Nat)^40 = 2^32 * 256 by decide, Nat.mod_mul]
  have e5 : n % 2^32 = n % 2^24 + 2^24 * (n / 2^24 % 256) := by rw [show (2:Nat)^32 = 2^24 * 256 by decide, Nat.mod_mul]
  have e6 : n % 2^24 = n % 2^16 + 2^16 * (n / 2^16 % 256) := by rw [show (2:Nat)^24 = 2^16 * 256 by decide, Nat.mod_mul]
  have e7 : n % 2^16 = n % 2^8 + 2^8 * (n / 2^8 % 256) := by rw [show (2:Nat)^16 = 2^8 * 256 by decide, Nat.mod_mul]
  have e8 : n % 2^8 = n % 256 := rfl
  generalize n / 2^56 % 256 = a7 at *
  generalize n / 2^48 % 256 = a6 at *
  generalize n / 2^40 % 256 = a5 at *
  generalize n / 2^32 % 256 = a4 at *
  generalize n / 2^24 % 256 = a3 at *
  generalize n / 2^16 % 256 = a2 at *
  generalize n / 2^8 % 256 = a1 at *
  generalize n % 256 = a0 at *
  generalize n % 2^64 = m8 at *
  generalize n % 2^56 = m7 at *
  generalize n % 2^48 = m6 at *
  generalize n % 2^40 = m5 at *
  generalize n % 2^32 = m4 at *
  generalize n % 2^24 = m3 at *
  generalize n % 2^16 = m2 at *
  generalize n % 2^8 = m1 at *
  omega

theorem unbe64_be64 (n : Nat) (h : n < 2^64) : unbe64 (be64 n) = some n := by
  unfold be64 unbe64
  simp only [UInt8.toNat_ofNat']
  congr 1
  have := be64_sum n h
  simp only [show (2:Nat)^8 = 256 by decide, Nat.mod_mod] at *
  exact this
theorem be64_inj {a b : Nat} (ha : a < 2^64) (hb : b < 2^64) (h : be64 a = be64 b) : a = b := by
  have := congrArg unbe64 h
  rw [unbe64_be64 a ha, unbe64_be64 b hb] at this
  exact Option.some.inj this

/-- concatenation of equally long blocks is injective -/
theorem flatten_inj_of_length {α : Type} (n : Nat) (hn : 0 < n) :
    ∀ (l1 l2 : List (List α)), (∀ x ∈ l1, x.length = n) → (∀ x ∈ l2, x.length = n) →
      l1.flatten = l2.flatten → l1 = l2
  | [], [], _, _, _ => rfl
  | [], b :: bs, _, h2, h => by
      have hb := h2 b List.mem_cons_self
      have : (b :: bs).flatten.length = 0 := by rw [← h]; rfl
      simp at this
      have := this.1
      simp [this] at hb; omega
  | a :: as, [], h1, _, h => by
      have ha := h1 a List.mem_cons_self
      have : (a :: as).flatten.length = 0 := by rw [h]; rfl
      simp at this
      have := this.1
      simp [this] at ha; omega
  | a :: as, b :: bs, h1, h2, h => by
      have ha := h1 a List.mem_cons_self
      have hb := h2 b List.mem_cons_self
      simp only [List.flatten_cons] at h
      have ⟨e1, e2⟩ := List.append_inj h (by rw [ha, hb])
      have := flatten_inj_of_length n hn as bs (fun x hx => h1 x (List.mem_cons_of_mem _ hx))
        (fun x hx => h2 x (List.mem_cons_of_mem _ hx)) e2
      rw [e1, this]

end IbcVerif
