import IbcVerif.Model.PanicParsers
namespace IbcVerif.Parsers
open IbcVerif

theorem index_ok' {α : Type} (l : List α) (i : Nat) (h : i < l.length) : G.index l i = .ok l[i] := by
  simp [G.index, h]

theorem index_panic {α : Type} (l : List α) (i : Nat) (h : ¬ i < l.length) : ∃ m, G.index l i = .panic m := by
  simp [G.index, List.getElem?_eq_none (Nat.le_of_not_lt h)]

theorem sliceTo_ok' {α : Type} (l : List α) (hi : Nat) (h : hi ≤ l.length) : G.sliceTo l hi = .ok (l.take hi) := by
  simp [G.sliceTo, h]

theorem sliceFrom_ok' {α : Type} (l : List α) (lo : Nat) (h : lo ≤ l.length) : G.sliceFrom l lo = .ok (l.drop lo) := by
  simp [G.sliceFrom, h]

theorem sliceFrom_panic {α : Type} (l : List α) (lo : Nat) (h : ¬ lo ≤ l.length) : ∃ m, G.sliceFrom l lo = .panic m := by
  simp [G.sliceFrom, h]

theorem slice_ok' {α : Type} (l : List α) (lo hi : Nat) (h1 : lo ≤ hi) (h2 : hi ≤ l.length) :
    G.slice l lo hi = .ok ((l.take hi).drop lo) := by simp [G.slice, h1, h2]

theorem lastIndex_ok {α : Type} (l : List α) (h : l ≠ []) : lastIndex l = .ok (l.length - 1) := by
  have : l.length ≠ 0 := fun h0 => h (List.eq_nil_of_length_eq_zero h0)
  simp [lastIndex, this]

theorem length_pos_of_ne_nil {α : Type} (l : List α) (h : l ≠ []) : 0 < l.length :=
  List.length_pos_iff.mpr h

theorem dash_ne_nil : (['-'] : Str) ≠ [] := by simp
theorem slash_ne_nil : (['/'] : Str) ≠ [] := by simp

/-! totality -/

theorem parseClientIdentifier_noPanic (L : Lib) (hs : L.SplitNonEmpty) (s : Str) : G.NoPanic (parseClientIdentifier L s) := by
  unfold parseClientIdentifier
  split
  · exact G.noPanic_ok _
  · split
    · exact G.noPanic_err _
    · have hne := hs s ['-'] dash_ne_nil
      have hpos := length_pos_of_ne_nil _ hne
      dsimp only
      rw [lastIndex_ok _ hne]
      simp only [G.bind_ok]
      rw [sliceTo_ok' _ _ (by omega)]
      simp only [G.bind_ok]
      split
      · exact G.noPanic_err _
      · rw [index_ok' _ _ (by omega)]
        simp only [G.bind_ok]
        split
        · exact G.noPanic_err _
        · exact G.noPanic_ok _

theorem parseHeight_noPanic (L : Lib) (s : Str) : G.NoPanic (parseHeight L s) := by
  unfold parseHeight
  simp only
  split
  · exact G.noPanic_err _
  · rename_i h
    have h2 : (L.split s ['-']).length = 2 := by simpa using h
    rw [index_ok' _ 0 (by omega)]
    simp only [G.bind_ok]
    split
    · exact G.noPanic_err _
    · rw [index_ok' _ 1 (by omega)]
      simp only [G.bind_ok]
      split
      · exact G.noPanic_err _
      · exact G.noPanic_ok _

/-- the last '-'-separated segment of a chain id -/
def lastSeg (L : Lib) (s : Str) : Option Str := (L.split s ['-']).getLast?

theorem getLast?_eq_getElem {α : Type} (l : List α) (h : l ≠ []) :
    l.getLast? = some (l[l.length - 1]'(by have := length_pos_of_ne_nil l h; omega)) := by
  rw [List.getLast?_eq_getElem?]
  have := length_pos_of_ne_nil l h
  simp [List.getElem?_eq_getElem (show l.length - 1 < l.length by omega)]

/-- `ParseChainID` never panics (since fix 011a55d the unparsable-suffix branch returns 0) -/
theorem parseChainID_noPanic (L : Lib) (hs : L.SplitNonEmpty) (s : Str) : G.NoPanic (parseChainID L s) := by
  unfold parseChainID
  split
  · exact G.noPanic_ok _
  · have hne := hs s ['-'] dash_ne_nil
    have hpos := length_pos_of_ne_nil _ hne
    dsimp only
    rw [lastIndex_ok _ hne]
    simp only [G.bind_ok]
    rw [index_ok' _ _ (by omega)]
    simp only [G.bind_ok]
    split
    · exact G.noPanic_ok _
    · exact G.noPanic_ok _

theorem setRevisionNumber_noPanic (L : Lib) (hs : L.SplitNonEmpty) (s : Str) (r : Nat) :
    G.NoPanic (setRevisionNumber L s r) := by
  unfold setRevisionNumber
  split
  · exact G.noPanic_err _
  · have hne := hs s ['-'] dash_ne_nil
    have hpos := length_pos_of_ne_nil _ hne
    dsimp only
    rw [lastIndex_ok _ hne]
    simp only [G.bind_ok]
    rw [index_ok' _ _ (by omega)]
    exact G.noPanic_ok _

theorem parseIdentifier_noPanic (L : Lib) (id pfx : Str) : G.NoPanic (parseIdentifier L id pfx) := by
  unfold parseIdentifier
  split
  · exact G.noPanic_err _
  · simp only
    split
    · exact G.noPanic_err _
    · rename_i h
      have h2 : (L.split id pfx).length = 2 := by simpa using h
      rw [index_ok' _ 0 (by omega)]
      simp only [G.bind_ok]
      split
      · exact G.noPanic_err _
      · rw [index_ok' _ 1 (by omega)]
        simp only [G.bind_ok]
        split
        · exact G.noPanic_err _
        · exact G.noPanic_ok _

theorem parseChannelSequence_noPanic (L : Lib) (id : Str) : G.NoPanic (parseChannelSequence L id) := by
  unfold parseChannelSequence
  split
  · exact G.noPanic_err _
  · exact parseIdentifier_noPanic _ _ _

theorem parseConnectionSequence_noPanic (L : Lib) (id : Str) : G.NoPanic (parseConnectionSequence L id) := by
  unfold parseConnectionSequence
  split
  · exact G.noPanic_err _
  · exact parseIdentifier_noPanic _ _ _

theorem parseClientStatePath_noPanic (L : Lib) (p : Str) : G.NoPanic (parseClientStatePath L p) := by
  unfold parseClientStatePath
  simp only
  split
  · exact G.noPanic_err _
  · rename_i h
    have h3 : (L.split p ['/']).length = 3 := by simpa using h
    rw [index_ok' _ 0 (by omega)]
    simp only [G.bind_ok]
    split
    · exact G.noPanic_err _
    · rw [index_ok' _ 2 (by omega)]
      simp only [G.bind_ok]
      split
      · exact G.noPanic_err _
      · rw [index_ok' _ 1 (by omega)]
        simp only [G.bind_ok]
        split
        · exact G.noPanic_err _
        · exact G.noPanic_ok _

theorem parseConnectionPath_noPanic (L : Lib) (p : Str) : G.NoPanic (parseConnectionPath L p) := by
  unfold parseConnectionPath
  simp only
  split
  · exact G.noPanic_err _
  · rename_i h
    have h2 : (L.split p ['/']).length = 2 := by simpa using h
    rw [index_ok' _ 1 (by omega)]
    exact G.noPanic_ok _

theorem parseChannelPath_noPanic (L : Lib) (p : Str) : G.NoPanic (parseChannelPath L p) := by
  unfold parseChannelPath
  dsimp only
  split
  · exact G.noPanic_err _
  · rename_i h
    rw [index_ok' _ 1 (by omega), index_ok' _ 3 (by omega)]
    simp only [G.bind_ok]
    split
    · exact G.noPanic_err _
    · rw [index_ok' _ 2 (by omega), index_ok' _ 4 (by omega)]
      exact G.noPanic_ok _

theorem extractLoop_noPanic (L : Lib) (ds : List Str) (fuel i : Nat) (tr : List (Str × Str)) :
    G.NoPanic (extractLoop L ds fuel i tr) := by
  induction fuel generalizing i tr with
  | zero => exact G.noPanic_ok _
  | succ f ih =>
    rw [extractLoop]
    try dsimp only
    split
    · exact G.noPanic_ok _
    · rename_i hi
      have hi' : i < ds.length := by simpa using hi
      split
      · rename_i h2
        rw [index_ok' _ (i + 1) h2.1]
        simp only [G.bind_ok]
        split
        · rw [index_ok' _ i hi']
          simp only [G.bind_ok]
          exact ih _ _
        · rw [sliceFrom_ok' _ i (by omega)]
          exact G.noPanic_ok _
      · rw [sliceFrom_ok' _ i (by omega)]
        exact G.noPanic_ok _

theorem extractDenomFromPath_noPanic (L : Lib) (hs : L.SplitNonEmpty) (s : Str) : G.NoPanic (extractDenomFromPath L s) := by
  unfold extractDenomFromPath
  have hne := hs s ['/'] slash_ne_nil
  have hpos := length_pos_of_ne_nil _ hne
  simp only
  rw [index_ok' _ 0 hpos]
  simp only [G.bind_ok]
  split
  · exact G.noPanic_ok _
  · apply G.noPanic_bind _ _ (extractLoop_noPanic _ _ _ _ _)
    intro r _
    exact G.noPanic_ok _

theorem ibcDenomHexPart_noPanic_iff (s : Str) : G.NoPanic (ibcDenomHexPart s) ↔ 4 ≤ s.length := by
  unfold ibcDenomHexPart
  have h4 : denomPrefixSlash.length = 4 := rfl
  rw [h4]
  constructor
  · intro h
    by_cases hl : 4 ≤ s.length
    · exact hl
    · obtain ⟨m, hm⟩ := sliceFrom_panic s 4 hl
      exact absurd hm (h m)
  · intro h
    rw [sliceFrom_ok' s 4 h]
    exact G.noPanic_ok _

theorem isPrefixOf_length {α : Type} [BEq α] : ∀ (p s : List α), p.isPrefixOf s = true → p.length ≤ s.length
  | [], _, _ => by simp
  | _ :: _, [], h => by simp [List.isPrefixOf] at h
  | a :: as, b :: bs, h => by
    simp only [List.isPrefixOf, Bool.and_eq_true] at h
    have := isPrefixOf_length as bs h.2
    simp; omega

theorem tokenFromCoinHexPart_noPanic (s : Str) : G.NoPanic (tokenFromCoinHexPart s) := by
  unfold tokenFromCoinHexPart
  split
  · exact G.noPanic_ok _
  · rename_i h
    have hp : denomPrefixSlash.isPrefixOf s = true := by simpa using h
    have hl := isPrefixOf_length _ _ hp
    have h4 : denomPrefixSlash.length = 4 := rfl
    have := (ibcDenomHexPart_noPanic_iff s).mpr (by omega)
    apply G.noPanic_bind _ _ this
    intro _ _
    exact G.noPanic_ok _

theorem beUint64_noPanic_iff (b : Bytes) : G.NoPanic (beUint64 b) ↔ 8 ≤ b.length := by
  unfold beUint64
  constructor
  · intro h
    by_cases hl : 7 < b.length
    · omega
    · obtain ⟨m, hm⟩ := index_panic b 7 hl
      rw [hm] at h
      exact absurd rfl (h m)
  · intro h
    rw [index_ok' b 7 (by omega)]
    exact G.noPanic_ok _

theorem beUint64_cases (b : Bytes) :
    (8 ≤ b.length → ∃ v, beUint64 b = .ok v) ∧ (¬ 8 ≤ b.length → ∃ m, beUint64 b = .panic m) := by
  unfold beUint64
  constructor
  · intro h; rw [index_ok' b 7 (by omega)]; exact ⟨_, rfl⟩
  · intro h
    obtain ⟨m, hm⟩ := index_panic b 7 (by omega)
    rw [hm]; exact ⟨m, rfl⟩

theorem getHeightFromIterationKey_panics (k : Bytes) (h : k.length < 38) : ∃ m, getHeightFromIterationKey k = .panic m := by
  unfold getHeightFromIterationKey
  have h22 : keyIterateConsensusStatePrefix.length = 22 := by decide
  rw [h22]
  by_cases h1 : 22 ≤ k.length
  · rw [sliceFrom_ok' k 22 h1]
    simp only [G.bind_ok]
    have hd : (k.drop 22).length = k.length - 22 := by simp
    by_cases h2 : 8 ≤ (k.drop 22).length
    · rw [slice_ok' _ 0 8 (by omega) h2, sliceFrom_ok' _ 8 h2]
      simp only [G.bind_ok]
      have hr : 8 ≤ (List.drop 0 (List.take 8 (List.drop 22 k))).length := by simp; omega
      obtain ⟨v, hv⟩ := (beUint64_cases _).1 hr
      rw [hv]
      simp only [G.bind_ok]
      have h3 : ¬ 8 ≤ (List.drop 8 (List.drop 22 k)).length := by simp; omega
      obtain ⟨m, hm⟩ := (beUint64_cases _).2 h3
      rw [hm]; exact ⟨m, rfl⟩
    · have : ¬ (0 ≤ 8 ∧ 8 ≤ (k.drop 22).length) := by omega
      simp only [G.slice, this, if_false]
      exact ⟨_, rfl⟩
  · obtain ⟨m, hm⟩ := sliceFrom_panic k 22 h1
    rw [hm]; exact ⟨m, rfl⟩

/-- `GetHeightFromIterationKey` is panic-free exactly on keys of at least 22 + 16 bytes -/
theorem getHeightFromIterationKey_noPanic_iff (k : Bytes) : G.NoPanic (getHeightFromIterationKey k) ↔ 38 ≤ k.length := by
  constructor
  · intro h
    by_cases hl : 38 ≤ k.length
    · exact hl
    · obtain ⟨m, hm⟩ := getHeightFromIterationKey_panics k (by omega)
      exact absurd hm (h m)
  · intro h
    unfold getHeightFromIterationKey
    have h22 : keyIterateConsensusStatePrefix.length = 22 := by decide
    rw [h22, sliceFrom_ok' k 22 (by omega)]
    simp only [G.bind_ok]
    have h2 : 8 ≤ (k.drop 22).length := by simp; omega
    rw [slice_ok' _ 0 8 (by omega) h2, sliceFrom_ok' _ 8 h2]
    simp only [G.bind_ok]
    apply G.noPanic_bind _ _ ((beUint64_noPanic_iff _).mpr (by simp; omega))
    intro r _
    apply G.noPanic_bind _ _ ((beUint64_noPanic_iff _).mpr (by simp; omega))
    intro hh _
    exact G.noPanic_ok _

theorem extractSequenceFromKey_noPanic_iff (key pfx : Bytes) :
    G.NoPanic (extractSequenceFromKey key pfx) ↔ (trimPrefix key pfx).length = 0 ∨ (trimPrefix key pfx).length = 8 := by
  unfold extractSequenceFromKey
  simp only
  split
  · rename_i h
    simp only [G.goPanic]
    constructor
    · intro hn; exact absurd rfl (hn _)
    · intro h'; omega
  · split
    · rename_i h0
      constructor
      · intro _; exact .inl h0
      · intro _; exact G.noPanic_ok _
    · rename_i h8 h0
      rw [beUint64_noPanic_iff]
      constructor
      · intro h; right; omega
      · intro h; omega

/-! JSON-tree walkers: every type assertion is of the checked form -/

theorem getForwardMetadataFromNext_noPanic (pj : Str → Option (List (Str × JVal))) (v : JVal) :
    G.NoPanic (getForwardMetadataFromNext pj v) := by
  unfold getForwardMetadataFromNext
  simp only
  apply G.noPanic_bind
  · split
    · exact G.noPanic_ok _
    · split
      · exact G.noPanic_err _
      · split
        · exact G.noPanic_err _
        · exact G.noPanic_ok _
  · intro m _
    split
    · exact G.noPanic_err _
    · exact G.noPanic_ok _

theorem getForwardMetadata_noPanic (pj : Str → Option (List (Str × JVal))) (fuel : Nat) (fd : List (Str × JVal)) :
    G.NoPanic (getForwardMetadata pj fuel fd) := by
  induction fuel generalizing fd with
  | zero => exact G.noPanic_err _
  | succ f ih =>
    rw [getForwardMetadata]
    split
    · exact G.noPanic_err _
    · split
      · exact G.noPanic_err _
      · split
        · exact G.noPanic_err _
        · split
          · exact G.noPanic_err _
          · apply G.noPanic_bind
            · split
              · exact G.noPanic_ok _
              · split
                · exact G.noPanic_err _
                · exact G.noPanic_ok _
              · exact G.noPanic_err _
            · intro r _
              split
              · exact G.noPanic_ok _
              · apply G.noPanic_bind _ _ (getForwardMetadataFromNext_noPanic _ _)
                intro nd _
                apply G.noPanic_bind _ _ (ih _)
                intro nf _
                exact G.noPanic_ok _

theorem getPacketMetadata_noPanic (pj : Str → Option (List (Str × JVal))) (fuel : Nat) (c : Option JVal) :
    G.NoPanic (getPacketMetadata pj fuel c) := by
  unfold getPacketMetadata
  split
  · exact G.noPanic_err _
  · exact getForwardMetadata_noPanic _ _ _

theorem getCallbackFields_noPanic (L : Lib) (uh : Str → Bool) (c : Option JVal) : G.NoPanic (getCallbackFields L uh c) := by
  unfold getCallbackFields
  split
  · exact G.noPanic_err _
  · split
    · exact G.noPanic_err _
    · split
      · exact G.noPanic_err _
      · simp only
        apply G.noPanic_bind
        · split
          · exact G.noPanic_ok _
          · split
            · exact G.noPanic_ok _
            · split
              · exact G.noPanic_ok _
              · exact G.noPanic_err _
          · exact G.noPanic_err _
        · intro g _
          split
          · exact G.noPanic_ok _
          · split
            · exact G.noPanic_ok _
            · split
              · exact G.noPanic_ok _
              · exact G.noPanic_err _
          · exact G.noPanic_err _

/-! the executable library instance satisfies the hypothesis on `strings.Split` -/

theorem splitOnStrAux_ne_nil (sep : Str) (fuel : Nat) (s cur : Str) : splitOnStrAux sep fuel s cur ≠ [] := by
  induction fuel generalizing s cur with
  | zero => simp [splitOnStrAux]
  | succ f ih =>
    cases s with
    | nil => simp [splitOnStrAux]
    | cons c cs =>
      simp only [splitOnStrAux]
      split
      · simp
      · exact ih _ _

theorem libGo_splitNonEmpty : Lib.go.SplitNonEmpty := by
  intro s sep hsep
  show splitOnStr s sep ≠ []
  unfold splitOnStr
  rw [if_neg hsep]
  exact splitOnStrAux_ne_nil _ _ _ _

end IbcVerif.Parsers
