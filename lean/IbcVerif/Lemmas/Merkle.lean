import IbcVerif.Model.Merkle
namespace IbcVerif.Merkle
open IbcVerif

theorem getElem?_writeAt_lt (l data : Bytes) (pos j : Nat) (hp : pos ≤ l.length) (hj : j < pos) :
    (writeAt l pos data)[j]? = l[j]? := by
  unfold writeAt
  rw [List.append_assoc, List.getElem?_append_left (by simp; omega)]
  simp [List.getElem?_take, hj]

theorem getElem?_writeAt_ge (l data : Bytes) (pos j : Nat) (hp : pos ≤ l.length) (hj : pos + data.length ≤ j) :
    (writeAt l pos data)[j]? = l[j]? := by
  unfold writeAt
  rw [List.getElem?_append_right (by simp; omega)]
  simp only [List.length_append, List.length_take, Nat.min_eq_left hp, List.getElem?_drop]
  congr 1
  omega

theorem view_writeAt_disjoint (l data : Bytes) (pos off len : Nat) (hb : pos ≤ l.length)
    (hd : off + len ≤ pos ∨ pos + data.length ≤ off) :
    ((writeAt l pos data).drop off).take len = (l.drop off).take len := by
  apply List.ext_getElem?
  intro i
  simp only [List.getElem?_take, List.getElem?_drop]
  split
  · rename_i hi
    rcases hd with h | h
    · exact getElem?_writeAt_lt l data pos (off + i) hb (by omega)
    · exact getElem?_writeAt_ge l data pos (off + i) hb (by omega)
  · rfl

theorem length_writeAt (l data : Bytes) (pos : Nat) (h : pos + data.length ≤ l.length) :
    (writeAt l pos data).length = l.length := by
  unfold writeAt
  simp only [List.length_append, List.length_take, List.length_drop]
  omega

/-- the bytes just written are readable: the view of the extended slice is the old view plus the data -/
theorem view_writeAt_extended (l data : Bytes) (off len : Nat) (h : off + len + data.length ≤ l.length) :
    ((writeAt l (off + len) data).drop off).take (len + data.length) = (l.drop off).take len ++ data := by
  apply List.ext_getElem?
  intro i
  simp only [List.getElem?_take, List.getElem?_drop, List.getElem?_append]
  by_cases hi : i < len
  · have h1 : i < len + data.length := by omega
    simp only [h1, if_true, List.length_take, List.length_drop]
    have : i < min len (l.length - off) := by omega
    simp only [this, if_true, List.getElem?_take, hi, List.getElem?_drop]
    exact getElem?_writeAt_lt l data (off + len) (off + i) (by omega) (by omega)
  · simp only [List.length_take, List.length_drop]
    have hm : min len (l.length - off) = len := by omega
    simp only [hm, hi, if_false]
    by_cases h2 : i < len + data.length
    · simp only [h2, if_true]
      unfold writeAt
      rw [List.append_assoc, List.getElem?_append_right (by simp; omega)]
      simp only [List.length_take]
      have : min (off + len) l.length = off + len := by omega
      rw [this, List.getElem?_append_left (by omega)]
      congr 1
      omega
    · simp only [h2, if_false]
      symm
      rw [List.getElem?_eq_none_iff]
      omega

end IbcVerif.Merkle
