import IbcVerif.Lemmas.AbiBytes
namespace IbcVerif.Abi
open IbcVerif

/-- value `v` is representable in component type `t` -/
def fits : FTy → FVal → Prop
  | .uint256, .num n => n < 2 ^ 256
  | .uint64, .num n => n < 2 ^ 64
  | .dyn, .dyn _ => True
  | _, _ => False

def Fits : List FTy → List FVal → Prop
  | [], [] => True
  | t :: ts, v :: vs => fits t v ∧ Fits ts vs
  | _, _ => False

theorem Fits_length : ∀ {ts vs}, Fits ts vs → ts.length = vs.length
  | [], [], _ => rfl
  | _ :: ts, _ :: vs, h => by simp [Fits_length h.2]
  | [], _ :: _, h => h.elim
  | _ :: _, [], h => h.elim

theorem encHeads_length (vs : List FVal) (off : Nat) : (encHeads vs off).length = 32 * vs.length := by
  induction vs generalizing off with
  | nil => rfl
  | cons v vs ih =>
    cases v <;> simp [encHeads, word_length, ih] <;> omega

theorem slice_of_eq {α : Type} {out A B C : List α} (h : out = A ++ (B ++ C)) (lo hi : Nat)
    (hlo : lo = A.length) (hhi : hi = A.length + B.length) : G.slice out lo hi = .ok B := by
  rw [h]; exact slice_mid A B C lo hi hlo hhi

theorem unpackFields_enc : ∀ (ts : List FTy) (vs : List FVal) (H Tp out : Bytes) (i off : Nat),
    Fits ts vs → H.length = 32 * i → off = 32 * (i + vs.length) + Tp.length →
    out = H ++ (encHeads vs off ++ (Tp ++ encTails vs)) → out.length < 2 ^ 63 →
    unpackFields ts i out = .ok vs
  | [], [], _, _, _, _, _, _, _, _, _, _ => rfl
  | [], _ :: _, _, _, _, _, _, h, _, _, _, _ => h.elim
  | _ :: _, [], _, _, _, _, _, h, _, _, _, _ => h.elim
  | t :: ts, v :: vs, H, Tp, out, i, off, hf, hH, hoff, hout, hlen => by
    have hL : out.length = 32 * i + 32 * (vs.length + 1) + Tp.length + (encTails (v :: vs)).length := by
      rw [hout]; simp [encHeads_length, hH]; omega
    replace hoff : off = 32 * (i + (vs.length + 1)) + Tp.length := by simpa using hoff
    cases v with
    | num n =>
      have hout' : out = H ++ (word n ++ (encHeads vs off ++ (Tp ++ encTails vs))) := by
        rw [hout]; simp [encHeads, encTails, FVal.tail]
      have hs : G.slice out (i * 32) (i * 32 + 32) = .ok (word n) :=
        slice_of_eq hout' _ _ (by omega) (by rw [word_length]; omega)
      have ih := unpackFields_enc ts vs (H ++ word n) Tp out (i + 1) off hf.2
        (by simp [word_length, hH]; omega) (by omega)
        (by rw [hout']; simp) hlen
      have hi : ¬ (i * 32 + 32 > out.length) := by omega
      cases t with
      | uint256 =>
        have hn : n < 2 ^ 256 := hf.1
        simp only [unpackFields, toGo, hi, if_false, hs, G.bind_ok, beNat_word n hn, ih]
      | uint64 =>
        have hn : n < 2 ^ 64 := hf.1
        have hn' : n < 2 ^ 256 := Nat.lt_of_lt_of_le hn (by decide)
        have : ¬ (n ≥ 2 ^ 64) := by omega
        simp only [unpackFields, toGo, hi, if_false, hs, G.bind_ok, beNat_word n hn', this, ih]
      | dyn => exact hf.1.elim
    | dyn b =>
      cases t with
      | uint256 => exact hf.1.elim
      | uint64 => exact hf.1.elim
      | dyn =>
        have htl : (encTails (FVal.dyn b :: vs)).length = 32 + ceil32 b.length + (encTails vs).length := by
          simp [encTails, FVal.tail, encDyn_length]
        have hc := ceil32_ge b.length
        have hoff256 : off < 2 ^ 256 := by
          have : off < 2 ^ 63 := by omega
          exact Nat.lt_trans this (by decide)
        have hb256 : b.length < 2 ^ 256 := by
          have : b.length < 2 ^ 63 := by omega
          exact Nat.lt_trans this (by decide)
        have hout1 : out = H ++ (word off ++ (encHeads vs (off + (encDyn b).length) ++ (Tp ++ (word b.length ++ (rightPad b ++ encTails vs))))) := by
          rw [hout]; simp [encHeads, encTails, FVal.tail, encDyn]
        have hs1 : G.slice out (i * 32) (i * 32 + 32) = .ok (word off) :=
          slice_of_eq hout1 _ _ (by omega) (by rw [word_length]; omega)
        have hout2 : out = (H ++ (word off ++ (encHeads vs (off + (encDyn b).length) ++ Tp))) ++ (word b.length ++ (rightPad b ++ encTails vs)) := by
          rw [hout1]; simp
        have hpre : (H ++ (word off ++ (encHeads vs (off + (encDyn b).length) ++ Tp))).length = off := by
          simp [word_length, encHeads_length, hH]; omega
        have hs2 : G.slice out (off + 32 - 32) (off + 32) = .ok (word b.length) :=
          slice_of_eq hout2 _ _ (by omega) (by rw [word_length]; omega)
        have hout3 : out = (H ++ (word off ++ (encHeads vs (off + (encDyn b).length) ++ (Tp ++ word b.length)))) ++ (b ++ (List.replicate (ceil32 b.length - b.length) 0 ++ encTails vs)) := by
          rw [hout1]; simp [rightPad]
        have hpre3 : (H ++ (word off ++ (encHeads vs (off + (encDyn b).length) ++ (Tp ++ word b.length)))).length = off + 32 := by
          simp [word_length, encHeads_length, hH]; omega
        have hs3 : G.slice out (off + 32) (off + 32 + b.length) = .ok b :=
          slice_of_eq hout3 _ _ (by omega) (by omega)
        have ih := unpackFields_enc ts vs (H ++ word off) (Tp ++ encDyn b) out (i + 1) (off + (encDyn b).length) hf.2
          (by simp [word_length, hH]; omega) (by simp; omega)
          (by rw [hout1]; simp [encDyn]) hlen
        have hi : ¬ (i * 32 + 32 > out.length) := by omega
        have c1 : ¬ (off + 32 > out.length) := by omega
        have c2 : ¬ (off + 32 ≥ 2 ^ 63) := by omega
        have c3 : ¬ (off + 32 + b.length ≥ 2 ^ 63) := by omega
        have c4 : ¬ (off + 32 + b.length > out.length) := by omega
        simp only [unpackFields, toGo, hi, if_false, lengthPrefixPointsTo, hs1, G.bind_ok, beNat_word off hoff256,
          c1, c2, hs2, beNat_word _ hb256, c3, c4, hs3, ih]

theorem slice_ok {α : Type} (l : List α) (lo hi : Nat) (h1 : lo ≤ hi) (h2 : hi ≤ l.length) :
    G.slice l lo hi = .ok ((l.take hi).drop lo) := by simp [G.slice, h1, h2]

theorem sliceFrom_ok {α : Type} (l : List α) (lo : Nat) (h : lo ≤ l.length) : G.sliceFrom l lo = .ok (l.drop lo) := by
  simp [G.sliceFrom, h]

/-- result of `lengthPrefixPointsTo`: never a panic when the head word is in range; a returned
    `(start, length)` lies inside the buffer -/
theorem lpp_spec (index : Nat) (out : Bytes) (h : index + 32 ≤ out.length) :
    (∃ e, lengthPrefixPointsTo index out = .err e) ∨
    (∃ b l, lengthPrefixPointsTo index out = .ok (b, l) ∧ 32 ≤ b ∧ b + l ≤ out.length) := by
  unfold lengthPrefixPointsTo
  rw [slice_ok out index (index + 32) (by omega) h]
  simp only [G.bind_ok]
  split
  · exact .inl ⟨_, rfl⟩
  · split
    · exact .inl ⟨_, rfl⟩
    · rename_i h1 h2
      rw [slice_ok out _ _ (by omega) (by omega)]
      simp only [G.bind_ok]
      split
      · exact .inl ⟨_, rfl⟩
      · split
        · exact .inl ⟨_, rfl⟩
        · rename_i h3 h4
          exact .inr ⟨_, _, rfl, by omega, by omega⟩

theorem toGo_noPanic (index : Nat) (t : FTy) (out : Bytes) : G.NoPanic (toGo index t out) := by
  unfold toGo
  split
  · exact G.noPanic_err _
  · rename_i h
    cases t with
    | uint256 =>
      simp only
      rw [slice_ok out index (index + 32) (by omega) (by omega)]
      exact G.noPanic_ok _
    | uint64 =>
      simp only
      rw [slice_ok out index (index + 32) (by omega) (by omega)]
      simp only [G.bind_ok]
      split
      · exact G.noPanic_err _
      · exact G.noPanic_ok _
    | dyn =>
      simp only
      rcases lpp_spec index out (by omega) with ⟨e, he⟩ | ⟨b, l, he, hb, hl⟩
      · rw [he]; exact G.noPanic_err _
      · rw [he]
        simp only [G.bind_ok]
        rw [slice_ok out b (b + l) (by omega) hl]
        exact G.noPanic_ok _

theorem unpackFields_noPanic (ts : List FTy) (i : Nat) (out : Bytes) : G.NoPanic (unpackFields ts i out) := by
  induction ts generalizing i with
  | nil => exact G.noPanic_ok _
  | cons t ts ih =>
    unfold unpackFields
    apply G.noPanic_bind _ _ (toGo_noPanic _ _ _)
    intro v _
    apply G.noPanic_bind _ _ (ih _)
    intro vs _
    exact G.noPanic_ok _

theorem unpackWrapped_noPanic (ts : List FTy) (data : Bytes) : G.NoPanic (unpackWrapped ts data) := by
  unfold unpackWrapped
  split
  · exact G.noPanic_err _
  · split
    · exact G.noPanic_err _
    · rename_i h1 h2
      rw [slice_ok data 0 32 (by omega) (by omega)]
      simp only [G.bind_ok]
      split
      · exact G.noPanic_err _
      · split
        · exact G.noPanic_err _
        · rename_i h3 h4
          rw [sliceFrom_ok data _ (by omega)]
          exact unpackFields_noPanic _ _ _

theorem unpackStatic_noPanic (ts : List FTy) (data : Bytes) : G.NoPanic (unpackStatic ts data) := by
  unfold unpackStatic
  split
  · exact G.noPanic_err _
  · exact unpackFields_noPanic _ _ _

theorem packWrapped_length (vs : List FVal) : (packWrapped vs).length = 32 + 32 * vs.length + (encTails vs).length := by
  simp [packWrapped, encTuple, word_length, encHeads_length]; omega

theorem unpackWrapped_pack (ts : List FTy) (vs : List FVal) (hf : Fits ts vs)
    (hlen : (packWrapped vs).length < 2 ^ 63) : unpackWrapped ts (packWrapped vs) = .ok vs := by
  have hL := packWrapped_length vs
  unfold unpackWrapped
  rw [if_neg (by omega), if_neg (by omega)]
  have hs : G.slice (packWrapped vs) 0 32 = .ok (word 32) := by
    have : packWrapped vs = [] ++ (word 32 ++ encTuple vs) := rfl
    exact slice_of_eq this 0 32 rfl (by simp [word_length])
  rw [hs]
  simp only [G.bind_ok, beNat_word 32 (by decide)]
  rw [if_neg (by omega), if_neg (by decide)]
  have hs2 : G.sliceFrom (packWrapped vs) 32 = .ok (encTuple vs) :=
    sliceFrom_append (word 32) (encTuple vs) 32 (word_length 32).symm
  rw [hs2]
  simp only [G.bind_ok]
  apply unpackFields_enc ts vs [] [] (encTuple vs) 0 (32 * vs.length) hf rfl (by simp) (by simp [encTuple])
  have : (encTuple vs).length ≤ (packWrapped vs).length := by simp [packWrapped]
  omega

theorem packStatic_length (ns : List Nat) : (packStatic ns).length = 32 * ns.length := by
  induction ns with
  | nil => rfl
  | cons n ns ih => simp [packStatic, word_length] at ih ⊢; omega

theorem encHeads_nums (ns : List Nat) (off : Nat) : encHeads (ns.map FVal.num) off = packStatic ns := by
  induction ns with
  | nil => rfl
  | cons n ns ih => simp [encHeads, packStatic, ih] at ih ⊢

theorem encTails_nums (ns : List Nat) : encTails (ns.map FVal.num) = [] := by
  induction ns with
  | nil => rfl
  | cons n ns ih => simp [encTails, FVal.tail] at ih ⊢

theorem unpackStatic_pack (ts : List FTy) (ns : List Nat) (hne : ns ≠ []) (hf : Fits ts (ns.map FVal.num))
    (hlen : (packStatic ns).length < 2 ^ 63) : unpackStatic ts (packStatic ns) = .ok (ns.map FVal.num) := by
  unfold unpackStatic
  have hL := packStatic_length ns
  have : ns.length ≠ 0 := by intro h; exact hne (List.eq_nil_of_length_eq_zero h)
  rw [if_neg (by omega)]
  exact unpackFields_enc ts (ns.map FVal.num) [] [] (packStatic ns) 0 (32 * ns.length) hf rfl (by simp)
    (by simp [encHeads_nums, encTails_nums]) hlen

end IbcVerif.Abi
