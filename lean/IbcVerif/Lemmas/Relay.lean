/-
  Helper lemmas for the Relay model: the sequential-guard combinators, the membership gate, and the
  link from stateless validation (`validId`) to the identifier alphabet (`IdOK`) the key-injectivity
  theorems of C16 need.
-/
import IbcVerif.Model.Relay
import IbcVerif.Lemmas.Keys
import IbcVerif.Lemmas.Commit
namespace IbcVerif.Relay
open IbcVerif

/-! ### guards -/

@[simp] theorem check_ok (c : Bool) (e : Err) (k : Verdict) : check c e k = .ok ↔ c = true ∧ k = .ok := by
  cases c <;> simp [check]

@[simp] theorem check_noop (c : Bool) (e : Err) (k : Verdict) : check c e k = .noop ↔ c = true ∧ k = .noop := by
  cases c <;> simp [check]

theorem check_err (c : Bool) (e x : Err) (k : Verdict) :
    check c e k = .err x ↔ (c = false ∧ x = e) ∨ (c = true ∧ k = .err x) := by
  cases c <;> simp [check, eq_comm]

@[simp] theorem need_ok {α : Type} (o : Option α) (e : Err) (k : α → Verdict) :
    need o e k = .ok ↔ ∃ a, o = some a ∧ k a = .ok := by
  cases o <;> simp [need]

@[simp] theorem need_noop {α : Type} (o : Option α) (e : Err) (k : α → Verdict) :
    need o e k = .noop ↔ ∃ a, o = some a ∧ k a = .noop := by
  cases o <;> simp [need]

@[simp] theorem pass_ok (o : Option Err) (k : Verdict) : pass o k = .ok ↔ o = none ∧ k = .ok := by
  cases o <;> simp [pass]

@[simp] theorem pass_noop (o : Option Err) (k : Verdict) : pass o k = .noop ↔ o = none ∧ k = .noop := by
  cases o <;> simp [pass]

/-! ### the membership gate -/

/-- everything the client keeper and the light client require besides the ICS-23 verification itself -/
def ClientReady (env : Env) (c : ClientFacts) (p : ProofFacts) (dt db : Nat) : Prop :=
  c.active = true ∧ c.latest.lt p.height = false ∧
  Delay.verifyDelayPeriodPassed env.nowNs env.self c.procTime c.procHeight dt db = .ok ∧
  c.decodes = true ∧ c.consFound = true

theorem verifyMembership_none_iff (env : Env) (c : ClientFacts) (p : ProofFacts) (dt db : Nat) (path : List Bytes) (value : Bytes) :
    verifyMembership env c p dt db path value = none ↔ ClientReady env c p dt db ∧ p.proves path value = true := by
  unfold verifyMembership ClientReady
  cases c.active <;> cases c.latest.lt p.height <;> cases c.decodes <;> cases c.consFound <;>
    cases p.proves path value <;>
    cases Delay.verifyDelayPeriodPassed env.nowNs env.self c.procTime c.procHeight dt db <;> simp

theorem proves_iff (p : ProofFacts) (path : List Bytes) (value : Bytes) :
    p.proves path value = true ↔
      p.intact = true ∧ p.builtAt = p.height ∧ [p.store, p.readKey] = path ∧ p.provenValue = some value := by
  simp [ProofFacts.proves, and_assoc]

/-- v1: the proof was queried from the store the connection names as the counterparty prefix, for
    exactly the key the handler derived -/
theorem proves_v1_iff (p : ProofFacts) (pre key value : Bytes) :
    p.proves (pathV1 pre key) value = true ↔
      p.intact = true ∧ p.builtAt = p.height ∧ p.store = pre ∧ p.readKey = key ∧ p.provenValue = some value := by
  simp [proves_iff, pathV1, and_assoc]

theorem verifyV1_none_iff (env : Env) (c : ClientFacts) (p : ProofFacts) (cn : ConnEnd) (mx : Nat) (key value : Bytes) :
    verifyV1 env c p cn mx key value = none ↔
      cn.cpPrefix ≠ [] ∧ ClientReady env c p cn.delay (Delay.getBlockDelay cn.delay mx) ∧
      p.proves (pathV1 cn.cpPrefix key) value = true := by
  unfold verifyV1
  by_cases h : cn.cpPrefix = []
  · simp [h]
  · have h' : cn.cpPrefix.isEmpty = false := by simpa using h
    simp [h', h, verifyMembership_none_iff]

/-- v2: the key the proof was queried for is the handler's key behind the last element of the
    registered counterparty prefix -/
theorem pathV2_key (pre : List Bytes) (s k key : Bytes) (h : [s, k] = pathV2 pre key) :
    ∃ l, pre.getLast? = some l ∧ k = l ++ key := by
  unfold pathV2 at h
  cases hl : pre.getLast? with
  | none => rw [hl] at h; simp at h
  | some l =>
    rw [hl] at h
    refine ⟨l, rfl, ?_⟩
    have := congrArg List.getLast? h
    simpa using this

/-! ### stateless validation gives the identifier alphabet -/

theorem validId_IdOK (id : Bytes) (mn mx : Nat) (h : Keys.validId id mn mx = true) : Keys.IdOK id := by
  simp only [Keys.validId, Bool.and_eq_true, Bool.not_eq_true', List.isEmpty_eq_false_iff, List.all_eq_true] at h
  exact ⟨h.1.1.1, h.2⟩

theorem portOK_IdOK (id : Bytes) (h : portOK id = true) : Keys.IdOK id := validId_IdOK _ _ _ h
theorem chanOK_IdOK (id : Bytes) (h : chanOK id = true) : Keys.IdOK id := validId_IdOK _ _ _ h

theorem pktV1_basic_none (p : PktV1) (h : p.basic = none) :
    Keys.IdOK p.srcPort ∧ Keys.IdOK p.dstPort ∧ Keys.IdOK p.srcChan ∧ Keys.IdOK p.dstChan ∧
      p.seq ≠ 0 ∧ p.timeout.isValid = true ∧ p.data ≠ [] := by
  unfold PktV1.basic at h
  split at h; · cases h
  split at h; · cases h
  split at h; · cases h
  split at h; · cases h
  split at h; · cases h
  split at h; · cases h
  split at h; · cases h
  rename_i h1 h2 h3 h4 h5 h6 h7
  simp only [Bool.not_eq_true', Bool.not_eq_false, beq_iff_eq, List.isEmpty_iff] at h1 h2 h3 h4 h5 h6 h7
  exact ⟨portOK_IdOK _ h1, portOK_IdOK _ h2, chanOK_IdOK _ h3, chanOK_IdOK _ h4, h5, h6, h7⟩

theorem pktV2_basic_none (p : PktV2) (h : p.basic = none) :
    p.payloads ≠ [] ∧ Keys.IdOK p.srcClient ∧ Keys.IdOK p.dstClient ∧ p.seq ≠ 0 ∧ p.timeout ≠ 0 := by
  unfold PktV2.basic at h
  split at h; · cases h
  split at h; · cases h
  split at h; · cases h
  split at h; · cases h
  split at h; · cases h
  split at h; · cases h
  split at h; · cases h
  rename_i h1 _ _ _ h4 h5 h6 h7
  simp only [Bool.not_eq_true', Bool.not_eq_false, beq_iff_eq, List.isEmpty_iff] at h1 h4 h5 h6 h7
  exact ⟨h1, chanOK_IdOK _ h4, chanOK_IdOK _ h5, h6, h7⟩

theorem committedV1_WF (p : PktV1) : p.committed.WF :=
  ⟨UInt64.toNat_lt _, UInt64.toNat_lt _, UInt64.toNat_lt _⟩

/-- the committed fields determine data and the whole timeout of a v1 packet -/
theorem committedV1_inj (p q : PktV1) (h : p.committed = q.committed) : p.data = q.data ∧ p.timeout = q.timeout := by
  simp only [PktV1.committed, Commit.PacketV1.mk.injEq] at h
  obtain ⟨h1, h2, h3, h4⟩ := h
  refine ⟨h4, ?_⟩
  have e1 := UInt64.toNat_inj.mp h1
  have e2 := UInt64.toNat_inj.mp h2
  have e3 := UInt64.toNat_inj.mp h3
  cases hp : p.timeout with
  | mk ph pts => cases hq : q.timeout with
    | mk qh qts =>
      cases ph; cases qh
      simp_all

theorem committedV2_inj (p q : PktV2) (h : p.committed = q.committed) :
    p.dstClient = q.dstClient ∧ p.timeout = q.timeout ∧ p.payloads = q.payloads := by
  simp only [PktV2.committed, Commit.PacketV2.mk.injEq] at h
  exact ⟨h.1, UInt64.toNat_inj.mp h.2.1, h.2.2⟩

end IbcVerif.Relay
