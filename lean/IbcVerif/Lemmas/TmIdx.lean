/-
  The byte-ordered `iterateConsensusStates` index: insertion / deletion keep it sorted, and because the
  byte order of the keys is the height order (Lemmas/TmBytes) range scans are scans by height.
-/
import IbcVerif.Lemmas.TmBytes
namespace IbcVerif.Tm
open IbcVerif

abbrev Index := List (Bytes × Height)

/-- every entry is stored under the big-endian encoding of the height its value names -/
def Keyed (ix : Index) : Prop := ∀ p ∈ ix, p.1 = beHeight p.2

/-- ascending by height (strictly) -/
def Asc (ix : Index) : Prop := ix.Pairwise (fun p q => hk p.2 < hk q.2)

theorem Keyed.tail {p : Bytes × Height} {ix : Index} (h : Keyed (p :: ix)) : Keyed ix :=
  fun q hq => h q (List.mem_cons_of_mem _ hq)

theorem asc_iff_bytes {ix : Index} (hk' : Keyed ix) :
    Asc ix ↔ ix.Pairwise (fun p q => bytesLt p.1 q.1 = true) := by
  unfold Asc
  induction ix with
  | nil => simp
  | cons p r ih =>
    simp only [List.pairwise_cons]
    rw [ih hk'.tail]
    constructor
    · intro ⟨h1, h2⟩
      refine ⟨fun q hq => ?_, h2⟩
      rw [hk' p List.mem_cons_self, hk' q (List.mem_cons_of_mem _ hq), bytesLt_beHeight]
      exact h1 q hq
    · intro ⟨h1, h2⟩
      refine ⟨fun q hq => ?_, h2⟩
      have := h1 q hq
      rw [hk' p List.mem_cons_self, hk' q (List.mem_cons_of_mem _ hq), bytesLt_beHeight] at this
      exact this

/-! ### insertion -/

theorem mem_ins (v : Height) : ∀ (ix : Index), Keyed ix → Asc ix →
    ∀ q, q ∈ Idx.ins (beHeight v) v ix ↔ (q = (beHeight v, v) ∨ (q ∈ ix ∧ q.2 ≠ v))
  | [], _, _, q => by simp [Idx.ins]
  | (k', v') :: r, hkd, hs, q => by
    have e : k' = beHeight v' := hkd (k', v') List.mem_cons_self
    subst e
    have hs' : Asc r := (List.pairwise_cons.mp hs).2
    have hlt : ∀ x ∈ r, hk v' < hk x.2 := (List.pairwise_cons.mp hs).1
    have ih := mem_ins v r hkd.tail hs' q
    unfold Idx.ins
    by_cases c1 : bytesLt (beHeight v) (beHeight v') = true
    · have c1' := (bytesLt_beHeight v v').mp c1
      simp only [c1, ↓reduceIte, List.mem_cons]
      constructor
      · rintro (h | h | h)
        · exact Or.inl h
        · right; subst h; exact ⟨Or.inl rfl, by intro e; simp only at e; rw [e] at c1'; omega⟩
        · right; exact ⟨Or.inr h, by intro e; have := hlt q h; rw [e] at this; omega⟩
      · rintro (h | ⟨h | h, _⟩)
        · exact Or.inl h
        · exact Or.inr (Or.inl h)
        · exact Or.inr (Or.inr h)
    · by_cases c2 : beHeight v = beHeight v'
      · have e := beHeight_inj c2
        subst e
        simp only [c1, Bool.false_eq_true, ↓reduceIte, List.mem_cons]
        constructor
        · rintro (h | h)
          · exact Or.inl h
          · right; exact ⟨Or.inr h, by intro e; have := hlt q h; rw [e] at this; omega⟩
        · rintro (h | ⟨h | h, hne⟩)
          · exact Or.inl h
          · subst h; exact absurd rfl hne
          · exact Or.inr h
      · simp only [c1, Bool.false_eq_true, ↓reduceIte, c2, List.mem_cons]
        rw [ih]
        have hne : v' ≠ v := fun e => c2 (by rw [e])
        constructor
        · rintro (h | h | ⟨h, h'⟩)
          · right; subst h; exact ⟨Or.inl rfl, hne⟩
          · exact Or.inl h
          · exact Or.inr ⟨Or.inr h, h'⟩
        · rintro (h | ⟨h | h, h'⟩)
          · exact Or.inr (Or.inl h)
          · exact Or.inl h
          · exact Or.inr (Or.inr ⟨h, h'⟩)

theorem keyed_ins (v : Height) (ix : Index) (hkd : Keyed ix) (hs : Asc ix) : Keyed (Idx.ins (beHeight v) v ix) := by
  intro q hq
  rcases (mem_ins v ix hkd hs q).mp hq with h | ⟨h, _⟩
  · subst h; rfl
  · exact hkd q h

theorem asc_ins (v : Height) : ∀ (ix : Index), Keyed ix → Asc ix → Asc (Idx.ins (beHeight v) v ix)
  | [], _, _ => by simp [Idx.ins, Asc]
  | (k', v') :: r, hkd, hs => by
    have e : k' = beHeight v' := hkd (k', v') List.mem_cons_self
    subst e
    have hs' : Asc r := (List.pairwise_cons.mp hs).2
    have hlt : ∀ x ∈ r, hk v' < hk x.2 := (List.pairwise_cons.mp hs).1
    unfold Idx.ins
    by_cases c1 : bytesLt (beHeight v) (beHeight v') = true
    · have c1' := (bytesLt_beHeight v v').mp c1
      simp only [c1, ↓reduceIte]
      refine List.pairwise_cons.mpr ⟨?_, hs⟩
      intro x hx
      rcases List.mem_cons.mp hx with h | h
      · subst h; exact c1'
      · have := hlt x h; simp only at *; omega
    · by_cases c2 : beHeight v = beHeight v'
      · have e := beHeight_inj c2
        subst e
        simp only [c1, Bool.false_eq_true, ↓reduceIte]
        exact List.pairwise_cons.mpr ⟨hlt, hs'⟩
      · simp only [c1, Bool.false_eq_true, ↓reduceIte, c2]
        have n1 : ¬ hk v < hk v' := fun h => c1 ((bytesLt_beHeight v v').mpr h)
        have n2 : hk v ≠ hk v' := fun h => c2 (by rw [hk_inj.mp h])
        refine List.pairwise_cons.mpr ⟨?_, asc_ins v r hkd.tail hs'⟩
        intro x hx
        rcases (mem_ins v r hkd.tail hs' x).mp hx with h | ⟨h, _⟩
        · subst h; simp only; omega
        · exact hlt x h

/-! ### deletion -/

theorem mem_del (v : Height) (ix : Index) (hkd : Keyed ix) (q : Bytes × Height) :
    q ∈ Idx.del (beHeight v) ix ↔ (q ∈ ix ∧ q.2 ≠ v) := by
  unfold Idx.del
  simp only [List.mem_filter, Bool.not_eq_eq_eq_not, Bool.not_true, decide_eq_false_iff_not]
  constructor
  · intro ⟨h1, h2⟩
    exact ⟨h1, fun e => h2 (by rw [hkd q h1, e])⟩
  · intro ⟨h1, h2⟩
    exact ⟨h1, fun e => h2 (beHeight_inj (by rw [← hkd q h1, e]))⟩

theorem keyed_del (k : Bytes) (ix : Index) (hkd : Keyed ix) : Keyed (Idx.del k ix) :=
  fun q hq => hkd q (List.mem_filter.mp hq).1

theorem asc_del (k : Bytes) (ix : Index) (hs : Asc ix) : Asc (Idx.del k ix) :=
  List.Pairwise.filter _ hs

/-! ### lookups -/

theorem get_isSome (ix : Index) (hkd : Keyed ix) (h : Height) :
    (Idx.get ix (beHeight h)).isSome ↔ ∃ p ∈ ix, p.2 = h := by
  unfold Idx.get
  cases hf : ix.find? (fun p => decide (p.1 = beHeight h)) with
  | none =>
    simp only [Option.isSome_none, Bool.false_eq_true, false_iff, not_exists, not_and]
    intro p hp e
    have := List.find?_eq_none.mp hf p hp
    simp only [decide_eq_true_eq] at this
    exact this (by rw [hkd p hp, e])
  | some p =>
    simp only [Option.isSome_some, true_iff]
    have hp := List.mem_of_find?_eq_some hf
    have := List.find?_some hf
    simp only [decide_eq_true_eq] at this
    exact ⟨p, hp, beHeight_inj (by rw [← hkd p hp, this])⟩

/-- a range scan from `IterationKey(h)` upwards is the scan of the heights ≥ h -/
theorem seekGE_eq (ix : Index) (hkd : Keyed ix) (h : Height) :
    Idx.seekGE (beHeight h) ix = ix.filter (fun p => decide (hk h ≤ hk p.2)) := by
  unfold Idx.seekGE
  apply List.filter_congr
  intro p hp
  rw [hkd p hp]
  have := bytesLt_beHeight p.2 h
  cases hb : bytesLt (beHeight p.2) (beHeight h)
  · have : ¬ hk p.2 < hk h := fun c => by rw [this.mpr c] at hb; exact Bool.noConfusion hb
    simp; omega
  · have := this.mp hb
    simp; omega

/-- a reverse range scan below `IterationKey(h)` is the reversed scan of the heights < h -/
theorem seekLT_eq (ix : Index) (hkd : Keyed ix) (h : Height) :
    Idx.seekLT (beHeight h) ix = (ix.filter (fun p => decide (hk p.2 < hk h))).reverse := by
  unfold Idx.seekLT
  congr 1
  apply List.filter_congr
  intro p hp
  rw [hkd p hp]
  have := bytesLt_beHeight p.2 h
  cases hb : bytesLt (beHeight p.2) (beHeight h)
  · have : ¬ hk p.2 < hk h := fun c => by rw [this.mpr c] at hb; exact Bool.noConfusion hb
    simp; omega
  · have := this.mp hb
    simp; omega

/-- the head of a filtered ascending list is the least element satisfying the predicate -/
theorem head_filter_asc (p : Bytes × Height → Bool) : ∀ (ix : Index), Asc ix → ∀ x rest,
    ix.filter p = x :: rest → (x ∈ ix ∧ p x = true ∧ (∀ y ∈ ix, p y = true → hk x.2 ≤ hk y.2) ∧
      (∀ y ∈ rest, y ∈ ix ∧ p y = true ∧ hk x.2 < hk y.2) ∧
      (∀ y ∈ ix, p y = true → y ≠ x → ∃ z, rest.head? = some z ∧ hk z.2 ≤ hk y.2))
  | [], _, x, rest, h => by simp at h
  | a :: r, hs, x, rest, h => by
    have hs' : Asc r := (List.pairwise_cons.mp hs).2
    have hlt : ∀ y ∈ r, hk a.2 < hk y.2 := (List.pairwise_cons.mp hs).1
    by_cases c : p a = true
    · rw [List.filter_cons_of_pos c] at h
      have e1 : a = x := (List.cons.inj h).1
      have e2 : r.filter p = rest := (List.cons.inj h).2
      subst e1
      refine ⟨List.mem_cons_self, c, ?_, ?_, ?_⟩
      · intro y hy _
        rcases List.mem_cons.mp hy with e | e
        · subst e; exact Nat.le_refl _
        · exact Nat.le_of_lt (hlt y e)
      · intro y hy
        rw [← e2] at hy
        have := List.mem_filter.mp hy
        exact ⟨List.mem_cons_of_mem _ this.1, this.2, hlt y this.1⟩
      · intro y hy py hne
        rcases List.mem_cons.mp hy with e | e
        · exact absurd e hne
        · -- y ∈ r and p y: so rest is non-empty and its head is the least of them
          have ym : y ∈ r.filter p := List.mem_filter.mpr ⟨e, py⟩
          rw [e2] at ym
          cases hr : rest with
          | nil => rw [hr] at ym; simp at ym
          | cons z rest' =>
            rw [hr] at e2
            have := (head_filter_asc p r hs' z rest' e2).2.2.1 y e py
            exact ⟨z, rfl, this⟩
    · rw [List.filter_cons_of_neg c] at h
      have ih := head_filter_asc p r hs' x rest h
      refine ⟨List.mem_cons_of_mem _ ih.1, ih.2.1, ?_, ?_, ?_⟩
      · intro y hy py
        rcases List.mem_cons.mp hy with e | e
        · subst e; exact absurd py c
        · exact ih.2.2.1 y e py
      · intro y hy
        have := ih.2.2.2.1 y hy
        exact ⟨List.mem_cons_of_mem _ this.1, this.2⟩
      · intro y hy py hne
        rcases List.mem_cons.mp hy with e | e
        · subst e; exact absurd py c
        · exact ih.2.2.2.2 y e py hne

/-- the last element of a filtered ascending list is the greatest element satisfying the predicate -/
theorem last_filter_asc (p : Bytes × Height → Bool) : ∀ (ix : Index), Asc ix → ∀ x,
    (ix.filter p).getLast? = some x → (x ∈ ix ∧ p x = true ∧ ∀ y ∈ ix, p y = true → hk y.2 ≤ hk x.2)
  | [], _, x, h => by simp at h
  | a :: r, hs, x, h => by
    have hs' : Asc r := (List.pairwise_cons.mp hs).2
    have hlt : ∀ y ∈ r, hk a.2 < hk y.2 := (List.pairwise_cons.mp hs).1
    by_cases c : p a = true
    · rw [List.filter_cons_of_pos c] at h
      cases hr : r.filter p with
      | nil =>
        rw [hr] at h
        simp only [List.getLast?_singleton, Option.some.injEq] at h
        subst h
        refine ⟨List.mem_cons_self, c, ?_⟩
        intro y hy py
        rcases List.mem_cons.mp hy with e | e
        · subst e; exact Nat.le_refl _
        · have : y ∈ r.filter p := List.mem_filter.mpr ⟨e, py⟩
          rw [hr] at this; simp at this
      | cons z zs =>
        rw [hr, List.getLast?_cons_cons] at h
        rw [← hr] at h
        have ih := last_filter_asc p r hs' x h
        refine ⟨List.mem_cons_of_mem _ ih.1, ih.2.1, ?_⟩
        intro y hy py
        rcases List.mem_cons.mp hy with e | e
        · subst e; exact Nat.le_of_lt (hlt x ih.1)
        · exact ih.2.2 y e py
    · rw [List.filter_cons_of_neg c] at h
      have ih := last_filter_asc p r hs' x h
      refine ⟨List.mem_cons_of_mem _ ih.1, ih.2.1, ?_⟩
      intro y hy py
      rcases List.mem_cons.mp hy with e | e
      · subst e; exact absurd py c
      · exact ih.2.2 y e py

end IbcVerif.Tm
