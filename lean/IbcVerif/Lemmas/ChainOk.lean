/-
  What a *successful* packet message did (used by the property theorems about replays).
-/
import IbcVerif.Lemmas.ChainInvStep
namespace IbcVerif.Chain
open FMap

/-- split a handler equation whose result is known to be a success: keeps only the success branches -/
macro "oksplit " h:ident : tactic =>
  `(tactic| ((try simp only at $h:ident); (repeat' split at $h:ident) <;>
      (simp only [Prod.mk.injEq] at $h:ident; obtain ⟨h1, h2⟩ := $h:ident; subst h1;
        try (first | (cases h2; done) | contradiction))))

theorem step_vb {s s' : ChainState} {env : Env} {b : Body} {out : Out}
    (h : step s ⟨env, b⟩ = (s', out)) (hok : out.isOk = true) : (b.isMsg && !env.vb) = false := by
  unfold step at h
  simp only at h
  split at h
  · simp only [Prod.mk.injEq] at h; obtain ⟨_, h2⟩ := h; subst h2; simp [Out.isOk] at hok
  · simp_all

theorem recvV1_ok {s s' : ChainState} {env : Env} {p : PacketV1} {app : AppV1} {r : String}
    (h : step s ⟨env, .recvV1 p app⟩ = (s', .ok r)) :
    ∃ s1, recvPacketV1 s env p = .ok s1 ∧ s'.log = s.log ++ [.recv1 p.dp p.dc p.seq] := by
  have hv := step_vb h rfl
  unfold step at h
  simp only [hv] at h
  simp only [Bool.false_eq_true, if_false] at h
  unfold msgRecvPacket done at h
  oksplit h
  all_goals (have hr := ‹recvPacketV1 s env p = Except.ok _›; have hl := (recvPacketV1_ackV1 hr).2.2.1)
  · obtain ⟨_, _, _, _, _, _, _, rfl⟩ := writeAckV1_ok ‹writeAckV1 _ p _ = Except.ok _›
    exact ⟨_, hr, by simp [ChainState.logAdd, ChainState.appWrite, hl]⟩
  · obtain ⟨_, _, _, _, _, _, _, rfl⟩ := writeAckV1_ok ‹writeAckV1 _ p _ = Except.ok _›
    exact ⟨_, hr, by simp [ChainState.logAdd, hl]⟩
  · exact ⟨_, hr, by simp [ChainState.logAdd, ChainState.appWrite, hl]⟩
  · exact absurd (writeAckV1_twice ‹_› ‹_›) id

theorem recvV2_ok {s s' : ChainState} {env : Env} {p : PacketV2} {apps : List AppV2} {r : String}
    (h : step s ⟨env, .recvV2 p apps⟩ = (s', .ok r)) :
    ∃ s1 n, recvPacketV2 s env p = .ok s1 ∧ s'.log = s.log ++ [.recv2 p.dst p.seq n] := by
  have hv := step_vb h rfl
  unfold step at h
  simp only [hv] at h
  simp only [Bool.false_eq_true, if_false] at h
  unfold msgRecvPacketV2 done at h
  oksplit h
  all_goals (have hr := ‹recvPacketV2 s env p = Except.ok _›; obtain ⟨_, _, hs1⟩ := recvPacketV2_ok hr)
  all_goals first
    | (obtain ⟨_, _, _, _, rfl⟩ := writeAckV2_ok ‹writeAckV2 _ p _ = Except.ok _›
       exact ⟨_, _, hr, by subst hs1; first | rfl | simp [ChainState.logAdd]⟩)
    | exact ⟨_, _, hr, by subst hs1; first | rfl | simp [ChainState.logAdd]⟩

theorem afterTao_ok {s s' : ChainState} {env : Env} {x : Except String ChainState} {ev : Event} {app : AppV1}
    {r : String} (h : afterTao s env x ev app = (s', .ok r)) : ∃ s1, x = .ok s1 := by
  unfold afterTao at h
  oksplit h
  exact ⟨_, rfl⟩

theorem ackV1_ok {s s' : ChainState} {env : Env} {p : PacketV1} {ack : Hex} {app : AppV1} {r : String}
    (h : step s ⟨env, .ackV1 p ack app⟩ = (s', .ok r)) : ∃ s1, acknowledgePacketV1 s env p = .ok s1 := by
  have hv := step_vb h rfl
  unfold step at h
  simp only [hv] at h
  simp only [Bool.false_eq_true, if_false] at h
  unfold msgAcknowledgement at h
  split at h
  · cases h
  · exact afterTao_ok h

theorem timeoutV1_ok {s s' : ChainState} {env : Env} {p : PacketV1} {nsr a b : Nat} {app : AppV1} {r : String}
    (h : step s ⟨env, .timeoutV1 p nsr a b app⟩ = (s', .ok r)) : ∃ s1, timeoutPacketV1 s env p nsr a b = .ok s1 := by
  have hv := step_vb h rfl
  unfold step at h
  simp only [hv] at h
  simp only [Bool.false_eq_true, if_false] at h
  unfold msgTimeout at h
  split at h
  · cases h
  · exact afterTao_ok h

theorem timeoutOnCloseV1_ok' {s s' : ChainState} {env : Env} {p : PacketV1} {nsr : Nat} {app : AppV1} {r : String}
    (h : step s ⟨env, .timeoutOnCloseV1 p nsr app⟩ = (s', .ok r)) : ∃ s1, timeoutOnCloseV1 s env p nsr = .ok s1 := by
  have hv := step_vb h rfl
  unfold step at h
  simp only [hv] at h
  simp only [Bool.false_eq_true, if_false] at h
  unfold msgTimeoutOnClose at h
  split at h
  · cases h
  · exact afterTao_ok h

theorem ackV2_ok {s s' : ChainState} {env : Env} {p : PacketV2} {acks : List Hex} {apps : List AppV2} {r : String}
    (h : step s ⟨env, .ackV2 p acks apps⟩ = (s', .ok r)) : ∃ s1, acknowledgePacketV2 s env p = .ok s1 := by
  have hv := step_vb h rfl
  unfold step at h
  simp only [hv] at h
  simp only [Bool.false_eq_true, if_false] at h
  unfold msgAcknowledgementV2 at h
  oksplit h
  all_goals exact ⟨_, ‹_›⟩

theorem timeoutV2_ok {s s' : ChainState} {env : Env} {p : PacketV2} {apps : List AppV2} {r : String}
    (h : step s ⟨env, .timeoutV2 p apps⟩ = (s', .ok r)) : ∃ s1, timeoutPacketV2 s env p = .ok s1 := by
  have hv := step_vb h rfl
  unfold step at h
  simp only [hv] at h
  simp only [Bool.false_eq_true, if_false] at h
  unfold msgTimeoutV2 at h
  oksplit h
  all_goals exact ⟨_, ‹_›⟩

end IbcVerif.Chain
