/-
  Store-level lemmas of the 07-tendermint model: the metadata invariant is preserved by the paired
  write / paired delete, neighbour lookups return the true neighbours, pruning removes the oldest.
-/
import IbcVerif.Lemmas.TmIdx
namespace IbcVerif.Tm
open IbcVerif

/-! ### reads after writes -/

theorem getCons_insert (s : Store) (h : Height) (c : ConsState) (ph : Height) (pt : Nat) (h' : Height) :
    ((s.setCons h c).setMeta h ph pt).getCons h' = if h = h' then some c else s.getCons h' := by
  show FMap.get (FMap.set s.cons h c) h' = _
  rw [FMap.get_set]; rfl

theorem getCons_delete (s : Store) (h h' : Height) :
    ((s.delCons h).delMeta h).getCons h' = if h = h' then none else s.getCons h' := by
  show FMap.get (FMap.del s.cons h) h' = _
  rw [FMap.get_del]; rfl

theorem has_insert (s : Store) (h : Height) (c : ConsState) (ph : Height) (pt : Nat) (h' : Height) :
    ((s.setCons h c).setMeta h ph pt).has h' ↔ (h = h' ∨ s.has h') := by
  unfold Store.has
  rw [getCons_insert]
  by_cases e : h = h' <;> simp [e]

theorem has_delete (s : Store) (h h' : Height) :
    ((s.delCons h).delMeta h).has h' ↔ (h ≠ h' ∧ s.has h') := by
  unfold Store.has
  rw [getCons_delete]
  by_cases e : h = h' <;> simp [e]

theorem client_insert (s : Store) (h : Height) (c : ConsState) (ph : Height) (pt : Nat) :
    ((s.setCons h c).setMeta h ph pt).client = s.client := rfl

theorem client_delete (s : Store) (h : Height) : ((s.delCons h).delMeta h).client = s.client := rfl

/-! ### the metadata invariant -/

theorem metaInv_empty : MetaInv Store.empty :=
  { keyed := fun p hp => nomatch hp
    asc := List.Pairwise.nil
    iter := fun h => ⟨fun ⟨_, hp, _⟩ => (nomatch hp), fun hh => Bool.noConfusion (show false = true from hh)⟩
    ptime := fun h => ⟨fun hh => Bool.noConfusion (show false = true from hh), fun hh => Bool.noConfusion (show false = true from hh)⟩
    pheight := fun h => ⟨fun hh => Bool.noConfusion (show false = true from hh), fun hh => Bool.noConfusion (show false = true from hh)⟩ }

theorem metaInv_client (s : Store) (x : Option ClientState) (inv : MetaInv s) : MetaInv { s with client := x } :=
  ⟨inv.keyed, inv.asc, inv.iter, inv.ptime, inv.pheight⟩

theorem metaInv_insert (s : Store) (inv : MetaInv s) (h : Height) (c : ConsState) (ph : Height) (pt : Nat) :
    MetaInv ((s.setCons h c).setMeta h ph pt) := by
  refine ⟨keyed_ins h s.iter inv.keyed inv.asc, asc_ins h s.iter inv.keyed inv.asc, ?_, ?_, ?_⟩
  · intro h'
    rw [has_insert]
    show (∃ p ∈ Idx.ins (beHeight h) h s.iter, p.2 = h') ↔ _
    constructor
    · rintro ⟨p, hp, e⟩
      rcases (mem_ins h s.iter inv.keyed inv.asc p).mp hp with e' | ⟨hm, _⟩
      · left; rw [← e, e']
      · right; exact (inv.iter h').mp ⟨p, hm, e⟩
    · rintro (e | hh)
      · exact ⟨(beHeight h, h), (mem_ins h s.iter inv.keyed inv.asc _).mpr (Or.inl rfl), e⟩
      · by_cases e : h = h'
        · exact ⟨(beHeight h, h), (mem_ins h s.iter inv.keyed inv.asc _).mpr (Or.inl rfl), e⟩
        · obtain ⟨p, hp, e'⟩ := (inv.iter h').mpr hh
          exact ⟨p, (mem_ins h s.iter inv.keyed inv.asc _).mpr (Or.inr ⟨hp, by rw [e']; exact Ne.symm e⟩), e'⟩
  · intro h'
    rw [has_insert]
    show (FMap.get (FMap.set s.ptime h pt) h').isSome = true ↔ _
    rw [FMap.get_set]
    by_cases e : h = h'
    · simp [e]
    · simp only [e, ↓reduceIte, false_or]; exact inv.ptime h'
  · intro h'
    rw [has_insert]
    show (FMap.get (FMap.set s.pheight h ph) h').isSome = true ↔ _
    rw [FMap.get_set]
    by_cases e : h = h'
    · simp [e]
    · simp only [e, ↓reduceIte, false_or]; exact inv.pheight h'

theorem metaInv_delete (s : Store) (inv : MetaInv s) (h : Height) : MetaInv ((s.delCons h).delMeta h) := by
  refine ⟨keyed_del _ s.iter inv.keyed, asc_del _ s.iter inv.asc, ?_, ?_, ?_⟩
  · intro h'
    rw [has_delete]
    show (∃ p ∈ Idx.del (beHeight h) s.iter, p.2 = h') ↔ _
    constructor
    · rintro ⟨p, hp, e⟩
      have := (mem_del h s.iter inv.keyed p).mp hp
      exact ⟨by rw [← e]; exact Ne.symm this.2, (inv.iter h').mp ⟨p, this.1, e⟩⟩
    · rintro ⟨ne, hh⟩
      obtain ⟨p, hp, e'⟩ := (inv.iter h').mpr hh
      exact ⟨p, (mem_del h s.iter inv.keyed p).mpr ⟨hp, by rw [e']; exact Ne.symm ne⟩, e'⟩
  · intro h'
    rw [has_delete]
    show (FMap.get (FMap.del s.ptime h) h').isSome = true ↔ _
    rw [FMap.get_del]
    by_cases e : h = h'
    · simp [e]
    · simp only [e, ↓reduceIte, ne_eq, not_false_eq_true, true_and]; exact inv.ptime h'
  · intro h'
    rw [has_delete]
    show (FMap.get (FMap.del s.pheight h) h').isSome = true ↔ _
    rw [FMap.get_del]
    by_cases e : h = h'
    · simp [e]
    · simp only [e, ↓reduceIte, ne_eq, not_false_eq_true, true_and]; exact inv.pheight h'

/-- ascending iteration decodes exactly the stored heights, in index order -/
theorem iterAsc_eq (s : Store) (inv : MetaInv s) : s.iterAsc = s.iter.map (fun p => p.2) := by
  unfold Store.iterAsc
  apply List.map_congr_left
  intro p hp
  rw [inv.keyed p hp, heightFromKey_beHeight]

theorem mem_iterAsc (s : Store) (inv : MetaInv s) (h : Height) : h ∈ s.iterAsc ↔ s.has h := by
  rw [iterAsc_eq s inv, ← inv.iter h]
  simp only [List.mem_map]

theorem iterAsc_sorted (s : Store) (inv : MetaInv s) : s.iterAsc.Pairwise (fun a b => hk a < hk b) := by
  rw [iterAsc_eq s inv, List.pairwise_map]
  exact inv.asc

/-! ### neighbour lookups -/

theorem isNext_unique {s : Store} {x a b : Height} (ha : IsNext s x a) (hb : IsNext s x b) : a = b := by
  have h1 := ha.2.2 b hb.1 hb.2.1
  have h2 := hb.2.2 a ha.1 ha.2.1
  exact hk_inj.mp (by omega)

theorem isPrev_unique {s : Store} {x a b : Height} (ha : IsPrev s x a) (hb : IsPrev s x b) : a = b := by
  have h1 := ha.2.2 b hb.1 hb.2.1
  have h2 := hb.2.2 a ha.1 ha.2.1
  exact hk_inj.mp (by omega)

/-- `GetNextConsensusState` returns the consensus state at the least stored height above `x`, and nothing
    exactly when no stored height is above `x` -/
theorem getNext_eq (s : Store) (inv : MetaInv s) (x : Height) :
    (s.getNext x = none ∧ ∀ h, s.has h → ¬ hk x < hk h) ∨ (∃ h, IsNext s x h ∧ s.getNext x = s.getCons h) := by
  unfold Store.getNext
  rw [seekGE_eq s.iter inv.keyed x]
  cases hf : s.iter.filter (fun p => decide (hk x ≤ hk p.2)) with
  | nil =>
    left
    refine ⟨rfl, ?_⟩
    intro h hh hlt
    obtain ⟨p, hp, e⟩ := (inv.iter h).mpr hh
    have : p ∈ s.iter.filter (fun p => decide (hk x ≤ hk p.2)) :=
      List.mem_filter.mpr ⟨hp, by rw [e]; simp; omega⟩
    rw [hf] at this; simp at this
  | cons a rest =>
    obtain ⟨k, v⟩ := a
    have ⟨hm, hp, hleast, hrest, hsecond⟩ := head_filter_asc _ s.iter inv.asc (k, v) rest hf
    simp only [decide_eq_true_eq] at hp hleast hrest hsecond
    by_cases e : v = x
    · subst e
      simp only [↓reduceIte]
      cases hr : rest with
      | nil =>
        left
        refine ⟨rfl, ?_⟩
        intro h hh hlt
        obtain ⟨p, hp', e'⟩ := (inv.iter h).mpr hh
        have hne : p ≠ (k, v) := by intro e2; rw [e2] at e'; simp only at e'; rw [e'] at hlt; omega
        obtain ⟨z, hz, _⟩ := hsecond p hp' (by rw [e']; omega) hne
        rw [hr] at hz; simp at hz
      | cons b rest' =>
        obtain ⟨k', v'⟩ := b
        right
        have hb := hrest (k', v') (by rw [hr]; exact List.mem_cons_self)
        refine ⟨v', ⟨(inv.iter v').mp ⟨(k', v'), hb.1, rfl⟩, hb.2.2, ?_⟩, rfl⟩
        intro h' hh' hlt
        obtain ⟨p, hp', e'⟩ := (inv.iter h').mpr hh'
        have hne : p ≠ (k, v) := by intro e2; rw [e2] at e'; simp only at e'; rw [e'] at hlt; omega
        obtain ⟨z, hz, hle⟩ := hsecond p hp' (by rw [e']; omega) hne
        rw [hr] at hz
        simp only [List.head?_cons, Option.some.injEq] at hz
        rw [← hz, e'] at hle
        exact hle
    · right
      simp only [e, ↓reduceIte]
      have hne : hk v ≠ hk x := fun c => e (hk_inj.mp c)
      refine ⟨v, ⟨(inv.iter v).mp ⟨(k, v), hm, rfl⟩, by omega, ?_⟩, rfl⟩
      intro h' hh' hlt
      obtain ⟨p, hp', e'⟩ := (inv.iter h').mpr hh'
      have := hleast p hp' (by rw [e']; omega)
      rw [e'] at this
      exact this

/-- `GetPreviousConsensusState` returns the consensus state at the greatest stored height below `x` -/
theorem getPrev_eq (s : Store) (inv : MetaInv s) (x : Height) :
    (s.getPrev x = none ∧ ∀ h, s.has h → ¬ hk h < hk x) ∨ (∃ h, IsPrev s x h ∧ s.getPrev x = s.getCons h) := by
  unfold Store.getPrev
  rw [seekLT_eq s.iter inv.keyed x]
  cases hf : (s.iter.filter (fun p => decide (hk p.2 < hk x))).reverse with
  | nil =>
    left
    refine ⟨rfl, ?_⟩
    intro h hh hlt
    obtain ⟨p, hp, e⟩ := (inv.iter h).mpr hh
    have : p ∈ s.iter.filter (fun p => decide (hk p.2 < hk x)) :=
      List.mem_filter.mpr ⟨hp, by rw [e]; simp; omega⟩
    have h0 : s.iter.filter (fun p => decide (hk p.2 < hk x)) = [] := by
      have := congrArg List.reverse hf
      simpa using this
    rw [h0] at this; simp at this
  | cons a rest =>
    obtain ⟨k, v⟩ := a
    right
    have hl : (s.iter.filter (fun p => decide (hk p.2 < hk x))).getLast? = some (k, v) := by
      rw [← List.head?_reverse, hf]; rfl
    have ⟨hm, hp, hgreatest⟩ := last_filter_asc _ s.iter inv.asc (k, v) hl
    simp only [decide_eq_true_eq] at hp hgreatest
    refine ⟨v, ⟨(inv.iter v).mp ⟨(k, v), hm, rfl⟩, hp, ?_⟩, rfl⟩
    intro h' hh' hlt
    obtain ⟨p, hp', e'⟩ := (inv.iter h').mpr hh'
    have := hgreatest p hp' (by rw [e']; exact hlt)
    rw [e'] at this
    exact this

/-! ### pruning -/

/-- `pruneOldestConsensusState`: at most one deletion, of the least stored height, only if expired,
    together with all its metadata; never panics on a consistent store -/
theorem pruneOldest_spec (s : Store) (inv : MetaInv s) (tp now : Int) :
    (∃ h c, IsOldest s h ∧ s.getCons h = some c ∧ isExpired tp c.ts now = true ∧
        s.pruneOldest tp now = some ((s.delCons h).delMeta h))
    ∨ (s.pruneOldest tp now = some s ∧ ∀ h c, IsOldest s h → s.getCons h = some c → isExpired tp c.ts now = false) := by
  unfold Store.pruneOldest
  have hsorted := iterAsc_sorted s inv
  cases hi : s.iterAsc with
  | nil =>
    right
    refine ⟨rfl, ?_⟩
    intro h c ho _
    have := (mem_iterAsc s inv h).mpr ho.1
    rw [hi] at this; simp at this
  | cons h rest =>
    have hmem : s.has h := (mem_iterAsc s inv h).mp (by rw [hi]; exact List.mem_cons_self)
    have hold : IsOldest s h := by
      refine ⟨hmem, ?_⟩
      intro h' hh'
      have := (mem_iterAsc s inv h').mpr hh'
      rw [hi] at this hsorted
      rcases List.mem_cons.mp this with e | e
      · rw [e]; exact Nat.le_refl _
      · exact Nat.le_of_lt ((List.pairwise_cons.mp hsorted).1 h' e)
    cases hc : s.getCons h with
    | none => unfold Store.has at hmem; rw [hc] at hmem; simp at hmem
    | some c =>
      by_cases he : isExpired tp c.ts now = true
      · left
        exact ⟨h, c, hold, hc, he, by simp [hc, he]⟩
      · right
        simp only [hc, he, Bool.false_eq_true, ↓reduceIte, true_and]
        intro h2 c2 ho2 hc2
        have : h2 = h := hk_inj.mp (by have := ho2.2 h hmem; have := hold.2 h2 ho2.1; omega)
        subst this
        rw [hc] at hc2
        cases hc2
        simpa using he

theorem metaInv_delAll : ∀ (hs : List Height) (s : Store), MetaInv s → MetaInv (s.delAll hs)
  | [], _, inv => inv
  | h :: hs, s, inv => metaInv_delAll hs _ (metaInv_delete s inv h)

theorem getCons_delAll : ∀ (hs : List Height) (s : Store) (h' : Height),
    (s.delAll hs).getCons h' = if h' ∈ hs then none else s.getCons h'
  | [], _, _ => by simp [Store.delAll]
  | h :: hs, s, h' => by
    unfold Store.delAll
    rw [getCons_delAll hs _ h', getCons_delete]
    by_cases e1 : h' ∈ hs
    · simp [e1]
    · by_cases e2 : h = h'
      · simp [e2]
      · simp [e1, e2, Ne.symm e2]

theorem client_delAll : ∀ (hs : List Height) (s : Store), (s.delAll hs).client = s.client
  | [], _ => rfl
  | h :: hs, s => by unfold Store.delAll; rw [client_delAll hs]; rfl

/-- the heights collected by `PruneAllExpiredConsensusStates`: the stored, expired ones -/
theorem mem_expiredHeights (tp now : Int) (s : Store) : ∀ (l : List Height), (∀ h ∈ l, s.has h) → ∀ h,
    h ∈ Store.expiredHeights tp now s l ↔ (h ∈ l ∧ ∃ c, s.getCons h = some c ∧ isExpired tp c.ts now = true)
  | [], _, h => by simp [Store.expiredHeights]
  | a :: l, hl, h => by
    have ha : s.has a := hl a List.mem_cons_self
    have ih := mem_expiredHeights tp now s l (fun x hx => hl x (List.mem_cons_of_mem _ hx)) h
    unfold Store.expiredHeights
    cases hc : s.getCons a with
    | none => unfold Store.has at ha; rw [hc] at ha; simp at ha
    | some c =>
      simp only
      by_cases he : isExpired tp c.ts now = true
      · simp only [he, ↓reduceIte, List.mem_cons]
        rw [ih]
        constructor
        · rintro (e | ⟨hm, hx⟩)
          · subst e; exact ⟨Or.inl rfl, c, hc, he⟩
          · exact ⟨Or.inr hm, hx⟩
        · rintro ⟨e | hm, hx⟩
          · exact Or.inl e
          · exact Or.inr ⟨hm, hx⟩
      · simp only [he, Bool.false_eq_true, ↓reduceIte, List.mem_cons]
        rw [ih]
        constructor
        · rintro ⟨hm, hx⟩; exact ⟨Or.inr hm, hx⟩
        · rintro ⟨e | hm, hx⟩
          · subst e
            obtain ⟨c', hc', he'⟩ := hx
            rw [hc] at hc'; cases hc'
            exact absurd he' he
          · exact ⟨hm, hx⟩

/-- `PruneAllExpiredConsensusStates` removes exactly the expired consensus states (with metadata) -/
theorem pruneAll_spec (s : Store) (inv : MetaInv s) (tp now : Int) :
    MetaInv (s.pruneAll tp now).1 ∧ (s.pruneAll tp now).1.client = s.client ∧
    ∀ h, (s.pruneAll tp now).1.getCons h =
      match s.getCons h with
      | some c => if isExpired tp c.ts now then none else some c
      | none => none := by
  unfold Store.pruneAll
  refine ⟨metaInv_delAll _ s inv, client_delAll _ s, ?_⟩
  intro h
  simp only
  rw [getCons_delAll]
  have hm := mem_expiredHeights tp now s s.iterAsc (fun x hx => (mem_iterAsc s inv x).mp hx) h
  cases hc : s.getCons h with
  | none =>
    have : h ∉ Store.expiredHeights tp now s s.iterAsc := by
      rw [hm]; rintro ⟨_, c, hc', _⟩; rw [hc] at hc'; cases hc'
    simp [this]
  | some c =>
    simp only
    by_cases he : isExpired tp c.ts now = true
    · have : h ∈ Store.expiredHeights tp now s s.iterAsc := by
        rw [hm]; exact ⟨(mem_iterAsc s inv h).mpr (by unfold Store.has; rw [hc]; rfl), c, hc, he⟩
      simp [this, he]
    · have : h ∉ Store.expiredHeights tp now s s.iterAsc := by
        rw [hm]; rintro ⟨_, c', hc', he'⟩; rw [hc] at hc'; cases hc'; exact he he'
      simp [this, he]

end IbcVerif.Tm
