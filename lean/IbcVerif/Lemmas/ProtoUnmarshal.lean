import IbcVerif.Lemmas.ProtoReject
namespace IbcVerif.Proto
open IbcVerif

theorem unmarshalLoop_succ (k fuel : Nat) (d : Bytes) (i : Nat) (vals : List Bytes) :
    unmarshalLoop k (fuel + 1) d i vals =
    (if i ≥ d.length then (if i > d.length then .err "unexpected EOF" else .ok vals)
    else do
      let (wire, i1) ← varint false d i
      let fieldNum := wire / 8 % 2 ^ 32
      let wt := wire % 8
      if wt = 4 then .err "proto: wiretype end group for non-group"
      else if fieldNum = 0 ∨ fieldNum ≥ 2 ^ 31 then .err "proto: illegal tag"
      else if fieldNum ≤ k then
        if wt ≠ 2 then .err "proto: wrong wireType"
        else do
          let (slen, i2) ← varint false d i1
          if slen ≥ 2 ^ 63 then .err "proto: negative length found during unmarshaling"
          else if i2 + slen ≥ 2 ^ 63 then .err "proto: negative length found during unmarshaling"
          else if i2 + slen > d.length then .err "unexpected EOF"
          else do
            let v ← G.slice d i2 (i2 + slen)
            unmarshalLoop k fuel d (i2 + slen) (setAt vals (fieldNum - 1) v)
      else do
        let rest ← G.sliceFrom d i
        let skippy ← skip rest
        if i + skippy ≥ 2 ^ 63 then .err "proto: negative length found during unmarshaling"
        else if i + skippy > d.length then .err "unexpected EOF"
        else unmarshalLoop k fuel d (i + skippy) vals) := by
  rw [unmarshalLoop]

theorem unmarshalLoop_step (k fuel : Nat) (d pre rest v : Bytes) (num i : Nat) (cur : List Bytes)
    (hd : d = pre ++ (encVarint (tagOf num) ++ (encVarint v.length ++ v) ++ rest)) (hi : i = pre.length)
    (h1 : 1 ≤ num) (hk : num ≤ k) (hk31 : k < 2 ^ 31) (hdl : d.length < 2 ^ 63) :
    unmarshalLoop k (fuel + 1) d i cur =
      unmarshalLoop k fuel d (i + (encVarint (tagOf num) ++ (encVarint v.length ++ v)).length) (setAt cur (num - 1) v) := by
  have htag : tagOf num < 2 ^ 64 := by unfold tagOf; omega
  have hlen : d.length = pre.length + (encVarint (tagOf num)).length + (encVarint v.length).length + v.length + rest.length := by
    rw [hd]; simp; omega
  have hp1 := encVarint_length_pos (tagOf num)
  have hv : v.length < 2 ^ 64 := by omega
  have e1 : d = pre ++ (encVarint (tagOf num) ++ ((encVarint v.length ++ v) ++ rest)) := by rw [hd]; simp
  have v1 := varint_enc false (tagOf num) htag d pre _ i e1 hi
  have e2 : d = (pre ++ encVarint (tagOf num)) ++ (encVarint v.length ++ (v ++ rest)) := by rw [hd]; simp
  have v2 := varint_enc false v.length hv d _ _ (i + (encVarint (tagOf num)).length) e2 (by simp [hi])
  have e3 : d = (pre ++ (encVarint (tagOf num) ++ encVarint v.length)) ++ (v ++ rest) := by rw [hd]; simp
  have s3 : G.slice d (i + (encVarint (tagOf num)).length + (encVarint v.length).length)
      (i + (encVarint (tagOf num)).length + (encVarint v.length).length + v.length) = .ok v := by
    rw [e3]; exact slice_mid' _ _ _ _ _ (by simp [hi]; omega) (by simp [hi]; omega)
  rw [unmarshalLoop_succ, if_neg (by omega), v1]
  simp only [G.bind_ok]
  have t8 : tagOf num / 8 % 2 ^ 32 = num := by unfold tagOf; omega
  have t7 : tagOf num % 8 = 2 := by unfold tagOf; omega
  rw [t8, t7, if_neg (by omega), if_neg (by omega), if_pos hk, if_neg (by simp), v2]
  simp only [G.bind_ok]
  rw [if_neg (by omega), if_neg (by omega), if_neg (by omega), s3]
  simp only [G.bind_ok]
  congr 1
  simp only [List.length_append]; omega

theorem setAt_mid (done : List Bytes) (x v : Bytes) (tl : List Bytes) :
    setAt (done ++ x :: tl) done.length v = done ++ v :: tl := by
  induction done with
  | nil => rfl
  | cons a as ih => simp [setAt, ih]

theorem unmarshalLoop_encFields (k : Nat) (hk31 : k < 2 ^ 31) : ∀ (vals : List Bytes) (fuel : Nat) (d pre : Bytes) (done : List Bytes),
    d = pre ++ encFieldsFrom (done.length + 1) vals → done.length + vals.length = k →
    (encFieldsFrom (done.length + 1) vals).length + 1 ≤ fuel → d.length < 2 ^ 63 →
    unmarshalLoop k fuel d pre.length (done ++ List.replicate vals.length []) = .ok (done ++ vals)
  | [], fuel, d, pre, done, hd, _, hf, _ => by
    obtain ⟨f, rfl⟩ : ∃ f, fuel = f + 1 := ⟨fuel - 1, by omega⟩
    have : d.length = pre.length := by rw [hd]; simp [encFieldsFrom]
    rw [unmarshalLoop_succ, if_pos (by omega), if_neg (by omega)]
    simp
  | v :: vs, fuel, d, pre, done, hd, hk, hf, hdl => by
    have hcur : done ++ List.replicate (v :: vs).length [] = (done ++ [([] : Bytes)]) ++ List.replicate vs.length [] := by
      simp [List.replicate_succ]
    by_cases he : v = []
    · subst he
      have := unmarshalLoop_encFields k hk31 vs fuel d pre (done ++ [[]])
        (by rw [hd]; simp [encFieldsFrom, encField_empty]) (by simp at hk ⊢; omega)
        (by simpa [encFieldsFrom, encField_empty] using hf) hdl
      rw [hcur, this]; simp
    · have hp := encVarint_length_pos (tagOf (done.length + 1))
      have hfl : (encFieldsFrom (done.length + 1) (v :: vs)).length =
          (encVarint (tagOf (done.length + 1)) ++ (encVarint v.length ++ v)).length + (encFieldsFrom (done.length + 1 + 1) vs).length := by
        simp [encFieldsFrom, encField_nonempty _ v he]; omega
      have hpos : 0 < (encVarint (tagOf (done.length + 1)) ++ (encVarint v.length ++ v)).length := by
        simp only [List.length_append]; omega
      obtain ⟨f, rfl⟩ : ∃ f, fuel = f + 1 := ⟨fuel - 1, by omega⟩
      have hd' : d = pre ++ (encVarint (tagOf (done.length + 1)) ++ (encVarint v.length ++ v) ++ encFieldsFrom (done.length + 1 + 1) vs) := by
        rw [hd]; simp [encFieldsFrom, encField_nonempty _ v he]
      rw [unmarshalLoop_step k f d pre _ v (done.length + 1) pre.length _ hd' rfl (by omega) (by simp at hk; omega) hk31 hdl]
      have hset : setAt (done ++ List.replicate (v :: vs).length []) (done.length + 1 - 1) v
          = (done ++ [v]) ++ List.replicate vs.length [] := by
        rw [List.length_cons, List.replicate_succ, Nat.add_sub_cancel, setAt_mid]; simp
      rw [hset]
      have := unmarshalLoop_encFields k hk31 vs f d (pre ++ (encVarint (tagOf (done.length + 1)) ++ (encVarint v.length ++ v))) (done ++ [v])
        (by rw [hd']; simp) (by simp at hk ⊢; omega) (by simp; omega) hdl
      simp only [List.length_append] at this ⊢
      rw [this]; simp

theorem unmarshal_encode (k : Nat) (hk31 : k < 2 ^ 31) (vals : List Bytes) (hl : vals.length = k)
    (hdl : (encode vals).length < 2 ^ 63) : unmarshal k (encode vals) = .ok vals := by
  unfold unmarshal encode
  have := unmarshalLoop_encFields k hk31 vals ((encFieldsFrom 1 vals).length + 1) (encFieldsFrom 1 vals) [] [] rfl
    (by simpa using hl) (by simp) hdl
  simpa [hl] using this

theorem encode_field_le (vals : List Bytes) : ∀ v ∈ vals, v.length ≤ (encode vals).length := by
  unfold encode
  generalize 1 = num
  induction vals generalizing num with
  | nil => intro v hv; cases hv
  | cons x xs ih =>
    intro v hv
    have hx : x.length ≤ (encField num x).length := by
      by_cases he : x = []
      · subst he; simp
      · rw [encField_nonempty num x he]; simp only [List.length_append]; omega
    rcases List.mem_cons.mp hv with rfl | h
    · simp only [encFieldsFrom, List.length_append]; omega
    · have := ih (num + 1) v h
      simp only [encFieldsFrom, List.length_append]; omega

/-- protobuf round trip: both passes accept the marshalled bytes and return the value -/
theorem decode_encode (k : Nat) (hk31 : k < 2 ^ 31) (vals : List Bytes) (hl : vals.length = k)
    (hdl : (encode vals).length < 2 ^ 63) : decode k (encode vals) = .ok vals := by
  unfold decode
  have hv : ∀ v ∈ vals, v.length < 2 ^ 64 := fun v hv => by
    have := encode_field_le vals v hv; omega
  rw [rejectUnknown_encode k hk31 vals hl hv]
  simp only [G.bind_ok]
  exact unmarshal_encode k hk31 vals hl hdl

theorem decodeCanonical_encode (k : Nat) (hk31 : k < 2 ^ 31) (vals : List Bytes) (hl : vals.length = k)
    (hdl : (encode vals).length < 2 ^ 63) : decodeCanonical k (encode vals) = .ok vals := by
  unfold decodeCanonical
  rw [decode_encode k hk31 vals hl hdl]
  simp
end IbcVerif.Proto
