/-
  The iteration key `BE(revision) ++ BE(height)` is order-isomorphic to the height order, for every
  pair of 64-bit values (nothing about the byte values is assumed: 0x2F, 0xFF, 0x00 are like any other).
-/
import IbcVerif.Lemmas.TmMap
import IbcVerif.Lemmas.Bytes
namespace IbcVerif.Tm
open IbcVerif

theorem u8_lt_ofNat (x y : Nat) (hx : x < 256) (hy : y < 256) : (UInt8.ofNat x < UInt8.ofNat y) ↔ x < y := by
  rw [UInt8.lt_iff_toNat_lt, UInt8.toNat_ofNat', UInt8.toNat_ofNat']
  rw [Nat.mod_eq_of_lt (by simpa using hx), Nat.mod_eq_of_lt (by simpa using hy)]

/-- value of a big-endian digit string -/
def beVal : List Nat → Nat
  | [] => 0
  | d :: ds => d * 256 ^ ds.length + beVal ds

theorem beVal_lt : ∀ (ds : List Nat), (∀ d ∈ ds, d < 256) → beVal ds < 256 ^ ds.length
  | [], _ => by simp [beVal]
  | d :: ds, h => by
    have ih := beVal_lt ds (fun x hx => h x (List.mem_cons_of_mem _ hx))
    have hd : d < 256 := h d List.mem_cons_self
    simp only [beVal, List.length_cons, Nat.pow_succ]
    have : d * 256 ^ ds.length + 256 ^ ds.length ≤ 256 * 256 ^ ds.length := by
      have := Nat.mul_le_mul_right (256 ^ ds.length) (show d + 1 ≤ 256 by omega)
      rw [Nat.add_mul, Nat.one_mul] at this
      exact this
    rw [Nat.mul_comm (256 ^ ds.length) 256]
    omega

/-- bytewise order on equally long digit strings is the order of their values -/
theorem bytesLt_digits : ∀ (ds es : List Nat), ds.length = es.length → (∀ d ∈ ds, d < 256) → (∀ d ∈ es, d < 256) →
    (bytesLt (ds.map UInt8.ofNat) (es.map UInt8.ofNat) = true ↔ beVal ds < beVal es)
  | [], [], _, _, _ => by simp [bytesLt, beVal]
  | [], _ :: _, h, _, _ => by simp at h
  | _ :: _, [], h, _, _ => by simp at h
  | d :: ds, e :: es, hl, hd, he => by
    have hl' : ds.length = es.length := by simpa using hl
    have ih := bytesLt_digits ds es hl' (fun x hx => hd x (List.mem_cons_of_mem _ hx)) (fun x hx => he x (List.mem_cons_of_mem _ hx))
    have d256 : d < 256 := hd d List.mem_cons_self
    have e256 : e < 256 := he e List.mem_cons_self
    have vd := beVal_lt ds (fun x hx => hd x (List.mem_cons_of_mem _ hx))
    have ve := beVal_lt es (fun x hx => he x (List.mem_cons_of_mem _ hx))
    simp only [List.map_cons, bytesLt, beVal, u8_lt_ofNat _ _ d256 e256, u8_lt_ofNat _ _ e256 d256]
    rw [← hl'] at ve ⊢
    generalize 256 ^ ds.length = B at *
    by_cases c1 : d < e
    · simp only [c1, ↓reduceIte, true_iff]
      have := Nat.mul_le_mul_right B (show d + 1 ≤ e by omega)
      rw [Nat.add_mul, Nat.one_mul] at this
      omega
    · by_cases c2 : e < d
      · simp only [c1, c2, ↓reduceIte, Bool.false_eq_true, false_iff]
        have := Nat.mul_le_mul_right B (show e + 1 ≤ d by omega)
        rw [Nat.add_mul, Nat.one_mul] at this
        omega
      · have : d = e := by omega
        subst this
        simp only [c1, ↓reduceIte, ih]
        omega

def digits8 (n : Nat) : List Nat :=
  [n / 2^56 % 256, n / 2^48 % 256, n / 2^40 % 256, n / 2^32 % 256, n / 2^24 % 256, n / 2^16 % 256, n / 2^8 % 256, n % 256]

theorem be64_eq_digits (n : Nat) : be64 n = (digits8 n).map UInt8.ofNat := rfl

theorem digits8_lt (n : Nat) : ∀ d ∈ digits8 n, d < 256 := by
  intro d hd
  simp only [digits8, List.mem_cons, List.not_mem_nil, or_false] at hd
  rcases hd with h | h | h | h | h | h | h | h <;> rw [h] <;> exact Nat.mod_lt _ (by decide)

theorem beVal_digits8 (n : Nat) (h : n < 2^64) : beVal (digits8 n) = n := by
  have := be64_sum n h
  have e7 : (256:Nat)^7 = 2^56 := by decide
  have e6 : (256:Nat)^6 = 2^48 := by decide
  have e5 : (256:Nat)^5 = 2^40 := by decide
  have e4 : (256:Nat)^4 = 2^32 := by decide
  have e3 : (256:Nat)^3 = 2^24 := by decide
  have e2 : (256:Nat)^2 = 2^16 := by decide
  have e1 : (256:Nat)^1 = 2^8 := by decide
  show n / 2^56 % 256 * 256^7 + (n / 2^48 % 256 * 256^6 + (n / 2^40 % 256 * 256^5 + (n / 2^32 % 256 * 256^4 +
    (n / 2^24 % 256 * 256^3 + (n / 2^16 % 256 * 256^2 + (n / 2^8 % 256 * 256^1 + (n % 256 * 256^0 + 0))))))) = n
  rw [e7, e6, e5, e4, e3, e2, e1, Nat.pow_zero, Nat.mul_one, Nat.add_zero]
  simp only [← Nat.add_assoc]
  exact this

/-- bytewise lexicographic order on 8-byte big-endian encodings is the numeric order -/
theorem bytesLt_be64 (a b : Nat) (ha : a < 2^64) (hb : b < 2^64) : bytesLt (be64 a) (be64 b) = true ↔ a < b := by
  have := bytesLt_digits (digits8 a) (digits8 b) rfl (digits8_lt a) (digits8_lt b)
  rw [beVal_digits8 a ha, beVal_digits8 b hb] at this
  exact this

/-- lexicographic order on concatenations of equally long blocks -/
theorem bytesLt_append : ∀ (a a' b b' : Bytes), a.length = a'.length →
    bytesLt (a ++ b) (a' ++ b') = (if bytesLt a a' then true else if bytesLt a' a then false else bytesLt b b')
  | [], [], b, b', _ => by simp [bytesLt]
  | [], _ :: _, _, _, h => by simp at h
  | _ :: _, [], _, _, h => by simp at h
  | x :: xs, y :: ys, b, b', h => by
    have ih := bytesLt_append xs ys b b' (by simpa using h)
    simp only [List.cons_append, bytesLt]
    by_cases h1 : x < y
    · simp [h1]
    · by_cases h2 : y < x
      · simp [h1, h2]
      · simp [h1, h2, ih]

theorem bytesLt_irrefl : ∀ (a : Bytes), bytesLt a a = false
  | [] => rfl
  | x :: xs => by simp [bytesLt, UInt8.lt_irrefl, bytesLt_irrefl xs]

theorem beHeight_length (h : Height) : (beHeight h).length = 16 := rfl

/-- **big-endian iteration order = height order**, for all revisions and heights -/
theorem bytesLt_beHeight (a b : Height) : bytesLt (beHeight a) (beHeight b) = true ↔ hk a < hk b := by
  unfold beHeight
  rw [bytesLt_append _ _ _ _ (by simp [be64_length])]
  have ar := UInt64.toNat_lt a.rev
  have ah := UInt64.toNat_lt a.h
  have br := UInt64.toNat_lt b.rev
  have bh := UInt64.toNat_lt b.h
  have e1 := bytesLt_be64 a.rev.toNat b.rev.toNat ar br
  have e2 := bytesLt_be64 b.rev.toNat a.rev.toNat br ar
  have e3 := bytesLt_be64 a.h.toNat b.h.toNat ah bh
  unfold hk
  by_cases c1 : a.rev.toNat < b.rev.toNat
  · simp [e1.mpr c1]; omega
  · have n1 : bytesLt (be64 a.rev.toNat) (be64 b.rev.toNat) = false := by
      cases hb : bytesLt (be64 a.rev.toNat) (be64 b.rev.toNat)
      · rfl
      · exact absurd (e1.mp hb) c1
    by_cases c2 : b.rev.toNat < a.rev.toNat
    · simp [n1, e2.mpr c2]; omega
    · have n2 : bytesLt (be64 b.rev.toNat) (be64 a.rev.toNat) = false := by
        cases hb : bytesLt (be64 b.rev.toNat) (be64 a.rev.toNat)
        · rfl
        · exact absurd (e2.mp hb) c2
      simp only [n1, n2, Bool.false_eq_true, ↓reduceIte]
      rw [e3]; omega

theorem beHeight_inj {a b : Height} (h : beHeight a = beHeight b) : a = b := by
  unfold beHeight at h
  have ⟨h1, h2⟩ := List.append_inj h (by simp [be64_length])
  have r := be64_inj (UInt64.toNat_lt a.rev) (UInt64.toNat_lt b.rev) h1
  have hh := be64_inj (UInt64.toNat_lt a.h) (UInt64.toNat_lt b.h) h2
  exact (Height.ext_toNat a b).mpr ⟨r, hh⟩

theorem beHeight_eq_iff {a b : Height} : beHeight a = beHeight b ↔ a = b :=
  ⟨beHeight_inj, fun h => by rw [h]⟩

/-- `GetHeightFromIterationKey (IterationKey h) = h` -/
theorem heightFromKey_beHeight (h : Height) : heightFromKey (beHeight h) = h := by
  unfold heightFromKey beHeight
  have l : (be64 h.rev.toNat).length = 8 := be64_length _
  rw [List.take_left' l, List.drop_left' l]
  rw [unbe64_be64 _ (UInt64.toNat_lt h.rev), unbe64_be64 _ (UInt64.toNat_lt h.h)]
  simp

end IbcVerif.Tm
