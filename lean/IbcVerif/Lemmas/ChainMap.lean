/-
  The three facts about `FMap` that every proof about the chain model uses.
-/
import IbcVerif.Model.ChainMap
namespace IbcVerif.Chain

variable {K V : Type} [DecidableEq K]

theorem alookup_aerase_ne (l : List (K × V)) (k k' : K) (h : k' ≠ k) :
    alookup (aerase l k) k' = alookup l k' := by
  induction l with
  | nil => rfl
  | cons e l ih =>
    obtain ⟨a, v⟩ := e
    by_cases h1 : a = k
    · have h2 : ¬ a = k' := by rw [h1]; exact fun h' => h h'.symm
      subst h1
      simp [aerase, alookup, h2, ih]
    · by_cases h2 : a = k'
      · subst h2; simp [aerase, alookup, h1]
      · simp [aerase, alookup, h1, h2, ih]

theorem alookup_aerase_eq (l : List (K × V)) (k : K) : alookup (aerase l k) k = none := by
  induction l with
  | nil => rfl
  | cons e l ih =>
    obtain ⟨a, v⟩ := e
    by_cases h1 : a = k
    · simp [aerase, h1, ih]
    · simp [aerase, alookup, h1, ih]

namespace FMap

@[simp] theorem get_empty (k : K) : (empty : FMap K V).get k = none := rfl

theorem get_set (m : FMap K V) (k k' : K) (v : V) :
    (m.set k v).get k' = if k' = k then some v else m.get k' := by
  unfold get set
  by_cases h : k' = k
  · subst h; simp [alookup]
  · have h' : ¬ k = k' := fun e => h e.symm
    simp [alookup, h, h', alookup_aerase_ne _ _ _ h]

theorem get_del (m : FMap K V) (k k' : K) :
    (m.del k).get k' = if k' = k then none else m.get k' := by
  unfold get del
  by_cases h : k' = k
  · subst h; simp [alookup_aerase_eq]
  · simp [h, alookup_aerase_ne _ _ _ h]

@[simp] theorem get_set_self (m : FMap K V) (k : K) (v : V) : (m.set k v).get k = some v := by
  simp [get_set]

theorem get_set_ne (m : FMap K V) {k k' : K} (v : V) (h : k' ≠ k) : (m.set k v).get k' = m.get k' := by
  simp [get_set, h]

@[simp] theorem get_del_self (m : FMap K V) (k : K) : (m.del k).get k = none := by
  simp [get_del]

theorem get_del_ne (m : FMap K V) {k k' : K} (h : k' ≠ k) : (m.del k).get k' = m.get k' := by
  simp [get_del, h]

theorem has_iff (m : FMap K V) (k : K) : m.has k = true ↔ m.get k ≠ none := by
  unfold has; cases m.get k <;> simp

theorem has_false_iff (m : FMap K V) (k : K) : m.has k = false ↔ m.get k = none := by
  unfold has; cases m.get k <;> simp

end FMap
end IbcVerif.Chain
