/-
  Exact success conditions (result class "ok"/"frozen"/"updated") of the keeper operations of the
  07-tendermint model: used by C21 (gating), C24 (acceptance conditions) and C25 (recovery / upgrade).
-/
import IbcVerif.Lemmas.TmHist
namespace IbcVerif.Tm
open IbcVerif

theorem err_ne_ok (e : String) : "err:" ++ e ≠ "ok" := by
  intro h
  have := congrArg String.length h
  rw [String.length_append] at this
  have l1 : "err:".length = 4 := by decide
  have l2 : "ok".length = 2 := by decide
  omega

theorem err_ne (e : String) (t : String) (ht : t.length < 4) : "err:" ++ e ≠ t := by
  intro h
  have := congrArg String.length h
  rw [String.length_append] at this
  have l1 : "err:".length = 4 := by decide
  omega

/-! ### status -/

/-- **C21**: the status of an existing client, exactly -/
theorem status_spec (s : Store) (cs : ClientState) (hc : s.client = some cs) (now : Int) :
    s.status now =
      if hk cs.frozen ≠ 0 then Status.frozen
      else match s.getCons cs.latest with
        | none => Status.expired
        | some c => if c.ts + cs.trustingPeriod ≤ now then Status.expired else Status.active := by
  unfold Store.status
  rw [hc]
  simp only
  have hz := isZero_iff_hk cs.frozen
  by_cases z : cs.frozen.isZero = true
  · have : hk cs.frozen = 0 := hz.mp z
    simp only [z, Bool.not_true, Bool.false_eq_true, ↓reduceIte, this, ne_eq, not_true_eq_false]
    cases s.getCons cs.latest with
    | none => rfl
    | some c =>
      simp only [isExpired]
      by_cases e : c.ts + cs.trustingPeriod ≤ now
      · have : ¬ (c.ts + cs.trustingPeriod > now) := by omega
        simp [e, this]
      · have : c.ts + cs.trustingPeriod > now := by omega
        simp [e, this]
  · have : hk cs.frozen ≠ 0 := fun c => z (hz.mpr c)
    simp [z, this]

theorem status_unknown_iff (s : Store) (now : Int) : s.status now = .unknown ↔ s.client = none := by
  unfold Store.status
  cases hc : s.client with
  | none => simp
  | some cs =>
    simp only [reduceCtorEq, iff_false]
    by_cases z : cs.frozen.isZero = true
    · simp only [z, Bool.not_true, Bool.false_eq_true, ↓reduceIte]
      cases s.getCons cs.latest with
      | none => simp
      | some c => by_cases e : isExpired cs.trustingPeriod c.ts now = true <;> simp [e]
    · simp [z]

theorem status_active_iff (s : Store) (now : Int) :
    s.status now = .active ↔ ∃ cs c, s.client = some cs ∧ hk cs.frozen = 0 ∧ s.getCons cs.latest = some c ∧
      now < c.ts + cs.trustingPeriod := by
  cases hc : s.client with
  | none =>
    have := (status_unknown_iff s now).mpr hc
    rw [this]; simp
  | some cs =>
    rw [status_spec s cs hc now]
    by_cases z : hk cs.frozen = 0
    · cases hg : s.getCons cs.latest with
      | none =>
        simp only [z, ne_eq, not_true_eq_false, ↓reduceIte, reduceCtorEq, false_iff, not_exists, not_and]
        intro cs' c e; cases e; intro _ e2; rw [hg] at e2; cases e2
      | some c =>
        by_cases e : c.ts + cs.trustingPeriod ≤ now
        · simp only [z, ne_eq, not_true_eq_false, ↓reduceIte, e, reduceCtorEq, false_iff, not_exists, not_and]
          intro cs' c' e1; cases e1; intro _ e2; rw [hg] at e2; cases e2; omega
        · simp only [z, ne_eq, not_true_eq_false, ↓reduceIte, e, true_iff]
          exact ⟨cs, c, rfl, z, hg, by omega⟩
    · simp only [ne_eq, z, not_false_eq_true, ↓reduceIte, reduceCtorEq, false_iff, not_exists, not_and]
      intro cs' c e1; cases e1; intro h; exact absurd h z

/-! ### recovery -/

theorem isMatching_iff (a b : ClientState) : isMatchingClientState a b = true ↔
    (a.tlNum = b.tlNum ∧ a.tlDen = b.tlDen ∧ a.unbondingPeriod = b.unbondingPeriod ∧ a.maxClockDrift = b.maxClockDrift ∧
     a.proofSpecs = b.proofSpecs ∧ a.upgradePath = b.upgradePath) := by
  unfold isMatchingClientState
  cases a; cases b
  simp only [decide_eq_true_eq, ClientState.mk.injEq, and_true, true_and]

/-- outcome of `RecoverClient`: rejected (subject store untouched, result is not "ok"), or success -/
theorem recoverStore_result (sj sb : Store) (hb : MetaInv sb) (now : Int) :
    ((recoverStore sj sb now).1 = sj ∧ (recoverStore sj sb now).2 ≠ "ok" ∧
      ¬ (∃ cs scs, sj.client = some cs ∧ sb.client = some scs ∧ sj.status now ≠ .active ∧ sb.status now = .active ∧
          hk cs.latest < hk scs.latest ∧ isMatchingClientState cs scs = true)) ∨
    ∃ cs scs c ph pt, sj.client = some cs ∧ sb.client = some scs ∧ sj.status now ≠ .active ∧ sb.status now = .active ∧
      hk cs.latest < hk scs.latest ∧ isMatchingClientState cs scs = true ∧
      sb.getCons scs.latest = some c ∧ sb.pheight.get scs.latest = some ph ∧ sb.ptime.get scs.latest = some pt ∧
      recoverStore sj sb now = (recoveredStore cs scs sj c ph pt now, "ok") := by
  by_cases h1 : sj.status now = .active
  · left
    refine ⟨by unfold recoverStore; simp [h1], by unfold recoverStore; simp [h1], ?_⟩
    rintro ⟨_, _, _, _, h, _⟩; exact h h1
  · by_cases h2 : sb.status now = .active
    · by_cases h3 : sj.latestHeight.gte sb.latestHeight = true
      · left
        refine ⟨by unfold recoverStore; simp [h1, h2, h3], by unfold recoverStore; simp [h1, h2, h3], ?_⟩
        rintro ⟨cs, scs, hc, hsc, _, _, hlt, _⟩
        have := (gte_iff_hk _ _).mp h3
        rw [latestHeight_of_client hc, latestHeight_of_client hsc] at this
        omega
      · cases hc : sj.client with
        | none =>
          left
          refine ⟨by unfold recoverStore; simp [h1, h2, h3, hc], by unfold recoverStore; simp [h1, h2, h3, hc], ?_⟩
          rintro ⟨cs, _, hc', _⟩; cases hc'
        | some cs =>
          cases hsc : sb.client with
          | none =>
            left
            refine ⟨by unfold recoverStore; simp [h1, h2, h3, hc, hsc], by unfold recoverStore; simp [h1, h2, h3, hc, hsc], ?_⟩
            rintro ⟨_, scs, _, hsc', _⟩; cases hsc'
          | some scs =>
            have hlt : hk cs.latest < hk scs.latest := by
              have : ¬ hk sb.latestHeight ≤ hk sj.latestHeight := fun c => h3 ((gte_iff_hk _ _).mpr c)
              rw [latestHeight_of_client hc, latestHeight_of_client hsc] at this
              omega
            have key : recoverStore sj sb now = checkSubstituteAndUpdateState cs sj sb scs now := by
              unfold recoverStore
              simp [h1, h2, h3, hc, hsc]
            by_cases hm : isMatchingClientState cs scs = true
            · -- the substitute is Active, so it has a consensus state at its latest height, hence (MetaInv) metadata
              obtain ⟨scs', c, hsc', _, hg, _⟩ := (status_active_iff sb now).mp h2
              rw [hsc] at hsc'; cases hsc'
              have hhas : sb.has scs.latest := has_of_getCons hg
              cases hph : sb.pheight.get scs.latest with
              | none => have := (hb.pheight scs.latest).mpr hhas; rw [hph] at this; exact Bool.noConfusion this
              | some ph =>
                cases hpt : sb.ptime.get scs.latest with
                | none => have := (hb.ptime scs.latest).mpr hhas; rw [hpt] at this; exact Bool.noConfusion this
                | some pt =>
                  right
                  refine ⟨cs, scs, c, ph, pt, rfl, rfl, h1, h2, hlt, hm, hg, hph, hpt, ?_⟩
                  rw [key]
                  unfold checkSubstituteAndUpdateState
                  simp only [hm, Bool.not_true, Bool.false_eq_true, ↓reduceIte, hg, hph, hpt]
                  by_cases hf : sj.status now = Status.frozen <;> simp [hf, recoveredStore, recoveredClient] <;> rfl
            · left
              refine ⟨by rw [key]; unfold checkSubstituteAndUpdateState; simp [hm],
                by rw [key]; unfold checkSubstituteAndUpdateState; simp [hm], ?_⟩
              rintro ⟨cs', scs', hc', hsc', _, _, _, hm'⟩
              cases hc'; cases hsc'; exact hm hm'
    · left
      refine ⟨by unfold recoverStore; simp [h1, h2], by unfold recoverStore; simp [h1, h2], ?_⟩
      rintro ⟨_, _, _, _, _, h, _⟩; exact h2 h

/-! ### upgrade -/

theorem validateMatch_ok (s s' : Store) (x : Option String) :
    ((match x with
      | some e => (s, "err:" ++ e)
      | none => (s', "ok")) : Store × String).2 = "ok" ↔ x = none := by
  cases x with
  | none => simp
  | some e =>
    simp only [reduceCtorEq, iff_false]
    exact err_ne_ok _

/-- outcome of `UpgradeClient`: rejected (store untouched, result not "ok"), or success -/
theorem upgradeStore_result (s : Store) (now : Int) (self : Height) (u : UpgradeReq) :
    ((upgradeStore s now self u).1 = s ∧ (upgradeStore s now self u).2 ≠ "ok" ∧
      ¬ (∃ cs, s.client = some cs ∧ s.status now = .active ∧ u.clientBzOK = true ∧ u.consBzOK = true ∧
          hk cs.latest < hk u.newClient.latest ∧ cs.upgradePath.isEmpty = false ∧
          u.proofClientParse = true ∧ u.proofConsParse = true ∧ u.proofClientOK = true ∧ u.proofConsOK = true ∧
          (upgradedClient cs u).validate = none)) ∨
    ∃ cs, s.client = some cs ∧ s.status now = .active ∧ u.clientBzOK = true ∧ u.consBzOK = true ∧
      hk cs.latest < hk u.newClient.latest ∧ cs.upgradePath.isEmpty = false ∧
      u.proofClientParse = true ∧ u.proofConsParse = true ∧ u.proofClientOK = true ∧ u.proofConsOK = true ∧
      (upgradedClient cs u).validate = none ∧
      upgradeStore s now self u = (upgradedStore cs s u now self, "ok") := by
  by_cases hst : s.status now = .active
  · by_cases h1 : u.clientBzOK = true
    · by_cases h2 : u.consBzOK = true
      · cases hc : s.client with
        | none =>
          left
          refine ⟨by unfold upgradeStore; simp [hst, h1, h2, hc], by unfold upgradeStore; simp [hst, h1, h2, hc], ?_⟩
          rintro ⟨cs, hc', _⟩; cases hc'
        | some cs =>
          by_cases hg : u.newClient.latest.gt cs.latest = true
          · have key : upgradeStore s now self u = verifyUpgradeAndUpdateState cs s u now self := by
              unfold upgradeStore
              simp [hst, h1, h2, hc, hg]
            have hlt := (gt_iff_hk _ _).mp hg
            -- the client is Active, so a consensus state exists at its latest height
            obtain ⟨cs', c0, hc', _, hg0, _⟩ := (status_active_iff s now).mp hst
            rw [hc] at hc'; cases hc'
            by_cases a1 : cs.upgradePath.isEmpty = true
            · left
              refine ⟨by rw [key]; unfold verifyUpgradeAndUpdateState; simp [a1],
                      by rw [key]; unfold verifyUpgradeAndUpdateState; simp [a1], ?_⟩
              rintro ⟨cs', hc', _, _, _, _, h, _⟩; cases hc'; rw [a1] at h; cases h
            · by_cases a2 : u.proofClientParse = true
              · by_cases a3 : u.proofConsParse = true
                · by_cases a5 : u.proofClientOK = true
                  · by_cases a6 : u.proofConsOK = true
                    · have key2 : verifyUpgradeAndUpdateState cs s u now self =
                          (match (upgradedClient cs u).validate with
                            | some e => (s, "err:" ++ e)
                            | none => (upgradedStore cs s u now self, "ok")) := by
                        unfold verifyUpgradeAndUpdateState
                        simp only [a1, Bool.false_eq_true, ↓reduceIte, a2, Bool.not_true, a3, hg0, a5, a6]
                        rfl
                      cases hv : (upgradedClient cs u).validate with
                      | none =>
                        right
                        refine ⟨cs, rfl, hst, h1, h2, hlt, by simpa using a1, a2, a3, a5, a6, hv, ?_⟩
                        rw [key, key2, hv]
                      | some e =>
                        left
                        have ok_iff := validateMatch_ok s (upgradedStore cs s u now self) (upgradedClient cs u).validate
                        refine ⟨?_, ?_, ?_⟩
                        · rw [key, key2, hv]
                        · rw [key, key2]; intro h; have := ok_iff.mp h; rw [hv] at this; cases this
                        · rintro ⟨cs', hc', _, _, _, _, _, _, _, _, _, h⟩; cases hc'; rw [hv] at h; cases h
                    · left
                      refine ⟨by rw [key]; unfold verifyUpgradeAndUpdateState; simp [a1, a2, a3, hg0, a5, a6],
                              by rw [key]; unfold verifyUpgradeAndUpdateState; simp [a1, a2, a3, hg0, a5, a6], ?_⟩
                      rintro ⟨cs', hc', _, _, _, _, _, _, _, _, h, _⟩; exact a6 h
                  · left
                    refine ⟨by rw [key]; unfold verifyUpgradeAndUpdateState; simp [a1, a2, a3, hg0, a5],
                            by rw [key]; unfold verifyUpgradeAndUpdateState; simp [a1, a2, a3, hg0, a5], ?_⟩
                    rintro ⟨cs', hc', _, _, _, _, _, _, _, h, _⟩; exact a5 h
                · left
                  refine ⟨by rw [key]; unfold verifyUpgradeAndUpdateState; simp [a1, a2, a3],
                          by rw [key]; unfold verifyUpgradeAndUpdateState; simp [a1, a2, a3], ?_⟩
                  rintro ⟨cs', hc', _, _, _, _, _, _, h, _⟩; exact a3 h
              · left
                refine ⟨by rw [key]; unfold verifyUpgradeAndUpdateState; simp [a1, a2],
                        by rw [key]; unfold verifyUpgradeAndUpdateState; simp [a1, a2], ?_⟩
                rintro ⟨cs', hc', _, _, _, _, _, h, _⟩; exact a2 h
          · left
            refine ⟨by unfold upgradeStore; simp [hst, h1, h2, hc, hg], by unfold upgradeStore; simp [hst, h1, h2, hc, hg], ?_⟩
            rintro ⟨cs', hc', _, _, _, hlt, _⟩; cases hc'
            exact hg ((gt_iff_hk _ _).mpr hlt)
      · left
        refine ⟨by unfold upgradeStore; simp [hst, h1, h2], by unfold upgradeStore; simp [hst, h1, h2], ?_⟩
        rintro ⟨_, _, _, _, h, _⟩; exact h2 h
    · left
      refine ⟨by unfold upgradeStore; simp [hst, h1], by unfold upgradeStore; simp [hst, h1], ?_⟩
      rintro ⟨_, _, _, h, _⟩; exact h1 h
  · left
    refine ⟨by unfold upgradeStore; simp [hst], by unfold upgradeStore; simp [hst], ?_⟩
    rintro ⟨_, _, h, _⟩; exact hst h

/-! ### latest height -/

theorem pruneAllStore_client (s : Store) (hs : StoreInv s) (now : Int) : (pruneAllStore s now).1.client = s.client := by
  unfold pruneAllStore
  cases hc : s.client with
  | none => simp [hc]
  | some cs => exact (pruneAll_spec s hs.metaInv cs.trustingPeriod now).2.1.trans hc

/-- no operation decreases a client's latest height -/
theorem step_latest (w : World) (hw : WInv w) (op : Op) (cid : Nat) :
    hk (w.client cid).latestHeight ≤ hk ((step w op).1.client cid).latestHeight := by
  cases op with
  | pruneAll c =>
    show hk (w.client cid).latestHeight ≤ hk ((w.put c (pruneAllStore (w.client c) w.now).1).client cid).latestHeight
    rw [client_put]
    by_cases eq : c = cid
    · subst eq
      simp only [↓reduceIte]
      unfold Store.latestHeight
      rw [pruneAllStore_client _ (hw.stores c)]
      exact Nat.le_refl _
    · simp only [eq, ↓reduceIte]; exact Nat.le_refl _
  | create cs c =>
    rcases step_client w hw (.create cs c) trivial cid with st | e
    · exact st.latest
    · rw [e]; exact Nat.zero_le _
  | update c hdr valid =>
    rcases step_client w hw (.update c hdr valid) trivial cid with st | e
    · exact st.latest
    · rw [e]; exact Nat.zero_le _
  | misbehaviour c m v1 v2 =>
    rcases step_client w hw (.misbehaviour c m v1 v2) trivial cid with st | e
    · exact st.latest
    · rw [e]; exact Nat.zero_le _
  | advance dt dh => exact Nat.le_refl _
  | upgrade c u =>
    rcases step_client w hw (.upgrade c u) trivial cid with st | e
    · exact st.latest
    · rw [e]; exact Nat.zero_le _
  | recover a b =>
    rcases step_client w hw (.recover a b) trivial cid with st | e
    · exact st.latest
    · rw [e]; exact Nat.zero_le _
  | verifyMembership c r => exact Nat.le_refl _
  | verifyNonMembership c r => exact Nat.le_refl _

theorem run_latest (cid : Nat) : ∀ (ops : List Op) (w : World), WInv w →
    hk (w.client cid).latestHeight ≤ hk ((run w ops).client cid).latestHeight
  | [], _, _ => Nat.le_refl _
  | op :: ops, w, hw =>
    Nat.le_trans (step_latest w hw op cid) (run_latest cid ops (step w op).1 (step_winv w hw op))

theorem put_same_client (w : World) (cid : Nat) (cid' : Nat) : (w.put cid (w.client cid)).client cid' = w.client cid' := by
  rw [client_put]
  by_cases e : cid = cid'
  · simp [e]
  · simp [e]

/-! ### acceptance of headers and misbehaviour (C24) -/

theorem err_ne_of_head (e t : String) (h : t.toList.head? ≠ some 'e') : "err:" ++ e ≠ t := by
  intro hh
  apply h
  rw [← hh, String.toList_append]
  rfl

/-- `UpdateClient` accepts a header (stores it, treats it as a duplicate, or freezes on it) iff the client
    is Active and `verifyHeader` passes; otherwise nothing is written -/
theorem updateStore_accept_iff (s : Store) (hs : StoreInv s) (now : Int) (self : Height) (hdr : Header) (valid : Bool) :
    (((updateStore s now self hdr valid).2 = "updated" ∨ (updateStore s now self hdr valid).2 = "frozen") ↔
      (s.status now = .active ∧ verifyHeader s hdr valid = none)) ∧
    (¬ (s.status now = .active ∧ verifyHeader s hdr valid = none) → (updateStore s now self hdr valid).1 = s) := by
  by_cases hst : s.status now = .active
  · cases hc : s.client with
    | none => have := (status_unknown_iff s now).mpr hc; rw [this] at hst; cases hst
    | some cs =>
      cases hv : verifyHeader s hdr valid with
      | some e =>
        have key : updateStore s now self hdr valid = (s, "err:" ++ e) := by unfold updateStore; simp [hst, hc, hv]
        rw [key]
        refine ⟨⟨?_, fun h => by cases h.2⟩, fun _ => rfl⟩
        rintro (h | h)
        · exact absurd h (err_ne_of_head e _ (by decide))
        · exact absurd h (err_ne_of_head e _ (by decide))
      | none =>
        refine ⟨⟨fun _ => ⟨hst, rfl⟩, fun _ => ?_⟩, fun h => absurd ⟨hst, rfl⟩ h⟩
        rcases updateStore_cases s hs now self hdr valid with ⟨_, h | h⟩ | ⟨_, _, _, _, ⟨_, e⟩ | ⟨_, s1, _, ⟨_, e⟩ | ⟨_, e⟩⟩⟩
        · exact absurd hst h
        · exact absurd hv h
        · right; rw [e]
        · left; rw [e]
        · left; rw [e]
  · have key : updateStore s now self hdr valid = (s, "err:client-not-active") := by unfold updateStore; simp [hst]
    rw [key]
    refine ⟨⟨?_, fun h => absurd h.1 hst⟩, fun _ => rfl⟩
    rintro (h | h)
    · exact absurd h (show ("err:client-not-active" : String) ≠ "updated" by decide)
    · exact absurd h (show ("err:client-not-active" : String) ≠ "frozen" by decide)

/-- `checkMisbehaviourHeader` passes iff … -/
theorem checkMisbehaviourHeader_none_iff (cs : ClientState) (c : ConsState) (hdr : Header) (now : Int) (valid : Bool) :
    checkMisbehaviourHeader cs c hdr now valid = none ↔
      (hdr.tvals = some c.nvh ∧ hdr.commitOK = true ∧ now - c.ts < cs.trustingPeriod ∧ valid = true) := by
  unfold checkMisbehaviourHeader checkTrustedHeader
  cases ht : hdr.tvals with
  | none => simp
  | some tv =>
    by_cases e0 : hdr.commitOK = true
    · by_cases e1 : tv = c.nvh
      · by_cases e2 : now - c.ts ≥ cs.trustingPeriod
        · simp [e0, e1, e2]; omega
        · cases valid <;> simp [e0, e1, e2] <;> omega
      · simp [e0, e1]
    · simp [e0]

theorem verifyMisbehaviour_none_iff (cs : ClientState) (s : Store) (m : Misbehaviour) (now : Int) (v1 v2 : Bool) :
    verifyMisbehaviour cs s m now v1 v2 = none ↔
      ∃ c1 c2, s.getCons m.h1.trusted = some c1 ∧ s.getCons m.h2.trusted = some c2 ∧
        checkMisbehaviourHeader cs c1 m.h1 now v1 = none ∧ checkMisbehaviourHeader cs c2 m.h2 now v2 = none := by
  unfold verifyMisbehaviour
  cases h1 : s.getCons m.h1.trusted with
  | none => simp
  | some c1 =>
    cases h2 : s.getCons m.h2.trusted with
    | none => simp
    | some c2 =>
      cases h3 : checkMisbehaviourHeader cs c1 m.h1 now v1 with
      | some e => simp [h3]
      | none => simp [h3]

/-- a misbehaviour submission freezes the client iff … ; in every other case nothing is written -/
theorem misbehaviourStore_frozen_iff (s : Store) (now : Int) (m : Misbehaviour) (v1 v2 : Bool) :
    ((misbehaviourStore s now m v1 v2).2 = "frozen" ↔
      (m.validateBasic = true ∧ s.status now = .active ∧
        ∃ cs, s.client = some cs ∧ verifyMisbehaviour cs s m now v1 v2 = none ∧ checkMisbehaviourMsg m = true)) ∧
    ((misbehaviourStore s now m v1 v2).2 ≠ "frozen" → (misbehaviourStore s now m v1 v2).1 = s) := by
  by_cases hb : m.validateBasic = true
  · by_cases hst : s.status now = .active
    · cases hc : s.client with
      | none => have := (status_unknown_iff s now).mpr hc; rw [this] at hst; cases hst
      | some cs =>
        cases hv : verifyMisbehaviour cs s m now v1 v2 with
        | some e =>
          have key : misbehaviourStore s now m v1 v2 = (s, "err:" ++ e) := by unfold misbehaviourStore; simp [hb, hst, hc, hv]
          rw [key]
          refine ⟨⟨fun h => absurd h (err_ne_of_head e _ (by decide)), ?_⟩, fun _ => rfl⟩
          rintro ⟨_, _, cs', hc', hv', _⟩; cases hc'; rw [hv] at hv'; cases hv'
        | none =>
          by_cases hm : checkMisbehaviourMsg m = true
          · have key : misbehaviourStore s now m v1 v2 = (freeze cs s, "frozen") := by
              unfold misbehaviourStore; simp [hb, hst, hc, hv, hm]
            rw [key]
            exact ⟨⟨fun _ => ⟨hb, hst, cs, rfl, hv, hm⟩, fun _ => rfl⟩, fun h => absurd rfl h⟩
          · have key : misbehaviourStore s now m v1 v2 = (s, "updated") := by
              unfold misbehaviourStore; simp [hb, hst, hc, hv, hm]
            rw [key]
            refine ⟨⟨fun h => absurd h (show ("updated" : String) ≠ "frozen" by decide), ?_⟩, fun _ => rfl⟩
            rintro ⟨_, _, _, _, _, h⟩; exact absurd h hm
    · have key : misbehaviourStore s now m v1 v2 = (s, "err:client-not-active") := by unfold misbehaviourStore; simp [hb, hst]
      rw [key]
      exact ⟨⟨fun h => absurd h (show ("err:client-not-active" : String) ≠ "frozen" by decide), fun h => absurd h.2.1 hst⟩, fun _ => rfl⟩
  · have key : misbehaviourStore s now m v1 v2 = (s, "err:basic") := by unfold misbehaviourStore; simp [hb]
    rw [key]
    exact ⟨⟨fun h => absurd h (show ("err:basic" : String) ≠ "frozen" by decide), fun h => absurd h.1 hb⟩, fun _ => rfl⟩

/-! ### trusting-period scaling -/

theorem roundHalfEven_cases (a b : Nat) : roundHalfEven a b = a / b ∨ roundHalfEven a b = a / b + 1 := by
  unfold roundHalfEven
  simp only
  split
  · left; rfl
  · split
    · right; rfl
    · split
      · left; rfl
      · right; rfl

/-- for unbonding periods below 10^18 ns (≈ 31.7 years) the 18-decimal rounding of `LegacyDec.Quo` never
    reaches the next integer: the scaled trusting period is exactly the floor of `tp · newUb / oldUb` -/
theorem calcTP_floor (tp ou nu : Nat) (h0 : 0 < ou) (h1 : ou < 10 ^ 18) :
    calculateNewTrustingPeriod tp ou nu = tp * nu / ou := by
  unfold calculateNewTrustingPeriod
  have hne : ou ≠ 0 := by omega
  simp only [hne, ↓reduceIte]
  generalize hN : tp * nu = N
  generalize hE : (10:Nat) ^ 18 = E at *
  have hEpos : 0 < E := by omega
  have hdm := Nat.div_add_mod N ou
  have hr := Nat.mod_lt N h0
  generalize N / ou = q at *
  generalize N % ou = r at *
  have hA : N * E = ou * (q * E) + r * E := by
    rw [← hdm, Nat.add_mul, Nat.mul_assoc]
  have hq' : N * E / ou = q * E + r * E / ou := by
    rw [hA, Nat.mul_add_div h0]
  have hf : r * E / ou + 1 < E := by
    have h1' : r * E / ou * ou ≤ r * E := Nat.div_mul_le_self _ _
    have h2 : r * E ≤ (ou - 1) * E := Nat.mul_le_mul_right E (by omega)
    have h3 : (ou - 1) * E = ou * E - E := by rw [Nat.sub_mul, Nat.one_mul]
    have h4 : ou * E - E < ou * (E - 1) := by
      rw [Nat.mul_sub, Nat.mul_one]
      have : ou ≤ ou * E := Nat.le_mul_of_pos_right ou hEpos
      have : E ≤ ou * E := Nat.le_mul_of_pos_left E h0
      omega
    have h5 : r * E / ou * ou < ou * (E - 1) := by omega
    have h6 : r * E / ou < E - 1 := by
      rw [Nat.mul_comm ou (E - 1)] at h5
      exact Nat.lt_of_mul_lt_mul_right h5
    omega
  rcases roundHalfEven_cases (N * E) ou with e | e
  · rw [e, hq']
    rw [Nat.add_comm, Nat.add_mul_div_right _ _ hEpos]
    have : r * E / ou / E = 0 := Nat.div_eq_of_lt (by omega)
    omega
  · rw [e, hq']
    have : (q * E + r * E / ou + 1) = (r * E / ou + 1) + q * E := by omega
    rw [this, Nat.add_mul_div_right _ _ hEpos]
    have : (r * E / ou + 1) / E = 0 := Nat.div_eq_of_lt hf
    omega

end IbcVerif.Tm
