/-
  More step-level facts used by the property theorems C02 / C08 / C11 / C14.
-/
import IbcVerif.Lemmas.ChainOk
import IbcVerif.Lemmas.ChainInv2
namespace IbcVerif.Chain
open FMap

theorem run_append (s : ChainState) (a b : List Op) : run s (a ++ b) = run (run s a) b := by
  induction a generalizing s with
  | nil => rfl
  | cons op a ih => simp only [List.cons_append, run]; exact ih _

/-- `Tr` along a whole history preserves every fact that single steps preserve -/
theorem run_preserves {P : ChainState → Prop} (hP : ∀ s s', Tr s s' → P s → P s') (s : ChainState) (ops : List Op)
    (h : P s) : P (run s ops) := by
  induction ops generalizing s with
  | nil => exact h
  | cons op ops ih =>
    unfold run
    exact ih _ (hP _ _ (step_tr (out := (step s op).2) rfl) h)

/-- successful acknowledgement / timeout messages: the keeper call succeeded and the result is its
    state plus the callback log entry and the application's writes -/
theorem afterTao_ok_shape {s s' : ChainState} {env : Env} {x : Except String ChainState} {ev : Event} {app : AppV1}
    {r : String} (h : afterTao s env x ev app = (s', .ok r)) :
    ∃ s1, x = .ok s1 ∧ s' = (s1.logAdd ev).appWrite "" env.tag app.w := by
  unfold afterTao at h
  oksplit h
  exact ⟨_, rfl, rfl⟩

theorem timeoutV1_ok_shape {s s' : ChainState} {env : Env} {p : PacketV1} {nsr a b : Nat} {app : AppV1} {r : String}
    (h : step s ⟨env, .timeoutV1 p nsr a b app⟩ = (s', .ok r)) :
    ∃ s1, timeoutPacketV1 s env p nsr a b = .ok s1 ∧ s' = (s1.logAdd (.timeout1 p.sp p.sc p.seq)).appWrite "" env.tag app.w := by
  have hv := step_vb h rfl
  unfold step at h
  simp only [hv] at h
  simp only [Bool.false_eq_true, if_false] at h
  unfold msgTimeout at h
  split at h
  · cases h
  · exact afterTao_ok_shape h

theorem timeoutOnCloseV1_ok_shape {s s' : ChainState} {env : Env} {p : PacketV1} {nsr : Nat} {app : AppV1} {r : String}
    (h : step s ⟨env, .timeoutOnCloseV1 p nsr app⟩ = (s', .ok r)) :
    ∃ s1, timeoutOnCloseV1 s env p nsr = .ok s1 ∧ s' = (s1.logAdd (.timeout1 p.sp p.sc p.seq)).appWrite "" env.tag app.w := by
  have hv := step_vb h rfl
  unfold step at h
  simp only [hv] at h
  simp only [Bool.false_eq_true, if_false] at h
  unfold msgTimeoutOnClose at h
  split at h
  · cases h
  · exact afterTao_ok_shape h

theorem sendV1_ok_shape {s s' : ChainState} {env : Env} {port chan : Id} {thRev thH tt : Nat} {data : Hex} {r : String}
    (h : step s ⟨env, .sendV1 port chan thRev thH tt data⟩ = (s', .ok r)) :
    ∃ seq s1, sendPacketV1 s env port chan thRev thH tt data = .ok (s1, seq) ∧ r = toString seq ∧
      s' = s1.logAdd (.send1 port chan seq) := by
  unfold step at h
  simp only [Body.isMsg, Bool.false_and, Bool.false_eq_true, if_false] at h
  oksplit h
  have hr := ‹Out.ok _ = Out.ok r›
  cases hr
  exact ⟨_, _, ‹_›, rfl, rfl⟩

theorem writeAckV1_step_ok {s s' : ChainState} {env : Env} {p : PacketV1} {w : Option (Bool × Hex)} {r : String}
    (h : step s ⟨env, .writeAckV1 p w⟩ = (s', .ok r)) : writeAckV1 s p (w.map (·.2)) = .ok s' := by
  unfold step at h
  simp only [Body.isMsg, Bool.false_and, Bool.false_eq_true, if_false] at h
  unfold done at h
  oksplit h
  assumption

theorem writeAckV2_step_ok {s s' : ChainState} {env : Env} {dst : Id} {seq : Nat} {acks : List Hex} {r : String}
    (h : step s ⟨env, .writeAckV2 dst seq acks⟩ = (s', .ok r)) : asyncWriteAckV2 s dst seq acks = .ok s' := by
  unfold step at h
  simp only [Body.isMsg, Bool.false_and, Bool.false_eq_true, if_false] at h
  unfold done at h
  oksplit h
  assumption

theorem sendV2_ok_shape {s s' : ChainState} {env : Env} {src : Id} {tt : Nat} {payloads : List Payload} {apps : List AppV2}
    {r : String} (h : step s ⟨env, .sendV2 src tt payloads apps⟩ = (s', .ok r)) :
    ∃ seq s1 app, sendPacketV2 s env src tt payloads = .ok (s1, seq) ∧ r = toString seq ∧
      s' = ({ s1 with app := app }).logAdd (.send2 src seq payloads.length) := by
  have hv := step_vb h rfl
  unfold step at h
  simp only [hv] at h
  simp only [Bool.false_eq_true, if_false] at h
  unfold msgSendPacketV2 at h
  oksplit h
  have hr := ‹Out.ok _ = Out.ok r›
  cases hr
  exact ⟨_, _, _, ‹_›, rfl, rfl⟩

theorem timeoutExecuted_closes (s : ChainState) (ch : Channel) (p : PacketV1) (ho : ch.ordering = .ordered) :
    ∃ ch', (timeoutExecuted s ch p).chan.get (p.sp, p.sc) = some ch' ∧ ch'.state = .closed := by
  rw [timeoutExecuted_eq, if_pos ho]
  exact ⟨{ ch with state := .closed }, by simp, rfl⟩

theorem not_ok_unchanged {s : ChainState} {op : Op} (h : ∀ r, (step s op).2 ≠ .ok r) :
    (step s op).2.isOk = false ∧ (step s op).1 = s := by
  have hno : (step s op).2.isOk = false := by
    cases hout : (step s op).2 with
    | ok r => exact absurd hout (h r)
    | noop => rfl
    | err c => rfl
    | panic => rfl
  exact ⟨hno, step_unchanged rfl hno⟩

end IbcVerif.Chain
