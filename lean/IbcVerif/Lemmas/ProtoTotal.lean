import IbcVerif.Lemmas.ProtoUnmarshal
namespace IbcVerif.Proto
open IbcVerif

/-- a sequence of raw length-delimited fields (numbers arbitrary, empty payloads written) -/
def encRaws (fs : List (Nat × Bytes)) : Bytes := fs.flatMap (fun f => encRawField f.1 f.2)

theorem rejectLoop_unknown (k : Nat) (hk31 : k < 2 ^ 31) : ∀ (fs : List (Nat × Bytes)) (fuel : Nat) (d pre rest : Bytes) (num wt : Nat),
    d = pre ++ (encRaws fs ++ (encVarint (num * 8 + wt) ++ rest)) →
    (∀ f ∈ fs, 1 ≤ f.1 ∧ f.1 ≤ k ∧ f.2.length < 2 ^ 64) →
    wt < 8 → num * 8 + wt < 2 ^ 64 → (num = 0 ∨ k < num) → fs.length + 1 ≤ fuel →
    ∃ e, rejectLoop k fuel d pre.length = .err e
  | [], fuel, d, pre, rest, num, wt, hd, _, hwt, htag, hnum, hf => by
    obtain ⟨f, rfl⟩ : ∃ f, fuel = f + 1 := ⟨fuel - 1, by simp at hf; omega⟩
    have hp := encVarint_length_pos (num * 8 + wt)
    have hd' : d = pre ++ (encVarint (num * 8 + wt) ++ rest) := by rw [hd]; simp [encRaws]
    have v1 := varint_enc true (num * 8 + wt) htag d pre rest pre.length hd' rfl
    have hl : pre.length < d.length := by rw [hd']; simp only [List.length_append]; omega
    rw [rejectLoop_succ, if_neg (by omega), v1]
    simp only [G.bind_ok]
    have t8 : (num * 8 + wt) / 8 = num := by omega
    rw [t8]
    split
    · exact ⟨_, rfl⟩
    · split
      · exact ⟨_, rfl⟩
      · rw [if_neg (by omega)]; exact ⟨_, rfl⟩
  | f0 :: fs, fuel, d, pre, rest, num, wt, hd, hfs, hwt, htag, hnum, hf => by
    obtain ⟨f, rfl⟩ : ∃ f, fuel = f + 1 := ⟨fuel - 1, by simp at hf; omega⟩
    have h0 := hfs f0 List.mem_cons_self
    have hd' : d = pre ++ (encVarint (tagOf f0.1) ++ (encVarint f0.2.length ++ f0.2) ++
        (encRaws fs ++ (encVarint (num * 8 + wt) ++ rest))) := by
      rw [hd]; simp [encRaws, encRawField]
    rw [rejectLoop_step k f d pre _ f0.2 f0.1 pre.length hd' rfl h0.1 h0.2.1 hk31 h0.2.2]
    have := rejectLoop_unknown k hk31 fs f d (pre ++ (encVarint (tagOf f0.1) ++ (encVarint f0.2.length ++ f0.2))) rest num wt
      (by rw [hd']; simp) (fun x hx => hfs x (List.mem_cons_of_mem _ hx)) hwt htag hnum (by simp at hf; omega)
    simpa using this

theorem encRaws_length_ge (fs : List (Nat × Bytes)) : fs.length ≤ (encRaws fs).length := by
  induction fs with
  | nil => simp [encRaws]
  | cons f fs ih =>
    have hp := encVarint_length_pos (tagOf f.1)
    simp only [encRaws, List.flatMap_cons, List.length_append, encRawField, List.length_cons] at ih ⊢
    omega

/-- a message that carries a field whose number is not one of `1..k` — anywhere after a sequence of
    well-formed known fields, whatever its wire type and whatever follows — is rejected -/
theorem decode_rejects_unknown (k : Nat) (hk31 : k < 2 ^ 31) (fs : List (Nat × Bytes)) (num wt : Nat) (rest : Bytes)
    (hfs : ∀ f ∈ fs, 1 ≤ f.1 ∧ f.1 ≤ k ∧ f.2.length < 2 ^ 64)
    (hwt : wt < 8) (htag : num * 8 + wt < 2 ^ 64) (hnum : num = 0 ∨ k < num) :
    ∃ e, decode k (encRaws fs ++ (encVarint (num * 8 + wt) ++ rest)) = .err e := by
  have hge := encRaws_length_ge fs
  obtain ⟨e, he⟩ := rejectLoop_unknown k hk31 fs ((encRaws fs ++ (encVarint (num * 8 + wt) ++ rest)).length + 1)
    (encRaws fs ++ (encVarint (num * 8 + wt) ++ rest)) [] rest num wt rfl hfs hwt htag hnum
    (by simp only [List.length_append]; omega)
  refine ⟨e, ?_⟩
  unfold decode rejectUnknown
  simp only [List.length_nil] at he
  rw [he]; rfl

/-! no panics -/

theorem varintAux_noPanic (strict : Bool) (fuel shift : Nat) (d : Bytes) (i acc : Nat) :
    G.NoPanic (varintAux strict fuel shift d i acc) := by
  induction fuel generalizing shift i acc with
  | zero => exact G.noPanic_err _
  | succ f ih =>
    rw [varintAux]
    split
    · exact G.noPanic_err _
    · split
      · exact G.noPanic_err _
      · rename_i h1 h2
        rw [index_ok d i (by omega)]
        simp only [G.bind_ok]
        split
        · exact G.noPanic_err _
        · split
          · exact G.noPanic_ok _
          · exact ih _ _ _

theorem varint_noPanic (strict : Bool) (d : Bytes) (i : Nat) : G.NoPanic (varint strict d i) :=
  varintAux_noPanic _ _ _ _ _ _

theorem rejectLoop_noPanic (k fuel : Nat) (d : Bytes) (i : Nat) : G.NoPanic (rejectLoop k fuel d i) := by
  induction fuel generalizing i with
  | zero => exact G.noPanic_err _
  | succ f ih =>
    rw [rejectLoop_succ]
    split
    · exact G.noPanic_ok _
    · apply G.noPanic_bind _ _ (varint_noPanic _ _ _)
      intro ⟨tag, i1⟩ _
      simp only
      split
      · exact G.noPanic_err _
      · split
        · exact G.noPanic_err _
        · split
          · split
            · exact G.noPanic_err _
            · apply G.noPanic_bind _ _ (varint_noPanic _ _ _)
              intro ⟨m, i2⟩ _
              simp only
              split
              · exact G.noPanic_err _
              · exact ih _
          · exact G.noPanic_err _

theorem skipVarint_noPanic (fuel shift : Nat) (d : Bytes) (i : Nat) : G.NoPanic (skipVarint fuel shift d i) := by
  induction fuel generalizing shift i with
  | zero => exact G.noPanic_err _
  | succ f ih =>
    rw [skipVarint]
    split
    · exact G.noPanic_err _
    · split
      · exact G.noPanic_err _
      · rename_i h1 h2
        rw [index_ok d i (by omega)]
        simp only [G.bind_ok]
        split
        · exact G.noPanic_ok _
        · exact ih _ _

theorem skipLenAux_noPanic (fuel shift : Nat) (d : Bytes) (i acc : Nat) : G.NoPanic (skipLenAux fuel shift d i acc) := by
  induction fuel generalizing shift i acc with
  | zero => exact G.noPanic_err _
  | succ f ih =>
    rw [skipLenAux]
    split
    · exact G.noPanic_err _
    · split
      · exact G.noPanic_err _
      · rename_i h1 h2
        rw [index_ok d i (by omega)]
        simp only [G.bind_ok]
        split
        · exact G.noPanic_ok _
        · exact ih _ _ _

theorem skipLoop_noPanic (fuel : Nat) (d : Bytes) (i depth : Nat) : G.NoPanic (skipLoop fuel d i depth) := by
  induction fuel generalizing i depth with
  | zero => exact G.noPanic_err _
  | succ f ih =>
    rw [skipLoop]
    split
    · exact G.noPanic_err _
    · apply G.noPanic_bind _ _ (varint_noPanic _ _ _)
      intro ⟨wire, i1⟩ _
      simp only
      apply G.noPanic_bind
      · split
        · apply G.noPanic_bind _ _ (skipVarint_noPanic _ _ _ _)
          intro j _; exact G.noPanic_ok _
        · split
          · exact G.noPanic_ok _
          · split
            · apply G.noPanic_bind _ _ (skipLenAux_noPanic _ _ _ _ _)
              intro ⟨len, i2⟩ _
              simp only
              split
              · exact G.noPanic_err _
              · exact G.noPanic_ok _
            · split
              · exact G.noPanic_ok _
              · split
                · split
                  · exact G.noPanic_err _
                  · exact G.noPanic_ok _
                · split
                  · exact G.noPanic_ok _
                  · exact G.noPanic_err _
      · intro ⟨j, depth'⟩ _
        simp only
        split
        · exact G.noPanic_err _
        · split
          · exact G.noPanic_ok _
          · exact ih _ _

theorem unmarshalLoop_noPanic (k fuel : Nat) (d : Bytes) (i : Nat) (vals : List Bytes) :
    G.NoPanic (unmarshalLoop k fuel d i vals) := by
  induction fuel generalizing i vals with
  | zero => exact G.noPanic_err _
  | succ f ih =>
    rw [unmarshalLoop_succ]
    split
    · split
      · exact G.noPanic_err _
      · exact G.noPanic_ok _
    · rename_i hi
      apply G.noPanic_bind _ _ (varint_noPanic _ _ _)
      intro ⟨wire, i1⟩ _
      simp only
      split
      · exact G.noPanic_err _
      · split
        · exact G.noPanic_err _
        · split
          · split
            · exact G.noPanic_err _
            · apply G.noPanic_bind _ _ (varint_noPanic _ _ _)
              intro ⟨slen, i2⟩ _
              simp only
              split
              · exact G.noPanic_err _
              · split
                · exact G.noPanic_err _
                · split
                  · exact G.noPanic_err _
                  · rename_i h1 h2 h3
                    have : G.slice d i2 (i2 + slen) = .ok ((d.take (i2 + slen)).drop i2) := by
                      simp [G.slice]; omega
                    rw [this]
                    exact ih _ _
          · have : G.sliceFrom d i = .ok (d.drop i) := by simp [G.sliceFrom]; omega
            rw [this]
            simp only [G.bind_ok]
            apply G.noPanic_bind _ _ (skipLoop_noPanic _ _ _ _)
            intro skippy _
            split
            · exact G.noPanic_err _
            · split
              · exact G.noPanic_err _
              · exact ih _ _

theorem decode_noPanic (k : Nat) (d : Bytes) : G.NoPanic (decode k d) := by
  unfold decode
  apply G.noPanic_bind _ _ (rejectLoop_noPanic _ _ _ _)
  intro _ _
  exact unmarshalLoop_noPanic _ _ _ _ _

theorem decodeCanonical_noPanic (k : Nat) (d : Bytes) : G.NoPanic (decodeCanonical k d) := by
  unfold decodeCanonical
  apply G.noPanic_bind _ _ (decode_noPanic _ _)
  intro vals _
  split
  · exact G.noPanic_ok _
  · exact G.noPanic_err _
end IbcVerif.Proto
