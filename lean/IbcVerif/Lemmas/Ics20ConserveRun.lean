/-
  Assembling the per-callback conservation lemmas into an invariant of all lifecycle-respecting
  histories.
-/
import IbcVerif.Lemmas.Ics20Conserve
namespace IbcVerif.Ics20
open IbcVerif IbcVerif.Xfer

theorem setChain_self_chains (w : World) (c : Nat) : (w.setChain c (w.chains c)).chains = w.chains := by
  funext c'
  simp only [World.setChain]
  split_ifs with h
  · rw [h]
  · rfl

theorem contains_cons_ne {α : Type} [BEq α] [LawfulBEq α] (l : List α) (a b : α) (h : b ≠ a) :
    (a :: l).contains b = l.contains b := by
  have : (b == a) = false := by simpa using h
  simp [List.contains_cons, this]

theorem pinv_step {cfg : Config} {w : World} (hp : PInv cfg w) (op : Op) (hpo : PartiesOK cfg op) :
    PInv cfg (step cfg w op).1 := by
  cases op with
  | transfer c signer viaTx m ce seq =>
    rcases step_transfer_cases cfg w c signer viaTx m ce seq with ⟨p, hpp⟩ | hsame
    · have hstep : step cfg w (.transfer c signer viaTx m ce seq) = ((step cfg w (.transfer c signer viaTx m ce seq)).1, .sent p) :=
        Prod.ext rfl hpp
      obtain ⟨_, ch', ht, hw'⟩ := step_transfer_sent hstep
      obtain ⟨_, _, _, _, _, _, _, _, hdata, _⟩ := transfer_ok ht
      rw [hw']
      intro q hq
      rcases List.mem_cons.mp hq with rfl | hq
      · rw [hdata]; exact hpo
      · exact hp q hq
    · rw [hsame]; exact hp
  | sendV2 c signer client data ce seq =>
    rcases step_sendV2_cases cfg w c signer client data ce seq with ⟨p, hpp⟩ | hsame
    · have hstep : step cfg w (.sendV2 c signer client data ce seq) = ((step cfg w (.sendV2 c signer client data ce seq)).1, .sent p) :=
        Prod.ext rfl hpp
      obtain ⟨ch', ht, hw'⟩ := step_sendV2_sent hstep
      obtain ⟨_, _, _, _, hdata, _⟩ := sendPacketV2_ok ht
      rw [hw']
      intro q hq
      rcases List.mem_cons.mp hq with rfl | hq
      · rw [hdata]; exact hpo
      · exact hp q hq
    · rw [hsame]; exact hp
  | recv p =>
    rcases step_recv_cases cfg w p with ⟨ch', o, _, hstep⟩ | hsame
    · rw [hstep]; exact hp
    · rw [hsame]; exact hp
  | ack p a =>
    rcases step_ack_cases cfg w p a with ⟨ch', _, hstep⟩ | ⟨hsame, _⟩
    · rw [hstep]; exact hp
    · rw [hsame]; exact hp
  | timeout p oc =>
    rcases step_timeout_cases cfg w p oc with ⟨ch', _, hstep⟩ | ⟨hsame, _⟩
    · rw [hstep]; exact hp
    · rw [hsame]; exact hp
  | setParams c s r => exact hp
  | bankSend c f t dn n =>
    simp only [step]
    split
    · exact hp
    · split
      · exact hp
      · exact hp

/-- everything the cross-chain theorems carry along a history -/
structure Inv (cfg : Config) (w : World) : Prop where
  winv : WInv cfg w
  linv : LInv w
  pinv : PInv cfg w
  conserve : Conserve cfg w

theorem conserve_step {cfg : Config} (ha : Assm cfg) {w : World} (hi : Inv cfg w) (op : Op)
    (hg : Guard w op) (hpo : PartiesOK cfg op) : Conserve cfg (step cfg w op).1 := by
  obtain ⟨hwi, hl, hpi, hc⟩ := hi
  cases op with
  | transfer c signer viaTx m ce seq =>
    rcases step_transfer_cases cfg w c signer viaTx m ce seq with ⟨p, hpp⟩ | hsame
    · have hstep : step cfg w (.transfer c signer viaTx m ce seq) = ((step cfg w (.transfer c signer viaTx m ce seq)).1, .sent p) :=
        Prod.ext rfl hpp
      obtain ⟨_, ch', ht, hw'⟩ := step_transfer_sent hstep
      obtain ⟨s, n, tok, hs, _, htok, hhf, _, hdata, hc', _, hsc, _, _, hseq, hst⟩ := transfer_ok ht
      have hgood : GoodDenom tok := tokenFromCoin_good (hwi.store c) hhf htok
      have hfresh : p ∉ w.sent := fun hm => hg p hm ⟨hc', hsc, hseq⟩
      have hsne : NotEscrow cfg s := hpo.1 s hs
      have hst' : sendTransfer cfg c (w.chains c) transferPort m.chan tok n s = .ok ch' := by
        rcases hst with ⟨_, hst⟩ | ⟨_, _, hst⟩
        · exact hst
        · rw [hgood.stable] at hst; exact hst
      exact conserve_send ha hl hc hst' hgood hsne hfresh hc' hsc (by rw [hdata]) (by rw [hdata]) hw'
    · rw [hsame]; exact hc
  | sendV2 c signer client data ce seq =>
    rcases step_sendV2_cases cfg w c signer client data ce seq with ⟨p, hpp⟩ | hsame
    · have hstep : step cfg w (.sendV2 c signer client data ce seq) = ((step cfg w (.sendV2 c signer client data ce seq)).1, .sent p) :=
        Prod.ext rfl hpp
      obtain ⟨ch', ht, hw'⟩ := step_sendV2_sent hstep
      obtain ⟨s, _, hs', _, hdata, hc', _, hsc, _, _, hseq, _, _, hst⟩ := sendPacketV2_ok ht
      have hfresh : p ∉ w.sent := fun hm => hg p hm ⟨hc', hsc, hseq⟩
      have hsne : NotEscrow cfg s := hpo.1 s hs'
      -- the new packet's denomination is good: read it off the invariant of the successor world
      have hwi' := winv_step ha.peerIds hwi (.sendV2 c signer client data ce seq) hg
      rw [hstep] at hwi'
      simp only at hwi'
      rw [hw'] at hwi'
      obtain ⟨hgood, hpath, _⟩ := hwi'.sent p List.mem_cons_self
      rw [hdata] at hgood hpath
      exact conserve_send ha hl hc hst hgood hsne hfresh hc' hsc (by rw [hdata]; exact hpath.symm) (by rw [hdata]) hw'
    · rw [hsame]; exact hc
  | recv p =>
    obtain ⟨hps, hnr, hnt⟩ := hg
    have hna : p ∉ w.acked := fun h => by
      obtain ⟨b, hb⟩ := hl.acked_recvd p h
      exact hnr b hb
    have hwas : pending w p = true := by
      simp [pending, pendingIn, World.setChain, hnr true, hnt, hna]
    rcases step_recv_cases cfg w p with ⟨ch', o, hr, hstep⟩ | hsame
    · rw [hstep]
      simp only
      rcases recvPacket_ok hr with ⟨ho, hon⟩ | ⟨ho, rfl⟩
      · subst ho
        refine conserve_recv_ok ha hwi hl hpi hc hps hon rfl rfl hwas ?_ ?_
        · simp [pending, pendingIn, World.setChain]
        · intro q _ hne
          have h1 : (q, true) ≠ (p, true) := fun e => hne (Prod.mk.inj e).1
          have h2 : (q, false) ≠ (p, true) := fun e => by cases (Prod.mk.inj e).2
          simp only [pending, pendingIn, World.setChain, decide_true, contains_cons_ne _ _ _ h1, contains_cons_ne _ _ _ h2]
      · refine conserve_same hc (setChain_self_chains w p.dstChain) rfl ?_
        intro q _
        have hdec : decide (o = RecvOutcome.success) = false := by simpa using ho
        by_cases hqp : q = p
        · subst hqp
          rw [hwas]
          simp [pending, pendingIn, World.setChain, hdec, hnr true, hnt, hna]
        · have h1 : (q, true) ≠ (p, false) := fun e => by cases (Prod.mk.inj e).2
          have h2 : (q, false) ≠ (p, false) := fun e => hqp (Prod.mk.inj e).1
          simp only [pending, pendingIn, World.setChain, hdec, contains_cons_ne _ _ _ h1, contains_cons_ne _ _ _ h2]
    · rw [hsame]; exact hc
  | ack p a =>
    obtain ⟨hps, ⟨b, hb, hab⟩, hna, hnt⟩ := hg
    rcases step_ack_cases cfg w p a with ⟨ch', hak, hstep⟩ | ⟨hsame, _⟩
    · rw [hstep]
      simp only
      rcases ackPacket_ok hak with ⟨hres, rfl⟩ | ⟨hae, href⟩
      · -- result acknowledgement: the packet was delivered, nothing is in flight any more
        have hbt : b = true := by
          cases b with
          | true => rfl
          | false => rw [hres] at hab; simp [ackFor] at hab; split at hab <;> cases hab
        subst hbt
        refine conserve_same hc (setChain_self_chains w p.srcChain) rfl ?_
        intro q _
        by_cases hqp : q = p
        · subst hqp
          simp [pending, pendingIn, World.setChain, hb]
        · simp only [pending, pendingIn, World.setChain, contains_cons_ne _ _ _ hqp]
      · have hbf : b = false := by
          cases b with
          | false => rfl
          | true => rw [hab] at hae; simp [ackFor] at hae
        subst hbf
        have hnrt : (p, true) ∉ w.recvd := fun h => hl.recvd_unique p h hb
        have hwas : pending w p = true := by simp [pending, pendingIn, World.setChain, hnrt, hnt, hna]
        refine conserve_refund ha hwi hl hpi hc hps href rfl rfl hwas ?_ ?_
        · simp [pending, pendingIn, World.setChain, hb]
        · intro q _ hne
          simp only [pending, pendingIn, World.setChain, contains_cons_ne _ _ _ hne]
    · rw [hsame]; exact hc
  | timeout p oc =>
    obtain ⟨hps, hnr, hna, hnt, _⟩ := hg
    have hwas : pending w p = true := by simp [pending, pendingIn, World.setChain, hnr true, hnt, hna]
    rcases step_timeout_cases cfg w p oc with ⟨ch', hto, hstep⟩ | ⟨hsame, _⟩
    · rw [hstep]
      simp only
      refine conserve_refund ha hwi hl hpi hc hps (timeoutPacket_ok hto) rfl rfl hwas ?_ ?_
      · simp [pending, pendingIn, World.setChain]
      · intro q _ hne
        simp only [pending, pendingIn, World.setChain, contains_cons_ne _ _ _ hne]
    · rw [hsame]; exact hc
  | setParams c s r =>
    intro A cA B cB X hpeer hX hnp
    have := hc A cA B cB X hpeer hX hnp
    simp only [step, World.setChain, pendingSum, pending] at this ⊢
    split_ifs <;> simp_all
  | bankSend c f t dn n =>
    simp only [step]
    split
    · exact hc
    · split
      · rename_i b hb
        obtain ⟨_, hsup, hbal⟩ := Bank.send_some' hb
        intro A cA B cB X hpeer hX hnp
        have hinv := hc A cA B cB X hpeer hX hnp
        have hE1 : ((w.setChain c { w.chains c with bank := b }).chains A).bank.bal (cfg.escrowAddr transferPort cA) (coin cfg X) =
            (w.chains A).bank.bal (cfg.escrowAddr transferPort cA) (coin cfg X) := by
          simp only [World.setChain]
          split_ifs with hAc
          · subst hAc
            rw [hbal]
            unfold moveBal
            have h1 : cfg.escrowAddr transferPort cA ≠ t := fun h => hpo.2 _ _ h.symm
            have h2 : cfg.escrowAddr transferPort cA ≠ f := fun h => hpo.1 _ _ h.symm
            simp [h1, h2]
          · rfl
        have hE2 : ((w.setChain c { w.chains c with bank := b }).chains B).bank.supply = (w.chains B).bank.supply := by
          simp only [World.setChain]
          split_ifs with hBc
          · subst hBc; exact hsup
          · rfl
        rw [hE1, hE2]
        exact hinv
      · exact hc

theorem inv_step {cfg : Config} (ha : Assm cfg) {w : World} (hi : Inv cfg w) (op : Op)
    (hg : Guard w op) (hpo : PartiesOK cfg op) : Inv cfg (step cfg w op).1 :=
  ⟨winv_step ha.peerIds hi.winv op hg, linv_step hi.linv op hg, pinv_step hi.pinv op hpo, conserve_step ha hi op hg hpo⟩

theorem inv_run {cfg : Config} (ha : Assm cfg) :
    ∀ (ops : List Op) (w : World), Inv cfg w → LifecycleOK cfg w ops → (∀ op ∈ ops, PartiesOK cfg op) →
      Inv cfg (run cfg w ops) := by
  intro ops
  induction ops with
  | nil => intro w hi _ _; exact hi
  | cons op ops ih =>
    intro w hi hl hp
    exact ih _ (inv_step ha hi op hl.1 (hp op List.mem_cons_self)) hl.2 (fun o ho => hp o (List.mem_cons_of_mem _ ho))

end IbcVerif.Ics20
