import IbcVerif.Model.Keys
import IbcVerif.Lemmas.Split
import IbcVerif.Lemmas.Dec
import IbcVerif.Lemmas.Bytes
namespace IbcVerif.Keys
open IbcVerif

/-! ### facts about the generated constants (re-checked by `decide` on every build) -/

theorem idByte_ne_slash (b : UInt8) (h : idByte b = true) : b ≠ slash := by
  intro e; subst e; revert h; decide

theorem word_slash_free (k : KindV1) : slash ∉ k.word := by cases k <;> decide
theorem word_idBytes (k : KindV1) : ∀ b ∈ k.word, idByte b = true := by cases k <;> decide
theorem word_inj (k k' : KindV1) (h : k.word = k'.word) : k = k' := by
  cases k <;> cases k' <;> first | rfl | (revert h; decide)
theorem ports_slash_free : slash ∉ Gen.keyPortPrefix := by decide
theorem channels_slash_free : slash ∉ Gen.keyChannelPrefix := by decide
theorem sequences_slash_free : slash ∉ Gen.keySequencePrefix := by decide
theorem ports_idBytes : ∀ b ∈ Gen.keyPortPrefix, idByte b = true := by decide
theorem channels_idBytes : ∀ b ∈ Gen.keyChannelPrefix, idByte b = true := by decide
theorem sequences_idBytes : ∀ b ∈ Gen.keySequencePrefix, idByte b = true := by decide
theorem kindByte_not_id (k : KindV2) : idByte k.byte = false := by cases k <;> decide
theorem kindByte_ne_slash (k : KindV2) : k.byte ≠ slash := by cases k <;> decide
theorem kindByte_inj (k k' : KindV2) (h : k.byte = k'.byte) : k = k' := by
  cases k <;> cases k' <;> first | rfl | (revert h; decide)
theorem clients_slash_free : slash ∉ Gen.keyClientStorePrefix := by decide

/-! ### identifiers and decimal sequences -/

theorem IdOK.slash_free {id : Bytes} (h : IdOK id) : slash ∉ id :=
  fun m => idByte_ne_slash _ (h.2 _ m) rfl

theorem digit_byte (c : Char) (h : c.isDigit = true) : idByte (UInt8.ofNat c.toNat) = true ∧ UInt8.ofNat c.toNat ≠ slash := by
  have h1 : 48 ≤ c.toNat ∧ c.toNat ≤ 57 := by
    simp only [Char.isDigit, Bool.and_eq_true, decide_eq_true_eq] at h
    have a := h.1; have b := h.2
    simp only [UInt32.le_iff_toNat_le] at a b
    exact ⟨a, b⟩
  obtain ⟨lo, hi⟩ := h1
  have : ∀ n, 48 ≤ n → n ≤ 57 → idByte (UInt8.ofNat n) = true ∧ UInt8.ofNat n ≠ slash := by
    intro n a b
    have : n = 48 ∨ n = 49 ∨ n = 50 ∨ n = 51 ∨ n = 52 ∨ n = 53 ∨ n = 54 ∨ n = 55 ∨ n = 56 ∨ n = 57 := by omega
    rcases this with r | r | r | r | r | r | r | r | r | r <;> subst r <;> decide
  exact this _ lo hi

theorem decBytes_idBytes (n : Nat) : ∀ b ∈ decBytes n, idByte b = true := by
  intro b hb
  simp only [decBytes, strBytes, List.mem_map] at hb
  obtain ⟨c, hc, rfl⟩ := hb
  have := List.all_eq_true.mp (dec_all_digits n) c hc
  exact (digit_byte c this).1

theorem decBytes_slash_free (n : Nat) : slash ∉ decBytes n :=
  fun m => idByte_ne_slash _ (decBytes_idBytes n _ m) rfl

theorem digit_ofNat_inj (c d : Char) (hc : c.isDigit = true) (hd : d.isDigit = true)
    (h : UInt8.ofNat c.toNat = UInt8.ofNat d.toNat) : c = d := by
  have rng : ∀ x : Char, x.isDigit = true → x.toNat < 256 := by
    intro x hx
    simp only [Char.isDigit, Bool.and_eq_true, decide_eq_true_eq] at hx
    have b := hx.2
    simp only [UInt32.le_iff_toNat_le] at b
    have : x.toNat ≤ 57 := b
    omega
  have h1 := rng c hc; have h2 := rng d hd
  have := congrArg UInt8.toNat h
  simp only [UInt8.toNat_ofNat'] at this
  have e : c.toNat = d.toNat := by omega
  exact Char.toNat_inj.mp e |> fun x => x

theorem strBytes_digits_inj : ∀ (la lb : List Char), la.all Char.isDigit = true → lb.all Char.isDigit = true →
    strBytes la = strBytes lb → la = lb
  | [], [], _, _, _ => rfl
  | [], _ :: _, _, _, h => by simp [strBytes] at h
  | _ :: _, [], _, _, h => by simp [strBytes] at h
  | x :: xs, y :: ys, ha, hb, h => by
      simp only [strBytes, List.map_cons, List.cons.injEq] at h
      simp only [List.all_cons, Bool.and_eq_true] at ha hb
      rw [digit_ofNat_inj x y ha.1 hb.1 h.1, strBytes_digits_inj xs ys ha.2 hb.2 h.2]

theorem decBytes_inj {a b : Nat} (h : decBytes a = decBytes b) : a = b :=
  dec_injective (strBytes_digits_inj _ _ (dec_all_digits a) (dec_all_digits b) h)

/-! ### structure of v1 keys -/

theorem v1Segs_ne_nil (k : KindV1) (p c : Bytes) (n : Nat) : v1Segs k p c n ≠ [] := by simp [v1Segs]

theorem v1Segs_slash_free (k : KindV1) (p c : Bytes) (n : Nat) (hp : IdOK p) (hc : IdOK c) :
    ∀ s ∈ v1Segs k p c n, slash ∉ s := by
  intro s hs
  simp only [v1Segs, channelPathSegs, List.cons_append, List.nil_append, List.mem_cons] at hs
  rcases hs with rfl | rfl | rfl | rfl | rfl | hs
  · exact word_slash_free k
  · exact ports_slash_free
  · exact hp.slash_free
  · exact channels_slash_free
  · exact hc.slash_free
  · split at hs
    · simp only [List.mem_cons, List.not_mem_nil, or_false] at hs
      rcases hs with rfl | rfl
      · exact sequences_slash_free
      · exact decBytes_slash_free n
    · simp at hs

theorem v1Key_bytes (k : KindV1) (p c : Bytes) (n : Nat) (hp : IdOK p) (hc : IdOK c) :
    ∀ b ∈ v1Key k p c n, b = slash ∨ idByte b = true := by
  intro b hb
  rcases mem_joinOn slash b _ hb with r | ⟨s, hs, hbs⟩
  · exact Or.inl r
  · right
    simp only [v1Segs, channelPathSegs, List.cons_append, List.nil_append, List.mem_cons] at hs
    rcases hs with rfl | rfl | rfl | rfl | rfl | hs
    · exact word_idBytes k b hbs
    · exact ports_idBytes b hbs
    · exact hp.2 b hbs
    · exact channels_idBytes b hbs
    · exact hc.2 b hbs
    · split at hs
      · simp only [List.mem_cons, List.not_mem_nil, or_false] at hs
        rcases hs with rfl | rfl
        · exact sequences_idBytes b hbs
        · exact decBytes_idBytes n b hbs
      · simp at hs

/-! ### prefix reasoning -/

/-- `s ++ sep :: R` is a prefix of `s' ++ sep :: R'` with `sep ∉ s, s'` only if `s = s'` and `R <+: R'` -/
theorem prefix_sep {α : Type} [DecidableEq α] (sep : α) (s s' R R' : List α) (hs : sep ∉ s) (hs' : sep ∉ s')
    (h : (s ++ sep :: R) <+: (s' ++ sep :: R')) : s = s' ∧ R <+: R' := by
  obtain ⟨t, ht⟩ := h
  rw [List.append_assoc] at ht
  rcases List.append_eq_append_iff.mp ht with ⟨a, e1, e2⟩ | ⟨a, e1, e2⟩
  · -- s' = s ++ a
    cases a with
    | nil =>
      simp only [List.append_nil] at e1
      simp only [List.nil_append, List.cons_append, List.cons.injEq, true_and] at e2
      exact ⟨e1.symm, ⟨t, e2⟩⟩
    | cons x xs =>
      simp only [List.cons_append, List.cons.injEq] at e2
      exact absurd (e2.1 ▸ (e1 ▸ List.mem_append_right s List.mem_cons_self)) hs'
  · cases a with
    | nil =>
      simp only [List.append_nil] at e1
      simp only [List.nil_append, List.cons_append, List.cons.injEq, true_and] at e2
      exact ⟨e1, ⟨t, e2.symm⟩⟩
    | cons x xs =>
      simp only [List.cons_append, List.cons.injEq] at e2
      exact absurd (e2.1 ▸ (e1 ▸ List.mem_append_right s' List.mem_cons_self)) hs

end IbcVerif.Keys
