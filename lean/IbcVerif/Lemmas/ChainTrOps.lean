/-
  Every handler of the chain model satisfies the transition relation `Tr`.
-/
import IbcVerif.Lemmas.ChainTr
namespace IbcVerif.Chain
open FMap

/-- split a msg-handler equation `handler … = (s', out)` along all branches; the branches that
    return the original state are closed by `Tr.refl` -/
macro "msplit " h:ident : tactic =>
  `(tactic| (simp only at $h:ident; (repeat' split at $h:ident) <;>
      (try (simp only [Prod.mk.injEq] at $h:ident; obtain ⟨hh, -⟩ := $h:ident; subst hh; exact Tr.refl _))))

/-- after `msplit`: substitute the result state of a successful branch -/
macro "msubst " h:ident : tactic =>
  `(tactic| (simp only [Prod.mk.injEq] at $h:ident; obtain ⟨hh, -⟩ := $h:ident; subst hh))

/-! ### v1 receive -/

theorem tr_recv1 {s s1 : ChainState} {env : Env} {p : PacketV1}
    (h1 : recvPacketV1 s env p = .ok s1) (A : FMap (Id × Id × Nat) Hex) (B : FMap String String)
    (hack : A = s1.ackV1 ∨ ∃ a, s1.ackV1.get (p.dp, p.dc, p.seq) = none ∧ A = s1.ackV1.set (p.dp, p.dc, p.seq) a) :
    Tr s { s1 with log := s1.log ++ [.recv1 p.dp p.dc p.seq], ackV1 := A, app := B } := by
  obtain ⟨ch, hch, hst, h2⟩ := recvPacketV1_ok h1
  have hackv : s1.ackV1 = s.ackV1 → ∀ k v, s.ackV1.get k = some v → A.get k = some v := by
    intro he k v hk
    rw [he] at hack
    rcases hack with h | ⟨a, hn, h⟩
    · rw [h]; exact hk
    · rw [h, FMap.get_set]; split
      · subst_vars; rw [hn] at hk; cases hk
      · exact hk
  rcases applyReplayProtection_ok h2 with ⟨ho, hr, rfl⟩ | ⟨ho, hr, rfl⟩
  · exact {
      log := .inr ⟨.recv1 p.dp p.dc p.seq, rfl, ch, hch, hst, rfl, .inl ⟨ho, hr, by simp, rfl⟩⟩
      ackV1 := hackv rfl
      receiptV1 := by
        intro k hk
        simp only [FMap.get_set]
        split <;> simp_all }
  · exact {
      log := .inr ⟨.recv1 p.dp p.dc p.seq, rfl, ch, hch, hst, rfl, .inr ⟨ho, hr, by simp⟩⟩
      ackV1 := hackv rfl
      nextRecv := by
        intro p' c' n hn
        simp only [FMap.get_set]
        split
        · rename_i he; cases he
          rw [hr] at hn; cases hn
          right; left; exact ⟨rfl, rfl⟩
        · left; exact hn }

theorem recvPacketV1_ackV1 {s s1 : ChainState} {env : Env} {p : PacketV1}
    (h1 : recvPacketV1 s env p = .ok s1) : s1.ackV1 = s.ackV1 ∧ s1.chan = s.chan ∧ s1.log = s.log ∧ s1.app = s.app := by
  obtain ⟨ch, _, _, h2⟩ := recvPacketV1_ok h1
  rcases applyReplayProtection_ok h2 with ⟨_, _, rfl⟩ | ⟨_, _, rfl⟩ <;> exact ⟨rfl, rfl, rfl, rfl⟩

theorem writeAckV1_twice {c c' c'' : ChainState} {p : PacketV1} {a : Option Hex}
    (h2 : writeAckV1 c' p a = .ok c'') (h1 : writeAckV1 c p a = .ok c') : False := by
  obtain ⟨_, _, _, _, _, _, _, rfl⟩ := writeAckV1_ok h1
  obtain ⟨_, _, _, _, _, _, hnone, _⟩ := writeAckV1_ok h2
  simp at hnone

theorem except_ok_error {ε α : Type} {x : Except ε α} {a : α} {e : ε} (h1 : x = .ok a) (h2 : x = .error e) : False := by
  rw [h1] at h2; cases h2

theorem tr_msgRecvPacket {s s' : ChainState} {env : Env} {p : PacketV1} {app : AppV1} {out : Out}
    (h : msgRecvPacket s env p app = (s', out)) : Tr s s' := by
  unfold msgRecvPacket done at h
  msplit h
  all_goals msubst h
  all_goals (have hr := ‹recvPacketV1 s env p = Except.ok _›)
  · -- successful acknowledgement
    obtain ⟨bz, ch, hbz, _, _, _, hnone, rfl⟩ := writeAckV1_ok (by assumption)
    exact tr_recv1 hr _ _ (.inr ⟨bz, hnone, rfl⟩)
  · -- error acknowledgement: application writes dropped
    obtain ⟨bz, ch, hbz, _, _, _, hnone, rfl⟩ := writeAckV1_ok (by assumption)
    exact tr_recv1 hr _ _ (.inr ⟨bz, hnone, rfl⟩)
  · -- asynchronous
    exact tr_recv1 hr _ _ (.inl rfl)
  · -- the application wrote an acknowledgement itself and returned one: the second write fails
    exact absurd (writeAckV1_twice (by assumption) (by assumption)) id
  · -- its own write failed; the handler's write fails for the same reason
    contradiction

/-! ### acknowledgement / timeout -/

theorem tr_ack1 {s s1 : ChainState} {env : Env} {p : PacketV1} (ack : Hex) (B : FMap String String)
    (h1 : acknowledgePacketV1 s env p = .ok s1) :
    Tr s { s1 with log := s1.log ++ [.ack1 p.sp p.sc p.seq ack], app := B } := by
  obtain ⟨ch, hch, hst, hc, h2⟩ := acknowledgePacketV1_ok h1
  rcases h2 with ⟨ho, hn, rfl⟩ | ⟨ho, rfl⟩
  · exact {
      log := .inr ⟨.ack1 p.sp p.sc p.seq ack, rfl, ch, hch, hst, rfl, by simp [hc], by simp, fun _ => ⟨hn, by simp⟩⟩
      nextAck := by
        intro p' c' n hn'
        simp only [FMap.get_set]
        split
        · rename_i he; cases he
          rw [hn] at hn'; cases hn'
          right; left; exact ⟨rfl, ack, rfl⟩
        · left; exact hn' }
  · exact {
      log := .inr ⟨.ack1 p.sp p.sc p.seq ack, rfl, ch, hch, hst, rfl, by simp [hc], by simp, fun h => absurd h ho⟩ }

theorem tr_timeout1 {s : ChainState} {p : PacketV1} {ch : Channel} (B : FMap String String)
    (hch : s.chan.get (p.sp, p.sc) = some ch) (hc : s.commitV1.get (p.sp, p.sc, p.seq) = some p.commit) :
    Tr s { timeoutExecuted s ch p with log := (timeoutExecuted s ch p).log ++ [.timeout1 p.sp p.sc p.seq], app := B } := by
  rw [timeoutExecuted_eq]
  split
  · rename_i ho
    exact {
      log := .inr ⟨.timeout1 p.sp p.sc p.seq, rfl, ch, hch, by simp [hc], by simp, fun _ => ⟨{ ch with state := .closed }, by simp, rfl⟩⟩
      chanOld := by
        intro p' c' ch0 h0
        right
        simp only [FMap.get_set]
        split
        · rename_i he; cases he
          rw [hch] at h0; cases h0
          refine ⟨_, rfl, rfl, rfl, rfl, ?_, by simp⟩
          by_cases hcl : ch.state = .closed
          · left; simp [hcl]
          · right; right; right; exact ⟨hcl, rfl⟩
        · exact ⟨_, h0, rfl, rfl, rfl, .inl rfl, by simp⟩
      chanNew := by
        intro p' c' ch' h0 h1
        simp only [FMap.get_set] at h1
        split at h1
        · rename_i he; cases he; rw [hch] at h0; cases h0
        · rw [h0] at h1; cases h1 }
  · exact {
      log := .inr ⟨.timeout1 p.sp p.sc p.seq, rfl, ch, hch, by simp [hc], by simp, fun h => by contradiction⟩ }

theorem tr_afterTao_ack {s s' : ChainState} {env : Env} {p : PacketV1} {ack : Hex} {app : AppV1} {out : Out}
    (h : afterTao s env (acknowledgePacketV1 s env p) (.ack1 p.sp p.sc p.seq ack) app = (s', out)) : Tr s s' := by
  unfold afterTao at h
  msplit h
  msubst h
  exact tr_ack1 ack _ (by assumption)

theorem tr_afterTao_timeout {s s' : ChainState} {env : Env} {p : PacketV1} {app : AppV1} {out : Out}
    {r : Except String ChainState}
    (hr : ∀ s1, r = .ok s1 → ∃ ch, s.chan.get (p.sp, p.sc) = some ch ∧ s.commitV1.get (p.sp, p.sc, p.seq) = some p.commit ∧
      s1 = timeoutExecuted s ch p)
    (h : afterTao s env r (.timeout1 p.sp p.sc p.seq) app = (s', out)) : Tr s s' := by
  unfold afterTao at h
  msplit h
  msubst h
  obtain ⟨ch, hch, hc, rfl⟩ := hr _ rfl
  exact tr_timeout1 _ hch hc

theorem tr_msgAcknowledgement {s s' : ChainState} {env : Env} {p : PacketV1} {ack : Hex} {app : AppV1} {out : Out}
    (h : msgAcknowledgement s env p ack app = (s', out)) : Tr s s' := by
  unfold msgAcknowledgement at h
  split at h
  · msubst h; exact Tr.refl _
  · exact tr_afterTao_ack h

theorem tr_msgTimeout {s s' : ChainState} {env : Env} {p : PacketV1} {nsr phRev phH : Nat} {app : AppV1} {out : Out}
    (h : msgTimeout s env p nsr phRev phH app = (s', out)) : Tr s s' := by
  unfold msgTimeout at h
  split at h
  · msubst h; exact Tr.refl _
  · exact tr_afterTao_timeout (fun _ hk => timeoutPacketV1_ok hk) h

theorem tr_msgTimeoutOnClose {s s' : ChainState} {env : Env} {p : PacketV1} {nsr : Nat} {app : AppV1} {out : Out}
    (h : msgTimeoutOnClose s env p nsr app = (s', out)) : Tr s s' := by
  unfold msgTimeoutOnClose at h
  split at h
  · msubst h; exact Tr.refl _
  · exact tr_afterTao_timeout (fun _ hk => timeoutOnCloseV1_ok hk) h

/-! ### v1 send, async ack -/

theorem tr_sendV1 {s s' : ChainState} {env : Env} {port chan : Id} {thRev thH tt seq : Nat} {data : Hex}
    (h : sendPacketV1 s env port chan thRev thH tt data = .ok (s', seq)) : Tr s s' := by
  obtain ⟨ch, hch, hst, hseq, rfl⟩ := sendPacketV1_ok h
  exact {
    log := .inl rfl
    nextSend := by
      intro id n hn
      simp only [FMap.get_set]
      by_cases hid : id = chan
      · subst hid; simp_all
      · simp_all
    commitV1New := by
      intro p c q h0 h1
      simp only [FMap.get_set] at h1 ⊢
      split at h1
      · rename_i he; cases he; simp_all
      · contradiction }

theorem tr_writeAckV1 {s s' : ChainState} {p : PacketV1} {a : Option Hex}
    (h : writeAckV1 s p a = .ok s') : Tr s s' := by
  obtain ⟨bz, ch, _, _, _, _, hnone, rfl⟩ := writeAckV1_ok h
  exact {
    log := .inl rfl
    ackV1 := by
      intro k v hk
      simp only [FMap.get_set]
      split
      · subst_vars; rw [hnone] at hk; cases hk
      · exact hk }

end IbcVerif.Chain
