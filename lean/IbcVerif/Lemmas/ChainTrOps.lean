/-
  Every handler of the chain model satisfies the transition relation `Tr`.
-/
import IbcVerif.Lemmas.ChainTr
namespace IbcVerif.Chain
open FMap

/-- split a msg-handler equation `handler … = (s', out)` along all branches; the branches that
    return the original state are closed by `Tr.refl` -/
macro "msplit " h:ident : tactic =>
  `(tactic| ((try simp only at $h:ident); (repeat' split at $h:ident) <;>
      (try (simp only [Prod.mk.injEq] at $h:ident; obtain ⟨hh, -⟩ := $h:ident; subst hh; exact Tr.refl _))))

/-- after `msplit`: substitute the result state of a successful branch -/
macro "msubst " h:ident : tactic =>
  `(tactic| (simp only [Prod.mk.injEq] at $h:ident; obtain ⟨hh, -⟩ := $h:ident; subst hh))

/-! ### v1 receive -/

theorem tr_recv1 {s s1 : ChainState} {env : Env} {p : PacketV1}
    (h1 : recvPacketV1 s env p = .ok s1) (A : FMap (Id × Id × Nat) Hex) (B : FMap String String)
    (hack : A = s1.ackV1 ∨ ∃ a, s1.ackV1.get (p.dp, p.dc, p.seq) = none ∧ A = s1.ackV1.set (p.dp, p.dc, p.seq) a) :
    Tr s { s1 with log := s1.log ++ [.recv1 p.dp p.dc p.seq], ackV1 := A, app := B } := by
  obtain ⟨ch, hch, hst, h2⟩ := recvPacketV1_ok h1
  have hackv : s1.ackV1 = s.ackV1 → ∀ k v, s.ackV1.get k = some v → A.get k = some v := by
    intro he k v hk
    rw [he] at hack
    rcases hack with h | ⟨a, hn, h⟩
    · rw [h]; exact hk
    · rw [h, FMap.get_set]; split
      · subst_vars; rw [hn] at hk; cases hk
      · exact hk
  rcases applyReplayProtection_ok h2 with ⟨ho, hr, rfl⟩ | ⟨ho, hr, rfl⟩
  · exact {
      log := .inr ⟨.recv1 p.dp p.dc p.seq, rfl, ch, hch, hst, rfl, .inl ⟨ho, hr, by simp, rfl⟩⟩
      ackV1 := hackv rfl
      receiptV1 := by
        intro k hk
        simp only [FMap.get_set]
        split <;> simp_all }
  · exact {
      log := .inr ⟨.recv1 p.dp p.dc p.seq, rfl, ch, hch, hst, rfl, .inr ⟨ho, hr, by simp⟩⟩
      ackV1 := hackv rfl
      nextRecv := by
        intro p' c' n hn
        simp only [FMap.get_set]
        split
        · rename_i he; cases he
          rw [hr] at hn; cases hn
          right; left; exact ⟨rfl, rfl⟩
        · left; exact hn }

theorem recvPacketV1_ackV1 {s s1 : ChainState} {env : Env} {p : PacketV1}
    (h1 : recvPacketV1 s env p = .ok s1) : s1.ackV1 = s.ackV1 ∧ s1.chan = s.chan ∧ s1.log = s.log ∧ s1.app = s.app := by
  obtain ⟨ch, _, _, h2⟩ := recvPacketV1_ok h1
  rcases applyReplayProtection_ok h2 with ⟨_, _, rfl⟩ | ⟨_, _, rfl⟩ <;> exact ⟨rfl, rfl, rfl, rfl⟩

theorem writeAckV1_twice {c c' c'' : ChainState} {p : PacketV1} {a : Option Hex}
    (h2 : writeAckV1 c' p a = .ok c'') (h1 : writeAckV1 c p a = .ok c') : False := by
  obtain ⟨_, _, _, _, _, _, _, rfl⟩ := writeAckV1_ok h1
  obtain ⟨_, _, _, _, _, _, hnone, _⟩ := writeAckV1_ok h2
  simp at hnone

theorem except_ok_error {ε α : Type} {x : Except ε α} {a : α} {e : ε} (h1 : x = .ok a) (h2 : x = .error e) : False := by
  rw [h1] at h2; cases h2

theorem tr_msgRecvPacket {s s' : ChainState} {env : Env} {p : PacketV1} {app : AppV1} {out : Out}
    (h : msgRecvPacket s env p app = (s', out)) : Tr s s' := by
  unfold msgRecvPacket done at h
  msplit h
  all_goals msubst h
  all_goals (have hr := ‹recvPacketV1 s env p = Except.ok _›)
  · -- successful acknowledgement
    obtain ⟨bz, ch, hbz, _, _, _, hnone, rfl⟩ := writeAckV1_ok (by assumption)
    exact tr_recv1 hr _ _ (.inr ⟨bz, hnone, rfl⟩)
  · -- error acknowledgement: application writes dropped
    obtain ⟨bz, ch, hbz, _, _, _, hnone, rfl⟩ := writeAckV1_ok (by assumption)
    exact tr_recv1 hr _ _ (.inr ⟨bz, hnone, rfl⟩)
  · -- asynchronous
    exact tr_recv1 hr _ _ (.inl rfl)
  · -- the application wrote an acknowledgement itself and returned one: the second write fails
    exact absurd (writeAckV1_twice (by assumption) (by assumption)) id
  · -- its own write failed; the handler's write fails for the same reason
    contradiction

/-! ### acknowledgement / timeout -/

theorem tr_ack1 {s s1 : ChainState} {env : Env} {p : PacketV1} (ack : Hex) (B : FMap String String)
    (h1 : acknowledgePacketV1 s env p = .ok s1) :
    Tr s { s1 with log := s1.log ++ [.ack1 p.sp p.sc p.seq ack], app := B } := by
  obtain ⟨ch, hch, hst, hc, h2⟩ := acknowledgePacketV1_ok h1
  rcases h2 with ⟨ho, hn, rfl⟩ | ⟨ho, rfl⟩
  · exact {
      log := .inr ⟨.ack1 p.sp p.sc p.seq ack, rfl, ch, hch, hst, rfl, by simp [hc], by simp, fun _ => ⟨hn, by simp⟩⟩
      nextAck := by
        intro p' c' n hn'
        simp only [FMap.get_set]
        split
        · rename_i he; cases he
          rw [hn] at hn'; cases hn'
          right; left; exact ⟨rfl, ack, rfl⟩
        · left; exact hn' }
  · exact {
      log := .inr ⟨.ack1 p.sp p.sc p.seq ack, rfl, ch, hch, hst, rfl, by simp [hc], by simp, fun h => absurd h ho⟩ }

theorem tr_timeout1 {s : ChainState} {p : PacketV1} {ch : Channel} (B : FMap String String)
    (hch : s.chan.get (p.sp, p.sc) = some ch) (hc : s.commitV1.get (p.sp, p.sc, p.seq) = some p.commit) :
    Tr s { timeoutExecuted s ch p with log := (timeoutExecuted s ch p).log ++ [.timeout1 p.sp p.sc p.seq], app := B } := by
  rw [timeoutExecuted_eq]
  split
  · rename_i ho
    exact {
      log := .inr ⟨.timeout1 p.sp p.sc p.seq, rfl, ch, hch, by simp [hc], by simp, fun _ => ⟨{ ch with state := .closed }, by simp, rfl⟩⟩
      chanOld := by
        intro p' c' ch0 h0
        right
        simp only [FMap.get_set]
        split
        · rename_i he; cases he
          rw [hch] at h0; cases h0
          refine ⟨_, rfl, rfl, rfl, rfl, ?_, by simp⟩
          by_cases hcl : ch.state = .closed
          · left; simp [hcl]
          · right; right; right; exact ⟨hcl, rfl⟩
        · exact ⟨_, h0, rfl, rfl, rfl, .inl rfl, by simp⟩
      chanNew := by
        intro p' c' ch' h0 h1
        simp only [FMap.get_set] at h1
        split at h1
        · rename_i he; cases he; rw [hch] at h0; cases h0
        · rw [h0] at h1; cases h1 }
  · exact {
      log := .inr ⟨.timeout1 p.sp p.sc p.seq, rfl, ch, hch, by simp [hc], by simp, fun h => by contradiction⟩ }

theorem tr_afterTao_ack {s s' : ChainState} {env : Env} {p : PacketV1} {ack : Hex} {app : AppV1} {out : Out}
    (h : afterTao s env (acknowledgePacketV1 s env p) (.ack1 p.sp p.sc p.seq ack) app = (s', out)) : Tr s s' := by
  unfold afterTao at h
  msplit h
  msubst h
  exact tr_ack1 ack _ (by assumption)

theorem tr_afterTao_timeout {s s' : ChainState} {env : Env} {p : PacketV1} {app : AppV1} {out : Out}
    {r : Except String ChainState}
    (hr : ∀ s1, r = .ok s1 → ∃ ch, s.chan.get (p.sp, p.sc) = some ch ∧ s.commitV1.get (p.sp, p.sc, p.seq) = some p.commit ∧
      s1 = timeoutExecuted s ch p)
    (h : afterTao s env r (.timeout1 p.sp p.sc p.seq) app = (s', out)) : Tr s s' := by
  unfold afterTao at h
  msplit h
  msubst h
  obtain ⟨ch, hch, hc, rfl⟩ := hr _ rfl
  exact tr_timeout1 _ hch hc

theorem tr_msgAcknowledgement {s s' : ChainState} {env : Env} {p : PacketV1} {ack : Hex} {app : AppV1} {out : Out}
    (h : msgAcknowledgement s env p ack app = (s', out)) : Tr s s' := by
  unfold msgAcknowledgement at h
  split at h
  · msubst h; exact Tr.refl _
  · exact tr_afterTao_ack h

theorem tr_msgTimeout {s s' : ChainState} {env : Env} {p : PacketV1} {nsr phRev phH : Nat} {app : AppV1} {out : Out}
    (h : msgTimeout s env p nsr phRev phH app = (s', out)) : Tr s s' := by
  unfold msgTimeout at h
  split at h
  · msubst h; exact Tr.refl _
  · exact tr_afterTao_timeout (fun _ hk => timeoutPacketV1_ok hk) h

theorem tr_msgTimeoutOnClose {s s' : ChainState} {env : Env} {p : PacketV1} {nsr : Nat} {app : AppV1} {out : Out}
    (h : msgTimeoutOnClose s env p nsr app = (s', out)) : Tr s s' := by
  unfold msgTimeoutOnClose at h
  split at h
  · msubst h; exact Tr.refl _
  · exact tr_afterTao_timeout (fun _ hk => timeoutOnCloseV1_ok hk) h

/-! ### v1 send, async ack -/

theorem tr_sendV1 {s s' : ChainState} {env : Env} {port chan : Id} {thRev thH tt seq : Nat} {data : Hex}
    (h : sendPacketV1 s env port chan thRev thH tt data = .ok (s', seq)) :
    Tr s (s'.logAdd (.send1 port chan seq)) := by
  obtain ⟨ch, hch, hst, hseq, rfl⟩ := sendPacketV1_ok h
  exact {
    log := .inr ⟨.send1 port chan seq, rfl, hseq, by simp [ChainState.logAdd]⟩
    nextSend := by
      intro id n hn
      simp only [ChainState.logAdd, FMap.get_set]
      by_cases hid : id = chan
      · subst hid
        rw [hseq] at hn; cases hn
        right; left
        exact ⟨by simp, _, rfl, by simp [Event.isSend]⟩
      · left; simp [hid, hn]
    commitV1New := by
      intro p c q h0 h1
      simp only [ChainState.logAdd, FMap.get_set] at h1 ⊢
      split at h1
      · rename_i he; cases he; simp_all
      · contradiction }

theorem tr_writeAckV1 {s s' : ChainState} {p : PacketV1} {a : Option Hex}
    (h : writeAckV1 s p a = .ok s') : Tr s s' := by
  obtain ⟨bz, ch, _, _, _, _, hnone, rfl⟩ := writeAckV1_ok h
  exact {
    log := .inl rfl
    ackV1 := by
      intro k v hk
      simp only [FMap.get_set]
      split
      · subst_vars; rw [hnone] at hk; cases hk
      · exact hk }

/-! ### IBC v2 -/

theorem tr_msgSendPacketV2 {s s' : ChainState} {env : Env} {src : Id} {tt : Nat} {payloads : List Payload}
    {apps : List AppV2} {out : Out} (h : msgSendPacketV2 s env src tt payloads apps = (s', out)) : Tr s s' := by
  unfold msgSendPacketV2 at h
  msplit h
  msubst h
  obtain ⟨cpId, pfx, hcp, hseq, hs⟩ := sendPacketV2_ok ‹sendPacketV2 s env src tt payloads = Except.ok _›
  subst hs
  unfold commitSendV2
  exact {
    log := .inr ⟨.send2 src _ payloads.length, rfl, hseq, by simp [ChainState.logAdd]⟩
    nextSend := by
      intro id n hn
      simp only [ChainState.logAdd, FMap.get_set]
      by_cases hid : id = src
      · subst hid
        rw [hseq] at hn; cases hn
        right; left
        exact ⟨by simp, _, rfl, by simp [Event.isSend]⟩
      · left; simp [hid, hn]
    commitV2New := by
      intro c q h0 h1
      simp only [ChainState.logAdd, FMap.get_set] at h1 ⊢
      split at h1
      · rename_i he; cases he; simp_all
      · contradiction }

theorem tr_recv2 {s : ChainState} {env : Env} {p : PacketV2} {s1 : ChainState}
    (h1 : recvPacketV2 s env p = .ok s1) (n : Nat) (B : FMap String String)
    (A : FMap (Id × Nat) (List Hex)) (Y : FMap (Id × Nat) PacketV2)
    (hack : (A = s1.ackV2 ∧ ∃ pk, Y = s1.asyncV2.set (p.dst, p.seq) pk ∧ (pk.dst, pk.seq) = (p.dst, p.seq)) ∨
            (Y = s1.asyncV2 ∧ ∃ a, s1.ackV2.get (p.dst, p.seq) = none ∧ A = s1.ackV2.set (p.dst, p.seq) a)) :
    Tr s { s1 with log := s1.log ++ [.recv2 p.dst p.seq n], app := B, ackV2 := A, asyncV2 := Y } := by
  obtain ⟨hcp, hnone, rfl⟩ := recvPacketV2_ok h1
  exact {
    log := .inr ⟨.recv2 p.dst p.seq n, rfl, hnone, by simp⟩
    ackV2 := by
      intro k v hk
      rcases hack with ⟨h, _⟩ | ⟨_, a, hn, h⟩
      · rw [h]; exact hk
      · simp only [h, FMap.get_set]; split
        · subst_vars; simp only at hn; rw [hn] at hk; cases hk
        · exact hk
    ackV2New := by
      intro k h0 h1
      rcases hack with ⟨h, _⟩ | ⟨hy, a, hn, h⟩
      · subst h; exact absurd h0 h1
      · subst h; subst hy
        simp only [FMap.get_set] at h1 ⊢
        split at h1
        · subst_vars; exact ⟨by simp, .inr (.inl hnone)⟩
        · exact absurd h0 h1
    asyncNew := by
      intro k pk0 h0 h1
      rcases hack with ⟨h, pk, hy, hpk⟩ | ⟨hy, _⟩
      · subst h; subst hy
        simp only [FMap.get_set] at h1 ⊢
        split at h1
        · subst_vars; cases h1; exact ⟨hpk, hnone, by simp, by simp⟩
        · rw [h0] at h1; cases h1
      · subst hy; rw [h0] at h1; cases h1
    asyncOld := by
      intro k pk hk
      rcases hack with ⟨h, pk', hy, _⟩ | ⟨hy, _⟩
      · subst hy
        simp only [FMap.get_set]
        split
        · subst_vars; right; right; exact hnone
        · left; exact hk
      · subst hy; left; exact hk }

theorem tr_msgRecvPacketV2 {s s' : ChainState} {env : Env} {p : PacketV2} {apps : List AppV2} {out : Out}
    (h : msgRecvPacketV2 s env p apps = (s', out)) : Tr s s' := by
  unfold msgRecvPacketV2 done at h
  msplit h
  all_goals msubst h
  all_goals (have hr := ‹recvPacketV2 s env p = Except.ok _›)
  all_goals first
    | -- synchronous acknowledgement
      (obtain ⟨_, _, hnone, _, rfl⟩ := writeAckV2_ok ‹writeAckV2 _ p _ = Except.ok _›
       exact tr_recv2 hr _ _ _ _ (.inr ⟨rfl, _, hnone, rfl⟩))
    | -- asynchronous
      exact tr_recv2 hr _ _ _ _ (.inl ⟨rfl, _, rfl, rfl⟩)

theorem tr_asyncWriteAckV2 {s s' : ChainState} {dst : Id} {seq : Nat} {acks : List Hex}
    (h : asyncWriteAckV2 s dst seq acks = .ok s') : Tr s s' := by
  obtain ⟨p, s1, hp, hw, rfl⟩ := asyncWriteAckV2_ok h
  obtain ⟨_, _, hnone, hrc, rfl⟩ := writeAckV2_ok hw
  exact {
    log := .inl rfl
    ackV2 := by
      intro k v hk'
      simp only [FMap.get_set]; split
      · subst_vars; rw [hnone] at hk'; cases hk'
      · exact hk'
    ackV2New := by
      intro k h0 h1
      simp only [FMap.get_set, FMap.get_del] at h1 ⊢
      split at h1
      · subst_vars
        refine ⟨hrc, ?_⟩
        by_cases hd : (p.dst, p.seq) = (dst, seq)
        · left; rw [if_pos hd]
        · right; right; exact ⟨(dst, seq), p, hp, hd⟩
      · exact absurd h0 h1
    asyncNew := by
      intro k pk h0 h1
      simp only [FMap.get_del] at h1
      split at h1
      · cases h1
      · rw [h0] at h1; cases h1
    asyncOld := by
      intro k pk hk'
      simp only [FMap.get_set, FMap.get_del]
      split
      · subst_vars
        rw [hp] at hk'; cases hk'
        right; left
        refine ⟨rfl, ?_⟩
        by_cases hd : (p.dst, p.seq) = (dst, seq)
        · left; rw [hd] at hnone; exact ⟨hd, hnone, by simp [hd]⟩
        · right; exact hd
      · left; exact hk' }

theorem tr_terminal2 {s : ChainState} {src : Id} {q : Nat} (e : Event) (B : FMap String String)
    (he : (∃ a, e = .ack2 src q a) ∨ (∃ n, e = .timeout2 src q n))
    (hcp : s.cpV2.get src ≠ none) (hc : s.commitV2.get (src, q) ≠ none) :
    Tr s { s with commitV2 := s.commitV2.del (src, q), app := B, log := s.log ++ [e] } := by
  have hev : EvOK s { s with commitV2 := s.commitV2.del (src, q), app := B, log := s.log ++ [e] } e := by
    rcases he with ⟨a, rfl⟩ | ⟨n, rfl⟩ <;> exact ⟨hcp, hc, by simp⟩
  exact { log := .inr ⟨e, rfl, hev⟩ }

theorem tr_msgAcknowledgementV2 {s s' : ChainState} {env : Env} {p : PacketV2} {acks : List Hex} {apps : List AppV2}
    {out : Out} (h : msgAcknowledgementV2 s env p acks apps = (s', out)) : Tr s s' := by
  unfold msgAcknowledgementV2 at h
  msplit h
  all_goals
    msubst h
    obtain ⟨hcp, hc, rfl⟩ := acknowledgePacketV2_ok ‹acknowledgePacketV2 s env p = Except.ok _›
    exact tr_terminal2 _ _ (.inl ⟨_, rfl⟩) hcp (by simp [hc])

theorem tr_msgTimeoutV2 {s s' : ChainState} {env : Env} {p : PacketV2} {apps : List AppV2}
    {out : Out} (h : msgTimeoutV2 s env p apps = (s', out)) : Tr s s' := by
  unfold msgTimeoutV2 at h
  msplit h
  all_goals
    msubst h
    obtain ⟨hcp, hc, rfl⟩ := timeoutPacketV2_ok ‹timeoutPacketV2 s env p = Except.ok _›
    exact tr_terminal2 _ _ (.inr ⟨_, rfl⟩) hcp (by simp [hc])

/-! ### channel handshake -/

theorem tr_chanNew (s : ChainState) (port : Id) (k : String) (B : FMap String String) (chv : Channel)
    (hst : chv.state = .init ∨ chv.state = .tryopen) :
    Tr s { s with nextChanSeq := s.nextChanSeq + 1, log := s.log ++ [.hs k port (fmtChan s.nextChanSeq)], app := B,
                  chan := s.chan.set (port, fmtChan s.nextChanSeq) chv,
                  nextSend := s.nextSend.set (fmtChan s.nextChanSeq) 1,
                  nextRecv := s.nextRecv.set (port, fmtChan s.nextChanSeq) 1,
                  nextAck := s.nextAck.set (port, fmtChan s.nextChanSeq) 1 } := by
  exact {
    log := .inr ⟨.hs k port (fmtChan s.nextChanSeq), rfl, fun _ => ⟨rfl, rfl⟩⟩
    chanOld := by
      intro p c ch h
      by_cases hc : c = fmtChan s.nextChanSeq
      · left; exact hc
      · right
        refine ⟨ch, ?_, rfl, rfl, rfl, .inl rfl, by simp⟩
        simp only [FMap.get_set]
        rw [if_neg]; exact h
        intro he; cases he; exact hc rfl
    chanNew := by
      intro p c ch' h0 h1
      simp only [FMap.get_set] at h1
      split at h1
      · rename_i he; cases he
        cases h1
        exact ⟨rfl, rfl, hst, by simp, by simp, by simp⟩
      · rw [h0] at h1; cases h1
    nextRecv := by
      intro p c n hn
      by_cases hc : c = fmtChan s.nextChanSeq
      · right; right; exact hc
      · left; simp only [FMap.get_set]; rw [if_neg]; exact hn
        intro he; cases he; exact hc rfl
    nextAck := by
      intro p c n hn
      by_cases hc : c = fmtChan s.nextChanSeq
      · right; right; exact hc
      · left; simp only [FMap.get_set]; rw [if_neg]; exact hn
        intro he; cases he; exact hc rfl
    nextSend := by
      intro id n hn
      by_cases hc : id = fmtChan s.nextChanSeq
      · right; right; left; exact hc
      · left; simp only [FMap.get_set]; rw [if_neg hc]; exact hn
    nextSendNew := by
      intro id n h0 h1
      simp only [FMap.get_set] at h1
      split at h1
      · subst_vars; cases h1
        exact ⟨rfl, .inl rfl, .inl ⟨port, by simp⟩⟩
      · rw [h0] at h1; cases h1 }

theorem tr_msgChanOpenInit {s s' : ChainState} {env : Env} {port : Id} {o : Order} {hops : List Id} {cpPort : Id}
    {version : String} {app : AppV1} {out : Out}
    (h : msgChanOpenInit s env port o hops cpPort version app = (s', out)) : Tr s s' := by
  unfold msgChanOpenInit at h
  msplit h
  msubst h
  exact tr_chanNew s port "init" _ _ (.inl rfl)

theorem tr_msgChanOpenTry {s s' : ChainState} {env : Env} {port : Id} {o : Order} {hops : List Id} {cpPort cpChan : Id}
    {cpVersion : String} {app : AppV1} {out : Out}
    (h : msgChanOpenTry s env port o hops cpPort cpChan cpVersion app = (s', out)) : Tr s s' := by
  unfold msgChanOpenTry at h
  msplit h
  msubst h
  exact tr_chanNew s port "try" _ _ (.inr rfl)

/-- an existing channel end is rewritten (handshake ack/confirm, close), optionally registering the alias -/
theorem tr_chanUpdate (s : ChainState) (port chan : Id) (k : String) (B : FMap String String) (ch ch' : Channel)
    (C : FMap Id (Id × List Hex)) (A : FMap Id Id)
    (hch : s.chan.get (port, chan) = some ch)
    (h1 : ch'.ordering = ch.ordering) (h2 : ch'.cpPort = ch.cpPort) (h3 : ch'.hops = ch.hops)
    (h4 : ChanTrans ch.state ch'.state)
    (h5 : (ch'.version ≠ ch.version ∨ ch'.cpChan ≠ ch.cpChan) → ch.state = .init ∧ ch'.state = .opened)
    (hC : C = s.cpV2 ∨ ∃ v, C = s.cpV2.set chan v) (hk : k ≠ "init" ∧ k ≠ "try") :
    Tr s { s with chan := s.chan.set (port, chan) ch', cpV2 := C, alias := A,
                  log := s.log ++ [.hs k port chan], app := B } := by
  exact {
    log := .inr ⟨.hs k port chan, rfl, fun h => by rcases h with h | h <;> simp_all⟩
    chanOld := by
      intro p c ch0 h0
      right
      simp only [FMap.get_set]
      split
      · rename_i he; cases he
        rw [hch] at h0; cases h0
        exact ⟨ch', rfl, h1, h2, h3, h4, h5⟩
      · exact ⟨ch0, h0, rfl, rfl, rfl, .inl rfl, by simp⟩
    chanNew := by
      intro p c ch0 h0 hn
      simp only [FMap.get_set] at hn
      split at hn
      · rename_i he; cases he; rw [hch] at h0; cases h0
      · rw [h0] at hn; cases hn
    cpV2 := by
      intro id hid
      rcases hC with rfl | ⟨v, rfl⟩
      · exact hid
      · simp only [FMap.get_set]; split <;> simp_all
    cpV2New := by
      intro id h0 hn
      rcases hC with rfl | ⟨v, rfl⟩
      · exact absurd h0 hn
      · simp only [FMap.get_set] at hn
        split at hn
        · subst_vars; left; exact ⟨port, by simp [hch]⟩
        · exact absurd h0 hn }

theorem registerAlias_ok {s s' : ChainState} {chanId : Id} {ch : Channel} (h : registerAlias s chanId ch = .ok s') :
    ∃ C A, s' = { s with cpV2 := C, alias := A } ∧ (C = s.cpV2 ∨ ∃ v, C = s.cpV2.set chanId v) := by
  unfold registerAlias at h
  esplit h
  · simp only [Except.ok.injEq] at h
    exact ⟨_, _, h.symm, .inr ⟨_, rfl⟩⟩
  · simp only [Except.ok.injEq] at h
    exact ⟨_, _, h.symm, .inl rfl⟩

theorem tr_msgChanOpenAck {s s' : ChainState} {env : Env} {port chan cpChan : Id} {cpVersion : String} {app : AppV1}
    {out : Out} (h : msgChanOpenAck s env port chan cpChan cpVersion app = (s', out)) : Tr s s' := by
  unfold msgChanOpenAck at h
  msplit h
  msubst h
  obtain ⟨C, A, hs, hC⟩ := registerAlias_ok ‹registerAlias _ chan _ = Except.ok _›
  subst hs
  have hch := ‹s.chan.get (port, chan) = some _›
  have hst := ‹¬_ ≠ ChanState.init›
  simp only [ne_eq, Decidable.not_not] at hst
  exact tr_chanUpdate s port chan "ack" _ _ _ C A hch rfl rfl rfl (.inr (.inl ⟨hst, rfl⟩))
    (fun _ => ⟨hst, rfl⟩) hC (by decide)

theorem tr_msgChanOpenConfirm {s s' : ChainState} {env : Env} {port chan : Id} {app : AppV1}
    {out : Out} (h : msgChanOpenConfirm s env port chan app = (s', out)) : Tr s s' := by
  unfold msgChanOpenConfirm at h
  msplit h
  msubst h
  obtain ⟨C, A, hs, hC⟩ := registerAlias_ok ‹registerAlias _ chan _ = Except.ok _›
  subst hs
  have hch := ‹s.chan.get (port, chan) = some _›
  have hst := ‹¬_ ≠ ChanState.tryopen›
  simp only [ne_eq, Decidable.not_not] at hst
  exact tr_chanUpdate s port chan "confirm" _ _ _ C A hch rfl rfl rfl (.inr (.inr (.inl ⟨hst, rfl⟩)))
    (fun h => by simp at h) (by simpa using hC) (by decide)

theorem tr_msgChanCloseInit {s s' : ChainState} {env : Env} {port chan : Id} {app : AppV1}
    {out : Out} (h : msgChanCloseInit s env port chan app = (s', out)) : Tr s s' := by
  unfold msgChanCloseInit at h
  msplit h
  msubst h
  have hch := ‹_ = some _›
  have hst := ‹¬ _ = ChanState.closed›
  exact tr_chanUpdate s port chan "closeInit" _ _ _ s.cpV2 s.alias hch rfl rfl rfl (.inr (.inr (.inr ⟨hst, rfl⟩)))
    (fun h => by simp at h) (.inl rfl) (by decide)

theorem tr_msgChanCloseConfirm {s s' : ChainState} {env : Env} {port chan : Id} {app : AppV1}
    {out : Out} (h : msgChanCloseConfirm s env port chan app = (s', out)) : Tr s s' := by
  unfold msgChanCloseConfirm at h
  msplit h
  msubst h
  have hch := ‹_ = some _›
  have hst := ‹¬ _ = ChanState.closed›
  exact tr_chanUpdate s port chan "closeConfirm" _ _ _ s.cpV2 s.alias hch rfl rfl rfl (.inr (.inr (.inr ⟨hst, rfl⟩)))
    (fun h => by simp at h) (.inl rfl) (by decide)

/-! ### connections, clients, authorisation -/

theorem addConnectionToClient_ok {s s' : ChainState} {client connId : Id}
    (h : addConnectionToClient s client connId = .ok s') : ∃ X, s' = { s with clientConns := X } := by
  unfold addConnectionToClient at h
  esplit h
  simp only [Except.ok.injEq] at h
  exact ⟨_, h.symm⟩

/-- a new connection end is stored under the generated identifier -/
theorem tr_connNew (s : ChainState) (X : FMap Id (List Id)) (e : ConnEnd)
    (hst : e.state = .init ∨ e.state = .tryopen) (hcl : e.client ≠ localhostClient)
    (hv : e.state = .tryopen → ∃ v, e.versions = [v]) :
    Tr s { s with nextConnSeq := s.nextConnSeq + 1, clientConns := X,
                  conn := s.conn.set (fmtConn s.nextConnSeq) e,
                  log := s.log ++ [.genConn (fmtConn s.nextConnSeq)] } := by
  exact {
    log := .inr ⟨.genConn (fmtConn s.nextConnSeq), rfl, rfl, rfl⟩
    connOld := by
      intro c e0 h0
      by_cases hc : c = fmtConn s.nextConnSeq
      · left; exact hc
      · right; exact ⟨e0, by simp [FMap.get_set, hc, h0], .inl rfl⟩
    connNew := by
      intro c e' h0 h1
      simp only [FMap.get_set] at h1
      split at h1
      · subst_vars; cases h1; exact ⟨rfl, rfl, hst, hcl, hv⟩
      · rw [h0] at h1; cases h1 }

theorem tr_msgConnOpenInit {s s' : ChainState} {env : Env} {client cpClient : Id} {cpPrefix : Hex}
    {version : Option Version} {delay : Nat} {out : Out}
    (h : msgConnOpenInit s env client cpClient cpPrefix version delay = (s', out)) : Tr s s' := by
  unfold msgConnOpenInit at h
  msplit h
  all_goals
    msubst h
    obtain ⟨X, hX⟩ := addConnectionToClient_ok ‹addConnectionToClient _ _ _ = Except.ok _›
    subst hX
    exact tr_connNew s X _ (.inl rfl) ‹_› (fun h => by simp at h)

theorem tr_msgConnOpenTry {s s' : ChainState} {env : Env} {client cpClient cpConn : Id} {cpPrefix : Hex}
    {versions : List Version} {delay : Nat} {out : Out}
    (h : msgConnOpenTry s env client cpClient cpConn cpPrefix versions delay = (s', out)) : Tr s s' := by
  unfold msgConnOpenTry at h
  msplit h
  all_goals
    msubst h
    obtain ⟨X, hX⟩ := addConnectionToClient_ok ‹addConnectionToClient _ _ _ = Except.ok _›
    subst hX
    exact tr_connNew s X _ (.inr rfl) ‹_› (fun _ => ⟨_, rfl⟩)

/-- an existing connection end is rewritten -/
theorem tr_connUpdate (s : ChainState) (c : Id) (e e' : ConnEnd) (hc : s.conn.get c = some e) (hs : ConnStep e e') :
    Tr s { s with conn := s.conn.set c e' } := by
  exact {
    log := .inl rfl
    connOld := by
      intro c0 e0 h0
      right
      simp only [FMap.get_set]
      split
      · subst_vars; rw [hc] at h0; cases h0; exact ⟨e', rfl, hs⟩
      · exact ⟨e0, h0, .inl rfl⟩
    connNew := by
      intro c0 e0 h0 h1
      simp only [FMap.get_set] at h1
      split at h1
      · subst_vars; rw [hc] at h0; cases h0
      · rw [h0] at h1; cases h1 }

theorem tr_msgConnOpenAck {s s' : ChainState} {env : Env} {connId cpConn : Id} {version : Version} {out : Out}
    (h : msgConnOpenAck s env connId cpConn version = (s', out)) : Tr s s' := by
  unfold msgConnOpenAck at h
  msplit h
  msubst h
  have hst := ‹¬_ ≠ ConnState.init›
  simp only [ne_eq, Decidable.not_not] at hst
  have hv := ‹¬(!isSupportedVersion _ version) = true›
  simp only [Bool.not_eq_true', Bool.not_eq_false] at hv
  exact tr_connUpdate s connId _ _ ‹_› (.inr (.inl ⟨hst, rfl, rfl, rfl, rfl, rfl, version, rfl, by simpa using hv⟩))

theorem tr_msgConnOpenConfirm {s s' : ChainState} {env : Env} {connId : Id} {out : Out}
    (h : msgConnOpenConfirm s env connId = (s', out)) : Tr s s' := by
  unfold msgConnOpenConfirm at h
  msplit h
  msubst h
  have hst := ‹¬_ ≠ ConnState.tryopen›
  simp only [ne_eq, Decidable.not_not] at hst
  exact tr_connUpdate s connId _ _ ‹_› (.inr (.inr ⟨hst, rfl⟩))

theorem route_ok {s : ChainState} {cid : Id} (h : route s cid = .ok ()) : IsClientId cid := by
  unfold route at h
  split at h
  · cases h
  · rename_i ctype n hp
    split at h
    · cases h
    · split at h
      · cases h
      · exact ⟨ctype, n, hp, by simp_all⟩

theorem tr_msgCreateClient {s s' : ChainState} {env : Env} {ctype : String} {out : Out}
    (h : msgCreateClient s env ctype = (s', out)) : Tr s s' := by
  unfold msgCreateClient at h
  msplit h
  msubst h
  have hr : route _ (fmtClient ctype s.nextClientSeq) = Except.ok _ := ‹_›
  have hcid : IsClientId (fmtClient ctype s.nextClientSeq) := route_ok hr
  exact {
    log := .inr ⟨.genClient (fmtClient ctype s.nextClientSeq), rfl, ⟨ctype, rfl⟩, rfl⟩
    clientStateNew := by
      intro id h0 h1
      simp only [ChainState.logAdd, FMap.get_set] at h1
      split at h1
      · subst_vars; exact ⟨hcid, ⟨ctype, rfl⟩, rfl⟩
      · exact absurd h0 h1
    creatorNew := by
      intro id h0 h1
      simp only [ChainState.logAdd, FMap.get_set] at h1 ⊢
      split at h1
      · subst_vars; simp
      · exact absurd h0 h1 }

theorem tr_msgUpdateClient {s s' : ChainState} {env : Env} {cid : Id} {out : Out}
    (h : msgUpdateClient s env cid = (s', out)) : Tr s s' := by
  unfold msgUpdateClient at h
  msplit h

theorem tr_msgRegisterCounterparty {s s' : ChainState} {env : Env} {cid cpClient : Id} {pfx : List Hex} {out : Out}
    (h : msgRegisterCounterparty s env cid cpClient pfx = (s', out)) : Tr s s' := by
  unfold msgRegisterCounterparty at h
  msplit h
  msubst h
  have hcr : s.creator.get cid ≠ none := by
    have := ‹¬s.creator.get cid ≠ some env.signer›
    simp only [ne_eq, Decidable.not_not] at this
    rw [this]; simp
  have hcp : s.cpV2.get cid = none := by
    rw [← FMap.has_false_iff]; simpa using ‹¬s.cpV2.has cid = true›
  exact {
    log := .inl rfl
    nextSend := by
      intro id n hn
      simp only [FMap.get_set]
      split
      · subst_vars; right; right; right; exact ⟨hcp, hcr⟩
      · left; exact hn
    nextSendNew := by
      intro id n h0 h1
      simp only [FMap.get_set] at h1
      split at h1
      · subst_vars; cases h1
        exact ⟨rfl, .inr ⟨hcp, hcr⟩, .inr (by simp)⟩
      · rw [h0] at h1; cases h1
    cpV2 := by
      intro id hid
      simp only [FMap.get_set]; split <;> simp_all
    cpV2New := by
      intro id h0 h1
      simp only [FMap.get_set] at h1
      split at h1
      · subst_vars; right; exact hcr
      · exact absurd h0 h1 }

theorem tr_msgUpdateClientConfig {s s' : ChainState} {env : Env} {cid : Id} {relayers : List String} {out : Out}
    (h : msgUpdateClientConfig s env cid relayers = (s', out)) : Tr s s' := by
  unfold msgUpdateClientConfig at h
  msplit h
  msubst h
  exact { log := .inl rfl }

theorem tr_msgDeleteClientCreator {s s' : ChainState} {env : Env} {cid : Id} {out : Out}
    (h : msgDeleteClientCreator s env cid = (s', out)) : Tr s s' := by
  unfold msgDeleteClientCreator at h
  msplit h
  msubst h
  exact {
    log := .inl rfl
    creatorNew := by
      intro id h0 h1
      simp only [FMap.get_del] at h1
      split at h1
      · exact absurd rfl h1
      · exact absurd h0 h1 }

theorem tr_msgRecoverClient {s s' : ChainState} {env : Env} {a b : Id} {out : Out}
    (h : msgRecoverClient s env a b = (s', out)) : Tr s s' := by
  unfold msgRecoverClient at h
  msplit h

theorem tr_msgUpdateClientParams {s s' : ChainState} {env : Env} {a : List String} {out : Out}
    (h : msgUpdateClientParams s env a = (s', out)) : Tr s s' := by
  unfold msgUpdateClientParams at h
  msplit h
  msubst h
  exact { log := .inl rfl }

theorem tr_msgUpdateConnParams {s s' : ChainState} {env : Env} {a : Nat} {out : Out}
    (h : msgUpdateConnParams s env a = (s', out)) : Tr s s' := by
  unfold msgUpdateConnParams at h
  msplit h
  msubst h
  exact { log := .inl rfl }

theorem tr_msgIBCSoftwareUpgrade {s s' : ChainState} {env : Env} {a : Bool} {out : Out}
    (h : msgIBCSoftwareUpgrade s env a = (s', out)) : Tr s s' := by
  unfold msgIBCSoftwareUpgrade at h
  msplit h

/-! ### every step -/

theorem step_tr {s s' : ChainState} {op : Op} {out : Out} (h : step s op = (s', out)) : Tr s s' := by
  unfold step at h
  simp only at h
  split at h
  · msubst h; exact Tr.refl _
  · split at h
    · exact tr_msgConnOpenInit h
    · exact tr_msgConnOpenTry h
    · exact tr_msgConnOpenAck h
    · exact tr_msgConnOpenConfirm h
    · exact tr_msgChanOpenInit h
    · exact tr_msgChanOpenTry h
    · exact tr_msgChanOpenAck h
    · exact tr_msgChanOpenConfirm h
    · exact tr_msgChanCloseInit h
    · exact tr_msgChanCloseConfirm h
    · split at h
      · split at h <;> (msubst h; exact Tr.refl _)
      · msubst h; exact tr_sendV1 ‹_›
    · exact tr_msgRecvPacket h
    · exact tr_msgAcknowledgement h
    · exact tr_msgTimeout h
    · exact tr_msgTimeoutOnClose h
    · unfold done at h
      split at h
      · msubst h; exact tr_writeAckV1 ‹_›
      · split at h <;> (msubst h; exact Tr.refl _)
    · exact tr_msgSendPacketV2 h
    · exact tr_msgRecvPacketV2 h
    · exact tr_msgAcknowledgementV2 h
    · exact tr_msgTimeoutV2 h
    · unfold done at h
      split at h
      · msubst h; exact tr_asyncWriteAckV2 ‹_›
      · split at h <;> (msubst h; exact Tr.refl _)
    · exact tr_msgCreateClient h
    · exact tr_msgUpdateClient h
    · exact tr_msgRegisterCounterparty h
    · exact tr_msgUpdateClientConfig h
    · exact tr_msgDeleteClientCreator h
    · exact tr_msgRecoverClient h
    · exact tr_msgUpdateClientParams h
    · exact tr_msgUpdateConnParams h
    · exact tr_msgIBCSoftwareUpgrade h

end IbcVerif.Chain
