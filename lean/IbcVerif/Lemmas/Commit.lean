import IbcVerif.Model.Commit
import IbcVerif.Lemmas.Bytes
namespace IbcVerif.Commit

/-- an explicit hash collision -/
def Collision (H : Bytes → Bytes) : Prop := ∃ x y, x ≠ y ∧ H x = H y

/-- collision extraction: from "no collision" we may treat `H` as injective -/
theorem inj_of_no_collision {H : Bytes → Bytes} (h : ¬ Collision H) : ∀ x y, H x = H y → x = y := by
  intro x y e
  exact Decidable.byContradiction fun ne => h ⟨x, y, ne, e⟩

section
variable (H : Bytes → Bytes) (hlen : ∀ b, (H b).length = 32)
include hlen

theorem preimageV1_length (p : PacketV1) : (preimageV1 H p).length = 56 := by
  simp [preimageV1, be64_length, hlen]

theorem preimageV1_fields {p q : PacketV1} (hp : p.WF) (hq : q.WF) (h : preimageV1 H p = preimageV1 H q) :
    p.timeoutTs = q.timeoutTs ∧ p.revNumber = q.revNumber ∧ p.revHeight = q.revHeight ∧ H p.data = H q.data := by
  unfold preimageV1 at h
  have ⟨h123, h4⟩ := List.append_inj h (by simp [be64_length])
  have ⟨h12, h3⟩ := List.append_inj h123 (by simp [be64_length])
  have ⟨h1, h2⟩ := List.append_inj h12 (by simp [be64_length])
  exact ⟨be64_inj hp.1 hq.1 h1, be64_inj hp.2.1 hq.2.1 h2, be64_inj hp.2.2 hq.2.2 h3, h4⟩

theorem payloadPreimage_length (d : Payload) : (payloadPreimage H d).length = 160 := by
  simp [payloadPreimage, hlen]

theorem payloadPreimage_fields {d e : Payload} (h : payloadPreimage H d = payloadPreimage H e) :
    H d.sourcePort = H e.sourcePort ∧ H d.destPort = H e.destPort ∧ H d.version = H e.version ∧
    H d.encoding = H e.encoding ∧ H d.value = H e.value := by
  unfold payloadPreimage at h
  have ⟨h1234, h5⟩ := List.append_inj h (by simp [hlen])
  have ⟨h123, h4⟩ := List.append_inj h1234 (by simp [hlen])
  have ⟨h12, h3⟩ := List.append_inj h123 (by simp [hlen])
  have ⟨h1, h2⟩ := List.append_inj h12 (by simp [hlen])
  exact ⟨h1, h2, h3, h4, h5⟩

theorem preimageV2_length (p : PacketV2) : (preimageV2 H p).length = 97 := by
  simp [preimageV2, hlen]

theorem preimageV2_fields {p q : PacketV2} (h : preimageV2 H p = preimageV2 H q) :
    H p.destClient = H q.destClient ∧ H (be64 p.timeoutTs) = H (be64 q.timeoutTs) ∧
    H (appBytes H p.payloads) = H (appBytes H q.payloads) := by
  unfold preimageV2 at h
  have h' := List.append_cancel_left h
  have ⟨h12, h3⟩ := List.append_inj h' (by simp [hlen])
  have ⟨h1, h2⟩ := List.append_inj h12 (by simp [hlen])
  exact ⟨h1, h2, h3⟩

theorem appBytes_inj {ps qs : List Payload} (h : appBytes H ps = appBytes H qs) :
    ps.map (hashPayload H) = qs.map (hashPayload H) := by
  unfold appBytes at h
  apply flatten_inj_of_length 32 (by decide) _ _ _ _ h
  · intro x hx; simp only [List.mem_map] at hx; obtain ⟨d, _, rfl⟩ := hx; exact hlen _
  · intro x hx; simp only [List.mem_map] at hx; obtain ⟨d, _, rfl⟩ := hx; exact hlen _

theorem ackBlocks_inj {as bs : List Bytes} (h : (as.map H).flatten = (bs.map H).flatten) :
    as.map H = bs.map H := by
  apply flatten_inj_of_length 32 (by decide) _ _ _ _ h
  · intro x hx; simp only [List.mem_map] at hx; obtain ⟨d, _, rfl⟩ := hx; exact hlen _
  · intro x hx; simp only [List.mem_map] at hx; obtain ⟨d, _, rfl⟩ := hx; exact hlen _

end

theorem map_inj_of_inj {α β : Type} (f : α → β) (hf : ∀ x y, f x = f y → x = y) :
    ∀ (l1 l2 : List α), l1.map f = l2.map f → l1 = l2
  | [], [], _ => rfl
  | [], _ :: _, h => by simp at h
  | _ :: _, [], h => by simp at h
  | a :: as, b :: bs, h => by
      simp only [List.map_cons, List.cons.injEq] at h
      rw [hf a b h.1, map_inj_of_inj f hf as bs h.2]

end IbcVerif.Commit
